#!/bin/sh
# usage: tools/rmseedwt.sh <dir>
git -C /repo worktree remove --force "$1" 2>/dev/null || rm -rf "$1"
git -C /repo worktree prune
