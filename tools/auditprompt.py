#!/usr/bin/env python3
"""prompt for an independent audit agent: find violations of the given properties on the UNCHANGED tree"""
import json, sys
wt = sys.argv[1]; pids = sys.argv[2:]
round3 = pids and pids[0] == "round3"
round2 = pids and pids[0] in ("round2", "round3")
if round2: pids = pids[1:]
props = {json.loads(l)['id']: json.loads(l) for l in open('/verif/properties.jsonl')}
out = ("/tmp/auditout3/" if round3 else "/tmp/auditout2/" if round2 else "/tmp/auditout/") + "-".join(pids)
txt = []
for pid in pids:
    p = props[pid]
    txt.append(f"""id: {p['id']}
title: {p['title']}
statement: {p['statement']}
quantifier: {p['quantifier']['text']}
anchored in: {', '.join(p['anchors']['files'])}
mechanisms: {'; '.join(m['name'] + ' (' + m['where'] + ')' for m in p['anchors']['mechanism'])}
observable at: {', '.join(p['anchors'].get('observe_at') or [])}
""")
KNOWN1 = """Already known and to be skipped (do not spend time re-finding these): day counts above 910674 (dates from 4094-05-05 given as ldn/jdn/mdn/epoch) print 0000-00-00; ddiff counts years/months in the calendar the FORMAT implies rather than the operand's; ddiff -f %db from a weekend day back to a weekday is 0b (antisymmetric reading pinned by tests); %dB prints a control byte; year+%U/%W+weekday formats read back a week off; %Oy ignores the century of --base; real-second (%rS, +Nrs) results wrap for spans >= 2^31 s, are not leap aware for @epoch / ISO-week / year-day held values; a single line longer than 16 MiB is split in -S mode; CRLF is written back as LF in -S mode; bizda-held values print business-day based %j."""
KNOWN2 = """This is a SECOND audit round: `git log --grep '^fix:' --stat` in the worktree lists about 140 repairs made after a first round - do not re-test what they repaired, but do look near them (a repair may be incomplete, cover one representation and not its sibling, one tool and not the others, argument mode and not stdin mode) and in places no repair touched. Already known and to be skipped (do not spend time re-finding these): day counts above 910674 (dates from 4094-05-05 on, given as or computed through ldn/jdn/mdn/epoch/day counts) print 0000-00-00 (pinned by the test suite); Roman numeral specifiers print nothing unless the value is held as ymd; conversion TO the bizda calendar by dconv -f bizda of non-business days; ddiff counts years/months/weeks in the calendar the FORMAT implies rather than the operand's, and month/year formats with %db print calendar days labelled as business days; ddiff -f %db from a weekend day back to a weekday (antisymmetric reading pinned by tests); %rS next to months, years or business days in one ddiff format is not leap aware; real-second (%rS, +Nrs) results wrap for spans >= 2^31 s; the TAI/GPS label of an inserted second does not read back as itself; a bizda-held date-time plus seconds landing on a weekend, and dround of bizda-held values whose carry day is a weekend; a ymcw Sunday spelt 00 skips the clamp after a month step (pinned by test dseq.52); %dB prints a control byte; year+%U/%W+weekday formats read back a week off around New Year; %Oy ignores the century; ISO year %G and calendar year %Y (or two week counts) in ONE format share a slot; date-TIMES printed as jdn/ldn/mdn day numbers do not read back exactly; %s next to %N does not read back; a single line longer than 16 MiB is split in -S mode; CRLF is written back as LF in -S mode; with two -i formats a digits-only format in front of a match of the other is skipped; bizda-held values print business-day based %j."""
print(f"""You are given a scratch git worktree of the C project hroptatyr/dateutils at {wt} (configured and built in-tree with autotools; binaries in {wt}/src, library in {wt}/lib, documentation in {wt}/info/*.texi and `<tool> --help`; if `make -j8` re-runs configure or src/config.h looks empty run `./config.status --recheck && ./config.status` serially once). Work ONLY inside {wt} and {out}; do not read or touch /verif or /repo; never use `git stash`; do not modify the sources (this is an audit of the tree as it is).

The software is supposed to satisfy the following semantic properties:

""" + "\n".join(txt) + f"""
Task: act as an adversarial auditor. Find concrete inputs (command lines with the built binaries, stdin contents, small C programs against lib/libdut.a and src/libdutio.a if needed) on which the CURRENT, unmodified tree VIOLATES one of these properties as stated. Read the anchored code looking for unhandled cases, boundary conditions, magic constants, sticky state, option interactions, unusual but documented input spellings, large counts, range ends (years 1601 and 4095), sequences of several arguments/durations/specs in one invocation, and disagreement between two code paths that should agree; then confirm each suspicion by running it. Use brute-force cross-checks where cheap (python3 datetime/calendar is available as an independent oracle for the Gregorian/ISO calendar between years 1 and 9999; GNU date for epoch arithmetic).

Rules: a finding counts only if (a) the input is within what the property covers (valid dates in 1601..4095, documented options and formats), (b) you ran it and saw the wrong behaviour, (c) you can say what the property demands instead and why. Things that are merely undocumented, cosmetic (padding, Sunday as 0 or 7), or documented limitations are not findings - list them separately as "borderline". """ + (KNOWN2 if round2 else KNOWN1) + f"""

Deliverable: write {out}/findings.md with one section per finding: property id, exact reproduction (commands and observed output), expected by the property, suspected root cause (file:function), how you cross-checked; then a "borderline" list. Aim for breadth over polish: spend your effort on finding as many DISTINCT genuine violations as you can (different root causes), up to about 10; stop when an hour of looking yields nothing new. Final message: the list of findings, one line each.""")
