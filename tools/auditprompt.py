#!/usr/bin/env python3
"""prompt for an independent audit agent: find violations of the given properties on the UNCHANGED tree"""
import json, sys
wt = sys.argv[1]; pids = sys.argv[2:]
props = {json.loads(l)['id']: json.loads(l) for l in open('/verif/properties.jsonl')}
out = "/tmp/auditout/" + "-".join(pids)
txt = []
for pid in pids:
    p = props[pid]
    txt.append(f"""id: {p['id']}
title: {p['title']}
statement: {p['statement']}
quantifier: {p['quantifier']['text']}
anchored in: {', '.join(p['anchors']['files'])}
mechanisms: {'; '.join(m['name'] + ' (' + m['where'] + ')' for m in p['anchors']['mechanism'])}
observable at: {', '.join(p['anchors'].get('observe_at') or [])}
""")
print(f"""You are given a scratch git worktree of the C project hroptatyr/dateutils at {wt} (configured and built in-tree with autotools; binaries in {wt}/src, library in {wt}/lib, documentation in {wt}/info/*.texi and `<tool> --help`; if `make -j8` re-runs configure or src/config.h looks empty run `./config.status --recheck && ./config.status` serially once). Work ONLY inside {wt} and {out}; do not read or touch /verif or /repo; never use `git stash`; do not modify the sources (this is an audit of the tree as it is).

The software is supposed to satisfy the following semantic properties:

""" + "\n".join(txt) + f"""
Task: act as an adversarial auditor. Find concrete inputs (command lines with the built binaries, stdin contents, small C programs against lib/libdut.a and src/libdutio.a if needed) on which the CURRENT, unmodified tree VIOLATES one of these properties as stated. Read the anchored code looking for unhandled cases, boundary conditions, magic constants, sticky state, option interactions, unusual but documented input spellings, large counts, range ends (years 1601 and 4095), sequences of several arguments/durations/specs in one invocation, and disagreement between two code paths that should agree; then confirm each suspicion by running it. Use brute-force cross-checks where cheap (python3 datetime/calendar is available as an independent oracle for the Gregorian/ISO calendar between years 1 and 9999; GNU date for epoch arithmetic).

Rules: a finding counts only if (a) the input is within what the property covers (valid dates in 1601..4095, documented options and formats), (b) you ran it and saw the wrong behaviour, (c) you can say what the property demands instead and why. Things that are merely undocumented, cosmetic (padding, Sunday as 0 or 7), or documented limitations are not findings - list them separately as "borderline". Already known and to be skipped (do not spend time re-finding these): day counts above 910674 (dates from 4094-05-05 given as ldn/jdn/mdn/epoch) print 0000-00-00; ddiff counts years/months in the calendar the FORMAT implies rather than the operand's; ddiff -f %db from a weekend day back to a weekday is 0b (antisymmetric reading pinned by tests); %dB prints a control byte; year+%U/%W+weekday formats read back a week off; %Oy ignores the century of --base; real-second (%rS, +Nrs) results wrap for spans >= 2^31 s, are not leap aware for @epoch / ISO-week / year-day held values; a single line longer than 16 MiB is split in -S mode; CRLF is written back as LF in -S mode; bizda-held values print business-day based %j.

Deliverable: write {out}/findings.md with one section per finding: property id, exact reproduction (commands and observed output), expected by the property, suspected root cause (file:function), how you cross-checked; then a "borderline" list. Aim for breadth over polish: spend your effort on finding as many DISTINCT genuine violations as you can (different root causes), up to about 10; stop when an hour of looking yields nothing new. Final message: the list of findings, one line each.""")
