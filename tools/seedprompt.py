#!/usr/bin/env python3
"""print the prompt for a seeded-change sub-agent: only the property text and its own worktree"""
import json, sys
pid = sys.argv[1]
wt = sys.argv[2]
wave2 = len(sys.argv) > 3 and sys.argv[3] == "wave2"
wave3 = len(sys.argv) > 3 and sys.argv[3] in ("wave3", "wave4", "wave5")
wave4 = len(sys.argv) > 3 and sys.argv[3] in ("wave4", "wave5")
wave5 = len(sys.argv) > 3 and sys.argv[3] == "wave5"
out = "/tmp/seedout/%s%s" % (pid, "w2" if wave2 else "w5" if wave5 else "w4" if wave4 else "w3" if wave3 else "")
for l in open('/verif/properties.jsonl'):
    p = json.loads(l)
    if p['id'] == pid:
        break
extra = (" This is a second round: avoid the most obvious site (the first mechanism listed); choose sites from the second half of the mechanisms list, or in a tool under src/ rather than the library where the property involves both, or in code shared with other features (option handling, default formats, buffer management, table generation). At least one of your two changes must need a multi-step sequence of operations, a particular order/history, an interaction of two options, or two cooperating edits at different sites to manifest." if wave2 else "")
if wave3:
    extra = (" This is a third round on a tree that has recently had many repairs (`git log --grep '^fix:' --stat` lists them). Choose sites that earlier rounds are unlikely to have used: code that one of those repairs touched or introduced (a repaired branch, a new helper, a new clamp or bound - re-break it subtly or break its neighbour), or the handling of values held in a less common representation (epoch @N / %s, ISO week dates, ordinal dates, year-month-count-weekday, business-day-of-month, Lilian/Julian/Matlab day numbers) when a second operation or a second operand follows, or a difference between argument mode and stdin/stream mode, or state kept between two inputs, two durations, two formats or two options of one invocation. At least one of your two changes must need a multi-step sequence, a particular order/history, or an interaction of two options or two cooperating edits to manifest. Do NOT use `git stash` (it is shared between worktrees); revert with `git checkout -- .` only. If `make` starts re-running configure, run `./config.status --recheck && ./config.status` once, serially, then `make -j8`.")
if wave4:
    extra = extra.replace('This is a third round', 'This is a FOURTH round (three rounds of such changes and two rounds of repairs came before; make yours different: prefer the tools\' own glue under src/ - main() and proc_line loops, option handling, dt-io.c, dt-io-zone.c, prchunk.c, alist.c, the expression parser - and the library parts touched least so far: getters dt_get_*, comparators, lib/ywd.c, lib/yd.c, lib/ymcw.c, lib/bizda.c, lib/daisy.c, lib/dt-core-tz-glue.c, lib/leaps.c, lib/dt-locale.c, lib/tzmap.c, lib/strops.c; a change may also sit in generated-table input such as lib/*.gperf or the leap-second list handling as long as the build regenerates it). It is a round')
if wave5:
    extra = extra.replace('This is a FOURTH round (three rounds', 'This is a FIFTH round (four rounds') + ' Keep it quick: about 20 minutes in all.'
print(f"""You are given a scratch git worktree of the C project hroptatyr/dateutils at {wt} (already configured and built in-tree with autotools: run `make -j8` in it to rebuild, binaries are in {wt}/src, library sources in {wt}/lib, the test suite is `make -k check -j8` in {wt} and currently passes). Work ONLY inside {wt} (and {out} for your output); do not read or touch /verif or /repo.

Here is a semantic property the software is supposed to satisfy:

id: {p['id']}
title: {p['title']}
statement: {p['statement']}
quantifier: {p['quantifier']['text']}
why the existing tests cannot settle it: {p['why_tests_cant']}
anchored in: {', '.join(p['anchors']['files'])}
mechanisms: {'; '.join(m['name'] + ' (' + m['where'] + ')' for m in p['anchors']['mechanism'])}
observable at: {', '.join(p['anchors'].get('observe_at') or [])}

Task: produce TWO different, independent, realistic source changes (the kind of slip a maintainer could make in a refactoring or an optimisation), each of which BREAKS this property while the project still compiles and the existing test suite (`make -k check -j8`, all tests) still passes. Prefer changes that need something specific to manifest - a particular input region (a year/century/range boundary, a particular weekday or month length), a multi-step sequence of operations, a particular order, an unusual but valid input, or two cooperating sites that each look fine alone - not changes that any ordinary use would expose at once, and not changes to inputs outside what the property covers. Do not weaken or edit the tests. Keep each change small (a few lines).{extra}

For each change k in {{1,2}}:
1. make the change in the worktree, rebuild (`make -j8`), run the full test suite and confirm it passes (report the PASS/FAIL totals);
2. write a demonstration `{out}/change<k>/demo.sh` (a shell script using the built binaries in {wt}/src, taking the tree directory as $1, or a small C program plus build line) that exits non-zero / prints FAIL with the change and exits 0 / prints PASS without it; run it both ways to confirm (with the change applied, and after `git checkout -- .`);
3. save the change as `{out}/change<k>/patch.diff` (`git diff` in the worktree) and write `{out}/change<k>/meta.json` with keys: property, summary (what was changed), needs (what is needed for it to manifest), demo (how to run it), tests (the totals you observed);
4. revert the worktree (`git checkout -- .`) before starting the next change.

Finish with the worktree reverted. Final message: for each change a 3-line summary (what, what it needs to manifest, demo result with/without). Do not write anything outside {wt} and {out}.""")
