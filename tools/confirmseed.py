#!/usr/bin/env python3
"""usage: tools/confirmseed.py <PROPERTY> <seedout-change-dir> <name> [check ids...]
Confirms a seeded change independently in a scratch copy of /repo (never in /repo):
 patch applies, tree builds, baseline suite passes, the demonstration fails with the change and
 passes without it; then runs the listed checks (default: the property's) against the changed copy.
Keeps it as /verif/seeded/<name>/{patch.diff,demo.*,meta.json}."""
import json, os, shutil, subprocess, sys, time

pid, src, name = sys.argv[1:4]
checks = sys.argv[4:] or [pid]
tier = os.environ.get("SEED_TIER", "quick")
d = "/var/tmp/dv-seed.%d" % os.getpid()
clean = d + ".clean"

def sh(cmd, cwd=None, timeout=3600):
    r = subprocess.run(cmd, shell=True, cwd=cwd, capture_output=True, text=True, errors="replace", timeout=timeout)
    return r.returncode, r.stdout + r.stderr

meta = json.load(open(os.path.join(src, "meta.json"))) if os.path.exists(os.path.join(src, "meta.json")) else {}
res = {"property": pid, "confirmed_at": time.strftime("%Y-%m-%dT%H:%M:%SZ", time.gmtime())}
try:
    for t in (d, clean):
        shutil.rmtree(t, ignore_errors=True)
        sh("rsync -a --exclude .git --exclude 'test/*.log' --exclude 'test/*.trs' /repo/ %s/" % t)
    rc, out = sh("patch -p1 --quiet < %s/patch.diff" % os.path.abspath(src), cwd=d)
    res["applies"] = rc == 0
    if rc:
        print("patch does not apply:\n" + out)
        sys.exit(2)
    rc, out = sh("make -j16", cwd=d)
    res["builds"] = rc == 0
    sh("make -j16", cwd=clean)
    rc, out = sh("make -k check -j16 2>&1 | grep -E '^# (TOTAL|PASS|FAIL|ERROR):' | tr '\\n' ' '", cwd=d)
    res["baseline_with_change"] = out.strip()
    res["baseline_passes"] = "# FAIL:  0" in out and "# ERROR: 0" in out
    demo = None
    for fn in sorted(os.listdir(src), key=lambda f: (not f.endswith(".sh"), f)):
        if fn.startswith("demo"):
            demo = fn
            break
    if demo and demo.endswith(".sh"):
        rc1, o1 = sh("sh %s %s" % (os.path.abspath(os.path.join(src, demo)), d), timeout=1200)
        rc0, o0 = sh("sh %s %s" % (os.path.abspath(os.path.join(src, demo)), clean), timeout=1200)
        res["demo_with_change_rc"] = rc1
        res["demo_without_change_rc"] = rc0
        res["demo_ok"] = rc1 != 0 and rc0 == 0
    else:
        res["demo_ok"] = None
    res["checks"] = {}
    for c in checks:
        env = "VERIF_REPO=%s" % d
        rc, out = sh("%s ./check %s --tier %s" % (env, c, tier), cwd="/verif", timeout=7200)
        # a detection only counts if the same check is silent on the unchanged copy (lesson of C07-w2s2 / C19-w2s1:
        # baseline classes that were not listed yet had made two changes look detected)
        rc_clean, _ = sh("VERIF_REPO=%s ./check %s --tier %s" % (clean, c, tier), cwd="/verif", timeout=7200)
        viol = [l for l in out.splitlines() if l.startswith("VIOLATION")]
        cls = [l.strip() for l in out.splitlines() if l.startswith("  class:")]
        res["checks"][c] = {"tier": tier, "exit": rc, "exit_on_unchanged_copy": rc_clean, "violation_lines": len(viol), "first_classes": cls[:4]}
        print("check %s on changed tree: exit %d, %d VIOLATION lines" % (c, rc, len(viol)))
        for l in cls[:3]:
            print("   " + l[:300])
    dst = os.path.join("/verif/seeded", name)
    os.makedirs(dst, exist_ok=True)
    for fn in os.listdir(src):
        p = os.path.join(src, fn)
        if os.path.isfile(p) and (fn.startswith("demo") or fn == "patch.diff" or fn.endswith(".c") or fn.endswith(".py")):
            shutil.copy(p, dst)
    meta.update({"breaks_property": pid, "confirmation": res,
                 "what_was_run": "tools/confirmseed.py: scratch copy of /repo + patch, make, make -k check, demo with/without, ./check %s --tier %s with VERIF_REPO=<copy>" % (" ".join(checks), tier),
                 "detected_by": [c for c in checks if res["checks"][c]["exit"] == 1 and res["checks"][c]["exit_on_unchanged_copy"] == 0]})
    json.dump(meta, open(os.path.join(dst, "meta.json"), "w"), indent=1)
    print("seed %s: applies=%s builds=%s baseline_passes=%s demo_ok=%s detected_by=%s" % (
        name, res["applies"], res["builds"], res["baseline_passes"], res["demo_ok"], meta["detected_by"]))
finally:
    shutil.rmtree(d, ignore_errors=True)
    shutil.rmtree(clean, ignore_errors=True)
