#!/bin/sh
# usage: tools/replaytest.sh <seed-name> <ID>  -- apply the seed to a scratch copy, run the check,
# replay the first violation against the copy (must fail, exit 1) and against /repo (must hold, exit 0)
s="$1"; id="$2"
d="/var/tmp/dv-rt.$$"
rm -rf "$d"; rsync -a --exclude .git --exclude 'test/*.log' --exclude 'test/*.trs' /repo/ "$d"/
(cd "$d" && patch -p1 --quiet < /verif/seeded/$s/patch.diff) || { echo "$s: patch failed"; rm -rf "$d"; exit 2; }
cd /verif
VERIF_REPO="$d" ./check "$id" --tier quick > /tmp/rt.$$.out 2>&1
f=$(grep '^VIOLATION' /tmp/rt.$$.out | head -1 | sed 's/.*replay=//')
if [ -z "$f" ]; then echo "$s $id: NO VIOLATION"; rm -rf "$d" /tmp/rt.$$.out; exit 1; fi
cp "$f" /tmp/rt.$$.json
VERIF_REPO="$d" ./check "$id" --replay /tmp/rt.$$.json > /tmp/rt.$$.r1 2>&1; r1=$?
./check "$id" --replay /tmp/rt.$$.json > /tmp/rt.$$.r2 2>&1; r2=$?
echo "$s $id: replay on changed tree exit=$r1 (want 1), on /repo exit=$r2 (want 0) [$(basename "$f")]"
[ "$r1" = 1 ] || tail -5 /tmp/rt.$$.r1
[ "$r2" = 0 ] || tail -5 /tmp/rt.$$.r2
rm -rf "$d" /tmp/rt.$$.*
