#!/usr/bin/env python3
"""usage: tools/reconfirm.py [-j N] [seed names...]
Development helper (never run by a check): re-confirms the kept seeded changes against the CURRENT /repo
tree, which has moved on by many fix: commits since the seeds were made.  For every /verif/seeded/<name>:
 patch applies to a scratch copy of /repo (outside /repo and /verif), the copy builds, the baseline suite
 passes, the demonstration fails with the change; then the checks recorded in meta.json[detected_by] are run
 (quick tier) against the changed copy.  The outcome goes to meta.json["reconfirmation"] and a table is
 printed.  A patch that no longer applies (the code it touched was repaired or rewritten) is recorded as such."""
import json, os, shutil, subprocess, sys, time
from concurrent.futures import ThreadPoolExecutor

args = sys.argv[1:]
jobs = 3
if args[:1] == ["-j"]:
    jobs = int(args[1]); args = args[2:]
names = args or sorted(os.listdir("/verif/seeded"))
head = subprocess.run("git -C /repo log -1 --format=%h", shell=True, capture_output=True, text=True).stdout.strip()

def sh(cmd, cwd=None, timeout=3600):
    try:
        r = subprocess.run(cmd, shell=True, cwd=cwd, capture_output=True, text=True, errors="replace", timeout=timeout)
        return r.returncode, r.stdout + r.stderr
    except subprocess.TimeoutExpired:
        return 124, "timeout"

def one(name):
    sd = os.path.join("/verif/seeded", name)
    mp = os.path.join(sd, "meta.json")
    meta = json.load(open(mp))
    d = "/var/tmp/dv-reseed.%s" % name
    res = {"head": head, "at": time.strftime("%Y-%m-%dT%H:%M:%SZ", time.gmtime())}
    try:
        shutil.rmtree(d, ignore_errors=True)
        sh("rsync -a --exclude .git --exclude 'test/*.log' --exclude 'test/*.trs' /repo/ %s/" % d)
        rc, out = sh("patch -p1 --quiet < %s/patch.diff" % sd, cwd=d)
        res["applies"] = rc == 0
        if rc == 0:
            rc, out = sh("make -j8", cwd=d)
            res["builds"] = rc == 0
            rc, out = sh("make -k check -j8 2>&1 | grep -E '^# (TOTAL|PASS|FAIL|ERROR):' | tr '\\n' ' '", cwd=d)
            res["baseline_passes"] = "# FAIL:  0" in out and "# ERROR: 0" in out
            demo = [f for f in sorted(os.listdir(sd)) if f.startswith("demo") and f.endswith(".sh")]
            if demo:
                rc1, _ = sh("sh %s %s" % (os.path.join(sd, demo[0]), d), timeout=1200)
                res["demo_fails_with_change"] = rc1 != 0
            checks = meta.get("detected_by") or [meta.get("breaks_property")]
            res["checks"] = {}
            for c in checks:
                rc, out = sh("VERIF_REPO=%s ./check %s --tier quick" % (d, c), cwd="/verif", timeout=7200)
                res["checks"][c] = rc
            res["detected_by"] = [c for c in checks if res["checks"][c] == 1]
    finally:
        shutil.rmtree(d, ignore_errors=True)
    meta["reconfirmation"] = res
    json.dump(meta, open(mp, "w"), indent=1)
    return name, res

with ThreadPoolExecutor(jobs) as ex:
    for name, r in ex.map(one, names):
        print("%-10s applies=%-5s builds=%-5s baseline=%-5s demo_fails=%-5s detected_by=%s" % (
            name, r.get("applies"), r.get("builds"), r.get("baseline_passes"), r.get("demo_fails_with_change"),
            r.get("detected_by")), flush=True)
