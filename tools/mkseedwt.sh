#!/bin/sh
# usage: tools/mkseedwt.sh <dir>  -- scratch git worktree of /repo at HEAD, with the untracked
# build system files (configure output, Makefiles) copied in so that `make` and `make check` work there
set -e
d="$1"
rm -rf "$d"
git -C /repo worktree prune
git -C /repo worktree add --detach "$d" HEAD >/dev/null 2>&1
rsync -a --ignore-existing --exclude .git --exclude '*.o' --exclude '*.a' --exclude 'test/*.log' --exclude 'test/*.trs' /repo/ "$d"/
# built files that are tracked-equal but older than sources are fine; build once so the tree is ready
(cd "$d" && make -j8 >/dev/null 2>&1 || true)
echo "$d ready"
