/* forksrv.h -- run a tool's main() (or any function) in a forked child of the harness.
 *
 * Level M of DESIGN.md §3.2.  The harness translation unit includes the tool:
 *
 *     #define main dseq_main
 *     #include "dseq.c"          (found via -I <tree>/src)
 *     #undef main
 *
 * and calls fs_run(dseq_main, argc, argv, &opts, &res).  In the child:
 *  - argv strings live in exact-size heap blocks (ASan red zones right behind the NUL),
 *  - stdin is served by the read() defined below from a script of chunk sizes
 *    (fd 0 only; all other descriptors go to the kernel),
 *  - time()/gettimeofday()/clock_gettime(CLOCK_REALTIME) answer opts.now if set,
 *  - the environment is cleared and set from opts.env,
 *  - stdout and stderr go to memfds, capped by RLIMIT_FSIZE (a cap hit is an observation),
 *  - alarm(opts.timeout_s) bounds the run (SIGALRM = "did not terminate").
 * The parent collects status, signal, both outputs.
 *
 * Define FS_NO_READ_OVERRIDE / FS_NO_CLOCK_OVERRIDE before including to keep libc's. */
#ifndef VERIF_FORKSRV_H
#define VERIF_FORKSRV_H
#include <stdio.h>
#include <stdlib.h>
#include <string.h>
#include <stdint.h>
#include <unistd.h>
#include <errno.h>
#include <signal.h>
#include <fcntl.h>
#include <time.h>
#include <sys/mman.h>
#include <sys/wait.h>
#include <sys/resource.h>
#include <sys/syscall.h>
#include <sys/time.h>

struct fs_opts {
	const char *stdin_data;		/* NULL: stdin is /dev/null */
	size_t stdin_len;
	const int *chunks;		/* read() result sizes; 0 entries end the script; after the
					 * script (or if NULL) reads are served as large as requested;
					 * a negative entry -E injects errno E once (e.g. -EINTR) */
	int nchunks;
	int64_t now;			/* fake clock (seconds); 0 = real clock */
	const char *const *env;		/* NULL-terminated "K=V" list; NULL = inherit */
	int timeout_s;			/* default 5 */
	size_t out_cap;			/* default 1 MiB */
	int stdin_is_tty_like;		/* unused */
};

struct fs_result {
	int exited, status;		/* exit status if exited */
	int signaled, sig;		/* fatal signal */
	int timed_out;			/* SIGALRM from the limit */
	int capped;			/* SIGXFSZ: output cap hit */
	char *out;
	size_t outlen;
	char *err;
	size_t errlen;
};

/* ---- child-side state ---- */
static const char *fs_in_data;
static size_t fs_in_len, fs_in_pos;
static const int *fs_in_chunks;
static int fs_in_nchunks, fs_in_chunk_i;
static int fs_in_active;
static int64_t fs_fake_now;

#if !defined FS_NO_READ_OVERRIDE
ssize_t
read(int fd, void *buf, size_t n)
{
	if (fd == 0 && fs_in_active) {
		size_t want = n, left = fs_in_len - fs_in_pos;
		if (fs_in_chunks && fs_in_chunk_i < fs_in_nchunks) {
			int c = fs_in_chunks[fs_in_chunk_i++];
			if (c < 0) {
				errno = -c;
				return -1;
			}
			if ((size_t)c < want) {
				want = (size_t)c;
			}
			/* a scripted 0 with data left would read as EOF: serve at least 1 */
			if (want == 0 && left) {
				want = 1;
			}
		}
		if (want > left) {
			want = left;
		}
		memcpy(buf, fs_in_data + fs_in_pos, want);
		fs_in_pos += want;
		return (ssize_t)want;
	}
	return syscall(SYS_read, fd, buf, n);
}
#endif

#if !defined FS_NO_CLOCK_OVERRIDE
time_t
time(time_t *t)
{
	time_t r;
	if (fs_fake_now) {
		r = (time_t)fs_fake_now;
	} else {
		struct timespec ts;
		syscall(SYS_clock_gettime, CLOCK_REALTIME, &ts);
		r = ts.tv_sec;
	}
	if (t) {
		*t = r;
	}
	return r;
}
int
gettimeofday(struct timeval *restrict tv, void *restrict tz)
{
	(void)tz;
	if (fs_fake_now) {
		tv->tv_sec = (time_t)fs_fake_now;
		tv->tv_usec = 0;
	} else {
		struct timespec ts;
		syscall(SYS_clock_gettime, CLOCK_REALTIME, &ts);
		tv->tv_sec = ts.tv_sec;
		tv->tv_usec = ts.tv_nsec / 1000;
	}
	return 0;
}
int
clock_gettime(clockid_t id, struct timespec *ts)
{
	if (fs_fake_now && id == CLOCK_REALTIME) {
		ts->tv_sec = (time_t)fs_fake_now;
		ts->tv_nsec = 0;
		return 0;
	}
	return (int)syscall(SYS_clock_gettime, id, ts);
}
#endif

static char*
fs_slurp(int fd, size_t *len)
{
	off_t sz = lseek(fd, 0, SEEK_END);
	char *b;
	if (sz < 0) {
		sz = 0;
	}
	b = malloc((size_t)sz + 1);
	if (sz && pread(fd, b, (size_t)sz, 0) != sz) {
		sz = 0;
	}
	b[sz] = '\0';
	*len = (size_t)sz;
	return b;
}

static void
fs_free(struct fs_result *r)
{
	free(r->out);
	free(r->err);
	r->out = r->err = NULL;
}

/* run FN(argc, argv) in a child; argv need not be NULL-terminated by the caller */
static int
fs_run(int (*fn)(int, char**), int argc, const char *const argv[], const struct fs_opts *o, struct fs_result *r)
{
	int ofd = memfd_create("fs_out", 0);
	int efd = memfd_create("fs_err", 0);
	pid_t pid;
	int st = 0;

	memset(r, 0, sizeof(*r));
	if (ofd < 0 || efd < 0) {
		perror("memfd_create");
		exit(3);
	}
	fflush(stdout);
	fflush(stderr);
	if ((pid = fork()) < 0) {
		perror("fork");
		exit(3);
	}
	if (pid == 0) {
		struct rlimit rl;
		char **av = malloc(sizeof(*av) * ((size_t)argc + 1));
		int rc;

		/* let the limit signals kill us: the parent's handlers are not ours */
		signal(SIGALRM, SIG_DFL);
		signal(SIGXFSZ, SIG_DFL);
		signal(SIGSEGV, SIG_DFL);
		signal(SIGBUS, SIG_DFL);
		signal(SIGFPE, SIG_DFL);
		signal(SIGABRT, SIG_DFL);
		signal(SIGILL, SIG_DFL);
		signal(SIGPIPE, SIG_DFL);
		{
			struct itimerval z = {{0, 0}, {0, 0}};
			setitimer(ITIMER_REAL, &z, NULL);
		}
		for (int i = 0; i < argc; i++) {
			size_t l = strlen(argv[i]);
			av[i] = malloc(l + 1);
			memcpy(av[i], argv[i], l + 1);
		}
		av[argc] = NULL;
		if (o && o->env) {
			clearenv();
			for (const char *const *e = o->env; *e; e++) {
				putenv(strdup(*e));
			}
		}
		rl.rlim_cur = rl.rlim_max = (o && o->out_cap) ? o->out_cap : (1U << 20);
		setrlimit(RLIMIT_FSIZE, &rl);
		dup2(ofd, 1);
		dup2(efd, 2);
		if (o && o->stdin_data) {
			fs_in_data = o->stdin_data;
			fs_in_len = o->stdin_len;
			fs_in_pos = 0;
			fs_in_chunks = o->chunks;
			fs_in_nchunks = o->nchunks;
			fs_in_chunk_i = 0;
			fs_in_active = 1;
			/* fd 0 must be open and not a tty */
			{
				int n = open("/dev/null", O_RDONLY);
				dup2(n, 0);
				close(n);
			}
		} else {
			int n = open("/dev/null", O_RDONLY);
			dup2(n, 0);
			close(n);
		}
		fs_fake_now = o ? o->now : 0;
		alarm((o && o->timeout_s) ? (unsigned)o->timeout_s : 5U);
		optind = 0;	/* glibc: full getopt re-initialisation */
		rc = fn(argc, av);
		fflush(stdout);
		fflush(stderr);
		_exit(rc & 0xff);
	}
	while (waitpid(pid, &st, 0) < 0 && errno == EINTR) {
		;
	}
	if (WIFEXITED(st)) {
		r->exited = 1;
		r->status = WEXITSTATUS(st);
	} else if (WIFSIGNALED(st)) {
		r->signaled = 1;
		r->sig = WTERMSIG(st);
		r->timed_out = r->sig == SIGALRM;
		r->capped = r->sig == SIGXFSZ;
	}
	r->out = fs_slurp(ofd, &r->outlen);
	r->err = fs_slurp(efd, &r->errlen);
	close(ofd);
	close(efd);
	return 0;
}

/* one-line description of how a run ended */
static const char*
fs_ending(const struct fs_result *r)
{
	static char buf[64];
	if (r->timed_out) {
		return "did not terminate within the limit";
	}
	if (r->capped) {
		return "output cap hit";
	}
	if (r->signaled) {
		snprintf(buf, sizeof(buf), "killed by signal %d", r->sig);
		return buf;
	}
	snprintf(buf, sizeof(buf), "exit %d", r->status);
	return buf;
}

#endif	/* VERIF_FORKSRV_H */
