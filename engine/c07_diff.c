/* c07_diff.c -- C07 (parts 2 and 3): business-day difference, and the bizda names.
 *
 * (2) ddiff A B -f %db.  Level S: ddiff.c is included, a pair goes through the
 *     tool's own determine_durfmt -> determine_durtype -> dt_dtdiff ->
 *     __strfdtdur.  Model: Monday-Friday states of the reference machine in the
 *     half-open interval between A (excluded) and B (included), negative when
 *     B is earlier -- the reading under which the difference inverts the
 *     addition of c07_addb.c (self-checked in the model).  When B is a
 *     Saturday/Sunday no addition ends there, the statement then only says
 *     "the half-open interval": either half-open interval is accepted.
 * (3) YYYY-MM-DDb denotes the DD-th Monday-Friday day of the month: every
 *     month x DD in 1..23 through the parser, printed with %F / converted to
 *     the day count / printed by default (must give the same name back); and
 *     every Monday-Friday day printed as bizda (%Y-%m-%db, and the conversion
 *     "bizda" of dconv -f bizda) must give its name.
 * Binding: ddiff -f %db REF < all days; dconv -f %F < all bizda names;
 * dconv -f bizda|%Y-%m-%db < all days. */
#define C03_NO_PROG
#include "impl.h"
#include "explore.h"
#include "refcal.h"
#include "c03_common.h"
#include "c07_common.h"

#define main ddiff_main
#include "ddiff.c"
#undef main

static durfmt_t bd_fmt;

/* the tool's pipeline for one pair; returns length written, -1 if "not defined" */
static int
tool_ddiff(struct dt_dt_s d, struct dt_dt_s d2, const char *ofmt, durfmt_t dfmt, char *buf, size_t bsz)
{
	bool onlydp = dt_sandwich_only_d_p(d) || dt_sandwich_only_d_p(d2);
	dt_dtdurtyp_t dtyp;
	struct dt_dtdur_s dur;

	if (!(dtyp = determine_durtype(d, d2, dfmt))) {
		return -1;
	}
	dur = dt_dtdiff(dtyp, d, d2);
	return (int)__strfdtdur(buf, bsz, ofmt, dur, dfmt, onlydp);
}

static uint64_t *c_eval, *c_trans, *c_nontriv, *c_states, *c_traces, *c_alt, *c_skip_nobd;

static const char *
dcls(const struct rc_day *p)
{
	return p->isbd ? "weekday" : "weekend";
}

/* judge one pair; returns 1 on disagreement */
static int
do_pair(int c, const struct rc_day *a, const struct rc_day *b, struct dt_dt_s va, struct dt_dt_s vb, int replay)
{
	char got[64];
	char *ep;
	long g;
	int n, e1, e2, ok;

	memset(got, 0, sizeof(got));
	n = tool_ddiff(va, vb, "%db", bd_fmt, got, sizeof(got));
	++*c_eval;
	++*c_trans;
	e1 = bz_between(a->rd, b->rd);
	e2 = b->isbd ? e1 : bz_between_alt(a->rd, b->rd);
	if (!a->isbd || !b->isbd || e1 != b->rd - a->rd) {
		/* a weekend day at an end or inside the interval */
		++*c_nontriv;
	}
	ex_outcome(ex_hash_mix(ex_hash(got, strlen(got)), (uint64_t)(b->rd - a->rd)));
	ok = 0;
	if (n > 0) {
		g = strtol(got, &ep, 10);
		ok = ep != got && !strcmp(ep, "b") && (g == e1 || g == e2) && (got[0] != '-' || g < 0 ||
						/* ddiff writes a truncated negative difference as -0 in every unit (`ddiff 2012-03-11 2012-03-10 -f %w`
						 * is -0): zero business days of a pair whose second value is the earlier one may carry the sign */
						(g == 0 && b->rd < a->rd));
		if (ok && g != e1) {
			++*c_alt;
		}
	}
	if (!ok) {
		char key[160];
		snprintf(key, sizeof(key), "diffb cal=%s dir=%s a=%s b=%s", cal_name[c],
			 b->rd > a->rd ? "later" : b->rd < a->rd ? "earlier" : "same", dcls(a), dcls(b));
		if (!ex_viol_known(key, a->rd)) {
			char ta[48], tb[48], cas[64], cmd[256], exp[64];
			cal_text(c, a, ta, sizeof(ta));
			cal_text(c, b, tb, sizeof(tb));
			snprintf(cas, sizeof(cas), "diff %d %d %d", c, a->rd, b->rd);
			snprintf(cmd, sizeof(cmd), "ddiff%s%s %s %s -f %%db", cal_ifmt[c] ? " -i " : "", cal_ifmt[c] ? cal_ifmt[c] : "", ta, tb);
			/* the same pair written -i %s SECONDS is the same two values */
			if (e1 == e2) {
				snprintf(exp, sizeof(exp), "%db", e1);
			} else {
				snprintf(exp, sizeof(exp), "%db or %db", e1, e2);
			}
			ex_viol(key, a->rd, cas, cmd, "%04d-%02d-%02d (%s) to %04d-%02d-%02d (%s) given as '%s' '%s': ddiff -f %%db gives '%s', "
				"Monday-Friday days in the half-open interval: %s%s",
				a->y, a->m, a->d, rc_abbr_wday[a->wd], b->y, b->m, b->d, rc_abbr_wday[b->wd], ta, tb,
				n < 0 ? "(duration not defined)" : got, exp,
				b->isbd ? " (the end is a Monday-Friday day: this is what adding must invert)" : "");
		}
	}
	if (replay) {
		printf("  %04d-%02d-%02d %s -> %04d-%02d-%02d %s (%s): tool gives '%s', model %d%s %s\n",
		       a->y, a->m, a->d, rc_abbr_wday[a->wd], b->y, b->m, b->d, rc_abbr_wday[b->wd], cal_name[c], got, e1,
		       e1 != e2 ? " (or the other half-open interval)" : "", ok ? "(agrees)" : "DISAGREES");
	}
	return !ok;
}

/* ---- (3) bizda names ---- */
enum { B_F, B_DAISY, B_DFLT, NBOBS };
static const char *const bobs_name[NBOBS] = {"%F", "daisy", "dflt"};

static int
do_bizda_name(int y, int m, int bd, int replay)
{
	char text[32], got[NBOBS][64], key[96], cas[64], cmd[128];
	struct dt_dt_s v;
	const struct rc_day *t = NULL;
	int first = rc_rd(y, m, 1);
	int bad = 0;

	for (int k = first; k < first + rc_mlen(y, m); k++) {
		if (rc_tab[k].isbd && rc_tab[k].bd == bd) {
			t = rc_tab + k;
			break;
		}
	}
	if (t == NULL) {
		/* the month has fewer Monday-Friday days: no such date */
		++*c_skip_nobd;
		if (replay) {
			printf("  %04d-%02d has fewer than %d Monday-Friday days: outside the property\n", y, m, bd);
		}
		return 0;
	}
	snprintf(text, sizeof(text), "%04d-%02d-%02db", y, m, bd);
	snprintf(cas, sizeof(cas), "name %d %d %d", y, m, bd);
	v = dt_strpdt(text, NULL, NULL);
	++*c_eval;
	++*c_trans;
	if (dt_unk_p(v) || v.d.typ != DT_BIZDA) {
		ex_viol("bizda-name parse", t->rd, cas, NULL, "'%s' is not accepted as a bizda date by the parser", text);
		if (replay) {
			printf("  '%s' not accepted\n", text);
		}
		return 1;
	}
	memset(got, 0, sizeof(got));
	dt_strfdt(got[B_F], sizeof(got[B_F]), "%F", v);
	snprintf(got[B_DAISY], sizeof(got[B_DAISY]), "%u", obs_daisy(v));
	dt_strfdt(got[B_DFLT], sizeof(got[B_DFLT]), NULL, v);
	*c_eval += 3;
	ex_outcome(ex_hash(got, sizeof(got)));
	for (int o = 0; o < NBOBS; o++) {
		int ok = o == B_F ? ymd_agrees(t, got[o]) : o == B_DAISY ? (unsigned)atol(got[o]) == (unsigned)t->rd + 1U : dflt_agrees(C_BIZDA, t, got[o]);
		if (!ok) {
			bad++;
			snprintf(key, sizeof(key), "bizda-name from-text obs=%s", bobs_name[o]);
			snprintf(cmd, sizeof(cmd), "dconv %s%s", text, o == B_F ? " -f %F" : "");
			ex_viol(key, t->rd, cas, o == B_DAISY ? NULL : cmd, "'%s' is the %d%s Monday-Friday day of %04d-%02d = %04d-%02d-%02d (%s, day count %d); %s observation: '%s'",
				text, bd, vf_ordsuf(bd), y, m, t->y, t->m, t->d, rc_abbr_wday[t->wd], t->rd + 1, bobs_name[o], got[o]);
		}
		if (replay) {
			printf("  '%s' = %04d-%02d-%02d; %s observation '%s' %s\n", text, t->y, t->m, t->d, bobs_name[o], got[o], ok ? "(agrees)" : "DISAGREES");
		}
	}
	return bad;
}

static const char *const tofmt[2] = {"%Y-%m-%db", "bizda"};

static int
do_to_bizda(const struct rc_day *p, int replay)
{
	char text[32], got[64], key[96], cas[64], cmd[128];
	struct dt_dt_s v;
	int bad = 0;

	snprintf(text, sizeof(text), "%04d-%02d-%02d", p->y, p->m, p->d);
	v = dt_strpdt(text, NULL, NULL);
	++*c_eval;
	if (dt_unk_p(v)) {
		return 0;	/* C01's business */
	}
	for (int f = 0; f < 2; f++) {
		int ok;
		memset(got, 0, sizeof(got));
		dt_strfdt(got, sizeof(got), tofmt[f], v);
		++*c_eval;
		++*c_trans;
		ex_outcome(ex_hash_mix(ex_hash(got, strlen(got)), (uint64_t)f));
		ok = dflt_agrees(C_BIZDA, p, got);
		if (!ok) {
			bad++;
			snprintf(key, sizeof(key), "bizda-name to-text fmt=%s", tofmt[f]);
			snprintf(cas, sizeof(cas), "to %d", p->rd);
			snprintf(cmd, sizeof(cmd), "dconv %s -f '%s'", text, tofmt[f]);
			if (!ex_viol_known(key, p->rd)) {
				ex_viol(key, p->rd, cas, cmd, "%s (%s) is the %d%s Monday-Friday day of its month, i.e. %04d-%02d-%02db; printed with '%s': '%s'",
					text, rc_abbr_wday[p->wd], p->bd, vf_ordsuf(p->bd), p->y, p->m, p->bd, tofmt[f], got);
			}
		}
		if (replay) {
			printf("  %s printed with '%s': '%s' %s\n", text, tofmt[f], got, ok ? "(agrees)" : "DISAGREES");
		}
	}
	return bad;
}

/* ---- binding ---- */
struct bind_s {
	int kind;	/* 0: ddiff -f %db REF < days(cal); 1: dconv -f %F < bizda names; 2: dconv -f FMT < ymd days */
	int cal;
	int y, m, d;	/* REF */
	const char *fmt;
};
static const struct bind_s binds[] = {
	{0, C_YMD, 2012, 3, 5, NULL}, {0, C_YMD, 2012, 3, 6, NULL}, {0, C_YMD, 2012, 3, 7, NULL}, {0, C_YMD, 2012, 3, 8, NULL},
	{0, C_YMD, 2012, 3, 9, NULL}, {0, C_YMD, 2012, 3, 10, NULL}, {0, C_YMD, 2012, 3, 11, NULL},
	{1, C_BIZDA, 0, 0, 0, "%F"}, {2, C_YMD, 0, 0, 0, "bizda"}, {2, C_YMD, 0, 0, 0, "%Y-%m-%db"}, {0, C_EPOCH, 2012, 3, 9, NULL},
	/* thorough only from here */
	{0, C_EPOCH, 2012, 3, 10, NULL},
	{0, C_YMD, 1601, 1, 1, NULL}, {0, C_YMD, 1601, 1, 6, NULL}, {0, C_YMD, 1601, 1, 7, NULL}, {0, C_YMD, 4095, 12, 31, NULL},
	{0, C_YMD, 4095, 12, 29, NULL}, {0, C_YMD, 4095, 12, 30, NULL}, {0, C_YMD, 2100, 2, 28, NULL},
	{0, C_YWD, 2012, 3, 9, NULL}, {0, C_YWD, 2012, 3, 10, NULL}, {0, C_YD, 2012, 3, 9, NULL}, {0, C_YD, 2012, 3, 11, NULL},
	{0, C_YMCW, 2012, 3, 9, NULL}, {0, C_YMCW, 2012, 3, 10, NULL}, {0, C_BIZDA, 2012, 3, 9, NULL}, {0, C_BIZDA, 2012, 3, 5, NULL},
	{1, C_BIZDA, 0, 0, 0, "ywd"}, {1, C_BIZDA, 0, 0, 0, "%F %a %db"},
};
#define NBIND_QUICK	11
#define NBIND		((int)(sizeof(binds) / sizeof(*binds)))

static void
bind_cmdline(char *cmd, size_t csz, const struct bind_s *b, const char *tree)
{
	char pre[600];
	const char *tool = b->kind == 0 ? "ddiff" : "dconv";

	if (tree) {
		snprintf(pre, sizeof(pre), "'%s/src/%s'", tree, tool);
	} else {
		snprintf(pre, sizeof(pre), "%s", tool);
	}
	if (b->kind == 0) {
		char ref[48];
		cal_text(b->cal, rc_get(rc_rd(b->y, b->m, b->d)), ref, sizeof(ref));
		snprintf(cmd, csz, "%s -f %%db %s", pre, ref);
	} else {
		snprintf(cmd, csz, "%s -f '%s'", pre, b->fmt);
	}
}

/* what the library level observes for input line of day P; 0 if the day gives no line */
static int
bind_lib(const struct bind_s *b, const struct rc_day *p, char *text, size_t tsz, char *got, size_t gsz)
{
	struct dt_dt_s v;
	int c = b->kind == 2 ? C_YMD : b->cal;

	memset(got, 0, gsz);
	if (!cal_text(c, p, text, tsz)) {
		return 0;
	}
	v = dt_strpdt(text, NULL, NULL);
	if (dt_unk_p(v)) {
		return 1;
	}
	if (b->kind == 0) {
		struct dt_dt_s ref;
		if (cal_value(b->cal, rc_get(rc_rd(b->y, b->m, b->d)), &ref) <= 0) {
			return 1;
		}
		if (tool_ddiff(ref, v, "%db", bd_fmt, got, gsz) < 0) {
			got[0] = '\0';
		}
	} else {
		dt_strfdt(got, gsz, b->fmt, v);
	}
	return 1;
}

static void
do_binding(int k)
{
	char fin[512], fout[512], cmd[2048], cmdline[1024], line[256], got[256], text[64], key[256], cas[64];
	const char *rundir = getenv("VERIF_RUNDIR");
	const struct bind_s *b = binds + k;
	FILE *f;
	int rd, nlines = 0, nin = 0, rc;
	int c = b->kind == 2 ? C_YMD : b->cal;
	EX_CTR(c_bind, "cli_binding_replays");
	EX_CTR(c_bindln, "cli_binding_lines");

	if (rundir == NULL || ex.tree == NULL) {
		return;
	}
	snprintf(fin, sizeof(fin), "%s/c07dbind.%d.in", rundir, k);
	snprintf(fout, sizeof(fout), "%s/c07dbind.%d.out", rundir, k);
	if ((f = fopen(fin, "w")) == NULL) {
		return;
	}
	for (rd = 0; rd < RC_NDAYS; rd++) {
		if (cal_text(c, rc_get(rd), text, sizeof(text))) {
			fprintf(f, "%s\n", text);
			nin++;
		}
	}
	fclose(f);
	bind_cmdline(cmdline, sizeof(cmdline), b, ex.tree);
	snprintf(cmd, sizeof(cmd), "%s < '%s' > '%s' 2>/dev/null", cmdline, fin, fout);
	rc = system(cmd);
	(void)rc;
	++*c_bind;
	bind_cmdline(cmdline, sizeof(cmdline), b, NULL);
	snprintf(key, sizeof(key), "binding %s  (input calendar %s)", cmdline, cal_name[c]);
	if ((f = fopen(fout, "r")) == NULL) {
		ex_viol(key, 0, "", cmdline, "no output from the binary");
		return;
	}
	for (rd = 0; rd < RC_NDAYS; rd++) {
		size_t l;
		if (!bind_lib(b, rc_get(rd), text, sizeof(text), got, sizeof(got))) {
			continue;
		}
		if (!fgets(line, sizeof(line), f)) {
			break;
		}
		l = strlen(line);
		if (l && line[l - 1] == '\n') {
			line[l - 1] = '\0';
		}
		nlines++;
		++*c_bindln;
		if (strcmp(got, line)) {
			char one[1200];
			snprintf(cas, sizeof(cas), "bind %d %d", k, rd);
			snprintf(one, sizeof(one), "echo %s | %s", text, cmdline);
			ex_viol(key, rd, cas, one, "input line %d ('%s'): binary printed '%s', library-level exploration observed '%s'",
				nlines, text, line, got);
		}
	}
	fclose(f);
	if (nlines != nin) {
		ex_viol(key, nlines, "", cmdline, "binary printed %d lines for %d input lines", nlines, nin);
	}
	unlink(fin);
	unlink(fout);
}

static int
replay_binding(const char *cas)
{
	int k, rd;
	char text[64], cmdline[1024], cmd[1400], got[256] = "", line[256] = "";
	const struct bind_s *b;
	FILE *pp;

	if (sscanf(cas, "%d %d", &k, &rd) != 2 || k < 0 || k >= NBIND || rd < 0 || rd >= RC_NDAYS) {
		return ex_replay_result(1, "bad case");
	}
	b = binds + k;
	bind_lib(b, rc_get(rd), text, sizeof(text), got, sizeof(got));
	bind_cmdline(cmdline, sizeof(cmdline), b, ex.tree);
	snprintf(cmd, sizeof(cmd), "echo '%s' | %s 2>/dev/null", text, cmdline);
	if ((pp = popen(cmd, "r"))) {
		if (fgets(line, sizeof(line), pp)) {
			line[strcspn(line, "\n")] = '\0';
		}
		pclose(pp);
	}
	printf("  input '%s': binary '%s' library '%s'\n", text, line, got);
	return ex_replay_result(strcmp(line, got) != 0, "binding entry %d line of rd %d", k, rd);
}

/* calendars of the pairs and their reach */
static const int pair_cal[] = {C_YMD, C_YWD, C_YD, C_YMCW, C_BIZDA, C_LDN, C_EPOCH, C_BIZDAB};
#define NPCAL	((int)(sizeof(pair_cal) / sizeof(*pair_cal)))
#define REACH_MAX	1200	/* on the window days; 400 elsewhere */

int
main(int argc, char *argv[])
{
	int reach[NPCAL];

	ex_init(argc, argv);
	rc_selfcheck();
	bz_init();
	c_states = ex_ctr("states");
	c_traces = ex_ctr("traces");
	c_eval = ex_ctr("evaluations");
	c_trans = ex_ctr("transitions");
	c_nontriv = ex_ctr("nontrivial");
	c_alt = ex_ctr("differences ending on a weekend day that count the other half-open interval (accepted)");
	c_skip_nobd = ex_ctr("skipped:bizda text whose index exceeds the month's Monday-Friday days (no such date)");
	bd_fmt = determine_durfmt("%db");
	reach[0] = ex.thorough ? 400 : 60;
	for (int i = 1; i < NPCAL; i++) {
		reach[i] = ex.thorough ? 40 : 10;
	}

	if (ex.cas) {
		int c, a, b, y, m, bd, rd;
		if (!strncmp(ex.cas, "bind ", 5)) {
			return replay_binding(ex.cas + 5);
		}
		if (sscanf(ex.cas, "diff %d %d %d", &c, &a, &b) == 3 && c >= 0 && c < NCAL && a >= 0 && a < RC_NDAYS && b >= 0 && b < RC_NDAYS) {
			struct dt_dt_s va, vb;
			if (cal_value(c, rc_get(a), &va) <= 0 || cal_value(c, rc_get(b), &vb) <= 0) {
				return ex_replay_result(1, "a day of the pair is not accepted in calendar %s", cal_name[c]);
			}
			return ex_replay_result(do_pair(c, rc_get(a), rc_get(b), va, vb, 1), "diffb cal=%s %d %d", cal_name[c], a, b);
		}
		if (sscanf(ex.cas, "name %d %d %d", &y, &m, &bd) == 3 && y >= RC_MIN_YEAR && y <= RC_MAX_YEAR && m >= 1 && m <= 12) {
			return ex_replay_result(do_bizda_name(y, m, bd, 1) != 0, "bizda name %04d-%02d-%02db", y, m, bd);
		}
		if (sscanf(ex.cas, "to %d", &rd) == 1 && rd >= 0 && rd < RC_NDAYS) {
			return ex_replay_result(do_to_bizda(rc_get(rd), 1) != 0, "to bizda rd=%d", rd);
		}
		return ex_replay_result(1, "bad case string '%s'", ex.cas);
	}

	ex_meta("rule", "(2) pairs (A,B) of states of the reference machine, both written in the same calendar and parsed by the public parser, through "
		"ddiff's own pipeline (ddiff.c included: determine_durfmt('%%db'), determine_durtype, dt_dtdiff, __strfdtdur); oracle: the printed count is the "
		"number of Monday-Friday states in the half-open interval between A (excluded) and B (included), negative if B is earlier - the reading under "
		"which the difference inverts the addition (checked inside the model at start-up); if B is a Saturday/Sunday (no addition ends there) either "
		"half-open interval is accepted (counted). (3) every month x index 1..23 as text YYYY-MM-DDb through the parser, observed as %%F, day count and "
		"default output, must be the DD-th Monday-Friday state of the month (an index beyond the month's count is no date: skipped, counted); every "
		"Monday-Friday state as ymd text printed with %%Y-%%m-%%db and with the conversion format 'bizda' must give its bizda name. "
		"non-trivial (2) = a weekend day lies at an end of or inside the interval");
	ex_meta("bound", "%s tier: (2) all 911,280 days A x B = A+k, |k| <= %d in ymd, |k| <= %d in ywd yd ymcw bizda(Monday-Friday days) ldn epoch(@SECONDS of the days' midnights) bizda-B(YYYY-MM-DDB, counted before ultimo); for A in the four 8-year windows "
		"(1601-08 1897-1904 1997-2004 4088-95) |k| <= 1200 in ymd (B inside or outside the window) and all ordered pairs inside each window; (3) all 29,940 months x 23 indices, all Monday-Friday days x 2 formats; binding runs: %d",
		ex.thorough ? "thorough" : "quick", reach[0], reach[1], ex.thorough ? NBIND : NBIND_QUICK);
	ex_meta("ord", "ordered coordinate of a failure class (lo/hi in findings) = day ordinal rd of the first operand A (0 = 1601-01-01); bizda names: rd of the named day; binding classes: rd of the input line");
	ex_meta("binding", "ddiff -f %%db REF with all days on stdin (REF on each weekday), dconv -f %%F over all bizda names, dconv -f bizda / -f %%Y-%%m-%%db over all days; "
		"binaries of the same build, byte-compared with the library-level observation");

	/* slices: one per year */
	for (int y = RC_MIN_YEAR; y <= RC_MAX_YEAR && !ex_expired_now(); y++) {
		static struct dt_dt_s val[366 + 2 * REACH_MAX + 2];
		static int8_t vok[366 + 2 * REACH_MAX + 2];
		int y0 = rc_yearstart[y], y1 = rc_yearstart[y + 1];

		if (!ex_mine((uint64_t)(y - RC_MIN_YEAR))) {
			continue;
		}
		for (int ci = 0; ci < NPCAL && !ex_expired_now(); ci++) {
			int c = pair_cal[ci];
			/* ymd on the window years: distances up to REACH_MAX, also to days outside the window */
			int rch = (ci == 0 && in_w8(y)) ? REACH_MAX : reach[ci];
			int lo = y0 - rch < 0 ? 0 : y0 - rch;
			int hi = y1 + rch > RC_NDAYS ? RC_NDAYS : y1 + rch;

			for (int rd = lo; rd < hi; rd++) {
				vok[rd - lo] = (int8_t)cal_value(c, rc_get(rd), &val[rd - lo]);
				++*c_eval;
			}
			for (int rd = y0; rd < y1 && !ex_expired_now(); rd++) {
				const struct rc_day *a = rc_get(rd);
				if (ci == 0) {
					++*c_states;
				}
				if (vok[rd - lo] == 0) {
					continue;
				} else if (vok[rd - lo] < 0) {
					char key[64], cas[64];
					snprintf(key, sizeof(key), "parse cal=%s", cal_name[c]);
					snprintf(cas, sizeof(cas), "diff %d %d %d", c, rd, rd);
					ex_viol(key, rd, cas, NULL, "day %04d-%02d-%02d is not accepted by the parser in calendar %s", a->y, a->m, a->d, cal_name[c]);
					continue;
				}
				/* simplest first: k = 0, +1, -1, ... */
				for (int j = 0; j <= 2 * rch; j++) {
					int k = (j + 1) / 2 * ((j & 1) ? 1 : -1);
					int brd = rd + k;
					if (brd < lo || brd >= hi || vok[brd - lo] <= 0) {
						continue;
					}
					do_pair(c, a, rc_get(brd), val[rd - lo], val[brd - lo], 0);
				}
				++*c_traces;
				if (ci == 0 && ex_want_sample()) {
					ex_sample("pairs from %04d-%02d-%02d %s to every day within %d days (ymd; %d days in ywd yd ymcw bizda ldn epoch) through ddiff -f %%db",
						  a->y, a->m, a->d, rc_abbr_wday[a->wd], reach[0], reach[1]);
				}
			}
		}
		/* (3) names of this year */
		for (int m = 1; m <= 12; m++) {
			for (int bd = 1; bd <= 23; bd++) {
				do_bizda_name(y, m, bd, 0);
			}
			++*c_traces;
		}
		for (int rd = y0; rd < y1; rd++) {
			if (rc_tab[rd].isbd) {
				do_to_bizda(rc_get(rd), 0);
			}
		}
	}
	/* all ordered pairs inside the four windows (ymd): one slice per (window, start year) */
	{
		static const int w0[4] = {1601, 1897, 1997, 4088};
		for (int w = 0; w < 4 && !ex_expired_now(); w++) {
			int lo = rc_yearstart[w0[w]], hi = rc_yearstart[w0[w] + 8];
			struct dt_dt_s *wv = malloc(sizeof(*wv) * (size_t)(hi - lo));
			for (int rd = lo; rd < hi; rd++) {
				if (cal_value(C_YMD, rc_get(rd), &wv[rd - lo]) <= 0) {
					wv[rd - lo] = (struct dt_dt_s){DT_UNK};
				}
			}
			for (int yy = 0; yy < 8 && !ex_expired_now(); yy++) {
				if (!ex_mine((uint64_t)(w * 8 + yy))) {
					continue;
				}
				for (int a = rc_yearstart[w0[w] + yy]; a < rc_yearstart[w0[w] + yy + 1] && !ex_expired_now(); a++) {
					for (int b = lo; b < hi; b++) {
						if (abs(b - a) <= REACH_MAX) {
							continue;	/* done above */
						}
						do_pair(C_YMD, rc_get(a), rc_get(b), wv[a - lo], wv[b - lo], 0);
					}
					++*c_traces;
				}
			}
			free(wv);
		}
	}
	{
		int nb = ex.thorough ? NBIND : NBIND_QUICK;
		for (int k = 0; k < nb && !ex_expired_now(); k++) {
			if (ex_mine((uint64_t)k)) {
				do_binding(k);
			}
		}
	}
	return ex_finish();
}
