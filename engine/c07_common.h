/* c07_common.h -- the reference machine restricted to Monday-Friday (C07).
 *
 * Built by one walk over the successor machine: bz_cum[rd] = number of
 * Monday-Friday days among day 0 .. rd, bz_list[i] = the i-th such day
 * (1-based).  Self-checked against the naive formulation (step day by day
 * and count) on the seam windows. */
#ifndef VERIF_C07_COMMON_H
#define VERIF_C07_COMMON_H
#include "refcal.h"

static int *bz_cum;	/* RC_NDAYS entries */
static int *bz_list;	/* bz_n + 1 entries, 1-based */
static int bz_n;

/* the n-th Monday-Friday day strictly after (n > 0) / strictly before (n < 0) day rd; -1 if outside the range */
static int
bz_target(int rd, int n)
{
	int i;

	if (n > 0) {
		i = bz_cum[rd] + n;
	} else if (rc_tab[rd].isbd) {
		i = bz_cum[rd] + n;
	} else {
		i = bz_cum[rd] + n + 1;
	}
	if (i < 1 || i > bz_n) {
		return -1;
	}
	return bz_list[i];
}

/* naive formulation: walk */
static int
bz_target_naive(int rd, int n)
{
	int step = n > 0 ? 1 : -1;
	int left = n > 0 ? n : -n;

	while (left > 0) {
		rd += step;
		if (rd < 0 || rd >= RC_NDAYS) {
			return -1;
		}
		if (rc_tab[rd].wd <= 5) {
			left--;
		}
	}
	return rd;
}

/* Monday-Friday days in the half-open interval between a (excluded) and b
 * (included), signed: the reading under which the difference inverts the
 * addition.  bz_between_alt is the other half-open interval (a included, b excluded). */
static int
bz_between(int a, int b)
{
	if (a <= b) {
		return bz_cum[b] - bz_cum[a];
	}
	/* [b, a) */
	return -((a > 0 ? bz_cum[a - 1] : 0) - (b > 0 ? bz_cum[b - 1] : 0));
}

static int
bz_between_alt(int a, int b)
{
	if (a <= b) {
		/* [a, b) */
		return (b > 0 ? bz_cum[b - 1] : 0) - (a > 0 ? bz_cum[a - 1] : 0);
	}
	/* (b, a] */
	return -(bz_cum[a] - bz_cum[b]);
}

static int
bz_between_naive(int a, int b)
{
	int n = 0;
	if (a <= b) {
		for (int k = a + 1; k <= b; k++) {
			n += rc_tab[k].wd <= 5;
		}
		return n;
	}
	for (int k = b; k < a; k++) {
		n += rc_tab[k].wd <= 5;
	}
	return -n;
}

static void
bz_init(void)
{
	int cum = 0;

	bz_cum = malloc(sizeof(int) * RC_NDAYS);
	bz_list = malloc(sizeof(int) * (RC_NDAYS + 1));
	if (bz_cum == NULL || bz_list == NULL) {
		rc_die("out of memory", 0);
	}
	for (int rd = 0; rd < RC_NDAYS; rd++) {
		if (rc_tab[rd].wd <= 5) {
			bz_list[++cum] = rd;
		}
		bz_cum[rd] = cum;
	}
	bz_n = cum;
	/* 911,280 days = 130,182 weeks + 6 days, starting on a Monday: 5 per week + 5 */
	if (bz_n != 130182 * 5 + 5) {
		rc_die("number of Monday-Friday days", bz_n);
	}
	/* self check against the walk, on the seam windows */
	for (int rd = 0; rd < RC_NDAYS; rd++) {
		int y = rc_tab[rd].y;
		if (!((y >= 1601 && y <= 1602) || (y >= 1999 && y <= 2001) || (y >= 4094))) {
			continue;
		}
		for (int n = -12; n <= 12; n++) {
			if (n && bz_target(rd, n) != bz_target_naive(rd, n)) {
				rc_die("n-th Monday-Friday day, table vs walk", rd);
			}
		}
		for (int k = -15; k <= 15; k++) {
			int b = rd + k;
			if (b < 0 || b >= RC_NDAYS) {
				continue;
			}
			if (bz_between(rd, b) != bz_between_naive(rd, b)) {
				rc_die("Monday-Friday days between, table vs walk", rd);
			}
		}
		/* addition and difference close the loop in the model */
		for (int n = -12; n <= 12; n++) {
			int t;
			if (n && (t = bz_target(rd, n)) >= 0 && bz_between(rd, t) != n) {
				rc_die("model: difference does not invert addition", rd);
			}
		}
	}
}

#endif	/* VERIF_C07_COMMON_H */
