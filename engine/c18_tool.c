/* c18_tool.c -- C18, tool level: the sed mode (-S) of dconv / dadd / dround with
 * the tool's own main() run in a forked child (forksrv.h), stdin served by a
 * scripted read(), stock reader constants.
 *
 * Streams: every sequence of up to K tokens from
 *     {2012-03-01, xx, " ", \n, \r\n, 12:00:00}
 * x compositions of the byte length into read() results: every composition
 * for short streams, beyond that every composition with at most C cuts (C per
 * tier and stream size, see "bound").
 *
 * Oracle, read conservatively from the property:
 *  (I) independence: for every composition the output equals the output of the
 *      single-read run, byte for byte, and the run ends the same way;
 *  (T) transparency of the single-read run, line by line: as many lines out as
 *      in, in order; per line the text outside date/times is unchanged
 *      (comparison of the line with all characters of [0-9:T-] and blanks
 *      between two digits removed: a date and a time separated by one blank may
 *      come back joined by T, that blank belongs to the value); the dates of
 *      the line come back as the tool's result for that date (taken from the
 *      tool's own argument mode: `dadd 2012-03-01 +1d`, `dround 2012-03-01
 *      Mon`, dconv: unchanged), the times unchanged; a missing final newline
 *      may be supplied; \r\n may come back as \n.
 *      Lines in which two values touch (no token between them) are outside the
 *      reading (what is recognised there is not stated): counted as skipped
 *      for the value comparison, still subject to (I).
 * The tool is chosen at compile time (-DC18_TOOL=1 dconv, 2 dadd, 3 dround):
 * the tools' sources cannot share a translation unit. */
#include "impl.h"
#include "explore.h"
#include "forksrv.h"

#if !defined C18_TOOL
# error "compile with -DC18_TOOL=1|2|3"
#endif
#define main tool_main
#if C18_TOOL == 1
# include "dconv.c"
# define TOOLNAME	"dconv"
static const char *const tool_argv[] = {"dconv", "-S"};
static const char *const arg_argv[] = {"dconv", "2012-03-01"};
#elif C18_TOOL == 2
# include "dadd.c"
# define TOOLNAME	"dadd"
static const char *const tool_argv[] = {"dadd", "-S", "+1d"};
static const char *const arg_argv[] = {"dadd", "2012-03-01", "+1d"};
#else
# include "dround.c"
# define TOOLNAME	"dround"
static const char *const tool_argv[] = {"dround", "-S", "Mon"};
static const char *const arg_argv[] = {"dround", "2012-03-01", "Mon"};
#endif
#undef main
#define NTARGV	((int)(sizeof(tool_argv) / sizeof(*tool_argv)))
#define NAARGV	((int)(sizeof(arg_argv) / sizeof(*arg_argv)))

/* tokens 0..5: the text alphabet; 6..8: single bytes NUL, 0x01, 0xff (second alphabet
 * {date, xx, NUL, 0x01, 0xff, blank, \n}: bytes that C string handling trips over,
 * before, directly after and between dates and literals) */
#define NTOK	9
static const char *const tok[NTOK] = {"2012-03-01", "xx", " ", "\n", "\r\n", "12:00:00", "\0", "\x01", "\xff"};
static const size_t toklen[NTOK] = {10, 2, 1, 1, 2, 8, 1, 1, 1};
static const char *const tokname[NTOK] = {"D", "x", "_", "n", "c", "T", "z", "a", "f"};
static const int alphaB[7] = {0, 1, 6, 7, 8, 2, 3};
#define MAXTOK	6
#define MAXS	96

static char date_result[32];	/* what the tool makes of 2012-03-01 in argument mode */
static char cmdline[128];

static uint64_t *c_states, *c_trans, *c_eval, *c_traces, *c_nontriv, *c_streams;

static void
esc(char *out, size_t osz, const char *s, size_t n)
{
	size_t k = 0;
	for (size_t i = 0; i < n && k + 5 < osz; i++) {
		unsigned char c = (unsigned char)s[i];
		if (c == '\n') {
			out[k++] = '\\';
			out[k++] = 'n';
		} else if (c == '\r') {
			out[k++] = '\\';
			out[k++] = 'r';
		} else if (c < 0x20 || c >= 0x7f) {
			k += (size_t)snprintf(out + k, osz - k, "\\x%02x", c);
		} else {
			out[k++] = (char)c;
		}
	}
	out[k] = '\0';
}

static void
run_tool(const char *in, size_t len, const int *chunks, int nchunks, struct fs_result *r)
{
	struct fs_opts o;
	static const char *const env[] = {"LC_ALL=C", "TZ=UTC", NULL};
	memset(&o, 0, sizeof(o));
	o.stdin_data = in;
	o.stdin_len = len;
	o.chunks = chunks;
	o.nchunks = nchunks;
	o.env = env;
	o.timeout_s = 10;
	o.out_cap = 1U << 16;
	fs_run(tool_main, NTARGV, tool_argv, &o, r);
	++*c_eval;
}

#include "c18_families.h"

/* skeleton of a line: without [0-9:T-] and without blanks between two digits */
static size_t
skel(char *out, const char *s, size_t n)
{
	size_t k = 0;
	for (size_t i = 0; i < n; i++) {
		char c = s[i];
		if ((c >= '0' && c <= '9') || c == ':' || c == 'T' || c == '-') {
			continue;
		}
		if (c == ' ' && i > 0 && i + 1 < n && s[i - 1] >= '0' && s[i - 1] <= '9' && s[i + 1] >= '0' && s[i + 1] <= '9') {
			continue;
		}
		out[k++] = c;
	}
	out[k] = '\0';
	return k;
}

/* occurrences of dddd-dd-dd (W = 10) or dd:dd:dd (W = 8) in order, concatenated with ';' */
static void
values(char *out, size_t osz, const char *s, size_t n, int dates)
{
	static const char *const pat[2] = {"dd:dd:dd", "dddd-dd-dd"};
	const char *p = pat[dates];
	size_t w = strlen(p), k = 0;
	out[0] = '\0';
	for (size_t i = 0; i + w <= n;) {
		size_t j;
		for (j = 0; j < w; j++) {
			if (p[j] == 'd' ? !(s[i + j] >= '0' && s[i + j] <= '9') : s[i + j] != p[j]) {
				break;
			}
		}
		if (j == w) {
			k += (size_t)snprintf(out + k, osz - k, "%.*s;", (int)w, s + i);
			i += w;
		} else {
			i++;
		}
	}
}

/* one stream: tokens T[0..NT) */
static void
do_stream(const int *t, int nt, int maxcuts, int allcomp_len, int replay, const int *rchunks, int nrch)
{
	char in[MAXS], name[16], ein[4 * MAXS], cas[256], key[200];
	size_t len = 0;
	struct fs_result ref;
	int touching = 0, bytes = 0;
	const char *ksuf;

	for (int i = 0; i < nt; i++) {
		size_t l = toklen[t[i]];
		memcpy(in + len, tok[t[i]], l);
		if (t[i] >= 6) {
			bytes = 1;
		}
		len += l;
		name[i] = tokname[t[i]][0];
		if (i > 0 && (t[i] == 0 || t[i] == 5) && (t[i - 1] == 0 || t[i - 1] == 5)) {
			touching = 1;
		}
	}
	name[nt] = '\0';
	in[len] = '\0';
	esc(ein, sizeof(ein), in, len);
	++*c_streams;
	/* streams of the byte alphabet have their own classes */
	ksuf = bytes ? " [stream with NUL/0x01/0xff bytes]" : "";

	/* the single-read run */
	run_tool(in, len, NULL, 0, &ref);
	++*c_traces;
	ex_outcome(ex_hash_mix(ex_hash(ref.out, ref.outlen), ex_hash(in, len)));
	snprintf(cas, sizeof(cas), "%s", nt ? name : "-");
	if (!ref.exited || ref.status != 0) {
		snprintf(key, sizeof(key), "tool=%s single read: %s%s", TOOLNAME, ref.signaled ? "killed" : "exit status", ksuf);
		ex_viol(key, (double)len, cas, cmdline, "stream \"%s\" in one read: %s -S %s", ein, TOOLNAME, fs_ending(&ref));
		if (replay) {
			printf("  single read: %s\n", fs_ending(&ref));
		}
	} else {
		/* (T) line by line */
		const char *ip = in, *op = ref.out, *iend = in + len, *oend = ref.out + ref.outlen;
		int lno = 0;
		while (ip < iend || op < oend) {
			const char *ie = memchr(ip, '\n', (size_t)(iend - ip)), *oe = memchr(op, '\n', (size_t)(oend - op));
			size_t il, ol;
			char sa[MAXS], sb[2 * MAXS], va[4 * MAXS], vb[4 * MAXS], eo[8 * MAXS], el[4 * MAXS];
			int ltouch = 0;
			lno++;
			if (ip >= iend) {
				esc(eo, sizeof(eo), op, (size_t)(oend - op) < MAXS ? (size_t)(oend - op) : MAXS);
				snprintf(key, sizeof(key), "tool=%s transparency: extra output%s", TOOLNAME, ksuf);
				ex_viol(key, (double)len, cas, cmdline, "stream \"%s\": output goes on after the last input line: \"%s\"", ein, eo);
				break;
			}
			il = ie ? (size_t)(ie - ip) : (size_t)(iend - ip);
			if (op >= oend) {
				esc(el, sizeof(el), ip, il);
				snprintf(key, sizeof(key), "tool=%s transparency: lines lost%s%s", TOOLNAME, ie ? "" : " (unterminated last line)", ksuf);
				ex_viol(key, (double)len, cas, cmdline, "stream \"%s\": input line %d \"%s\" and what follows has no output", ein, lno, el);
				break;
			}
			if (oe == NULL) {
				snprintf(key, sizeof(key), "tool=%s transparency: output not newline terminated%s", TOOLNAME, ksuf);
				ex_viol(key, (double)len, cas, cmdline, "stream \"%s\": the output does not end in a newline", ein);
				break;
			}
			ol = (size_t)(oe - op);
			/* \r before \n may be dropped */
			{
				size_t il2 = il, ol2 = ol;
				if (il2 && ip[il2 - 1] == '\r' && !(ol2 && op[ol2 - 1] == '\r')) {
					il2--;
				}
				size_t ka = skel(sa, ip, il2), kb = (size_t)-1;
				if (ol2 < 2 * MAXS) {
					kb = skel(sb, op, ol2);
				}
				if (ka != kb || memcmp(sa, sb, ka)) {
					esc(el, sizeof(el), ip, il);
					esc(eo, sizeof(eo), op, ol < 2 * MAXS ? ol : 2 * MAXS);
					snprintf(key, sizeof(key), "tool=%s transparency: text outside the values changed%s", TOOLNAME, ksuf);
					ex_viol(key, (double)len, cas, cmdline, "stream \"%s\": line %d \"%s\" came out as \"%s\"", ein, lno, el, eo);
				}
				/* values, unless two of them touch in this line */
				for (size_t q = 0; q + 1 < il; q++) {
					/* end of a value directly followed by the start of one */
					(void)q;
				}
				{
					/* per line: recompute from the tokens */
					size_t off = 0;
					int prev = -1;
					for (int i = 0; i < nt; i++) {
						size_t l = toklen[t[i]];
						if ((size_t)(ip - in) <= off && off < (size_t)(ip - in) + il) {
							if ((t[i] == 0 || t[i] == 5) && (prev == 0 || prev == 5)) {
								ltouch = 1;
							}
							prev = t[i];
						} else {
							prev = -1;
						}
						off += l;
					}
				}
				if (ltouch) {
					EX_CTR(c_skip, "skipped:value comparison on lines where two values touch (what is recognised is not stated)");
					++*c_skip;
				} else {
					/* dates: the tool's result; times: unchanged */
					char want[4 * MAXS];
					size_t wk = 0;
					values(va, sizeof(va), ip, il2, 1);
					values(vb, sizeof(vb), op, ol2 < 2 * MAXS ? ol2 : 0, 1);
					want[0] = '\0';
					for (const char *q = va; *q; q += 11) {
						wk += (size_t)snprintf(want + wk, sizeof(want) - wk, "%s;", date_result);
					}
					if (bytes && strlen(want) == strlen(vb)) {
						/* reading: whether a date next to or behind a NUL/control byte is recognised is
						 * not stated; it must come back as the result or unchanged */
						for (size_t q = 0; want[q]; q += 11) {
							if (!memcmp(vb + q, "2012-03-01;", 11)) {
								memcpy(want + q, "2012-03-01;", 11);
							}
						}
					}
					if (strcmp(want, vb)) {
						esc(el, sizeof(el), ip, il);
						esc(eo, sizeof(eo), op, ol < 2 * MAXS ? ol : 2 * MAXS);
						snprintf(key, sizeof(key), "tool=%s transparency: dates%s", TOOLNAME, ksuf);
						ex_viol(key, (double)len, cas, cmdline, "stream \"%s\": line %d \"%s\" came out as \"%s\": dates %s, expected %s (argument mode gives %s)",
							ein, lno, el, eo, vb, want, date_result);
					}
					values(va, sizeof(va), ip, il2, 0);
					values(vb, sizeof(vb), op, ol2 < 2 * MAXS ? ol2 : 0, 0);
					if (strcmp(va, vb)) {
						esc(el, sizeof(el), ip, il);
						esc(eo, sizeof(eo), op, ol < 2 * MAXS ? ol : 2 * MAXS);
						snprintf(key, sizeof(key), "tool=%s transparency: times%s", TOOLNAME, ksuf);
						ex_viol(key, (double)len, cas, cmdline, "stream \"%s\": line %d \"%s\" came out as \"%s\": times %s, expected %s", ein, lno, el, eo, vb, va);
					}
				}
			}
			ip = ie ? ie + 1 : iend;
			op = oe + 1;
			++*c_trans;
		}
		if (replay) {
			char eo[8 * MAXS];
			esc(eo, sizeof(eo), ref.out, ref.outlen < 2 * MAXS ? ref.outlen : 2 * MAXS);
			printf("  single read: stream \"%s\" -> \"%s\" (%s)\n", ein, eo, fs_ending(&ref));
		}
	}
	(void)touching;

	/* (I) every composition (or every one with <= maxcuts cuts) */
	if (len >= 2) {
		int L = (int)len;
		int cuts[4];
		int chunks[MAXS + 2];
		int all = L - 1 <= allcomp_len;
		uint64_t ncomp = all ? (1ULL << (L - 1)) : 0;

		if (replay) {
			struct fs_result r;
			char eo[8 * MAXS], rd[256];
			rd[0] = '\0';
			for (int i = 0; i < nrch; i++) {
				snprintf(rd + strlen(rd), sizeof(rd) - strlen(rd), "%s%d", i ? "," : "", rchunks[i]);
			}
			run_tool(in, len, rchunks, nrch, &r);
			esc(eo, sizeof(eo), r.out, r.outlen < 2 * MAXS ? r.outlen : 2 * MAXS);
			printf("  reads [%s]: -> \"%s\" (%s)\n", rd, eo, fs_ending(&r));
			if (r.outlen != ref.outlen || memcmp(r.out, ref.out, ref.outlen) || r.exited != ref.exited || r.status != ref.status) {
				ex_viol("composition-dependent", (double)len, cas, cmdline, "differs from the single read");
			}
			fs_free(&r);
			fs_free(&ref);
			return;
		}
		for (uint64_t m = 1; all ? m < ncomp : 1; m++) {
			int nch = 0, last = 0, ncut = 0;
			struct fs_result r;

			if (all) {
				for (int b = 0; b < L - 1; b++) {
					if ((m >> b) & 1U) {
						chunks[nch++] = b + 1 - last;
						last = b + 1;
						ncut++;
					}
				}
			} else {
				/* enumerate cut sets of size 1..maxcuts in lexicographic order: m counts them */
				static int cs[4], ncs;
				if (m == 1) {
					ncs = 1;
					cs[0] = 1;
				} else {
					/* next combination */
					int i = ncs - 1;
					while (i >= 0 && cs[i] == L - 1 - (ncs - 1 - i)) {
						i--;
					}
					if (i < 0) {
						if (++ncs > maxcuts || ncs > L - 1) {
							break;
						}
						for (int j = 0; j < ncs; j++) {
							cs[j] = j + 1;
						}
					} else {
						cs[i]++;
						for (int j = i + 1; j < ncs; j++) {
							cs[j] = cs[j - 1] + 1;
						}
					}
				}
				if (maxcuts < 1) {
					break;
				}
				for (int j = 0; j < ncs; j++) {
					chunks[nch++] = cs[j] - last;
					last = cs[j];
					cuts[j] = cs[j];
				}
				ncut = ncs;
			}
			chunks[nch++] = L - last;
			(void)cuts;
			run_tool(in, len, chunks, nch, &r);
			++*c_states;
			++*c_trans;
			++*c_traces;
			/* a cut strictly inside a line and inside a token */
			++*c_nontriv;
			if (r.outlen != ref.outlen || memcmp(r.out, ref.out, ref.outlen) || r.exited != ref.exited || r.status != ref.status || r.signaled != ref.signaled) {
				char eo[8 * MAXS], er[8 * MAXS], rd[256];
				size_t k = 0;
				rd[0] = '\0';
				k = (size_t)snprintf(cas, sizeof(cas), "%s", name);
				for (int i = 0; i < nch; i++) {
					snprintf(rd + strlen(rd), sizeof(rd) - strlen(rd), "%s%d", i ? "," : "", chunks[i]);
					k += (size_t)snprintf(cas + k, sizeof(cas) - k, " %d", chunks[i]);
				}
				esc(eo, sizeof(eo), r.out, r.outlen < 2 * MAXS ? r.outlen : 2 * MAXS);
				esc(er, sizeof(er), ref.out, ref.outlen < 2 * MAXS ? ref.outlen : 2 * MAXS);
				snprintf(key, sizeof(key), "tool=%s composition-dependent output (cuts=%d)%s", TOOLNAME, ncut, ksuf);
				ex_viol(key, (double)len, cas, cmdline, "stream \"%s\" delivered in reads of [%s] bytes: output \"%s\" (%s), in one read: \"%s\" (%s)",
					ein, rd, eo, fs_ending(&r), er, fs_ending(&ref));
			}
			fs_free(&r);
			if (ex.deadline > 0 && (m & 0x3f) == 0 && ex_now() > ex.deadline) {
				ex.expired = 1;
				break;
			}
		}
	}
	fs_free(&ref);
}

int
main(int argc, char *argv[])
{
	c_states = ex_ctr("states");
	c_trans = ex_ctr("transitions");
	c_eval = ex_ctr("evaluations");
	c_traces = ex_ctr("traces");
	c_nontriv = ex_ctr("nontrivial");
	c_streams = ex_ctr("streams");
	ex_init(argc, argv);

	{
		size_t k = 0;
		for (int i = 0; i < NTARGV; i++) {
			k += (size_t)snprintf(cmdline + k, sizeof(cmdline) - k, "%s%s", i ? " " : "", tool_argv[i]);
		}
		snprintf(cmdline + k, sizeof(cmdline) - k, " < stream   # delivered in the read() sizes of the case");
	}
	/* what the tool makes of the date in argument mode */
	{
		struct fs_result r;
		struct fs_opts o;
		static const char *const env[] = {"LC_ALL=C", "TZ=UTC", NULL};
		memset(&o, 0, sizeof(o));
		o.env = env;
		fs_run(tool_main, NAARGV, arg_argv, &o, &r);
		if (!r.exited || r.outlen < 10 || r.outlen >= sizeof(date_result)) {
			fprintf(stderr, "c18_tool: %s in argument mode: %s, %zu bytes\n", TOOLNAME, fs_ending(&r), r.outlen);
			return 3;
		}
		memcpy(date_result, r.out, r.outlen);
		date_result[strcspn(date_result, "\n")] = '\0';
		fs_free(&r);
	}

	if (ex.cas) {
		{
			int fi, vi, ti, pi, si, nl, c[3] = {0, 0, 0}, nc;
			if ((nc = sscanf(ex.cas, "fam %d %d %d %d %d %d %d %d %d", &fi, &vi, &ti, &pi, &si, &nl, c, c + 1, c + 2)) >= 6 && fi >= 0 && fi < NFAM) {
				int nch = nc - 6;
				while (nch > 0 && c[nch - 1] == 0) {
					nch--;
				}
				fam_stream(fi, vi, ti, pi, si, nl, 0, 1, c, nch);
				return ex_replay_result(ex.nviol != 0, "%s", ex.nviol ? ex.viol[0].key : "no violation");
			}
		}
		/* "<token letters> <read size> ..." */
		int t[MAXTOK], nt = 0, ch[MAXS], nch = 0;
		const char *p = ex.cas;
		for (; *p && *p != ' ' && nt < MAXTOK; p++) {
			for (int i = 0; i < NTOK; i++) {
				if (*p == tokname[i][0]) {
					t[nt++] = i;
				}
			}
		}
		while (*p) {
			char *ep;
			long v = strtol(p, &ep, 10);
			if (ep == p) {
				break;
			}
			if (nch < MAXS) {
				ch[nch++] = (int)v;
			}
			p = ep;
		}
		printf("  %s in argument mode turns 2012-03-01 into %s\n", TOOLNAME, date_result);
		do_stream(t, nt, 0, 0, 1, ch, nch);
		return ex_replay_result(ex.nviol != 0, "%s", ex.nviol ? ex.viol[0].key : "no violation");
	}

	ex_meta("rule", "%s in sed mode, its own main() in a forked child per run, stdin served by a scripted read() (stock reader constants); streams = every sequence "
		"of up to K tokens from {2012-03-01, xx, blank, \\n, \\r\\n, 12:00:00} x compositions of the byte length into read() results (all of them for short streams, "
		"else all with a bounded number of cuts); oracle (I) output and ending identical to the single-read run for every composition; (T) the single-read "
		"run is transparent line by line: same number of lines in order, text outside [0-9:T-] unchanged (a blank between two digits belongs to the value), "
		"dates come back as the tool's own argument-mode result (%s), times unchanged, missing final newline may be supplied, \\r\\n may come back as \\n; "
		"lines where two values touch are skipped for the value comparison. states/transitions = compositions run and compared; traces = runs compared; "
		"non-trivial = runs with at least one short read. A second alphabet adds the bytes NUL, 0x01, 0xff as tokens (own classes).", TOOLNAME, date_result);
	{
		/* per tier: tokens K and cuts per K */
		int K = ex.thorough ? 6 : 4;
		static const int cuts_quick[7] = {0, 2, 2, 2, 1, 0, 0};
		static const int cuts_thoro[7] = {0, 3, 3, 2, 2, 1, 0};
		int allc = ex.thorough ? 9 : 8;
		const int *cuts = ex.thorough ? cuts_thoro : cuts_quick;
		uint64_t id = 0;
		ex_meta("bound", "%s tier: token sequences of length 0..%d; all compositions for streams of up to 4 tokens and %d bytes; beyond that cuts <= %d/%d/%d/%d/%d/%d for 1/2/3/4/5/6 tokens",
			ex.thorough ? "thorough" : "quick", K, allc + 1, cuts[1], cuts[2], cuts[3], cuts[4], cuts[5], cuts[6]);
		for (int nt = 0; nt <= K && !ex_expired(); nt++) {
			uint64_t n = 1;
			for (int i = 0; i < nt; i++) {
				n *= 6U;
			}
			for (uint64_t v = 0; v < n && !ex.expired; v++, id++) {
				int t[MAXTOK];
				uint64_t x = v;
				if (!ex_mine(id)) {
					continue;
				}
				for (int i = nt - 1; i >= 0; i--) {
					t[i] = (int)(x % 6U);
					x /= 6U;
				}
				do_stream(t, nt, cuts[nt], nt <= 4 ? allc : -1, 0, NULL, 0);
				if (ex_want_sample()) {
					char nm[16];
					for (int i = 0; i < nt; i++) {
						nm[i] = tokname[t[i]][0];
					}
					nm[nt] = '\0';
					ex_sample("%s -S on token stream %s (D date, x letters, _ blank, n \\n, c \\r\\n, T time): single read + compositions with <= %d cuts", TOOLNAME, nm, cuts[nt]);
				}
			}
		}
	}
	/* structured families with an exact oracle (c18_families.h) */
	ex_meta("families", "prefix x value x tail x suffix x {final newline, none}, all combinations, one read + every composition with <= %d cuts (quick: compositions only for the newline-terminated variant); expected = prefix, "
		"argument-mode result of the value under the same -i/-f, tail copied (second value: its result), suffix; a zone-like tail may instead be taken into the "
		"value (argument-mode result of value+tail). Families: tails (malformed minute/second/fraction and short zone offsets behind date, date-HM, date-HMS, HMS, HM), "
		"padded-dmy/-dth/-hm (1-digit fields under -i %%d/%%m/%%Y, %%dth %%B %%Y, %%H:%%M behind blank, letters, digit+blank), epoch (-i %%s, 1..11 digits), epoch-comma (-i %%s, with the comma as needle), compact "
		"(-i %%Y%%m%%d behind other digit runs), two-formats (-i %%Y%%m%%d -i %%d/%%m/%%Y, two values per line); round 2: negative epochs in front of a literal, Roman numeral fields, %%dth alone behind other numbers, "
		"a non-ASCII literal in a sibling format, %%db first, %%T/%%F directly behind a field, blank padded digit-only formats, calendar names as -i with a time of day (dadd +1s)", ex.thorough ? 2 : 1);
	fam_all();
	/* second alphabet: streams of up to 4 tokens over {date, xx, NUL, 0x01, 0xff, blank, \n} with at
	 * least one of the three byte tokens (the others are in the first enumeration) */
	{
		static const int cutsB_quick[5] = {0, 2, 2, 1, 1};
		static const int cutsB_thoro[5] = {0, 3, 3, 2, 2};
		const int *cuts = ex.thorough ? cutsB_thoro : cutsB_quick;
		int allc = ex.thorough ? 9 : 7;
		uint64_t id = 1000003;
		ex_meta("bound-bytes", "byte alphabet {2012-03-01, xx, NUL, 0x01, 0xff, blank, \\n}: token sequences of length 1..4 with at least one byte token "
			"(2460 streams); all compositions up to %d bytes, beyond that cuts <= %d/%d/%d/%d for 1/2/3/4 tokens; reading: a date next to such a byte "
			"may come back as the tool's result or unchanged", allc + 1, cuts[1], cuts[2], cuts[3], cuts[4]);
		for (int nt = 1; nt <= 4 && !ex_expired(); nt++) {
			uint64_t n = 1;
			for (int i = 0; i < nt; i++) {
				n *= 7U;
			}
			for (uint64_t v = 0; v < n && !ex.expired; v++) {
				int t[MAXTOK], has = 0;
				uint64_t x = v;
				for (int i = nt - 1; i >= 0; i--) {
					t[i] = alphaB[x % 7U];
					has |= t[i] >= 6;
					x /= 7U;
				}
				if (!has) {
					continue;
				}
				if (!ex_mine(id++)) {
					continue;
				}
				do_stream(t, nt, cuts[nt], allc, 0, NULL, 0);
				if (ex_want_sample()) {
					char nm[16];
					for (int i = 0; i < nt; i++) {
						nm[i] = tokname[t[i]][0];
					}
					nm[nt] = '\0';
					ex_sample("%s -S on token stream %s (z NUL, a 0x01, f 0xff): single read + compositions with <= %d cuts", TOOLNAME, nm, cuts[nt]);
				}
			}
		}
	}
	return ex_finish();
}
