/* c19_zif.c -- C19, zone files: opening ANY byte string as a zoneinfo file either fails
 * cleanly or yields an object whose lookups stay inside the loaded data.
 *
 * Fault enumeration (DESIGN.md §2 C, §6 C19), asan variant.  lib/tzraw.c is included with
 * mmap replaced by an exact-size heap copy, so the file image and the handle are heap
 * blocks with red zones right behind them.  Bases: a fixed list of installed files of
 * different versions/sizes (as far as installed) + the synthetic files of C12.  Per base,
 * EVERY image of:
 *   T  truncation at every length 0..size
 *   F  each of the six count fields of each header set to each of
 *      {0, 1, n-1, n+1, 255, 256, 65536, 2^31-1, 2^32-1}
 *   V  the version byte of each header set to every value 0..255
 *   Y  each type-index byte of the block in use set to {nty-1, nty, 255}
 *   M  each byte of the second header's magic damaged (two values)
 * Each image: zif_open(); if it opens: zif_local_time / zif_find_zrng (+ the neighbouring
 * offsets the way dzone reads them) / zif_utc_time at the boundary instants of the table AS
 * LOADED (first and last 48 transitions -1/0/+1 s, seams, far future).
 * Oracle: no AddressSanitizer report, no fatal signal (the case runs in a forked child, see
 * c19_common.h), and every offset a lookup returns is one of the nty offsets loaded (an
 * offset from anywhere else was read outside the type table).
 * Reading: a lookup that does not return is counted, not reported (the statement does not
 * speak of termination; the one known spin, the instant of the last transition, is C12's
 * finding and is left out of the instants to keep the run affordable). */
#include "impl.h"
#include "c12_common.h"
#include "c19_common.h"

static const char *const sys_bases[] = {
	"Etc/UTC", "Asia/Kolkata", "CET", "America/New_York", "right/Europe/Berlin", "Asia/Gaza", "posix/Australia/Lord_Howe", "Factory",
	"Europe/Dublin", "Africa/Casablanca",
};
#define NSYSB	((int)(sizeof(sys_bases) / sizeof(*sys_bases)))

enum { K_T, K_F, K_V, K_Y, K_M, NKIND };
static const char kind_ch[NKIND] = {'T', 'F', 'V', 'Y', 'M'};
static const char *const fld_name[6] = {"isutcnt", "isstdcnt", "leapcnt", "timecnt", "typecnt", "charcnt"};

/* the base in flight */
static struct zc_src B;
static size_t hdr2;		/* position of the second header, 0 if none */
static size_t tyoff;		/* position of the type-index bytes of the block in use */
static long nkind[NKIND];
static long ncases;
static uint8_t *img;		/* work copy, exact size per case */

static uint32_t
fld_value(int vi, uint32_t n)
{
	switch (vi) {
	case 0: return 0;
	case 1: return 1;
	case 2: return n - 1U;
	case 3: return n + 1U;
	case 4: return 255;
	case 5: return 256;
	case 6: return 65536;
	case 7: return 0x7fffffffU;
	default: return 0xffffffffU;
	}
}

static void
base_prepare(void)
{
	int nh = B.m.version >= 2 ? 2 : 1;
	struct rz_hdr h;
	char err[128];

	hdr2 = 0;
	rz_header(B.img, B.len, 0, &h, err);
	if (nh == 2) {
		hdr2 = 44 + (size_t)rz_blocksize(&h, 4);
		rz_header(B.img, B.len, hdr2, &h, err);
		tyoff = hdr2 + 44 + 8U * h.timecnt;
	} else {
		tyoff = 44 + 4U * h.timecnt;
	}
	nkind[K_T] = (long)B.len + 1;
	nkind[K_F] = 6L * nh * 9;
	nkind[K_V] = 256L * nh;
	nkind[K_Y] = 3L * B.m.ntr;
	nkind[K_M] = nh == 2 ? 8 : 0;
	ncases = 0;
	for (int k = 0; k < NKIND; k++) {
		ncases += nkind[k];
	}
}

struct case_s {
	int kind;
	long a, b, c;		/* kind-specific coordinates */
	size_t len;		/* image length */
	double ord;
	char key[96];		/* discrete coordinates */
	char what[160];
};

/* build image IDX of the base into a fresh exact-size block */
static void
mk_case(long idx, struct case_s *c)
{
	int k;
	memset(c, 0, sizeof(*c));
	for (k = 0; k < NKIND && idx >= nkind[k]; k++) {
		idx -= nkind[k];
	}
	c->kind = k;
	c->len = B.len;
	free(img);
	switch (k) {
	case K_T:
		c->len = (size_t)idx;
		c->ord = (double)idx;
		snprintf(c->key, sizeof(c->key), "truncation");
		snprintf(c->what, sizeof(c->what), "truncated to %ld of %zu bytes", idx, B.len);
		break;
	case K_F: {
		int hi = (int)(idx / 54), f = (int)(idx % 54) / 9, vi = (int)(idx % 9);
		size_t pos = (hi ? hdr2 : 0) + 20 + 4U * (size_t)f;
		uint32_t old = rz_u32(B.img + pos), v = fld_value(vi, old);
		c->a = hi, c->b = f, c->c = vi;
		c->ord = (double)v;
		snprintf(c->key, sizeof(c->key), "field hdr=%d %s", hi + 1, fld_name[f]);
		snprintf(c->what, sizeof(c->what), "%s of header %d set to %u (was %u)", fld_name[f], hi + 1, v, old);
		break;
	}
	case K_V:
		c->a = idx / 256, c->b = idx % 256;
		c->ord = (double)c->b;
		snprintf(c->key, sizeof(c->key), "version hdr=%ld", c->a + 1);
		snprintf(c->what, sizeof(c->what), "version byte of header %ld set to 0x%02lx", c->a + 1, c->b);
		break;
	case K_Y:
		c->a = idx / 3, c->b = idx % 3;
		c->ord = (double)c->a;
		snprintf(c->key, sizeof(c->key), "type-index %s", c->b == 0 ? "nty-1" : c->b == 1 ? "nty" : "255");
		snprintf(c->what, sizeof(c->what), "type index of transition %ld set to %s (nty = %ld)", c->a,
			 c->b == 0 ? "nty-1" : c->b == 1 ? "nty" : "255", B.m.nty);
		break;
	case K_M:
		c->a = idx / 2, c->b = idx % 2;
		c->ord = (double)idx;
		snprintf(c->key, sizeof(c->key), "magic hdr=2");
		snprintf(c->what, sizeof(c->what), "byte %ld of the second header's magic set to %s", c->a, c->b ? "'X'" : "0");
		break;
	}
	img = malloc(c->len ? c->len : 1);
	memcpy(img, B.img, c->len);
	switch (k) {
	case K_F: {
		size_t pos = (c->a ? hdr2 : 0) + 20 + 4U * (size_t)c->b;
		rz_p32(img + pos, fld_value((int)c->c, rz_u32(B.img + pos)));
		break;
	}
	case K_V:
		img[(c->a ? hdr2 : 0) + 4] = (uint8_t)c->b;
		break;
	case K_Y:
		img[tyoff + (size_t)c->a] = (uint8_t)(c->b == 0 ? B.m.nty - 1 : c->b == 1 ? B.m.nty : 255);
		break;
	case K_M:
		img[hdr2 + (size_t)c->a] = c->b ? 'X' : 0;
		break;
	}
}

static const char*
base_class(char *buf, size_t bsz)
{
	/* versions 2 and 3 take the same path through the loader */
	snprintf(buf, bsz, "%s", B.m.version >= 2 ? "v2+" : "v1");
	return buf;
}

enum { PH_OPEN, PH_LOCAL, PH_RANGE, PH_UTC, PH_CLOSE };
static const char *const ph_name[] = {"zif_open", "zif_local_time", "zif_find_zrng", "zif_utc_time", "zif_close"};

static zif_t g_z;
static stamp_t g_out;
static struct zrng_s g_rng;
static int g_nxo, g_pvo;
static int g_verbose;

/* is OFFS one of the offsets loaded? */
static int
loaded_offset_p(zif_t z, int64_t offs)
{
	for (size_t k = 0; k < z->nty; k++) {
		if (z->ofs[k] == offs) {
			return 1;
		}
	}
	return 0;
}

static void
semantic(const struct case_s *c, long idx, const char *call, int64_t t, int64_t offs)
{
	char key[256], cas[320], bc[32];
	snprintf(key, sizeof(key), "zif %s offset-outside-type-table %s base=%s", c->key, call, base_class(bc, sizeof(bc)));
	snprintf(cas, sizeof(cas), "%s %ld", B.name, idx);
	c19_viol(key, c->ord, cas, "%s, %s: opens; %s(%lld) yields offset %lld, which is none of the %zu offsets loaded from the file",
		 B.name, c->what, call, (long long)t, (long long)offs, (size_t)g_z->nty);
	if (g_verbose) {
		printf("  FAIL %s(%lld): offset %lld is not in the loaded type table\n", call, (long long)t, (long long)offs);
	}
}

/* one image: runs in the child */
static void
one_case(long idx)
{
	struct case_s c;
	int rc;
	int64_t inst[48 * 6 + 16];
	size_t ni = 0;
	C19_CTR(c_img, "images");
	C19_CTR(c_opened, "images_that_open");
	C19_CTR(c_refused, "images_refused_cleanly");
	C19_CTR(c_eval, "evaluations");
	C19_CTR(c_hang, "lookups_that_do_not_return(counted, not reported)");

	mk_case(idx, &c);
	zc_publish(img, c.len);
	C19_INC(c_img);
	C19_INC(c_eval);
	c19->phase = PH_OPEN;
	g_z = NULL;
	EX_GUARD_BEGIN(rc);
	g_z = zif_open(zc_mempath);
	EX_GUARD_END;
	if (rc) {
		C19_INC(c_hang);
		return;
	}
	ex_outcome(ex_hash_mix((uint64_t)(g_z != NULL), g_z ? ex_hash_mix(g_z->ntr, g_z->nty) : (uint64_t)c.kind));
	if (g_z == NULL) {
		C19_INC(c_refused);
		if (g_verbose) {
			printf("  %s: zif_open refuses the image\n", c.what);
		}
		return;
	}
	C19_INC(c_opened);
	if (g_verbose) {
		printf("  %s: opens with %zu transitions, %zu types\n", c.what, g_z->ntr, g_z->nty);
	}
	/* the boundary instants of the table as loaded */
	{
		size_t ntr = g_z->ntr;
		for (size_t i = 0; i < ntr; i++) {
			if (i >= 48 && i + 48 < ntr) {
				i = ntr - 48;
			}
			inst[ni++] = g_z->trs[i] - 1;
			/* the instant of the last transition itself is known not to return (C12) */
			if (i + 1 < ntr) {
				inst[ni++] = g_z->trs[i];
			}
			inst[ni++] = g_z->trs[i] + 1;
		}
		if (ntr && ntr <= 100000) {
			inst[ni++] = g_z->trs[ntr - 1] + 1000000000LL;
		}
		inst[ni++] = -2147483649LL;
		inst[ni++] = -1;
		inst[ni++] = 0;
		inst[ni++] = 2147483648LL;
	}
	for (size_t k = 0; k < ni; k++) {
		int64_t t = inst[k];
		size_t ntr = g_z->ntr;
		if (ntr && t == g_z->trs[ntr - 1]) {
			continue;
		}
		c19->phase = PH_LOCAL;
		C19_INC(c_eval);
		EX_GUARD_BEGIN(rc);
		g_out = zif_local_time(g_z, t);
		EX_GUARD_END;
		if (rc) {
			C19_INC(c_hang);
		} else if (!loaded_offset_p(g_z, g_out - t)) {
			semantic(&c, idx, "zif_local_time", t, g_out - t);
		}
		c19->phase = PH_RANGE;
		C19_INC(c_eval);
		EX_GUARD_BEGIN(rc);
		g_rng = zif_find_zrng(g_z, t);
		g_nxo = g_rng.trno + 1U < zif_ntrans(g_z) ? zif_troffs(g_z, g_rng.trno + 1) : 0;
		g_pvo = g_rng.trno >= 1 ? zif_troffs(g_z, g_rng.trno - 1) : 0;
		EX_GUARD_END;
		if (rc) {
			C19_INC(c_hang);
		} else if (!loaded_offset_p(g_z, g_rng.offs)) {
			semantic(&c, idx, "zif_find_zrng", t, g_rng.offs);
		}
		c19->phase = PH_UTC;
		C19_INC(c_eval);
		EX_GUARD_BEGIN(rc);
		g_out = zif_utc_time(g_z, t);
		EX_GUARD_END;
		if (rc) {
			C19_INC(c_hang);
		} else if (!loaded_offset_p(g_z, t - g_out)) {
			semantic(&c, idx, "zif_utc_time", t, t - g_out);
		}
	}
	c19->phase = PH_CLOSE;
	zif_close(g_z);
	g_z = NULL;
}

/* parent: the case that ended its child */
static void
crashed(long idx, int how, int sig, const char *report)
{
	struct case_s c;
	char key[256], cas[320], bc[32];

	mk_case(idx, &c);
	if (how == C19_ASAN) {
		snprintf(key, sizeof(key), "zif %s asan:%s in=%s base=%s", c.key, report, ph_name[c19->phase], base_class(bc, sizeof(bc)));
	} else if (how == C19_SIGNAL) {
		snprintf(key, sizeof(key), "zif %s fatal-signal-%d in=%s base=%s", c.key, sig, ph_name[c19->phase], base_class(bc, sizeof(bc)));
	} else {
		snprintf(key, sizeof(key), "zif %s child-exit-%d in=%s base=%s", c.key, sig, ph_name[c19->phase], base_class(bc, sizeof(bc)));
	}
	snprintf(cas, sizeof(cas), "%s %ld", B.name, idx);
	ex_viol(key, c.ord, cas, NULL, "%s, %s: %s during %s", B.name, c.what,
		how == C19_ASAN ? report : how == C19_SIGNAL ? "fatal signal" : "child exited", ph_name[c19->phase]);
	if (g_verbose) {
		printf("  FAIL [%s] %s\n", key, c.what);
	}
}

int
main(int argc, char *argv[])
{
	EX_CTR(c_states, "states");
	EX_CTR(c_traces, "traces");
	EX_CTR(c_nontriv, "nontrivial");
	EX_CTR(c_bases, "base_files");
	int maxn;

	ex_init(argc, argv);
	c19_init();
	zc_wd_init();
	/* shared counters are registered before any child exists */
	c19_ctr_id("images");
	c19_ctr_id("images_that_open");
	c19_ctr_id("images_refused_cleanly");
	c19_ctr_id("evaluations");
	c19_ctr_id("lookups_that_do_not_return(counted, not reported)");

	if (ex.cas) {
		char name[300];
		long idx;
		int n0;
		if (sscanf(ex.cas, "%299s %ld", name, &idx) != 2 || zc_src_load(name, &B) < 0) {
			return ex_replay_result(1, "bad case '%s'", ex.cas);
		}
		zc_publish(B.img, B.len);
		base_prepare();
		if (idx < 0 || idx >= ncases) {
			return ex_replay_result(1, "bad case index");
		}
		g_verbose = 1;
		n0 = ex.nviol;
		/* the one case, in a child of its own */
		{
			static long the_idx;
			the_idx = idx;
			/* run cases [idx, idx+1) */
			long start = idx;
			pid_t pid;
			int st = 0;
			c19->cur = start;
			fflush(stdout);
			if ((pid = fork()) == 0) {
				zc_wd_init();
				signal(SIGSEGV, SIG_DFL);
				signal(SIGBUS, SIG_DFL);
				signal(SIGFPE, SIG_DFL);
				signal(SIGABRT, SIG_DFL);
				if (__asan_set_error_report_callback) {
					__asan_set_error_report_callback(c19_asan_cb);
				}
				zc_wd_limit = 250;
				one_case(the_idx);
				fflush(stdout);
				_exit(0);
			}
			while (waitpid(pid, &st, 0) < 0 && errno == EINTR) {
				;
			}
			c19_merge_viols();
			if (WIFEXITED(st) && WEXITSTATUS(st) == 77 && c19->asan) {
				crashed(idx, C19_ASAN, 0, c19->report);
			} else if (WIFSIGNALED(st)) {
				crashed(idx, C19_SIGNAL, WTERMSIG(st), "");
			} else if (!(WIFEXITED(st) && WEXITSTATUS(st) == 0)) {
				crashed(idx, C19_EXIT, WEXITSTATUS(st), "");
			}
		}
		for (int i = n0; i < ex.nviol; i++) {
			printf("  %s: %s\n", ex.viol[i].key, ex.viol[i].detail);
		}
		return ex_replay_result(ex.nviol > n0, "%s", ex.cas);
	}

	/* bases: installed list (as far as installed), then the synthetic family */
	maxn = ex.thorough ? 3 : 2;
	for (int i = 0; i < NSYSB; i++) {
		char nm[300], p[4400];
		snprintf(p, sizeof(p), "%s/%s", ZC_ZONEINFO, sys_bases[i]);
		if (access(p, R_OK) == 0 && (ex.thorough || i < 8)) {
			snprintf(nm, sizeof(nm), "sys:%s", sys_bases[i]);
			zc_add(nm);
		}
	}
	zc_nsys = zc_nnames;
	zc_catalogue(0, 1, maxn, 0);
	ex_meta("rule", "zone-file faults: bases = %zu installed files (%s...) + %zu synthetic files (C12's generator: versions 1-3, 0..%d transitions in every type arrangement, 4 layouts; "
		"254..600 transitions%s); per base EVERY truncation length 0..size, each of the 6 count fields of each header x {0,1,n-1,n+1,255,256,65536,2^31-1,2^32-1}, "
		"the version byte of each header x 0..255, each type-index byte x {nty-1,nty,255}, each byte of the second magic x 2; each image: zif_open, and if it opens "
		"zif_local_time/zif_find_zrng(+neighbour offsets as dzone reads them)/zif_utc_time at the boundary instants of the table as loaded. Oracle: no AddressSanitizer "
		"report (file image and handle are exact-size heap blocks), no fatal signal, every returned offset is one of the loaded type offsets. A lookup that does not "
		"return is counted only. non-trivial = images that differ from the pristine base and still open",
		zc_nsys, sys_bases[0], zc_nnames - zc_nsys, maxn, ex.thorough ? "" : " (quick: sizes 254..257 of version 2 only)");
	ex_meta("bound", "%s: %zu bases, all their images", ex.thorough ? "thorough" : "quick", zc_nnames);

	for (size_t i = 0; i < zc_nnames && !ex_expired(); i++) {
		int rc;
		if (!ex_mine(i)) {
			continue;
		}
		if (!ex.thorough && !strncmp(zc_names[i], "big:", 4) &&
		    (strncmp(zc_names[i], "big:v2:", 7) || atoi(zc_names[i] + 8) > 257)) {
			continue;
		}
		rc = zc_src_load(zc_names[i], &B);
		if (rc == -2) {
			fprintf(stderr, "cannot load %s\n", zc_names[i]);
			return 3;
		}
		if (rc == 0) {
			/* the file the children rewrite exists before they are forked */
			zc_publish(B.img, B.len);
			base_prepare();
			c19_batch(ncases, one_case, crashed);
			*c_states += (uint64_t)ncases;
			++*c_traces;
			++*c_bases;
			if (ex_want_sample()) {
				ex_sample("%s (%zu bytes, version %d, %ld transitions): %ld truncations + %ld field values + %ld version bytes + %ld type indices + %ld magic bytes",
					  B.name, B.len, B.m.version, B.m.ntr, nkind[K_T], nkind[K_F], nkind[K_V], nkind[K_Y], nkind[K_M]);
			}
		}
		zc_src_free(&B);
	}
	/* non-trivial: corrupted images that still open */
	*c_nontriv = *ex_ctr("images_that_open");
	return ex_finish();
}
