/* c10_common.h -- shared machinery of the C10 explorers (memory safety and totality).
 *
 * Detection channels, all attributed to the case in flight:
 *  1. the compiler's ASan checks.  The instrumented code calls
 *     __asan_report_{load,store}N_noabort(addr) when a shadow check fails;
 *     these are DEFINED HERE (the executable's definition wins over
 *     libasan.so's), so a report costs ~50 ns instead of ~3 ms and is never
 *     de-duplicated per pc (libasan's recover mode reports every pc once per
 *     process, which would make counts depend on the worker layout).
 *  2. libasan's interceptors (memcpy, strlen, strncasecmp, strtol, snprintf...)
 *     report through the slow path; __asan_on_error() counts those.
 *  3. fatal signals (SIGSEGV/SIGBUS/SIGFPE/SIGABRT, SIGILL = -fsanitize=bounds
 *     trap) and the watchdog (SIGALRM, no progress for >= 1 period) unwind to
 *     the case loop; the child then hands its results over and is replaced.
 *  4. semantic oracles of the explorer (return value > bsz, answer depends on
 *     the bytes behind a terminator, end pointer outside the text).
 *
 * Exact-size placement: every string / output buffer lives in a private arena
 * slot that is ASan-poisoned except for exactly its own bytes (start 8-aligned,
 * end byte-exact), so the first byte before and the first byte behind are red
 * zone, and stray writes land in the arena, never in allocator metadata.
 *
 * Batches run in forked children; counters, failure classes and samples come
 * back through a memfd; a child that dies is an observation of the case whose
 * index it last published. */
#ifndef VERIF_C10_COMMON_H
#define VERIF_C10_COMMON_H
#include <elf.h>
#include <link.h>
#include <fcntl.h>
#include <ucontext.h>
#include <sys/mman.h>
#include <sys/stat.h>
#include <sys/wait.h>
#include <execinfo.h>
#include <sanitizer/asan_interface.h>
#include <sanitizer/common_interface_defs.h>

#define NOASAN	__attribute__((no_sanitize_address, noinline))

const char*
__asan_default_options(void)
{
	return "suppress_equal_pcs=0:fast_unwind_on_fatal=1:malloc_context_size=0:"
		"allocator_may_return_null=1:detect_leaks=0:handle_segv=0:handle_sigill=0:"
		"handle_abort=0:handle_sigfpe=0:handle_sigbus=0:halt_on_error=0";
}

/* ---------- symbol table of the running executable (pc -> function) ---------- */
struct xs_sym {
	uintptr_t lo, hi;
	const char *name;
};
static struct xs_sym *xs_syms;
static size_t xs_nsyms;
static uintptr_t xs_bias;

static int
xs_phdr_cb(struct dl_phdr_info *info, size_t sz, void *clo)
{
	(void)sz;
	(void)clo;
	xs_bias = info->dlpi_addr;
	return 1;	/* first object = the executable */
}
static int
xs_cmp(const void *a, const void *b)
{
	const struct xs_sym *x = a, *y = b;
	return x->lo < y->lo ? -1 : x->lo > y->lo;
}
static void
xs_load(void)
{
	int fd = open("/proc/self/exe", O_RDONLY);
	struct stat st;
	const unsigned char *m;
	const Elf64_Ehdr *eh;
	const Elf64_Shdr *sh;

	dl_iterate_phdr(xs_phdr_cb, NULL);
	{
		void *warm[4];
		(void)backtrace(warm, 4);	/* loads the unwinder now, not inside an error report */
	}
	if (fd < 0 || fstat(fd, &st) < 0) {
		return;
	}
	m = mmap(NULL, (size_t)st.st_size, PROT_READ, MAP_PRIVATE, fd, 0);
	close(fd);
	if (m == MAP_FAILED) {
		return;
	}
	eh = (const void*)m;
	sh = (const void*)(m + eh->e_shoff);
	for (int i = 0; i < eh->e_shnum; i++) {
		if (sh[i].sh_type == SHT_SYMTAB) {
			const Elf64_Sym *sy = (const void*)(m + sh[i].sh_offset);
			size_t n = sh[i].sh_size / sizeof(*sy);
			const char *str = (const char*)(m + sh[sh[i].sh_link].sh_offset);
			xs_syms = calloc(n + 1, sizeof(*xs_syms));
			for (size_t k = 0; k < n; k++) {
				if (ELF64_ST_TYPE(sy[k].st_info) == STT_FUNC && sy[k].st_value) {
					xs_syms[xs_nsyms].lo = sy[k].st_value + xs_bias;
					xs_syms[xs_nsyms].hi = xs_syms[xs_nsyms].lo + (sy[k].st_size ? sy[k].st_size : 1);
					xs_syms[xs_nsyms].name = str + sy[k].st_name;
					xs_nsyms++;
				}
			}
			qsort(xs_syms, xs_nsyms, sizeof(*xs_syms), xs_cmp);
		}
	}
}
/* name of the function containing PC, with compiler suffixes (.part.0, .isra.0, .constprop.0) cut */
static const char*
xs_name(uintptr_t pc, char *buf, size_t bsz)
{
	size_t lo = 0, hi = xs_nsyms;
	while (lo < hi) {
		size_t mid = (lo + hi) / 2;
		if (xs_syms[mid].hi <= pc) {
			lo = mid + 1;
		} else if (xs_syms[mid].lo > pc) {
			hi = mid;
		} else {
			char *dot;
			snprintf(buf, bsz, "%s", xs_syms[mid].name);
			if ((dot = strchr(buf, '.'))) {
				*dot = '\0';
			}
			if (!strcmp(buf, "c10_real_tok_spec")) {
				snprintf(buf, bsz, "__tok_spec");
			}
			return buf;
		}
	}
	snprintf(buf, bsz, "libc-or-libasan");
	return buf;
}

/* ---------- arena slots with exact-size placement ---------- */
#define XA_LEFT		4096U
#define XA_SLOT		16384U
#define XA_CANARY	0xA5
struct xa_slot {
	unsigned char *base;	/* XA_SLOT bytes, poisoned */
	unsigned char *p;	/* payload = base + XA_LEFT */
	size_t open;		/* currently unpoisoned bytes from p */
	const char *what;	/* "format", "input", "output buffer" */
};
static struct xa_slot xa_fmt = {.what = "format"}, xa_inp = {.what = "input"}, xa_out = {.what = "output buffer"},
	xa_aux = {.what = "second string"};

static void
xa_init(struct xa_slot *s)
{
	s->base = mmap(NULL, XA_SLOT, PROT_READ | PROT_WRITE, MAP_PRIVATE | MAP_ANONYMOUS, -1, 0);
	if (s->base == MAP_FAILED) {
		perror("mmap");
		exit(3);
	}
	memset(s->base, XA_CANARY, XA_SLOT);
	s->p = s->base + XA_LEFT;
	s->open = 0;
	__asan_poison_memory_region(s->base, XA_SLOT);
}
/* make exactly LEN bytes at the payload address accessible */
static inline void
xa_open(struct xa_slot *s, size_t len)
{
	if (s->open) {
		__asan_poison_memory_region(s->p, (s->open + 7U) & ~(size_t)7U);
	}
	if (len) {
		__asan_unpoison_memory_region(s->p, len);
	}
	s->open = len;
}
/* place LEN bytes of DATA (exact size) */
static inline char*
xa_place(struct xa_slot *s, const void *data, size_t len)
{
	xa_open(s, len);
	memcpy(s->p, data, len);
	return (char*)s->p;
}
/* place DATA followed by FILL, everything accessible (differential runs) */
static inline char*
xa_place_fill(struct xa_slot *s, const void *data, size_t len, const char *fill, size_t flen)
{
	xa_open(s, len + flen);
	memcpy(s->p, data, len);
	memcpy(s->p + len, fill, flen);
	return (char*)s->p;
}
/* after a case: were bytes outside the payload overwritten (by code that is not instrumented)?
 * returns nonzero and the offset (relative to the payload start) of the first changed byte; restores
 * the canaries outside and inside the payload, so that the slot is all canary between cases */
#define XA_WORD	0xA5A5A5A5A5A5A5A5ULL
NOASAN static int
xa_check(struct xa_slot *s, size_t len, long *where)
{
	int bad = 0;
	size_t end = (len + 7U) & ~(size_t)7U;
	volatile uint64_t *w = (volatile uint64_t*)(s->p - 64);
	volatile unsigned char *b = s->p;

	for (int i = 0; i < 8; i++) {
		if (w[i] != XA_WORD) {
			for (long k = 0; k < 8; k++) {
				if (b[-64 + i * 8 + k] != XA_CANARY && !bad) {
					*where = -64 + i * 8 + k;
					bad = 1;
				}
			}
			w[i] = XA_WORD;
		}
	}
	for (size_t i = len; i < end; i++) {
		if (b[i] != XA_CANARY) {
			if (!bad) {
				*where = (long)i;
				bad = 1;
			}
			b[i] = XA_CANARY;
		}
	}
	w = (volatile uint64_t*)(s->p + end);
	for (int i = 0; i < 12; i++) {
		if (w[i] != XA_WORD) {
			for (long k = 0; k < 8; k++) {
				if (b[end + (size_t)(i * 8 + k)] != XA_CANARY && !bad) {
					*where = (long)end + i * 8 + k;
					bad = 1;
				}
			}
			w[i] = XA_WORD;
		}
	}
	/* the payload itself goes back to canaries */
	w = (volatile uint64_t*)s->p;
	for (size_t i = 0; i < end / 8; i++) {
		w[i] = XA_WORD;
	}
	return bad;
}

/* ---------- reports of the case in flight ---------- */
#define XR_MAX	6
struct xr_rep {
	char kind[96];	/* e.g. "read 1 past the end of the format" */
	char site[48];	/* function containing the access */
	char tok[32];	/* label of the specifier in flight, or "" */
};
static struct {
	int n;
	uint64_t total;	/* all reports of the case, distinct or not */
	struct xr_rep r[XR_MAX];
} xr;
/* tool level: the report is made in a forked child running main(); it goes to this descriptor as a line */
static int xr_emit_fd = -1;
static volatile int xr_sig;		/* signal that ended the case (0 none) */
static volatile uintptr_t xr_sig_pc;

/* the specifier being processed, maintained by the interposed __tok_spec */
static const char *xt_fp, *xt_ep;
static const char *xt_in_fp, *xt_in_ep;	/* the last specifier that started inside the format proper */
static const char *xt_fmt_lo, *xt_fmt_hi;	/* the format's bytes incl. NUL: [lo, hi) */
static int xt_calls;

NOASAN static int
xa_inside(const void *p)
{
	struct xa_slot *slots[] = {&xa_fmt, &xa_inp, &xa_out, &xa_aux};
	for (int i = 0; i < 4; i++) {
		if (slots[i]->base && (const unsigned char*)p >= slots[i]->base && (const unsigned char*)p < slots[i]->base + XA_SLOT) {
			return 1;
		}
	}
	return 0;
}
NOASAN static void
xt_label(char *buf, size_t bsz)
{
	/* normal form: % [modifiers that select other code: O _ r; sorted, unique] letter suffix -- the padding
	 * modifiers (blank, '-', '0') only change an argument and are left out; "lit" for a literal; a
	 * specifier cut short by the NUL is %<end> whatever its modifiers; "dflt:" marks the library's own
	 * default format (calendar names such as ymd/bizda are replaced by one) */
	static const char mods[] = " -0O_r";
	unsigned int seen = 0;
	const char *p = xt_fp, *e = xt_ep;
	const char *pfx = "";
	size_t k = 0;

	buf[0] = '\0';
	if (p == NULL) {
		return;
	}
	if (xt_fmt_lo == NULL || p < xt_fmt_lo || p >= xt_fmt_hi) {
		if (xa_inside(p)) {
			snprintf(buf, bsz, "<beyond the end>");
			return;
		}
		/* a string of the library */
		pfx = "dflt:";
		if (e == NULL || e <= p || e > p + 8) {
			e = p + strnlen(p, 8) + 1;
		}
	} else if (e == NULL || e <= p || e > xt_fmt_hi) {
		e = xt_fmt_hi;
	}
	if (*p != '%') {
		snprintf(buf, bsz, "%slit", pfx);
		return;
	}
	p++;
	for (; p < e; p++) {
		const char *m = *p ? strchr(mods, *p) : NULL;
		if (m == NULL) {
			break;
		}
		seen |= 1U << (m - mods);
	}
	seen &= ~7U;	/* blank, '-', '0' */
	k = (size_t)snprintf(buf, bsz, "%s%%", pfx);
	if (p >= e || *p == '\0') {
		snprintf(buf + k, bsz - k, "<end>");
		return;
	}
	if (seen) {
		buf[k++] = '[';
		for (int i = 0; mods[i]; i++) {
			if (seen & (1U << i)) {
				buf[k++] = mods[i];
			}
		}
		buf[k++] = ']';
	}
	for (; p < e && k + 8 < bsz; p++) {
		if (*p == '\0') {
			break;
		} else if ((unsigned char)*p < 0x20 || (unsigned char)*p >= 0x7f) {
			k += (size_t)snprintf(buf + k, bsz - k, "\\x%02x", (unsigned char)*p);
		} else {
			buf[k++] = *p;
		}
	}
	buf[k] = '\0';
}

/* label of the last specifier that started inside the format */
NOASAN static void
xt_label_last(char *buf, size_t bsz)
{
	const char *sfp = xt_fp, *sep = xt_ep;
	xt_fp = xt_in_fp;
	xt_ep = xt_in_ep;
	xt_label(buf, bsz);
	xt_fp = sfp;
	xt_ep = sep;
	if (buf[0] == '\0') {
		snprintf(buf, bsz, "-");
	}
}


static void
xr_add(const char *kind, uintptr_t pc)
{
	char site[48], tok[32];

	xs_name(pc, site, sizeof(site));
	xt_label(tok, sizeof(tok));
	if (xr_emit_fd >= 0) {
		char line[256];
		int n = snprintf(line, sizeof(line), "\nC10REPORT %s in %s\n", kind, site);
		if (write(xr_emit_fd, line, (size_t)n) < 0) {
			;
		}
	}
	for (int i = 0; i < xr.n; i++) {
		if (!strcmp(xr.r[i].kind, kind) && !strcmp(xr.r[i].site, site) && !strcmp(xr.r[i].tok, tok)) {
			return;
		}
	}
	if (xr.n < XR_MAX) {
		snprintf(xr.r[xr.n].kind, sizeof(xr.r[xr.n].kind), "%s", kind);
		snprintf(xr.r[xr.n].site, sizeof(xr.r[xr.n].site), "%s", site);
		snprintf(xr.r[xr.n].tok, sizeof(xr.r[xr.n].tok), "%s", tok);
		xr.n++;
	}
}

/* distance of the first reported access from the block: >0 bytes past the end, <0 before the start */
static long xr_dist;
/* describe ADDR relative to the arena slots, else by its shadow byte */
NOASAN static void
xr_where(uintptr_t addr, size_t sz, int wr, char *buf, size_t bsz)
{
	struct xa_slot *slots[] = {&xa_fmt, &xa_inp, &xa_out, &xa_aux};
	for (int i = 0; i < 4; i++) {
		struct xa_slot *s = slots[i];
		if (s->base && addr >= (uintptr_t)s->base && addr < (uintptr_t)s->base + XA_SLOT) {
			long off = (long)(addr - (uintptr_t)s->p);
			if (off < 0) {
				/* distances are bucketed: 1, 2, 3+ */
				xr_dist = off;
				snprintf(buf, bsz, "%s before the start of the %s", wr ? "write" : "read", s->what);
			} else {
				long d = off + (long)sz - (long)s->open;
				xr_dist = d <= 0 ? 1 : d;
				snprintf(buf, bsz, "%s past the end of the %s", wr ? "write" : "read", s->what);
			}
			return;
		}
	}
	{
		const char *zone = "unaddressable memory";
		unsigned char sh = *(unsigned char*)((addr >> 3) + 0x7fff8000UL);
		if (sh == 0 || (sh < 8 && (addr & 7U) + sz <= sh)) {
			/* the first granule is fine: the access runs into the next one */
			sh = *(unsigned char*)(((addr + sz - 1) >> 3) + 0x7fff8000UL);
		}
		switch (sh) {
		case 0xf9: zone = "global red zone"; break;
		case 0xf1: case 0xf2: case 0xf3: case 0xf5: case 0xf8: zone = "stack red zone"; break;
		case 0xfa: case 0xfb: zone = "heap red zone"; break;
		case 0xfd: zone = "freed heap"; break;
		case 0xf7: zone = "poisoned memory"; break;
		default:
			if (sh > 0 && sh < 8) {
				/* partially addressable granule: find out what lies behind */
				unsigned char nx = *(unsigned char*)(((addr >> 3) + 1) + 0x7fff8000UL);
				zone = nx == 0xf9 ? "global red zone" : nx == 0xfa ? "heap red zone" :
					(nx >= 0xf1 && nx <= 0xf3) ? "stack red zone" : "partially addressable granule";
			}
			break;
		}
		snprintf(buf, bsz, "%s of %s", wr ? "write" : "read", zone);
	}
}

/* reads that the compiler widened: gcc loads a packed 8-byte bit-field struct on the stack with one
 * 8-byte load at an odd offset (e.g. "return d;" in dround.c), which overlaps the neighbouring stack red
 * zone by a few bytes although the C code never leaves the object; libasan calls this "unknown-crash".
 * Reading: not a defect of dateutils.  Such reports (read, size >= 2, first byte addressable, the rest in a
 * STACK red zone) are skipped and counted. */
static uint64_t xr_skipped_widened;
NOASAN static int
xr_widened_stack_load(uintptr_t addr, size_t sz, int wr)
{
	unsigned char s0, s1;
	if (wr || sz < 2) {
		return 0;
	}
	s0 = *(unsigned char*)((addr >> 3) + 0x7fff8000UL);
	if (!(s0 == 0 || (s0 < 8 && (addr & 7U) < s0))) {
		return 0;
	}
	s1 = *(unsigned char*)(((addr + sz - 1) >> 3) + 0x7fff8000UL);
	return s1 == 0xf1 || s1 == 0xf2 || s1 == 0xf3;
}

NOASAN static void
xr_asan(uintptr_t addr, size_t sz, int wr, uintptr_t pc)
{
	char kind[96];
	if (xr_widened_stack_load(addr, sz, wr)) {
		if (xr_skipped_widened++ == 0 && xr_emit_fd >= 0) {
			if (write(xr_emit_fd, "\nC10SKIP widened\n", 18) < 0) {
				;
			}
		}
		return;
	}
	if (xr.total++) {
		/* only the first report of a case is turned into a record: what follows is its consequence */
		return;
	}
	xr_where(addr, sz, wr, kind, sizeof(kind));
	xr_add(kind, pc);
}

#define XR_DEF(n)	\
	NOASAN void __asan_report_load##n##_noabort(uintptr_t a) { xr_asan(a, n, 0, (uintptr_t)__builtin_return_address(0)); } \
	NOASAN void __asan_report_store##n##_noabort(uintptr_t a) { xr_asan(a, n, 1, (uintptr_t)__builtin_return_address(0)); } \
	NOASAN void __asan_report_load##n(uintptr_t a) { xr_asan(a, n, 0, (uintptr_t)__builtin_return_address(0)); } \
	NOASAN void __asan_report_store##n(uintptr_t a) { xr_asan(a, n, 1, (uintptr_t)__builtin_return_address(0)); }
XR_DEF(1)
XR_DEF(2)
XR_DEF(4)
XR_DEF(8)
XR_DEF(16)
NOASAN void __asan_report_load_n_noabort(uintptr_t a, size_t n) { xr_asan(a, n, 0, (uintptr_t)__builtin_return_address(0)); }
NOASAN void __asan_report_store_n_noabort(uintptr_t a, size_t n) { xr_asan(a, n, 1, (uintptr_t)__builtin_return_address(0)); }
NOASAN void __asan_report_load_n(uintptr_t a, size_t n) { xr_asan(a, n, 0, (uintptr_t)__builtin_return_address(0)); }
NOASAN void __asan_report_store_n(uintptr_t a, size_t n) { xr_asan(a, n, 1, (uintptr_t)__builtin_return_address(0)); }

/* slow path: an interceptor of libasan found the problem */
NOASAN void
__asan_on_error(void)
{
	char kind[96], w[96];
	uintptr_t addr = (uintptr_t)__asan_get_report_address();
	int wr = __asan_get_report_access_type();
	size_t sz = __asan_get_report_access_size();
	const char *d = __asan_get_report_description();

	if (xr.total++) {
		return;
	}
	if (addr) {
		xr_where(addr, sz ? sz : 1, wr, w, sizeof(w));
		snprintf(kind, sizeof(kind), "%.60s [libc call, %.24s]", w, d ? d : "?");
	} else {
		snprintf(kind, sizeof(kind), "asan: %.80s", d ? d : "?");
	}
	/* the pc is inside libasan's interceptor: name the first frame above it that belongs to this executable */
	{
		void *bt[32];
		int nbt = backtrace(bt, 32);
		uintptr_t pc = (uintptr_t)__asan_get_report_pc();
		for (int i = 1; i < nbt; i++) {
			char nm[48];
			xs_name((uintptr_t)bt[i] - 1U, nm, sizeof(nm));
			if (strcmp(nm, "libc-or-libasan") && strncmp(nm, "__asan", 6) && strncmp(nm, "xr_", 3)) {
				pc = (uintptr_t)bt[i] - 1U;
				break;
			}
		}
		xr_add(kind, pc);
	}
}

/* ---------- guard: signals and the watchdog unwind to the case loop ---------- */
static sigjmp_buf xg_jb;
static volatile sig_atomic_t xg_armed;
static volatile uint64_t xg_progress;
static uint64_t xg_seen;

static void
xg_alarm(int sig)
{
	(void)sig;
	if (xg_armed) {
		if (xg_progress == xg_seen) {
			xg_armed = 0;
			xr_sig = SIGALRM;
			siglongjmp(xg_jb, 1);
		}
		xg_seen = xg_progress;
	}
}
static void
xg_fatal(int sig, siginfo_t *si, void *uc_)
{
	ucontext_t *uc = uc_;
	(void)si;
	if (xg_armed) {
		xg_armed = 0;
		xr_sig = sig;
		xr_sig_pc = (uintptr_t)uc->uc_mcontext.gregs[REG_RIP];
		siglongjmp(xg_jb, 2);
	}
	signal(sig, SIG_DFL);
	raise(sig);
}
static void
xg_init(int period_ms)
{
	struct sigaction sa;
	struct itimerval it;
	memset(&sa, 0, sizeof(sa));
	sa.sa_handler = xg_alarm;
	sa.sa_flags = SA_NODEFER;
	sigaction(SIGALRM, &sa, NULL);
	sa.sa_handler = NULL;
	sa.sa_sigaction = xg_fatal;
	sa.sa_flags = SA_NODEFER | SA_SIGINFO;
	sigaction(SIGSEGV, &sa, NULL);
	sigaction(SIGBUS, &sa, NULL);
	sigaction(SIGFPE, &sa, NULL);
	sigaction(SIGABRT, &sa, NULL);
	sigaction(SIGILL, &sa, NULL);
	sigaction(SIGTRAP, &sa, NULL);
	it.it_interval.tv_sec = period_ms / 1000;
	it.it_interval.tv_usec = (period_ms % 1000) * 1000;
	it.it_value = it.it_interval;
	setitimer(ITIMER_REAL, &it, NULL);
}
static const char*
xg_signame(int sig)
{
	switch (sig) {
	case SIGALRM: return "hang (no return within the watchdog period)";
	case SIGSEGV: return "SIGSEGV";
	case SIGBUS: return "SIGBUS";
	case SIGFPE: return "SIGFPE";
	case SIGABRT: return "abort()";
	case SIGILL: return "array index out of bounds (-fsanitize=bounds trap)";
	case SIGTRAP: return "SIGTRAP";
	default: return "fatal signal";
	}
}
/* after which endings the process must be replaced: a deliberate abort() and a bounds trap (taken before
 * the access) leave the process intact; a wild access or an interrupted loop may not */
static inline int
xg_must_restart(void)
{
	return xr_sig == SIGSEGV || xr_sig == SIGBUS || xr_sig == SIGALRM;
}
/* XG_BEGIN(rc) ... XG_END : rc 0 = returned, 1 = hang, 2 = fatal signal */
#define XG_BEGIN(rc)	do { xr_sig = 0; (rc) = sigsetjmp(xg_jb, 1); if ((rc) == 0) { xg_progress++; xg_armed = 1;
#define XG_END		xg_armed = 0; } } while (0)

/* ---------- rendering of byte strings ---------- */
static const char*
xe_esc(const char *s, size_t len, char *buf, size_t bsz)
{
	size_t k = 0;
	for (size_t i = 0; i < len && k + 6 < bsz; i++) {
		unsigned char c = (unsigned char)s[i];
		if (c == '\\' ) {
			buf[k++] = '\\';
			buf[k++] = '\\';
		} else if (c == '\t') {
			buf[k++] = '\\';
			buf[k++] = 't';
		} else if (c == '\n') {
			buf[k++] = '\\';
			buf[k++] = 'n';
		} else if (c < 0x20 || c >= 0x7f) {
			k += (size_t)snprintf(buf + k, bsz - k, "\\x%02x", c);
		} else {
			buf[k++] = (char)c;
		}
	}
	if (len > 0 && k + 6 >= bsz && bsz > 4) {
		memcpy(buf + bsz - 4, "...", 4);
		return buf;
	}
	buf[k] = '\0';
	return buf;
}
static int
xe_printable(const char *s, size_t len)
{
	for (size_t i = 0; i < len; i++) {
		unsigned char c = (unsigned char)s[i];
		if (c < 0x20 || c >= 0x7f || c == '\'') {
			return 0;
		}
	}
	return 1;
}
static void
xe_hex(const char *s, size_t len, char *buf, size_t bsz)
{
	size_t k = 0;
	if (len == 0) {
		snprintf(buf, bsz, "-");
		return;
	}
	for (size_t i = 0; i < len && k + 3 < bsz; i++) {
		k += (size_t)snprintf(buf + k, bsz - k, "%02x", (unsigned char)s[i]);
	}
}
static size_t
xe_unhex(const char *h, char *buf, size_t bsz)
{
	size_t k = 0;
	if (!strcmp(h, "-")) {
		return 0;
	}
	for (; h[0] && h[1] && k < bsz; h += 2) {
		unsigned int v;
		sscanf(h, "%2x", &v);
		buf[k++] = (char)v;
	}
	return k;
}

/* ---------- violation table with a hash front (ex_viol searches linearly) ---------- */
static void
xv_viol(const char *key, double ord, const char *cas, const char *cmd, const char *detail)
{
	static int slot[8192];
	uint64_t h = ex_hash(key, strlen(key));
	struct ex_viol_s *v;

	for (unsigned int i = (unsigned int)(h & 8191U);; i = (i + 1U) & 8191U) {
		if (slot[i] == 0) {
			if (ex.nviol >= EX_MAXVIOL) {
				ex.viol_overflow++;
				return;
			}
			v = ex.viol + ex.nviol++;
			memset(v, 0, sizeof(*v));
			v->key = strdup(key);
			v->lo = v->hi = v->ord = ord;
			slot[i] = ex.nviol;
			break;
		} else if (!strcmp(ex.viol[slot[i] - 1].key, key)) {
			v = ex.viol + slot[i] - 1;
			break;
		}
	}
	v->n++;
	if (ord < v->lo) {
		v->lo = ord;
	}
	if (ord > v->hi) {
		v->hi = ord;
	}
	if (v->cas == NULL || ord < v->ord) {
		free(v->cas);
		free(v->detail);
		free(v->cmd);
		v->cas = strdup(cas ? cas : "");
		v->detail = strdup(detail ? detail : "");
		v->cmd = cmd ? strdup(cmd) : NULL;
		v->ord = ord;
	}
}
/* merge an aggregated record (from a child) */
static void
xv_merge(const char *key, uint64_t n, double ord, double lo, double hi, const char *cas, const char *cmd, const char *detail)
{
	struct ex_viol_s *v = NULL;
	for (int i = 0; i < ex.nviol; i++) {
		if (!strcmp(ex.viol[i].key, key)) {
			v = ex.viol + i;
			break;
		}
	}
	if (v == NULL) {
		if (ex.nviol >= EX_MAXVIOL) {
			ex.viol_overflow += n;
			return;
		}
		v = ex.viol + ex.nviol++;
		memset(v, 0, sizeof(*v));
		v->key = strdup(key);
		v->lo = lo;
		v->hi = hi;
		v->ord = ord;
	}
	v->n += n;
	if (lo < v->lo) {
		v->lo = lo;
	}
	if (hi > v->hi) {
		v->hi = hi;
	}
	if (v->cas == NULL || ord < v->ord) {
		free(v->cas);
		free(v->detail);
		free(v->cmd);
		v->cas = strdup(cas);
		v->detail = strdup(detail);
		v->cmd = (cmd && *cmd) ? strdup(cmd) : NULL;
		v->ord = ord;
	}
}

/* ---------- batches in forked children ---------- */
struct xb_shared {
	volatile uint64_t cur;		/* index of the unit (string) in flight */
	volatile uint64_t sub;		/* running number of the case in flight within the unit */
	volatile uint64_t done;		/* 1 = batch completed */
	volatile uint64_t restart;	/* 1 = child asks to be replaced, continue behind (cur, sub) */
	volatile uint64_t expired;
};
static struct xb_shared *xb;
static uint64_t xb_sub, xb_skip_upto, xb_stop_unit = UINT64_MAX, xb_stop_sub;

/* every case starts with: if (xb_skip()) return 0;  -- numbers the cases of a unit, so that a
 * replaced child resumes exactly behind the case that ended its predecessor */
static inline int
xb_skip(void)
{
	xb_sub++;
	if (xb_sub <= xb_skip_upto) {
		return 1;
	}
	if (xb != NULL) {
		if (xb->cur == xb_stop_unit && xb_sub >= xb_stop_sub) {
			return 1;
		}
		xb->sub = xb_sub;
	}
	return 0;
}

static void
xb_init(void)
{
	uint8_t *bm;
	xb = mmap(NULL, sizeof(*xb), PROT_READ | PROT_WRITE, MAP_SHARED | MAP_ANONYMOUS, -1, 0);
	/* the outcome bitmap must be shared with the children */
	bm = mmap(NULL, EX_BITMAP_BITS / 8, PROT_READ | PROT_WRITE, MAP_SHARED | MAP_ANONYMOUS, -1, 0);
	if (xb == MAP_FAILED || bm == MAP_FAILED) {
		perror("mmap");
		exit(3);
	}
	free(ex.bitmap);
	ex.bitmap = bm;
}

static void
xb_tsv(FILE *f, const char *s)
{
	for (; s && *s; s++) {
		if (*s == '\t' || *s == '\n' || *s == '\r') {
			fputc(' ', f);
		} else {
			fputc(*s, f);
		}
	}
}
/* child: hand everything over */
static void
xb_child_flush(int fd)
{
	FILE *f = fdopen(fd, "w");
	if (xr_skipped_widened) {
		*ex_ctr("skipped:compiler-widened load of a packed struct overlapping a stack red zone (gcc artifact, not a defect)") += xr_skipped_widened;
		xr_skipped_widened = 0;
	}
	for (int i = 0; i < ex.nctr; i++) {
		fprintf(f, "C\t%llu\t", (unsigned long long)ex.ctr_val[i]);
		xb_tsv(f, ex.ctr_name[i]);
		fputc('\n', f);
	}
	for (int i = 0; i < ex.nviol; i++) {
		struct ex_viol_s *v = ex.viol + i;
		fprintf(f, "V\t%llu\t%.17g\t%.17g\t%.17g\t", (unsigned long long)v->n, v->ord, v->lo, v->hi);
		xb_tsv(f, v->key);
		fputc('\t', f);
		xb_tsv(f, v->cas);
		fputc('\t', f);
		xb_tsv(f, v->cmd ? v->cmd : "");
		fputc('\t', f);
		xb_tsv(f, v->detail);
		fputc('\n', f);
	}
	if (ex.viol_overflow) {
		fprintf(f, "O\t%llu\n", (unsigned long long)ex.viol_overflow);
	}
	if (ex.sample_last) {
		fprintf(f, "S\t");
		xb_tsv(f, ex.sample_last);
		fputc('\n', f);
	}
	fflush(f);
}
static void
xb_parent_merge(int fd)
{
	FILE *f;
	char *line = NULL;
	size_t cap = 0;
	ssize_t n;

	lseek(fd, 0, SEEK_SET);
	f = fdopen(fd, "r");
	while ((n = getline(&line, &cap, f)) > 0) {
		char *fld[9];
		int nf = 0;
		if (line[n - 1] == '\n') {
			line[n - 1] = '\0';
		}
		for (char *p = line; nf < 9; nf++) {
			fld[nf] = p;
			if ((p = strchr(p, '\t')) == NULL) {
				nf++;
				break;
			}
			*p++ = '\0';
		}
		if (line[0] == 'C' && nf >= 3) {
			/* counters in the child started from the parent's values */
			*ex_ctr(fld[2]) = strtoull(fld[1], NULL, 10);
		} else if (line[0] == 'V' && nf >= 9) {
			xv_merge(fld[5], strtoull(fld[1], NULL, 10), atof(fld[2]), atof(fld[3]), atof(fld[4]), fld[6], fld[7], fld[8]);
		} else if (line[0] == 'O' && nf >= 2) {
			ex.viol_overflow += strtoull(fld[1], NULL, 10);
		} else if (line[0] == 'S' && nf >= 2) {
			ex_sample("%s", fld[1]);
		}
	}
	free(line);
	fclose(f);
}

/* one child over the units [from, hi), skipping the first FROM_SUB cases of unit FROM and everything
 * from case STOP_SUB of unit STOP_UNIT on.  Returns the wait status; results are merged if it exited 0. */
static int
xb_child(uint64_t from, uint64_t from_sub, uint64_t hi, uint64_t stop_unit, uint64_t stop_sub, int (*fn)(uint64_t))
{
	EX_CTR(c_forks, "child_processes");
	int fd = memfd_create("xb", 0);
	pid_t pid;
	int st = 0;

	xb->cur = from;
	xb->sub = from_sub;
	xb->done = xb->restart = 0;
	fflush(stdout);
	fflush(stderr);
	++*c_forks;
	if ((pid = fork()) < 0) {
		perror("fork");
		exit(3);
	}
	if (pid == 0) {
		/* child: fresh failure table, inherited counters */
		ex.nviol = 0;
		ex.viol_overflow = 0;
		free(ex.sample_last);
		ex.sample_last = NULL;
		xb_stop_unit = stop_unit;
		xb_stop_sub = stop_sub;
		xg_init(1000);
		for (uint64_t i = from; i < hi; i++) {
			if (ex_expired()) {
				xb->expired = 1;
				break;
			}
			xb->cur = i;
			xb_sub = 0;
			xb_skip_upto = i == from ? from_sub : 0;
			if (fn(i)) {
				xb->restart = 1;
				xb_child_flush(fd);
				_exit(0);
			}
		}
		xb->done = 1;
		xb_child_flush(fd);
		_exit(0);
	}
	while (waitpid(pid, &st, 0) < 0 && errno == EINTR) {
		;
	}
	if (WIFEXITED(st) && WEXITSTATUS(st) == 0) {
		xb_parent_merge(fd);	/* closes fd */
	} else {
		close(fd);
	}
	return st;
}

/* run the units [lo, hi) through FN in children.  FN(i) runs all cases of unit i (each case calls
 * xb_skip() first) and returns nonzero as soon as a case ended in a signal or hang: the process is
 * then replaced and the successor resumes behind that case.  ONDEATH(unit, sub, status) records
 * the observation when a child dies without handing over. */
static void
xb_run(uint64_t lo, uint64_t hi, int (*fn)(uint64_t), void (*ondeath)(uint64_t, uint64_t, int))
{
	uint64_t from = lo, from_sub = 0;

	while (from < hi && !ex.expired) {
		int st = xb_child(from, from_sub, hi, UINT64_MAX, 0, fn);
		if (WIFEXITED(st) && WEXITSTATUS(st) == 0) {
			if (xb->expired) {
				ex.expired = 1;
				break;
			}
			if (!xb->restart) {
				break;
			}
			from = xb->cur;
			from_sub = xb->sub;
		} else {
			/* died without handing over: what it had found before (cur, sub) is lost, so that
			 * stretch runs again (deterministic) in a child that stops in front of the fatal case */
			uint64_t dead = xb->cur, dsub = xb->sub;
			for (int guard = 0; guard < 100000; guard++) {
				int st2 = xb_child(from, from_sub, dead + 1, dead, dsub, fn);
				if (WIFEXITED(st2) && WEXITSTATUS(st2) == 0 && xb->restart) {
					from = xb->cur;
					from_sub = xb->sub;
					continue;
				}
				break;
			}
			ondeath(dead, dsub, st);
			from = dead;
			from_sub = dsub;
		}
	}
}

/* ---------- the alphabets and the canonical enumeration of strings ---------- */
static const char SF[] = "%YdbO_ths-aZ";
static const char SI[] = "201-:TWb @+\x01";
static const char SD[] = "190-+dmowrs/";
#define NA	12

static uint64_t
nstrings(int maxlen)
{
	uint64_t n = 0, p = 1;
	for (int l = 0; l <= maxlen; l++, p *= NA) {
		n += p;
	}
	return n;
}
/* canonical order: by length, then by alphabet index */
static size_t
idx2str(uint64_t idx, const char *alpha, char *buf)
{
	uint64_t p = 1;
	size_t len = 0;
	while (idx >= p) {
		idx -= p;
		p *= NA;
		len++;
	}
	for (size_t i = len; i-- > 0;) {
		buf[i] = alpha[idx % NA];
		idx /= NA;
	}
	buf[len] = '\0';
	return len;
}


/* every specifier of the grammar (info/format.texi, lib/token.c), with the modifier and suffix forms,
 * truncated specifiers and an unknown letter */
static const char *const xc_specs[] = {
	"%F", "%T", "%Y", "%y", "%_y", "%m", "%d", "%u", "%w", "%D", "%j", "%c", "%U", "%V", "%C", "%W", "%A", "%a", "%_a", "%B", "%b", "%h", "%_b",
	"%I", "%H", "%M", "%S", "%N", "%p", "%P", "%s", "%s%N", "%Z", "%Q", "%q", "%G", "%g", "%rY", "%Od", "%Om", "%OY", "%Oy", "%Oc", "%dth", "%mth", "%Yth",
	"%db", "%dB", "%jb", "%%", "%t", "%n", "%", "%_", "%O", "%x", "%-d", "%_d", "% d", "%0d", "%-m", "%-H", "%-dth", "%-j", "x",
};
#define XC_NSPECS	((uint64_t)(sizeof(xc_specs) / sizeof(*xc_specs)))

/* ---------- duration lists (mode M of c10_io.c, the dadd/dround/dseq parts of c10_tools.c) ----------
 * A list has N elements, N = 0..XD_MAXN(tier); element i of pattern P: P < 9: the unit P throughout;
 * P == 9: the nine units in rotation; P == 10: the co-class forms in rotation; P == 11: units and co-class
 * forms in rotation.  Sign variant 0: every element +, 1: + and - alternating -- not for the patterns with co-class forms: those carry
 * no sign, and inside one string a sign holds until the next one, so the concatenated form would be ambiguous. */
static const char *const xd_units[] = {"1d", "2b", "1w", "1mo", "1y", "3h", "4m", "5s", "6rs"};
static const char *const xd_cocl[] = {"/1h", "/15m", "/30s", "/1d"};
#define XD_NUNITS	9
#define XD_NCOCL	4
#define XD_NPAT	12
#define XD_MAXN(thorough)	((thorough) ? 70 : 40)

/* element I of the list; returns its length */
static size_t
xd_elem(int pat, int signvar, int i, char *buf, size_t bsz)
{
	const char *e;
	int cocl = 0;
	if (pat < XD_NUNITS) {
		e = xd_units[pat];
	} else if (pat == 9) {
		e = xd_units[i % XD_NUNITS];
	} else if (pat == 10) {
		e = xd_cocl[i % XD_NCOCL];
		cocl = 1;
	} else {
		int k = i % (XD_NUNITS + XD_NCOCL);
		cocl = k >= XD_NUNITS;
		e = cocl ? xd_cocl[k - XD_NUNITS] : xd_units[k];
	}
	return (size_t)snprintf(buf, bsz, "%s%s", cocl ? "" : (signvar && (i & 1)) ? "-" : "+", e);
}
/* the whole list as one string, elements joined by SEP ("" or " ") */
static size_t
xd_join(int pat, int signvar, int n, const char *sep, char *buf, size_t bsz)
{
	size_t k = 0;
	buf[0] = '\0';
	for (int i = 0; i < n && k + 16 < bsz; i++) {
		if (i) {
			k += (size_t)snprintf(buf + k, bsz - k, "%s", sep);
		}
		k += xd_elem(pat, signvar, i, buf + k, bsz - k);
	}
	return k;
}

/* ---------- formats with bytes >= 0x80 among their first four bytes ----------
 * every string over the format alphabet of length <= LH (the base) with one of {0x80, 0xc3, 0xff, the two-byte
 * UTF-8 letter e-acute} inserted at every position 0..min(len, 3) */
static const char *const xh_ins[] = {"\x80", "\xc3", "\xff", "\xc3\xa9"};
#define XH_NINS	4
static uint64_t
xh_count(int lh)
{
	return nstrings(lh) * 4U * XH_NINS;
}
static size_t
xh_format(uint64_t idx, char *buf)
{
	char base[16];
	size_t bl, il, pos;
	const char *ins = xh_ins[idx % XH_NINS];
	idx /= XH_NINS;
	pos = (size_t)(idx % 4U);
	idx /= 4U;
	bl = idx2str(idx, SF, base);
	if (pos > bl) {
		pos = bl;	/* (a duplicate of the position bl, harmless) */
	}
	il = strlen(ins);
	memcpy(buf, base, pos);
	memcpy(buf + pos, ins, il);
	memcpy(buf + pos + il, base + pos, bl - pos + 1);
	return bl + il;
}

#endif	/* VERIF_C10_COMMON_H */
