/* refzif.h -- reference TZif reader and generator (single header).
 *
 * Deliberately boring and independent of lib/tzraw.c:
 *   - header walk by the book (RFC 8536 / tzfile(5)): magic, version byte,
 *     six big-endian counts, v1 data block, for version >= 2 a second header
 *     and a data block with 8-byte instants; every offset is bounds-checked
 *     against the image, a malformed image is refused with a reason;
 *   - NO merging of equal types, NO cache, NO bisection: the offset in force
 *     at T is found by a linear scan for the last listed transition <= T;
 *     the offset of the last listed transition holds forever (the POSIX
 *     footer is ignored, as the property statement says); instants before the
 *     first listed transition are outside the model (rz_index() == -1).
 *
 * Self-checks (a disagreement is exit status 3, a broken check, never a
 * violation):
 *   - rz_selfcheck_scan(): forward scan == backward scan on every boundary instant
 *   - rz_selfcheck_libc(): for installed files, the C library's own TZif reader
 *     (localtime_r with TZ=:/path, tm_gmtoff) must report the same offset for every
 *     instant in [first transition, last transition) that is asked
 *   - rz_gen() + rz_parse() must reproduce the abstract zone it was generated from.
 */
#ifndef VERIF_REFZIF_H
#define VERIF_REFZIF_H
#include <stdio.h>
#include <stdlib.h>
#include <stdint.h>
#include <string.h>
#include <time.h>

#define RZ_MAXTY	256

struct rz_file {
	int version;		/* 1, 2, 3, ... (from the first header) */
	int from64;		/* table taken from the 64-bit block */
	long ntr, nty;
	int64_t *tr;		/* listed transition instants, as listed */
	uint8_t *ty;		/* type index of each transition */
	int32_t off[RZ_MAXTY];	/* UT offset per type */
	char err[128];
};

static uint32_t
rz_u32(const uint8_t *p)
{
	return ((uint32_t)p[0] << 24) | ((uint32_t)p[1] << 16) | ((uint32_t)p[2] << 8) | (uint32_t)p[3];
}
static int32_t
rz_i32(const uint8_t *p)
{
	uint32_t u = rz_u32(p);
	/* two's complement by arithmetic, not by cast */
	return u >= 0x80000000UL ? (int32_t)(-(int64_t)(0x100000000ULL - u)) : (int32_t)u;
}
static int64_t
rz_i64(const uint8_t *p)
{
	uint64_t u = 0;
	for (int i = 0; i < 8; i++) {
		u = u * 256U + p[i];
	}
	if (u >= 0x8000000000000000ULL) {
		uint64_t m = ~u + 1U;	/* magnitude */
		if (m == 0x8000000000000000ULL) {
			return INT64_MIN;
		}
		return -(int64_t)m;
	}
	return (int64_t)u;
}

struct rz_hdr {
	uint32_t isutcnt, isstdcnt, leapcnt, timecnt, typecnt, charcnt;
	int version;
};

/* returns 0 and fills H if a header sits at POS */
static int
rz_header(const uint8_t *img, size_t len, size_t pos, struct rz_hdr *h, char *err)
{
	if (pos > len || len - pos < 44) {
		snprintf(err, 128, "header at %zu does not fit into %zu bytes", pos, len);
		return -1;
	}
	if (img[pos] != 'T' || img[pos + 1] != 'Z' || img[pos + 2] != 'i' || img[pos + 3] != 'f') {
		snprintf(err, 128, "no TZif magic at %zu", pos);
		return -1;
	}
	if (img[pos + 4] == 0) {
		h->version = 1;
	} else if (img[pos + 4] >= '2' && img[pos + 4] <= '9') {
		h->version = img[pos + 4] - '0';
	} else {
		snprintf(err, 128, "version byte 0x%02x", img[pos + 4]);
		return -1;
	}
	h->isutcnt = rz_u32(img + pos + 20);
	h->isstdcnt = rz_u32(img + pos + 24);
	h->leapcnt = rz_u32(img + pos + 28);
	h->timecnt = rz_u32(img + pos + 32);
	h->typecnt = rz_u32(img + pos + 36);
	h->charcnt = rz_u32(img + pos + 40);
	return 0;
}

/* size of the data block that follows a header, with TSZ-byte instants */
static uint64_t
rz_blocksize(const struct rz_hdr *h, unsigned int tsz)
{
	return (uint64_t)h->timecnt * tsz + (uint64_t)h->timecnt + (uint64_t)h->typecnt * 6U +
		(uint64_t)h->charcnt + (uint64_t)h->leapcnt * (tsz + 4U) + (uint64_t)h->isstdcnt + (uint64_t)h->isutcnt;
}

static void
rz_free(struct rz_file *f)
{
	free(f->tr);
	free(f->ty);
	f->tr = NULL;
	f->ty = NULL;
}

/* parse IMG; 0 = ok.  -1 = refused (reason in f->err) */
static int
rz_parse(const uint8_t *img, size_t len, struct rz_file *f)
{
	struct rz_hdr h;
	size_t pos = 0;
	unsigned int tsz = 4;
	uint64_t bs;

	memset(f, 0, sizeof(*f));
	if (rz_header(img, len, 0, &h, f->err) < 0) {
		return -1;
	}
	f->version = h.version;
	bs = rz_blocksize(&h, 4);
	if (bs > len - 44) {
		snprintf(f->err, sizeof(f->err), "v1 data block of %llu bytes does not fit", (unsigned long long)bs);
		return -1;
	}
	if (h.version >= 2) {
		pos = 44 + (size_t)bs;
		if (rz_header(img, len, pos, &h, f->err) < 0) {
			return -1;
		}
		tsz = 8;
		bs = rz_blocksize(&h, 8);
		if (bs > len - pos - 44) {
			snprintf(f->err, sizeof(f->err), "v2 data block of %llu bytes does not fit", (unsigned long long)bs);
			return -1;
		}
		f->from64 = 1;
	}
	if (h.typecnt == 0 || h.typecnt > RZ_MAXTY) {
		snprintf(f->err, sizeof(f->err), "typecnt %u", h.typecnt);
		return -1;
	}
	f->ntr = (long)h.timecnt;
	f->nty = (long)h.typecnt;
	f->tr = malloc(sizeof(*f->tr) * (size_t)(f->ntr + 1));
	f->ty = malloc((size_t)f->ntr + 1);
	{
		const uint8_t *p = img + pos + 44;
		for (long i = 0; i < f->ntr; i++) {
			f->tr[i] = tsz == 8 ? rz_i64(p + 8 * i) : (int64_t)rz_i32(p + 4 * i);
		}
		p += (size_t)tsz * (size_t)f->ntr;
		for (long i = 0; i < f->ntr; i++) {
			f->ty[i] = p[i];
			if (p[i] >= f->nty) {
				snprintf(f->err, sizeof(f->err), "transition %ld has type %u of %ld", i, p[i], f->nty);
				rz_free(f);
				return -1;
			}
		}
		p += f->ntr;
		for (long k = 0; k < f->nty; k++) {
			f->off[k] = rz_i32(p + 6 * k);
		}
	}
	for (long i = 1; i < f->ntr; i++) {
		if (f->tr[i] <= f->tr[i - 1]) {
			snprintf(f->err, sizeof(f->err), "transition table not strictly ascending at %ld", i);
			rz_free(f);
			return -1;
		}
	}
	return 0;
}

/* index of the last listed transition <= T by a forward linear scan; -1 = none */
static long
rz_index(const struct rz_file *f, int64_t t)
{
	long k = -1;
	for (long i = 0; i < f->ntr; i++) {
		if (f->tr[i] <= t) {
			k = i;
		}
	}
	return k;
}

/* second formulation: backward scan */
static long
rz_index_bwd(const struct rz_file *f, int64_t t)
{
	for (long i = f->ntr - 1; i >= 0; i--) {
		if (!(t < f->tr[i])) {
			return i;
		}
	}
	return -1;
}

/* the model's answer: 1 and *OFF if T is inside the model, 0 if outside
 * (before the first listed transition; or no transition listed and more than
 * one type to choose from) */
static int
rz_offset(const struct rz_file *f, int64_t t, int32_t *off)
{
	long k;
	if (f->ntr == 0) {
		if (f->nty == 1) {
			*off = f->off[0];
			return 1;
		}
		return 0;
	}
	k = rz_index(f, t);
	if (k < 0) {
		return 0;
	}
	*off = f->off[f->ty[k]];
	return 1;
}

static void
rz_broken(const char *what, const char *name, int64_t t, long a, long b)
{
	fprintf(stderr, "refzif self-check failed (%s) for %s at instant %lld: %ld vs %ld\n", what, name, (long long)t, a, b);
	exit(3);
}

static void
rz_selfcheck_scan(const struct rz_file *f, const char *name)
{
	for (long i = 0; i < f->ntr; i++) {
		for (int d = -1; d <= 1; d++) {
			int64_t t = f->tr[i] + d;
			long a = rz_index(f, t), b = rz_index_bwd(f, t);
			if (a != b) {
				rz_broken("forward vs backward scan", name, t, a, b);
			}
			if (d >= 0 && a != i) {
				rz_broken("scan does not find the transition itself", name, t, a, i);
			}
			if (d < 0 && a != i - 1) {
				rz_broken("scan one second before a transition", name, t, a, i - 1);
			}
		}
	}
}

/* the C library as an independent TZif reader: switch TZ to the file, ask for
 * tm_gmtoff.  Only meaningful in [first transition, last transition): before
 * and after that libc applies conventions/the POSIX footer the property does
 * not talk about.  Returns the number of instants compared. */
static long rz_libc_compared;
static int
rz_libc_begin(const char *abspath)
{
	char buf[4200];
	snprintf(buf, sizeof(buf), ":%s", abspath);
	setenv("TZ", buf, 1);
	tzset();
	return 0;
}
static void
rz_libc_end(void)
{
	unsetenv("TZ");
	tzset();
}
static void
rz_selfcheck_libc(const struct rz_file *f, const char *name, int64_t t)
{
	int32_t off;
	struct tm tm;
	time_t tt = (time_t)t;

	if (f->ntr < 2 || t < f->tr[0] || t >= f->tr[f->ntr - 1]) {
		return;
	}
	if (!rz_offset(f, t, &off)) {
		return;
	}
	/* keep to what every libc's year arithmetic handles */
	if (t < -60000000000LL || t > 60000000000LL) {
		return;
	}
	if (localtime_r(&tt, &tm) == NULL) {
		return;
	}
	rz_libc_compared++;
	if ((long)tm.tm_gmtoff != (long)off) {
		rz_broken("C library reader (tm_gmtoff) vs model", name, t, (long)tm.tm_gmtoff, (long)off);
	}
}


/* ---- generator: an abstract zone -> a TZif image ---- */
struct rz_gen {
	int version;		/* 1, 2, 3 */
	long ntr;
	const int64_t *tr;	/* ascending */
	const uint8_t *ty;
	long nty;
	const int32_t *off;
	int leapcnt;		/* leap records to put into each block (content irrelevant) */
};

static void
rz_p32(uint8_t *p, uint32_t v)
{
	p[0] = (uint8_t)(v >> 24);
	p[1] = (uint8_t)(v >> 16);
	p[2] = (uint8_t)(v >> 8);
	p[3] = (uint8_t)v;
}
static void
rz_p64(uint8_t *p, uint64_t v)
{
	rz_p32(p, (uint32_t)(v >> 32));
	rz_p32(p + 4, (uint32_t)v);
}

/* one header + data block; returns bytes written */
static size_t
rz_gen_block(uint8_t *p, int verbyte, unsigned int tsz, long ntr, const int64_t *tr, const uint8_t *ty,
	     long nty, const int32_t *off, int leapcnt)
{
	uint8_t *q = p;
	long charcnt = 2 * nty;

	memset(q, 0, 44);
	memcpy(q, "TZif", 4);
	q[4] = (uint8_t)verbyte;
	rz_p32(q + 20, (uint32_t)nty);		/* isutcnt */
	rz_p32(q + 24, (uint32_t)nty);		/* isstdcnt */
	rz_p32(q + 28, (uint32_t)leapcnt);
	rz_p32(q + 32, (uint32_t)ntr);
	rz_p32(q + 36, (uint32_t)nty);
	rz_p32(q + 40, (uint32_t)charcnt);
	q += 44;
	for (long i = 0; i < ntr; i++) {
		if (tsz == 8) {
			rz_p64(q, (uint64_t)tr[i]);
		} else {
			rz_p32(q, (uint32_t)(int32_t)tr[i]);
		}
		q += tsz;
	}
	for (long i = 0; i < ntr; i++) {
		*q++ = ty[i];
	}
	for (long k = 0; k < nty; k++) {
		rz_p32(q, (uint32_t)off[k]);
		q[4] = 0;			/* isdst */
		q[5] = (uint8_t)(2 * k);	/* abbreviation index */
		q += 6;
	}
	for (long k = 0; k < nty; k++) {
		*q++ = (uint8_t)('A' + k % 26);
		*q++ = 0;
	}
	for (int l = 0; l < leapcnt; l++) {
		if (tsz == 8) {
			rz_p64(q, (uint64_t)(78796800LL + l));
		} else {
			rz_p32(q, (uint32_t)(78796800L + l));
		}
		q += tsz;
		rz_p32(q, (uint32_t)(l + 1));
		q += 4;
	}
	memset(q, 0, (size_t)(2 * nty));	/* isstd, isut */
	q += 2 * nty;
	return (size_t)(q - p);
}

/* the v1 block of a version >= 2 image is a decoy: no transitions, one type
 * with an offset nobody else uses, so a reader that takes the wrong block
 * cannot agree with the model by accident */
#define RZ_DECOY_OFF	12345

static uint8_t*
rz_gen(const struct rz_gen *g, size_t *len)
{
	size_t cap = 44 + (size_t)g->ntr * 9 + (size_t)g->nty * 10 + 64 + (size_t)g->leapcnt * 12;
	uint8_t *img = malloc(2 * cap + 64);
	size_t n = 0;

	if (g->version == 1) {
		n = rz_gen_block(img, 0, 4, g->ntr, g->tr, g->ty, g->nty, g->off, g->leapcnt);
	} else {
		static const int32_t decoy_off[1] = {RZ_DECOY_OFF};
		n = rz_gen_block(img, '0' + g->version, 4, 0, NULL, NULL, 1, decoy_off, g->leapcnt);
		n += rz_gen_block(img + n, '0' + g->version, 8, g->ntr, g->tr, g->ty, g->nty, g->off, g->leapcnt);
		img[n++] = '\n';
		img[n++] = '\n';
	}
	*len = n;
	return img;
}

/* generator and reader must be inverse to each other */
static void
rz_selfcheck_gen(const struct rz_gen *g, const uint8_t *img, size_t len, const char *name)
{
	struct rz_file f;
	if (rz_parse(img, len, &f) < 0) {
		fprintf(stderr, "refzif self-check failed: generated image %s refused: %s\n", name, f.err);
		exit(3);
	}
	if (f.ntr != g->ntr || f.nty != g->nty || f.version != g->version) {
		rz_broken("generated counts", name, 0, f.ntr, g->ntr);
	}
	for (long i = 0; i < g->ntr; i++) {
		if (f.tr[i] != g->tr[i] || f.ty[i] != g->ty[i]) {
			rz_broken("generated transition", name, g->tr[i], (long)f.ty[i], (long)g->ty[i]);
		}
	}
	for (long k = 0; k < g->nty; k++) {
		if (f.off[k] != g->off[k]) {
			rz_broken("generated offset", name, k, f.off[k], g->off[k]);
		}
	}
	rz_free(&f);
}

/* read a whole file into an exact-size heap block */
static uint8_t*
rz_slurp(const char *path, size_t *len)
{
	FILE *fp = fopen(path, "rb");
	uint8_t *b;
	long sz;
	if (fp == NULL) {
		return NULL;
	}
	fseek(fp, 0, SEEK_END);
	sz = ftell(fp);
	fseek(fp, 0, SEEK_SET);
	if (sz < 0) {
		fclose(fp);
		return NULL;
	}
	b = malloc((size_t)sz + (sz == 0));
	if (sz && fread(b, 1, (size_t)sz, fp) != (size_t)sz) {
		free(b);
		fclose(fp);
		return NULL;
	}
	fclose(fp);
	*len = (size_t)sz;
	return b;
}

#endif	/* VERIF_REFZIF_H */
