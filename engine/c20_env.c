/* c20_env.c -- C20, explorer 1: results depend only on the arguments, not on the
 * clock, TZ or LANG/LC_* settings of the process.
 *
 * One source, compiled once per tool (-DC20_TOOL_dconv ... -DC20_TOOL_dsort; see
 * C20.check.json): the tool's main() is included into this translation unit and run
 * in a forked child (forksrv.h) for every element of the configuration product
 *
 *     TZ  x  (LANG, LC_ALL, LC_TIME)  x  system clock reading  x  invocation
 *
 * The clock is served by the time()/gettimeofday()/clock_gettime() defined below, the
 * environment is cleared and set by forksrv.  Oracle (differential, no expected values):
 * stdout and the way the run ended (exit status / signal) are identical for all
 * configurations of one invocation.  dsort spawns sort(1)/cut(1), so it is run as the
 * real binary of the same build with the environment varied only (no clock).
 *
 * Tripwires: localtime localtime_r mktime timelocal ctime ctime_r strftime setlocale
 * tzset nl_langinfo and getenv("TZ"|"LANG"|"LC_*"|"LANGUAGE") are defined here; they
 * record the call in shared memory and forward to libc.  None of the nine tools has a
 * reason to call them (strptime.c, which does, is not one of the nine).
 *
 * Binding: every invocation is also run once with the binary <tree>/src/<tool> of the
 * same build (reference environment, real clock) and compared with the main() run. */
#if defined HAVE_CONFIG_H
# include "config.h"
#endif

#if defined C20_TOOL_dconv
# define C20_TOOL "dconv"
# define main c20_tool_main
# include "dconv.c"
# undef main
#elif defined C20_TOOL_dadd
# define C20_TOOL "dadd"
# define main c20_tool_main
# include "dadd.c"
# undef main
#elif defined C20_TOOL_ddiff
# define C20_TOOL "ddiff"
# define main c20_tool_main
# include "ddiff.c"
# undef main
#elif defined C20_TOOL_dgrep
# define C20_TOOL "dgrep"
# define main c20_tool_main
# include "dgrep.c"
# undef main
#elif defined C20_TOOL_dround
# define C20_TOOL "dround"
# define main c20_tool_main
# include "dround.c"
# undef main
#elif defined C20_TOOL_dseq
# define C20_TOOL "dseq"
# define main c20_tool_main
# include "dseq.c"
# undef main
#elif defined C20_TOOL_dtest
# define C20_TOOL "dtest"
# define main c20_tool_main
# include "dtest.c"
# undef main
#elif defined C20_TOOL_dzone
# define C20_TOOL "dzone"
# define main c20_tool_main
# include "dzone.c"
# undef main
#elif defined C20_TOOL_dsort
# define C20_TOOL "dsort"
# define C20_EXEC_ONLY 1
#else
# error "compile with -DC20_TOOL_<tool>"
#endif

#define FS_NO_CLOCK_OVERRIDE
#include "impl.h"
#include "explore.h"
#include "forksrv.h"
#include <dlfcn.h>
#include <sys/stat.h>
#include <locale.h>
#include <langinfo.h>

/* ------------------------------------------------------------------ clock */
/* answers of the system clock inside the forked child; c20_clk_on == 0: real clock.
 * (forksrv's own override cannot serve the reading 0, hence ours.) */
static int c20_clk_on;
static int64_t c20_clk;

time_t
time(time_t *t)
{
	time_t r;
	if (c20_clk_on) {
		r = (time_t)c20_clk;
	} else {
		struct timespec ts;
		syscall(SYS_clock_gettime, CLOCK_REALTIME, &ts);
		r = ts.tv_sec;
	}
	if (t) {
		*t = r;
	}
	return r;
}
int
gettimeofday(struct timeval *restrict tv, void *restrict tz)
{
	(void)tz;
	if (c20_clk_on) {
		tv->tv_sec = (time_t)c20_clk;
		tv->tv_usec = 0;
	} else {
		struct timespec ts;
		syscall(SYS_clock_gettime, CLOCK_REALTIME, &ts);
		tv->tv_sec = ts.tv_sec;
		tv->tv_usec = ts.tv_nsec / 1000;
	}
	return 0;
}
int
clock_gettime(clockid_t id, struct timespec *ts)
{
	if (c20_clk_on && id == CLOCK_REALTIME) {
		ts->tv_sec = (time_t)c20_clk;
		ts->tv_nsec = 0;
		return 0;
	}
	return (int)syscall(SYS_clock_gettime, id, ts);
}

/* ------------------------------------------------------------------ tripwires */
enum {
	TW_LOCALTIME, TW_LOCALTIME_R, TW_MKTIME, TW_TIMELOCAL, TW_CTIME, TW_CTIME_R, TW_STRFTIME,
	TW_SETLOCALE_ENV, TW_TZSET, TW_NL_LANGINFO, TW_GETENV, NTW,
	/* recorded, not a violation: the locale comes from the caller, not from the environment */
	TW_SETLOCALE_NAMED = NTW, NTWALL
};
static const char *const tw_name[NTWALL] = {
	"localtime", "localtime_r", "mktime", "timelocal", "ctime", "ctime_r", "strftime",
	"setlocale(,\"\")", "tzset", "nl_langinfo", "getenv(TZ|LANG|LC_*|LANGUAGE)", "setlocale(,name)",
};
static volatile uint32_t *tw_cnt;	/* shared with the forked children */
static int tw_armed;			/* only inside the child, around the tool's main() */

static void*
tw_real(const char *name)
{
	void *p = dlsym(RTLD_NEXT, name);
	if (p == NULL) {
		fprintf(stderr, "c20_env: dlsym(%s) failed\n", name);
		_exit(3);
	}
	return p;
}
#define TW_HIT(i)	do { if (tw_armed && tw_cnt) { tw_cnt[i]++; } } while (0)

struct tm*
localtime(const time_t *t)
{
	static struct tm *(*real)(const time_t*);
	TW_HIT(TW_LOCALTIME);
	if (!real) {
		real = tw_real("localtime");
	}
	return real(t);
}
struct tm*
localtime_r(const time_t *restrict t, struct tm *restrict tm)
{
	static struct tm *(*real)(const time_t*, struct tm*);
	TW_HIT(TW_LOCALTIME_R);
	if (!real) {
		real = tw_real("localtime_r");
	}
	return real(t, tm);
}
time_t
mktime(struct tm *tm)
{
	static time_t (*real)(struct tm*);
	TW_HIT(TW_MKTIME);
	if (!real) {
		real = tw_real("mktime");
	}
	return real(tm);
}
time_t
timelocal(struct tm *tm)
{
	static time_t (*real)(struct tm*);
	TW_HIT(TW_TIMELOCAL);
	if (!real) {
		real = tw_real("timelocal");
	}
	return real(tm);
}
char*
ctime(const time_t *t)
{
	static char *(*real)(const time_t*);
	TW_HIT(TW_CTIME);
	if (!real) {
		real = tw_real("ctime");
	}
	return real(t);
}
char*
ctime_r(const time_t *restrict t, char *restrict buf)
{
	static char *(*real)(const time_t*, char*);
	TW_HIT(TW_CTIME_R);
	if (!real) {
		real = tw_real("ctime_r");
	}
	return real(t, buf);
}
size_t
strftime(char *restrict s, size_t max, const char *restrict fmt, const struct tm *restrict tm)
{
	static size_t (*real)(char*, size_t, const char*, const struct tm*);
	TW_HIT(TW_STRFTIME);
	if (!real) {
		real = tw_real("strftime");
	}
	return real(s, max, fmt, tm);
}
char*
setlocale(int cat, const char *loc)
{
	static char *(*real)(int, const char*);
	if (loc != NULL && *loc == '\0') {
		TW_HIT(TW_SETLOCALE_ENV);
	} else if (loc != NULL) {
		TW_HIT(TW_SETLOCALE_NAMED);
	}
	if (!real) {
		real = tw_real("setlocale");
	}
	return real(cat, loc);
}
void
tzset(void)
{
	static void (*real)(void);
	TW_HIT(TW_TZSET);
	if (!real) {
		real = tw_real("tzset");
	}
	real();
}
char*
nl_langinfo(nl_item it)
{
	static char *(*real)(nl_item);
	TW_HIT(TW_NL_LANGINFO);
	if (!real) {
		real = tw_real("nl_langinfo");
	}
	return real(it);
}
char*
getenv(const char *name)
{
	/* no dlsym here (it may consult the environment itself): walk environ */
	extern char **environ;
	size_t l = strlen(name);
	if (tw_armed && (!strcmp(name, "TZ") || !strcmp(name, "LANG") || !strcmp(name, "LANGUAGE") || !strncmp(name, "LC_", 3))) {
		TW_HIT(TW_GETENV);
	}
	if (environ == NULL) {
		return NULL;
	}
	for (char **e = environ; *e; e++) {
		if (!strncmp(*e, name, l) && (*e)[l] == '=') {
			return *e + l + 1;
		}
	}
	return NULL;
}

/* ------------------------------------------------------------------ configurations */
/* TZ values; index 0 is the reference.  NULL = unset. */
static const char *const tz_vals[] = {
	NULL, "", "UTC", "Europe/Berlin", "America/New_York", ":/nonexistent", "XYZ-14",
	/* thorough only */
	"XYZ-14:37:11", "ABC+11:22:33", "Pacific/Kiritimati", "Asia/Kathmandu", ":Europe/London",
	"Australia/Lord_Howe", "<-03>3",
};
#define NTZ_QUICK	7
#define NTZ_ALL		((int)(sizeof(tz_vals) / sizeof(*tz_vals)))

/* joint settings of (LANG, LC_ALL, LC_TIME); NULL = unset; index 0 is the reference */
struct loc_s {
	const char *lang, *lc_all, *lc_time;
	int testloc;	/* needs LOCPATH pointing at the locale compiled by build_test_locale() */
};
static const struct loc_s loc_vals[] = {
	{NULL, NULL, NULL},
	{"C", "C", "C"},
	{"de_DE.UTF-8", NULL, NULL},
	{NULL, "tr_TR.UTF-8", NULL},
	{"xx_YY", NULL, "de_DE.UTF-8"},
	/* thorough only */
	{"C.utf8", NULL, NULL},
	{NULL, "C.utf8", NULL},
	{NULL, NULL, "C.utf8"},
	{"POSIX", NULL, NULL},
	{"en_US.UTF-8", "de_DE.UTF-8", "tr_TR.UTF-8"},
	{NULL, "", NULL},
	{"ja_JP.eucJP", NULL, "fr_FR@euro"},
};
#define NLOC_QUICK	5
#define NLOC_ALL	((int)(sizeof(loc_vals) / sizeof(*loc_vals)))
/* dsort only: a locale whose collation differs from C (the machine may have no such locale
 * installed; sort(1) is the only place where the process locale can matter) */
static const struct loc_s loc_test[] = {
	{NULL, "xx_TEST", NULL, 1},
	{"xx_TEST", NULL, NULL, 1},
};
static struct loc_s locs[32];

/* clock readings (seconds since the epoch, UTC); index 0 is the reference */
static const int64_t clk_vals[] = {
	951782400LL,	/* Tue 2000-02-29T00:00:00 */
	0LL,		/* Thu 1970-01-01T00:00:00: the tools take 0 for "no clock" */
	86399LL,	/* Thu 1970-01-01T23:59:59 */
	2147483647LL,	/* Tue 2038-01-19T03:14:07  2^31-1 */
	2147483648LL,	/* 2^31 */
	4102444799LL,	/* Thu 2099-12-31T23:59:59 */
	1330905599LL,	/* Sun 2012-03-04T23:59:59 */
	1330905600LL,	/* Mon 2012-03-05T00:00:00 */
	1331121600LL,	/* Wed 2012-03-07T12:00:00 */
	1331337600LL,	/* Sat 2012-03-10T00:00:00 */
	1331251199LL,	/* Thu 2012-03-08T23:59:59 */
	1331337599LL,	/* Fri 2012-03-09T23:59:59 */
	1456704000LL,	/* Mon 2016-02-29T00:00:00 */
	/* thorough only */
	1LL, 59LL, 3599LL, 43200LL,
	946684799LL,	/* 1999-12-31T23:59:59 */
	946684800LL,	/* 2000-01-01T00:00:00 */
	951868799LL,	/* 2000-02-29T23:59:59 */
	978307199LL,	/* 2000-12-31T23:59:59 */
	1341100799LL,	/* 2012-06-30T23:59:59 (a leap second follows) */
	1341100800LL,	/* 2012-07-01T00:00:00 */
	1332637200LL,	/* 2012-03-25T01:00:00 (Europe/Berlin changes to DST) */
	1351386000LL,	/* 2012-10-28T01:00:00 (and back) */
	1356998399LL,	/* 2012-12-31T23:59:59 */
	1357041600LL,	/* 2013-01-01T12:00:00 */
	2524607999LL,	/* 2049-12-31T23:59:59 (century window of %y flips around here) */
	2524608000LL,	/* 2050-01-01T00:00:00 */
	4107542400LL,	/* 2100-03-01T00:00:00 (2100 is not a leap year) */
	4294967295LL,	/* 2^32-1 */
	4294967296LL,	/* 2^32 */
	32503679999LL,	/* 2999-12-31T23:59:59 */
	67767976233LL,	/* 4117-06-25: beyond the tools' year range */
};
#define NCLK_QUICK	13
#define NCLK_ALL	((int)(sizeof(clk_vals) / sizeof(*clk_vals)))

static int ntz, nloc, nclk;
#define NCFG	(ntz * nloc * nclk)
/* configuration index: simplest first, clock varies fastest */
#define CFG(tz, loc, clk)	(((tz) * nloc + (loc)) * nclk + (clk))
#define CFG_TZ(c)		((c) / (nloc * nclk))
#define CFG_LOC(c)		(((c) / nclk) % nloc)
#define CFG_CLK(c)		((c) % nclk)

/* ------------------------------------------------------------------ invocations */
#define MAXARG	16
struct inv_s {
	const char *tool;
	const char *label;
	const char *args[MAXARG];	/* without argv[0], NULL-terminated */
	const char *in;			/* stdin or NULL */
};

#define IN_LINES1	"2012-03-04\nfoo 2012-03-05 bar\nnothing here\n2011-12-31T23:59:59 baz\n\n2012-02-29\n"
#define IN_TIMES	"09:00:00\n12:00:00\nx 12:30:00 y\n23:59:59\n"
#define IN_DE		"01 Dez 2012\n15 M\xc3\xa4r 2013\n04 Mai 2012\n"
#define IN_SORT		"b 2012-03-04\nA 2012-03-04\n2011-12-31 z\n\xc3\xa4 2012-03-04\na 2012-03-04\nno date\nB 2012-03-04\n2012-03-04T10:00:00 dt\n\n_ 2012-03-04\n2012-03-04 Z\n"
#define IN_SORT_T	"12:00:00 b\n09:00:00 a\n23:59:59 c\n12:00:00 A\n"
#define IN_SORT_Y	"450304 x\n120304 y\n990101 z\n"

static const struct inv_s invs[] = {
	/* ---- dconv ---- */
	{"dconv", "ymd-names", {"2012-03-04", "-f", "%F %a %A %b %B %j %u %G-W%V", NULL}, NULL},
	{"dconv", "dt-epoch", {"2012-03-04T12:34:56", "-f", "%FT%T %s", NULL}, NULL},
	{"dconv", "ywd-in", {"2012-W09-7", "-f", "%F %G-W%V-%u %c", NULL}, NULL},
	{"dconv", "to-ymcw", {"-f", "ymcw", "2012-03-04", NULL}, NULL},
	{"dconv", "to-jdn", {"-f", "jdn", "2012-03-04", "2099-12-31", "1970-01-01", NULL}, NULL},
	{"dconv", "to-ldn", {"-f", "ldn", "2012-03-04", NULL}, NULL},
	{"dconv", "epoch-in", {"-i", "%s", "1330862400", "-f", "%FT%T", NULL}, NULL},
	{"dconv", "y2-base-lo", {"-i", "%y-%m-%d", "--base", "2012-06-15", "45-03-04", "-f", "%F", NULL}, NULL},
	{"dconv", "y2-base-hi", {"-i", "%y-%m-%d", "--base", "2012-06-15", "85-03-04", "-f", "%F", NULL}, NULL},
	{"dconv", "y2-base-1950", {"-i", "%y%m%d", "--base", "1950-01-01", "120304", "-f", "%F", NULL}, NULL},
	{"dconv", "y1-base", {"-i", "%_y %m %d", "--base", "2012-06-15", "7 03 04", "1 03 04", "-f", "%F", NULL}, NULL},
	{"dconv", "md-base", {"--base", "2012-06-15", "-i", "%m-%d", "03-04", "-f", "%F %a", NULL}, NULL},
	{"dconv", "d-base", {"--base", "2012-06-15", "-i", "%d", "17", "-f", "%F", NULL}, NULL},
	{"dconv", "mon-base", {"--base", "2011-06-15", "-i", "%b", "Feb", "-f", "%F", NULL}, NULL},
	{"dconv", "time-base", {"--base", "2012-06-15T10:20:30", "12:34:56", "-f", "%F %T %s", NULL}, NULL},
	{"dconv", "hm-base", {"--base", "2012-06-15T10:20:30", "-i", "%H:%M", "12:34", "-f", "%FT%T", NULL}, NULL},
	{"dconv", "h-base", {"--base", "2012-06-15T10:20:30", "-i", "%H", "12", "-f", "%FT%T", NULL}, NULL},
	{"dconv", "zone", {"--zone", "Europe/Berlin", "2012-03-04T12:00:00", "2012-07-04T12:00:00", NULL}, NULL},
	{"dconv", "from-zone-zone", {"--from-zone", "America/New_York", "--zone", "Asia/Tokyo", "2012-07-04T12:00:00", "-f", "%FT%T %Z", NULL}, NULL},
	{"dconv", "time-base-zone", {"--base", "2012-07-04", "--from-zone", "Europe/Berlin", "12:00:00", "-f", "%T", NULL}, NULL},
	{"dconv", "locale-out", {"--locale", "de_DE", "-f", "%A %d %B %Y %a %b", "2012-03-04", NULL}, NULL},
	{"dconv", "locale-in", {"--from-locale", "fr_FR", "-i", "%d %B %Y", "4 mars 2012", "-f", "%F %A", NULL}, NULL},
	{"dconv", "locale-both", {"--from-locale", "de_DE", "--locale", "tr_TR", "-i", "%d %b %Y", "-f", "%d %B %Y %A", "01 Dez 2012", NULL}, NULL},
	{"dconv", "sed-stdin", {"-S", "-f", "%d/%m/%Y", NULL}, IN_LINES1},
	{"dconv", "stdin", {"-f", "%j %a", NULL}, IN_LINES1},
	{"dconv", "stdin-time-base", {"--base", "2012-06-15", "-S", "-f", "%T|%s", NULL}, IN_TIMES},
	{"dconv", "invalid", {"2012-02-30", "foo", "-f", "%F", NULL}, NULL},
	/* a complete time given with an explicit format and no --base: the parser asks for the base (= now) and must not use it */
	{"dconv", "time-fmt-nobase", {"-i", "%H:%M:%S", "12:34:56", "-f", "%T", NULL}, NULL},
	{"dconv", "time-fmt-nobase-12h", {"-i", "%I:%M %p", "01:34 PM", "-f", "%H:%M:%S", NULL}, NULL},
	/* ---- dadd ---- */
	{"dadd", "day", {"2012-03-04", "+1d", NULL}, NULL},
	{"dadd", "month-end", {"2012-01-31", "+1mo", "-f", "%F %a", NULL}, NULL},
	{"dadd", "leap-year", {"2012-02-29", "+1y", "-f", "%F %A %B", NULL}, NULL},
	{"dadd", "bizda", {"2012-03-02", "+3b", NULL}, NULL},
	{"dadd", "second-carry", {"2012-03-04T23:59:59", "+1s", NULL}, NULL},
	{"dadd", "week-neg", {"2012-03-04", "-2w", "-f", "%G-W%V-%u", NULL}, NULL},
	{"dadd", "time-base", {"--base", "2012-06-15", "12:34:56", "+30m", NULL}, NULL},
	{"dadd", "time-wrap-base", {"--base", "2012-06-15", "23:34:56", "+30m", "-f", "%F %T", NULL}, NULL},
	{"dadd", "y2-base", {"--base", "2012-06-15", "-i", "%y%m%d", "450304", "+1y", "-f", "%F", NULL}, NULL},
	{"dadd", "md-base", {"--base", "2011-06-15", "-i", "%m/%d", "02/28", "+1d", "-f", "%F", NULL}, NULL},
	{"dadd", "zone", {"--zone", "Europe/Berlin", "2012-03-24T12:00:00", "+1d", NULL}, NULL},
	{"dadd", "from-zone", {"--from-zone", "America/New_York", "2012-03-10T12:00:00", "+24h", "-f", "%FT%T", NULL}, NULL},
	{"dadd", "stdin", {"+1mo", "-f", "%F"}, IN_LINES1},
	{"dadd", "sed-stdin", {"-S", "+1d"}, IN_LINES1},
	{"dadd", "locale-out", {"--locale", "fr_FR", "-f", "%A %d %B %Y", "2012-03-04", "+1d", NULL}, NULL},
	{"dadd", "locale-in", {"--from-locale", "de_DE", "-i", "%d %b %Y", "01 Dez 2012", "+1d", NULL}, NULL},
	{"dadd", "locale-both", {"--from-locale", "de_DE", "--locale", "fr_FR", "-i", "%d %B %Y", "-f", "%d %b %Y", "01 Dezember 2012", "+1d", NULL}, NULL},
	{"dadd", "dur-only-args", {"2012-03-04", "+1d", "+1w", "-1mo", NULL}, NULL},
	{"dadd", "time-fmt-nobase", {"-i", "%H:%M:%S", "12:34:56", "+90m", NULL}, NULL},
	/* ---- ddiff ---- */
	{"ddiff", "days", {"2012-03-04", "2012-04-05", NULL}, NULL},
	{"ddiff", "md", {"2012-03-04", "2013-04-05", "-f", "%y %m %d", NULL}, NULL},
	{"ddiff", "wd", {"2012-03-04", "2012-04-05", "-f", "%w %d", NULL}, NULL},
	{"ddiff", "dt", {"2012-03-04T12:00:00", "2012-03-05T13:00:01", "-f", "%dd %Hh %Mm %Ss", NULL}, NULL},
	{"ddiff", "seconds", {"2012-03-04T12:00:00", "2012-03-05T13:00:01", "-f", "%S", NULL}, NULL},
	{"ddiff", "leap-rS", {"2012-06-30T23:59:50", "2012-07-01T00:00:10", "-f", "%rS", NULL}, NULL},
	{"ddiff", "time-base", {"--base", "2012-06-15", "10:00:00", "12:30:00", NULL}, NULL},
	{"ddiff", "y2-base", {"--base", "2012-06-15", "-i", "%y%m%d", "120304", "450304", "-f", "%y", NULL}, NULL},
	{"ddiff", "md-base", {"--base", "2012-06-15", "-i", "%m-%d", "03-04", "12-31", NULL}, NULL},
	{"ddiff", "stdin", {"2012-03-04", "-f", "%d"}, IN_LINES1},
	{"ddiff", "from-zone", {"--from-zone", "Europe/Berlin", "2012-03-24T12:00:00", "2012-03-25T12:00:00", "-f", "%H", NULL}, NULL},
	{"ddiff", "locale-in", {"--from-locale", "de_DE", "-i", "%d %b %Y", "01 Dez 2012", "15 M\xc3\xa4r 2013", NULL}, NULL},
	{"ddiff", "ywd", {"2012-W09-5", "2012-W11-1", NULL}, NULL},
	{"ddiff", "time-fmt-nobase", {"-i", "%H:%M:%S", "10:00:00", "12:30:00", "-f", "%S", NULL}, NULL},
	/* ---- dgrep ---- */
	{"dgrep", "ge", {">=2012-03-04", NULL}, IN_LINES1},
	{"dgrep", "lt-opt", {"--lt", "2012-03-04", NULL}, IN_LINES1},
	{"dgrep", "only", {"-o", "<2012-03-05", NULL}, IN_LINES1},
	{"dgrep", "invert", {"-v", "=2012-03-04", NULL}, IN_LINES1},
	{"dgrep", "ne", {"--ne", "2012-02-29", NULL}, IN_LINES1},
	{"dgrep", "time-base", {"--base", "2012-06-15", ">=12:00:00", NULL}, IN_TIMES},
	{"dgrep", "md-base", {"--base", "2012-06-15", "-i", "%m-%d", "<2012-03-05", NULL}, "03-04\n03-05\n12-01\n"},
	{"dgrep", "y2-base", {"--base", "2012-06-15", "-i", "%y%m%d", "<2045-03-04", NULL}, "120304\n450305\n990101\n"},
	{"dgrep", "locale-in", {"--from-locale", "de_DE", "-i", "%d %b %Y", ">=2012-12-01", NULL}, IN_DE},
	{"dgrep", "zones", {"--from-zone", "Europe/Berlin", "--zone", "America/New_York", ">=2012-03-04T07:00:00", NULL},
	 "2012-03-04T12:00:00\n2012-03-04T13:00:01\n2012-03-04T14:00:00\n"},
	{"dgrep", "dt", {"<=2012-03-04T00:00:00", NULL}, IN_LINES1},
	{"dgrep", "time-fmt-nobase", {"-i", "%H:%M:%S", ">=12:00:00", NULL}, IN_TIMES},
	/* ---- dround ---- */
	{"dround", "wday", {"2012-03-04", "Mon", NULL}, NULL},
	{"dround", "wday-next", {"-n", "2012-03-05", "Mon", NULL}, NULL},
	{"dround", "dom", {"2012-03-04", "16", NULL}, NULL},
	{"dround", "month", {"2012-03-04", "Jul", "-f", "%F %a", NULL}, NULL},
	{"dround", "month-prev", {"2012-03-04", "--", "-Jul", NULL}, NULL},
	{"dround", "hour", {"2012-03-04T12:34:56", "1h", NULL}, NULL},
	{"dround", "minutes", {"2012-03-04T12:34:56", "15m", NULL}, NULL},
	{"dround", "time-base", {"--base", "2012-06-15", "12:34:56", "30m", NULL}, NULL},
	{"dround", "time-neg-base", {"--base", "2012-06-15", "12:34:56", "--", "-1h", NULL}, NULL},
	{"dround", "md-base", {"--base", "2012-06-15", "-i", "%m-%d", "03-04", "Mon", "-f", "%F", NULL}, NULL},
	{"dround", "y2-base", {"--base", "2012-06-15", "-i", "%y%m%d", "450304", "1", "-f", "%F", NULL}, NULL},
	{"dround", "zone", {"--zone", "Europe/Berlin", "2012-03-04T12:34:56", "1h", NULL}, NULL},
	{"dround", "stdin", {"Sat", NULL}, IN_LINES1},
	{"dround", "locale-out", {"--locale", "de_DE", "-f", "%A %d %B", "2012-03-04", "Mon", NULL}, NULL},
	{"dround", "locale-both", {"--from-locale", "fr_FR", "--locale", "de_DE", "-i", "%d %B %Y", "-f", "%A %d %b %Y", "4 mars 2012", "Mon", NULL}, NULL},
	{"dround", "time-fmt-nobase", {"-i", "%H:%M:%S", "12:34:56", "30m", NULL}, NULL},
	/* ---- dseq ---- */
	{"dseq", "days", {"2012-02-27", "2012-03-02", NULL}, NULL},
	{"dseq", "weeks", {"2012-03-01", "1w", "2012-04-01", "-f", "%F %a", NULL}, NULL},
	{"dseq", "months", {"2012-01-31", "1mo", "2012-06-30", NULL}, NULL},
	{"dseq", "down", {"2012-03-05", "-1d", "2012-02-27", NULL}, NULL},
	{"dseq", "skip", {"-s", "sat", "-s", "sun", "2012-03-01", "2012-03-12", "-f", "%F %a", NULL}, NULL},
	{"dseq", "from-last", {"--compute-from-last", "2012-03-01", "3d", "2012-03-12", NULL}, NULL},
	{"dseq", "times", {"10:00:00", "30m", "12:00:00", NULL}, NULL},
	{"dseq", "times-base", {"--base", "2012-06-15", "10:00:00", "45m", "12:00:00", "-f", "%T", NULL}, NULL},
	{"dseq", "dt", {"2012-03-04T22:00:00", "1h", "2012-03-05T02:00:00", NULL}, NULL},
	{"dseq", "y2-base", {"--base", "2012-06-15", "-i", "%y%m%d", "120301", "120305", "-f", "%F", NULL}, NULL},
	{"dseq", "md-base", {"--base", "2011-06-15", "-i", "%m-%d", "02-27", "03-02", "-f", "%F", NULL}, NULL},
	{"dseq", "ym", {"2012-03", "2012-06", NULL}, NULL},
	{"dseq", "locale-out", {"--locale", "de_DE", "-f", "%a %d %b", "2012-03-01", "2012-03-07", NULL}, NULL},
	{"dseq", "locale-both", {"--from-locale", "de_DE", "--locale", "fr_FR", "-i", "%d %B %Y", "-f", "%a %d %b %Y", "01 Dezember 2012", "03 Dezember 2012", NULL}, NULL},
	{"dseq", "ywd", {"2012-W09-5", "2012-W10-2", NULL}, NULL},
	{"dseq", "time-fmt-nobase", {"-i", "%H:%M:%S", "10:00:00", "30m", "11:30:00", NULL}, NULL},
	/* ---- dtest ---- */
	{"dtest", "gt-true", {"2012-03-04", "--gt", "2012-03-03", NULL}, NULL},
	{"dtest", "gt-false", {"2012-03-03", "--gt", "2012-03-04", NULL}, NULL},
	{"dtest", "cmp-lt", {"--cmp", "2012-03-03", "2012-03-04", NULL}, NULL},
	{"dtest", "cmp-gt", {"--cmp", "2012-03-05T00:00:01", "2012-03-05T00:00:00", NULL}, NULL},
	{"dtest", "eq", {"2012-03-04", "--eq", "2012-W09-7", NULL}, NULL},
	{"dtest", "isvalid", {"--isvalid", "2012-02-30", NULL}, NULL},
	{"dtest", "y2-base", {"--base", "2012-06-15", "-i", "%y%m%d", "450304", "--lt", "120304", NULL}, NULL},
	{"dtest", "y2-base-cmp", {"--base", "1990-06-15", "-i", "%y%m%d", "--cmp", "450304", "120304", NULL}, NULL},
	{"dtest", "time-base", {"--base", "2012-06-15", "12:00:00", "--lt", "13:00:00", NULL}, NULL},
	{"dtest", "md-base", {"--base", "2012-06-15", "-i", "%m-%d", "03-04", "--ot", "12-31", NULL}, NULL},
	{"dtest", "locale-in", {"--from-locale", "de_DE", "-i", "%d %b %Y", "01 Dez 2012", "--gt", "15 M\xc3\xa4r 2012", NULL}, NULL},
	{"dtest", "from-zone", {"--from-zone", "Europe/Berlin", "2012-03-04T12:00:00", "--ne", "2012-03-04T12:00:00", NULL}, NULL},
	{"dtest", "time-fmt-nobase", {"-i", "%H:%M:%S", "12:00:00", "--lt", "13:00:00", NULL}, NULL},
	/* ---- dzone ---- */
	{"dzone", "one", {"Europe/Berlin", "2012-03-04T12:00:00", NULL}, NULL},
	{"dzone", "matrix", {"Europe/Berlin", "America/New_York", "Asia/Tokyo", "2012-03-04T12:00:00", "2012-07-04T23:30:00", NULL}, NULL},
	{"dzone", "next", {"--next", "Europe/Berlin", "2012-03-04T12:00:00", NULL}, NULL},
	{"dzone", "prev", {"--prev", "America/New_York", "2012-03-04T12:00:00", NULL}, NULL},
	{"dzone", "from-zone", {"--from-zone", "Asia/Tokyo", "Europe/Berlin", "2012-03-04T12:00:00", NULL}, NULL},
	{"dzone", "time-base", {"--base", "2012-06-15", "Europe/Berlin", "12:00:00", NULL}, NULL},
	{"dzone", "time-base-winter", {"--base", "2012-01-15", "Europe/Berlin", "12:00:00", NULL}, NULL},
	{"dzone", "time-base-next", {"--next", "--base", "2012-06-15", "Europe/Berlin", "12:00:00", NULL}, NULL},
	{"dzone", "time-base-prev", {"--prev", "--base", "2012-01-15", "America/New_York", "12:00:00", NULL}, NULL},
	{"dzone", "epoch-in", {"-i", "%s", "Europe/Berlin", "1330862400", NULL}, NULL},
	{"dzone", "y2-base", {"--base", "2012-06-15", "-i", "%y%m%dT%H", "America/New_York", "450304T12", NULL}, NULL},
	{"dzone", "locale-in", {"--from-locale", "de_DE", "-i", "%d %b %Y %H:%M", "Asia/Tokyo", "01 Dez 2012 10:00", NULL}, NULL},
	/* ---- dsort (real binary; stdin from a file descriptor) ---- */
	{"dsort", "ties", {NULL}, IN_SORT},
	{"dsort", "ties-rev", {"-r", NULL}, IN_SORT},
	{"dsort", "unique", {"-u", NULL}, IN_SORT},
	{"dsort", "times-base", {"--base", "2012-06-15", NULL}, IN_SORT_T},
	{"dsort", "y2-base", {"--base", "2012-06-15", "-i", "%y%m%d", NULL}, IN_SORT_Y},
	{"dsort", "locale-in", {"--from-locale", "de_DE", "-i", "%d %b %Y", NULL}, IN_DE},
	{"dsort", "from-zone", {"--from-zone", "Europe/Berlin", NULL}, "2012-03-04T12:00:00 b\n2012-03-04T11:00:00 a\n"},
	{"dsort", "time-fmt-nobase", {"-i", "%H:%M:%S", NULL}, IN_SORT_T},

	/* ---- position matrix: every position that a tool parses as a date/time under -i and --base,
	 * with exactly that position underspecified (md = month-day, d = day, y2 = %y, y1 = %_y,
	 * t = time of day whose date matters through a zone), the other positions fully specified so
	 * that the result depends on the filled-in fields; option orders --base B -i F (bi) and
	 * -i F --base B (ib) alternate.  Appended at the end: case strings index this array. */
#define BI(F)	"--base", "2012-06-15", "-i", F
#define IB(F)	"-i", F, "--base", "2012-06-15"
#define F_MD	"%m-%d"
#define F_D	"%d"
#define F_Y2	"%y-%m-%d"
#define F_Y1	"%_y %m %d"
#define IN_MD	"03-03\nx 03-04 y\n12-01\n02-29\n"
#define IN_D	"03\n17\n30\n"
#define IN_Y2	"12-03-04\nx 45-03-05 y\n99-01-01\n50-06-15\n"
#define IN_Y1	"2 03 04\n7 03 05\n1 01 01\n"
#define IN_FULL	"2012/03/03\n2012/03/04\n2012/12/01\n2045/03/04\n2017/03/04\n1945/03/04\n2012/06/17\n2012/06/16\n"
	/* dconv: argument */
	{"dconv", "p-arg-md-ib", {IB(F_MD), "03-04", "-f", "%F", NULL}, NULL},
	{"dconv", "p-arg-d-ib", {IB(F_D), "17", "-f", "%F", NULL}, NULL},
	{"dconv", "p-arg-y2-bi", {BI(F_Y2), "45-03-04", "99-03-04", "-f", "%F", NULL}, NULL},
	{"dconv", "p-arg-y1-ib", {IB(F_Y1), "7 03 04", "1 03 04", "-f", "%F", NULL}, NULL},
	{"dconv", "p-arg-t-zone-bi", {"--base", "2012-01-15", "--from-zone", "Europe/Berlin", "-i", "%H:%M:%S", "12:00:00", "-f", "%T", NULL}, NULL},
	/* dconv: stdin lines, plain and sed mode */
	{"dconv", "p-stdin-md-bi", {BI(F_MD), "-f", "%F", NULL}, IN_MD},
	{"dconv", "p-stdin-md-ib", {IB(F_MD), "-f", "%F", NULL}, IN_MD},
	{"dconv", "p-stdin-d-bi", {BI(F_D), "-f", "%F", NULL}, IN_D},
	{"dconv", "p-stdin-y2-ib", {IB(F_Y2), "-f", "%F", NULL}, IN_Y2},
	{"dconv", "p-stdin-y1-bi", {BI(F_Y1), "-f", "%F", NULL}, IN_Y1},
	{"dconv", "p-sed-md-ib", {"-S", IB(F_MD), "-f", "%F", NULL}, IN_MD},
	{"dconv", "p-sed-y2-bi", {"-S", BI(F_Y2), "-f", "%F", NULL}, IN_Y2},
	{"dconv", "p-sed-y1-ib", {"-S", IB(F_Y1), "-f", "%F", NULL}, IN_Y1},
	{"dconv", "p-stdin-t-zone-ib", {"-i", "%H:%M:%S", "--base", "2012-01-15", "--zone", "Europe/Berlin", "-f", "%T", NULL}, IN_TIMES},
	/* dadd: DATE argument and stdin lines */
	{"dadd", "p-arg-md-ib", {IB(F_MD), "02-28", "+1d", "-f", "%F", NULL}, NULL},
	{"dadd", "p-arg-d-bi", {BI(F_D), "17", "+1mo", "-f", "%F", NULL}, NULL},
	{"dadd", "p-arg-y2-ib", {IB(F_Y2), "45-03-04", "+1d", "-f", "%F", NULL}, NULL},
	{"dadd", "p-arg-y1-bi", {BI(F_Y1), "7 03 04", "+1d", "-f", "%F", NULL}, NULL},
	{"dadd", "p-arg-t-zone-bi", {"--base", "2012-01-15", "--from-zone", "Europe/Berlin", "-i", "%H:%M:%S", "12:00:00", "+1h", "-f", "%T", NULL}, NULL},
	{"dadd", "p-stdin-md-bi", {BI(F_MD), "+1d", "-f", "%F", NULL}, IN_MD},
	{"dadd", "p-stdin-d-ib", {IB(F_D), "+1d", "-f", "%F", NULL}, IN_D},
	{"dadd", "p-stdin-y2-bi", {BI(F_Y2), "+1d", "-f", "%F", NULL}, IN_Y2},
	{"dadd", "p-stdin-y1-ib", {IB(F_Y1), "+1d", "-f", "%F", NULL}, IN_Y1},
	{"dadd", "p-sed-md-ib", {"-S", IB(F_MD), "+1d", "-f", "%F", NULL}, IN_MD},
	/* ddiff: reference DATE, later operands, stdin operands; the other side is complete */
	{"ddiff", "p-ref-md-bi", {BI(F_MD), "-i", "%Y/%m/%d", "03-04", "2012/12/31", "2013/01/01", NULL}, NULL},
	{"ddiff", "p-ref-d-ib", {"-i", F_D, "-i", "%Y/%m/%d", "--base", "2012-06-15", "17", "2012/12/31", NULL}, NULL},
	{"ddiff", "p-ref-y2-ib", {"-i", F_Y2, "-i", "%Y/%m/%d", "--base", "2012-06-15", "45-03-04", "2012/12/31", NULL}, NULL},
	{"ddiff", "p-ref-y1-bi", {BI(F_Y1), "-i", "%Y/%m/%d", "7 03 04", "2012/12/31", NULL}, NULL},
	{"ddiff", "p-op-md-ib", {"-i", "%Y/%m/%d", IB(F_MD), "2012/12/31", "03-04", "12-31", NULL}, NULL},
	{"ddiff", "p-op-d-bi", {"--base", "2012-06-15", "-i", "%Y/%m/%d", "-i", F_D, "2012/12/31", "17", NULL}, NULL},
	{"ddiff", "p-op-y2-bi", {"--base", "2012-06-15", "-i", "%Y/%m/%d", "-i", F_Y2, "2012/12/31", "45-03-04", "99-03-04", NULL}, NULL},
	{"ddiff", "p-op-y1-ib", {"-i", "%Y/%m/%d", IB(F_Y1), "2012/12/31", "7 03 04", NULL}, NULL},
	{"ddiff", "p-stdin-md-bi", {"--base", "2012-06-15", "-i", "%Y/%m/%d", "-i", F_MD, "2012/12/31", NULL}, IN_MD},
	{"ddiff", "p-stdin-y2-ib", {"-i", "%Y/%m/%d", IB(F_Y2), "2012/12/31", NULL}, IN_Y2},
	{"ddiff", "p-stdin-d-ib", {"-i", "%Y/%m/%d", IB(F_D), "2012/12/31", NULL}, IN_D},
	{"ddiff", "p-stdin-y1-bi", {"--base", "2012-06-15", "-i", "%Y/%m/%d", "-i", F_Y1, "2012/12/31", NULL}, IN_Y1},
	/* dgrep: the date inside the EXPRESSION (bare, OP date, long option); lines complete */
	{"dgrep", "p-expr-md-op-bi", {BI(F_MD), "-i", "%Y/%m/%d", ">=03-04", NULL}, IN_FULL},
	{"dgrep", "p-expr-md-op-ib", {"-i", F_MD, "-i", "%Y/%m/%d", "--base", "2012-06-15", ">=03-04", NULL}, IN_FULL},
	{"dgrep", "p-expr-md-bare-ib", {"-i", F_MD, "-i", "%Y/%m/%d", "--base", "2012-06-15", "03-04", NULL}, IN_FULL},
	{"dgrep", "p-expr-md-long-bi", {BI(F_MD), "-i", "%Y/%m/%d", "--ge", "03-04", NULL}, IN_FULL},
	{"dgrep", "p-expr-y2-op-ib", {"-i", F_Y2, "-i", "%Y/%m/%d", "--base", "2012-06-15", "<45-03-04", NULL}, IN_FULL},
	{"dgrep", "p-expr-y2-bare-bi", {BI(F_Y2), "-i", "%Y/%m/%d", "45-03-04", NULL}, IN_FULL},
	{"dgrep", "p-expr-y2-long-ib", {"-i", F_Y2, "-i", "%Y/%m/%d", "--base", "2012-06-15", "--lt", "45-03-04", NULL}, IN_FULL},
	{"dgrep", "p-expr-y1-op-bi", {BI(F_Y1), "-i", "%Y/%m/%d", "<7 03 04", NULL}, IN_FULL},
	{"dgrep", "p-expr-y1-bare-ib", {"-i", F_Y1, "-i", "%Y/%m/%d", "--base", "2012-06-15", "7 03 04", NULL}, IN_FULL},
	/* (a bare day number, -i %d, is not accepted as an operand by the expression scanner: no such invocation) */
	/* dgrep: both sides underspecified (lines and expression filled from the same base) */
	{"dgrep", "p-both-md-bi", {BI(F_MD), ">=03-04", NULL}, IN_MD},
	{"dgrep", "p-both-y2-ib", {IB(F_Y2), "<45-03-04", NULL}, IN_Y2},
	{"dgrep", "p-both-y1-bi", {BI(F_Y1), "<7 03 04", NULL}, IN_Y1},
	/* dgrep: lines underspecified, expression complete */
	{"dgrep", "p-line-d-ib", {"-i", F_D, "-i", "%Y/%m/%d", "--base", "2012-06-15", ">=2012/06/17", NULL}, IN_D},
	{"dgrep", "p-line-y2-bi", {"--base", "2012-06-15", "-i", F_Y2, "-i", "%Y/%m/%d", "<2045/03/05", NULL}, IN_Y2},
	{"dgrep", "p-line-y1-ib", {"-i", F_Y1, "-i", "%Y/%m/%d", "--base", "2012-06-15", "<2017/03/05", NULL}, IN_Y1},
	/* dround: DATE argument and stdin lines */
	{"dround", "p-arg-md-ib", {IB(F_MD), "03-04", "Mon", "-f", "%F", NULL}, NULL},
	{"dround", "p-arg-d-bi", {BI(F_D), "17", "Mon", "-f", "%F", NULL}, NULL},
	{"dround", "p-arg-y2-ib", {IB(F_Y2), "45-03-04", "Mon", "-f", "%F", NULL}, NULL},
	{"dround", "p-arg-y1-bi", {BI(F_Y1), "7 03 04", "Mon", "-f", "%F", NULL}, NULL},
	{"dround", "p-stdin-md-bi", {BI(F_MD), "Mon", "-f", "%F", NULL}, IN_MD},
	{"dround", "p-stdin-d-ib", {IB(F_D), "Mon", "-f", "%F", NULL}, IN_D},
	{"dround", "p-stdin-y2-bi", {BI(F_Y2), "Mon", "-f", "%F", NULL}, IN_Y2},
	{"dround", "p-stdin-y1-ib", {IB(F_Y1), "Mon", "-f", "%F", NULL}, IN_Y1},
	{"dround", "p-sed-md-ib", {"-S", IB(F_MD), "Mon", "-f", "%F", NULL}, IN_MD},
	/* dseq: FIRST and LAST, both and only one of them underspecified */
	{"dseq", "p-both-md-ib", {IB(F_MD), "02-27", "03-02", "-f", "%F", NULL}, NULL},
	{"dseq", "p-both-d-bi", {BI(F_D), "13", "17", "-f", "%F", NULL}, NULL},
	{"dseq", "p-both-y2-ib", {IB(F_Y2), "45-03-04", "45-03-07", "-f", "%F", NULL}, NULL},
	{"dseq", "p-both-y1-bi", {BI(F_Y1), "7 03 04", "7 03 07", "-f", "%F", NULL}, NULL},
	{"dseq", "p-first-md-bi", {BI(F_MD), "-i", "%Y/%m/%d", "02-27", "2012/03/02", "-f", "%F", NULL}, NULL},
	{"dseq", "p-last-md-ib", {"-i", F_MD, "-i", "%Y/%m/%d", "--base", "2012-06-15", "2012/02/27", "03-02", "-f", "%F", NULL}, NULL},
	{"dseq", "p-first-y2-ib", {"-i", F_Y2, "-i", "%Y/%m/%d", "--base", "2012-06-15", "45-03-04", "2045/03/07", "-f", "%F", NULL}, NULL},
	{"dseq", "p-last-y2-bi", {BI(F_Y2), "-i", "%Y/%m/%d", "2045/03/04", "45-03-07", "-f", "%F", NULL}, NULL},
	{"dseq", "p-first-d-inc-bi", {BI(F_D), "-i", "%Y/%m/%d", "13", "2d", "2012/06/17", "-f", "%F", NULL}, NULL},
	{"dseq", "p-last-y1-inc-ib", {"-i", F_Y1, "-i", "%Y/%m/%d", "--base", "2012-06-15", "2017/03/04", "1d", "7 03 07", "-f", "%F", NULL}, NULL},
	/* dtest: either operand */
	{"dtest", "p-op1-md-bi", {BI(F_MD), "-i", "%Y/%m/%d", "03-04", "--lt", "2012/06/01", NULL}, NULL},
	{"dtest", "p-op2-md-ib", {"-i", F_MD, "-i", "%Y/%m/%d", "--base", "2012-06-15", "--cmp", "2012/06/01", "03-04", NULL}, NULL},
	{"dtest", "p-op1-d-ib", {"-i", F_D, "-i", "%Y/%m/%d", "--base", "2012-06-15", "--cmp", "17", "2012/06/16", NULL}, NULL},
	{"dtest", "p-op2-d-bi", {BI(F_D), "-i", "%Y/%m/%d", "2012/06/16", "--lt", "17", NULL}, NULL},
	{"dtest", "p-op1-y2-bi", {BI(F_Y2), "-i", "%Y/%m/%d", "--cmp", "45-03-04", "2012/06/01", NULL}, NULL},
	{"dtest", "p-op2-y2-ib", {"-i", F_Y2, "-i", "%Y/%m/%d", "--base", "2012-06-15", "2012/06/01", "--lt", "45-03-04", NULL}, NULL},
	{"dtest", "p-op1-y1-ib", {"-i", F_Y1, "-i", "%Y/%m/%d", "--base", "2012-06-15", "7 03 04", "--gt", "2012/06/01", NULL}, NULL},
	{"dtest", "p-op2-y1-bi", {BI(F_Y1), "-i", "%Y/%m/%d", "--cmp", "2016/06/01", "7 03 04", NULL}, NULL},
	{"dtest", "p-both-md-ib", {IB(F_MD), "03-04", "--lt", "12-31", NULL}, NULL},
	/* dzone: date arguments */
	{"dzone", "p-arg-md-bi", {"--base", "2012-06-15", "-i", "%m-%dT%H:%M", "Europe/Berlin", "01-15T12:00", "07-15T12:00", NULL}, NULL},
	{"dzone", "p-arg-d-ib", {"-i", "%dT%H:%M", "--base", "2012-06-15", "America/New_York", "17T12:00", NULL}, NULL},
	{"dzone", "p-arg-y2-ib", {"-i", "%y-%m-%dT%H:%M", "--base", "2012-06-15", "Europe/Berlin", "45-03-04T12:00", NULL}, NULL},
	{"dzone", "p-arg-y1-bi", {"--base", "2012-06-15", "-i", "%_y %m %dT%H:%M", "Europe/Berlin", "7 03 04T12:00", NULL}, NULL},
	{"dzone", "p-arg-t-ib", {"-i", "%H:%M:%S", "--base", "2012-01-15", "Europe/Berlin", "America/New_York", "12:00:00", NULL}, NULL},
	{"dzone", "p-arg-t-next-bi", {"--base", "2012-01-15", "--next", "Europe/Berlin", "12:00:00", NULL}, NULL},
	{"dzone", "p-arg-md-from-zone-ib", {"-i", "%m-%dT%H:%M", "--base", "2012-06-15", "--from-zone", "Asia/Tokyo", "Europe/Berlin", "01-15T12:00", NULL}, NULL},
	/* dsort: lines (real binary) */
	{"dsort", "p-line-md-bi", {BI(F_MD), NULL}, IN_MD},
	{"dsort", "p-line-d-ib", {IB(F_D), NULL}, IN_D},
	{"dsort", "p-line-y2-ib", {IB(F_Y2), NULL}, IN_Y2},
	{"dsort", "p-line-y1-bi", {BI(F_Y1), NULL}, IN_Y1},

	/* ---- partially specified TIMES under --base given as a date, a date-time or an ISO week date:
	 * S = seconds only, MS = %M:%S, H = hour only, IP = %I%p, N = %N, SN = %S.%N; the missing hour,
	 * minute ... come from the base (00 for a base without a time), never from the clock.
	 * dconv's argument position carries the full product kinds x base forms, every other position
	 * all kinds with the base forms rotating; generated list, appended at the end.  (A bare number,
	 * kinds S H N, is not accepted as dgrep expression operand: no such invocations.) */
	{"dconv", "t-arg-S-d", {"--base", "2012-03-01", "-i", "%S", "56", "-f", "%FT%T.%N", NULL}, NULL},
	{"dconv", "t-arg-S-dt", {"-i", "%S", "--base", "2012-03-01T10:20:30", "56", "-f", "%FT%T.%N", NULL}, NULL},
	{"dconv", "t-arg-S-w", {"--base", "2012-W09-4", "-i", "%S", "56", "-f", "%FT%T.%N", NULL}, NULL},
	{"dconv", "t-arg-MS-d", {"-i", "%M:%S", "--base", "2012-03-01", "34:56", "-f", "%FT%T.%N", NULL}, NULL},
	{"dconv", "t-arg-MS-dt", {"--base", "2012-03-01T10:20:30", "-i", "%M:%S", "34:56", "-f", "%FT%T.%N", NULL}, NULL},
	{"dconv", "t-arg-MS-w", {"-i", "%M:%S", "--base", "2012-W09-4", "34:56", "-f", "%FT%T.%N", NULL}, NULL},
	{"dconv", "t-arg-H-d", {"--base", "2012-03-01", "-i", "%H", "12", "-f", "%FT%T.%N", NULL}, NULL},
	{"dconv", "t-arg-H-dt", {"-i", "%H", "--base", "2012-03-01T10:20:30", "12", "-f", "%FT%T.%N", NULL}, NULL},
	{"dconv", "t-arg-H-w", {"--base", "2012-W09-4", "-i", "%H", "12", "-f", "%FT%T.%N", NULL}, NULL},
	{"dconv", "t-arg-IP-d", {"-i", "%I%p", "--base", "2012-03-01", "01PM", "-f", "%FT%T.%N", NULL}, NULL},
	{"dconv", "t-arg-IP-dt", {"--base", "2012-03-01T10:20:30", "-i", "%I%p", "01PM", "-f", "%FT%T.%N", NULL}, NULL},
	{"dconv", "t-arg-IP-w", {"-i", "%I%p", "--base", "2012-W09-4", "01PM", "-f", "%FT%T.%N", NULL}, NULL},
	{"dconv", "t-arg-N-d", {"--base", "2012-03-01", "-i", "%N", "123456789", "-f", "%FT%T.%N", NULL}, NULL},
	{"dconv", "t-arg-N-dt", {"-i", "%N", "--base", "2012-03-01T10:20:30", "123456789", "-f", "%FT%T.%N", NULL}, NULL},
	{"dconv", "t-arg-N-w", {"--base", "2012-W09-4", "-i", "%N", "123456789", "-f", "%FT%T.%N", NULL}, NULL},
	{"dconv", "t-arg-SN-d", {"-i", "%S.%N", "--base", "2012-03-01", "56.123456789", "-f", "%FT%T.%N", NULL}, NULL},
	{"dconv", "t-arg-SN-dt", {"--base", "2012-03-01T10:20:30", "-i", "%S.%N", "56.123456789", "-f", "%FT%T.%N", NULL}, NULL},
	{"dconv", "t-arg-SN-w", {"-i", "%S.%N", "--base", "2012-W09-4", "56.123456789", "-f", "%FT%T.%N", NULL}, NULL},
	{"dconv", "t-stdin-S-d", {"--base", "2012-03-01", "-i", "%S", "-f", "%T", NULL}, "56\n"},
	{"dconv", "t-stdin-MS-dt", {"--base", "2012-03-01T10:20:30", "-i", "%M:%S", "-f", "%T", NULL}, "34:56\n"},
	{"dconv", "t-stdin-H-w", {"--base", "2012-W09-4", "-i", "%H", "-f", "%T", NULL}, "12\n"},
	{"dconv", "t-stdin-IP-d", {"--base", "2012-03-01", "-i", "%I%p", "-f", "%T", NULL}, "01PM\n"},
	{"dconv", "t-stdin-N-dt", {"--base", "2012-03-01T10:20:30", "-i", "%N", "-f", "%T", NULL}, "123456789\n"},
	{"dconv", "t-stdin-SN-w", {"--base", "2012-W09-4", "-i", "%S.%N", "-f", "%T", NULL}, "56.123456789\n"},
	{"dconv", "t-sed-S-dt", {"-S", "-i", "%S", "--base", "2012-03-01T10:20:30", "-f", "%T", NULL}, "x 56 y\n"},
	{"dconv", "t-sed-MS-w", {"-S", "-i", "%M:%S", "--base", "2012-W09-4", "-f", "%T", NULL}, "x 34:56 y\n"},
	{"dconv", "t-sed-H-d", {"-S", "-i", "%H", "--base", "2012-03-01", "-f", "%T", NULL}, "x 12 y\n"},
	{"dconv", "t-sed-IP-dt", {"-S", "-i", "%I%p", "--base", "2012-03-01T10:20:30", "-f", "%T", NULL}, "x 01PM y\n"},
	{"dconv", "t-sed-N-w", {"-S", "-i", "%N", "--base", "2012-W09-4", "-f", "%T", NULL}, "x 123456789 y\n"},
	{"dconv", "t-sed-SN-d", {"-S", "-i", "%S.%N", "--base", "2012-03-01", "-f", "%T", NULL}, "x 56.123456789 y\n"},
	{"dadd", "t-arg-S-w", {"--base", "2012-W09-4", "-i", "%S", "56", "+1h", "-f", "%T", NULL}, NULL},
	{"dadd", "t-arg-MS-d", {"--base", "2012-03-01", "-i", "%M:%S", "34:56", "+1h", "-f", "%T", NULL}, NULL},
	{"dadd", "t-arg-H-dt", {"--base", "2012-03-01T10:20:30", "-i", "%H", "12", "+1h", "-f", "%T", NULL}, NULL},
	{"dadd", "t-arg-IP-w", {"--base", "2012-W09-4", "-i", "%I%p", "01PM", "+1h", "-f", "%T", NULL}, NULL},
	{"dadd", "t-arg-N-d", {"--base", "2012-03-01", "-i", "%N", "123456789", "+1h", "-f", "%T", NULL}, NULL},
	{"dadd", "t-arg-SN-dt", {"--base", "2012-03-01T10:20:30", "-i", "%S.%N", "56.123456789", "+1h", "-f", "%T", NULL}, NULL},
	{"dadd", "t-stdin-S-d", {"-i", "%S", "--base", "2012-03-01", "+1h", "-f", "%T", NULL}, "56\n"},
	{"dadd", "t-stdin-MS-dt", {"-i", "%M:%S", "--base", "2012-03-01T10:20:30", "+1h", "-f", "%T", NULL}, "34:56\n"},
	{"dadd", "t-stdin-H-w", {"-i", "%H", "--base", "2012-W09-4", "+1h", "-f", "%T", NULL}, "12\n"},
	{"dadd", "t-stdin-IP-d", {"-i", "%I%p", "--base", "2012-03-01", "+1h", "-f", "%T", NULL}, "01PM\n"},
	{"dadd", "t-stdin-N-dt", {"-i", "%N", "--base", "2012-03-01T10:20:30", "+1h", "-f", "%T", NULL}, "123456789\n"},
	{"dadd", "t-stdin-SN-w", {"-i", "%S.%N", "--base", "2012-W09-4", "+1h", "-f", "%T", NULL}, "56.123456789\n"},
	{"ddiff", "t-ref-S-dt", {"--base", "2012-03-01T10:20:30", "-i", "%H:%M:%S", "-i", "%S", "56", "23:59:59", "-f", "%S", NULL}, NULL},
	{"ddiff", "t-ref-MS-w", {"--base", "2012-W09-4", "-i", "%H:%M:%S", "-i", "%M:%S", "34:56", "23:59:59", "-f", "%S", NULL}, NULL},
	{"ddiff", "t-ref-H-d", {"--base", "2012-03-01", "-i", "%H:%M:%S", "-i", "%H", "12", "23:59:59", "-f", "%S", NULL}, NULL},
	{"ddiff", "t-ref-IP-dt", {"--base", "2012-03-01T10:20:30", "-i", "%H:%M:%S", "-i", "%I%p", "01PM", "23:59:59", "-f", "%S", NULL}, NULL},
	{"ddiff", "t-ref-N-w", {"--base", "2012-W09-4", "-i", "%H:%M:%S", "-i", "%N", "123456789", "23:59:59", "-f", "%S", NULL}, NULL},
	{"ddiff", "t-ref-SN-d", {"--base", "2012-03-01", "-i", "%H:%M:%S", "-i", "%S.%N", "56.123456789", "23:59:59", "-f", "%S", NULL}, NULL},
	{"ddiff", "t-op-S-w", {"-i", "%H:%M:%S", "-i", "%S", "--base", "2012-W09-4", "00:00:00", "56", "-f", "%S", NULL}, NULL},
	{"ddiff", "t-op-MS-d", {"-i", "%H:%M:%S", "-i", "%M:%S", "--base", "2012-03-01", "00:00:00", "34:56", "-f", "%S", NULL}, NULL},
	{"ddiff", "t-op-H-dt", {"-i", "%H:%M:%S", "-i", "%H", "--base", "2012-03-01T10:20:30", "00:00:00", "12", "-f", "%S", NULL}, NULL},
	{"ddiff", "t-op-IP-w", {"-i", "%H:%M:%S", "-i", "%I%p", "--base", "2012-W09-4", "00:00:00", "01PM", "-f", "%S", NULL}, NULL},
	{"ddiff", "t-op-N-d", {"-i", "%H:%M:%S", "-i", "%N", "--base", "2012-03-01", "00:00:00", "123456789", "-f", "%S", NULL}, NULL},
	{"ddiff", "t-op-SN-dt", {"-i", "%H:%M:%S", "-i", "%S.%N", "--base", "2012-03-01T10:20:30", "00:00:00", "56.123456789", "-f", "%S", NULL}, NULL},
	{"ddiff", "t-stdin-S-d", {"--base", "2012-03-01", "-i", "%H:%M:%S", "-i", "%S", "00:00:00", "-f", "%S", NULL}, "56\n"},
	{"ddiff", "t-stdin-MS-dt", {"--base", "2012-03-01T10:20:30", "-i", "%H:%M:%S", "-i", "%M:%S", "00:00:00", "-f", "%S", NULL}, "34:56\n"},
	{"ddiff", "t-stdin-H-w", {"--base", "2012-W09-4", "-i", "%H:%M:%S", "-i", "%H", "00:00:00", "-f", "%S", NULL}, "12\n"},
	{"ddiff", "t-stdin-IP-d", {"--base", "2012-03-01", "-i", "%H:%M:%S", "-i", "%I%p", "00:00:00", "-f", "%S", NULL}, "01PM\n"},
	{"ddiff", "t-stdin-N-dt", {"--base", "2012-03-01T10:20:30", "-i", "%H:%M:%S", "-i", "%N", "00:00:00", "-f", "%S", NULL}, "123456789\n"},
	{"ddiff", "t-stdin-SN-w", {"--base", "2012-W09-4", "-i", "%H:%M:%S", "-i", "%S.%N", "00:00:00", "-f", "%S", NULL}, "56.123456789\n"},
	{"dgrep", "t-expr-MS-w", {"--base", "2012-W09-4", "-i", "%H:%M:%S", "-i", "%M:%S", ">=34:56", NULL}, "00:00:30\n10:30:00\n12:30:00\n13:30:00\n23:00:00\n"},
	{"dgrep", "t-expr-IP-dt", {"--base", "2012-03-01T10:20:30", "-i", "%H:%M:%S", "-i", "%I%p", ">=01PM", NULL}, "00:00:30\n10:30:00\n12:30:00\n13:30:00\n23:00:00\n"},
	{"dgrep", "t-expr-SN-d", {"--base", "2012-03-01", "-i", "%H:%M:%S", "-i", "%S.%N", ">=56.123456789", NULL}, "00:00:30\n10:30:00\n12:30:00\n13:30:00\n23:00:00\n"},
	{"dgrep", "t-lines-S-w", {"-i", "%S", "-i", "%H:%M:%S", "--base", "2012-W09-4", ">=10:25:00", NULL}, "56\nfoo\n"},
	{"dgrep", "t-lines-MS-d", {"-i", "%M:%S", "-i", "%H:%M:%S", "--base", "2012-03-01", ">=10:25:00", NULL}, "34:56\nfoo\n"},
	{"dgrep", "t-lines-H-dt", {"-i", "%H", "-i", "%H:%M:%S", "--base", "2012-03-01T10:20:30", ">=10:25:00", NULL}, "12\nfoo\n"},
	{"dgrep", "t-lines-IP-w", {"-i", "%I%p", "-i", "%H:%M:%S", "--base", "2012-W09-4", ">=10:25:00", NULL}, "01PM\nfoo\n"},
	{"dgrep", "t-lines-N-d", {"-i", "%N", "-i", "%H:%M:%S", "--base", "2012-03-01", ">=10:25:00", NULL}, "123456789\nfoo\n"},
	{"dgrep", "t-lines-SN-dt", {"-i", "%S.%N", "-i", "%H:%M:%S", "--base", "2012-03-01T10:20:30", ">=10:25:00", NULL}, "56.123456789\nfoo\n"},
	{"dround", "t-arg-S-d", {"--base", "2012-03-01", "-i", "%S", "56", "30m", "-f", "%T", NULL}, NULL},
	{"dround", "t-arg-MS-dt", {"--base", "2012-03-01T10:20:30", "-i", "%M:%S", "34:56", "30m", "-f", "%T", NULL}, NULL},
	{"dround", "t-arg-H-w", {"--base", "2012-W09-4", "-i", "%H", "12", "30m", "-f", "%T", NULL}, NULL},
	{"dround", "t-arg-IP-d", {"--base", "2012-03-01", "-i", "%I%p", "01PM", "30m", "-f", "%T", NULL}, NULL},
	{"dround", "t-arg-N-dt", {"--base", "2012-03-01T10:20:30", "-i", "%N", "123456789", "30m", "-f", "%T", NULL}, NULL},
	{"dround", "t-arg-SN-w", {"--base", "2012-W09-4", "-i", "%S.%N", "56.123456789", "30m", "-f", "%T", NULL}, NULL},
	{"dround", "t-stdin-S-dt", {"-i", "%S", "--base", "2012-03-01T10:20:30", "30m", "-f", "%T", NULL}, "56\n"},
	{"dround", "t-stdin-MS-w", {"-i", "%M:%S", "--base", "2012-W09-4", "30m", "-f", "%T", NULL}, "34:56\n"},
	{"dround", "t-stdin-H-d", {"-i", "%H", "--base", "2012-03-01", "30m", "-f", "%T", NULL}, "12\n"},
	{"dround", "t-stdin-IP-dt", {"-i", "%I%p", "--base", "2012-03-01T10:20:30", "30m", "-f", "%T", NULL}, "01PM\n"},
	{"dround", "t-stdin-N-w", {"-i", "%N", "--base", "2012-W09-4", "30m", "-f", "%T", NULL}, "123456789\n"},
	{"dround", "t-stdin-SN-d", {"-i", "%S.%N", "--base", "2012-03-01", "30m", "-f", "%T", NULL}, "56.123456789\n"},
	{"dseq", "t-first-S-w", {"--base", "2012-W09-4", "-i", "%H:%M:%S", "-i", "%S", "56", "6h", "23:59:59", "-f", "%T", NULL}, NULL},
	{"dseq", "t-first-MS-d", {"--base", "2012-03-01", "-i", "%H:%M:%S", "-i", "%M:%S", "34:56", "6h", "23:59:59", "-f", "%T", NULL}, NULL},
	{"dseq", "t-first-H-dt", {"--base", "2012-03-01T10:20:30", "-i", "%H:%M:%S", "-i", "%H", "12", "6h", "23:59:59", "-f", "%T", NULL}, NULL},
	{"dseq", "t-first-IP-w", {"--base", "2012-W09-4", "-i", "%H:%M:%S", "-i", "%I%p", "01PM", "6h", "23:59:59", "-f", "%T", NULL}, NULL},
	{"dseq", "t-first-N-d", {"--base", "2012-03-01", "-i", "%H:%M:%S", "-i", "%N", "123456789", "6h", "23:59:59", "-f", "%T", NULL}, NULL},
	{"dseq", "t-first-SN-dt", {"--base", "2012-03-01T10:20:30", "-i", "%H:%M:%S", "-i", "%S.%N", "56.123456789", "6h", "23:59:59", "-f", "%T", NULL}, NULL},
	{"dseq", "t-last-S-d", {"-i", "%H:%M:%S", "-i", "%S", "--base", "2012-03-01", "00:00:00", "6h", "56", "-f", "%T", NULL}, NULL},
	{"dseq", "t-last-MS-dt", {"-i", "%H:%M:%S", "-i", "%M:%S", "--base", "2012-03-01T10:20:30", "00:00:00", "6h", "34:56", "-f", "%T", NULL}, NULL},
	{"dseq", "t-last-H-w", {"-i", "%H:%M:%S", "-i", "%H", "--base", "2012-W09-4", "00:00:00", "6h", "12", "-f", "%T", NULL}, NULL},
	{"dseq", "t-last-IP-d", {"-i", "%H:%M:%S", "-i", "%I%p", "--base", "2012-03-01", "00:00:00", "6h", "01PM", "-f", "%T", NULL}, NULL},
	{"dseq", "t-last-N-dt", {"-i", "%H:%M:%S", "-i", "%N", "--base", "2012-03-01T10:20:30", "00:00:00", "6h", "123456789", "-f", "%T", NULL}, NULL},
	{"dseq", "t-last-SN-w", {"-i", "%H:%M:%S", "-i", "%S.%N", "--base", "2012-W09-4", "00:00:00", "6h", "56.123456789", "-f", "%T", NULL}, NULL},
	{"dtest", "t-op1-S-dt", {"--base", "2012-03-01T10:20:30", "-i", "%H:%M:%S", "-i", "%S", "--cmp", "56", "10:25:00", NULL}, NULL},
	{"dtest", "t-op1-MS-w", {"--base", "2012-W09-4", "-i", "%H:%M:%S", "-i", "%M:%S", "--cmp", "34:56", "10:25:00", NULL}, NULL},
	{"dtest", "t-op1-H-d", {"--base", "2012-03-01", "-i", "%H:%M:%S", "-i", "%H", "--cmp", "12", "10:25:00", NULL}, NULL},
	{"dtest", "t-op1-IP-dt", {"--base", "2012-03-01T10:20:30", "-i", "%H:%M:%S", "-i", "%I%p", "--cmp", "01PM", "10:25:00", NULL}, NULL},
	{"dtest", "t-op1-N-w", {"--base", "2012-W09-4", "-i", "%H:%M:%S", "-i", "%N", "--cmp", "123456789", "10:25:00", NULL}, NULL},
	{"dtest", "t-op1-SN-d", {"--base", "2012-03-01", "-i", "%H:%M:%S", "-i", "%S.%N", "--cmp", "56.123456789", "10:25:00", NULL}, NULL},
	{"dtest", "t-op2-S-w", {"-i", "%H:%M:%S", "-i", "%S", "--base", "2012-W09-4", "--cmp", "10:25:00", "56", NULL}, NULL},
	{"dtest", "t-op2-MS-d", {"-i", "%H:%M:%S", "-i", "%M:%S", "--base", "2012-03-01", "--cmp", "10:25:00", "34:56", NULL}, NULL},
	{"dtest", "t-op2-H-dt", {"-i", "%H:%M:%S", "-i", "%H", "--base", "2012-03-01T10:20:30", "--cmp", "10:25:00", "12", NULL}, NULL},
	{"dtest", "t-op2-IP-w", {"-i", "%H:%M:%S", "-i", "%I%p", "--base", "2012-W09-4", "--cmp", "10:25:00", "01PM", NULL}, NULL},
	{"dtest", "t-op2-N-d", {"-i", "%H:%M:%S", "-i", "%N", "--base", "2012-03-01", "--cmp", "10:25:00", "123456789", NULL}, NULL},
	{"dtest", "t-op2-SN-dt", {"-i", "%H:%M:%S", "-i", "%S.%N", "--base", "2012-03-01T10:20:30", "--cmp", "10:25:00", "56.123456789", NULL}, NULL},
	{"dzone", "t-arg-S-d", {"--base", "2012-03-01", "-i", "%S", "Europe/Berlin", "Asia/Kolkata", "56", NULL}, NULL},
	{"dzone", "t-arg-MS-dt", {"--base", "2012-03-01T10:20:30", "-i", "%M:%S", "Europe/Berlin", "Asia/Kolkata", "34:56", NULL}, NULL},
	{"dzone", "t-arg-H-w", {"--base", "2012-W09-4", "-i", "%H", "Europe/Berlin", "Asia/Kolkata", "12", NULL}, NULL},
	{"dzone", "t-arg-IP-d", {"--base", "2012-03-01", "-i", "%I%p", "Europe/Berlin", "Asia/Kolkata", "01PM", NULL}, NULL},
	{"dzone", "t-arg-N-dt", {"--base", "2012-03-01T10:20:30", "-i", "%N", "Europe/Berlin", "Asia/Kolkata", "123456789", NULL}, NULL},
	{"dzone", "t-arg-SN-w", {"--base", "2012-W09-4", "-i", "%S.%N", "Europe/Berlin", "Asia/Kolkata", "56.123456789", NULL}, NULL},
	{"dsort", "t-lines-S-dt", {"--base", "2012-03-01T10:20:30", "-i", "%S", NULL}, "56 b\n56 a\n"},
	{"dsort", "t-lines-MS-w", {"--base", "2012-W09-4", "-i", "%M:%S", NULL}, "34:56 b\n34:56 a\n"},
	{"dsort", "t-lines-H-d", {"--base", "2012-03-01", "-i", "%H", NULL}, "12 b\n12 a\n"},
	{"dsort", "t-lines-IP-dt", {"--base", "2012-03-01T10:20:30", "-i", "%I%p", NULL}, "01PM b\n01PM a\n"},
	{"dsort", "t-lines-N-w", {"--base", "2012-W09-4", "-i", "%N", NULL}, "123456789 b\n123456789 a\n"},
	{"dsort", "t-lines-SN-d", {"--base", "2012-03-01", "-i", "%S.%N", NULL}, "56.123456789 b\n56.123456789 a\n"},
};
#define NINV_ALL	((int)(sizeof(invs) / sizeof(*invs)))

static int myinv[NINV_ALL], nmyinv;

/* ------------------------------------------------------------------ running */
static char env_locale_file[1024], env_tzmap_dir[1024], exe_path[1024], locpath_dir[1024];

#if defined C20_EXEC_ONLY
/* compile a single-byte locale xx_TEST with dictionary collation (a A b B ...) into
 * locpath_dir; returns 1 on success.  Only sort(1), started by dsort, ever looks at it. */
static int
build_test_locale(void)
{
	const char *rundir = getenv("VERIF_RUNDIR");
	char fn[1200], cmd[4000];
	FILE *f;
	int order[256], seen[256] = {0}, n = 0;

	snprintf(locpath_dir, sizeof(locpath_dir), "%s/c20loc.%d.%d", rundir ? rundir : "/tmp", ex.worker, (int)getpid());
	if (mkdir(locpath_dir, 0700) < 0) {
		return 0;
	}
	snprintf(fn, sizeof(fn), "%s/cm", locpath_dir);
	if ((f = fopen(fn, "w")) == NULL) {
		return 0;
	}
	fprintf(f, "<code_set_name> C20TEST\n<comment_char> %%\n<escape_char> /\n<mb_cur_min> 1\n<mb_cur_max> 1\nCHARMAP\n");
	for (int i = 0; i < 256; i++) {
		fprintf(f, "<U%04X> /x%02x\n", i, i);
	}
	fprintf(f, "END CHARMAP\n");
	fclose(f);
	snprintf(fn, sizeof(fn), "%s/src", locpath_dir);
	if ((f = fopen(fn, "w")) == NULL) {
		return 0;
	}
	fprintf(f, "comment_char %%\nescape_char /\nLC_CTYPE\nupper ");
	for (int c = 'A'; c <= 'Z'; c++) {
		fprintf(f, "<U%04X>%s", c, c < 'Z' ? ";" : "\nlower ");
	}
	for (int c = 'a'; c <= 'z'; c++) {
		fprintf(f, "<U%04X>%s", c, c < 'z' ? ";" : "\ndigit ");
	}
	for (int c = '0'; c <= '9'; c++) {
		fprintf(f, "<U%04X>%s", c, c < '9' ? ";" : "\n");
	}
	fprintf(f, "space <U0020>;<U0009>;<U000A>;<U000B>;<U000C>;<U000D>\nEND LC_CTYPE\nLC_COLLATE\norder_start forward\n");
	for (int c = 0; c < '9' + 1; c++) {
		order[n++] = c;
	}
	for (int c = 'a'; c <= 'z'; c++) {
		order[n++] = c;
		order[n++] = c - 32;
	}
	for (int i = 0; i < n; i++) {
		seen[order[i]] = 1;
	}
	for (int c = 0; c < 256; c++) {
		if (!seen[c]) {
			order[n++] = c;
		}
	}
	for (int i = 0; i < n; i++) {
		fprintf(f, "<U%04X>\n", order[i]);
	}
	fprintf(f, "order_end\nEND LC_COLLATE\n");
	fclose(f);
	snprintf(cmd, sizeof(cmd), "localedef -c -f '%s/cm' -i '%s/src' '%s/xx_TEST' >/dev/null 2>&1", locpath_dir, locpath_dir, locpath_dir);
	if (system(cmd) == -1) {
		return 0;
	}
	snprintf(fn, sizeof(fn), "%s/xx_TEST/LC_COLLATE", locpath_dir);
	if (access(fn, R_OK)) {
		return 0;
	}
	/* does sort(1) really order differently under it?  b A a B -> C: A B a b, xx_TEST: a A b B */
	snprintf(cmd, sizeof(cmd), "test \"$(printf 'b\\nA\\na\\nB\\n' | LOCPATH='%s' LC_ALL=xx_TEST sort | tr -d '\\n')\" = aAbB", locpath_dir);
	return system(cmd) == 0;
}

static void
remove_test_locale(void)
{
	char cmd[1200];
	if (*locpath_dir && strstr(locpath_dir, "/c20loc.")) {
		snprintf(cmd, sizeof(cmd), "rm -rf '%s'", locpath_dir);
		if (system(cmd)) {
			;
		}
	}
}
#endif

/* environment of configuration C (static storage; NULL-terminated) */
static const char *const*
mk_env(int c, char store[9][1100])
{
	static const char *ev[12];
	int n = 0;
	const char *tz = tz_vals[CFG_TZ(c)];
	const struct loc_s *l = locs + CFG_LOC(c);

	if (tz) {
		snprintf(store[n], 1100, "TZ=%s", tz);
		ev[n] = store[n];
		n++;
	}
	if (l->lang) {
		snprintf(store[n], 1100, "LANG=%s", l->lang);
		ev[n] = store[n];
		n++;
	}
	if (l->lc_all) {
		snprintf(store[n], 1100, "LC_ALL=%s", l->lc_all);
		ev[n] = store[n];
		n++;
	}
	if (l->lc_time) {
		snprintf(store[n], 1100, "LC_TIME=%s", l->lc_time);
		ev[n] = store[n];
		n++;
	}
	if (l->testloc) {
		snprintf(store[n], 1100, "LOCPATH=%s", locpath_dir);
		ev[n] = store[n];
		n++;
	}
	/* part of every configuration: where the uninstalled tools find their data */
	snprintf(store[n], 1100, "LOCALE_FILE=%s", env_locale_file);
	ev[n] = store[n];
	n++;
	snprintf(store[n], 1100, "TZMAP_DIR=%s", env_tzmap_dir);
	ev[n] = store[n];
	n++;
	ev[n++] = "PATH=/usr/bin:/bin";
	ev[n] = NULL;
	return ev;
}

static void
cfg_text(int c, char *buf, size_t bsz, int with_clock)
{
	const char *tz = tz_vals[CFG_TZ(c)];
	const struct loc_s *l = locs + CFG_LOC(c);
	size_t k = 0;
	k += snprintf(buf + k, bsz - k, "TZ%s%s%s", tz ? "='" : " unset", tz ? tz : "", tz ? "'" : "");
	k += snprintf(buf + k, bsz - k, " LANG%s%s", l->lang ? "=" : " unset", l->lang ? l->lang : "");
	k += snprintf(buf + k, bsz - k, " LC_ALL%s%s", l->lc_all ? "=" : " unset", l->lc_all ? l->lc_all : "");
	k += snprintf(buf + k, bsz - k, " LC_TIME%s%s", l->lc_time ? "=" : " unset", l->lc_time ? l->lc_time : "");
	if (l->testloc) {
		k += snprintf(buf + k, bsz - k, " (xx_TEST: compiled by the check, collation a A b B ...; any installed locale such as en_US.UTF-8 serves as well)");
	}
	if (with_clock) {
		k += snprintf(buf + k, bsz - k, " clock=%lld", (long long)clk_vals[CFG_CLK(c)]);
	}
}

static void
inv_cmd(const struct inv_s *iv, int c, char *buf, size_t bsz)
{
	const char *tz = tz_vals[CFG_TZ(c)];
	const struct loc_s *l = locs + CFG_LOC(c);
	size_t k = 0;
	if (iv->in) {
		k += snprintf(buf + k, bsz - k, "printf '");
		for (const char *p = iv->in; *p && k + 8 < bsz; p++) {
			if (*p == '\n') {
				k += snprintf(buf + k, bsz - k, "\\n");
			} else {
				buf[k++] = *p;
			}
		}
		k += snprintf(buf + k, bsz - k, "' | ");
	}
	k += snprintf(buf + k, bsz - k, "env -i PATH=/usr/bin:/bin LOCALE_FILE=/repo/data/locale");
	if (tz) {
		k += snprintf(buf + k, bsz - k, " TZ='%s'", tz);
	}
	if (l->lang) {
		k += snprintf(buf + k, bsz - k, " LANG=%s", l->lang);
	}
	if (l->lc_all) {
		k += snprintf(buf + k, bsz - k, " LC_ALL=%s", l->lc_all);
	}
	if (l->lc_time) {
		k += snprintf(buf + k, bsz - k, " LC_TIME=%s", l->lc_time);
	}
	if (l->testloc) {
		k += snprintf(buf + k, bsz - k, " LOCPATH=<dir of the compiled test locale>");
	}
	k += snprintf(buf + k, bsz - k, " /repo/src/%s", iv->tool);
	for (int i = 0; i < MAXARG && iv->args[i]; i++) {
		k += snprintf(buf + k, bsz - k, " '%s'", iv->args[i]);
	}
#if !defined C20_EXEC_ONLY
	k += snprintf(buf + k, bsz - k, "   # with the system clock at %lld", (long long)clk_vals[CFG_CLK(c)]);
#endif
}

/* the real binary: stdin from a memfd, then exec */
static const char *exec_stdin;
static int
c20_exec_main(int argc, char **argv)
{
	(void)argc;
	if (exec_stdin) {
		int fd = memfd_create("c20_in", 0);
		size_t l = strlen(exec_stdin);
		if (fd < 0 || write(fd, exec_stdin, l) != (ssize_t)l) {
			_exit(125);
		}
		lseek(fd, 0, SEEK_SET);
		dup2(fd, 0);
		close(fd);
	}
	execv(exe_path, argv);
	_exit(127);
}

#if !defined C20_EXEC_ONLY
extern int c20_tool_main(int argc, char *argv[]);
static int
c20_inproc_main(int argc, char **argv)
{
	int rc;
	tw_armed = 1;
	rc = c20_tool_main(argc, argv);
	tw_armed = 0;
	return rc;
}
#endif

struct run_s {
	struct fs_result r;
	uint32_t tw[NTWALL];
	uint64_t h;
};

/* run invocation IV under configuration C (EXEC: the real binary, real clock) */
static void
run_inv(const struct inv_s *iv, int c, int exec, struct run_s *out)
{
	const char *av[MAXARG + 2];
	char store[9][1100];
	struct fs_opts o;
	int ac = 0;
	EX_CTR(c_eval, "evaluations");

	av[ac++] = iv->tool;
	for (int i = 0; i < MAXARG && iv->args[i]; i++) {
		av[ac++] = iv->args[i];
	}
	av[ac] = NULL;
	memset(&o, 0, sizeof(o));
	o.env = mk_env(c, store);
	o.timeout_s = 10;
	o.out_cap = 1U << 20;
	for (int i = 0; i < NTWALL; i++) {
		tw_cnt[i] = 0;
	}
	++*c_eval;
	/* a run that hits the wall-clock limit is repeated once with ten times the limit before
	 * it counts as an observation (the machine may be busy) */
	for (int attempt = 0; attempt < 2; attempt++) {
		if (attempt) {
			EX_CTR(c_retry, "runs_repeated_with_10x_time_limit");
			++*c_retry;
			fs_free(&out->r);
			o.timeout_s = 100;
			for (int i = 0; i < NTWALL; i++) {
				tw_cnt[i] = 0;
			}
		}
#if !defined C20_EXEC_ONLY
		if (!exec) {
			if (iv->in) {
				o.stdin_data = iv->in;
				o.stdin_len = strlen(iv->in);
			}
			c20_clk_on = 1;
			c20_clk = clk_vals[CFG_CLK(c)];
			fs_run(c20_inproc_main, ac, av, &o, &out->r);
			c20_clk_on = 0;
		} else
#endif
		{
			(void)exec;
			exec_stdin = iv->in;
			fs_run(c20_exec_main, ac, av, &o, &out->r);
		}
		if (!out->r.timed_out) {
			break;
		}
	}
	for (int i = 0; i < NTWALL; i++) {
		out->tw[i] = tw_cnt[i];
	}
	out->h = ex_hash(out->r.out, out->r.outlen);
	out->h = ex_hash_mix(out->h, (uint64_t)(out->r.exited ? out->r.status : 1000 + out->r.sig));
}

static int
same_result(const struct run_s *a, const struct run_s *b)
{
	return a->r.exited == b->r.exited && a->r.status == b->r.status && a->r.sig == b->r.sig &&
		a->r.outlen == b->r.outlen && !memcmp(a->r.out, b->r.out, a->r.outlen);
}

/* printable, bounded copy of an output */
static const char*
show(const struct run_s *x, char *buf, size_t bsz)
{
	size_t k = 0;
	k += snprintf(buf + k, bsz - k, "[%s] '", fs_ending(&x->r));
	for (size_t i = 0; i < x->r.outlen && k + 8 < bsz && i < 160; i++) {
		unsigned char ch = (unsigned char)x->r.out[i];
		if (ch == '\n') {
			buf[k++] = '\\';
			buf[k++] = 'n';
		} else if (ch < 0x20) {
			k += snprintf(buf + k, bsz - k, "\\x%02x", ch);
		} else {
			buf[k++] = (char)ch;
		}
	}
	if (x->r.outlen > 160) {
		k += snprintf(buf + k, bsz - k, "...");
	}
	snprintf(buf + k, bsz - k, "'");
	return buf;
}

/* an invocation is informative if its reference run produced something to compare:
 * output, or an exit status that is the answer (dtest, dgrep) */
static int
informative(const struct inv_s *iv, const struct run_s *ref)
{
	if (!ref->r.exited) {
		return 0;
	}
	if (!strcmp(iv->tool, "dtest")) {
		return 1;
	}
	return ref->r.outlen > 0;
}

/* everything about one invocation */
static int
do_inv(int k, int only_cfg, int replay)
{
	const struct inv_s *iv = invs + k;
	struct run_s ref, cur, bin;
	char key[256], cas[64], cmd[2048], b1[512], b2[512], ctext[256];
	int ncfg = NCFG, bad = 0;
	int dep_tz = 0, dep_loc = 0, dep_clk = 0;
	uint8_t *differs;
	EX_CTR(c_states, "states");
	EX_CTR(c_trans, "transitions");
	EX_CTR(c_traces, "traces");
	EX_CTR(c_nontriv, "nontrivial");
	EX_CTR(c_bind, "cli_binding_replays");
	EX_CTR(c_vac, "invocations_without_comparable_output");
#if defined C20_EXEC_ONLY
	const int exec = 1;
#else
	const int exec = 0;
#endif

	run_inv(iv, 0, exec, &ref);
	++*c_states;
	ex_outcome(ref.h);
	if (informative(iv, &ref)) {
		++*c_nontriv;
	} else {
		++*c_vac;
	}
	if (replay) {
		cfg_text(0, ctext, sizeof(ctext), !exec);
		printf("  reference (%s): %s\n", ctext, show(&ref, b1, sizeof(b1)));
	}
	differs = calloc((size_t)ncfg, 1);
	/* the tripwires are judged in every run, the reference included */
	for (int c = 0; c < ncfg && !ex_expired(); c++) {
		const struct run_s *x;
		if (only_cfg >= 0 && c != only_cfg && c != 0) {
			continue;
		}
		if (c == 0) {
			x = &ref;
		} else {
			run_inv(iv, c, exec, &cur);
			x = &cur;
			++*c_states;
			++*c_trans;
			ex_outcome(cur.h);
		}
		for (int i = 0; i < NTW; i++) {
			if (x->tw[i]) {
				snprintf(key, sizeof(key), "tripwire tool=%s fn=%s", iv->tool, tw_name[i]);
				snprintf(cas, sizeof(cas), "%d %d", k, c);
				inv_cmd(iv, c, cmd, sizeof(cmd));
				ex_viol(key, k, cas, cmd, "%s %s: the tool's code called %s %u time(s); its answer depends on the process environment",
					iv->tool, iv->label, tw_name[i], x->tw[i]);
				if (replay) {
					printf("  tripwire %s hit %u time(s)\n", tw_name[i], x->tw[i]);
				}
				bad++;
			}
		}
		if (x->tw[TW_SETLOCALE_NAMED]) {
			EX_CTR(c_sl, "setlocale_with_explicit_name_calls");
			++*c_sl;
		}
		if (c == 0) {
			continue;
		}
		if (!same_result(&ref, &cur)) {
			differs[c] = 1;
			if (CFG_LOC(c) == 0 && CFG_CLK(c) == 0) {
				dep_tz = 1;
			}
			if (CFG_TZ(c) == 0 && CFG_CLK(c) == 0) {
				dep_loc = 1;
			}
			if (CFG_TZ(c) == 0 && CFG_LOC(c) == 0) {
				dep_clk = 1;
			}
			if (replay) {
				cfg_text(c, ctext, sizeof(ctext), !exec);
				printf("  differs   (%s): %s\n", ctext, show(&cur, b2, sizeof(b2)));
			}
		} else if (replay) {
			cfg_text(c, ctext, sizeof(ctext), !exec);
			printf("  same      (%s): %s\n", ctext, show(&cur, b2, sizeof(b2)));
		}
		if (only_cfg < 0) {
			fs_free(&cur.r);
		}
	}
	/* report: class = (tool, invocation, which single dimensions change the result) */
	if (only_cfg < 0) {
		snprintf(key, sizeof(key), "env tool=%s inv=%s varies-with=%s%s%s%s", iv->tool, iv->label,
			 dep_clk ? "clock" : "", dep_tz ? (dep_clk ? "+TZ" : "TZ") : "",
			 dep_loc ? ((dep_clk || dep_tz) ? "+locale" : "locale") : "",
			 (dep_clk || dep_tz || dep_loc) ? "" : "combination-only");
		for (int c = 1; c < ncfg; c++) {
			if (!differs[c]) {
				continue;
			}
			bad++;
			/* re-run the first one for the text of the report */
			run_inv(iv, c, exec, &cur);
			cfg_text(c, ctext, sizeof(ctext), !exec);
			snprintf(cas, sizeof(cas), "%d %d", k, c);
			inv_cmd(iv, c, cmd, sizeof(cmd));
			ex_viol(key, c, cas, cmd, "%s %s: under (%s) the run gives %s, under the reference configuration %s",
				iv->tool, iv->label, ctext, show(&cur, b2, sizeof(b2)), show(&ref, b1, sizeof(b1)));
			fs_free(&cur.r);
			/* count the others without re-running */
			for (int d = c + 1; d < ncfg; d++) {
				if (differs[d]) {
					bad++;
					snprintf(cas, sizeof(cas), "%d %d", k, d);
					ex_viol(key, d, cas, NULL, "");
				}
			}
			break;
		}
	} else if (only_cfg > 0 && differs[only_cfg]) {
		bad++;
	}
	/* binding: the binary of the same build, reference environment, real clock */
	if (!exec && (only_cfg < 0) && !ex_expired()) {
		run_inv(iv, 0, 1, &bin);
		++*c_bind;
		if (!same_result(&ref, &bin)) {
			snprintf(key, sizeof(key), "binding tool=%s inv=%s", iv->tool, iv->label);
			snprintf(cas, sizeof(cas), "%d -1", k);
			inv_cmd(iv, 0, cmd, sizeof(cmd));
			ex_viol(key, k, cas, cmd, "%s %s: the binary gives %s, main() run in the harness gave %s",
				iv->tool, iv->label, show(&bin, b2, sizeof(b2)), show(&ref, b1, sizeof(b1)));
			bad++;
		}
		fs_free(&bin.r);
	}
	if (ex_want_sample()) {
		cfg_text(ncfg - 1, ctext, sizeof(ctext), !exec);
		inv_cmd(iv, 0, cmd, sizeof(cmd));
		ex_sample("%s  -> %s under all %d configurations up to (%s)", cmd, show(&ref, b1, sizeof(b1)), ncfg, ctext);
	}
	++*c_traces;
	free(differs);
	fs_free(&ref.r);
	return bad;
}

/* weekday of the clock readings: the list is meant to hold every weekday */
static void
clock_selfcheck(void)
{
	int seen[7] = {0}, n = 0;
	for (int i = 0; i < NCLK_QUICK; i++) {
		int64_t days = clk_vals[i] / 86400;
		int wd = (int)((days + 4) % 7);		/* 1970-01-01 was a Thursday (4) */
		if (!seen[wd]++) {
			n++;
		}
	}
	if (n != 7) {
		fprintf(stderr, "c20_env: the quick clock list covers only %d weekdays\n", n);
		exit(3);
	}
}

int
main(int argc, char *argv[])
{
	const char *tree;

	ex_init(argc, argv);
	tree = ex.tree ? ex.tree : VERIF_TREE;
	snprintf(env_locale_file, sizeof(env_locale_file), "%s/data/locale", tree);
	snprintf(env_tzmap_dir, sizeof(env_tzmap_dir), "%s/lib", tree);
	snprintf(exe_path, sizeof(exe_path), "%s/src/%s", tree, C20_TOOL);
	if (access(env_locale_file, R_OK) || access(exe_path, X_OK)) {
		fprintf(stderr, "c20_env: %s or %s missing\n", env_locale_file, exe_path);
		return 3;
	}
	clock_selfcheck();
	tw_cnt = mmap(NULL, 4096, PROT_READ | PROT_WRITE, MAP_SHARED | MAP_ANONYMOUS, -1, 0);
	if (tw_cnt == MAP_FAILED) {
		perror("mmap");
		return 3;
	}
	ntz = ex.thorough ? NTZ_ALL : NTZ_QUICK;
	nloc = ex.thorough ? NLOC_ALL : NLOC_QUICK;
	nclk = ex.thorough ? NCLK_ALL : NCLK_QUICK;
	memcpy(locs, loc_vals, sizeof(*locs) * (size_t)nloc);
#if defined C20_EXEC_ONLY
	nclk = 1;	/* the real binary runs on the real clock */
	if (build_test_locale()) {
		memcpy(locs + nloc, loc_test, sizeof(loc_test));
		nloc += (int)(sizeof(loc_test) / sizeof(*loc_test));
		atexit(remove_test_locale);
	} else {
		EX_CTR(c_noloc, "skipped:locale settings with a non-C collation (localedef could not compile the test locale)");
		remove_test_locale();
		*c_noloc += 2;
	}
#endif
	for (int k = 0; k < NINV_ALL; k++) {
		if (!strcmp(invs[k].tool, C20_TOOL)) {
			myinv[nmyinv++] = k;
		}
	}

	if (ex.cas) {
		int k, c;
		if (!strcmp(ex.cas, "list")) {
			/* development aid: the reference output of every invocation */
			for (int i = 0; i < nmyinv; i++) {
				printf("  %s %s:\n", invs[myinv[i]].tool, invs[myinv[i]].label);
				do_inv(myinv[i], 0, 1);
			}
			return ex_replay_result(0, "listed %d invocations", nmyinv);
		}
		if (sscanf(ex.cas, "%d %d", &k, &c) != 2 || k < 0 || k >= NINV_ALL || c >= NCFG || strcmp(invs[k].tool, C20_TOOL)) {
			return ex_replay_result(1, "bad case string '%s'", ex.cas);
		}
		if (c < 0) {
			/* binding case */
			struct run_s a, b;
			char b1[512], b2[512];
			int f;
			run_inv(invs + k, 0, 0, &a);
			run_inv(invs + k, 0, 1, &b);
			printf("  main() in the harness: %s\n  binary: %s\n", show(&a, b1, sizeof(b1)), show(&b, b2, sizeof(b2)));
			f = !same_result(&a, &b);
			return ex_replay_result(f, "binding %s %s", invs[k].tool, invs[k].label);
		}
		return ex_replay_result(do_inv(k, c, 1) != 0, "%s %s configuration %d", invs[k].tool, invs[k].label, c);
	}

	ex_meta("rule", "tool %s: every invocation of a fixed list (fully specified inputs incl. complete times of day, or underspecified inputs together with --base: "
		"%%y, %%_y, month-day, day, time-only -- the latter as a position matrix: each argument / stdin line / expression operand that the tool parses as a date is in turn "
		"the only underspecified one, option orders --base B -i F and -i F --base B) x every TZ value x every joint setting of (LANG, LC_ALL, LC_TIME) x every system clock reading; "
		"the tool's main() runs in a forked child with the harness's clock and a cleared environment (dsort: the real binary, environment only). "
		"Oracle: stdout and exit status/signal equal those of the reference configuration (TZ, LANG, LC_* unset, clock 951782400); class key names the "
		"single dimensions that alone change the result. Tripwire reading: a call of localtime, localtime_r, mktime, timelocal, ctime, ctime_r, strftime, "
		"tzset, nl_langinfo, setlocale(,\"\") or getenv(TZ|LANG|LC_*|LANGUAGE) from the tool is itself counted as a dependence on the environment "
		"(setlocale with an explicit name is only counted). LOCALE_FILE, TZMAP_DIR and PATH are the same in all configurations. "
		"non-trivial = invocation whose reference run ends by exit and prints output (dtest: the status is the output)", C20_TOOL);
	ex_meta("bound", "%s: %d invocations x %d TZ x %d locale settings x %d clock readings = %d runs (%s tier)",
		C20_TOOL, nmyinv, ntz, nloc, nclk, nmyinv * NCFG, ex.thorough ? "thorough" : "quick");
#if !defined C20_EXEC_ONLY
	ex_meta("binding", "%s: each invocation once with the binary <tree>/src/%s (reference environment, real clock), stdout and status compared with the main() run",
		C20_TOOL, C20_TOOL);
#endif

	for (int i = 0; i < nmyinv && !ex_expired(); i++) {
		if (!ex_mine((uint64_t)i)) {
			continue;
		}
		do_inv(myinv[i], -1, 0);
	}
	return ex_finish();
}
