/* c09_roundtrip.c -- C09: parsing inverts formatting.
 *
 * The format string is the program.  The grammar is enumerated exhaustively: a format is a
 * sequence of fields (one per component of a DETERMINING SET, in every order), every field in
 * every spelling (plain, padded, unpadded, ordinal, Roman, named, one-letter), with every
 * separator from {"-", " ", "/", "T", ""} (times: {":", "", " ", "."}) in every gap -- except
 * that "" is only allowed behind a field whose printed width is fixed and equals the width the
 * parser may read (reading of "unambiguous": a variable-width numeric field, a Roman numeral
 * and %u/%s must be followed by a separator or the end).
 * For every format and every value v of the tier's window:
 *     text = dt_strfdt(v, F);  v' = dt_strpdt(text, F, &ep)
 * oracle: v' is a date(-time), denotes the same day (and second) as the reference calendar's
 * state, and ep is at the end of the text.
 * Also: the default output of ymd/ymcw/ywd/yd/bizda (date and date-time) is accepted by the
 * format-less parser; every shipped locale whose names are prefix-free round-trips its month
 * and weekday names; binding: the dconv binary, dconv -f F | dconv -i F, for 200 formats. */
#include "impl.h"
#include "explore.h"
#include "refcal.h"

/* ---- components and their spellings ---- */
enum wkind { W_FIX, W_VAR, W_NAME, W_ONE, W_ROMAN, W_ORD, W_SPC };
struct spelling {
	const char *spec;
	enum wkind w;
};
enum comp {
	C_Y, C_y2, C_y1, C_G, C_g2, C_m, C_d, C_j, C_V, C_U, C_W, C_C, C_wd, C_wdname, C_wdnum, C_c, C_db, C_F, C_s,
	C_H, C_I, C_M, C_S, C_N, C_p, C_T, NCOMP
};
static const struct spelling sp_Y[] = {{"%Y", W_FIX}, {"%OY", W_ROMAN}, {"%Yth", W_ORD}, {NULL, 0}};
static const struct spelling sp_y2[] = {{"%y", W_FIX}, {"%Oy", W_ROMAN}, {NULL, 0}};
static const struct spelling sp_y1[] = {{"%_y", W_FIX}, {NULL, 0}};
static const struct spelling sp_G[] = {{"%G", W_FIX}, {"%rY", W_FIX}, {NULL, 0}};
static const struct spelling sp_g2[] = {{"%g", W_FIX}, {NULL, 0}};
static const struct spelling sp_m[] = {{"%m", W_FIX}, {"%-m", W_VAR}, {"% m", W_SPC}, {"%0m", W_FIX}, {"%mth", W_ORD}, {"%Om", W_ROMAN}, {"%b", W_NAME},
	{"%B", W_NAME}, {"%_b", W_ONE}, {"%h", W_NAME}, {NULL, 0}};
static const struct spelling sp_d[] = {{"%d", W_FIX}, {"%-d", W_VAR}, {"% d", W_SPC}, {"%0d", W_FIX}, {"%dth", W_ORD}, {"%-dth", W_ORD}, {"%Od", W_ROMAN}, {NULL, 0}};
static const struct spelling sp_j[] = {{"%j", W_FIX}, {"%-j", W_VAR}, {"%D", W_FIX}, {"%jth", W_ORD}, {"%-jth", W_ORD}, {NULL, 0}};
static const struct spelling sp_V[] = {{"%V", W_FIX}, {"%-V", W_VAR}, {NULL, 0}};
static const struct spelling sp_U[] = {{"%U", W_FIX}, {NULL, 0}};
static const struct spelling sp_W[] = {{"%W", W_FIX}, {NULL, 0}};
static const struct spelling sp_C[] = {{"%C", W_FIX}, {NULL, 0}};
/* weekday: %u prints one digit but the parser may read two, so it counts as variable width */
static const struct spelling sp_wd[] = {{"%u", W_VAR}, {"%w", W_FIX}, {"%a", W_NAME}, {"%A", W_NAME}, {"%_a", W_ONE}, {NULL, 0}};
static const struct spelling sp_wdname[] = {{"%a", W_NAME}, {"%A", W_NAME}, {NULL, 0}};
static const struct spelling sp_wdnum[] = {{"%w", W_FIX}, {"%u", W_VAR}, {"%a", W_NAME}, {"%A", W_NAME}, {"%_a", W_ONE}, {NULL, 0}};
static const struct spelling sp_c[] = {{"%c", W_FIX}, {"%-c", W_VAR}, {"%Oc", W_ROMAN}, {NULL, 0}};
static const struct spelling sp_db[] = {{"%db", W_ORD}, {"%dB", W_ORD}, {NULL, 0}};
static const struct spelling sp_F[] = {{"%F", W_FIX}, {NULL, 0}};
static const struct spelling sp_s[] = {{"%s", W_VAR}, {NULL, 0}};
static const struct spelling sp_H[] = {{"%H", W_FIX}, {"%-H", W_VAR}, {"% H", W_SPC}, {NULL, 0}};
static const struct spelling sp_I[] = {{"%I", W_FIX}, {"%-I", W_VAR}, {NULL, 0}};
static const struct spelling sp_M[] = {{"%M", W_FIX}, {"%-M", W_VAR}, {NULL, 0}};
static const struct spelling sp_S[] = {{"%S", W_FIX}, {"%-S", W_VAR}, {NULL, 0}};
static const struct spelling sp_N[] = {{"%N", W_FIX}, {NULL, 0}};
static const struct spelling sp_p[] = {{"%p", W_FIX}, {"%P", W_FIX}, {NULL, 0}};
static const struct spelling sp_T[] = {{"%T", W_FIX}, {NULL, 0}};
static const struct spelling *const spellings[NCOMP] = {
	sp_Y, sp_y2, sp_y1, sp_G, sp_g2, sp_m, sp_d, sp_j, sp_V, sp_U, sp_W, sp_C, sp_wd, sp_wdname, sp_wdnum, sp_c, sp_db, sp_F, sp_s,
	sp_H, sp_I, sp_M, sp_S, sp_N, sp_p, sp_T,
};

/* ---- determining sets ---- */
enum vkind { V_DATE, V_BDATE /* business days only */, V_TIME, V_TIME_M /* seconds == 0 */, V_EPOCH };
struct dset {
	const char *name;
	int n;
	enum comp c[4];
	enum vkind vk;
};
static const struct dset dsets[] = {
	{"ymd", 3, {C_Y, C_m, C_d}, V_DATE},
	{"ymd+weekday name", 4, {C_Y, C_m, C_d, C_wdname}, V_DATE},
	{"yd", 2, {C_Y, C_j}, V_DATE},
	{"ISO week date", 3, {C_G, C_V, C_wd}, V_DATE},
	{"ymcw", 4, {C_Y, C_m, C_c, C_wdnum}, V_DATE},
	{"year+%U+weekday", 3, {C_Y, C_U, C_wd}, V_DATE},
	{"year+%W+weekday", 3, {C_Y, C_W, C_wd}, V_DATE},
	{"year+%C+weekday", 3, {C_Y, C_C, C_wd}, V_DATE},
	{"2-digit year ymd", 3, {C_y2, C_m, C_d}, V_DATE},
	{"1-digit year ymd", 3, {C_y1, C_m, C_d}, V_DATE},
	{"2-digit ISO year week date", 3, {C_g2, C_V, C_wd}, V_DATE},
	{"bizda", 3, {C_Y, C_m, C_db}, V_BDATE},
	{"%F", 1, {C_F}, V_DATE},
	{"epoch", 1, {C_s}, V_EPOCH},
	{"hms", 3, {C_H, C_M, C_S}, V_TIME},
	{"hm", 2, {C_H, C_M}, V_TIME_M},
	{"12h hms", 4, {C_I, C_M, C_S, C_p}, V_TIME},
	{"12h hm", 3, {C_I, C_M, C_p}, V_TIME_M},
	{"%T", 1, {C_T}, V_TIME},
	{"hms+nanoseconds", 4, {C_H, C_M, C_S, C_N}, V_TIME},
};
#define NDSETS	((int)(sizeof(dsets) / sizeof(*dsets)))
#define FIRST_TIME_SET	14

static const char *const dseps[] = {"-", " ", "/", "T", ""};
static const char *const tseps[] = {":", "", " ", "."};
#define NDSEP	5
#define NTSEP	4

static const int perms4[24][4] = {
	{0,1,2,3},{0,1,3,2},{0,2,1,3},{0,2,3,1},{0,3,1,2},{0,3,2,1},{1,0,2,3},{1,0,3,2},{1,2,0,3},{1,2,3,0},{1,3,0,2},{1,3,2,0},
	{2,0,1,3},{2,0,3,1},{2,1,0,3},{2,1,3,0},{2,3,0,1},{2,3,1,0},{3,0,1,2},{3,0,2,1},{3,1,0,2},{3,1,2,0},{3,2,0,1},{3,2,1,0},
};
static int
nperm(int n)
{
	return n == 1 ? 1 : n == 2 ? 2 : n == 3 ? 6 : 24;
}
/* the k-th permutation of n elements (n <= 4), in the order of perms4 restricted to n */
static void
get_perm(int n, int k, int out[4])
{
	int seen = 0;
	for (int i = 0; i < 24; i++) {
		int ok = 1;
		for (int j = n; j < 4; j++) {
			if (perms4[i][j] != j) {
				ok = 0;
			}
		}
		if (ok && seen++ == k) {
			for (int j = 0; j < 4; j++) {
				out[j] = perms4[i][j];
			}
			return;
		}
	}
}

static int
is_time_set(int set)
{
	return set >= 14;
}

/* a format, as coordinates */
struct fmt {
	int set;
	int perm;	/* index into the permutations of n */
	int sp[4];	/* spelling index per component slot (slot = position in the set, not in the order) */
	int sep[3];	/* separator index per gap */
};
static int
nspell(enum comp c)
{
	int n = 0;
	while (spellings[c][n].spec) {
		n++;
	}
	return n;
}
/* four-field sets are not enumerated as a full product (it has 10^6 elements): a format of four fields
 * is enumerated iff its three separators are the same or all its spellings are the plain ones; four-field
 * time formats additionally keep hour, minute, second in this order (the fourth field goes anywhere) */
static int
fmt_enumerated(const struct fmt *f)
{
	const struct dset *s = dsets + f->set;
	int p[4], plain = 1, same;
	if (s->n < 4) {
		return 1;
	}
	same = f->sep[0] == f->sep[1] && f->sep[1] == f->sep[2];
	for (int i = 0; i < 4; i++) {
		plain &= f->sp[i] == 0;
	}
	if (!same && !plain) {
		return 0;
	}
	if (is_time_set(f->set)) {
		int pos[4];
		get_perm(4, f->perm, p);
		for (int i = 0; i < 4; i++) {
			pos[p[i]] = i;
		}
		if (!(pos[0] < pos[1] && pos[1] < pos[2])) {
			return 0;
		}
	}
	return 1;
}

/* render; returns 0 if the format is outside the scope (ambiguous abutting) */
static int
fmt_render(const struct fmt *f, char *buf, size_t bsz)
{
	const struct dset *s = dsets + f->set;
	int p[4];
	size_t k = 0;

	get_perm(s->n, f->perm, p);
	for (int i = 0; i < s->n; i++) {
		const struct spelling *spl = &spellings[s->c[p[i]]][f->sp[p[i]]];
		k += (size_t)snprintf(buf + k, bsz - k, "%s", spl->spec);
		if (i + 1 < s->n) {
			const char *sep = is_time_set(f->set) ? tseps[f->sep[i]] : dseps[f->sep[i]];
			if (*sep == '\0' && (spl->w == W_VAR || spl->w == W_ROMAN)) {
				return 0;
			}
			/* a blank-padded field behind a blank or behind nothing reads ambiguously with what precedes: keep it apart */
			k += (size_t)snprintf(buf + k, bsz - k, "%s", sep);
		}
	}
	return 1;
}
/* number of formats of a set (including the out-of-scope ones, which are skipped and counted) */
static uint64_t
set_size(int set)
{
	const struct dset *s = dsets + set;
	uint64_t n = (uint64_t)nperm(s->n);
	for (int i = 0; i < s->n; i++) {
		n *= (uint64_t)nspell(s->c[i]);
	}
	for (int i = 0; i + 1 < s->n; i++) {
		n *= (uint64_t)(is_time_set(set) ? NTSEP : NDSEP);
	}
	return n;
}
/* canonical order within a set: plain spellings, "-" separators, identity order first */
static void
fmt_from_index(int set, uint64_t idx, struct fmt *f)
{
	const struct dset *s = dsets + set;
	int nsep = is_time_set(set) ? NTSEP : NDSEP;
	memset(f, 0, sizeof(*f));
	f->set = set;
	for (int i = s->n - 2; i >= 0; i--) {
		f->sep[i] = (int)(idx % (uint64_t)nsep);
		idx /= (uint64_t)nsep;
	}
	f->perm = (int)(idx % (uint64_t)nperm(s->n));
	idx /= (uint64_t)nperm(s->n);
	for (int i = s->n - 1; i >= 0; i--) {
		int ns = nspell(s->c[i]);
		f->sp[i] = (int)(idx % (uint64_t)ns);
		idx /= (uint64_t)ns;
	}
}

/* ---- values ---- */
struct win {
	int y0, y1;	/* inclusive years */
};
static const struct win W8[4] = {{1997, 2004}, {1601, 1608}, {4088, 4095}, {1897, 1904}};

static const struct rc_day *cur_day;
static int cur_sec;

static struct dt_dt_s *vc_day, *vc_sec;

static struct dt_dt_s
mk_value(enum vkind vk, const struct rc_day *p, int sec)
{
	char text[64];
	if (vc_day == NULL) {
		vc_day = calloc(RC_NDAYS, sizeof(*vc_day));
		vc_sec = calloc(86400, sizeof(*vc_sec));
	}
	if ((vk == V_DATE || vk == V_BDATE) && vc_day[p->rd].d.typ) {
		return vc_day[p->rd];
	} else if ((vk == V_TIME || vk == V_TIME_M) && vc_sec[sec].t.typ) {
		return vc_sec[sec];
	}
	switch (vk) {
	case V_DATE:
	case V_BDATE:
		snprintf(text, sizeof(text), "%04d-%02d-%02d", p->y, p->m, p->d);
		break;
	case V_EPOCH:
		snprintf(text, sizeof(text), "%04d-%02d-%02dT%02d:%02d:%02d", p->y, p->m, p->d, sec / 3600, sec / 60 % 60, sec % 60);
		break;
	case V_TIME:
	case V_TIME_M:
		snprintf(text, sizeof(text), "%02d:%02d:%02d", sec / 3600, sec / 60 % 60, sec % 60);
		break;
	}
	if (vk == V_DATE || vk == V_BDATE) {
		return vc_day[p->rd] = dt_strpdt(text, NULL, NULL);
	} else if (vk == V_TIME || vk == V_TIME_M) {
		return vc_sec[sec] = dt_strpdt(text, NULL, NULL);
	}
	return dt_strpdt(text, NULL, NULL);
}

/* does v2 denote the reference state?  0 = yes */
enum { RT_OK, RT_REJECT, RT_WRONG, RT_TRAIL, RT_NOTEXT };
static const char *const rkind[] = {"ok", "formatted text is rejected by the parser", "parser returns a different value", "parser does not consume the whole text",
	"formatter prints nothing"};

static int
same_value(enum vkind vk, struct dt_dt_s v2, const struct rc_day *p, int sec)
{
	if (vk == V_TIME || vk == V_TIME_M) {
		return v2.t.typ == DT_HMS && (int)v2.t.hms.h == sec / 3600 && (int)v2.t.hms.m == sec / 60 % 60 && (int)v2.t.hms.s == sec % 60 && v2.t.hms.ns == 0;
	}
	if (vk == V_EPOCH) {
		struct dt_dt_s s = dt_dtconv((dt_dttyp_t)DT_SEXY, v2);
		return s.typ == DT_SEXY && (int64_t)s.sexy == p->unixd * 86400LL + sec;
	}
	if (dt_sandwich_p(v2)) {
		return 0;
	}
	switch (v2.d.typ) {
	case DT_YMD:
		return (int)v2.d.ymd.y == p->y && (int)v2.d.ymd.m == p->m && (int)v2.d.ymd.d == p->d;
	case DT_YD:
		return (int)v2.d.yd.y == p->y && (int)v2.d.yd.d == p->yday;
	default: {
		struct dt_d_s dd = dt_dconv(DT_DAISY, v2.d);
		return dd.typ == DT_DAISY && (int)dd.daisy == p->rd + 1;
	}
	}
}

static int
roundtrip(const char *fs, enum vkind vk, const struct rc_day *p, int sec, char *text, size_t tsz, char *got, size_t gsz)
{
	EX_CTR(c_eval, "evaluations");
	struct dt_dt_s v = mk_value(vk, p, sec), v2;
	char *ep = NULL;
	size_t n;

	*c_eval += 3;
	text[0] = '\0';
	n = dt_strfdt(text, tsz, fs, v);
	if (n == 0 || n >= tsz) {
		return RT_NOTEXT;
	}
	text[n] = '\0';
	v2 = dt_strpdt(text, fs, &ep);
	ex_outcome(ex_hash(text, n));
	if (got) {
		got[0] = '\0';
		if (!dt_unk_p(v2)) {
			dt_strfdt(got, gsz, vk == V_TIME || vk == V_TIME_M ? "%T" : vk == V_EPOCH ? "%FT%T" : "%F", v2);
		}
	}
	if (dt_unk_p(v2)) {
		return RT_REJECT;
	}
	if (!same_value(vk, v2, p, sec)) {
		return RT_WRONG;
	}
	if (ep == NULL || *ep != '\0') {
		return RT_TRAIL;
	}
	return RT_OK;
}

/* ---- minimisation of a failing format (same value, same kind of failure) ---- */
static void
minimise(struct fmt *f, enum vkind vk, const struct rc_day *p, int sec, int kind)
{
	const struct dset *s = dsets + f->set;
	char fs[64], text[128];
	struct fmt t;

	/* separators to the first one */
	for (int i = 0; i + 1 < s->n; i++) {
		if (f->sep[i]) {
			t = *f;
			t.sep[i] = 0;
			if (fmt_render(&t, fs, sizeof(fs)) && roundtrip(fs, vk, p, sec, text, sizeof(text), NULL, 0) == kind) {
				*f = t;
			}
		}
	}
	/* spellings to plain */
	for (int i = 0; i < s->n; i++) {
		if (f->sp[i]) {
			t = *f;
			t.sp[i] = 0;
			if (fmt_render(&t, fs, sizeof(fs)) && roundtrip(fs, vk, p, sec, text, sizeof(text), NULL, 0) == kind) {
				*f = t;
			}
		}
	}
	/* order to the canonical one */
	if (f->perm) {
		t = *f;
		t.perm = 0;
		if (fmt_render(&t, fs, sizeof(fs)) && roundtrip(fs, vk, p, sec, text, sizeof(text), NULL, 0) == kind) {
			*f = t;
		}
	}
}

static int replay_verbose, replay_fails;

/* the class of a failure, from the minimal failing format: the set, the non-plain spellings it needs,
 * the field an empty separator must stand in front of, whether the order matters -- not the format itself,
 * so that one defect seen in every arrangement of the other fields is one class */
static void
fmt_key(const struct fmt *f, const char *kind, char *key, size_t ksz)
{
	const struct dset *s = dsets + f->set;
	const char *sps[4];
	int nsp = 0, p[4];
	size_t k;
	/* (an order that only serves to make two fields neighbours is described by the missing separator) */

	for (int i = 0; i < s->n; i++) {
		if (f->sp[i]) {
			sps[nsp++] = spellings[s->c[i]][f->sp[i]].spec;
		}
	}
	for (int i = 0; i < nsp; i++) {
		for (int j = i + 1; j < nsp; j++) {
			if (strcmp(sps[j], sps[i]) < 0) {
				const char *t = sps[i];
				sps[i] = sps[j];
				sps[j] = t;
			}
		}
	}
	k = (size_t)snprintf(key, ksz, "roundtrip %s: %s; minimal failing format has spellings {", s->name, kind);
	for (int i = 0; i < nsp; i++) {
		k += (size_t)snprintf(key + k, ksz - k, "%s%s", i ? " " : "", sps[i]);
	}
	k += (size_t)snprintf(key + k, ksz - k, "}");
	int adjacency = 0;
	get_perm(s->n, f->perm, p);
	for (int i = 0; i + 1 < s->n; i++) {
		const char *sep = is_time_set(f->set) ? tseps[f->sep[i]] : dseps[f->sep[i]];
		if (f->sep[i] && *sep == '\0') {
			adjacency = 1;
			k += (size_t)snprintf(key + k, ksz - k, ", no separator between %s and %s", spellings[s->c[p[i]]][f->sp[p[i]]].spec,
					      spellings[s->c[p[i + 1]]][f->sp[p[i + 1]]].spec);
		} else if (f->sep[i]) {
			k += (size_t)snprintf(key + k, ksz - k, ", separator '%s'", sep);
		}
	}
	if (f->perm && !adjacency) {
		int named = 0;
		/* the order matters: name the first field */
		k += (size_t)snprintf(key + k, ksz - k, ", order");
		for (int i = 0; i < s->n; i++) {
			k += (size_t)snprintf(key + k, ksz - k, " %s", spellings[s->c[p[i]]][f->sp[p[i]]].spec);
			named++;
		}
		(void)named;
	}
}

/* info/format.texi: "%w The weekday as number (range 00 to 06, Sunday being 00)"; the formatter prints 07 for a
 * Sunday, so the documented spelling is produced here: the text of the format with 00 in the place of %w */
static void
judge_sunday00(const char *fs, const struct dset *s, int set, uint64_t idx, const struct rc_day *p)
{
	EX_CTR(c_trans, "transitions");
	EX_CTR(c_alt, "sunday_as_00_cases");
	char fa[64], text[128], got[64] = "", key[256], cas[96], cmd[300];
	const char *w = strstr(fs, "%w");
	struct dt_dt_s v, v2;
	char *ep = NULL, *m;
	const char *why = NULL;
	size_t n;

	if (w == NULL || p->wd != 7) {
		return;
	}
	snprintf(fa, sizeof(fa), "%.*s\002%s", (int)(w - fs), fs, w + 2);
	v = mk_value(V_DATE, p, 0);
	n = dt_strfdt(text, sizeof(text) - 2, fa, v);
	if (n == 0 || (m = strchr(text, '\002')) == NULL) {
		return;
	}
	text[n] = '\0';
	memmove(m + 2, m + 1, strlen(m + 1) + 1);
	m[0] = m[1] = '0';
	++*c_trans;
	++*c_alt;
	v2 = dt_strpdt(text, fs, &ep);
	if (dt_unk_p(v2)) {
		why = "text is rejected by the parser";
	} else {
		dt_strfdt(got, sizeof(got), "%F %a", v2);
		if (!same_value(V_DATE, v2, p, 0)) {
			why = "parser returns a different value";
		} else if (v2.d.typ == DT_YMCW ? v2.d.ymcw.w == 0 : v2.d.typ == DT_YWD ? v2.d.ywd.w == 0 : 0) {
			why = "parser returns a value whose weekday is 0 (prints as Mir)";
		}
	}
	if (why) {
		snprintf(key, sizeof(key), "documented spelling 00 of Sunday for %%w, %s: %s", s->name, why);
		snprintf(cas, sizeof(cas), "R %d %llu %d -7", set, (unsigned long long)idx, p->rd);
		snprintf(cmd, sizeof(cmd), "dconv -i '%s' -f '%%F %%a' '%s'", fs, text);
		ex_viol(key, (double)p->rd, cas, cmd, "format '%s': '%s' (Sunday %04d-%02d-%02d with %%w spelled 00): %s%s%s", fs, text, p->y, p->m, p->d, why,
			got[0] ? ", reads back as " : "", got);
		if (replay_verbose) {
			printf("  VIOLATION [%s] '%s' under '%s': %s %s\n", key, text, fs, why, got);
			replay_fails++;
		}
	} else if (replay_verbose) {
		printf("  '%s' under '%s' reads back as %s\n", text, fs, got);
	}
}

/* all values of the tier for one format; returns the number of failing values */
static uint64_t
run_format(int set, uint64_t idx, int only_rd, int only_sec)
{
	EX_CTR(c_trans, "transitions");
	EX_CTR(c_nontriv, "nontrivial");
	EX_CTR(c_skip_amb, "skipped:format outside the scope (empty separator behind a variable-width or Roman field)");
	EX_CTR(c_skip_bd, "skipped:weekend day has no business-day name");
	EX_CTR(c_fmts, "formats");
	EX_CTR(c_skip_rom, "skipped:two-digit year 00 has no Roman numeral");
	int roman_y2 = 0;
	const struct dset *s = dsets + set;
	struct fmt f, fmin[5];
	int have_min[5] = {0};
	char fs[64], text[128], got[64], key[256], cas[96], cmd[256], fmins[64];
	uint64_t bad = 0;
	int nwin, nontriv = 0;
	enum vkind vk = s->vk;

	fmt_from_index(set, idx, &f);
	if (!fmt_enumerated(&f)) {
		EX_CTR(c_notenum, "four_field_coordinates_outside_the_enumeration_rule");
		++*c_notenum;
		return 0;
	}
	if (!fmt_render(&f, fs, sizeof(fs))) {
		++*c_skip_amb;
		return 0;
	}
	++*c_fmts;
	for (int i = 0; i < s->n; i++) {
		nontriv |= f.sp[i] != 0;
		roman_y2 |= s->c[i] == C_y2 && f.sp[i] == 1;
	}
	nontriv |= f.perm != 0;
	if (nontriv) {
		++*c_nontriv;
	}
	nwin = ex.thorough ? 4 : 1;
	if (replay_verbose) {
		printf("  format '%s' (%s)\n", fs, s->name);
	}

#define JUDGE(P, SEC)	do { \
		int k_; \
		if (roman_y2 && (P)->y % 100 == 0) { \
			++*c_skip_rom; \
			break; \
		} \
		k_ = roundtrip(fs, vk, (P), (SEC), text, sizeof(text), got, sizeof(got)); \
		++*c_trans; \
		if (k_ != RT_OK) { \
			bad++; \
			if (!have_min[k_]) { \
				fmin[k_] = f; \
				minimise(&fmin[k_], vk, (P), (SEC), k_); \
				have_min[k_] = 1; \
			} \
			fmt_render(&fmin[k_], fmins, sizeof(fmins)); \
			fmt_key(&fmin[k_], rkind[k_], key, sizeof(key)); \
			snprintf(cas, sizeof(cas), "R %d %llu %d %d", set, (unsigned long long)idx, (P)->rd, (SEC)); \
			if (vk == V_TIME || vk == V_TIME_M) { \
				snprintf(cmd, sizeof(cmd), "dconv -f '%s' %02d:%02d:%02d | dconv -i '%s'", fs, (SEC) / 3600, (SEC) / 60 % 60, (SEC) % 60, fs); \
			} else if (vk == V_EPOCH) { \
				snprintf(cmd, sizeof(cmd), "dconv -f '%s' %04d-%02d-%02dT%02d:%02d:%02d | dconv -i '%s'", fs, (P)->y, (P)->m, (P)->d, (SEC) / 3600, (SEC) / 60 % 60, (SEC) % 60, fs); \
			} else { \
				snprintf(cmd, sizeof(cmd), "dconv -f '%s' %04d-%02d-%02d | dconv -i '%s'", fs, (P)->y, (P)->m, (P)->d, fs); \
			} \
			ex_viol(key, vk == V_TIME || vk == V_TIME_M ? (double)(SEC) : (double)(P)->rd + (double)(SEC) / 86400.0, cas, cmd, \
				"format '%s' (%s): value %04d-%02d-%02d %02d:%02d:%02d prints as '%s'; %s%s%s%s", fs, s->name, (P)->y, (P)->m, (P)->d, \
				(SEC) / 3600, (SEC) / 60 % 60, (SEC) % 60, text, rkind[k_], got[0] ? " (reads back as " : "", got, got[0] ? ")" : ""); \
			if (replay_verbose) { \
				printf("  VIOLATION %04d-%02d-%02d %02d:%02d:%02d prints as '%s'; %s%s%s\n", (P)->y, (P)->m, (P)->d, (SEC) / 3600, (SEC) / 60 % 60, (SEC) % 60, text, \
				       rkind[k_], got[0] ? ", reads back as " : "", got); \
				replay_fails++; \
			} \
		} else if (replay_verbose) { \
			printf("  %04d-%02d-%02d %02d:%02d:%02d prints as '%s' and reads back\n", (P)->y, (P)->m, (P)->d, (SEC) / 3600, (SEC) / 60 % 60, (SEC) % 60, text); \
		} \
	} while (0)

	if (only_rd >= 0) {
		const struct rc_day *p = rc_get(only_rd);
		struct dt_dt_s b = dt_strpdt("2000-01-01T00:00:00", NULL, NULL);
		char bt[32];
		/* the base of the window the day belongs to */
		for (int w = 0; w < 4; w++) {
			if (p->y >= W8[w].y0 && p->y <= W8[w].y1) {
				snprintf(bt, sizeof(bt), "%04d-01-01T00:00:00", W8[w].y0);
				b = dt_strpdt(bt, NULL, NULL);
			}
		}
		dt_set_base(b);
		if (only_sec == -7) {
			judge_sunday00(fs, s, set, idx, p);
			return bad;
		}
		JUDGE(p, only_sec);
		return bad;
	}
	if (vk == V_TIME || vk == V_TIME_M) {
		const struct rc_day *p = rc_get(rc_yearstart[2012] + 63);
		for (int sec = 0; sec < 86400; sec += vk == V_TIME_M ? 60 : 1) {
			JUDGE(p, sec);
		}
	} else {
		for (int w = 0; w < nwin; w++) {
			char bt[32];
			int ya = W8[w].y0, yb = W8[w].y1;
			/* quick tier: four-field formats over the leap year 2000 only */
			if (!ex.thorough && s->n == 4) {
				ya = yb = 2000;
			}
			/* two- and one-digit years are read relative to the base (dconv --base): the window's first year */
			snprintf(bt, sizeof(bt), "%04d-01-01T00:00:00", W8[w].y0);
			dt_set_base(dt_strpdt(bt, NULL, NULL));
			for (int rd = rc_yearstart[ya]; rd < rc_yearstart[yb + 1]; rd++) {
				const struct rc_day *p = rc_get(rd);
				if (vk == V_BDATE && !p->isbd) {
					++*c_skip_bd;
					continue;
				}
				if (vk == V_EPOCH) {
					static const int T7[7] = {0, 1, 3599, 3600, 43199, 43200, 86399};
					for (int t = 0; t < 7; t++) {
						JUDGE(p, T7[t]);
					}
				} else {
					uint64_t before = bad;
					JUDGE(p, 0);
					if (bad == before && vk == V_DATE && p->wd == 7) {
						judge_sunday00(fs, s, set, idx, p);
					}
				}
			}
		}
	}
	if (ex_want_sample()) {
		ex_sample("format '%s' (%s): %llu failing values", fs, s->name, (unsigned long long)bad);
	}
	(void)cur_day;
	(void)cur_sec;
	return bad;
}

/* ---- default outputs through the format-less parser ---- */
static const struct { const char *name; const char *fmt; int bdonly; } dflts[] = {
	{"ymd", "ymd", 0}, {"ymcw", "ymcw", 0}, {"ywd", "ywd", 0}, {"yd", "yd", 0}, {"bizda", "bizda", 1},
};
#define NDFLT	5

static void
run_defaults(int y0, int y1, int only_k, int only_rd, int only_sec)
{
	EX_CTR(c_trans, "transitions");
	EX_CTR(c_eval, "evaluations");
	EX_CTR(c_dflt, "default_output_cases");
	static const int T3[3] = {-1, 0, 45296};	/* date only, midnight, 12:34:56 */
	char src[64], text[96], key[200], cas[64], cmd[200], got[64];

	for (int rd = rc_yearstart[y0]; rd < rc_yearstart[y1 + 1]; rd++) {
		const struct rc_day *p = rc_get(rd);
		if (only_rd >= 0 && rd != only_rd) {
			continue;
		}
		for (int k = 0; k < NDFLT; k++) {
			if ((only_k >= 0 && k != only_k) || (dflts[k].bdonly && !p->isbd)) {
				continue;
			}
			for (int t = 0; t < 3; t++) {
				struct dt_dt_s v, v2;
				char *ep = NULL;
				size_t n;
				int sec = T3[t], bad = 0;
				const char *why = "";

				if (only_rd >= 0 && sec != only_sec) {
					continue;
				}
				if (sec < 0) {
					snprintf(src, sizeof(src), "%04d-%02d-%02d", p->y, p->m, p->d);
				} else {
					snprintf(src, sizeof(src), "%04d-%02d-%02dT%02d:%02d:%02d", p->y, p->m, p->d, sec / 3600, sec / 60 % 60, sec % 60);
				}
				v = dt_strpdt(src, NULL, NULL);
				n = dt_strfdt(text, sizeof(text), dflts[k].fmt, v);
				*c_eval += 3;
				++*c_trans;
				++*c_dflt;
				if (n == 0 || n >= sizeof(text)) {
					continue;	/* nothing printed: not this property's business */
				}
				v2 = dt_strpdt(text, NULL, &ep);
				got[0] = '\0';
				if (dt_unk_p(v2)) {
					bad = 1;
					why = "the format-less parser rejects it";
				} else {
					struct dt_dt_s c = dt_dtconv((dt_dttyp_t)DT_DAISY, v2);
					dt_strfdt(got, sizeof(got), sec < 0 ? "%F" : "%FT%T", v2);
					if ((int)c.d.daisy != p->rd + 1) {
						bad = 1;
						why = "the format-less parser returns a different day";
					} else if (sec >= 0 && !dt_sandwich_p(v2)) {
						bad = 1;
						why = "the time of day is not in the text (reads back as a date)";
					} else if (sec >= 0 && !((int)v2.t.hms.h == sec / 3600 && (int)v2.t.hms.m == sec / 60 % 60 && (int)v2.t.hms.s == sec % 60)) {
						bad = 1;
						why = "the format-less parser returns a different time";
					} else if (ep == NULL || *ep != '\0') {
						bad = 1;
						why = "the format-less parser does not consume the whole text";
					}
				}
				if (bad) {
					snprintf(key, sizeof(key), "default output of %s%s: %s", dflts[k].name, sec < 0 ? "" : " with time", why);
					snprintf(cas, sizeof(cas), "D %d %d %d", k, rd, sec);
					snprintf(cmd, sizeof(cmd), "dconv -f %s %s | dconv", dflts[k].name, src);
					ex_viol(key, (double)rd, cas, cmd, "%s printed as %s is '%s'; %s%s%s", src, dflts[k].name, text, why, got[0] ? ", reads back as " : "", got);
					if (replay_verbose) {
						printf("  VIOLATION %s printed as %s is '%s'; %s\n", src, dflts[k].name, text, why);
						replay_fails++;
					}
				} else if (replay_verbose) {
					printf("  %s printed as %s is '%s' and reads back\n", src, dflts[k].name, text);
				}
			}
		}
	}
}

/* ---- locales ---- */
#define MAXLOC	400
struct loc {
	char name[32];
	char *n[4][13];	/* abbr wday, long wday (1..7), abbr mon, long mon (1..12) */
};
static struct loc *locs;
static int nlocs;

static void
load_locales(void)
{
	char fn[600], *line = NULL;
	size_t cap = 0;
	FILE *f;
	int st = 0;

	snprintf(fn, sizeof(fn), "%s/data/locale", ex.tree ? ex.tree : VERIF_TREE);
	setenv("LOCALE_FILE", fn, 1);
	if ((f = fopen(fn, "r")) == NULL) {
		fprintf(stderr, "c09: cannot open %s\n", fn);
		exit(3);
	}
	locs = calloc(MAXLOC, sizeof(*locs));
	while (getline(&line, &cap, f) > 0 && nlocs < MAXLOC) {
		line[strcspn(line, "\n")] = '\0';
		if (st == 0) {
			snprintf(locs[nlocs].name, sizeof(locs[nlocs].name), "%s", line);
			st = 1;
		} else {
			int k = 1;
			char *p = line;
			while (p && k <= 12) {
				char *t = strchr(p, '\t');
				if (t) {
					*t = '\0';
				}
				locs[nlocs].n[st - 1][k++] = strdup(p);
				p = t ? t + 1 : NULL;
			}
			if (++st == 5) {
				st = 0;
				nlocs++;
			}
		}
	}
	free(line);
	fclose(f);
}
/* name k of the array is read correctly iff no earlier name is a (case-insensitive) prefix of it and it is not empty */
static int
name_ok(char *const *arr, int cnt, int k)
{
	if (arr[k] == NULL || arr[k][0] == '\0') {
		return 0;
	}
	for (int j = 1; j < k && j <= cnt; j++) {
		if (arr[j] && arr[j][0] && strncasecmp(arr[j], arr[k], strlen(arr[j])) == 0) {
			return 0;
		}
	}
	/* a later identical name is harmless, an earlier one was caught above */
	return 1;
}

static void
run_locale(int li, int only_a, int only_k)
{
	EX_CTR(c_trans, "transitions");
	EX_CTR(c_eval, "evaluations");
	EX_CTR(c_loc, "locale_name_cases");
	EX_CTR(c_skip, "skipped:locale name that an earlier name of the same table is a prefix of (or empty)");
	static const char *const fm[4] = {"%G-W%V-%a", "%G-W%V %A", "%d %b %Y", "%d %B %Y"};
	static const char *const sp[4] = {"%a", "%A", "%b", "%B"};
	struct loc *L = locs + li;
	char src[32], text[200], key[200], cas[64], cmd[300], got[32];

	if (setflocale(L->name) < 0 || setilocale(L->name) < 0) {
		snprintf(key, sizeof(key), "locale: shipped locale cannot be selected");
		snprintf(cas, sizeof(cas), "L %d -1 -1", li);
		ex_viol(key, (double)li, cas, NULL, "setflocale/setilocale(\"%s\") fails", L->name);
		return;
	}
	for (int a = 0; a < 4; a++) {
		int cnt = a < 2 ? 7 : 12;
		for (int k = 1; k <= cnt; k++) {
			struct dt_dt_s v, v2;
			char *ep = NULL;
			size_t n;
			const char *why = NULL;

			if ((only_a >= 0 && (a != only_a || k != only_k))) {
				continue;
			}
			if (!name_ok(L->n[a], cnt, k)) {
				++*c_skip;
				continue;
			}
			if (a < 2) {
				snprintf(src, sizeof(src), "2012-03-%02d", 4 + k);	/* 2012-03-05 is a Monday */
			} else {
				snprintf(src, sizeof(src), "2012-%02d-15", k);
			}
			v = dt_strpdt(src, NULL, NULL);
			n = dt_strfdt(text, sizeof(text), fm[a], v);
			*c_eval += 3;
			++*c_trans;
			++*c_loc;
			text[n < sizeof(text) ? n : sizeof(text) - 1] = '\0';
			if (strstr(text, L->n[a][k]) == NULL) {
				why = "the formatter does not print the locale's name";
			} else {
				v2 = dt_strpdt(text, fm[a], &ep);
				got[0] = '\0';
				if (dt_unk_p(v2)) {
					why = "formatted text is rejected by the parser";
				} else {
					dt_strfdt(got, sizeof(got), "%F", dt_dtconv((dt_dttyp_t)DT_YMD, v2));
					if (strcmp(got, src)) {
						why = "parser returns a different value";
					} else if (ep == NULL || *ep) {
						why = "parser does not consume the whole text";
					}
				}
			}
			if (why) {
				snprintf(key, sizeof(key), "locale names %s: %s", sp[a], why);
				snprintf(cas, sizeof(cas), "L %d %d %d", li, a, k);
				snprintf(cmd, sizeof(cmd), "dconv --locale %s -f '%s' %s | dconv --from-locale %s -i '%s'", L->name, fm[a], src, L->name, fm[a]);
				ex_viol(key, (double)li, cas, cmd, "locale %s, %s of %s: printed '%s'; %s", L->name, sp[a], src, text, why);
				if (replay_verbose) {
					printf("  VIOLATION locale %s, %s of %s: printed '%s'; %s\n", L->name, sp[a], src, text, why);
					replay_fails++;
				}
			} else if (replay_verbose) {
				printf("  locale %s, %s of %s: printed '%s' and reads back\n", L->name, sp[a], src, text);
			}
		}
	}
	setflocale(NULL);
	setilocale(NULL);
}

/* ---- binding: the dconv binary, print then parse ---- */
static void
run_binding(int set, uint64_t idx, int bk)
{
	EX_CTR(c_bind, "cli_binding_replays");
	EX_CTR(c_bindln, "cli_binding_lines");
	const char *rundir = getenv("VERIF_RUNDIR");
	const struct dset *s = dsets + set;
	struct fmt f;
	char fs[64], fin[600], fmid[600], fout[600], cmd[2400], line[256], text[128], key[256], cas[64];
	FILE *fi, *fm, *fo;
	int y0 = W8[0].y0, y1 = W8[0].y1, nl = 0, argmode, by = W8[0].y0;

	fmt_from_index(set, idx, &f);
	if (rundir == NULL || ex.tree == NULL || !fmt_render(&f, fs, sizeof(fs)) || s->vk != V_DATE) {
		return;
	}
	/* stdin lines need a needle the search can find from the start of the line: fixed-width first field; else arguments */
	{
		int p[4];
		get_perm(s->n, f.perm, p);
		argmode = spellings[s->c[p[0]]][f.sp[p[0]]].w != W_FIX;
	}
	snprintf(fin, sizeof(fin), "%s/c09b.%d.in", rundir, bk);
	snprintf(fmid, sizeof(fmid), "%s/c09b.%d.mid", rundir, bk);
	snprintf(fout, sizeof(fout), "%s/c09b.%d.out", rundir, bk);
	if ((fi = fopen(fin, "w")) == NULL) {
		return;
	}
	if (argmode) {
		/* one process per text: the leap year 2000 only */
		y0 = y1 = 2000;
	}
	for (int rd = rc_yearstart[y0]; rd < rc_yearstart[y1 + 1]; rd++) {
		const struct rc_day *p = rc_get(rd);
		fprintf(fi, "%04d-%02d-%02d\n", p->y, p->m, p->d);
	}
	fclose(fi);
	/* every printed text is followed by a marker line so that rejected lines keep the files aligned */
	snprintf(cmd, sizeof(cmd), "LOCALE_FILE='%s/data/locale' '%s/src/dconv' --base %04d-01-01 -f '%s' < '%s' > '%s' 2>/dev/null", ex.tree, ex.tree, by, fs, fin, fmid);
	if (system(cmd) != 0) {
		/* exit status 2 only says some line needed attention */
	}
	if (argmode) {
		snprintf(cmd, sizeof(cmd), "while IFS= read -r l; do '%s/src/dconv' --base %04d-01-01 -i '%s' -f '%%F' -- \"$l\" 2>/dev/null || echo REJECTED; done < '%s' > '%s'",
			 ex.tree, by, fs, fmid, fout);
	} else {
		snprintf(cmd, sizeof(cmd), "'%s/src/dconv' --base %04d-01-01 -i '%s' -f '%%F' -E -q < '%s' > '%s' 2>/dev/null", ex.tree, by, fs, fmid, fout);
	}
	if (system(cmd) != 0) {
		;
	}
	++*c_bind;
	snprintf(key, sizeof(key), "binding dconv -f F | dconv -i F (%s)", argmode ? "text as argument" : "text as stdin line");
	fm = fopen(fmid, "r");
	fo = fopen(fout, "r");
	if (fm == NULL || fo == NULL) {
		ex_viol(key, 0, "", cmd, "no output from the binaries for format '%s'", fs);
		return;
	}
	{
		char bt[32];
		snprintf(bt, sizeof(bt), "%04d-01-01T00:00:00", by);
		dt_set_base(dt_strpdt(bt, NULL, NULL));
	}
	for (int rd = rc_yearstart[y0]; rd < rc_yearstart[y1 + 1]; rd++) {
		const struct rc_day *p = rc_get(rd);
		char mid[256] = "", out[256] = "", exp[32], lib[64];
		int lk;
		if (fgets(mid, sizeof(mid), fm)) {
			mid[strcspn(mid, "\n")] = '\0';
		}
		if (fgets(out, sizeof(out), fo)) {
			out[strcspn(out, "\n")] = '\0';
		}
		nl++;
		++*c_bindln;
		/* what the library-level exploration observes for the same case */
		lk = roundtrip(fs, V_DATE, p, 0, text, sizeof(text), lib, sizeof(lib));
		snprintf(exp, sizeof(exp), "%04d-%02d-%02d", p->y, p->m, p->d);
		snprintf(cas, sizeof(cas), "B %d %llu %d", set, (unsigned long long)idx, rd);
		if (strcmp(mid, text)) {
			ex_viol(key, (double)rd, cas, NULL, "format '%s', day %s: binary prints '%s', library prints '%s'", fs, exp, mid, text);
		} else if ((lk == RT_OK || lk == RT_TRAIL) != (strcmp(out, exp) == 0)) {
			ex_viol(key, (double)rd, cas, NULL, "format '%s', day %s printed as '%s': binary reads back '%s', library-level outcome: %s (%s)", fs, exp, mid, out,
				rkind[lk], lib);
		}
	}
	fclose(fm);
	fclose(fo);
	unlink(fin);
	unlink(fmid);
	unlink(fout);
	(void)line;
	(void)nl;
}

/* ---- stdin binding: whole lines through the needle search of the dconv binary ----
 * One dconv process per format (plain stream mode: no -E, which would bypass the needle search, no -S).
 * Lines: for every value the formatted text alone and embedded as "foo <text> bar".  The result of every
 * line is reconstructed exactly: stderr names the rejected lines (in input order), stdout holds the
 * accepted ones in order -- a rejected line cannot shift the comparison.  Expected: the library-level
 * outcome of dt_strpdt(text, F); only lines whose text round-trips at library level are judged. */
static int
stdin_reduced(const struct fmt *f)
{
	/* quick tier: everything behind the first non-empty separator is plain (the needle and its offset
	 * window depend only on the specifiers in front of the first literal) */
	const struct dset *s = dsets + f->set;
	int p[4], behind = 0;
	get_perm(s->n, f->perm, p);
	for (int i = 0; i < s->n; i++) {
		if (behind && f->sp[p[i]]) {
			return 0;
		}
		if (i + 1 < s->n) {
			const char *sep = is_time_set(f->set) ? tseps[f->sep[i]] : dseps[f->sep[i]];
			if (behind && f->sep[i]) {
				return 0;
			}
			if (*sep) {
				behind = 1;
			}
		}
	}
	return 1;
}
static void
leading_label(const struct fmt *f, char *buf, size_t bsz)
{
	const struct dset *s = dsets + f->set;
	int p[4];
	size_t k = 0;
	get_perm(s->n, f->perm, p);
	buf[0] = '\0';
	for (int i = 0; i < s->n; i++) {
		k += (size_t)snprintf(buf + k, bsz - k, "%s", spellings[s->c[p[i]]][f->sp[p[i]]].spec);
		if (i + 1 < s->n) {
			const char *sep = is_time_set(f->set) ? tseps[f->sep[i]] : dseps[f->sep[i]];
			if (*sep) {
				snprintf(buf + k, bsz - k, " then '%s'", sep);
				return;
			}
		}
	}
	snprintf(buf + k, bsz - k, " (no literal at all)");
}


/* in scope for the stdin leg (observe_at: "formats starting with a fixed-width field"): the needle search
 * finds a value by a literal of the format and an offset window computed from the fields in front of it
 * (calc_grep_atom), so the reading is: every field in front of the first literal is fixed-width numeric
 * (incl. formats of such fields only), or the format starts with a month/weekday name directly followed by a
 * literal (names have needle classes of their own), or fixed-width numeric fields followed by name fields
 * (%d%b%Y, %Y%m%d%_a: whole-line values that parse as argument).  Runs with Roman numerals, variable-width,
 * or suffixed fields in front of the first literal are outside (skipped, counted); blank-padded fields behind a
 * fixed-width first field and %db/%dB directly followed by a literal are inside.  %s or a Roman numeral in
 * front: only a silently different value is judged. */
static int
stdin_in_scope(const struct fmt *f)
{
	const struct dset *s = dsets + f->set;
	int p[4], names = 0;
	get_perm(s->n, f->perm, p);
	for (int i = 0; i < s->n; i++) {
		const struct spelling *spl = &spellings[s->c[p[i]]][f->sp[p[i]]];
		enum wkind w = spl->w;
		const char *sep = i + 1 < s->n ? (is_time_set(f->set) ? tseps[f->sep[i]] : dseps[f->sep[i]]) : "";
		if (i == 0 && s->c[p[0]] == C_s && !strcmp(spl->spec, "%s")) {
			/* epoch seconds: variable width, so a refused line is not judged, a silently different value is */
			return 2;
		}
		if (i == 0 && s->c[p[0]] == C_db && *sep) {
			/* %db / %dB: two digits and the suffix letter, then a literal */
			return 1;
		}
		if (i == 0 && w == W_ROMAN && *sep) {
			/* a Roman numeral is not fixed-width: a refused line is not judged, a silently different value is */
			return 2;
		}
		if (w == W_NAME && i == 0 && *sep) {
			return 1;
		} else if ((w == W_NAME || w == W_ONE) && i > 0) {
			/* a name behind fixed-width fields (29Feb2024, 20240229R): works as argument, whole-line value */
			names++;
		} else if (w == W_SPC && i > 0) {
			/* blank-padded fields in a run that starts with a fixed-width field (2012 3 1 under %Y% m% d) */
			names++;
		} else if (w != W_FIX) {
			return 0;
		}
		if (*sep) {
			return 1;
		}
	}
	(void)names;
	return 1;
}

/* one line through the binary: 0 converted to EXP, 1 refused, 2 neither, 3 different value, -1 not applicable */
static int
cli_line_outcome(const struct fmt *f, enum vkind vk, const struct rc_day *p, int sec, int shape, const char *ofmt, const char *exp)
{
	char fs[64], text[128], cmd[1200], out[256] = "";
	FILE *pp;
	int k;
	if (!fmt_enumerated(f) || !fmt_render(f, fs, sizeof(fs)) || !stdin_in_scope(f)) {
		return -1;
	}
	k = roundtrip(fs, vk, p, sec, text, sizeof(text), NULL, 0);
	if (k != RT_OK && k != RT_TRAIL) {
		return -1;
	}
	snprintf(cmd, sizeof(cmd), "printf '%%s\\n' '%s%s%s' | LOCALE_FILE='%s/data/locale' '%s/src/dconv' --base %04d-01-01 -i '%s' -f '%s' 2>&1",
		 shape ? "foo " : "", text, shape ? " bar" : "", ex.tree, ex.tree, W8[0].y0, fs, ofmt);
	if ((pp = popen(cmd, "r")) == NULL) {
		return -1;
	}
	if (fgets(out, sizeof(out), pp) == NULL) {
		out[0] = '\0';
	}
	pclose(pp);
	out[strcspn(out, "\n")] = '\0';
	if (out[0] == '\0') {
		return 2;
	} else if (strstr(out, "cannot make sense of")) {
		return 1;
	}
	return strcmp(out, exp) ? 3 : 0;
}

static void
stdin_minimise(struct fmt *f, enum vkind vk, const struct rc_day *p, int sec, int shape, const char *ofmt, const char *exp, int kind)
{
	const struct dset *s = dsets + f->set;
	struct fmt t;
	for (int i = 0; i + 1 < s->n; i++) {
		if (f->sep[i]) {
			t = *f;
			t.sep[i] = 0;
			if (cli_line_outcome(&t, vk, p, sec, shape, ofmt, exp) == kind) {
				*f = t;
			}
		}
	}
	for (int i = 0; i < s->n; i++) {
		if (f->sp[i]) {
			t = *f;
			t.sp[i] = 0;
			if (cli_line_outcome(&t, vk, p, sec, shape, ofmt, exp) == kind) {
				*f = t;
			}
		}
	}
	if (f->perm) {
		t = *f;
		t.perm = 0;
		if (cli_line_outcome(&t, vk, p, sec, shape, ofmt, exp) == kind) {
			*f = t;
		}
	}
}

/* does the run in front of the first literal hold a name behind a fixed-width field?  then the class is named
 * by the kind of name and the width of the field in front of it, not by the whole run */
static int
name_in_run(const struct fmt *f, char *buf, size_t bsz)
{
	const struct dset *s = dsets + f->set;
	int p[4];
	get_perm(s->n, f->perm, p);
	for (int i = 0; i < s->n; i++) {
		const struct spelling *spl = &spellings[s->c[p[i]]][f->sp[p[i]]];
		const char *sep = i + 1 < s->n ? (is_time_set(f->set) ? tseps[f->sep[i]] : dseps[f->sep[i]]) : "";
		if (i > 0 && spl->w == W_SPC) {
			snprintf(buf, bsz, "<fixed-width run with a blank-padded field %s%s>", spl->spec, *sep ? "" : ", no literal behind it");
			return 1;
		}
		if (i > 0 && (spl->w == W_NAME || spl->w == W_ONE)) {
			const char *prev = spellings[s->c[p[i - 1]]][f->sp[p[i - 1]]].spec;
			const char *wd = !strcmp(prev, "%Y") || !strcmp(prev, "%G") ? "4-digit" : !strcmp(prev, "%j") || !strcmp(prev, "%D") ? "3-digit" :
				!strcmp(prev, "%_y") ? "1-digit" : !strcmp(prev, "%N") ? "9-digit" : prev[1] == '_' || (prev[1] >= 'a' && prev[1] <= 'b') ||
				prev[1] == 'A' || prev[1] == 'B' || prev[1] == 'h' ? "name" : "2-digit";
			snprintf(buf, bsz, "<fixed-width run with a %s behind a %s field, no separator>", spl->w == W_ONE ? "one-letter name" :
				 s->c[p[i]] == C_m ? "month name" : "weekday name", wd);
			return 1;
		}
		if (*sep) {
			break;
		}
	}
	return 0;
}

#define SB_MAXV	1500
static void
run_stdin_binding(int set, uint64_t idx, int only_v, int only_shape)
{
	EX_CTR(c_sb, "stdin_binding_formats");
	EX_CTR(c_sbl, "stdin_binding_lines");
	EX_CTR(c_sbj, "stdin_binding_lines_judged");
	EX_CTR(c_sbskip, "skipped:stdin line whose text does not round-trip at library level (judged there)");
	const char *rundir = getenv("VERIF_RUNDIR");
	const struct dset *s = dsets + set;
	enum vkind vk = s->vk;
	struct fmt f;
	char fs[64], fin[600], fout[600], ferr[600], cmd[2600], key[320], cas[96], lead[96];
	static char texts[SB_MAXV][96];
	static int lk[SB_MAXV], vrd[SB_MAXV], vsec[SB_MAXV];
	static char exps[SB_MAXV][32];
	int nv = 0;
	FILE *fi, *fo, *fe;
	const char *ofmt = (vk == V_TIME || vk == V_TIME_M) ? "%T" : vk == V_EPOCH ? "%FT%T" : "%F";
	char rej[256] = "", out[256], fmins[64];
	int have_rej = 0, scope;
	struct fmt fmin[2][4];
	int have_min[2][4] = {{0}};

	fmt_from_index(set, idx, &f);
	if (rundir == NULL || ex.tree == NULL || !fmt_render(&f, fs, sizeof(fs))) {
		return;
	}
	++*c_sb;
	scope = stdin_in_scope(&f);
	leading_label(&f, lead, sizeof(lead));
	{
		char bt[32];
		snprintf(bt, sizeof(bt), "%04d-01-01T00:00:00", W8[0].y0);
		dt_set_base(dt_strpdt(bt, NULL, NULL));
	}
	/* values: every day of the leap year 2000 / the boundaries of the seconds of a day */
	if (vk == V_TIME || vk == V_TIME_M) {
		static const int ms[] = {0, 1, 9, 10, 59};
		const struct rc_day *p = rc_get(rc_yearstart[2012] + 63);
		for (int h = 0; h < 24; h++) {
			for (int m = 0; m < 5; m++) {
				for (int q = 0; q < (vk == V_TIME ? 3 : 1); q++) {
					static const int ss[] = {0, 1, 59};
					int sec = h * 3600 + ms[m] * 60 + ss[q];
					vrd[nv] = p->rd;
					vsec[nv] = sec;
					snprintf(exps[nv], sizeof(exps[nv]), "%02d:%02d:%02d", sec / 3600, sec / 60 % 60, sec % 60);
					nv++;
				}
			}
		}
	} else {
		/* epoch seconds: also days before 1970 (sign) and beyond 2286 (eleven digits) */
		static const int eyears[4] = {2000, 1900, 1601, 4090};
		for (int yi = 0; yi < (vk == V_EPOCH ? 4 : 1); yi++) {
			for (int rd = rc_yearstart[eyears[yi]]; rd < rc_yearstart[eyears[yi] + 1]; rd++) {
				const struct rc_day *p = rc_get(rd);
				if (vk == V_BDATE && !p->isbd) {
					continue;
				}
				vrd[nv] = rd;
				vsec[nv] = 0;
				if (vk == V_EPOCH) {
					snprintf(exps[nv], sizeof(exps[nv]), "%04d-%02d-%02dT00:00:00", p->y, p->m, p->d);
				} else {
					snprintf(exps[nv], sizeof(exps[nv]), "%04d-%02d-%02d", p->y, p->m, p->d);
				}
				nv++;
			}
		}
	}
	snprintf(fin, sizeof(fin), "%s/c09s.%d.%llu.in", rundir, set, (unsigned long long)idx);
	snprintf(fout, sizeof(fout), "%s/c09s.%d.%llu.out", rundir, set, (unsigned long long)idx);
	snprintf(ferr, sizeof(ferr), "%s/c09s.%d.%llu.err", rundir, set, (unsigned long long)idx);
	if ((fi = fopen(fin, "w")) == NULL) {
		return;
	}
	for (int v = 0; v < nv; v++) {
		lk[v] = roundtrip(fs, vk, rc_get(vrd[v]), vsec[v], texts[v], sizeof(texts[v]), NULL, 0);
		fprintf(fi, "%s\nfoo %s bar\n", texts[v], texts[v]);
	}
	fclose(fi);
	snprintf(cmd, sizeof(cmd), "LOCALE_FILE='%s/data/locale' '%s/src/dconv' --base %04d-01-01 -i '%s' -f '%s' < '%s' > '%s' 2> '%s'",
		 ex.tree, ex.tree, W8[0].y0, fs, ofmt, fin, fout, ferr);
	if (system(cmd) != 0) {
		;	/* status 2 = some line was not understood */
	}
	fo = fopen(fout, "r");
	fe = fopen(ferr, "r");
	if (fo == NULL || fe == NULL) {
		ex_viol("stdin-binding: no output from the binary", 0, "", cmd, "format '%s'", fs);
		return;
	}
#define NEXT_REJ()	do { \
		char l_[400]; \
		have_rej = 0; \
		while (fgets(l_, sizeof(l_), fe)) { \
			char *a_ = strchr(l_, '`'), *b_ = strstr(l_, "' using the given input formats"); \
			if (a_ && b_ && b_ > a_) { \
				*b_ = '\0'; \
				snprintf(rej, sizeof(rej), "%s", a_ + 1); \
				have_rej = 1; \
				break; \
			} \
		} \
	} while (0)
	NEXT_REJ();
	for (int v = 0; v < nv; v++) {
		for (int shape = 0; shape < 2; shape++) {
			char line[160];
			int rejected;
			snprintf(line, sizeof(line), shape ? "foo %s bar" : "%s", texts[v]);
			++*c_sbl;
			if (have_rej && !strcmp(rej, line)) {
				rejected = 1;
				NEXT_REJ();
			} else {
				rejected = 0;
				out[0] = '\0';
				if (fgets(out, sizeof(out), fo)) {
					out[strcspn(out, "\n")] = '\0';
				} else {
					rejected = 2;	/* neither printed nor refused */
				}
			}
			if ((only_v >= 0 && (v != only_v || shape != only_shape))) {
				continue;
			}
			if (lk[v] != RT_OK && lk[v] != RT_TRAIL) {
				++*c_sbskip;
				continue;
			}
			if (scope == 2 && rejected) {
				EX_CTR(c_sbe, "skipped:stdin line refused under a format starting with %s (variable width, outside the stdin observation point)");
				++*c_sbe;
				continue;
			}
			++*c_sbj;
			if (rejected || strcmp(out, exps[v])) {
				const struct rc_day *p = rc_get(vrd[v]);
				int kind = rejected ? rejected : 3;
				if (!have_min[shape][kind]) {
					fmin[shape][kind] = f;
					stdin_minimise(&fmin[shape][kind], vk, p, vsec[v], shape, ofmt, exps[v], kind);
					have_min[shape][kind] = 1;
				}
				leading_label(&fmin[shape][kind], lead, sizeof(lead));
				fmt_render(&fmin[shape][kind], fmins, sizeof(fmins));
				if (name_in_run(&fmin[shape][kind], lead, sizeof(lead)) || scope == 2) {
					/* (variable-width first field: the class is the field and the literal behind it) */
					fmins[0] = '\0';
				}
				snprintf(key, sizeof(key), "stdin-binding leading=%s%s%s%s line=%s: %s", lead, fmins[0] ? " (minimal failing format '" : "", fmins, fmins[0] ? "')" : "",
					 shape ? "embedded (foo <text> bar)" : "text alone",
					 rejected == 1 ? "line is refused" : rejected == 2 ? "line is neither converted nor refused" : "line is converted to a different value");
				snprintf(cas, sizeof(cas), "S %d %llu %d %d", set, (unsigned long long)idx, v, shape);
				snprintf(cmd, sizeof(cmd), "echo '%s' | dconv -i '%s' -f '%s'", line, fs, ofmt);
				ex_viol(key, vk == V_TIME || vk == V_TIME_M ? (double)vsec[v] : (double)p->yday, cas, cmd,
					"format '%s' (%s): the line '%s' on stdin gives '%s'%s; as an argument / at library level the text reads back as %s",
					fs, s->name, line, rejected ? "" : out, rejected == 1 ? " (cannot make sense of)" : rejected == 2 ? " (nothing)" : "", exps[v]);
				if (replay_verbose) {
					printf("  VIOLATION [%s] line '%s' gives '%s'%s, expected %s\n", key, line, rejected ? "" : out, rejected ? " (refused)" : "", exps[v]);
					replay_fails++;
				}
			} else if (replay_verbose) {
				printf("  line '%s' gives '%s'\n", line, out);
			}
		}
	}
	fclose(fo);
	fclose(fe);
	unlink(fin);
	unlink(fout);
	unlink(ferr);
}

#include "c09_extra.h"

int
main(int argc, char *argv[])
{
	EX_CTR(c_states, "states");
	EX_CTR(c_traces, "traces");
	uint64_t slice = 0;

	ex_init(argc, argv);
	rc_selfcheck();
	load_locales();
	{
		/* an assertion of the library (abort) is an observation of the guarded call, no timer needed */
		struct sigaction sa;
		memset(&sa, 0, sizeof(sa));
		sa.sa_handler = ex_wd_fatal;
		sa.sa_flags = SA_NODEFER;
		sigaction(SIGABRT, &sa, NULL);
	}

	if (ex.cas) {
		int set, rd, sec, k, li, a;
		unsigned long long idx;
		replay_verbose = 1;
		if (sscanf(ex.cas, "R %d %llu %d %d", &set, &idx, &rd, &sec) == 4 && set >= 0 && set < NDSETS && idx < set_size(set) && rd >= 0 && rd < RC_NDAYS) {
			ex.thorough = 1;
			run_format(set, idx, rd, sec);
		} else if (sscanf(ex.cas, "D %d %d %d", &k, &rd, &sec) == 3 && k >= 0 && k < NDFLT && rd >= 0 && rd < RC_NDAYS) {
			const struct rc_day *p = rc_get(rd);
			run_defaults(p->y, p->y, k, rd, sec);
		} else if (sscanf(ex.cas, "L %d %d %d", &li, &a, &k) == 3 && li >= 0 && li < nlocs) {
			run_locale(li, a, k);
		} else if (sscanf(ex.cas, "X %d %llu %d", &set, &idx, &rd) == 3 && set >= 0 && set < NRBASE && idx < rfmt_count(set) && rd >= 0 && rd < RC_NDAYS) {
			ex.thorough = 1;
			run_redundant(set, idx, rd);
		} else if (sscanf(ex.cas, "N %d %d %d", &k, &rd, &sec) == 3 && k >= 0 && k < NNNAMES && rd >= 0 && rd < RC_NDAYS) {
			run_named(k, rd, rd + 1, sec);
		} else if (sscanf(ex.cas, "E %d %d %d %d", &k, &rd, &sec, &a) == 4 && k >= 0 && k < NEFMT && rd >= 0 && rd < RC_NDAYS) {
			const struct rc_day *p = rc_get(rd);
			run_epoch_ns(k, p->y, p->y, rd, sec, a);
		} else if (sscanf(ex.cas, "P %d %d %d", &k, &rd, &sec) == 3 && k >= 0 && k < sp_npairs()) {
			run_stdin_pair(k, rd, sec);
		} else if (sscanf(ex.cas, "Y %d %d %d", &k, &rd, &sec) == 3 && k >= 0 && k < NSXFMT) {
			run_stdin_extra(k, rd, sec);
		} else if (sscanf(ex.cas, "Q %d %d", &rd, &k) == 2 && rd >= 0 && rd < RC_NDAYS) {
			const struct rc_day *p = rc_get(rd);
			run_bizda_before(p->y, p->y, rd, k);
		} else if (sscanf(ex.cas, "S %d %llu %d %d", &set, &idx, &rd, &sec) == 4 && set >= 0 && set < NDSETS && idx < set_size(set)) {
			run_stdin_binding(set, idx, rd, sec);
		} else if (sscanf(ex.cas, "B %d %llu %d", &set, &idx, &rd) == 3 && set >= 0 && set < NDSETS && idx < set_size(set) && rd >= 0 && rd < RC_NDAYS) {
			/* library-level re-execution of that line; the binaries are compared in the full run */
			run_format(set, idx, rd, 0);
		} else {
			return ex_replay_result(1, "bad case string '%s'", ex.cas);
		}
		return ex_replay_result(replay_fails, "%d violation(s)", replay_fails);
	}

	{
		uint64_t tot = 0;
		for (int s = 0; s < NDSETS; s++) {
			tot += set_size(s);
		}
		ex_meta("rule", "formats = for each of %d determining sets (ymd, ymd+weekday name, yd, ISO week date, ymcw, year+%%U/%%W/%%C+weekday, 2- and 1-digit-year ymd, 2-digit ISO year, bizda, "
			"%%F, epoch %%s; hms, hm, 12h hms/hm with %%p, %%T, hms+%%N): every order of the fields x every spelling of every field (plain, %%-, %% , %%0, th, Roman %%O, names %%a %%A %%b %%B %%h, "
			"one-letter %%_a %%_b) x every separator of {- SPC / T empty} (times {: empty SPC .}) in every gap (four-field formats: only those with one separator throughout or with plain "
			"spellings throughout, four-field time formats with hour<minute<second kept in order); out of scope (skipped, counted): empty separator behind a variable-width "
			"numeric field (incl. %%u, %%s) or a Roman numeral. Values: every day of the tier's windows (ymd-held; business days only for bizda; x 7 times of day for %%s), every second "
			"of a day for time formats (every minute where the format has no seconds). Oracle: dt_strpdt(dt_strfdt(v,F),F) is a value, denotes the reference calendar's day "
			"(fields for ymd/yd results, day count otherwise) and second, and the end pointer is at the NUL; 2-/1-digit years with the base set to the window's first year. "
			"Failing formats are minimised (separators, spellings, order) and keyed by what the minimal failing format still needs (non-plain spellings, a missing separator, the order). Default outputs of ymd/ymcw/ywd/yd/bizda, date and date-time, "
			"through the format-less parser (accepted, same day, same time of day, whole text consumed); %d shipped locales x month and weekday names x {%%a %%A %%b %%B} where no earlier name of the table is a prefix. "
			"non-trivial = format with a non-plain spelling or a non-canonical order.", NDSETS, nlocs);
		ex_meta("bound", "%llu format coordinates (all, both tiers); days: %s; times: all 86,400 seconds; default outputs: %s; locales: all %d",
			(unsigned long long)tot, ex.thorough ? "1997-2004, 1601-1608, 4088-4095, 1897-1904 (11,687 days)" : "1997-2004 (2,922 days; four-field formats: 2000 only)",
			ex.thorough ? "all 911,280 days" : "1997-2004, 1601-1608, 4088-4095", nlocs);
		ex_meta("further_families", "R: base {%%Y %%m %%d} {%%d %%b %%Y} {%%Y %%j} {%%G %%V %%u} {%%F} in every order + one of %d further date specifiers at every position, separator blank or '-' "
			"throughout, all days of the windows; N: -f jdn|julian|ldn|lilian|mdn|matlab then -i the same name, dates and date-times (7 times on every day of the windows, every second of "
			"2012-03-04); E: %%s, %%s%%N, %%s.%%N, %%s %%N on date-times with 0 and 123 ns (parsed second, and printing the parsed value again gives the same text); "
			"the documented spelling 00 of Sunday for %%w in every enumerated format that has %%w, every Sunday of the windows", NREXTRA);
		ex_meta("stdin_pairs", "every ordered pair of %d date formats / %d time formats that share their first literal as -i A -i B, lines = every day of 2000 (boundary seconds) printed with A and "
			"with B, alone and embedded; expected = argument mode (the first of the two the library accepts the text under)", NSPD, NSPT);
		ex_meta("stdin_extra", "%d formats outside the grammar through the stream mode of dconv: %%T or %%F directly behind another specifier, %%s followed by a literal (years 2000, 1900, 1601, "
			"1640, 4090: negative 10- and 11-digit epochs; only a different value is judged), calendar names as -i with date-time lines; every business day held as bizda before "
			"ultimo (NNB) printed with the default format, %%F, ymd, ywd, '%%Y-%%m-%%d %%a', bizda, '%%Y-%%m-%%dB' must name its day", NSXFMT);
		ex_meta("stdin_binding", "the dconv binary in plain stream mode (needle search), one process per format, lines = the formatted text of every day of 2000 (business days for bizda) "
			"resp. 360/120 boundary seconds of a day, alone and embedded as 'foo <text> bar'; per-line result reconstructed from stdout + the refused lines named on stderr; "
			"expected = library-level dt_strpdt(text,F); formats: %s", ex.thorough ? "every format in scope" :
			"every format whose fields behind the first non-empty separator are plain (needle and offset window depend only on what precedes the first literal)");
		ex_meta("binding", "dconv -f F < days | dconv -i F -f %%F for the first 200 date formats (canonical order, plain and single-variant spellings first) over 1997-2004, text as stdin "
			"line when F starts with a fixed-width field, else as argument; compared line by line with the library-level observation");
	}

	/* formats: slices of 32 per set */
	for (int s = 0; s < NDSETS && !ex_expired(); s++) {
		uint64_t n = set_size(s);
		for (uint64_t lo = 0; lo < n && !ex_expired(); lo += 32, slice++) {
			if (!ex_mine(slice)) {
				continue;
			}
			for (uint64_t i = lo; i < lo + 32 && i < n && !ex_expired(); i++) {
				run_format(s, i, -1, 0);
				++*c_states;
			}
			++*c_traces;
		}
	}
	/* default outputs: slices of years */
	{
		int y0 = ex.thorough ? RC_MIN_YEAR : 1997, y1 = ex.thorough ? RC_MAX_YEAR : 2004;
		for (int y = y0; y <= y1 && !ex_expired(); y++, slice++) {
			if (ex_mine(slice)) {
				run_defaults(y, y, -1, -1, 0);
				++*c_traces;
			}
		}
		if (!ex.thorough) {
			for (int y = 1601; y <= 1608 && !ex_expired(); y++, slice++) {
				if (ex_mine(slice)) {
					run_defaults(y, y, -1, -1, 0);
					run_defaults(y + 2487, y + 2487, -1, -1, 0);
					++*c_traces;
				}
			}
		}
	}
	/* locales */
	for (int li = 0; li < nlocs && !ex_expired(); li++, slice++) {
		if (ex_mine(slice)) {
			run_locale(li, -1, -1);
			++*c_traces;
		}
	}
	/* a determining set plus one redundant field */
	for (int b = 0; b < NRBASE && !ex_expired(); b++) {
		uint64_t n = rfmt_count(b);
		for (uint64_t lo = 0; lo < n && !ex_expired(); lo += 8, slice++) {
			if (!ex_mine(slice)) {
				continue;
			}
			for (uint64_t i = lo; i < lo + 8 && i < n; i++) {
				run_redundant(b, i, -1);
			}
			++*c_traces;
		}
	}
	/* calendar-name formats: days of the windows (dates and 7 times of day), every second of 2012-03-04 */
	for (int k = 0; k < NNNAMES && !ex_expired(); k++) {
		for (int w = 0; w < (ex.thorough ? 4 : 1); w++) {
			for (int y = W8[w].y0; y <= W8[w].y1; y++, slice++) {
				if (ex_mine(slice) && !ex_expired()) {
					run_named(k, rc_yearstart[y], rc_yearstart[y + 1], -2);
					++*c_traces;
				}
			}
		}
		if (ex_mine(slice++) && !ex_expired()) {
			run_named(k, rc_yearstart[2012] + 63, rc_yearstart[2012] + 64, -2);
			++*c_traces;
		}
	}
	/* epoch formats with nanoseconds */
	for (int k = 0; k < NEFMT && !ex_expired(); k++) {
		for (int w = 0; w < (ex.thorough ? 4 : 1); w++) {
			for (int y = W8[w].y0; y <= W8[w].y1; y++, slice++) {
				if (ex_mine(slice) && !ex_expired()) {
					run_epoch_ns(k, y, y, -1, 0, 0);
					++*c_traces;
				}
			}
		}
	}
	/* binding: 200 date formats, spread over the sets: the first ones of each date set in canonical order */
	{
		int bk = 0;
		for (int s = 0; s < FIRST_TIME_SET && !ex_expired(); s++) {
			uint64_t n = set_size(s), step, cnt = 0;
			if (dsets[s].vk != V_DATE) {
				continue;
			}
			/* 18 formats per set, evenly spaced through the coordinates (deterministic) */
			step = n / 18 ? n / 18 : 1;
			for (uint64_t i = 0; i < n && cnt < 18; i += step, cnt++, bk++, slice++) {
				if (ex_mine(slice) && !ex_expired()) {
					run_binding(s, i, bk);
				}
			}
		}
	}
	/* two input formats sharing their first literal */
	for (int k = 0; k < sp_npairs() && !ex_expired(); k++, slice++) {
		if (ex_mine(slice)) {
			run_stdin_pair(k, -1, -1);
		}
	}
	/* stdin legs beyond the grammar, bizda-before-ultimo values */
	for (int k = 0; k < NSXFMT && !ex_expired(); k++, slice++) {
		if (ex_mine(slice)) {
			run_stdin_extra(k, -1, -1);
			++*c_traces;
		}
	}
	for (int w = 0; w < (ex.thorough ? 4 : 1); w++) {
		for (int y = W8[w].y0; y <= W8[w].y1 && !ex_expired(); y++, slice++) {
			if (ex_mine(slice)) {
				run_bizda_before(y, y, -1, -1);
				++*c_traces;
			}
		}
	}
	/* stdin binding: every format in scope (thorough) / every format whose fields behind the first
	 * non-empty separator are plain (quick); all workers walk the coordinates, each runs its share */
	for (int s = 0; s < NDSETS && !ex_expired(); s++) {
		uint64_t n = set_size(s);
		char fs[64];
		for (uint64_t i = 0; i < n && !ex_expired(); i++) {
			struct fmt f;
			fmt_from_index(s, i, &f);
			if (!fmt_enumerated(&f) || !fmt_render(&f, fs, sizeof(fs)) || (!ex.thorough && !stdin_reduced(&f))) {
				continue;
			}
			if (!stdin_in_scope(&f)) {
				EX_CTR(c_sbo, "skipped:stdin leg, format with a field other than fixed-width numeric in front of its first literal");
				if (ex.worker == 0) {
					++*c_sbo;
				}
				continue;
			}
			if (ex_mine(slice++)) {
				run_stdin_binding(s, i, -1, -1);
			}
		}
	}
	return ex_finish();
}
