/* c13_durparse.c -- C13 (c): the durations parsed for one stdin line of `dadd DATE'
 * must not depend on the lines before it.
 *
 * dadd's mass_add_d() keeps ONE struct __strpdtdur_st_s for the whole stream and calls
 * dt_io_strpdtdur() on it until it reports no continuation, then resets only `ndurs'.
 * This explorer drives the real dt_io_strpdtdur() exactly that way.
 * State = (sign, flags, cont == NULL?) of the struct after a line.  Breadth-first
 * closure: from the zeroed struct, every line of a 16-line alphabet is fed in every
 * reached state (the state is entered by replaying its discovering history on a zeroed
 * struct); new states are queued until none appears.
 * Oracle (differential): what the line yields in the state == what it yields on a
 * zeroed struct, observed the way dadd uses it: has-a-duration, and the date-times
 * obtained by adding the parsed durations in order to three reference date-times.
 * Reading: the `cocl' (co-class, "/") bit of a parsed duration is not used by dadd's
 * addition; a difference in that bit alone cannot reach dadd's output and is counted,
 * not reported. */
#include "impl.h"
#include "c12_wd.h"
#include "dt-io.h"

const char *prog = "c13_durparse";

#define NLINES	16
static const char *const lines[NLINES] = {
	"+1d", "-1d", "=1d", "/1d", ">", "<1d", "1mo2d", "+1d -2h", "xyz", "", "+", "1dx", "/", "p1w", "-1mo +1d", "=",
};

struct obs_s {
	int rc;			/* 0 returned, 1 did not return, 2 signal */
	int has_dur;
	size_t ndurs;
	int cocl_bits;		/* bit i = durs[i].cocl */
	char out[3][64];	/* reference date-times after adding the durations */
	int sign_after;
	unsigned int flags_after;
	int cont_null_after;
};

static const char *const refs[3] = {"2012-01-31T12:00:00", "2012-02-29T23:59:59", "2011-12-31T00:00:00"};

static struct __strpdtdur_st_s g_st;
static struct obs_s g_obs;
static char g_line[64];

/* feed LINE the way mass_add_d does, on the struct as it is */
static void
feed(const char *line, struct obs_s *o)
{
	int rc;
	EX_CTR(c_eval, "evaluations");

	memset(o, 0, sizeof(*o));
	snprintf(g_line, sizeof(g_line), "%s", line);
	g_obs.has_dur = 1;
	++*c_eval;
	EX_GUARD_BEGIN(rc);
	do {
		if (dt_io_strpdtdur(&g_st, g_line) < 0) {
			g_obs.has_dur = 0;
		}
	} while (__strpdtdur_more_p(&g_st));
	EX_GUARD_END;
	o->rc = rc;
	if (rc) {
		return;
	}
	o->has_dur = g_obs.has_dur;
	o->ndurs = g_st.ndurs;
	if (o->has_dur) {
		for (size_t i = 0; i < g_st.ndurs && i < 30; i++) {
			o->cocl_bits |= (int)g_st.durs[i].cocl << i;
		}
		for (int r = 0; r < 3; r++) {
			struct dt_dt_s d = dt_strpdt(refs[r], NULL, NULL);
			for (size_t i = 0; i < g_st.ndurs; i++) {
				d = dt_dtadd(d, g_st.durs[i]);
			}
			dt_strfdt(o->out[r], sizeof(o->out[r]), "%FT%T", d);
		}
	}
	/* just reset the ndurs slot, as dadd does */
	g_st.ndurs = 0;
	o->sign_after = g_st.sign;
	o->flags_after = g_st.flags;
	o->cont_null_after = g_st.cont == NULL;
}

static void
st_reset(void)
{
	if (g_st.durs) {
		free(g_st.durs);
	}
	memset(&g_st, 0, sizeof(g_st));
}

struct st_s {
	int sign;
	unsigned int flags;
	int cont_null;
	int parent, via;
};
static struct st_s sts[256];
static int nsts;

static int
find_state(int sign, unsigned int flags, int cn)
{
	for (int i = 0; i < nsts; i++) {
		if (sts[i].sign == sign && sts[i].flags == flags && sts[i].cont_null == cn) {
			return i;
		}
	}
	return -1;
}

static void
enter_state(int si)
{
	struct obs_s o;
	if (sts[si].parent < 0) {
		st_reset();
		return;
	}
	enter_state(sts[si].parent);
	feed(lines[sts[si].via], &o);
}

static size_t
hist_text(int si, char *buf, size_t bsz)
{
	size_t n;
	if (sts[si].parent < 0) {
		return (size_t)snprintf(buf, bsz, "(start)");
	}
	n = hist_text(sts[si].parent, buf, bsz);
	if (n < bsz) {
		n += (size_t)snprintf(buf + n, bsz - n, " '%s'", lines[sts[si].via]);
	}
	return n < bsz ? n : bsz - 1;
}

static struct obs_s fresh[NLINES];

static int
judge(int si, int li, const struct obs_s *o, int replay)
{
	const struct obs_s *f = fresh + li;
	char key[128], cas[128], hist[256], cmd[512];
	const char *what = NULL;
	EX_CTR(c_cocl, "cocl_bit_differs_only(unobservable in dadd)");

	if (o->rc != f->rc) {
		what = o->rc == 1 ? "does-not-return" : "outcome";
	} else if (o->rc) {
		return 0;
	} else if (o->has_dur != f->has_dur) {
		what = "has-duration";
	} else if (o->has_dur && o->ndurs != f->ndurs) {
		what = "number-of-durations";
	} else if (o->has_dur && (strcmp(o->out[0], f->out[0]) || strcmp(o->out[1], f->out[1]) || strcmp(o->out[2], f->out[2]))) {
		what = "sum";
	} else if (o->has_dur && o->cocl_bits != f->cocl_bits) {
		++*c_cocl;
		if (replay) {
			printf("  note: cocl bits %x vs fresh %x (not observable through dadd)\n", o->cocl_bits, f->cocl_bits);
		}
	}
	if (what == NULL) {
		if (replay) {
			printf("  ok line '%s' in state (sign %d, flags %u): durations %zu, %s %s %s as on a zeroed parser\n", lines[li], sts[si].sign, sts[si].flags,
			       o->ndurs, o->out[0], o->out[1], o->out[2]);
		}
		return 0;
	}
	hist_text(si, hist, sizeof(hist));
	snprintf(key, sizeof(key), "durparse %s line#%d sign=%d flags=%u", what, li, sts[si].sign, sts[si].flags);
	{
		size_t n = 0;
		int chain[32], nc = 0;
		for (int k = si; sts[k].parent >= 0 && nc < 32; k = sts[k].parent) {
			chain[nc++] = sts[k].via;
		}
		cas[0] = '\0';
		n = (size_t)snprintf(cmd, sizeof(cmd), "printf '");
		for (int i = nc - 1; i >= 0; i--) {
			snprintf(cas + strlen(cas), sizeof(cas) - strlen(cas), "%d ", chain[i]);
			n += (size_t)snprintf(cmd + n, sizeof(cmd) - n, "%s\\n", lines[chain[i]]);
		}
		snprintf(cas + strlen(cas), sizeof(cas) - strlen(cas), "? %d", li);
		snprintf(cmd + n, sizeof(cmd) - n, "%s\\n' | dadd %s    # last line vs. the line alone", lines[li], refs[0]);
	}
	ex_viol(key, nsts, cas, cmd, "line '%s' after %s (parser state sign %d flags %u): has_dur %d, %zu durations, %s | %s | %s; on a zeroed parser: has_dur %d, %zu durations, %s | %s | %s",
		lines[li], hist, sts[si].sign, sts[si].flags, o->has_dur, o->ndurs, o->out[0], o->out[1], o->out[2],
		f->has_dur, f->ndurs, f->out[0], f->out[1], f->out[2]);
	if (replay) {
		printf("  FAIL [%s] line '%s' after %s\n", key, lines[li], hist);
	}
	return 1;
}

int
main(int argc, char *argv[])
{
	EX_CTR(c_states, "states");
	EX_CTR(c_trans, "transitions");
	EX_CTR(c_traces, "traces");
	EX_CTR(c_nontriv, "nontrivial");

	ex_init(argc, argv);
	zc_wd_init();

	for (int li = 0; li < NLINES; li++) {
		st_reset();
		feed(lines[li], fresh + li);
	}

	if (ex.cas) {
		/* "<line#> <line#> ... ? <line#>" */
		const char *p = ex.cas;
		int n, li, bad;
		struct obs_s o;
		st_reset();
		nsts = 1;
		sts[0].parent = -1;
		while (sscanf(p, " %d%n", &li, &n) == 1) {
			p += n;
			if (li < 0 || li >= NLINES) {
				return ex_replay_result(1, "bad case");
			}
			feed(lines[li], &o);
			printf("  history line '%s': parser state now sign %d flags %u\n", lines[li], g_st.sign, g_st.flags);
		}
		if (sscanf(p, " ? %d", &li) != 1 || li < 0 || li >= NLINES) {
			return ex_replay_result(1, "bad case");
		}
		sts[0].sign = g_st.sign;
		sts[0].flags = g_st.flags;
		feed(lines[li], &o);
		bad = judge(0, li, &o, 1);
		return ex_replay_result(bad, "%s", ex.cas);
	}

	ex_meta("rule", "duration parser closure: state (sign, flags, cont==NULL) of struct __strpdtdur_st_s after a line, driven as dadd's mass_add_d does (one struct for the stream, "
		"dt_io_strpdtdur until no continuation, ndurs reset); %d-line alphabet; every line fed in every reached state (state entered by replaying its history on a zeroed struct) "
		"until no new state appears; oracle: has-duration flag, number of durations and the sums with three reference date-times equal those on a zeroed struct. "
		"A difference only in the co-class bit is counted, not reported (dadd's addition does not read it). non-trivial = applications in a state other than the zeroed one", NLINES);
	ex_meta("bound", "closure (both tiers); single worker");

	if (ex.worker == 0) {
		int head;
		st_reset();
		nsts = 0;
		sts[nsts].sign = 0;
		sts[nsts].flags = 0;
		sts[nsts].cont_null = 1;
		sts[nsts].parent = -1;
		nsts++;
		for (head = 0; head < nsts; head++) {
			for (int li = 0; li < NLINES; li++) {
				struct obs_s o;
				enter_state(head);
				if (g_st.sign != sts[head].sign || g_st.flags != sts[head].flags) {
					fprintf(stderr, "c13_durparse: replay does not reproduce state %d\n", head);
					return 3;
				}
				feed(lines[li], &o);
				++*c_trans;
				if (head) {
					++*c_nontriv;
				}
				ex_outcome(ex_hash_mix(ex_hash(o.out, sizeof(o.out)), (uint64_t)(o.has_dur * 64 + (int)o.ndurs)));
				judge(head, li, &o, 0);
				if (o.rc == 0 && find_state(o.sign_after, o.flags_after, o.cont_null_after) < 0 && nsts < 256) {
					sts[nsts].sign = o.sign_after;
					sts[nsts].flags = o.flags_after;
					sts[nsts].cont_null = o.cont_null_after;
					sts[nsts].parent = head;
					sts[nsts].via = li;
					nsts++;
				}
			}
			++*c_traces;
		}
		*c_states = (uint64_t)nsts;
		ex_sample("closure after %d parser states over %d lines (%d applications)", nsts, NLINES, nsts * NLINES);
		for (int i = 0; i < nsts && i < 3; i++) {
			char hist[256];
			hist_text(i, hist, sizeof(hist));
			ex_sample("state %d: sign %d flags %u reached by %s", i, sts[i].sign, sts[i].flags, hist);
		}
	}
	return ex_finish();
}
