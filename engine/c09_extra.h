/* c09_extra.h -- further input families of C09 (included by c09_roundtrip.c in front of main()):
 *
 *  R  a determining set PLUS ONE REDUNDANT FIELD: base {%Y %m %d}, {%d %b %Y}, {%Y %j}, {%G %V %u}, {%F} in
 *     every order, one further date specifier (consistent with the value, since the formatter prints it
 *     from the same value) at every position, one separator (blank or '-') throughout.
 *  N  date and date-time values through the calendar-name formats that are documented for input as well:
 *     jdn/julian, ldn/lilian (and mdn/matlab, which the code accepts the same way): print with the
 *     name, parse with the name; the day and, for date-times, the second must come back.
 *  E  epoch formats with nanoseconds: %s, %s%N, %s.%N, %s %N on date-times with 0 and 123 ns: the parsed
 *     value is that second and printing it again gives the same text (so lost nanoseconds show).
 *  (the documented spelling 00 of Sunday for %w is checked inside run_format) */

static const struct {
	const char *name;
	int n;
	const char *f[3];
} rbases[] = {
	{"%Y %m %d", 3, {"%Y", "%m", "%d"}},
	{"%d %b %Y", 3, {"%d", "%b", "%Y"}},
	{"%Y %j", 2, {"%Y", "%j"}},
	{"%G %V %u", 3, {"%G", "%V", "%u"}},
	{"%F", 1, {"%F"}},
};
#define NRBASE	((int)(sizeof(rbases) / sizeof(*rbases)))
static const char *const rextras[] = {
	"%a", "%A", "%_a", "%u", "%w", "%j", "%D", "%V", "%U", "%W", "%C", "%c", "%Q", "%q", "%G", "%g", "%y", "%b", "%B", "%_b", "%m", "%d", "%Y", "%F",
	"%dth", "%mth", "%Od", "%Om",
};
#define NREXTRA	((int)(sizeof(rextras) / sizeof(*rextras)))
static const char *const rseps[] = {" ", "-"};

struct rfmt {
	int base, perm, extra, pos, sep;
};
static int
rfmt_render(const struct rfmt *r, char *buf, size_t bsz)
{
	int p[4], n = rbases[r->base].n;
	size_t k = 0;
	/* an extra that the base has already is no further field; %F next to y/m/d fields is */
	for (int i = 0; i < n; i++) {
		if (!strcmp(rbases[r->base].f[i], rextras[r->extra])) {
			return 0;
		}
	}
	get_perm(n, r->perm, p);
	for (int i = 0; i <= n; i++) {
		if (i == r->pos) {
			k += (size_t)snprintf(buf + k, bsz - k, "%s%s", k ? rseps[r->sep] : "", rextras[r->extra]);
		}
		if (i < n) {
			k += (size_t)snprintf(buf + k, bsz - k, "%s%s", k ? rseps[r->sep] : "", rbases[r->base].f[p[i]]);
		}
	}
	return 1;
}
static uint64_t
rfmt_count(int base)
{
	int n = rbases[base].n;
	return (uint64_t)nperm(n) * NREXTRA * (uint64_t)(n + 1) * 2U;
}
static void
rfmt_from_index(int base, uint64_t idx, struct rfmt *r)
{
	int n = rbases[base].n;
	r->base = base;
	r->sep = (int)(idx % 2U);
	idx /= 2U;
	r->pos = (int)(idx % (uint64_t)(n + 1));
	idx /= (uint64_t)(n + 1);
	r->perm = (int)(idx % (uint64_t)nperm(n));
	idx /= (uint64_t)nperm(n);
	r->extra = (int)idx;
}
static uint64_t
rfmt_to_index(const struct rfmt *r)
{
	int n = rbases[r->base].n;
	return (((uint64_t)r->extra * (uint64_t)nperm(n) + (uint64_t)r->perm) * (uint64_t)(n + 1) + (uint64_t)r->pos) * 2U + (uint64_t)r->sep;
}

static uint64_t
run_redundant(int base, uint64_t idx, int only_rd)
{
	EX_CTR(c_trans, "transitions");
	EX_CTR(c_fm, "redundant_field_formats");
	struct rfmt r, rmin[5];
	int have_min[5] = {0};
	char fs[64], text[128], got[64], key[320], cas[96], cmd[300], fmins[64];
	uint64_t bad = 0;
	int nwin = ex.thorough ? 4 : 1;

	rfmt_from_index(base, idx, &r);
	if (!rfmt_render(&r, fs, sizeof(fs))) {
		return 0;
	}
	++*c_fm;
	if (replay_verbose) {
		printf("  format '%s' (base %s + redundant %s)\n", fs, rbases[base].name, rextras[r.extra]);
	}
	for (int w = 0; w < nwin; w++) {
		char bt[32];
		snprintf(bt, sizeof(bt), "%04d-01-01T00:00:00", W8[w].y0);
		dt_set_base(dt_strpdt(bt, NULL, NULL));
		for (int rd = rc_yearstart[W8[w].y0]; rd < rc_yearstart[W8[w].y1 + 1]; rd++) {
			const struct rc_day *p = rc_get(rd);
			int k;
			if (only_rd >= 0 && rd != only_rd) {
				continue;
			}
			k = roundtrip(fs, V_DATE, p, 0, text, sizeof(text), got, sizeof(got));
			++*c_trans;
			if (k == RT_OK) {
				if (replay_verbose) {
					printf("  %04d-%02d-%02d prints as '%s' and reads back\n", p->y, p->m, p->d, text);
				}
				continue;
			}
			bad++;
			if (!have_min[k]) {
				/* simplify: separator, order, then move the extra field towards the end */
				struct rfmt t;
				char tf[64], tt[128];
				rmin[k] = r;
				t = rmin[k];
				t.sep = 0;
				if (rfmt_render(&t, tf, sizeof(tf)) && roundtrip(tf, V_DATE, p, 0, tt, sizeof(tt), NULL, 0) == k) {
					rmin[k] = t;
				}
				t = rmin[k];
				t.perm = 0;
				if (rfmt_render(&t, tf, sizeof(tf)) && roundtrip(tf, V_DATE, p, 0, tt, sizeof(tt), NULL, 0) == k) {
					rmin[k] = t;
				}
				t = rmin[k];
				t.pos = rbases[base].n;
				if (rfmt_render(&t, tf, sizeof(tf)) && roundtrip(tf, V_DATE, p, 0, tt, sizeof(tt), NULL, 0) == k) {
					rmin[k] = t;
				}
				have_min[k] = 1;
			}
			rfmt_render(&rmin[k], fmins, sizeof(fmins));
			{
				int q[4], n = rbases[base].n;
				get_perm(n, rmin[k].perm, q);
				if (rmin[k].pos >= n) {
					snprintf(key, sizeof(key), "redundant field %s next to %s: %s", rextras[r.extra], rbases[base].name, rkind[k]);
				} else {
					snprintf(key, sizeof(key), "redundant field %s next to %s, when placed in front of %s: %s", rextras[r.extra], rbases[base].name,
						 rbases[base].f[q[rmin[k].pos]], rkind[k]);
				}
			}
			snprintf(cas, sizeof(cas), "X %d %llu %d", base, (unsigned long long)idx, rd);
			snprintf(cmd, sizeof(cmd), "dconv -f '%s' %04d-%02d-%02d | dconv -i '%s'", fs, p->y, p->m, p->d, fs);
			ex_viol(key, (double)rd, cas, cmd, "format '%s' (minimal failing: '%s'): %04d-%02d-%02d prints as '%s'; %s%s%s%s", fs, fmins, p->y, p->m, p->d, text,
				rkind[k], got[0] ? " (reads back as " : "", got, got[0] ? ")" : "");
			if (replay_verbose) {
				printf("  VIOLATION [%s] %04d-%02d-%02d prints as '%s'; %s %s\n", key, p->y, p->m, p->d, text, rkind[k], got);
				replay_fails++;
			}
		}
	}
	(void)rfmt_to_index;
	return bad;
}

/* ---- N: calendar-name formats that are documented as input formats ---- */
static const char *const nnames[] = {"jdn", "julian", "ldn", "lilian", "mdn", "matlab"};
#define NNNAMES	6

static void
run_named(int k, int rd0, int rd1, int only_sec)
{
	EX_CTR(c_trans, "transitions");
	EX_CTR(c_eval, "evaluations");
	EX_CTR(c_nm, "named_format_cases");
	char src[64], text[96], key[200], cas[64], cmd[200], got[64];

	for (int rd = rd0; rd < rd1; rd++) {
		const struct rc_day *p = rc_get(rd);
		/* dates: once per day; date-times: every second of the day when a single day is asked for, else 7 times */
		static const int T8[8] = {-1, 0, 1, 3599, 43199, 45296, 75601, 86399};
		int nt = (rd1 - rd0 == 1) ? 86401 : 8;
		for (int t = 0; t < nt; t++) {
			int sec = (rd1 - rd0 == 1) ? t - 1 : T8[t];
			struct dt_dt_s v, v2;
			char *ep = NULL;
			const char *why = NULL;
			size_t n;

			if (only_sec != -2 && sec != only_sec) {
				continue;
			}
			if (sec < 0) {
				snprintf(src, sizeof(src), "%04d-%02d-%02d", p->y, p->m, p->d);
			} else {
				snprintf(src, sizeof(src), "%04d-%02d-%02dT%02d:%02d:%02d", p->y, p->m, p->d, sec / 3600, sec / 60 % 60, sec % 60);
			}
			v = dt_strpdt(src, NULL, NULL);
			n = dt_strfdt(text, sizeof(text), nnames[k], v);
			*c_eval += 3;
			++*c_trans;
			++*c_nm;
			if (n == 0 || n >= sizeof(text)) {
				continue;
			}
			v2 = dt_strpdt(text, nnames[k], &ep);
			got[0] = '\0';
			if (dt_unk_p(v2)) {
				why = "the text is rejected when read with the same name";
			} else {
				struct dt_dt_s c = dt_dtconv((dt_dttyp_t)DT_DAISY, v2);
				dt_strfdt(got, sizeof(got), sec < 0 ? "%F" : "%FT%T", v2);
				if ((int)c.d.daisy != p->rd + 1) {
					why = "reads back as a different day";
				} else if (sec >= 0 && !(dt_sandwich_p(v2) && (int)v2.t.hms.h == sec / 3600 && (int)v2.t.hms.m == sec / 60 % 60 && (int)v2.t.hms.s == sec % 60)) {
					why = dt_sandwich_p(v2) ? "reads back as a different time" : "reads back without its time";
				} else if (ep == NULL || *ep != '\0') {
					why = "the text is not consumed completely";
				}
			}
			if (why) {
				snprintf(key, sizeof(key), "calendar-name format %s, %s: %s", nnames[k], sec < 0 ? "date" : "date-time", why);
				snprintf(cas, sizeof(cas), "N %d %d %d", k, rd, sec);
				snprintf(cmd, sizeof(cmd), "dconv -f %s %s | dconv -i %s -f '%s'", nnames[k], src, nnames[k], sec < 0 ? "%F" : "%FT%T");
				ex_viol(key, (double)rd + (sec < 0 ? 0.0 : (double)sec / 86400.0), cas, cmd, "%s printed with -f %s is '%s'; %s%s%s", src, nnames[k], text, why,
					got[0] ? ": " : "", got);
				if (replay_verbose) {
					printf("  VIOLATION [%s] %s printed with -f %s is '%s'; %s %s\n", key, src, nnames[k], text, why, got);
					replay_fails++;
				}
			} else if (replay_verbose) {
				printf("  %s printed with -f %s is '%s' and reads back\n", src, nnames[k], text);
			}
		}
	}
}

/* ---- E: epoch formats with nanoseconds ---- */
static const char *const efmts[] = {"%s", "%s%N", "%s.%N", "%s %N"};
#define NEFMT	4

static void
run_epoch_ns(int k, int y0, int y1, int only_rd, int only_sec, int only_ns)
{
	EX_CTR(c_trans, "transitions");
	EX_CTR(c_eval, "evaluations");
	EX_CTR(c_ep, "epoch_format_cases");
	static const int T7[7] = {0, 1, 3599, 3600, 43199, 43200, 86399};
	static const int NS[2] = {0, 123};
	char src[64], text[96], text2[96], key[200], cas[64], cmd[240];

	for (int rd = rc_yearstart[y0]; rd < rc_yearstart[y1 + 1]; rd++) {
		const struct rc_day *p = rc_get(rd);
		if (only_rd >= 0 && rd != only_rd) {
			continue;
		}
		for (int t = 0; t < 7; t++) {
			for (int q = 0; q < 2; q++) {
				int sec = T7[t], ns = NS[q];
				struct dt_dt_s v, v2, s2;
				char *ep = NULL;
				const char *why = NULL;
				size_t n;

				if (only_rd >= 0 && (sec != only_sec || ns != only_ns)) {
					continue;
				}
				snprintf(src, sizeof(src), "%04d-%02d-%02dT%02d:%02d:%02d", p->y, p->m, p->d, sec / 3600, sec / 60 % 60, sec % 60);
				v = dt_strpdt(src, NULL, NULL);
				v.t.hms.ns = (unsigned int)ns;	/* the format-less parser keeps no fraction */
				n = dt_strfdt(text, sizeof(text), efmts[k], v);
				*c_eval += 3;
				++*c_trans;
				++*c_ep;
				if (n == 0 || n >= sizeof(text)) {
					continue;
				}
				v2 = dt_strpdt(text, efmts[k], &ep);
				text2[0] = '\0';
				if (dt_unk_p(v2)) {
					why = "formatted text is rejected by the parser";
				} else {
					s2 = dt_dtconv((dt_dttyp_t)DT_SEXY, v2);
					dt_strfdt(text2, sizeof(text2), efmts[k], v2);
					if (!(s2.typ == DT_SEXY && (int64_t)s2.sexy == p->unixd * 86400LL + sec)) {
						why = "parser returns a different second";
					} else if (strcmp(text, text2)) {
						why = "the parsed value prints differently (nanoseconds lost)";
					} else if (ep == NULL || *ep != '\0') {
						why = "parser does not consume the whole text";
					}
				}
				if (why) {
					snprintf(key, sizeof(key), "epoch format '%s'%s: %s", efmts[k], ns ? " with nanoseconds" : "", why);
					snprintf(cas, sizeof(cas), "E %d %d %d %d", k, rd, sec, ns);
					snprintf(cmd, sizeof(cmd), "dconv -i '%s' -f '%%FT%%T.%%N' -- '%s'", efmts[k], text);
					ex_viol(key, (double)rd + (double)sec / 86400.0, cas, cmd, "%s.%09d printed with '%s' is '%s'; %s%s%s", src, ns, efmts[k], text, why,
						text2[0] ? "; printed again: " : "", text2);
					if (replay_verbose) {
						printf("  VIOLATION [%s] %s.%09d printed with '%s' is '%s'; %s (%s)\n", key, src, ns, efmts[k], text, why, text2);
						replay_fails++;
					}
				} else if (replay_verbose) {
					printf("  %s.%09d printed with '%s' is '%s' and reads back\n", src, ns, efmts[k], text);
				}
			}
		}
	}
}
