/* c09_extra.h -- further input families of C09 (included by c09_roundtrip.c in front of main()):
 *
 *  R  a determining set PLUS ONE REDUNDANT FIELD: base {%Y %m %d}, {%d %b %Y}, {%Y %j}, {%G %V %u}, {%F} in
 *     every order, one further date specifier (consistent with the value, since the formatter prints it
 *     from the same value) at every position, one separator (blank or '-') throughout.
 *  N  date and date-time values through the calendar-name formats that are documented for input as well:
 *     jdn/julian, ldn/lilian (and mdn/matlab, which the code accepts the same way): print with the
 *     name, parse with the name; the day and, for date-times, the second must come back.
 *  E  epoch formats with nanoseconds: %s, %s%N, %s.%N, %s %N on date-times with 0 and 123 ns: the parsed
 *     value is that second and printing it again gives the same text (so lost nanoseconds show).
 *  (the documented spelling 00 of Sunday for %w is checked inside run_format) */

static const struct {
	const char *name;
	int n;
	const char *f[3];
} rbases[] = {
	{"%Y %m %d", 3, {"%Y", "%m", "%d"}},
	{"%d %b %Y", 3, {"%d", "%b", "%Y"}},
	{"%Y %j", 2, {"%Y", "%j"}},
	{"%G %V %u", 3, {"%G", "%V", "%u"}},
	{"%F", 1, {"%F"}},
};
#define NRBASE	((int)(sizeof(rbases) / sizeof(*rbases)))
static const char *const rextras[] = {
	"%a", "%A", "%_a", "%u", "%w", "%j", "%D", "%V", "%U", "%W", "%C", "%c", "%Q", "%q", "%G", "%g", "%y", "%b", "%B", "%_b", "%m", "%d", "%Y", "%F",
	"%dth", "%mth", "%Od", "%Om",
};
#define NREXTRA	((int)(sizeof(rextras) / sizeof(*rextras)))
static const char *const rseps[] = {" ", "-"};

struct rfmt {
	int base, perm, extra, pos, sep;
};
static int
rfmt_render(const struct rfmt *r, char *buf, size_t bsz)
{
	int p[4], n = rbases[r->base].n;
	size_t k = 0;
	/* an extra that the base has already is no further field; %F next to y/m/d fields is */
	for (int i = 0; i < n; i++) {
		if (!strcmp(rbases[r->base].f[i], rextras[r->extra])) {
			return 0;
		}
	}
	get_perm(n, r->perm, p);
	for (int i = 0; i <= n; i++) {
		if (i == r->pos) {
			k += (size_t)snprintf(buf + k, bsz - k, "%s%s", k ? rseps[r->sep] : "", rextras[r->extra]);
		}
		if (i < n) {
			k += (size_t)snprintf(buf + k, bsz - k, "%s%s", k ? rseps[r->sep] : "", rbases[r->base].f[p[i]]);
		}
	}
	return 1;
}
static uint64_t
rfmt_count(int base)
{
	int n = rbases[base].n;
	return (uint64_t)nperm(n) * NREXTRA * (uint64_t)(n + 1) * 2U;
}
static void
rfmt_from_index(int base, uint64_t idx, struct rfmt *r)
{
	int n = rbases[base].n;
	r->base = base;
	r->sep = (int)(idx % 2U);
	idx /= 2U;
	r->pos = (int)(idx % (uint64_t)(n + 1));
	idx /= (uint64_t)(n + 1);
	r->perm = (int)(idx % (uint64_t)nperm(n));
	idx /= (uint64_t)nperm(n);
	r->extra = (int)idx;
}
static uint64_t
rfmt_to_index(const struct rfmt *r)
{
	int n = rbases[r->base].n;
	return (((uint64_t)r->extra * (uint64_t)nperm(n) + (uint64_t)r->perm) * (uint64_t)(n + 1) + (uint64_t)r->pos) * 2U + (uint64_t)r->sep;
}

static uint64_t
run_redundant(int base, uint64_t idx, int only_rd)
{
	EX_CTR(c_trans, "transitions");
	EX_CTR(c_fm, "redundant_field_formats");
	struct rfmt r, rmin[5];
	int have_min[5] = {0};
	char fs[64], text[128], got[64], key[320], cas[96], cmd[300], fmins[64];
	uint64_t bad = 0;
	int nwin = ex.thorough ? 4 : 1;

	rfmt_from_index(base, idx, &r);
	if (!rfmt_render(&r, fs, sizeof(fs))) {
		return 0;
	}
	++*c_fm;
	if (replay_verbose) {
		printf("  format '%s' (base %s + redundant %s)\n", fs, rbases[base].name, rextras[r.extra]);
	}
	for (int w = 0; w < nwin; w++) {
		char bt[32];
		snprintf(bt, sizeof(bt), "%04d-01-01T00:00:00", W8[w].y0);
		dt_set_base(dt_strpdt(bt, NULL, NULL));
		for (int rd = rc_yearstart[W8[w].y0]; rd < rc_yearstart[W8[w].y1 + 1]; rd++) {
			const struct rc_day *p = rc_get(rd);
			int k;
			if (only_rd >= 0 && rd != only_rd) {
				continue;
			}
			k = roundtrip(fs, V_DATE, p, 0, text, sizeof(text), got, sizeof(got));
			++*c_trans;
			if (k == RT_OK) {
				if (replay_verbose) {
					printf("  %04d-%02d-%02d prints as '%s' and reads back\n", p->y, p->m, p->d, text);
				}
				continue;
			}
			bad++;
			if (!have_min[k]) {
				/* simplify: separator, order, then move the extra field towards the end */
				struct rfmt t;
				char tf[64], tt[128];
				rmin[k] = r;
				t = rmin[k];
				t.sep = 0;
				if (rfmt_render(&t, tf, sizeof(tf)) && roundtrip(tf, V_DATE, p, 0, tt, sizeof(tt), NULL, 0) == k) {
					rmin[k] = t;
				}
				t = rmin[k];
				t.perm = 0;
				if (rfmt_render(&t, tf, sizeof(tf)) && roundtrip(tf, V_DATE, p, 0, tt, sizeof(tt), NULL, 0) == k) {
					rmin[k] = t;
				}
				t = rmin[k];
				t.pos = rbases[base].n;
				if (rfmt_render(&t, tf, sizeof(tf)) && roundtrip(tf, V_DATE, p, 0, tt, sizeof(tt), NULL, 0) == k) {
					rmin[k] = t;
				}
				have_min[k] = 1;
			}
			rfmt_render(&rmin[k], fmins, sizeof(fmins));
			{
				int q[4], n = rbases[base].n;
				get_perm(n, rmin[k].perm, q);
				if (rmin[k].pos >= n) {
					snprintf(key, sizeof(key), "redundant field %s next to %s: %s", rextras[r.extra], rbases[base].name, rkind[k]);
				} else {
					snprintf(key, sizeof(key), "redundant field %s next to %s, when placed in front of %s: %s", rextras[r.extra], rbases[base].name,
						 rbases[base].f[q[rmin[k].pos]], rkind[k]);
				}
			}
			snprintf(cas, sizeof(cas), "X %d %llu %d", base, (unsigned long long)idx, rd);
			snprintf(cmd, sizeof(cmd), "dconv -f '%s' %04d-%02d-%02d | dconv -i '%s'", fs, p->y, p->m, p->d, fs);
			ex_viol(key, (double)rd, cas, cmd, "format '%s' (minimal failing: '%s'): %04d-%02d-%02d prints as '%s'; %s%s%s%s", fs, fmins, p->y, p->m, p->d, text,
				rkind[k], got[0] ? " (reads back as " : "", got, got[0] ? ")" : "");
			if (replay_verbose) {
				printf("  VIOLATION [%s] %04d-%02d-%02d prints as '%s'; %s %s\n", key, p->y, p->m, p->d, text, rkind[k], got);
				replay_fails++;
			}
		}
	}
	(void)rfmt_to_index;
	return bad;
}

/* ---- N: calendar-name formats that are documented as input formats ---- */
static const char *const nnames[] = {"jdn", "julian", "ldn", "lilian", "mdn", "matlab"};
#define NNNAMES	6

static void
run_named(int k, int rd0, int rd1, int only_sec)
{
	EX_CTR(c_trans, "transitions");
	EX_CTR(c_eval, "evaluations");
	EX_CTR(c_nm, "named_format_cases");
	char src[64], text[96], key[200], cas[64], cmd[200], got[64];

	for (int rd = rd0; rd < rd1; rd++) {
		const struct rc_day *p = rc_get(rd);
		/* dates: once per day; date-times: every second of the day when a single day is asked for, else 7 times */
		static const int T8[8] = {-1, 0, 1, 3599, 43199, 45296, 75601, 86399};
		int nt = (rd1 - rd0 == 1) ? 86401 : 8;
		for (int t = 0; t < nt; t++) {
			int sec = (rd1 - rd0 == 1) ? t - 1 : T8[t];
			struct dt_dt_s v, v2;
			char *ep = NULL;
			const char *why = NULL;
			size_t n;

			if (only_sec != -2 && sec != only_sec) {
				continue;
			}
			if (sec < 0) {
				snprintf(src, sizeof(src), "%04d-%02d-%02d", p->y, p->m, p->d);
			} else {
				snprintf(src, sizeof(src), "%04d-%02d-%02dT%02d:%02d:%02d", p->y, p->m, p->d, sec / 3600, sec / 60 % 60, sec % 60);
			}
			v = dt_strpdt(src, NULL, NULL);
			n = dt_strfdt(text, sizeof(text), nnames[k], v);
			*c_eval += 3;
			++*c_trans;
			++*c_nm;
			if (n == 0 || n >= sizeof(text)) {
				continue;
			}
			v2 = dt_strpdt(text, nnames[k], &ep);
			got[0] = '\0';
			if (dt_unk_p(v2)) {
				why = "the text is rejected when read with the same name";
			} else {
				struct dt_dt_s c = dt_dtconv((dt_dttyp_t)DT_DAISY, v2);
				dt_strfdt(got, sizeof(got), sec < 0 ? "%F" : "%FT%T", v2);
				if ((int)c.d.daisy != p->rd + 1) {
					why = "reads back as a different day";
				} else if (sec >= 0 && !(dt_sandwich_p(v2) && (int)v2.t.hms.h == sec / 3600 && (int)v2.t.hms.m == sec / 60 % 60 && (int)v2.t.hms.s == sec % 60)) {
					why = dt_sandwich_p(v2) ? "reads back as a different time" : "reads back without its time";
				} else if (ep == NULL || *ep != '\0') {
					why = "the text is not consumed completely";
				}
			}
			if (why) {
				snprintf(key, sizeof(key), "calendar-name format %s, %s: %s", nnames[k], sec < 0 ? "date" : "date-time", why);
				snprintf(cas, sizeof(cas), "N %d %d %d", k, rd, sec);
				snprintf(cmd, sizeof(cmd), "dconv -f %s %s | dconv -i %s -f '%s'", nnames[k], src, nnames[k], sec < 0 ? "%F" : "%FT%T");
				ex_viol(key, (double)rd + (sec < 0 ? 0.0 : (double)sec / 86400.0), cas, cmd, "%s printed with -f %s is '%s'; %s%s%s", src, nnames[k], text, why,
					got[0] ? ": " : "", got);
				if (replay_verbose) {
					printf("  VIOLATION [%s] %s printed with -f %s is '%s'; %s %s\n", key, src, nnames[k], text, why, got);
					replay_fails++;
				}
			} else if (replay_verbose) {
				printf("  %s printed with -f %s is '%s' and reads back\n", src, nnames[k], text);
			}
		}
	}
}

/* ---- E: epoch formats with nanoseconds ---- */
static const char *const efmts[] = {"%s", "%s%N", "%s.%N", "%s %N"};
#define NEFMT	4

static void
run_epoch_ns(int k, int y0, int y1, int only_rd, int only_sec, int only_ns)
{
	EX_CTR(c_trans, "transitions");
	EX_CTR(c_eval, "evaluations");
	EX_CTR(c_ep, "epoch_format_cases");
	static const int T7[7] = {0, 1, 3599, 3600, 43199, 43200, 86399};
	static const int NS[2] = {0, 123};
	char src[64], text[96], text2[96], key[200], cas[64], cmd[240];

	for (int rd = rc_yearstart[y0]; rd < rc_yearstart[y1 + 1]; rd++) {
		const struct rc_day *p = rc_get(rd);
		if (only_rd >= 0 && rd != only_rd) {
			continue;
		}
		for (int t = 0; t < 7; t++) {
			for (int q = 0; q < 2; q++) {
				int sec = T7[t], ns = NS[q];
				struct dt_dt_s v, v2, s2;
				char *ep = NULL;
				const char *why = NULL;
				size_t n;

				if (only_rd >= 0 && (sec != only_sec || ns != only_ns)) {
					continue;
				}
				snprintf(src, sizeof(src), "%04d-%02d-%02dT%02d:%02d:%02d", p->y, p->m, p->d, sec / 3600, sec / 60 % 60, sec % 60);
				v = dt_strpdt(src, NULL, NULL);
				v.t.hms.ns = (unsigned int)ns;	/* the format-less parser keeps no fraction */
				n = dt_strfdt(text, sizeof(text), efmts[k], v);
				*c_eval += 3;
				++*c_trans;
				++*c_ep;
				if (n == 0 || n >= sizeof(text)) {
					continue;
				}
				v2 = dt_strpdt(text, efmts[k], &ep);
				text2[0] = '\0';
				if (dt_unk_p(v2)) {
					why = "formatted text is rejected by the parser";
				} else {
					s2 = dt_dtconv((dt_dttyp_t)DT_SEXY, v2);
					dt_strfdt(text2, sizeof(text2), efmts[k], v2);
					if (!(s2.typ == DT_SEXY && (int64_t)s2.sexy == p->unixd * 86400LL + sec)) {
						why = "parser returns a different second";
					} else if (strcmp(text, text2)) {
						why = "the parsed value prints differently (nanoseconds lost)";
					} else if (ep == NULL || *ep != '\0') {
						why = "parser does not consume the whole text";
					}
				}
				if (why) {
					snprintf(key, sizeof(key), "epoch format '%s'%s: %s", efmts[k], ns ? " with nanoseconds" : "", why);
					snprintf(cas, sizeof(cas), "E %d %d %d %d", k, rd, sec, ns);
					snprintf(cmd, sizeof(cmd), "dconv -i '%s' -f '%%FT%%T.%%N' -- '%s'", efmts[k], text);
					ex_viol(key, (double)rd + (double)sec / 86400.0, cas, cmd, "%s.%09d printed with '%s' is '%s'; %s%s%s", src, ns, efmts[k], text, why,
						text2[0] ? "; printed again: " : "", text2);
					if (replay_verbose) {
						printf("  VIOLATION [%s] %s.%09d printed with '%s' is '%s'; %s (%s)\n", key, src, ns, efmts[k], text, why, text2);
						replay_fails++;
					}
				} else if (replay_verbose) {
					printf("  %s.%09d printed with '%s' is '%s' and reads back\n", src, ns, efmts[k], text);
				}
			}
		}
	}
}

/* ---- stdin legs beyond the grammar (audit round 2) ----
 * SX1  %T or %F directly behind another specifier (2012030112:34:56 under %Y%m%d%T)
 * SX2  %s followed by a literal, incl. negative 10- and 11-digit epochs (only a different value is judged)
 * SX3  calendar names as -i with date-time lines (2012-02-29T04:38:54 under -i ymd)
 * lines = the formatted text of the values, alone and as "foo <text> bar"; expected = what the library makes
 * of the same text under the same format (= argument mode), printed with %FT%T; only texts the library
 * accepts are judged. */
static const struct {
	const char *fmt;
	int grp;	/* 1 %T/%F behind a specifier, 2 %s + literal, 3 calendar name */
} sx_fmts[] = {
	{"%Y%m%d%T", 1}, {"%d%T", 1}, {"%j%T", 1}, {"%Y%j%T", 1}, {"%m%d%T", 1}, {"%y%m%d%T", 1}, {"%a%T", 1}, {"%b%d%T", 1},
	{"%a%F", 1}, {"%H%F", 1}, {"%H%M%F", 1}, {"%H%M%S%F", 1}, {"%A%F", 1}, {"%u%F", 1}, {"%j%F", 1}, {"%V%F", 1},
	{"%Y%m%dT%T", 1}, {"%F%T", 1}, {"%T%F", 1},
	{"%s,", 2}, {"%s UTC", 2}, {"%s;", 2}, {"%s.%N", 2}, {"%s %Z", 2}, {"%s-", 2}, {"%s/x", 2},
	{"ymd", 3}, {"ywd", 3}, {"ymcw", 3}, {"bizda", 3}, {"yd", 3},
};
#define NSXFMT	((int)(sizeof(sx_fmts) / sizeof(*sx_fmts)))
static const char *const sx_grp[] = {"", "%T or %F directly behind a specifier", "%s followed by a literal", "calendar name as input format, date-time line"};

static void
run_stdin_extra(int k, int only_v, int only_shape)
{
	EX_CTR(c_sb, "stdin_extra_formats");
	EX_CTR(c_sbl, "stdin_extra_lines");
	EX_CTR(c_sbj, "stdin_extra_lines_judged");
	const char *rundir = getenv("VERIF_RUNDIR");
	const char *fs = sx_fmts[k].fmt;
	int grp = sx_fmts[k].grp;
	static char texts[1500][64], exps[1500][40];
	static int ok[1500];
	char fin[600], fout[600], ferr[600], cmd[2600], key[320], cas[96], rej[256] = "", out[256], src[64];
	FILE *fi, *fo, *fe;
	int nv = 0, have_rej = 0;
	static const int eyears[5] = {2000, 1900, 1601, 1640, 4090};

	if (rundir == NULL || ex.tree == NULL) {
		return;
	}
	++*c_sb;
	{
		char bt[32];
		snprintf(bt, sizeof(bt), "%04d-01-01T00:00:00", W8[0].y0);
		dt_set_base(dt_strpdt(bt, NULL, NULL));
	}
	for (int yi = 0; yi < (grp == 2 ? 5 : 1); yi++) {
		for (int rd = rc_yearstart[eyears[yi]]; rd < rc_yearstart[eyears[yi] + 1] && nv < 1500; rd++) {
			const struct rc_day *p = rc_get(rd);
			struct dt_dt_s v, v2;
			size_t n;
			if (grp == 3 && !strcmp(fs, "bizda") && !p->isbd) {
				continue;
			}
			snprintf(src, sizeof(src), "%04d-%02d-%02dT%s", p->y, p->m, p->d, grp == 2 ? "04:02:07" : grp == 3 ? "04:38:54" : "12:34:56");
			v = dt_strpdt(src, NULL, NULL);
			n = dt_strfdt(texts[nv], sizeof(texts[nv]) - 1, fs, v);
			if (n == 0 || n >= sizeof(texts[nv]) - 1) {
				continue;
			}
			texts[nv][n] = '\0';
			v2 = dt_strpdt(texts[nv], fs, NULL);
			ok[nv] = !dt_unk_p(v2);
			exps[nv][0] = '\0';
			if (ok[nv]) {
				dt_strfdt(exps[nv], sizeof(exps[nv]), "%FT%T", v2);
			}
			nv++;
		}
	}
	snprintf(fin, sizeof(fin), "%s/c09x.%d.in", rundir, k);
	snprintf(fout, sizeof(fout), "%s/c09x.%d.out", rundir, k);
	snprintf(ferr, sizeof(ferr), "%s/c09x.%d.err", rundir, k);
	if ((fi = fopen(fin, "w")) == NULL) {
		return;
	}
	for (int v = 0; v < nv; v++) {
		fprintf(fi, "%s\nfoo %s bar\n", texts[v], texts[v]);
	}
	fclose(fi);
	snprintf(cmd, sizeof(cmd), "LOCALE_FILE='%s/data/locale' '%s/src/dconv' --base %04d-01-01 -i '%s' -f '%%FT%%T' < '%s' > '%s' 2> '%s'", ex.tree, ex.tree,
		 W8[0].y0, fs, fin, fout, ferr);
	if (system(cmd) != 0) {
		;
	}
	fo = fopen(fout, "r");
	fe = fopen(ferr, "r");
	if (fo == NULL || fe == NULL) {
		return;
	}
#define SX_NEXT_REJ()	do { \
		char l_[400]; \
		have_rej = 0; \
		while (fgets(l_, sizeof(l_), fe)) { \
			char *a_ = strchr(l_, '`'), *b_ = strstr(l_, "' using the given input formats"); \
			if (a_ && b_ && b_ > a_) { \
				*b_ = '\0'; \
				snprintf(rej, sizeof(rej), "%s", a_ + 1); \
				have_rej = 1; \
				break; \
			} \
		} \
	} while (0)
	SX_NEXT_REJ();
	for (int v = 0; v < nv; v++) {
		for (int shape = 0; shape < 2; shape++) {
			char line[160];
			int rejected = 0;
			snprintf(line, sizeof(line), shape ? "foo %s bar" : "%s", texts[v]);
			++*c_sbl;
			if (have_rej && !strcmp(rej, line)) {
				rejected = 1;
				SX_NEXT_REJ();
			} else {
				out[0] = '\0';
				if (fgets(out, sizeof(out), fo)) {
					out[strcspn(out, "\n")] = '\0';
				} else {
					rejected = 2;
				}
			}
			if (!ok[v] || (only_v >= 0 && (v != only_v || shape != only_shape))) {
				continue;
			}
			if (grp == 2 && rejected) {
				continue;	/* variable-width first field: a refusal is not judged */
			}
			++*c_sbj;
			if (rejected || strcmp(out, exps[v])) {
				snprintf(key, sizeof(key), "stdin-binding %s, format '%s' line=%s: %s", sx_grp[grp], fs, shape ? "embedded (foo <text> bar)" : "text alone",
					 rejected == 1 ? "line is refused" : rejected == 2 ? "line is neither converted nor refused" : "line is converted to a different value");
				snprintf(cas, sizeof(cas), "Y %d %d %d", k, v, shape);
				snprintf(cmd, sizeof(cmd), "echo '%s' | dconv -i '%s' -f '%%FT%%T'", line, fs);
				ex_viol(key, (double)v, cas, cmd, "format '%s': the line '%s' on stdin gives '%s'%s; the same text as an argument / at library level reads as %s", fs, line,
					rejected ? "" : out, rejected == 1 ? " (cannot make sense of)" : rejected == 2 ? " (nothing)" : "", exps[v]);
				if (replay_verbose) {
					printf("  VIOLATION [%s] line '%s' gives '%s'%s, expected %s\n", key, line, rejected ? "" : out, rejected ? " (refused)" : "", exps[v]);
					replay_fails++;
				}
			} else if (replay_verbose) {
				printf("  line '%s' gives '%s'\n", line, out);
			}
		}
	}
	fclose(fo);
	fclose(fe);
	unlink(fin);
	unlink(fout);
	unlink(ferr);
}

/* ---- dates held as bizda "before ultimo" (NNB): every way of printing them must name the same day ---- */
static void
run_bizda_before(int y0, int y1, int only_rd, int only_f)
{
	EX_CTR(c_trans, "transitions");
	EX_CTR(c_eval, "evaluations");
	EX_CTR(c_bb, "bizda_before_ultimo_cases");
	static const char *const fm[] = {NULL, "%F", "ymd", "ywd", "%Y-%m-%d %a", "bizda", "%Y-%m-%dB"};
	char src[32], text[96], got[64], key[200], cas[64], cmd[200];

	for (int rd = rc_yearstart[y0]; rd < rc_yearstart[y1 + 1]; rd++) {
		const struct rc_day *p = rc_get(rd);
		int total = 0;
		struct dt_dt_s v;
		if (!p->isbd || (only_rd >= 0 && rd != only_rd)) {
			continue;
		}
		/* business days of the month behind this one */
		for (int q = rd + 1; q < RC_NDAYS && rc_get(q)->m == p->m; q++) {
			total += rc_get(q)->isbd;
		}
		snprintf(src, sizeof(src), "%04d-%02d-%02dB", p->y, p->m, total);
		{
			int g0;
			memset(&v, 0, sizeof(v));
			EX_GUARD_BEGIN(g0) {
				v = dt_strpdt(src, NULL, NULL);
			} EX_GUARD_END;
			(void)g0;
		}
		if (dt_unk_p(v)) {
			continue;	/* the spelling is refused: the default-output leg of bizda reports that */
		}
		for (int f = 0; f < 7; f++) {
			struct dt_dt_s v2, c;
			const char *volatile why = NULL;
			volatile size_t n;
			if (only_rd >= 0 && f != only_f) {
				continue;
			}
			int grc;
			n = 0;
			EX_GUARD_BEGIN(grc) {
				n = dt_strfdt(text, sizeof(text), fm[f], v);
			} EX_GUARD_END;
			*c_eval += 3;
			++*c_trans;
			++*c_bb;
			if (grc) {
				snprintf(key, sizeof(key), "date held as bizda before ultimo (NNB) printed with %s: the formatter aborts", fm[f] ? fm[f] : "the default format");
				snprintf(cas, sizeof(cas), "Q %d %d", rd, f);
				snprintf(cmd, sizeof(cmd), "dconv %s%s%s%s", src, fm[f] ? " -f '" : "", fm[f] ? fm[f] : "", fm[f] ? "'" : "");
				ex_viol(key, (double)rd, cas, cmd, "%s (= %04d-%02d-%02d, %d business days before the month's last one): abort() (assertion in lib/bizda.c)", src, p->y, p->m,
					p->d, total);
				if (replay_verbose) {
					printf("  VIOLATION [%s] %s\n", key, src);
					replay_fails++;
				}
				continue;
			}
			if (n == 0 || n >= sizeof(text)) {
				continue;
			}
			got[0] = '\0';
			EX_GUARD_BEGIN(grc) {
				v2 = dt_strpdt(text, f == 4 || f == 6 ? fm[f] : NULL, NULL);
				if (dt_unk_p(v2)) {
					why = "the printed text is rejected";
				} else {
					c = dt_dtconv((dt_dttyp_t)DT_DAISY, v2);
					dt_strfdt(got, sizeof(got), "%F", dt_dtconv((dt_dttyp_t)DT_YMD, v2));
					if ((int)c.d.daisy != p->rd + 1) {
						why = "the printed text names a different day";
					}
				}
			} EX_GUARD_END;
			if (grc) {
				why = "reading the printed text back aborts (assertion in lib/bizda.c)";
			}
			if (why) {
				snprintf(key, sizeof(key), "date held as bizda before ultimo (NNB) printed with %s: %s", fm[f] ? fm[f] : "the default format", why);
				snprintf(cas, sizeof(cas), "Q %d %d", rd, f);
				snprintf(cmd, sizeof(cmd), "dconv %s%s%s%s", src, fm[f] ? " -f '" : "", fm[f] ? fm[f] : "", fm[f] ? "'" : "");
				ex_viol(key, (double)rd, cas, cmd, "%s (= %04d-%02d-%02d, %d business days before the month's last one) prints as '%s'; %s%s%s", src, p->y, p->m, p->d,
					total, text, why, got[0] ? ": " : "", got);
				if (replay_verbose) {
					printf("  VIOLATION [%s] %s prints as '%s'; %s %s\n", key, src, text, why, got);
					replay_fails++;
				}
			} else if (replay_verbose) {
				printf("  %s prints as '%s' and reads back as %s\n", src, text, got);
			}
		}
	}
}

/* ---- stdin: TWO input formats that share their first literal (fourth wave) ----
 * ordered pairs (A, B) of a small set of formats with the same first separator; lines = the text of every day
 * of 2000 (every boundary second for times) printed with A and with B, alone and embedded; expected = what the
 * argument mode does: the first of the two formats the library accepts the text under. */
static const char *const sp_date[] = {"%d-%m-%Y", "%Y-%m-%d", "%m-%d-%Y", "%Y-%j", "%j-%Y", "%d/%m/%Y", "%Y/%m/%d", "%m/%d/%Y", "%d %m %Y", "%Y %m %d",
	"%d %b %Y", "%b %d %Y", "%d.%m.%Y", "%Y.%m.%d"};
static const char *const sp_time[] = {"%H:%M:%S", "%H:%M", "%I:%M:%S %p", "%M:%S.%N"};
#define NSPD	14
#define NSPT	4
static int
sp_first_lit(const char *f)
{
	for (; *f; f++) {
		if (*f == '%') {
			f++;
			while (*f == '-' || *f == '_' || *f == 'O' || *f == '0' || *f == ' ') {
				f++;
			}
		} else {
			return (unsigned char)*f;
		}
	}
	return 0;
}
static int
sp_npairs(void)
{
	return NSPD * NSPD + NSPT * NSPT;
}
static void
run_stdin_pair(int k, int only_v, int only_shape)
{
	EX_CTR(c_sb, "stdin_pair_invocations");
	EX_CTR(c_sbl, "stdin_pair_lines");
	EX_CTR(c_sbj, "stdin_pair_lines_judged");
	const char *rundir = getenv("VERIF_RUNDIR");
	int timep = k >= NSPD * NSPD, kk = timep ? k - NSPD * NSPD : k, n = timep ? NSPT : NSPD;
	const char *const *set = timep ? sp_time : sp_date;
	const char *fa = set[kk / n], *fb = set[kk % n];
	const char *ofmt = timep ? "%T" : "%F";
	static char texts[2200][64], exps[2200][40];
	static int ok[2200];
	char fin[600], fout[600], ferr[600], cmd[2800], key[320], cas[96], rej[256] = "", out[256], src[64];
	FILE *fi, *fo, *fe;
	int nv = 0, have_rej = 0;

	if (rundir == NULL || ex.tree == NULL || kk / n == kk % n || sp_first_lit(fa) != sp_first_lit(fb)) {
		return;
	}
	++*c_sb;
	{
		char bt[32];
		snprintf(bt, sizeof(bt), "%04d-01-01T00:00:00", W8[0].y0);
		dt_set_base(dt_strpdt(bt, NULL, NULL));
	}
	for (int which = 0; which < 2; which++) {
		const char *pf = which ? fb : fa;
		int cnt = timep ? 24 * 5 * 3 : 366;
		for (int i = 0; i < cnt && nv < 2200; i++) {
			struct dt_dt_s v, v2;
			size_t l;
			if (timep) {
				static const int ms[] = {0, 1, 9, 10, 59}, ss[] = {0, 1, 59};
				int sec = (i / 15) * 3600 + ms[i / 3 % 5] * 60 + ss[i % 3];
				snprintf(src, sizeof(src), "%02d:%02d:%02d", sec / 3600, sec / 60 % 60, sec % 60);
			} else {
				const struct rc_day *p = rc_get(rc_yearstart[2000] + i);
				snprintf(src, sizeof(src), "%04d-%02d-%02d", p->y, p->m, p->d);
			}
			v = dt_strpdt(src, NULL, NULL);
			l = dt_strfdt(texts[nv], sizeof(texts[nv]) - 1, pf, v);
			if (l == 0 || l >= sizeof(texts[nv]) - 1) {
				continue;
			}
			texts[nv][l] = '\0';
			/* argument mode: the formats in the order given */
			v2 = dt_strpdt(texts[nv], fa, NULL);
			if (dt_unk_p(v2)) {
				v2 = dt_strpdt(texts[nv], fb, NULL);
			}
			ok[nv] = !dt_unk_p(v2);
			/* only texts that can be read one way: the format that did not print the text refuses it from every
			 * offset (13-01-2000 under %m-%d-%Y reads as 3-01-2000 from offset 1, the search is free to find that) */
			for (const char *t = texts[nv]; ok[nv] && *t; t++) {
				if (!dt_unk_p(dt_strpdt(t, which ? fa : fb, NULL))) {
					ok[nv] = 0;
				}
			}
			/* only texts that can be read one way: the format that did not print the text refuses it from every
			 * offset (13-01-2000 under %m-%d-%Y reads as 3-01-2000 from offset 1, the search is free to find that) */
			for (const char *t = texts[nv]; ok[nv] && *t; t++) {
				if (!dt_unk_p(dt_strpdt(t, which ? fa : fb, NULL))) {
					ok[nv] = 0;
				}
			}
			exps[nv][0] = '\0';
			if (ok[nv]) {
				dt_strfdt(exps[nv], sizeof(exps[nv]), ofmt, v2);
			}
			nv++;
		}
	}
	snprintf(fin, sizeof(fin), "%s/c09p.%d.in", rundir, k);
	snprintf(fout, sizeof(fout), "%s/c09p.%d.out", rundir, k);
	snprintf(ferr, sizeof(ferr), "%s/c09p.%d.err", rundir, k);
	if ((fi = fopen(fin, "w")) == NULL) {
		return;
	}
	for (int v = 0; v < nv; v++) {
		fprintf(fi, "%s\nfoo %s bar\n", texts[v], texts[v]);
	}
	fclose(fi);
	snprintf(cmd, sizeof(cmd), "LOCALE_FILE='%s/data/locale' '%s/src/dconv' --base %04d-01-01 -i '%s' -i '%s' -f '%s' < '%s' > '%s' 2> '%s'", ex.tree, ex.tree,
		 W8[0].y0, fa, fb, ofmt, fin, fout, ferr);
	if (system(cmd) != 0) {
		;
	}
	fo = fopen(fout, "r");
	fe = fopen(ferr, "r");
	if (fo == NULL || fe == NULL) {
		return;
	}
	SX_NEXT_REJ();
	for (int v = 0; v < nv; v++) {
		for (int shape = 0; shape < 2; shape++) {
			char line[160];
			int rejected = 0;
			snprintf(line, sizeof(line), shape ? "foo %s bar" : "%s", texts[v]);
			++*c_sbl;
			if (have_rej && !strcmp(rej, line)) {
				rejected = 1;
				SX_NEXT_REJ();
			} else {
				out[0] = '\0';
				if (fgets(out, sizeof(out), fo)) {
					out[strcspn(out, "\n")] = '\0';
				} else {
					rejected = 2;
				}
			}
			if (!ok[v] || (only_v >= 0 && (v != only_v || shape != only_shape))) {
				continue;
			}
			++*c_sbj;
			if (rejected || strcmp(out, exps[v])) {
				snprintf(key, sizeof(key), "stdin-binding two formats sharing the separator '%c', text of the %s one, line=%s: %s", sp_first_lit(fa),
					 v < nv / 2 ? "first" : "second", shape ? "embedded (foo <text> bar)" : "text alone",
					 rejected == 1 ? "line is refused" : rejected == 2 ? "line is neither converted nor refused" : "line is converted to a different value");
				snprintf(cas, sizeof(cas), "P %d %d %d", k, v, shape);
				snprintf(cmd, sizeof(cmd), "echo '%s' | dconv -i '%s' -i '%s' -f '%s'", line, fa, fb, ofmt);
				ex_viol(key, (double)k, cas, cmd, "-i '%s' -i '%s': the line '%s' on stdin gives '%s'%s; the same text as an argument reads as %s", fa, fb, line,
					rejected ? "" : out, rejected == 1 ? " (cannot make sense of)" : rejected == 2 ? " (nothing)" : "", exps[v]);
				if (replay_verbose) {
					printf("  VIOLATION [%s] -i '%s' -i '%s' line '%s' gives '%s'%s, expected %s\n", key, fa, fb, line, rejected ? "" : out, rejected ? " (refused)" : "", exps[v]);
					replay_fails++;
				}
			} else if (replay_verbose) {
				printf("  -i '%s' -i '%s' line '%s' gives '%s'\n", fa, fb, line, out);
			}
		}
	}
	fclose(fo);
	fclose(fe);
	unlink(fin);
	unlink(fout);
	unlink(ferr);
}
