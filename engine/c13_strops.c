/* c13_strops.c -- C13 (b): the static character-class table of lib/strops.c
 * (table[256], cycle) must not make a search depend on the searches before it.
 *
 * lib/strops.c is included into this TU, so `table' and `cycle' are the real ones.
 * State = (cycle, table).  The state is driven through every cycle position
 * 0..520 (two wraps of the 8-bit counter) by 37 priming disciplines over a 6-set
 * alphabet (every ordered pair (P,Q): P before the first wrap, Q after it; and the
 * rotation of all six); at every position every search of the family
 * (xstrspn xstrcspn xstrpbrk xstrpbrkp xmempbrk) x 6 sets x 10 subjects is run on a
 * copy of the state and must return what it returns in the pristine process image
 * (table all zero, cycle 0 -- checked at start-up to be what a fresh process has). */
#include "impl.h"
#include "explore.h"
#include "strops.c"

#define NSETS	6
static const char *const sets[NSETS] = {"", "a", "ab", "0123456789", "\xff\x80", "a\xff-"};
#define NSUBJ	10
static const char *const subj[NSUBJ] = {"", "a", "xa", "xyz", "x\xff" "a", "0x", "ba", "xx0", "--a", "\x80\x81"};
enum { F_SPN, F_CSPN, F_PBRK, F_PBRKP, F_MEMPBRK, NFN };
static const char *const fn_name[NFN] = {"xstrspn", "xstrcspn", "xstrpbrk", "xstrpbrkp", "xmempbrk"};

static unsigned char saved_table[ALPHABET_SIZE];
static unsigned char saved_cycle;

static void
save(void)
{
	memcpy(saved_table, table, sizeof(table));
	saved_cycle = cycle;
}
static void
restore(void)
{
	memcpy(table, saved_table, sizeof(table));
	cycle = saved_cycle;
}
static void
pristine(void)
{
	memset(table, 0, sizeof(table));
	cycle = 0;
}

/* one search; the result as a number (offset into the subject, and the set offset) */
static long
search(int fn, int si, int ui)
{
	const char *s = subj[ui];
	size_t so = 0;
	switch (fn) {
	case F_SPN: return (long)xstrspn(s, sets[si]);
	case F_CSPN: return (long)xstrcspn(s, sets[si]);
	case F_PBRK: return (long)(xstrpbrk(s, sets[si]) - s);
	case F_PBRKP: {
		long r = (long)(xstrpbrkp(s, sets[si], &so) - s);
		return r * 1000 + (long)so;
	}
	case F_MEMPBRK: return (long)(xmempbrk(s, strlen(s), sets[si]) - s);
	}
	return -1;
}

static long fresh[NFN][NSETS][NSUBJ];

/* priming set of discipline D at position POS */
static int
prime_set(int d, int pos)
{
	if (d < NSETS * NSETS) {
		return pos < 255 ? d / NSETS : d % NSETS;
	}
	return pos % NSETS;
}
#define NDISC	(NSETS * NSETS + 1)
#define NPOS	521

static int
at_position(int d, int pos, int only_fn, int only_si, int only_ui, int replay)
{
	int bad = 0;
	EX_CTR(c_eval, "evaluations");
	EX_CTR(c_trans, "transitions");
	EX_CTR(c_nontriv, "nontrivial");

	save();
	for (int fn = 0; fn < NFN; fn++) {
		for (int si = 0; si < NSETS; si++) {
			for (int ui = 0; ui < NSUBJ; ui++) {
				long r;
				if (only_fn >= 0 && (fn != only_fn || si != only_si || ui != only_ui)) {
					continue;
				}
				restore();
				r = search(fn, si, ui);
				++*c_eval;
				++*c_trans;
				if (pos >= 255) {
					/* the counter has wrapped at least once: stale marks of the first round are in play */
					++*c_nontriv;
				}
				ex_outcome(ex_hash_mix(ex_hash_mix((uint64_t)r, (uint64_t)fn), (uint64_t)(si * 16 + ui)));
				if (r != fresh[fn][si][ui]) {
					char key[128], cas[64];
					snprintf(key, sizeof(key), "strops %s differs set=%d wraps=%d", fn_name[fn], si, pos / 255);
					snprintf(cas, sizeof(cas), "%d %d %d %d %d", d, pos, fn, si, ui);
					ex_viol(key, pos, cas, NULL, "%s(subject #%d, set #%d) after %d earlier searches (discipline %d, cycle %u) returns %ld; in a fresh process %ld",
						fn_name[fn], ui, si, pos, d, (unsigned)saved_cycle, r, fresh[fn][si][ui]);
					bad++;
					if (replay) {
						printf("  FAIL %s(subject #%d, set #%d) at position %d: %ld vs fresh %ld\n", fn_name[fn], ui, si, pos, r, fresh[fn][si][ui]);
					}
				} else if (replay) {
					printf("  ok %s(subject #%d, set #%d) at position %d (cycle %u): %ld as in a fresh process\n", fn_name[fn], ui, si, pos,
					       (unsigned)saved_cycle, r);
				}
			}
		}
	}
	restore();
	return bad;
}

int
main(int argc, char *argv[])
{
	EX_CTR(c_states, "states");
	EX_CTR(c_traces, "traces");

	ex_init(argc, argv);
	/* the process image as the loader made it */
	for (int i = 0; i < ALPHABET_SIZE; i++) {
		if (table[i]) {
			fprintf(stderr, "c13_strops: table is not zero at start-up\n");
			return 3;
		}
	}
	if (cycle) {
		fprintf(stderr, "c13_strops: cycle is not zero at start-up\n");
		return 3;
	}
	for (int fn = 0; fn < NFN; fn++) {
		for (int si = 0; si < NSETS; si++) {
			for (int ui = 0; ui < NSUBJ; ui++) {
				pristine();
				fresh[fn][si][ui] = search(fn, si, ui);
			}
		}
	}
	pristine();

	if (ex.cas) {
		int d, pos, fn, si, ui, bad;
		if (sscanf(ex.cas, "%d %d %d %d %d", &d, &pos, &fn, &si, &ui) != 5 || d < 0 || d >= NDISC || pos < 0 || pos >= NPOS ||
		    fn < 0 || fn >= NFN || si < 0 || si >= NSETS || ui < 0 || ui >= NSUBJ) {
			return ex_replay_result(1, "bad case '%s'", ex.cas);
		}
		for (int p = 0; p < pos; p++) {
			(void)xmempbrk("q", 1, sets[prime_set(d, p)]);
		}
		bad = at_position(d, pos, fn, si, ui, 1);
		return ex_replay_result(bad, "%s", ex.cas);
	}

	ex_meta("rule", "strops table/cycle: %d priming disciplines (every ordered pair of the %d sets: first before, second after the first wrap; plus the rotation of all) "
		"x cycle positions 0..%d (two wraps of the 8-bit counter) x {xstrspn,xstrcspn,xstrpbrk,xstrpbrkp,xmempbrk} x %d sets x %d subjects; the real state (table, cycle) "
		"is saved, each search runs on a copy and must return what it returns with the pristine image (all zero, verified at start-up). non-trivial = searches after the first wrap",
		NDISC, NSETS, NPOS - 1, NSETS, NSUBJ);
	ex_meta("bound", "complete (both tiers): %d x %d positions x %d searches", NDISC, NPOS, NFN * NSETS * NSUBJ);

	for (int d = 0; d < NDISC && !ex_expired(); d++) {
		if (!ex_mine((uint64_t)d)) {
			continue;
		}
		pristine();
		for (int pos = 0; pos < NPOS; pos++) {
			at_position(d, pos, -1, -1, -1, 0);
			++*c_states;
			/* advance the state by one priming search */
			(void)xmempbrk("q", 1, sets[prime_set(d, pos)]);
		}
		++*c_traces;
		if (ex_want_sample()) {
			ex_sample("discipline %d (sets #%d then #%d): %d cycle positions x %d searches, each equal to the fresh-image result", d,
				  prime_set(d, 0), prime_set(d, 300), NPOS, NFN * NSETS * NSUBJ);
		}
	}
	return ex_finish();
}
