/* c08_cmp.c -- C08 (library level): comparison is the chronological total order.
 *
 * Model: the reference calendar's day ordinal (refcal.h) and the second of the
 * day; instant(a) = rd * 86400 + second (+ nanoseconds).  The implementation's
 * dt_dcmp / dt_dtcmp / dt_tcmp must answer sign(instant(a) - instant(b)) for
 * values of the same kind.  Agreement on ALL ordered pairs of a set implies
 * antisymmetry, transitivity, totality and "equal iff same instant" on that
 * set, so triples are only needed for the range predicates.
 *
 * Values are obtained the way the tools obtain them ("producers"):
 *   P  parsed from the representation's standard text by dt_strpdt()
 *   C  converted from the parsed ymd value by dt_dtconv()
 *   A  computed: P(day - 1) + 1 day by dt_dtadd() (what dseq compares with
 *      its parsed bounds)
 * C and A values take part only if they denote the day (their day count is
 * the model's); whether conversions/additions are right is C01/C03's business.
 *
 * Sections (slices in this order):
 *   WIN   all ordered pairs of every 8-year window x representation x producer pair
 *   NBR   every day of 1601..4095 against day + {0,1,7,27..31,365,366}, both orders
 *   DT    date-times: day set x time set, all ordered pairs, per representation
 *   T     times of day: every second against second + K, and a 110-value set squared
 *   RNG   dt_d_in_range_p / dt_dt_in_range_p on all triples of 30-value windows */
#include "impl.h"
#include "explore.h"
#include "refcal.h"

enum { R_YMD, R_YMCW, R_YWD, R_YD, R_BIZDA, R_DAISY, R_LDN, R_JDN, R_MDN, NREP, R_SEXY = NREP, R_SEXYFMT, NREPDT };
static const char *const rep_name[NREPDT] = {"ymd", "ymcw", "ywd", "yd", "bizda", "daisy", "ldn", "jdn", "mdn", "epoch@", "epoch%s"};
static const dt_dtyp_t rep_typ[NREP] = {DT_YMD, DT_YMCW, DT_YWD, DT_YD, DT_BIZDA, DT_DAISY, DT_LDN, DT_JDN, DT_MDN};
/* input format for the day numbers (documented input formats: -i ldn | jdn | mdn) */
static const char *const rep_ifmt[NREP] = {NULL, NULL, NULL, NULL, NULL, NULL, "ldn", "jdn", "mdn"};
#define REP_DAYNUM_P(r)	((r) == R_LDN || (r) == R_JDN || (r) == R_MDN)
enum { P_PARSE, P_CONV, P_ADD, NPROD };
static const char prod_name[NPROD] = {'P', 'C', 'A'};

static struct dt_dtdur_s dur_1d;

static int
date_text(int rep, const struct rc_day *p, char *buf, size_t bsz)
{
	switch (rep) {
	case R_YMD: snprintf(buf, bsz, "%04d-%02d-%02d", p->y, p->m, p->d); return 1;
	case R_YMCW: snprintf(buf, bsz, "%04d-%02d-%02d-%02d", p->y, p->m, p->mcnt, p->wd); return 1;
	case R_YWD: snprintf(buf, bsz, "%04d-W%02d-%d", p->isoy, p->isow, p->wd); return 1;
	case R_YD: snprintf(buf, bsz, "%04d-%03d", p->y, p->yday); return 1;
	case R_BIZDA:
		if (!p->isbd) {
			return 0;
		}
		snprintf(buf, bsz, "%04d-%02d-%02db", p->y, p->m, p->bd);
		return 1;
	case R_LDN: snprintf(buf, bsz, "%lld", (long long)rc_ldn(p->rd)); return 1;
	case R_JDN: snprintf(buf, bsz, "%.1f", rc_jdn(p->rd)); return 1;
	case R_MDN: snprintf(buf, bsz, "%lld", (long long)rc_mdn(p->rd)); return 1;
	}
	return 0;
}

static int
denotes(struct dt_dt_s v, int rd)
{
	struct dt_d_s x;
	if (dt_unk_p(v)) {
		return 0;
	}
	x = dt_dconv(DT_DAISY, v.d);
	return x.typ == DT_DAISY && x.daisy == (dt_daisy_t)(rd + 1);
}

/* the value of day RD in representation REP from producer PROD; 0 if there is none */
static int
mkdate(int rep, int prod, int rd, struct dt_dt_s *out)
{
	const struct rc_day *p = rc_get(rd);
	char text[64];
	struct dt_dt_s v;

	if (p == NULL) {
		return 0;
	}
	switch (prod) {
	case P_PARSE:
		if (rep == R_DAISY) {
			/* a day count has no text of its own: the tools hold one only after
			 * a conversion, which is what P means for this representation */
			date_text(R_YMD, p, text, sizeof(text));
			v = dt_strpdt(text, NULL, NULL);
			if (dt_unk_p(v)) {
				return 0;
			}
			v = dt_dtconv((dt_dttyp_t)DT_DAISY, v);
			if (!denotes(v, rd)) {
				return 0;
			}
			break;
		}
		if (!date_text(rep, p, text, sizeof(text))) {
			return 0;
		}
		v = dt_strpdt(text, rep_ifmt[rep], NULL);
		if (dt_unk_p(v)) {
			return 0;
		}
		break;
	case P_CONV:
		if (rep == R_DAISY || rep == R_YMD || REP_DAYNUM_P(rep)) {
			/* day numbers are explored as read with -i ldn|jdn|mdn only */
			return 0;
		}
		date_text(R_YMD, p, text, sizeof(text));
		v = dt_strpdt(text, NULL, NULL);
		if (dt_unk_p(v)) {
			return 0;
		}
		v = dt_dtconv((dt_dttyp_t)rep_typ[rep], v);
		if (v.d.typ != rep_typ[rep] || !denotes(v, rd)) {
			return 0;
		}
		break;
	case P_ADD: {
		struct dt_dt_s w;
		if (rd == 0 || REP_DAYNUM_P(rep) || !mkdate(rep, P_PARSE, rd - 1, &w)) {
			return 0;
		}
		v = dt_dtadd(w, dur_1d);
		if (v.d.typ != rep_typ[rep] || !denotes(v, rd)) {
			return 0;
		}
		break;
	}
	default:
		return 0;
	}
	*out = v;
	return 1;
}

static inline int
sgn64(int64_t x)
{
	return (x > 0) - (x < 0);
}

static const char*
sgn_name(int s)
{
	switch (s) {
	case -1: return "lt";
	case 0: return "eq";
	case 1: return "gt";
	case -2: return "incomparable";
	}
	return "?";
}

static void
day_str(char *buf, size_t bsz, int rd)
{
	const struct rc_day *p = rc_get(rd);
	snprintf(buf, bsz, "%04d-%02d-%02d", p->y, p->m, p->d);
}

/* ---- section WIN / NBR: one ordered pair of dates ---- */
static int
judge_dates(int rep, int pa, int pb, int rda, int rdb, const struct dt_dt_s *a, const struct dt_dt_s *b, int replay)
{
	int e = sgn64((int64_t)rda - rdb);
	int r1 = dt_dcmp(a->d, b->d);
	int r2 = dt_dtcmp(*a, *b);
	int bad = 0;
	EX_CTR(c_trans, "transitions");
	EX_CTR(c_eval, "evaluations");

	*c_trans += 2;
	*c_eval += 2;
	ex_outcome(ex_hash_mix(ex_hash_mix((uint64_t)(r1 + 2) * 5 + (uint64_t)(r2 + 2), a->d.u), b->d.u));
	for (int f = 0; f < 2; f++) {
		int r = f ? r2 : r1;
		/* a representation-wide defect fails on 10^7 pairs: after the first case of a class
		 * only its count and range are kept (same aggregation as ex_viol, without the texts) */
		static int slot[2][NREP][NPROD][NPROD][3][4];
		int *sl = &slot[f][rep][pa][pb][e + 1][(r + 2) & 3];
		if (r != e && !replay && *sl && (double)rda >= ex.viol[*sl - 1].ord) {
			struct ex_viol_s *vv = ex.viol + (*sl - 1);
			vv->n++;
			if ((double)rda > vv->hi) {
				vv->hi = (double)rda;
			}
			bad++;
			continue;
		}
		if (r != e || replay) {
			char key[160], cas[96], cmd[160], ta[64] = "", tb[64] = "", da[16], db[16];
			const struct rc_day *qa = rc_get(rda), *qb = rc_get(rdb);
			day_str(da, sizeof(da), rda);
			day_str(db, sizeof(db), rdb);
			if (!date_text(rep, qa, ta, sizeof(ta)) || !date_text(rep, qb, tb, sizeof(tb))) {
				snprintf(ta, sizeof(ta), "%s", da);
				snprintf(tb, sizeof(tb), "%s", db);
			}
			if (replay) {
				printf("  %s(%c %s [%s], %c %s [%s]) = %s, timeline says %s\n", f ? "dt_dtcmp" : "dt_dcmp",
				       prod_name[pa], ta, da, prod_name[pb], tb, db, sgn_name(r), sgn_name(e));
			}
			if (r == e) {
				continue;
			}
			bad++;
			snprintf(key, sizeof(key), "%s rep=%s prod=%c%c want=%s got=%s", f ? "dtcmp" : "dcmp", rep_name[rep],
				 prod_name[pa], prod_name[pb], sgn_name(e), sgn_name(r));
			snprintf(cas, sizeof(cas), "D %d %d %d %d %d", rep, pa, pb, rda, rdb);
			if (pa == P_PARSE && pb == P_PARSE && rep_ifmt[rep]) {
				snprintf(cmd, sizeof(cmd), "dtest -i %s %s --cmp %s; echo $?", rep_ifmt[rep], ta, tb);
			} else if (pa == P_PARSE && pb == P_PARSE && rep != R_DAISY) {
				snprintf(cmd, sizeof(cmd), "dtest %s --cmp %s; echo $?", ta, tb);
			} else {
				cmd[0] = '\0';
			}
			ex_viol(key, rda, cas, cmd[0] ? cmd : NULL,
				"%s of %s-held %s (%c, day %s) and %s (%c, day %s) answers '%s', the timeline says '%s'",
				f ? "dt_dtcmp" : "dt_dcmp", rep_name[rep], ta, prod_name[pa], da, tb, prod_name[pb], db, sgn_name(r), sgn_name(e));
			for (int i = 0; i < ex.nviol; i++) {
				if (!strcmp(ex.viol[i].key, key)) {
					*sl = i + 1;
				}
			}
		}
	}
	return bad;
}

/* windows of consecutive days (first year, number of years) */
static const int win_y0[] = {1897, 1997, 1601, 4088, 2009, 2096, 2396, 1969};
#define NWIN_QUICK	4
#define NWIN		((int)(sizeof(win_y0) / sizeof(*win_y0)))
#define WIN_YEARS	8

/* producer pairs explored all-pairs in the windows */
static const int ppairs[][2] = {{P_PARSE, P_PARSE}, {P_PARSE, P_CONV}, {P_CONV, P_PARSE}, {P_PARSE, P_ADD}, {P_ADD, P_PARSE},
	{P_CONV, P_CONV}, {P_ADD, P_ADD}, {P_CONV, P_ADD}, {P_ADD, P_CONV}};
#define NPP_QUICK	5
#define NPP	((int)(sizeof(ppairs) / sizeof(*ppairs)))

static void
do_window(int w, int rep, int pp)
{
	int rd0 = rc_yearstart[win_y0[w]];
	int rd1 = rc_yearstart[win_y0[w] + WIN_YEARS];
	int n = rd1 - rd0;
	int pa = ppairs[pp][0], pb = ppairs[pp][1];
	struct dt_dt_s *va = calloc((size_t)n, sizeof(*va)), *vb = calloc((size_t)n, sizeof(*vb));
	char *oka = calloc((size_t)n, 1), *okb = calloc((size_t)n, 1);
	EX_CTR(c_states, "states");
	EX_CTR(c_traces, "traces");
	EX_CTR(c_nontriv, "nontrivial");
	EX_CTR(c_skip, "skipped:no value of this representation/producer denotes the day (weekend in bizda; conversion or addition is C01/C03's business)");
	EX_CTR(c_eval, "evaluations");

	for (int i = 0; i < n; i++) {
		oka[i] = (char)mkdate(rep, pa, rd0 + i, va + i);
		okb[i] = (char)mkdate(rep, pb, rd0 + i, vb + i);
		*c_eval += 2;
		++*c_states;
	}
	for (int i = 0; i < n && !ex_expired(); i++) {
		if (!oka[i]) {
			*c_skip += (uint64_t)n;
			continue;
		}
		for (int j = 0; j < n; j++) {
			if (!okb[j]) {
				++*c_skip;
				continue;
			}
			judge_dates(rep, pa, pb, rd0 + i, rd0 + j, va + i, vb + j, 0);
			/* non-trivial: the raw words are ordered differently from the days
			 * (possible for ymcw, and for ywd/yd/bizda at seams) or the pair
			 * straddles a year */
			if ((va[i].d.u < vb[j].d.u) != (i < j) || rc_get(rd0 + i)->y != rc_get(rd0 + j)->y) {
				++*c_nontriv;
			}
		}
		if (ex_want_sample()) {
			char da[16];
			day_str(da, sizeof(da), rd0 + i);
			ex_sample("WIN %d-%d rep=%s producers=%c%c: day %s against all %d days of the window (dt_dcmp and dt_dtcmp)",
				  win_y0[w], win_y0[w] + WIN_YEARS - 1, rep_name[rep], prod_name[pa], prod_name[pb], da, n);
		}
	}
	++*c_traces;
	free(va), free(vb), free(oka), free(okb);
}

static const int nbr_k[] = {0, 1, 7, 27, 28, 29, 30, 31, 365, 366};
#define NNBR	((int)(sizeof(nbr_k) / sizeof(*nbr_k)))

static void
do_nbr_year(int y)
{
	int rd0 = rc_yearstart[y], rd1 = rc_yearstart[y + 1];
	int n = rd1 - rd0 + 366;
	static struct dt_dt_s v[NPROD][366 + 366];
	static char ok[NPROD][366 + 366];
	EX_CTR(c_states, "states");
	EX_CTR(c_traces, "traces");
	EX_CTR(c_skip, "skipped:no value of this representation/producer denotes the day (weekend in bizda; conversion or addition is C01/C03's business)");
	EX_CTR(c_eval, "evaluations");

	for (int rep = 0; rep < NREP; rep++) {
		for (int pa = 0; pa < NPROD; pa++) {
			uint64_t *avail;
			char nm[64];
			snprintf(nm, sizeof(nm), "days with a value: rep=%s producer=%c", rep_name[rep], prod_name[pa]);
			avail = ex_ctr(nm);
			for (int i = 0; i < n; i++) {
				ok[pa][i] = (char)(rd0 + i < RC_NDAYS && mkdate(rep, pa, rd0 + i, &v[pa][i]));
				++*c_eval;
				if (ok[pa][i] && rd0 + i < rd1) {
					++*avail;
				}
			}
		}
		for (int i = 0; i < rd1 - rd0; i++) {
			for (int k = 0; k < NNBR; k++) {
				int j = i + nbr_k[k];
				if (rd0 + j >= RC_NDAYS) {
					continue;
				}
				for (int pb = 0; pb < NPROD; pb++) {
					for (int pa = 0; pa < NPROD; pa++) {
						if (!ok[pa][i] || !ok[pb][j]) {
							++*c_skip;
							continue;
						}
						judge_dates(rep, pa, pb, rd0 + i, rd0 + j, &v[pa][i], &v[pb][j], 0);
						if (nbr_k[k]) {
							judge_dates(rep, pb, pa, rd0 + j, rd0 + i, &v[pb][j], &v[pa][i], 0);
						}
					}
				}
			}
		}
	}
	for (int rd = rd0; rd < rd1; rd++) {
		++*c_states;
		if (ex_want_sample()) {
			char da[16];
			day_str(da, sizeof(da), rd);
			ex_sample("NBR day %s x 9 representations x producers {P,C,A}^2 x day+{0,1,7,27..31,365,366}, both orders", da);
		}
	}
	++*c_traces;
}

/* ---- section DT: date-times ---- */
struct tod_s {
	int sod;	/* second of the day; 86400 = the text 24:00:00 */
	int ns;
};
static const struct tod_s dt_tods[] = {
	{0, 0}, {1, 0}, {3599, 0}, {3600, 0}, {43199, 0}, {43200, 0}, {43200, 1}, {43200, 999999999}, {86399, 0}, {86400, 0},
};
#define NTOD	((int)(sizeof(dt_tods) / sizeof(*dt_tods)))

/* days for date-time pairs: (y, m, d) seams */
static const int dt_days[][3] = {
	{1601, 1, 1}, {1601, 1, 2}, {1899, 12, 31}, {1900, 1, 1}, {1900, 2, 28}, {1900, 3, 1}, {1969, 12, 31}, {1970, 1, 1},
	{1970, 1, 2}, {1999, 12, 31}, {2000, 1, 1}, {2000, 2, 28}, {2000, 2, 29}, {2000, 3, 1}, {2008, 12, 28}, {2008, 12, 29},
	{2009, 1, 1}, {2010, 1, 3}, {2010, 1, 4}, {2010, 12, 31}, {2011, 1, 1}, {2011, 1, 2}, {2011, 1, 3}, {2012, 2, 28},
	{2012, 2, 29}, {2012, 3, 1}, {2012, 3, 30}, {2012, 3, 31}, {2012, 4, 1}, {2012, 4, 2}, {2012, 12, 30}, {2012, 12, 31},
	{2013, 1, 1}, {2038, 1, 19}, {2038, 1, 20}, {2099, 12, 31}, {2100, 1, 1}, {2100, 3, 1}, {4095, 12, 30}, {4095, 12, 31},
};
#define NDTDAY	((int)(sizeof(dt_days) / sizeof(*dt_days)))

static int
dt_text(int rep, int rd, const struct tod_s *t, char *buf, size_t bsz, const char **fmt)
{
	const struct rc_day *p = rc_get(rd);
	char d[48];
	int h = t->sod / 3600, m = t->sod / 60 % 60, s = t->sod % 60;

	*fmt = NULL;
	if (rep == R_SEXY || rep == R_SEXYFMT) {
		if (t->ns) {
			return 0;
		}
		snprintf(buf, bsz, "%s%lld", rep == R_SEXY ? "@" : "", (long long)p->unixd * 86400LL + t->sod);
		if (rep == R_SEXYFMT) {
			*fmt = "%s";
		}
		return 1;
	}
	if (REP_DAYNUM_P(rep)) {
		return 0;	/* day numbers with a time part are fractions; only their dates are explored */
	}
	if (rep == R_DAISY) {
		rep = R_YMD;
	}
	if (!date_text(rep, p, d, sizeof(d))) {
		return 0;
	}
	if (t->ns) {
		static const char *const nsfmt[NREP] = {"%FT%T.%N", "%Y-%m-%c-%wT%T.%N", "%G-W%V-%uT%T.%N", "%Y-%jT%T.%N", "%Y-%m-%dbT%T.%N", NULL, NULL, NULL, NULL};
		*fmt = nsfmt[rep];
		snprintf(buf, bsz, "%sT%02d:%02d:%02d.%09d", d, h, m, s, t->ns);
	} else {
		/* the standard parser has no date-time form for year-day dates */
		if (rep == R_YD) {
			*fmt = "%Y-%jT%T";
		}
		snprintf(buf, bsz, "%sT%02d:%02d:%02d", d, h, m, s);
	}
	return 1;
}

static int
mkdt(int rep, int rd, const struct tod_s *t, struct dt_dt_s *out, char *text, size_t tsz, const char **fmt)
{
	struct dt_dt_s v;
	if (!dt_text(rep, rd, t, text, tsz, fmt)) {
		return 0;
	}
	v = dt_strpdt(text, *fmt, NULL);
	if (dt_unk_p(v)) {
		return 0;
	}
	if (rep == R_DAISY) {
		v = dt_dtconv((dt_dttyp_t)DT_DAISY, v);
		if (dt_unk_p(v) || v.d.typ != DT_DAISY) {
			return 0;
		}
	}
	*out = v;
	return 1;
}

static int
judge_dt(int rep, int ia, int ta, int ib, int tb, int replay)
{
	int rda = rc_rd(dt_days[ia][0], dt_days[ia][1], dt_days[ia][2]);
	int rdb = rc_rd(dt_days[ib][0], dt_days[ib][1], dt_days[ib][2]);
	const struct tod_s *xa = dt_tods + ta, *xb = dt_tods + tb;
	struct dt_dt_s a, b;
	char txa[96], txb[96];
	const char *fa, *fb;
	int e, r;
	int mil = (xa->sod == 86400 || xb->sod == 86400) && rep < NREP;
	EX_CTR(c_trans, "transitions");
	EX_CTR(c_eval, "evaluations");
	EX_CTR(c_skip, "skipped:no date-time value of this representation (weekend in bizda, nanoseconds in an epoch count, or text not accepted)");
	EX_CTR(c_nontriv, "nontrivial");

	*c_eval += 2;
	if (mil) {
#if !defined C08_JUDGE_MILITARY_MIDNIGHT
		/* reading (DESIGN.md Corrections / notes/C08-defects.md): the repository pins
		 * T24:00:00 as strictly before the next day's T00:00:00 (test/mil-midnight.005/006),
		 * C11's statement says it denotes that instant; C08's own statement does not place
		 * it on the timeline, so such pairs are outside C08 */
		EX_CTR(c_skipm, "skipped:pair with the text T24:00:00 (its place on the timeline is C11's statement, the repository's tests pin another one)");
		++*c_skipm;
		return 0;
#else
		/* the following day must exist in the model and in the representation */
		int ra = xa->sod == 86400 ? rda + 1 : rda, rb = xb->sod == 86400 ? rdb + 1 : rdb;
		if (ra >= RC_NDAYS || rb >= RC_NDAYS || (rep == R_BIZDA && (!rc_get(ra)->isbd || !rc_get(rb)->isbd))) {
			++*c_skip;
			return 0;
		}
#endif
	}
	if (!mkdt(rep, rda, xa, &a, txa, sizeof(txa), &fa) || !mkdt(rep, rdb, xb, &b, txb, sizeof(txb), &fb)) {
		++*c_skip;
		if (replay) {
			printf("  no value for this case\n");
		}
		return 0;
	}
	{
		int64_t insa = ((int64_t)rda * 86400 + xa->sod), insb = ((int64_t)rdb * 86400 + xb->sod);
		e = sgn64(insa - insb);
		if (e == 0) {
			e = sgn64((int64_t)xa->ns - xb->ns);
		}
		if ((rda < rdb) != (xa->sod < xb->sod) && rda != rdb) {
			++*c_nontriv;
		}
	}
	r = dt_dtcmp(a, b);
	++*c_trans;
	++*c_eval;
	ex_outcome(ex_hash_mix(ex_hash_mix((uint64_t)(r + 2), a.d.u ^ ((uint64_t)a.t.hms.u << 7)), b.d.u ^ ((uint64_t)b.t.hms.u << 9)));
	if (replay) {
		printf("  dt_dtcmp(%s, %s) [%s-held] = %s, timeline says %s\n", txa, txb, rep_name[rep], sgn_name(r), sgn_name(e));
	}
	if (r != e) {
		char key[160], cas[96], cmd[320];
		snprintf(key, sizeof(key), "dtcmp date-time rep=%s%s%s want=%s got=%s", rep_name[rep], mil ? " with-24:00:00" : "",
			 (xa->ns || xb->ns) ? " with-ns" : "", sgn_name(e), sgn_name(r));
		snprintf(cas, sizeof(cas), "DT %d %d %d %d %d", rep, ia, ta, ib, tb);
		if (rep == R_DAISY) {
			cmd[0] = '\0';
		} else if (fa || fb) {
			snprintf(cmd, sizeof(cmd), "dtest -i '%s' %s --cmp %s; echo $?", fa ? fa : fb, txa, txb);
		} else {
			snprintf(cmd, sizeof(cmd), "dtest %s --cmp %s; echo $?", txa, txb);
		}
		ex_viol(key, (double)rda * 86400 + xa->sod, cas, cmd[0] ? cmd : NULL,
			"dt_dtcmp of %s-held %s and %s answers '%s', the timeline says '%s'", rep_name[rep], txa, txb, sgn_name(r), sgn_name(e));
		return 1;
	}
	return 0;
}

/* ---- section T: times of day ---- */
static int
mktime_(int sod, struct dt_dt_s *out, char *text, size_t tsz)
{
	struct dt_dt_s v;
	snprintf(text, tsz, "%02d:%02d:%02d", sod / 3600, sod / 60 % 60, sod % 60);
	v = dt_strpdt(text, NULL, NULL);
	if (dt_unk_p(v)) {
		return 0;
	}
	*out = v;
	return 1;
}

static int
judge_t(int sa, int sb, int replay)
{
	struct dt_dt_s a, b;
	char txa[32], txb[32];
	int e = sgn64((int64_t)sa - sb), r1, r2, bad = 0;
	EX_CTR(c_trans, "transitions");
	EX_CTR(c_eval, "evaluations");

	*c_eval += 2;
	if (!mktime_(sa, &a, txa, sizeof(txa)) || !mktime_(sb, &b, txb, sizeof(txb))) {
		char cas[64];
		snprintf(cas, sizeof(cas), "T %d %d", sa, sb);
		ex_viol("time text not accepted", sa, cas, NULL, "the standard parser rejects '%s' or '%s'", txa, txb);
		return 1;
	}
	r1 = dt_tcmp(a.t, b.t);
	r2 = dt_dtcmp(a, b);
	*c_trans += 2;
	*c_eval += 2;
	ex_outcome(ex_hash_mix((uint64_t)(r1 + 2) * 5 + (uint64_t)(r2 + 2), (uint64_t)a.t.hms.u * 131 + b.t.hms.u));
	for (int f = 0; f < 2; f++) {
		int r = f ? r2 : r1;
		if (replay) {
			printf("  %s(%s, %s) = %s, timeline says %s\n", f ? "dt_dtcmp" : "dt_tcmp", txa, txb, sgn_name(r), sgn_name(e));
		}
		if (r != e) {
			char key[96], cas[64], cmd[128];
			snprintf(key, sizeof(key), "%s time want=%s got=%s", f ? "dtcmp" : "tcmp", sgn_name(e), sgn_name(r));
			snprintf(cas, sizeof(cas), "T %d %d", sa, sb);
			snprintf(cmd, sizeof(cmd), "dtest %s --cmp %s; echo $?", txa, txb);
			ex_viol(key, sa, cas, cmd, "%s of the times %s and %s answers '%s', the clock says '%s'",
				f ? "dt_dtcmp" : "dt_tcmp", txa, txb, sgn_name(r), sgn_name(e));
			bad++;
		}
	}
	return bad;
}

static const int t_k[] = {0, 1, 59, 60, 61, 3599, 3600, 3601, 43200};
#define NTK	((int)(sizeof(t_k) / sizeof(*t_k)))

/* ---- section RNG: range predicates on all triples of a 30-value window ---- */
/* windows: first day; date windows are 30 consecutive days, date-time windows
 * 10 consecutive days x {00:00:00, 12:00:00, 23:59:59} */
static const int rng_day0[][3] = {{2008, 12, 17}, {2012, 2, 15}, {1999, 12, 17}, {2010, 12, 20}};
#define NRNGWIN	((int)(sizeof(rng_day0) / sizeof(*rng_day0)))
static const struct tod_s rng_tods[3] = {{0, 0}, {43200, 0}, {86399, 0}};

static int
judge_rng(int withtime, int rep, int w, int i, int i1, int i2, int replay)
{
	int rd0 = rc_rd(rng_day0[w][0], rng_day0[w][1], rng_day0[w][2]);
	struct dt_dt_s v[3];
	int64_t ins[3];
	char tx[3][96];
	const int idx[3] = {i, i1, i2};
	int e, r;
	EX_CTR(c_trans, "transitions");
	EX_CTR(c_eval, "evaluations");
	EX_CTR(c_skip, "skipped:no value of this representation (weekend in bizda)");
	EX_CTR(c_skipr, "skipped:range with lower bound after upper bound (reading: the bounds are given in order, as dseq gives them)");

	for (int k = 0; k < 3; k++) {
		const char *fmt;
		int ok;
		if (withtime) {
			int rd = rd0 + idx[k] / 3;
			const struct tod_s *t = rng_tods + idx[k] % 3;
			ok = mkdt(rep, rd, t, v + k, tx[k], sizeof(tx[k]), &fmt);
			ins[k] = (int64_t)rd * 86400 + t->sod;
		} else {
			int rd = rd0 + idx[k];
			ok = mkdate(rep, P_PARSE, rd, v + k);
			if (!date_text(rep, rc_get(rd), tx[k], sizeof(tx[k]))) {
				day_str(tx[k], sizeof(tx[k]), rd);
			}
			ins[k] = (int64_t)rd * 86400;
		}
		++*c_eval;
		if (!ok) {
			++*c_skip;
			return 0;
		}
	}
	if (ins[1] > ins[2]) {
		++*c_skipr;
		return 0;
	}
	e = ins[1] <= ins[0] && ins[0] <= ins[2];
	r = withtime ? dt_dt_in_range_p(v[0], v[1], v[2]) : dt_d_in_range_p(v[0].d, v[1].d, v[2].d);
	++*c_trans;
	++*c_eval;
	ex_outcome(ex_hash_mix((uint64_t)(r + 2) + 77, (uint64_t)(ins[0] - ins[1]) * 1000003ULL + (uint64_t)(ins[2] - ins[0])));
	if (replay) {
		printf("  %s(%s, %s, %s) [%s-held] = %d, timeline says %d\n", withtime ? "dt_dt_in_range_p" : "dt_d_in_range_p",
		       tx[0], tx[1], tx[2], rep_name[rep], r, e);
	}
	if (r != e) {
		char key[160], cas[96];
		snprintf(key, sizeof(key), "%s rep=%s want=%d got=%d pos=%s", withtime ? "dt_in_range" : "d_in_range", rep_name[rep], e, r,
			 ins[0] < ins[1] ? "below" : ins[0] == ins[1] ? "at-lower" : ins[0] < ins[2] ? "inside" : ins[0] == ins[2] ? "at-upper" : "above");
		snprintf(cas, sizeof(cas), "RNG %d %d %d %d %d %d", withtime, rep, w, i, i1, i2);
		ex_viol(key, (double)ins[0], cas, NULL, "%s(%s; %s .. %s) on %s-held values answers %d, the timeline says %d",
			withtime ? "dt_dt_in_range_p" : "dt_d_in_range_p", tx[0], tx[1], tx[2], rep_name[rep], r, e);
		return 1;
	}
	return 0;
}

int
main(int argc, char *argv[])
{
	uint64_t slice = 0;
	int nwin, npp;
	EX_CTR(c_states, "states");
	EX_CTR(c_traces, "traces");

	ex_init(argc, argv);
	rc_selfcheck();
	dur_1d = dt_strpdtdur("1d", NULL);

	if (ex.cas) {
		int a[8] = {0};
		if (!strncmp(ex.cas, "D ", 2) && sscanf(ex.cas + 2, "%d %d %d %d %d", a, a + 1, a + 2, a + 3, a + 4) == 5 &&
		    a[0] >= 0 && a[0] < NREP && a[1] >= 0 && a[1] < NPROD && a[2] >= 0 && a[2] < NPROD) {
			struct dt_dt_s x, y;
			if (!mkdate(a[0], a[1], a[3], &x) || !mkdate(a[0], a[2], a[4], &y)) {
				return ex_replay_result(0, "no value for this case any more");
			}
			return ex_replay_result(judge_dates(a[0], a[1], a[2], a[3], a[4], &x, &y, 1), "dates rep=%s", rep_name[a[0]]);
		}
		if (!strncmp(ex.cas, "DT ", 3) && sscanf(ex.cas + 3, "%d %d %d %d %d", a, a + 1, a + 2, a + 3, a + 4) == 5 &&
		    a[0] >= 0 && a[0] < NREPDT && a[1] >= 0 && a[1] < NDTDAY && a[3] >= 0 && a[3] < NDTDAY &&
		    a[2] >= 0 && a[2] < NTOD && a[4] >= 0 && a[4] < NTOD) {
			return ex_replay_result(judge_dt(a[0], a[1], a[2], a[3], a[4], 1), "date-times rep=%s", rep_name[a[0]]);
		}
		if (!strncmp(ex.cas, "T ", 2) && sscanf(ex.cas + 2, "%d %d", a, a + 1) == 2) {
			return ex_replay_result(judge_t(a[0], a[1], 1), "times");
		}
		if (!strncmp(ex.cas, "RNG ", 4) && sscanf(ex.cas + 4, "%d %d %d %d %d %d", a, a + 1, a + 2, a + 3, a + 4, a + 5) == 6 &&
		    a[1] >= 0 && a[1] < NREPDT && a[2] >= 0 && a[2] < NRNGWIN) {
			return ex_replay_result(judge_rng(a[0], a[1], a[2], a[3], a[4], a[5], 1), "range predicate");
		}
		return ex_replay_result(1, "bad case string '%s'", ex.cas);
	}

	nwin = ex.thorough ? NWIN : NWIN_QUICK;
	npp = ex.thorough ? NPP : NPP_QUICK;
	ex_meta("rule", "oracle: cmp(a,b) = sign(instant(a) - instant(b)), instant = reference day ordinal x 86400 + second (+ns). "
		"Values: P parsed from standard text, C converted from the parsed ymd value, A = P(day-1)+1d; C and A only when their day count "
		"is the model's. Judged: dt_dcmp and dt_dtcmp on dates in {ymd,ymcw,ywd,yd,bizda(business days),daisy,ldn,jdn,mdn (read with -i ldn|jdn|mdn)}; dt_dtcmp on date-times "
		"(same representations plus epoch counts given as @N and through %%s; pairs with the text T24:00:00 are "
#if defined C08_JUDGE_MILITARY_MIDNIGHT
		"judged as 00:00:00 of the next day, under their own class"
#else
		"skipped and counted: C08's statement does not place that text on the timeline and the repository's tests pin it before the next day's 00:00:00"
#endif
		"); dt_tcmp and dt_dtcmp on times; range predicates: 1 iff lower <= d <= upper, else 0, "
		"bounds given in order. non-trivial = pair whose raw words are ordered differently from the days or which straddles a year "
		"(dates); pair where day order and clock order disagree (date-times)");
	ex_meta("bound", "WIN: all ordered pairs of %d eight-year windows (2,921 or 2,922 days each: %s) x 9 representations x %d producer pairs; "
		"NBR: all 911,280 days x 9 representations x producers {P,C,A}^2 x day+{0,1,7,27..31,365,366} both orders; "
		"DT: (%d seam days x %d times incl. two nanosecond values and 24:00:00)^2 x 8 representations; "
		"T: all 86,400 seconds x second+{0,1,59,60,61,3599,3600,3601,43200} both orders, and (T7 + every hour boundary -1/0/+1 s)^2; "
		"RNG: all 27,000 triples of %d thirty-value windows x 9 (dates) / 8 (date-times) representations",
		nwin, ex.thorough ? "1897 1997 1601 4088 2009 2096 2396 1969" : "1897 1997 1601 4088", npp, NDTDAY, NTOD, NRNGWIN);

	/* WIN */
	for (int w = 0; w < nwin; w++) {
		for (int rep = 0; rep < NREP; rep++) {
			for (int pp = 0; pp < npp; pp++, slice++) {
				if (ex_mine(slice) && !ex_expired()) {
					do_window(w, rep, pp);
				}
			}
		}
	}
	/* NBR */
	for (int y = RC_MIN_YEAR; y <= RC_MAX_YEAR; y++, slice++) {
		if (ex_mine(slice) && !ex_expired()) {
			do_nbr_year(y);
		}
	}
	/* DT */
	for (int rep = 0; rep < NREPDT; rep++) {
		for (int ia = 0; ia < NDTDAY; ia++, slice++) {
			if (!ex_mine(slice) || ex_expired()) {
				continue;
			}
			for (int ta = 0; ta < NTOD; ta++) {
				++*c_states;
				for (int ib = 0; ib < NDTDAY; ib++) {
					for (int tb = 0; tb < NTOD; tb++) {
						judge_dt(rep, ia, ta, ib, tb, 0);
					}
				}
			}
			++*c_traces;
			ex_sample("DT rep=%s day %04d-%02d-%02d x %d times against %d days x %d times", rep_name[rep],
				  dt_days[ia][0], dt_days[ia][1], dt_days[ia][2], NTOD, NDTDAY, NTOD);
		}
	}
	/* T */
	for (int h = 0; h < 24; h++, slice++) {
		if (!ex_mine(slice) || ex_expired()) {
			continue;
		}
		for (int s = h * 3600; s < (h + 1) * 3600; s++) {
			++*c_states;
			for (int k = 0; k < NTK; k++) {
				int s2 = s + t_k[k];
				if (s2 >= 86400) {
					continue;
				}
				judge_t(s, s2, 0);
				if (t_k[k]) {
					judge_t(s2, s, 0);
				}
			}
		}
		++*c_traces;
		ex_sample("T hour %02d: every second x +{0,1,59,60,61,3599,3600,3601,43200} both orders", h);
	}
	{
		int set[128], n = 0;
		static const int t7[] = {0, 1, 3599, 3600, 43199, 43200, 86399};
		for (int i = 0; i < 7; i++) {
			set[n++] = t7[i];
		}
		for (int h = 1; h < 24; h++) {
			set[n++] = h * 3600 - 1;
			set[n++] = h * 3600;
			set[n++] = h * 3600 + 1;
		}
		for (int i = 0; i < n; i++, slice++) {
			if (!ex_mine(slice) || ex_expired()) {
				continue;
			}
			for (int j = 0; j < n; j++) {
				judge_t(set[i], set[j], 0);
			}
		}
	}
	/* RNG */
	for (int withtime = 0; withtime < 2; withtime++) {
		for (int rep = 0; rep < (withtime ? NREPDT : NREP); rep++) {
			for (int w = 0; w < NRNGWIN; w++, slice++) {
				if (!ex_mine(slice) || ex_expired()) {
					continue;
				}
				for (int i = 0; i < 30; i++) {
					for (int i1 = 0; i1 < 30; i1++) {
						for (int i2 = 0; i2 < 30; i2++) {
							judge_rng(withtime, rep, w, i, i1, i2, 0);
						}
					}
				}
				++*c_traces;
				ex_sample("RNG %s rep=%s window from %04d-%02d-%02d: all 27,000 triples", withtime ? "date-times" : "dates",
					  rep_name[rep], rng_day0[w][0], rng_day0[w][1], rng_day0[w][2]);
			}
		}
	}
	return ex_finish();
}
