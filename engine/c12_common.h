/* c12_common.h -- shared by the zone explorers (C12, C13 cache closure, C19):
 *   - lib/tzraw.c included into the explorer TU with mmap/munmap replaced by an
 *     exact-size heap copy (so struct zif_s is reachable and, in the asan
 *     variant, red zones sit right behind the file image),
 *   - a CPU-time watchdog on top of explore.h's (a non-returning query costs
 *     some 30 ms, not a second, and a descheduled worker is never taken for a hang),
 *   - the catalogue of zone files: every regular TZif file below the system
 *     zoneinfo directory (found at run time) and the synthetic files generated
 *     from the model. */
#ifndef VERIF_C12_COMMON_H
#define VERIF_C12_COMMON_H
#include <stdio.h>
#include <stdlib.h>
#include <stdint.h>
#include <stddef.h>
#include <stdbool.h>
#include <string.h>
#include <unistd.h>
#include <fcntl.h>
#include <time.h>
#include <limits.h>
#include <assert.h>
#include <dirent.h>
#include <sys/mman.h>
#include <sys/stat.h>
#include <sys/types.h>
#include <sys/time.h>
#include <signal.h>

/* exact-size heap copy instead of a mapping */
static uint64_t zc_maps;
static void*
verif_mmap(void *addr, size_t len, int prot, int flags, int fd, off_t off)
{
	unsigned char *p = malloc(len ? len : 1);
	size_t got = 0;
	(void)addr, (void)prot, (void)flags;
	if (p == NULL) {
		return MAP_FAILED;
	}
	while (got < len) {
		ssize_t n = pread(fd, p + got, len - got, off + (off_t)got);
		if (n <= 0) {
			break;
		}
		got += (size_t)n;
	}
	if (got < len) {
		free(p);
		return MAP_FAILED;
	}
	zc_maps++;
	return p;
}
static int
verif_munmap(void *p, size_t len)
{
	(void)len;
	free(p);
	return 0;
}
#define mmap	verif_mmap
#define munmap	verif_munmap
#include "tzraw.c"
#undef mmap
#undef munmap

#include "explore.h"
#include "refzif.h"

#define ZC_ZONEINFO	"/usr/share/zoneinfo"

#include "c12_wd.h"

/* ---- zone sources ---- */
struct zc_src {
	char name[300];		/* sys:<relative path> | syn:v<V>:l<L>:n<N>:c<code> | big:v<V>:n<N> */
	char path[4400];	/* what zif_open() is given */
	uint8_t *img;
	size_t len;
	struct rz_file m;	/* the model's reading of the image */
	int sys;
};

static int zc_memfd = -1;
static char zc_mempath[64];

/* publish IMG as a file zif_open() can open */
static const char*
zc_publish(const uint8_t *img, size_t len)
{
	if (zc_memfd < 0) {
		zc_memfd = memfd_create("zc_img", 0);
		if (zc_memfd >= 0) {
			snprintf(zc_mempath, sizeof(zc_mempath), "/proc/self/fd/%d", zc_memfd);
			if (access(zc_mempath, R_OK) != 0) {
				close(zc_memfd);
				zc_memfd = -1;
			}
		}
		if (zc_memfd < 0) {
			const char *d = getenv("VERIF_RUNDIR");
			static char tmpl[4200];
			snprintf(tmpl, sizeof(tmpl), "%s/zc_img.XXXXXX", d ? d : "/tmp");
			zc_memfd = mkstemp(tmpl);
			if (zc_memfd < 0) {
				perror("zc_publish");
				exit(3);
			}
			snprintf(zc_mempath, sizeof(zc_mempath), "%s", tmpl);
			if (strlen(tmpl) >= sizeof(zc_mempath)) {
				fprintf(stderr, "zc_publish: run directory name too long\n");
				exit(3);
			}
		}
	}
	if (ftruncate(zc_memfd, 0) < 0 || pwrite(zc_memfd, img, len, 0) != (ssize_t)len) {
		perror("zc_publish: write");
		exit(3);
	}
	return zc_mempath;
}

/* the offset alphabet of the synthetic files */
static const int32_t zc_alpha[3] = {-18000, 0, 19800};
/* offsets of the short-spell files: the jumps between them (1 h .. 6.5 h) exceed the time some of them stay in force */
static const int32_t zc_spell_alpha[4] = {-10800, -3600, 0, 12600};
static const int zc_spell_spacing[3] = {3600, 1800, 7200};
/* offsets that are not a multiple of a quarter of an hour (local mean times and the like) */
static const int32_t zc_odd_alpha[4] = {1172, -2670, 20, 0};
#define ZC_NLAYOUT	4
static const char zc_layout_name[ZC_NLAYOUT] = {'A', 'B', 'C', 'D'};
#define ZC_MAXN		5
static const int64_t zc_layout[ZC_NLAYOUT][ZC_MAXN] = {
	/* A: far apart, all after 1970 */
	{100000000LL, 200000000LL, 300000000LL, 400000000LL, 500000000LL},
	/* B: far apart, straddling 1970 */
	{-200000000LL, -100000000LL, 100000000LL, 200000000LL, 300000000LL},
	/* C: closer together than the offsets differ */
	{100000000LL, 100003600LL, 100007200LL, 100010800LL, 100014400LL},
	/* D: outside the 32-bit range (versions 2 and 3 only) */
	{-3000000000LL, -1000000000LL, 3000000000LL, 5000000000LL, 7000000000LL},
};

static void
zc_src_free(struct zc_src *s)
{
	free(s->img);
	s->img = NULL;
	rz_free(&s->m);
}

/* load the source called NAME; 0 = ok, -1 = the model refuses the file
 * (s->m.err says why), -2 = no such source */
static int
zc_src_load(const char *name, struct zc_src *s)
{
	memset(s, 0, sizeof(*s));
	snprintf(s->name, sizeof(s->name), "%s", name);
	if (!strncmp(name, "sys:", 4)) {
		snprintf(s->path, sizeof(s->path), "%s/%s", ZC_ZONEINFO, name + 4);
		s->sys = 1;
		if ((s->img = rz_slurp(s->path, &s->len)) == NULL) {
			return -2;
		}
	} else if (!strncmp(name, "syn:", 4)) {
		int v, n, code;
		char l;
		int64_t tr[ZC_MAXN];
		uint8_t ty[ZC_MAXN];
		struct rz_gen g;
		int li;
		if (sscanf(name, "syn:v%d:l%c:n%d:c%d", &v, &l, &n, &code) != 4 || v < 1 || v > 3 || n < 0 || n > ZC_MAXN) {
			return -2;
		}
		for (li = 0; li < ZC_NLAYOUT && zc_layout_name[li] != l; li++) {
			;
		}
		if (li >= ZC_NLAYOUT || (li == 3 && v == 1)) {
			return -2;
		}
		memset(&g, 0, sizeof(g));
		g.version = v;
		g.ntr = n;
		g.leapcnt = 1;
		if (n == 0) {
			/* no transition: exactly one type, CODE picks its offset */
			if (code < 0 || code > 2) {
				return -2;
			}
			g.nty = 1;
			g.off = zc_alpha + code;
		} else {
			int c = code;
			for (int i = n - 1; i >= 0; i--) {
				ty[i] = (uint8_t)(c % 3);
				c /= 3;
				tr[i] = zc_layout[li][i];
			}
			if (c || code < 0) {
				return -2;
			}
			g.nty = 3;
			g.off = zc_alpha;
		}
		g.tr = tr;
		g.ty = ty;
		s->img = rz_gen(&g, &s->len);
		rz_selfcheck_gen(&g, s->img, s->len, name);
		snprintf(s->path, sizeof(s->path), "%s", zc_publish(s->img, s->len));
	} else if (!strncmp(name, "spl:", 4) || !strncmp(name, "odd:", 4)) {
		/* short spells: a transition in 1990, then N-1 transitions SPACING seconds apart from 2000-01-01, types from a 4-offset alphabet
		 * whose jumps are larger than the spacing, in every arrangement (version 2) */
		int sp, n, code, c;
		int64_t tr[ZC_MAXN];
		uint8_t ty[ZC_MAXN];
		struct rz_gen g;
		const int odd = name[0] == 'o';
		if (sscanf(name + 4, "s%d:n%d:c%d", &sp, &n, &code) != 3 || sp < 1 || n < 1 || n > ZC_MAXN || code < 0) {
			return -2;
		}
		c = code;
		for (int i = n - 1; i >= 0; i--) {
			ty[i] = (uint8_t)(c % 4);
			c /= 4;
			/* the first range is long (from 1990), the spells start in 2000 */
			tr[i] = i == 0 ? 631152000LL : 946684800LL + (int64_t)(i - 1) * sp;
		}
		if (c) {
			return -2;
		}
		memset(&g, 0, sizeof(g));
		g.version = 2;
		g.ntr = n;
		g.tr = tr;
		g.ty = ty;
		g.nty = 4;
		g.off = odd ? zc_odd_alpha : zc_spell_alpha;
		g.leapcnt = 0;
		s->img = rz_gen(&g, &s->len);
		rz_selfcheck_gen(&g, s->img, s->len, name);
		snprintf(s->path, sizeof(s->path), "%s", zc_publish(s->img, s->len));
	} else if (!strncmp(name, "big:", 4)) {
		int v, n;
		int64_t *tr;
		uint8_t *ty;
		struct rz_gen g;
		if (sscanf(name, "big:v%d:n%d", &v, &n) != 2 || v < 1 || v > 3 || n < 1 || n > 100000) {
			return -2;
		}
		tr = malloc(sizeof(*tr) * (size_t)n);
		ty = malloc((size_t)n);
		for (int i = 0; i < n; i++) {
			tr[i] = (int64_t)(i - n / 2) * 2592000LL + 1000;
			ty[i] = (uint8_t)(i % 3);
		}
		memset(&g, 0, sizeof(g));
		g.version = v;
		g.ntr = n;
		g.tr = tr;
		g.ty = ty;
		g.nty = 3;
		g.off = zc_alpha;
		g.leapcnt = 1;
		s->img = rz_gen(&g, &s->len);
		rz_selfcheck_gen(&g, s->img, s->len, name);
		free(tr);
		free(ty);
		snprintf(s->path, sizeof(s->path), "%s", zc_publish(s->img, s->len));
	} else {
		return -2;
	}
	if (rz_parse(s->img, s->len, &s->m) < 0) {
		return -1;
	}
	rz_selfcheck_scan(&s->m, name);
	return 0;
}

/* (re)publish a synthetic source (the memfd is shared between sources) */
static void
zc_src_activate(struct zc_src *s)
{
	if (!s->sys) {
		zc_publish(s->img, s->len);
	}
}

/* ---- catalogue ---- */
static char **zc_names;
static size_t zc_nnames, zc_cap;
static size_t zc_nsys;		/* the first zc_nsys names are installed files */
static size_t zc_nonzif;	/* regular files below the directory that are not TZif */

static void
zc_add(const char *name)
{
	if (zc_nnames >= zc_cap) {
		zc_cap = zc_cap ? 2 * zc_cap : 1024;
		zc_names = realloc(zc_names, zc_cap * sizeof(*zc_names));
	}
	zc_names[zc_nnames++] = strdup(name);
}

static int
zc_cmp(const void *a, const void *b)
{
	return strcmp(*(char *const*)a, *(char *const*)b);
}

static void
zc_walk(const char *rel)
{
	char dir[4200];
	DIR *d;
	struct dirent *e;

	snprintf(dir, sizeof(dir), "%s%s%s", ZC_ZONEINFO, *rel ? "/" : "", rel);
	if ((d = opendir(dir)) == NULL) {
		return;
	}
	while ((e = readdir(d)) != NULL) {
		char p[4400], r[4300];
		struct stat st;
		if (!strcmp(e->d_name, ".") || !strcmp(e->d_name, "..")) {
			continue;
		}
		snprintf(r, sizeof(r), "%s%s%s", rel, *rel ? "/" : "", e->d_name);
		snprintf(p, sizeof(p), "%s/%s", ZC_ZONEINFO, r);
		if (lstat(p, &st) < 0) {
			continue;
		}
		if (S_ISDIR(st.st_mode)) {
			zc_walk(r);
		} else if (S_ISREG(st.st_mode)) {
			/* regular files only: symbolic links name files visited anyway */
			char magic[4] = "";
			int fd = open(p, O_RDONLY);
			ssize_t n = fd >= 0 ? read(fd, magic, 4) : -1;
			if (fd >= 0) {
				close(fd);
			}
			if (n == 4 && !memcmp(magic, "TZif", 4)) {
				char nm[4400];
				snprintf(nm, sizeof(nm), "sys:%s", r);
				if (strlen(nm) < 290 && strchr(nm, ' ') == NULL) {
					zc_add(nm);
				}
			} else {
				zc_nonzif++;
			}
		}
	}
	closedir(d);
}

/* all sources in canonical order: installed files sorted by name, then the
 * synthetic ones (simplest first) */
static void
zc_catalogue(int with_sys, int with_syn, int maxn, int more_sizes)
{
	char nm[128];

	if (with_sys) {
		zc_walk("");
		qsort(zc_names, zc_nnames, sizeof(*zc_names), zc_cmp);
	}
	zc_nsys = zc_nnames;
	if (!with_syn) {
		return;
	}
	for (int n = 0; n <= maxn; n++) {
		int ncode = 1;
		for (int i = 0; i < n; i++) {
			ncode *= 3;
		}
		if (n == 0) {
			ncode = 3;
		}
		for (int v = 1; v <= 3; v++) {
			for (int l = 0; l < ZC_NLAYOUT; l++) {
				if (l == 3 && v == 1) {
					continue;
				}
				if (n == 0 && l > 0) {
					continue;
				}
				for (int c = 0; c < ncode; c++) {
					snprintf(nm, sizeof(nm), "syn:v%d:l%c:n%d:c%d", v, zc_layout_name[l], n, c);
					zc_add(nm);
				}
			}
		}
	}
	{
		static const int sizes[] = {254, 255, 256, 257, 300, 600, 511, 512, 513, 1000};
		for (size_t k = 0; k < (more_sizes ? 10U : 6U); k++) {
			for (int v = 1; v <= 3; v++) {
				snprintf(nm, sizeof(nm), "big:v%d:n%d", v, sizes[k]);
				zc_add(nm);
			}
		}
	}
}

/* the short-spell family: 2..MAXN transitions, every arrangement of 4 types, NSP spacings */
static void
zc_catalogue_spells(int maxn, int nsp)
{
	char nm[128];
	for (int k = 0; k < nsp; k++) {
		for (int n = 2; n <= maxn; n++) {
			int ncode = 1;
			for (int i = 0; i < n; i++) {
				ncode *= 4;
			}
			for (int c = 0; c < ncode; c++) {
				snprintf(nm, sizeof(nm), "spl:s%d:n%d:c%d", zc_spell_spacing[k], n, c);
				zc_add(nm);
			}
		}
	}
}

/* offsets off the quarter-hour grid: a transition in 1990, then 1..MAXN-1 transitions 30 days apart */
static void
zc_catalogue_odd(int maxn)
{
	char nm[128];
	for (int n = 2; n <= maxn; n++) {
		int ncode = 1;
		for (int i = 0; i < n; i++) {
			ncode *= 4;
		}
		for (int c = 0; c < ncode; c++) {
			snprintf(nm, sizeof(nm), "odd:s2592000:n%d:c%d", n, c);
			zc_add(nm);
		}
	}
}

/* a fresh handle on the source */
static inline zif_t
zc_fresh(const struct zc_src *s)
{
	return zif_open(s->path);
}

/* index the implementation uses for raw transition K (it drops a transition
 * whose type index equals its predecessor's) */
static long
zc_merged_index(const struct rz_file *m, long k)
{
	long j = 0;
	for (long i = 1; i <= k; i++) {
		if (m->ty[i] != m->ty[i - 1]) {
			j++;
		}
	}
	return j;
}

#endif	/* VERIF_C12_COMMON_H */
