/* c12_zone.c -- C12: zone conversion follows the zone file, for every zone file and instant.
 *
 * Form A (DESIGN.md §2, §6 C12).  Model: refzif.h (boring TZif reader, linear
 * scan).  One model state = one range of a zone file's transition table.
 * Enumerated: every regular TZif file below /usr/share/zoneinfo (found at run
 * time) and the synthetic files of c12_common.h; per file every listed
 * transition instant -1/0/+1 s plus seams; per instant, each on a FRESH handle
 * (history is C13's business):
 *    L  zif_local_time(t)  == t + offset in force at t
 *    R  zif_find_zrng(t)   == the adjacent table entries (prev <= t < next), the
 *                             offset in force, and the neighbouring offsets the way
 *                             dzone --next/--prev derive them from it
 *    U  zif_utc_time(l)    in {u : u + offset(u) == l} for the local times l around
 *                             every transition (both images -1/0/+1 s)
 * Every call runs under the watchdog: "does not return" is an observed outcome. */
#include "impl.h"
#include "c12_common.h"

static zif_t g_z;
static stamp_t g_out;
static struct zrng_s g_rng;
static int g_nxo, g_pvo, g_ntr;

static int g_replay;

#define NCONF	64
static char *confirmed[NCONF];
static int nconfirmed;

static int
is_confirmed(const char *key)
{
	for (int i = 0; i < nconfirmed; i++) {
		if (!strcmp(confirmed[i], key)) {
			return 1;
		}
	}
	return 0;
}
static void
set_confirmed(const char *key)
{
	if (nconfirmed < NCONF) {
		confirmed[nconfirmed++] = strdup(key);
	}
}

/* run one call on a fresh handle; 0 = returned, 1 = did not return, 2 = fatal signal, 3 = open failed */
static int
call(const struct zc_src *s, char op, int64_t t)
{
	int rc;
	EX_CTR(c_eval, "evaluations");

	g_z = NULL;
	++*c_eval;
	EX_GUARD_BEGIN(rc);
	g_z = zc_fresh(s);
	if (g_z != NULL) {
		switch (op) {
		case 'L':
			g_out = zif_local_time(g_z, t);
			break;
		case 'U':
			g_out = zif_utc_time(g_z, t);
			break;
		case 'R':
			g_rng = zif_find_zrng(g_z, t);
			g_ntr = (int)zif_ntrans(g_z);
			/* what dzone reads next to the range */
			g_nxo = (g_rng.trno + 1U < (size_t)g_ntr) ? zif_troffs(g_z, g_rng.trno + 1) : INT_MIN;
			g_pvo = (g_rng.trno >= 1) ? zif_troffs(g_z, g_rng.trno - 1) : INT_MIN;
			break;
		}
	}
	EX_GUARD_END;
	if (rc == 0 && g_z == NULL) {
		rc = 3;
	}
	if (g_z != NULL) {
		zif_close(g_z);
		g_z = NULL;
	}
	return rc;
}

/* discrete coordinates of an instant relative to the table as the implementation
 * holds it (transitions to the type already in force dropped) */
static void
coords(const struct zc_src *s, int64_t t, char *buf, size_t bsz)
{
	const struct rz_file *m = &s->m;
	long k = rz_index(m, t);
	const char *pos;
	long mi = k >= 0 ? zc_merged_index(m, k) : -1;
	long mlast = m->ntr ? zc_merged_index(m, m->ntr - 1) : -1;
	long k0;

	/* the entry that opened the merged range */
	for (k0 = k; k0 > 0 && m->ty[k0] == m->ty[k0 - 1]; k0--) {
		;
	}
	if (m->ntr == 0) {
		pos = "no-transitions";
	} else if (k < 0) {
		pos = "before-first";
	} else if (mi == mlast && t == m->tr[k0]) {
		pos = "at-last-transition";
	} else if (t == m->tr[k0]) {
		pos = "at-transition";
	} else {
		pos = "elsewhere";
	}
	snprintf(buf, bsz, "pos=%s idx=%s", pos, mi >= 256 ? ">=256" : "<256");
}

static const char*
srcclass(const struct zc_src *s, char *buf, size_t bsz)
{
	snprintf(buf, bsz, "%s v%d", s->sys ? "installed" : !strncmp(s->name, "spl:", 4) ? "synthetic-short-spell" : !strncmp(s->name, "odd:", 4) ? "synthetic-odd-offsets" : "synthetic", s->m.version);
	return buf;
}

/* which wrong offset did we get? */
static const char*
flavour(const struct zc_src *s, int64_t t, int64_t gotoff)
{
	const struct rz_file *m = &s->m;
	long k = rz_index(m, t);
	if (k >= 0) {
		long mi = zc_merged_index(m, k);
		if (mi >= 256) {
			/* offset of the transition whose merged index is mi mod 256 */
			long want = mi % 256, j = 0;
			for (long i = 0; i < m->ntr; i++) {
				if (i > 0 && m->ty[i] != m->ty[i - 1]) {
					j++;
				}
				if (j == want) {
					if (gotoff == m->off[m->ty[i]]) {
						return "offset-of-index-mod-256";
					}
					break;
				}
			}
		}
	}
	if (m->ntr > 0 && gotoff == m->off[m->ty[0]]) {
		return "offset-of-first-transition";
	}
	if (gotoff == RZ_DECOY_OFF) {
		return "offset-from-32bit-block";
	}
	for (long k2 = 0; k2 < m->nty; k2++) {
		if (gotoff == m->off[k2]) {
			return "offset-of-another-range";
		}
	}
	return "offset-not-in-file";
}

/* UTC calendar text of instant T by plain arithmetic (the C library's gmtime applies the leap seconds of whatever
 * TZ file is loaded, and the self-check loads the file under test) */
static void
iso(int64_t t, char *buf, size_t bsz)
{
	static const int ml[12] = {31, 28, 31, 30, 31, 30, 31, 31, 30, 31, 30, 31};
	int64_t days = t / 86400, sod = t % 86400;
	int y = 1970, m;

	if (sod < 0) {
		sod += 86400;
		days--;
	}
	if (days < -135000 || days > 776000) {
		/* outside 1601..4095 */
		snprintf(buf, bsz, "@%lld", (long long)t);
		return;
	}
	while (days < 0) {
		y--;
		days += 365 + ((y % 4 == 0 && y % 100 != 0) || y % 400 == 0);
	}
	for (;;) {
		int yl = 365 + ((y % 4 == 0 && y % 100 != 0) || y % 400 == 0);
		if (days < yl) {
			break;
		}
		days -= yl;
		y++;
	}
	for (m = 0; m < 12; m++) {
		int l = ml[m] + (m == 1 && ((y % 4 == 0 && y % 100 != 0) || y % 400 == 0));
		if (days < l) {
			break;
		}
		days -= l;
	}
	if (y < 1601 || y > 4095) {
		snprintf(buf, bsz, "@%lld", (long long)t);
		return;
	}
	snprintf(buf, bsz, "%04d-%02d-%02dT%02d:%02d:%02d", y, m + 1, (int)days + 1, (int)(sod / 3600), (int)(sod / 60 % 60), (int)(sod % 60));
}

static void
mk_cmd(const struct zc_src *s, char op, int64_t t, char *cmd, size_t csz)
{
	char ts[64];
	if (!s->sys) {
		*cmd = '\0';
		return;
	}
	iso(t, ts, sizeof(ts));
	switch (op) {
	case 'L':
		snprintf(cmd, csz, "dconv --zone %s %s", s->name + 4, ts);
		break;
	case 'U':
		snprintf(cmd, csz, "dconv --from-zone %s %s", s->name + 4, ts);
		break;
	case 'R':
		snprintf(cmd, csz, "dzone --next --prev %s %s", s->name + 4, ts);
		break;
	}
}

static void
report(const struct zc_src *s, char op, int64_t t, const char *key, const char *fmt, ...)
{
	char detail[1024], cas[400], cmd[512];
	va_list ap;

	va_start(ap, fmt);
	vsnprintf(detail, sizeof(detail), fmt, ap);
	va_end(ap);
	snprintf(cas, sizeof(cas), "%s %c %lld", s->name, op, (long long)t);
	mk_cmd(s, op, t, cmd, sizeof(cmd));
	ex_viol(key, (double)t, cas, *cmd ? cmd : NULL, "%s: %s", s->name, detail);
	if (g_replay) {
		printf("  FAIL [%s] %s: %s\n", key, s->name, detail);
	}
}

/* outcome that is not a value: hang / signal / open failure.  returns 1 if reported */
static int
abnormal(const struct zc_src *s, char op, int64_t t, int *rc, const char *opname)
{
	char key[256], co[128], sc[64];

	if (*rc == 0) {
		return 0;
	}
	coords(s, t, co, sizeof(co));
	srcclass(s, sc, sizeof(sc));
	if (*rc == 1) {
		snprintf(key, sizeof(key), "%s does-not-return %s %s", opname, sc, co);
		if (!is_confirmed(opname)) {
			/* first of its kind in this worker: once more, alone, with a limit of 1 s of CPU time */
			EX_CTR(c_conf, "hangs_confirmed_with_long_limit");
			int save = zc_wd_limit;
			zc_wd_limit = 250;
			*rc = call(s, op, t);
			zc_wd_limit = save;
			if (*rc != 1) {
				EX_CTR(c_slow, "slow_but_returned");
				++*c_slow;
				return abnormal(s, op, t, rc, opname);
			}
			++*c_conf;
			set_confirmed(opname);
		}
		report(s, op, t, key, "%s(%lld) on a fresh handle does not return (spins until the watchdog fires)",
		       opname, (long long)t);
		ex_outcome(ex_hash_mix(0x48414e47ULL, (uint64_t)op));
		return 1;
	}
	if (*rc == 2) {
		snprintf(key, sizeof(key), "%s fatal-signal %s %s", opname, sc, co);
		report(s, op, t, key, "%s(%lld) on a fresh handle dies of a fatal signal", opname, (long long)t);
		return 1;
	}
	snprintf(key, sizeof(key), "zif_open fails %s", sc);
	report(s, op, t, key, "zif_open(%s) returns NULL for a file the model reads (version %d, %ld transitions, %ld types)",
	       s->path, s->m.version, s->m.ntr, s->m.nty);
	return 1;
}

static int
do_L(const struct zc_src *s, int64_t t)
{
	int32_t off;
	int rc;
	char key[256], co[128], sc[64];
	EX_CTR(c_trans, "transitions");
	EX_CTR(c_skipb, "skipped:instant before the first listed transition (or no transition and several types)");

	if (!rz_offset(&s->m, t, &off)) {
		++*c_skipb;
		return 0;
	}
	rc = call(s, 'L', t);
	++*c_trans;
	if (abnormal(s, 'L', t, &rc, "zif_local_time")) {
		return 1;
	}
	ex_outcome(ex_hash_mix((uint64_t)(g_out - t), 'L'));
	if (g_out != t + off) {
		coords(s, t, co, sizeof(co));
		snprintf(key, sizeof(key), "zif_local_time %s %s %s", flavour(s, t, g_out - t), srcclass(s, sc, sizeof(sc)), co);
		report(s, 'L', t, key, "zif_local_time(%lld) = %lld (offset %lld); the file says offset %d in force, i.e. %lld",
		       (long long)t, (long long)g_out, (long long)(g_out - t), off, (long long)(t + off));
		return 1;
	}
	if (g_replay) {
		printf("  ok zif_local_time(%lld) = %lld (offset %d)\n", (long long)t, (long long)g_out, off);
	}
	return 0;
}

static int
do_R(const struct zc_src *s, int64_t t)
{
	const struct rz_file *m = &s->m;
	int32_t off;
	int rc, bad = 0;
	long k, kp, kn;
	int64_t prev_raw, prev_mrg, next_raw, next_mrg;
	char key[256], co[128], sc[64];
	EX_CTR(c_trans, "transitions");

	if (!rz_offset(m, t, &off) || m->ntr == 0) {
		/* counted by do_L; a file without transitions has no adjacent entries */
		return 0;
	}
	rc = call(s, 'R', t);
	++*c_trans;
	if (abnormal(s, 'R', t, &rc, "zif_find_zrng")) {
		return 1;
	}
	ex_outcome(ex_hash_mix(ex_hash_mix((uint64_t)(g_rng.prev - t), (uint64_t)(g_rng.next - t)), (uint64_t)g_rng.offs));
	k = rz_index(m, t);
	/* reading: a listed transition to the very type already in force changes nothing
	 * observable; the adjacent entry may be reported with or without such entries */
	prev_raw = m->tr[k];
	for (kp = k; kp > 0 && m->ty[kp] == m->ty[kp - 1]; kp--) {
		;
	}
	prev_mrg = m->tr[kp];
	next_raw = k + 1 < m->ntr ? m->tr[k + 1] : STAMP_MAX;
	for (kn = k + 1; kn < m->ntr && m->ty[kn] == m->ty[kn - 1]; kn++) {
		;
	}
	next_mrg = kn < m->ntr ? m->tr[kn] : STAMP_MAX;
	coords(s, t, co, sizeof(co));
	srcclass(s, sc, sizeof(sc));

	if (g_rng.prev != prev_raw && g_rng.prev != prev_mrg) {
		snprintf(key, sizeof(key), "zif_find_zrng prev %s %s", sc, co);
		report(s, 'R', t, key, "zif_find_zrng(%lld).prev = %lld; the adjacent table entry at or before is %lld",
		       (long long)t, (long long)g_rng.prev, (long long)prev_raw);
		bad++;
	}
	if (g_rng.next != next_raw && g_rng.next != next_mrg) {
		snprintf(key, sizeof(key), "zif_find_zrng next %s %s", sc, co);
		report(s, 'R', t, key, "zif_find_zrng(%lld).next = %lld; the adjacent table entry after is %lld%s",
		       (long long)t, (long long)g_rng.next, (long long)next_raw, next_raw == STAMP_MAX ? " (none)" : "");
		bad++;
	}
	if (g_rng.offs != off) {
		snprintf(key, sizeof(key), "zif_find_zrng offs %s %s %s", flavour(s, t, g_rng.offs), sc, co);
		report(s, 'R', t, key, "zif_find_zrng(%lld).offs = %d; the file says %d", (long long)t, (int)g_rng.offs, off);
		bad++;
	}
	if (!bad) {
		/* the neighbouring offsets as dzone --next / --prev print them */
		int32_t o2;
		if (g_rng.next < STAMP_MAX) {
			rz_offset(m, g_rng.next, &o2);
			if (g_nxo == INT_MIN) {
				snprintf(key, sizeof(key), "dzone-next offset-after missing %s %s", sc, co);
				report(s, 'R', t, key, "range of %lld: index %u + 1 is not below the %d loaded transitions although a next transition %lld exists (dzone --next prints 'never')",
				       (long long)t, (unsigned)g_rng.trno, g_ntr, (long long)g_rng.next);
				bad++;
			} else if (g_nxo != o2) {
				snprintf(key, sizeof(key), "dzone-next offset-after wrong %s %s", sc, co);
				report(s, 'R', t, key, "range of %lld: offset after the next transition %lld read as %d (index %u + 1); the file says %d",
				       (long long)t, (long long)g_rng.next, g_nxo, (unsigned)g_rng.trno, o2);
				bad++;
			}
		}
		if (rz_offset(m, g_rng.prev - 1, &o2)) {
			if (g_pvo == INT_MIN) {
				snprintf(key, sizeof(key), "dzone-prev offset-before missing %s %s", sc, co);
				report(s, 'R', t, key, "range of %lld: index %u, so dzone --prev prints 'never' although the file lists a transition before %lld",
				       (long long)t, (unsigned)g_rng.trno, (long long)g_rng.prev);
				bad++;
			} else if (g_pvo != o2) {
				snprintf(key, sizeof(key), "dzone-prev offset-before wrong %s %s", sc, co);
				report(s, 'R', t, key, "range of %lld: offset before the transition %lld read as %d (index %u - 1); the file says %d",
				       (long long)t, (long long)g_rng.prev, g_pvo, (unsigned)g_rng.trno, o2);
				bad++;
			}
		}
	}
	if (!bad && g_replay) {
		printf("  ok zif_find_zrng(%lld) = [%lld, %lld) offs %d index %u\n", (long long)t, (long long)g_rng.prev, (long long)g_rng.next,
		       (int)g_rng.offs, (unsigned)g_rng.trno);
	}
	return bad;
}

/* E: `-f %s' under --zone names the instant itself.  The value goes the way dconv sends it: parsed from its UTC text,
 * dtz_enrichz() with the zone, dt_strfdt("%s").  (The +HH:MM text of %Z is documented to have quarter-hour resolution and is not
 * judged.) */
static int
do_E(const struct zc_src *s, int64_t t)
{
	int32_t off;
	char ts[64], buf[64] = "", key[256], co[128], sc[64], cas[400], cmd[512];
	struct dt_dt_s d;
	zif_t z;
	long long got;
	char *ep = NULL;
	EX_CTR(c_trans, "transitions");
	EX_CTR(c_eval, "evaluations");
	EX_CTR(c_skipy, "skipped:%s under --zone for an instant outside the years the date parser covers");

	if (!rz_offset(&s->m, t, &off)) {
		return 0;
	}
	iso(t, ts, sizeof(ts));
	if (ts[0] == '@') {
		++*c_skipy;
		return 0;
	}
	d = dt_strpdt(ts, NULL, NULL);
	if (dt_unk_p(d) || (z = zc_fresh(s)) == NULL) {
		return 0;
	}
	d = dtz_enrichz(d, z);
	dt_strfdt(buf, sizeof(buf), "%s", d);
	zif_close(z);
	++*c_trans;
	++*c_eval;
	got = strtoll(buf, &ep, 10);
	ex_outcome(ex_hash_mix((uint64_t)(got - t), 'E'));
	if (ep == buf || *ep || got != (long long)t) {
		coords(s, t, co, sizeof(co));
		snprintf(key, sizeof(key), "epoch-under-zone differs offset-on-quarter-hour-grid=%s %s %s", off % 900 ? "no" : "yes", srcclass(s, sc, sizeof(sc)), co);
		snprintf(cas, sizeof(cas), "%s E %lld", s->name, (long long)t);
		if (s->sys) {
			snprintf(cmd, sizeof(cmd), "dconv --zone %s -f %%s %s", s->name + 4, ts);
		}
		ex_viol(key, (double)t, cas, s->sys ? cmd : NULL, "%s: %s converted into the zone (offset %d s) and printed with %%s gives '%s'; the instant is %lld",
			s->name, ts, off, buf, (long long)t);
		if (g_replay) {
			printf("  FAIL [%s] %%s of %s under the zone (offset %d): '%s', instant %lld\n", key, ts, off, buf, (long long)t);
		}
		return 1;
	}
	if (g_replay) {
		printf("  ok %%s of %s under the zone (offset %d) = %s\n", ts, off, buf);
	}
	return 0;
}

/* the valid instants of local time L: fills V, returns their number; -1 when a
 * candidate lies before the first listed transition (nothing can be said) */
static int
valid_instants(const struct rz_file *m, int64_t l, int64_t v[], int maxv)
{
	int n = 0;
	for (long k = 0; k < m->nty; k++) {
		int64_t u = l - m->off[k];
		int32_t o;
		int dup = 0;
		if (!rz_offset(m, u, &o)) {
			return -1;
		}
		if (o != m->off[k]) {
			continue;
		}
		for (int i = 0; i < n; i++) {
			dup |= v[i] == u;
		}
		if (!dup && n < maxv) {
			v[n++] = u;
		}
	}
	return n;
}

static int
do_U(const struct zc_src *s, int64_t l)
{
	const struct rz_file *m = &s->m;
	int64_t v[RZ_MAXTY];
	int nv, rc, ok = 0;
	char key[256], co[128], sc[64];
	EX_CTR(c_trans, "transitions");
	EX_CTR(c_skipg, "skipped:local time that falls into a gap (names no instant)");
	EX_CTR(c_skipf, "skipped:local time whose preimage may lie before the first listed transition");
	EX_CTR(c_amb, "ambiguous_local_times");
	EX_CTR(c_nontriv, "nontrivial");

	nv = valid_instants(m, l, v, RZ_MAXTY);
	if (nv < 0) {
		++*c_skipf;
		return 0;
	}
	if (nv == 0) {
		++*c_skipg;
		return 0;
	}
	if (nv > 1) {
		++*c_amb;
		++*c_nontriv;
	}
	rc = call(s, 'U', l);
	++*c_trans;
	/* class coordinates are those of the (first) valid instant */
	if (abnormal(s, 'U', l, &rc, "zif_utc_time")) {
		return 1;
	}
	ex_outcome(ex_hash_mix((uint64_t)(l - g_out), 'U'));
	for (int i = 0; i < nv; i++) {
		ok |= g_out == v[i];
	}
	if (!ok) {
		int32_t o;
		coords(s, v[0], co, sizeof(co));
		/* does the result at least map back? (it cannot, V is complete; say what it maps to) */
		snprintf(key, sizeof(key), "zif_utc_time %s %s %s %s", nv == 1 ? "not-the-inverse" : "not-a-valid-instant",
			 flavour(s, v[0], l - g_out), srcclass(s, sc, sizeof(sc)), co);
		if (rz_offset(m, g_out, &o)) {
			report(s, 'U', l, key, "zif_utc_time(%lld) = %lld, which converts back to local %lld; valid instant%s: %lld%s",
			       (long long)l, (long long)g_out, (long long)(g_out + o), nv > 1 ? "s" : "", (long long)v[0], nv > 1 ? " ..." : "");
		} else {
			report(s, 'U', l, key, "zif_utc_time(%lld) = %lld (before the first listed transition); valid instant%s: %lld%s",
			       (long long)l, (long long)g_out, nv > 1 ? "s" : "", (long long)v[0], nv > 1 ? " ..." : "");
		}
		return 1;
	}
	if (g_replay) {
		printf("  ok zif_utc_time(%lld) = %lld (%d valid instant%s)\n", (long long)l, (long long)g_out, nv, nv > 1 ? "s" : "");
	}
	return 0;
}

static int
cmp64(const void *a, const void *b)
{
	int64_t x = *(const int64_t*)a, y = *(const int64_t*)b;
	return x < y ? -1 : x > y;
}
static size_t
uniq64(int64_t *a, size_t n)
{
	size_t k = 0;
	qsort(a, n, sizeof(*a), cmp64);
	for (size_t i = 0; i < n; i++) {
		if (k == 0 || a[k - 1] != a[i]) {
			a[k++] = a[i];
		}
	}
	return k;
}

static const int64_t seams[] = {-2147483649LL, -2147483648LL, -1, 0, 1, 2147483647LL, 2147483648LL};
#define NSEAMS	(sizeof(seams) / sizeof(*seams))

static void
run_src(struct zc_src *s)
{
	const struct rz_file *m = &s->m;
	size_t ni = 0, nl = 0;
	static const int dq[] = {-1, 0, 1}, dt[] = {-86400, -3600, -1, 0, 1, 3600, 86400};
	const int *dl = ex.thorough ? dt : dq;
	const int ndl = ex.thorough ? 7 : 3;
	int64_t *inst = malloc(sizeof(*inst) * (9 * (size_t)m->ntr + NSEAMS + 4));
	int64_t *locl = malloc(sizeof(*locl) * (32 * (size_t)m->ntr + 10 * (NSEAMS + 4)));
	EX_CTR(c_states, "states");
	EX_CTR(c_traces, "traces");
	EX_CTR(c_nontriv, "nontrivial");

	zc_src_activate(s);
	if (s->sys) {
		rz_libc_begin(s->path);
	}
	for (long i = 0; i < m->ntr; i++) {
		int32_t b = m->off[m->ty[i]];
		for (int j = 0; j < ndl; j++) {
			int d = dl[j];
			inst[ni++] = m->tr[i] + d;
			locl[nl++] = m->tr[i] + b + d;
			if (i > 0) {
				locl[nl++] = m->tr[i] + m->off[m->ty[i - 1]] + d;
			}
		}
		if ((ex.thorough || !s->sys) && i + 1 < m->ntr) {
			/* the middle of the range (synthetic files: in both tiers, a short spell has little else) */
			int64_t mid = m->tr[i] + (m->tr[i + 1] - m->tr[i]) / 2;
			inst[ni++] = mid;
			locl[nl++] = mid + b;
		}
		/* a transition that changes the offset in force */
		if (i > 0 && m->off[m->ty[i - 1]] != b) {
			++*c_nontriv;
		}
	}
	if (m->ntr) {
		inst[ni++] = m->tr[m->ntr - 1] + 1000000000LL;
	}
	for (size_t k = 0; k < NSEAMS; k++) {
		inst[ni++] = seams[k];
	}
	ni = uniq64(inst, ni);
	for (size_t k = 0; k < ni; k++) {
		int32_t o;
		if (rz_offset(m, inst[k], &o) && (k < 1 || inst[k] - inst[k - 1] > 1) && (k + 1 >= ni || inst[k + 1] - inst[k] > 1)) {
			/* isolated instants (seams, far future): their local image too */
			locl[nl++] = inst[k] + o;
		}
	}
	nl = uniq64(locl, nl);

	*c_states += (uint64_t)m->ntr + 1;
	for (size_t k = 0; k < ni && !ex_expired(); k++) {
		if (s->sys) {
			rz_selfcheck_libc(m, s->name, inst[k]);
		}
		do_L(s, inst[k]);
		do_R(s, inst[k]);
		do_E(s, inst[k]);
	}
	for (size_t k = 0; k < nl && !ex_expired(); k++) {
		do_U(s, locl[k]);
	}
	if (s->sys) {
		rz_libc_end();
	}
	++*c_traces;
	if (ex_want_sample()) {
		ex_sample("%s: version %d, %ld transitions, %ld types: %zu instants x {zif_local_time, zif_find_zrng} + %zu local times x zif_utc_time, a fresh handle each",
			  s->name, m->version, m->ntr, m->nty, ni, nl);
	}
	free(inst);
	free(locl);
}

/* ---- binding (level B): the dconv and dzone binaries of the same build ----
 * One zone = one trace: the boundary instants in ascending order go through ONE
 * process (dconv --zone Z / --from-zone Z on stdin, dzone --next --prev Z as
 * arguments); the same sequence goes through ONE library handle; the binary's
 * lines must be what the library-level run observed (civil text by the C
 * library's gmtime_r).  Instants at which the library call does not return are
 * left out of both (they are reported by the exploration above). */
static const char *const bind_pref[] = {
	"Europe/Berlin", "America/New_York", "CET", "Asia/Kolkata", "Australia/Lord_Howe", "Pacific/Apia", "Africa/Casablanca",
	"America/St_Johns", "Asia/Kathmandu", "Europe/London", "Europe/Dublin", "Antarctica/Troll", "Pacific/Chatham", "Asia/Tehran",
	"America/Sao_Paulo", "Europe/Moscow", "America/Caracas", "Pacific/Kiritimati", "Africa/Monrovia", "Europe/Amsterdam",
	"America/Havana", "Asia/Jerusalem", "Africa/Cairo", "America/Santiago", "Pacific/Easter", "Australia/Sydney", "Pacific/Auckland",
	"America/Anchorage", "America/Godthab", "Asia/Tokyo", "Asia/Shanghai", "Europe/Lisbon", "Atlantic/Azores", "America/Asuncion",
	"right/Europe/Berlin", "posix/America/New_York",
};
#define NBIND_PREF	(sizeof(bind_pref) / sizeof(*bind_pref))

static int
civ(int64_t t, char *buf, size_t bsz)
{
	time_t tt = (time_t)t;
	struct tm tm;
	if (gmtime_r(&tt, &tm) == NULL) {
		*buf = '\0';
		return -1;
	}
	snprintf(buf, bsz, "%04d-%02d-%02dT%02d:%02d:%02d", tm.tm_year + 1900, tm.tm_mon + 1, tm.tm_mday, tm.tm_hour, tm.tm_min, tm.tm_sec);
	return tm.tm_year + 1900;
}

static void
bind_viol(const struct zc_src *s, const char *tool, int64_t t, const char *cmd, const char *got, const char *exp)
{
	char key[128], cas[400], ts[32];
	civ(t, ts, sizeof(ts));
	snprintf(key, sizeof(key), "binding %s", tool);
	snprintf(cas, sizeof(cas), "bind %s", s->name);
	ex_viol(key, (double)t, cas, cmd, "%s, input %s: the binary printed '%s', the library-level run of the same sequence observed '%s'",
		s->name, ts, got, exp);
	if (g_replay) {
		printf("  FAIL [%s] %s input %s: binary '%s' library '%s'\n", key, s->name, ts, got, exp);
	}
}

static int
do_binding(struct zc_src *s)
{
	const struct rz_file *m = &s->m;
	const char *rundir = getenv("VERIF_RUNDIR");
	const char *zn = s->name + 4;
	int64_t *in = malloc(sizeof(*in) * (6 * (size_t)m->ntr + 8));
	size_t n = 0, k;
	char fin[4400], fout[4500], cmd[16384], line[512], exp[128], ts[32];
	int bad = 0, rc;
	FILE *f;
	zif_t z;
	EX_CTR(c_bind, "cli_binding_replays");
	EX_CTR(c_bindln, "cli_binding_lines");

	if (rundir == NULL || ex.tree == NULL || m->ntr == 0) {
		free(in);
		return 0;
	}
	for (long i = 0; i < m->ntr; i++) {
		for (int d = -1; d <= 1; d++) {
			char tmp[32];
			int64_t t = m->tr[i] + d;
			int y = civ(t, tmp, sizeof(tmp));
			/* what the tools' date parser covers comfortably */
			if (y >= 1700 && y <= 2400) {
				in[n++] = t;
			}
		}
	}
	n = uniq64(in, n);
	if ((z = zif_open(s->path)) == NULL) {
		/* reported by the exploration */
		free(in);
		return 0;
	}
	zif_close(z);
	snprintf(fin, sizeof(fin), "%s/c12bind.%d", rundir, (int)getpid());
	snprintf(fout, sizeof(fout), "%s.out", fin);

	/* (1) dconv --zone: UTC -> local, one handle, ascending */
	for (int dir = 0; dir < 2; dir++) {
		const char *opt = dir ? "--from-zone" : "--zone";
		int64_t *use = malloc(sizeof(*use) * (n + 1));
		int64_t *out = malloc(sizeof(*out) * (n + 1));
		size_t nu = 0;

		/* library-level run of the sequence; an element that does not return is dropped and the run restarts */
		z = zif_open(s->path);
		for (k = 0; k < n; k++) {
			g_z = z;
			EX_GUARD_BEGIN(rc);
			g_out = dir ? zif_utc_time(g_z, in[k]) : zif_local_time(g_z, in[k]);
			EX_GUARD_END;
			if (rc) {
				/* the handle may be anywhere now: start over without this element */
				zif_close(z);
				z = zif_open(s->path);
				for (size_t j = 0; j < nu; j++) {
					out[j] = dir ? zif_utc_time(z, use[j]) : zif_local_time(z, use[j]);
				}
				continue;
			}
			use[nu] = in[k];
			out[nu++] = g_out;
		}
		zif_close(z);
		if ((f = fopen(fin, "w")) != NULL) {
			FILE *pp;
			for (k = 0; k < nu; k++) {
				civ(use[k], ts, sizeof(ts));
				fprintf(f, "%s\n", ts);
			}
			fclose(f);
			snprintf(cmd, sizeof(cmd), "'%s/src/dconv' %s '%s' -f '%%FT%%T' < '%s' > '%s.out' 2>&1", ex.tree, opt, zn, fin, fin);
			++*c_bind;
			/* via a file: the watchdog's timer signals would interrupt reads from a pipe */
			rc = system(cmd);
			if ((pp = fopen(fout, "r")) != NULL) {
				for (k = 0; k < nu && fgets(line, sizeof(line), pp); k++) {
					line[strcspn(line, "\n")] = '\0';
					civ(out[k], exp, sizeof(exp));
					++*c_bindln;
					if (strcmp(line, exp)) {
						bind_viol(s, dir ? "dconv --from-zone" : "dconv --zone", use[k], cmd, line, exp);
						bad++;
					}
				}
				if (k < nu || fgets(line, sizeof(line), pp)) {
					bind_viol(s, dir ? "dconv --from-zone" : "dconv --zone", use[k < nu ? k : nu - 1], cmd, "(line count differs)", "one line per input line");
					bad++;
				}
				fclose(pp);
			}
		}
		free(use);
		free(out);
	}

	/* (2) dzone --next --prev: stateless at library level */
	z = zif_open(s->path);
	for (size_t base = 0; base < n; base += 200) {
		size_t lim = base + 200 < n ? base + 200 : n, cl;
		int64_t use[200];
		size_t nu = 0;
		FILE *pp;

		cl = (size_t)snprintf(cmd, sizeof(cmd), "'%s/src/dzone' --next --prev '%s'", ex.tree, zn);
		for (k = base; k < lim; k++) {
			g_z = z;
			EX_GUARD_BEGIN(rc);
			g_rng = zif_find_zrng(g_z, in[k]);
			EX_GUARD_END;
			if (rc) {
				continue;
			}
			use[nu++] = in[k];
			civ(in[k], ts, sizeof(ts));
			cl += (size_t)snprintf(cmd + cl, sizeof(cmd) - cl, " %s", ts);
		}
		snprintf(cmd + cl, sizeof(cmd) - cl, " > '%s' 2>&1", fout);
		++*c_bind;
		if (nu == 0) {
			continue;
		}
		rc = system(cmd);
		if ((pp = fopen(fout, "r")) == NULL) {
			continue;
		}
		for (k = 0; k < nu; k++) {
			struct zrng_s r = zif_find_zrng(z, use[k]);
			size_t ntr = zif_ntrans(z);
			char a[64], b[64], want[192];

			/* --next line */
			if (fgets(line, sizeof(line), pp) == NULL) {
				bind_viol(s, "dzone --next", use[k], cmd, "(no line)", "a line");
				bad++;
				break;
			}
			line[strcspn(line, "\t\n")] = '\0';
			if (r.next >= STAMP_MAX) {
				strcpy(a, "never");
			} else {
				civ(r.next + r.offs, a, sizeof(a));
			}
			if (r.trno + 1U < ntr && r.next < STAMP_MAX) {
				civ(r.next + zif_troffs(z, r.trno + 1), b, sizeof(b));
			} else {
				strcpy(b, "never");
			}
			++*c_bindln;
			{
				/* compare the civil parts; the printed +HH:MM is a 15-minute rounding the library owns */
				char ga[64] = "", gb[64] = "";
				char *sep = strstr(line, " -> ");
				if (sep) {
					snprintf(ga, sizeof(ga), "%.*s", (int)(sep - line > 19 ? 19 : sep - line), line);
					snprintf(gb, sizeof(gb), "%.19s", sep + 4);
				}
				snprintf(want, sizeof(want), "%s -> %s", a, b);
				if (!sep || strncmp(ga, a, 19) || strncmp(gb, b, 19)) {
					bind_viol(s, "dzone --next", use[k], cmd, line, want);
					bad++;
				}
			}
			/* --prev line */
			if (fgets(line, sizeof(line), pp) == NULL) {
				bind_viol(s, "dzone --prev", use[k], cmd, "(no line)", "a line");
				bad++;
				break;
			}
			line[strcspn(line, "\t\n")] = '\0';
			if (r.trno >= 1) {
				civ(r.prev + zif_troffs(z, r.trno - 1), a, sizeof(a));
			} else {
				strcpy(a, "never");
			}
			if (r.prev <= STAMP_MIN) {
				strcpy(b, "never");
			} else {
				civ(r.prev + r.offs, b, sizeof(b));
			}
			++*c_bindln;
			{
				char ga[64] = "", gb[64] = "";
				char *sep = strstr(line, " <- ");
				if (sep) {
					snprintf(ga, sizeof(ga), "%.*s", (int)(sep - line > 19 ? 19 : sep - line), line);
					snprintf(gb, sizeof(gb), "%.19s", sep + 4);
				}
				snprintf(want, sizeof(want), "%s <- %s", a, b);
				if (!sep || strncmp(ga, a, 19) || strncmp(gb, b, 19)) {
					bind_viol(s, "dzone --prev", use[k], cmd, line, want);
					bad++;
				}
			}
		}
		fclose(pp);
	}
	zif_close(z);
	unlink(fin);
	unlink(fout);
	free(in);
	return bad;
}

/* the zones bound: every installed file with more than 255 loaded transitions + the fixed list, as far as installed */
static int
bind_wanted(const struct zc_src *s)
{
	if (!s->sys || s->m.ntr == 0) {
		return 0;
	}
	if (zc_merged_index(&s->m, s->m.ntr - 1) >= 255) {
		return 1;
	}
	for (size_t i = 0; i < NBIND_PREF; i++) {
		if (!strcmp(s->name + 4, bind_pref[i])) {
			return 1;
		}
	}
	return 0;
}

int
main(int argc, char *argv[])
{
	EX_CTR(c_states, "states");
	EX_CTR(c_trans, "transitions");
	EX_CTR(c_eval, "evaluations");
	EX_CTR(c_traces, "traces");
	EX_CTR(c_nontriv, "nontrivial");
	EX_CTR(c_files, "zone_files_installed");
	EX_CTR(c_syn, "zone_files_synthetic");
	EX_CTR(c_refused, "skipped:installed file the model refuses (not a well-formed TZif)");
	EX_CTR(c_libc, "selfcheck_instants_compared_with_libc");

	ex_init(argc, argv);
	zc_wd_init();
	(void)c_states, (void)c_trans, (void)c_eval, (void)c_traces, (void)c_nontriv;

	if (ex.cas) {
		struct zc_src s;
		char name[300], op;
		long long t;
		int bad = 0, rc;
		if (!strncmp(ex.cas, "bind ", 5)) {
			if ((rc = zc_src_load(ex.cas + 5, &s)) < 0) {
				return ex_replay_result(1, "cannot load source %s", ex.cas + 5);
			}
			g_replay = 1;
			bad = do_binding(&s);
			return ex_replay_result(bad, "binding %s", ex.cas + 5);
		}
		if (sscanf(ex.cas, "%299s %c %lld", name, &op, &t) != 3) {
			return ex_replay_result(1, "bad case string '%s'", ex.cas);
		}
		if ((rc = zc_src_load(name, &s)) < 0) {
			return ex_replay_result(1, "cannot load source %s (%s)", name, rc == -1 ? s.m.err : "unknown");
		}
		g_replay = 1;
		zc_wd_limit = 250;
		switch (op) {
		case 'L': bad = do_L(&s, t); break;
		case 'R': bad = do_R(&s, t); break;
		case 'U': bad = do_U(&s, t); break;
		case 'E': bad = do_E(&s, t); break;
		default: return ex_replay_result(1, "bad operation '%c'", op);
		}
		return ex_replay_result(bad, "%s %c %lld", name, op, t);
	}

	zc_catalogue(1, 1, ex.thorough ? 5 : 4, ex.thorough);
	zc_catalogue_spells(ex.thorough ? 5 : 4, ex.thorough ? 3 : 2);
	zc_catalogue_odd(ex.thorough ? 4 : 3);
	ex_meta("rule", "every regular TZif file below " ZC_ZONEINFO " (%zu found; %zu other regular files ignored; symbolic links name files visited anyway) "
		"and %zu synthetic files generated from the model (versions 1-3; 0..4 (thorough: 0..5) transitions at 4 instant layouts with types from the offset alphabet "
		"{-18000,0,+19800} in every arrangement, the 32-bit block of version 2/3 files being a decoy; 254/255/256/257/300/600 (thorough: also 511/512/513/1000) transitions cycling through the 3 types; SHORT SPELLS: 2..4 (thorough 5) transitions "
		"3600/1800 (thorough also 7200) s apart with types from {-10800,-3600,0,+12600} in every arrangement, so that an offset is in force for less time than the jumps around it; ODD OFFSETS: 2..3 (thorough 4) transitions with types from {+1172,-2670,+20,0} s). "
		"Additionally E: every instant parsed from its UTC text, dtz_enrichz() with the zone, printed with %%s must give the instant (the +HH:MM of %%Z has a documented "
		"quarter-hour resolution and is not judged). "
		"Per file: every listed transition -1/0/+1 s (thorough: also +-3600 s, +-86400 s and the middle of every range), last+10^9, 0, +-1, +-2^31 seams; each on a fresh handle (zif_open per call): zif_local_time(t) = t + offset in force; "
		"zif_find_zrng(t) = adjacent table entries, offset in force, neighbouring offsets as dzone derives them; zif_utc_time(l) for both local images of every "
		"transition -1/0/+1 s must be a member of {u: u + offset(u) = l}. Readings: instants before the first listed transition are outside (skipped); a local time "
		"in a gap names no instant (skipped); a local time with a candidate preimage before the first transition is skipped; a listed transition to the type already "
		"in force may or may not be reported as adjacent entry; no further transition is STAMP_MAX. Oracle = refzif.h linear scan, self-checked against a backward "
		"scan and against the C library's reader (tm_gmtoff) between first and last transition. non-trivial = transitions that change the offset in force + ambiguous local times",
		zc_nsys, zc_nonzif, zc_nnames - zc_nsys);
	ex_meta("binding", "dconv --zone Z, dconv --from-zone Z (all boundary instants 1700..2400 of the zone, ascending, one process) and dzone --next --prev Z "
		"(the same instants as arguments) for every installed zone with more than 255 loaded transitions and %zu named zones (as far as installed): the binaries' lines "
		"must equal the library-level run of the same sequence on one handle; instants where the library call does not return are left out", NBIND_PREF);
	ex_meta("bound", "%s: all %zu installed files and %zu synthetic files, all their transitions, %d instants per transition",
		ex.thorough ? "thorough" : "quick", zc_nsys, zc_nnames - zc_nsys, ex.thorough ? 8 : 3);

	for (size_t i = 0; i < zc_nnames && !ex_expired(); i++) {
		struct zc_src s;
		int rc;
		if (!ex_mine(i)) {
			continue;
		}
		rc = zc_src_load(zc_names[i], &s);
		if (rc == -2) {
			fprintf(stderr, "cannot load %s\n", zc_names[i]);
			return 3;
		}
		if (rc == -1) {
			++*c_refused;
			zc_src_free(&s);
			continue;
		}
		if (s.sys) {
			++*c_files;
		} else {
			++*c_syn;
		}
		run_src(&s);
		if (bind_wanted(&s)) {
			do_binding(&s);
		}
		zc_src_free(&s);
	}
	*c_libc = (uint64_t)rz_libc_compared;
	return ex_finish();
}
