/* c06_refine.c -- C06: duration output conserves the total (the refinement rule).
 *
 * Level S (+ a ddiff binary binding).  Every pair of a stated set of date-times
 * (and dates) goes through ddiff's own pipeline (ddiff.c included) with every
 * non-empty subset of the unit specifiers %Y %m %w %d %H %M %S as the format.
 *
 * Oracle.
 *  - subsets of fixed-length units {w d H M S}: with u the finest requested unit
 *    and T = trunc(|delta| / u) * u, the printed components must be the greedy
 *    decomposition of T from the coarsest requested unit down (that is the only
 *    tuple with: sum = T, every refined unit inside its natural range, the
 *    coarsest unit carrying the rest); delta is the plain difference of the
 *    epoch values (86400 s per day; %rS is C14's business).
 *  - subsets with %Y and/or %m that info/format-ddiff.texi calls expressible (no
 *    time unit without %d): months < 12 under years, refined units inside their
 *    natural range, and the components recombine by application: earlier value
 *    (+) components, largest first, through dadd's parser and dt_dtadd, must not
 *    pass the later value and must be less than one finest unit short of it.
 *    Years are counted in the calendar ddiff's format selects (years+weeks: ISO
 *    week dates, pinned by test/ddiff.053-061; else y-m-d), so the application is
 *    done on the operand in that calendar.  Only pairs whose earlier day-of-month
 *    is <= 28 (ISO week <= 52) are judged this way (otherwise the application is
 *    ambiguous: clamping).
 *  - subsets the documentation declares inexpressible (months/years with a time
 *    unit but no %d): only the sign and "prints something parseable" are judged.
 *  - exactly one '-' and only in front, iff the second operand is earlier (not
 *    judged when all printed components are zero).
 *  - ascending / rotated order and the padding modifiers %0 and '% ' must print
 *    the same numbers as the descending unpadded format. */
#include "impl.h"
#include "explore.h"
#include "refcal.h"
#define main ddiff_main
#include "ddiff.c"
#undef main
#include "c05_common.h"

#define NU	7
static const char UCH[NU] = {'Y', 'm', 'w', 'd', 'H', 'M', 'S'};
static const char *const USUF[NU] = {"y", "mo", "w", "d", "h", "m", "s"};
static const long long USEC[NU] = {0, 0, 604800, 86400, 3600, 60, 1};
enum { B_Y = 1, B_MO = 2, B_W = 4, B_D = 8, B_H = 16, B_MI = 32, B_S = 64 };
#define NMASK	128
#define NORD	3
#define NPAD	3

struct val_s {
	struct dt_dt_s v;
	int rd, sec;
	int ns;		/* fraction of the second, only with frac */
	int frac;	/* operand written with .NNNNNNNNN and read with -i '%FT%T.%N' */
	char text[48];
};

static char fmts[NMASK][NORD][NPAD][48];
static durfmt_t dfm[NMASK][NORD][NPAD];
static int mclass[NMASK];	/* 0 fixed, 1 calendar (ymd), 2 calendar (ISO weeks), 3 inexpressible */
static int replay_mode;

static void
build_fmt(int mask, int ord, int pad, char *buf)
{
	int idx[NU], n = 0;
	char *p = buf;
	for (int i = 0; i < NU; i++) {
		if (mask & (1 << i)) {
			idx[n++] = i;
		}
	}
	for (int k = 0; k < n; k++) {
		int i = ord == 0 ? idx[k] : ord == 1 ? idx[n - 1 - k] : idx[(k + 1) % n];
		if (k) {
			*p++ = ' ';
		}
		*p++ = '%';
		if (pad == 1) {
			*p++ = '0';
		} else if (pad == 2) {
			*p++ = ' ';
		}
		*p++ = UCH[i];
	}
	*p = '\0';
}

/* position of unit i in the output of (mask, ord) */
static int
pos_of(int mask, int ord, int unit)
{
	int idx[NU], n = 0;
	for (int i = 0; i < NU; i++) {
		if (mask & (1 << i)) {
			idx[n++] = i;
		}
	}
	for (int k = 0; k < n; k++) {
		int i = ord == 0 ? idx[k] : ord == 1 ? idx[n - 1 - k] : idx[(k + 1) % n];
		if (i == unit) {
			return k;
		}
	}
	return -1;
}

static int
popcnt(int m)
{
	int n = 0;
	for (; m; m &= m - 1) {
		n++;
	}
	return n;
}

/* parse printed text: optional leading '-', then integers separated by blanks.
 * returns number of integers, -1 on anything else; *lead, *minuses */
static int
parse_out(const char *s, long long v[], int maxv, int *lead, int *minuses)
{
	int n = 0;
	*lead = s[0] == '-';
	*minuses = 0;
	for (const char *q = s; *q; q++) {
		*minuses += *q == '-';
	}
	if (*lead) {
		s++;
	}
	while (*s) {
		if (*s == ' ' || *s == '-') {
			s++;
		} else if (*s >= '0' && *s <= '9') {
			long long x = 0;
			while (*s >= '0' && *s <= '9') {
				x = x * 10 + (*s++ - '0');
			}
			if (n < maxv) {
				v[n] = x;
			}
			n++;
		} else {
			return -1;
		}
	}
	return n;
}

static void
prep(struct val_s *x, int cal, int rd, int sec)
{
	x->rd = rd;
	x->sec = sec;
	x->ns = 0;
	x->frac = 0;
	day_text(cal, rc_get(rd), sec, x->text, sizeof(x->text));
	x->v = dt_io_strpdt(x->text, NULL, 0, NULL);
}

/* a civil date-time with a fraction of a second, read as `ddiff -i '%FT%T.%N'` reads it */
static void
prep_frac(struct val_s *x, int rd, int sec, int ns)
{
	static char fmt0[] = "%FT%T.%N";
	static char *const fmtv[1] = {fmt0};
	const struct rc_day *p = rc_get(rd);
	x->rd = rd;
	x->sec = sec;
	x->ns = ns;
	x->frac = 1;
	snprintf(x->text, sizeof(x->text), "%04d-%02d-%02dT%02d:%02d:%02d.%09d", p->y, p->m, p->d, sec / 3600, sec / 60 % 60, sec % 60, ns);
	x->v = dt_io_strpdt(x->text, fmtv, 1, NULL);
}

/* instant (seconds since 1601-01-01T00:00:00) of a value as dadd prints it; -1 if unreadable */
static long long
text_instant(int cal, const char *t, int has_time)
{
	int y, a, b, h = 0, mi = 0, s = 0, n, rd;
	if (cal == CAL_YMD) {
		n = sscanf(t, "%d-%d-%dT%d:%d:%d", &y, &a, &b, &h, &mi, &s);
		if (n != (has_time ? 6 : 3) || y < RC_MIN_YEAR || y > RC_MAX_YEAR || a < 1 || a > 12 || b < 1 || b > rc_mlen(y, a)) {
			return -1;
		}
		rd = rc_rd(y, a, b);
	} else {
		const struct rc_day *p;
		n = sscanf(t, "%d-W%d-%dT%d:%d:%d", &y, &a, &b, &h, &mi, &s);
		if (n != (has_time ? 6 : 3) || y < RC_MIN_YEAR || y > RC_MAX_YEAR || a < 1 || a > 53 || b < 1 || b > 7) {
			return -1;
		}
		/* Jan 4 is always in week 1 */
		p = rc_get(rc_rd(y, 1, 4));
		rd = p->rd - (p->wd - 1) + (a - 1) * 7 + (b - 1);
		if (rd < 0 || rd >= RC_NDAYS || rc_get(rd)->isoy != y || rc_get(rd)->isow != a) {
			return -1;
		}
	}
	return (long long)rd * 86400LL + h * 3600 + mi * 60 + s;
}

/* natural range of unit X (index) under the next coarser requested unit C */
static long long
range_under(int c, int x)
{
	if (c == 0) {
		/* under years */
		return x == 1 ? 12 : 366LL * 86400LL / USEC[x] + 2 * (x == 2);
	} else if (c == 1) {
		/* under months */
		return 31LL * 86400LL / USEC[x] + (x == 2);
	}
	return USEC[c] / USEC[x];
}

static void
mask_name(int mask, char *buf)
{
	strcpy(buf, fmts[mask][0][0]);
}

/* fast violation path (as in c05) */
enum { K_SUM, K_RANGE, K_MINUS, K_APPLY, K_MON12, K_VARIANT, K_OUTPUT, NK };
static const char *const kname[NK] = {"sum", "range", "minus", "apply", "mon12", "variant", "output"};
static struct ex_viol_s *vslot[NK][NMASK][2][2][NORD * NPAD];

static int
viol_fast(struct ex_viol_s **slot, double ord)
{
	struct ex_viol_s *v = *slot;
	if (v != NULL && ord >= v->ord) {
		v->n++;
		if (ord > v->hi) {
			v->hi = ord;
		}
		return 1;
	}
	return 0;
}

static void
report(int kind, int mask, int dt, int neg, int variant, double ord, const struct val_s *A, const struct val_s *B,
       const char *fmt, const char *txt, const char *why)
{
	struct ex_viol_s **slot = &vslot[kind][mask][dt][neg][variant];
	char key[200], cas[96], cmd[256], nm[48];
	if (viol_fast(slot, ord) && !replay_mode) {
		return;
	}
	mask_name(mask, nm);
	if (kind == K_VARIANT) {
		snprintf(key, sizeof(key), "variant fmt=%s as='%s' opnd=%s sign=%s", nm, fmt, dt ? "dt" : "d", neg ? "-" : "+");
	} else if (A->frac) {
		/* operands with fractions of a second: one class per finest requested unit */
		int fin = 0;
		for (int i = 0; i < NU; i++) {
			if (mask & (1 << i)) {
				fin = i;
			}
		}
		snprintf(key, sizeof(key), "%s finest=%%%c opnd=dt.frac sign=%s", kname[kind], UCH[fin], neg ? "-" : "+");
	} else {
		snprintf(key, sizeof(key), "%s fmt=%s opnd=%s sign=%s", kname[kind], nm, dt ? "dt" : "d", neg ? "-" : "+");
	}
	snprintf(cas, sizeof(cas), "pair %d %d %d %d %d %d", mask, dt, A->rd, A->sec, B->rd, B->sec);
	if (A->frac) {
		snprintf(cas, sizeof(cas), "fpair %d %d %d %d %d %d %d", mask, A->rd, A->sec, A->ns, B->rd, B->sec, B->ns);
		snprintf(cmd, sizeof(cmd), "ddiff -i '%%FT%%T.%%N' %s %s -f '%s'", A->text, B->text, fmt);
	} else {
		snprintf(cmd, sizeof(cmd), "ddiff %s %s -f '%s'", A->text, B->text, fmt);
	}
	ex_viol(key, ord, cas, cmd, "ddiff %s %s -f '%s' printed '%s': %s", A->text, B->text, fmt, txt, why);
	for (int i = 0; i < ex.nviol; i++) {
		if (!strcmp(ex.viol[i].key, key)) {
			*slot = ex.viol + i;
			break;
		}
	}
	if (replay_mode) {
		printf("  ddiff %s %s -f '%s' printed '%s': %s\n", A->text, B->text, fmt, txt, why);
	}
}

/* one ordered pair (A,B) x one subset; Aw/Bw: the same instants as ISO week date values */
static int
do_case(int mask, int dt, int variants, const struct val_s *A, const struct val_s *B, const struct val_s *Aw, const struct val_s *Bw)
{
	char txt[128], why[256];
	long long v[NU], c[NU];	/* c[unit] */
	long long ia = (long long)A->rd * 86400LL + (dt ? A->sec : 0), ib = (long long)B->rd * 86400LL + (dt ? B->sec : 0);
	/* the exact difference in nanoseconds; everything below works on whole seconds truncated toward zero */
	long long dfr = dt ? (long long)B->ns - A->ns : 0;
	long long delta = (ib - ia) - ((ib - ia) > 0 && dfr < 0) + ((ib - ia) < 0 && dfr > 0), ad = delta < 0 ? -delta : delta;
	int expect_neg = (ib - ia) < 0 || (ib == ia && dfr < 0), lead, minuses, n, nz = 0, bad = 0, rc = 0;
	int ncomp = popcnt(mask), cls = mclass[mask], fin = 0;
	double ord = (double)ad / 86400.0;
	const char *fmt = fmts[mask][0][0];
	EX_CTR(c_eval, "evaluations");
	EX_CTR(c_trans, "transitions");
	EX_CTR(c_nontriv, "nontrivial");

	EX_GUARD_BEGIN(rc);
	n = ddiff_pipe(txt, sizeof(txt), fmt, dfm[mask][0][0], A->v, B->v);
	EX_GUARD_END;
	++*c_eval;
	++*c_trans;
	if (rc) {
		report(K_OUTPUT, mask, dt, expect_neg, 0, ord, A, B, fmt, "", rc == 1 ? "did not return" : "fatal signal");
		return 1;
	}
	ex_outcome(ex_hash_mix(ex_hash(txt, strlen(txt)), (uint64_t)mask));
	if (n < 0 || parse_out(txt, v, NU, &lead, &minuses) != ncomp) {
		report(K_OUTPUT, mask, dt, expect_neg, 0, ord, A, B, fmt, txt,
		       n < 0 ? "ddiff says the duration is not defined" : "not one number per requested unit");
		return 1;
	}
	for (int i = 0, k = 0; i < NU; i++) {
		c[i] = 0;
		if (mask & (1 << i)) {
			c[i] = v[k++];
			nz |= c[i] != 0;
			fin = i;
		}
	}
	/* the sign */
	if (!nz) {
		EX_CTR(c_zero, "skipped:sign of an all-zero output (the statement leaves -0 open)");
		++*c_zero;
		if (minuses > lead) {
			report(K_MINUS, mask, dt, expect_neg, 0, ord, A, B, fmt, txt, "a minus sign other than the leading one");
			bad++;
		}
	} else if (lead != expect_neg || minuses != lead) {
		snprintf(why, sizeof(why), "%s; exactly one leading '-' iff the second operand is earlier",
			 minuses > lead ? "a minus sign other than the leading one" : lead ? "leading '-' although the second operand is not earlier" :
			 "no leading '-' although the second operand is earlier");
		report(K_MINUS, mask, dt, expect_neg, 0, ord, A, B, fmt, txt, why);
		bad++;
	}
	if (dt ? ((A->sec > B->sec) != (A->rd > B->rd) && A->rd != B->rd)
	    : (A->rd != B->rd && (rc_get(A->rd)->d > rc_get(B->rd)->d) == (A->rd < B->rd))) {
		/* time-of-day (dates: day-of-month) difference runs against the day difference: a borrow */
		++*c_nontriv;
	}
	if (cls == 0) {
		/* fixed units: exact greedy decomposition of T */
		long long T = ad / USEC[fin] * USEC[fin], rem = T, e[NU], sum = 0;
		int differ = 0;
		for (int i = 0; i < NU; i++) {
			e[i] = 0;
			if (mask & (1 << i)) {
				e[i] = rem / USEC[i];
				rem %= USEC[i];
				sum += c[i] * USEC[i];
				differ |= e[i] != c[i];
			}
		}
		if (differ) {
			char es[96] = "";
			for (int i = 0; i < NU; i++) {
				if (mask & (1 << i)) {
					snprintf(es + strlen(es), sizeof(es) - strlen(es), "%s%lld", *es ? " " : "", e[i]);
				}
			}
			snprintf(why, sizeof(why), "the difference of the epoch values is %lld s, truncated to the finest unit %lld s = '%s' (printed components sum to %lld s)",
				 ad, T, es, sum);
			report(sum == T ? K_RANGE : K_SUM, mask, dt, expect_neg, 0, ord, A, B, fmt, txt, why);
			bad++;
		}
	} else if (cls == 1 || cls == 2) {
		/* calendar chains */
		int prev = -1;
		if ((mask & B_Y) && (mask & B_MO) && c[1] >= 12) {
			report(K_MON12, mask, dt, expect_neg, 0, ord, A, B, fmt, txt, "months must stay below 12 under years");
			bad++;
		}
		for (int i = 0; i < NU; i++) {
			if (!(mask & (1 << i))) {
				continue;
			}
			if (prev >= 0 && !(prev == 0 && i == 1) && c[i] >= range_under(prev, i)) {
				snprintf(why, sizeof(why), "the %s component is outside its natural range under %s (< %lld)", USUF[i], USUF[prev], range_under(prev, i));
				report(K_RANGE, mask, dt, expect_neg, 0, ord, A, B, fmt, txt, why);
				bad++;
				break;
			}
			prev = i;
		}
		if (A->frac) {
			EX_CTR(c_fr, "skipped:application of a month/year chain to operands with a fraction of a second (dadd prints whole seconds)");
			++*c_fr;
		} else {
			const struct val_s *e = expect_neg ? (cls == 2 ? Bw : B) : (cls == 2 ? Aw : A);
			const struct rc_day *pe = rc_get(e->rd);
			int clamps = 0;
			if (cls == 1 && pe->d > 28) {
				/* does the printed number of years, then months, lead over a month without that day? */
				/* (including the probe "one finest unit more" when the finest unit is the year or the month) */
				long long ty = pe->y + ((mask & B_Y) ? c[0] : 0), tm = pe->m;
				clamps = ty > RC_MAX_YEAR || pe->d > rc_mlen((int)ty, (int)tm);
				if (!clamps && fin == 0) {
					clamps = ty + 1 > RC_MAX_YEAR || pe->d > rc_mlen((int)ty + 1, (int)tm);
				}
				if (!clamps && (mask & B_MO)) {
					tm += c[1];
					ty += (tm - 1) / 12;
					tm = (tm - 1) % 12 + 1;
					clamps = ty > RC_MAX_YEAR || pe->d > rc_mlen((int)ty, (int)tm);
					if (!clamps && fin == 1) {
						ty += tm == 12;
						tm = tm % 12 + 1;
						clamps = ty > RC_MAX_YEAR || pe->d > rc_mlen((int)ty, (int)tm);
					}
				}
			} else if (cls == 2 && pe->isow > 52) {
				long long ty = pe->isoy + c[0];
				clamps = ty > RC_MAX_YEAR || rc_isoweeks((int)ty) < 53;
			}
			if (clamps && cls == 2 && !bad) {
				/* start in ISO week 53 and the application would clamp: judge by arithmetic alone.
				 * The printed years span the ISO years starting with the earlier operand's
				 * (364 or 371 days each); years + weeks x 7 + days (+ time) must be the plain
				 * difference truncated to the finest requested unit */
				long long tot = 0;
				EX_CTR(c_w53, "judged_by_arithmetic:years+weeks chains from ISO week 53");
				++*c_w53;
				for (long long k = 0; k < c[0] && pe->isoy + k <= RC_MAX_YEAR; k++) {
					tot += rc_isoweeks(pe->isoy + (int)k) * 604800LL;
				}
				for (int i = 2; i < NU; i++) {
					if (mask & (1 << i)) {
						tot += c[i] * USEC[i];
					}
				}
				if (tot > ad || ad - tot >= USEC[fin]) {
					snprintf(why, sizeof(why), "the earlier operand lies in ISO week 53 of %d: %lld ISO year(s) from there plus the printed weeks, days and time are %lld s, "
						 "the plain difference is %lld s (must agree up to the finest unit)", pe->isoy, c[0], tot, ad);
					report(K_SUM, mask, dt, expect_neg, 0, ord, A, B, fmt, txt, why);
					bad++;
				}
			} else if (clamps) {
				EX_CTR(c_clamp, "skipped:application of a month/year chain that passes a month without the start's day-of-month (or a year without week 53): dadd clamps, ambiguous");
				++*c_clamp;
			} else if (!bad) {
				char units[160] = "", got[64], one[16];
				struct dt_dt_s res, res1;
				long long ir, il = expect_neg ? ia : ib, ir1 = -1;
				int cal = cls == 2 ? CAL_YWD : CAL_YMD;
				for (int i = 0; i < NU; i++) {
					if (mask & (1 << i)) {
						snprintf(units + strlen(units), sizeof(units) - strlen(units), "%s%lld%s", *units ? " " : "", c[i], USUF[i]);
					}
				}
				++*c_eval;
				if (dadd_apply(e->v, units, &res) < 0) {
					/* a component above 2^31-1 is rejected by dadd by design */
					EX_CTR(c_big, "skipped:printed component not accepted by dadd (above 2^31-1)");
					++*c_big;
					return bad;
				}
				dadd_print(got, sizeof(got), res);
				ir = text_instant(cal, got, dt);
				if (fin <= 1) {
					snprintf(one, sizeof(one), "1%s", USUF[fin]);
					if (dadd_apply(res, one, &res1) == 0) {
						char g1[64];
						dadd_print(g1, sizeof(g1), res1);
						ir1 = text_instant(cal, g1, dt);
					}
				} else {
					ir1 = ir + USEC[fin];
				}
				if (ir < 0 || ir > il || (ir1 >= 0 && ir1 <= il)) {
					snprintf(why, sizeof(why), "dadd %s %s gives '%s'; it must not pass the later value '%s' and be less than 1%s short of it",
						 e->text, units, got, expect_neg ? (cls == 2 ? Aw->text : A->text) : (cls == 2 ? Bw->text : B->text), USUF[fin]);
					report(K_APPLY, mask, dt, expect_neg, 0, ord, A, B, fmt, txt, why);
					bad++;
				}
			}
		}
	}
	/* order and padding variants print the same numbers */
	if (variants) {
		for (int o = 0; o < NORD; o++) {
			for (int p = 0; p < NPAD; p++) {
				char t2[128];
				long long v2[NU];
				int l2, m2, n2, same = 1;
				if ((o == 0 && p == 0) || (o == 2 && ncomp < 3) || (o == 1 && ncomp < 2)) {
					continue;
				}
				n2 = ddiff_pipe(t2, sizeof(t2), fmts[mask][o][p], dfm[mask][o][p], A->v, B->v);
				++*c_eval;
				if (n2 < 0 || parse_out(t2, v2, NU, &l2, &m2) != ncomp) {
					same = 0;
				} else {
					for (int i = 0; i < NU; i++) {
						if ((mask & (1 << i)) && v2[pos_of(mask, o, i)] != c[i]) {
							same = 0;
						}
					}
					same = same && l2 == lead && m2 == minuses;
				}
				if (!same) {
					snprintf(why, sizeof(why), "the descending unpadded format '%s' printed '%s'; order and padding must not change the numbers", fmt, txt);
					report(K_VARIANT, mask, dt, expect_neg, o * NPAD + p, ord, A, B, fmts[mask][o][p], t2, why);
					bad++;
				}
			}
		}
	}
	return bad;
}

/* boundary days */
static int
bdays(int *rd)
{
	static const int ys[4] = {1900, 2000, 2003, 2004};
	static const int ye[3] = {1999, 2003, 2004};
	static const int more[][3] = {
		{1601, 1, 1}, {1601, 1, 2}, {4095, 12, 30}, {4095, 12, 31}, {2012, 6, 30}, {2012, 7, 1}, {2000, 6, 15}, {2000, 10, 29},
		{2001, 1, 28}, {2001, 1, 29}, {2001, 1, 30}, {2001, 1, 31}, {2001, 2, 1}, {2001, 4, 29}, {2001, 4, 30}, {2001, 5, 1},
		{2009, 12, 28}, {2009, 12, 31}, {2010, 1, 3}, {2010, 1, 4}, {1998, 12, 28}, {1999, 1, 3}, {1999, 1, 4},
		{2002, 7, 31}, {2002, 8, 1}, {2002, 8, 31}, {2002, 9, 1}, {2002, 9, 30},
	};
	int n = 0;
	for (int i = 0; i < 4; i++) {
		for (int d = rc_rd(ys[i], 2, 27); d <= rc_rd(ys[i], 3, 2); d++) {
			rd[n++] = d;
		}
	}
	for (int i = 0; i < 3; i++) {
		for (int d = rc_rd(ye[i], 12, 30), k = 0; k < 4; k++) {
			rd[n++] = d + k;
		}
	}
	for (size_t i = 0; i < sizeof(more) / sizeof(*more); i++) {
		rd[n++] = rc_rd(more[i][0], more[i][1], more[i][2]);
	}
	for (int i = 1; i < n; i++) {
		int x = rd[i], j = i;
		while (j > 0 && rd[j - 1] > x) {
			rd[j] = rd[j - 1];
			j--;
		}
		rd[j] = x;
	}
	return n;
}

static const int T7[7] = {0, 1, 3599, 3600, 43199, 43200, 86399};

/* binding: the ddiff binary, one process per subset, a fixed reference instant and all instants of a day list on stdin */
static void
do_binding(int mask, const struct val_s *iv, int ni)
{
	const char *rundir = getenv("VERIF_RUNDIR");
	char fin[512], fout[512], cmd[2048], key[128], nm[48], line[256], cas[64];
	const struct val_s *A = iv + ni / 2;
	FILE *f;
	int k = 0;
	EX_CTR(c_bind, "cli_binding_replays");

	if (rundir == NULL || ex.tree == NULL) {
		return;
	}
	snprintf(fin, sizeof(fin), "%s/c06b.%d.in", rundir, mask);
	snprintf(fout, sizeof(fout), "%s/c06b.%d.out", rundir, mask);
	if ((f = fopen(fin, "w")) == NULL) {
		return;
	}
	for (int i = 0; i < ni; i++) {
		fprintf(f, "%s\n", iv[i].text);
	}
	fclose(f);
	snprintf(cmd, sizeof(cmd), "'%s/src/ddiff' '%s' -f '%s' < '%s' > '%s' 2>&1", ex.tree, A->text, fmts[mask][0][0], fin, fout);
	if (system(cmd)) {
		;
	}
	mask_name(mask, nm);
	snprintf(key, sizeof(key), "binding ddiff fmt=%s", nm);
	if ((f = fopen(fout, "r")) == NULL) {
		ex_viol(key, 0, "", cmd, "no output from the binary");
		return;
	}
	for (k = 0; k < ni && fgets(line, sizeof(line), f); k++) {
		char t[128];
		line[strcspn(line, "\n")] = '\0';
		ddiff_pipe(t, sizeof(t), fmts[mask][0][0], dfm[mask][0][0], A->v, iv[k].v);
		++*c_bind;
		if (strcmp(t, line)) {
			snprintf(cas, sizeof(cas), "bind %d %d", mask, k);
			ex_viol(key, k, cas, cmd, "ddiff %s %s -f '%s': the binary printed '%s', the included pipeline '%s'",
				A->text, iv[k].text, fmts[mask][0][0], line, t);
		}
	}
	fclose(f);
	if (k != ni) {
		ex_viol(key, k, "", cmd, "the binary printed %d lines for %d input lines", k, ni);
	}
	unlink(fin);
	unlink(fout);
}

/* ---- (d) repeated specifiers: the printed numbers are a function of the duration ----
 * A format in which a unit specifier occurs more than once (adjacent, three times, with
 * another specifier in between, with different paddings) must print, at every occurrence,
 * the number the single occurrence prints in the corresponding duplicate-free format
 * (both formats set the same durfmt flags, so ddiff computes the same duration).  The
 * leap-second aware %rS / %rT are included, with operand pairs that cross a leap second.
 * %S and %rS in one format: the two orders must print the same number per specifier. */
struct dup_s {
	char fmt[40];
	char base[40];
	int n;		/* numbers in fmt */
	int nb;		/* numbers in base */
	int map[4];	/* occurrence k of fmt must equal number map[k] of base */
	durfmt_t df, dfb;
};
static struct dup_s dups[256];
static int ndup;

static void
add_dup(const char *fmt, const char *base, int n, int nb, int m0, int m1, int m2)
{
	struct dup_s *d = dups + ndup++;
	snprintf(d->fmt, sizeof(d->fmt), "%s", fmt);
	snprintf(d->base, sizeof(d->base), "%s", base);
	d->n = n;
	d->nb = nb;
	d->map[0] = m0, d->map[1] = m1, d->map[2] = m2;
	d->df = determine_durfmt(d->fmt);
	d->dfb = determine_durfmt(d->base);
}

static void
build_dups(void)
{
	static const char *const atom[10] = {"%Y", "%m", "%w", "%d", "%H", "%M", "%S", "%rS", "%T", "%rT"};
	static const char padable[8] = "mwdHMS";
	char f[40], b[40];

	for (int x = 0; x < 10; x++) {
		snprintf(f, sizeof(f), "%s %s", atom[x], atom[x]);
		add_dup(f, atom[x], 2, 1, 0, 0, 0);
		snprintf(f, sizeof(f), "%s %s %s", atom[x], atom[x], atom[x]);
		add_dup(f, atom[x], 3, 1, 0, 0, 0);
		for (int z = 0; z < 8; z++) {
			/* seconds specifiers among each other are the "order" family below */
			if (z == x || (x >= 6 && z >= 6)) {
				continue;
			}
			snprintf(f, sizeof(f), "%s %s %s", atom[x], atom[z], atom[x]);
			snprintf(b, sizeof(b), "%s %s", atom[x], atom[z]);
			add_dup(f, b, 3, 2, 0, 1, 0);
		}
	}
	for (const char *c = padable; *c; c++) {
		snprintf(b, sizeof(b), "%%%c", *c);
		snprintf(f, sizeof(f), "%%0%c %%0%c", *c, *c);
		add_dup(f, b, 2, 1, 0, 0, 0);
		snprintf(f, sizeof(f), "%% %c %% %c", *c, *c);
		add_dup(f, b, 2, 1, 0, 0, 0);
		snprintf(f, sizeof(f), "%%0%c %% %c %%%c", *c, *c, *c);
		add_dup(f, b, 3, 1, 0, 0, 0);
	}
	add_dup("%0rS %0rS", "%rS", 2, 1, 0, 0, 0);
	add_dup("% rS %rS", "%rS", 2, 1, 0, 0, 0);
	/* %S and %rS together: order must not matter */
	add_dup("%rS %S", "%S %rS", 2, 2, 1, 0, 0);
	add_dup("%rT %T", "%T %rT", 2, 2, 1, 0, 0);
	add_dup("%rS %M %S", "%S %M %rS", 3, 3, 2, 1, 0);
	add_dup("%S %rS %S", "%S %rS", 3, 2, 0, 1, 0);
	add_dup("%rS %S %rS", "%rS %S", 3, 2, 0, 1, 0);
}

/* numbers of an output: leading '-', digit runs; every other byte ignored */
static int
dup_numbers(const char *s, long long v[], int maxv, int *lead)
{
	int n = 0;
	*lead = s[0] == '-';
	for (; *s; ) {
		if (*s >= '0' && *s <= '9') {
			long long x = 0;
			while (*s >= '0' && *s <= '9') {
				x = x * 10 + (*s++ - '0');
			}
			if (n < maxv) {
				v[n] = x;
			}
			n++;
		} else {
			s++;
		}
	}
	return n;
}

static struct ex_viol_s *dslot[256][2];

static int
do_dup(int fi, int ia, int ib, const struct val_s *A, const struct val_s *B)
{
	const struct dup_s *d = dups + fi;
	char t[128], tb[128], key[128], cas[64], cmd[256];
	long long v[8], vb[8];
	int l, lb, n, nb, bad = 0;
	long long delta = ((long long)B->rd - A->rd) * 86400LL + (B->sec - A->sec);
	double ord = (double)(delta < 0 ? -delta : delta) / 86400.0;
	int neg = delta < 0;
	EX_CTR(c_eval, "evaluations");
	EX_CTR(c_trans, "transitions");
	EX_CTR(c_dup, "repeated_specifier_cases");

	ddiff_pipe(t, sizeof(t), d->fmt, d->df, A->v, B->v);
	ddiff_pipe(tb, sizeof(tb), d->base, d->dfb, A->v, B->v);
	*c_eval += 2;
	++*c_trans;
	++*c_dup;
	ex_outcome(ex_hash_mix(ex_hash(t, strlen(t)), (uint64_t)(7000 + fi)));
	n = dup_numbers(t, v, 8, &l);
	nb = dup_numbers(tb, vb, 8, &lb);
	if (n != d->n || nb != d->nb || l != lb) {
		bad = 1;
	} else {
		for (int k = 0; k < d->n; k++) {
			bad |= v[k] != vb[d->map[k]];
		}
	}
	if (!bad) {
		if (replay_mode) {
			printf("  ddiff %s %s -f '%s' printed '%s'; -f '%s' printed '%s' (agree)\n", A->text, B->text, d->fmt, t, d->base, tb);
		}
		return 0;
	}
	if (viol_fast(&dslot[fi][neg], ord) && !replay_mode) {
		return 1;
	}
	snprintf(key, sizeof(key), "dup fmt=%s opnd=dt sign=%s", d->fmt, neg ? "-" : "+");
	snprintf(cas, sizeof(cas), "dup %d %d %d", fi, ia, ib);
	snprintf(cmd, sizeof(cmd), "ddiff %s %s -f '%s'", A->text, B->text, d->fmt);
	ex_viol(key, ord, cas, cmd, "ddiff %s %s -f '%s' printed '%s', but -f '%s' prints '%s': every occurrence of a specifier must print the number it prints alone",
		A->text, B->text, d->fmt, t, d->base, tb);
	for (int i = 0; i < ex.nviol; i++) {
		if (!strcmp(ex.viol[i].key, key)) {
			dslot[fi][neg] = ex.viol + i;
			break;
		}
	}
	if (replay_mode) {
		printf("  ddiff %s %s -f '%s' printed '%s', but -f '%s' prints '%s'\n", A->text, B->text, d->fmt, t, d->base, tb);
	}
	return 1;
}

/* operands of part (d): the boundary date-times plus instants on both sides of leap seconds */
static const int leap_inst[][4] = {
	{1972, 6, 30, 86399}, {1972, 7, 1, 0}, {1998, 12, 31, 86390}, {1999, 1, 1, 10}, {2008, 12, 31, 86399}, {2009, 1, 1, 0},
	{2012, 6, 30, 86390}, {2012, 6, 30, 86399}, {2012, 7, 1, 0}, {2012, 7, 1, 10}, {2016, 12, 31, 86390}, {2017, 1, 1, 10},
};
#define NLEAPI	((int)(sizeof(leap_inst) / sizeof(*leap_inst)))

static int dup_cal = CAL_YMD;

static struct val_s*
dup_operands(const int *rd, int ni, int *n)
{
	struct val_s *dv = calloc((size_t)(ni + NLEAPI), sizeof(*dv));
	for (int k = 0; k < ni; k++) {
		prep(dv + k, dup_cal, rd[k / 7], T7[k % 7]);
	}
	for (int k = 0; k < NLEAPI; k++) {
		prep(dv + ni + k, dup_cal, rc_rd(leap_inst[k][0], leap_inst[k][1], leap_inst[k][2]), leap_inst[k][3]);
	}
	*n = ni + NLEAPI;
	return dv;
}

/* binding for part (d): the ddiff binary, one process per format, reference = 2012-06-30T23:59:50 */
static void
do_dup_binding(int fi, const struct val_s *dv, int n, int ni)
{
	const char *rundir = getenv("VERIF_RUNDIR");
	char fin[512], fout[512], cmd[2048], key[128], line[256], cas[64];
	const struct val_s *A = dv + ni + 6;
	FILE *f;
	int k;
	EX_CTR(c_bind, "cli_binding_replays");

	if (rundir == NULL || ex.tree == NULL) {
		return;
	}
	snprintf(fin, sizeof(fin), "%s/c06d.%d.in", rundir, fi);
	snprintf(fout, sizeof(fout), "%s/c06d.%d.out", rundir, fi);
	if ((f = fopen(fin, "w")) == NULL) {
		return;
	}
	for (int i = 0; i < n; i++) {
		fprintf(f, "%s\n", dv[i].text);
	}
	fclose(f);
	snprintf(cmd, sizeof(cmd), "'%s/src/ddiff' '%s' -f '%s' < '%s' > '%s' 2>&1", ex.tree, A->text, dups[fi].fmt, fin, fout);
	if (system(cmd)) {
		;
	}
	snprintf(key, sizeof(key), "binding ddiff fmt=%s", dups[fi].fmt);
	if ((f = fopen(fout, "r")) == NULL) {
		ex_viol(key, 0, "", cmd, "no output from the binary");
		return;
	}
	for (k = 0; k < n && fgets(line, sizeof(line), f); k++) {
		char t[128];
		line[strcspn(line, "\n")] = '\0';
		ddiff_pipe(t, sizeof(t), dups[fi].fmt, dups[fi].df, A->v, dv[k].v);
		++*c_bind;
		if (strcmp(t, line)) {
			snprintf(cas, sizeof(cas), "dup %d %d %d", fi, ni + 6, k);
			ex_viol(key, k, cas, cmd, "ddiff %s %s -f '%s': the binary printed '%s', the included pipeline '%s'",
				A->text, dv[k].text, dups[fi].fmt, line, t);
		}
	}
	fclose(f);
	if (k != n) {
		ex_viol(key, k, "", cmd, "the binary printed %d lines for %d input lines", k, n);
	}
	unlink(fin);
	unlink(fout);
}

/* ---- (e)..(h): further operand representations and format families ---- */
/* the kind of duration ddiff selects for a format (determine_durtype), as class coordinate: the code path
 * depends on it, not on the individual format */
enum { DK_FIXED, DK_MONTHS, DK_YD, DK_YWD, DK_BIZ, NDK };
static const char *const dk_name[NDK] = {"fixed-units", "months(ymd)", "years+days(yd)", "years+weeks(ywd)", "business-days"};
static int mdk[NMASK];

static int
dur_kind(durfmt_t df)
{
	struct val_s x, y;
	prep(&x, CAL_YMD, 146000, 0);
	prep(&y, CAL_YMD, 147000, 0);
	switch ((int)determine_durtype(x.v, y.v, df)) {
	case DT_DURYMD: return DK_MONTHS;
	case DT_DURYD: return DK_YD;
	case DT_DURYWD: return DK_YWD;
	case DT_DURBD: return DK_BIZ;
	default: return DK_FIXED;
	}
}

static int
x_viol(struct ex_viol_s **slot, const char *key, double ord, const char *cas, const char *cmd, const char *detail)
{
	if (viol_fast(slot, ord) && !replay_mode) {
		return 1;
	}
	ex_viol(key, ord, cas, cmd, "%s", detail);
	for (int i = 0; i < ex.nviol; i++) {
		if (!strcmp(ex.viol[i].key, key)) {
			*slot = ex.viol + i;
			break;
		}
	}
	if (replay_mode) {
		printf("  %s\n", detail);
	}
	return 1;
}

static double
x_ord(const struct val_s *A, const struct val_s *B, int *neg)
{
	long long d = ((long long)B->rd - A->rd) * 86400LL + ((B->sec < 0 ? 0 : B->sec) - (A->sec < 0 ? 0 : A->sec));
	*neg = d < 0;
	return (double)(d < 0 ? -d : d) / 86400.0;
}

/* (e) epoch-held operands (@N): the printed duration is a function of the two instants, so it must be the text
 * printed for the same instants given as civil date-times - both operands epoch-held, or either one.
 * (f) the same with one date-only operand against an epoch-held date-time.
 * which: 0 = epoch epoch, 1 = epoch civil, 2 = civil epoch, 3 = date epoch, 4 = epoch date */
static const char *const repr_name[5] = {"epoch", "epoch~ymd", "ymd~epoch", "date~epoch", "epoch~date"};
static struct ex_viol_s *rslot[NDK][5][2];
#define UNPRINTABLE_RD	910674	/* the tools cannot convert day counts above this one (C01's finding) */

static int
do_repr(int mask, int which, int ia, int ib, const struct val_s *A, const struct val_s *B, const struct val_s *Ac, const struct val_s *Bc)
{
	/* A, B: the operands as given; Ac, Bc: the civil reference operands */
	char t[128], tc[128], key[128], cas[64], cmd[256], det[512];
	int neg;
	double ord = x_ord(Ac, Bc, &neg);
	EX_CTR(c_eval, "evaluations");
	EX_CTR(c_trans, "transitions");
	EX_CTR(c_n, "epoch_operand_cases");

	ddiff_pipe(t, sizeof(t), fmts[mask][0][0], dfm[mask][0][0], A->v, B->v);
	ddiff_pipe(tc, sizeof(tc), fmts[mask][0][0], dfm[mask][0][0], Ac->v, Bc->v);
	*c_eval += 2;
	++*c_trans;
	++*c_n;
	ex_outcome(ex_hash_mix(ex_hash(t, strlen(t)), (uint64_t)(9000 + mask)));
	if (!strcmp(t, tc)) {
		if (replay_mode) {
			printf("  ddiff %s %s -f '%s' printed '%s', as for %s %s\n", A->text, B->text, fmts[mask][0][0], t, Ac->text, Bc->text);
		}
		return 0;
	}
	snprintf(key, sizeof(key), "repr dur=%s opnd=%s sign=%s", dk_name[mdk[mask]], repr_name[which], neg ? "-" : "+");
	snprintf(cas, sizeof(cas), "x repr %d %d %d %d", mask, which, ia, ib);
	snprintf(cmd, sizeof(cmd), "ddiff %s %s -f '%s'", A->text, B->text, fmts[mask][0][0]);
	snprintf(det, sizeof(det), "ddiff %s %s -f '%s' printed '%s', but the same instants given as %s %s print '%s'",
		 A->text, B->text, fmts[mask][0][0], t, Ac->text, Bc->text, tc);
	return x_viol(&rslot[mdk[mask]][which][neg], key, ord, cas, cmd, det);
}

/* (g) business days (%db) together with time units, and -f bizsi, on date-times.
 * sign rule always; from a Monday..Friday earlier operand the components recombine by application:
 * earlier (+) Nw Nb Nh Nm Ns through dadd must not pass the later value and be less than one
 * finest unit short of it; business days < 5 under weeks, minutes < 60 under hours, seconds < 60
 * under minutes (hours under business days are not bounded: a weekend may lie in the remainder) */
struct biz_s {
	char fmt[40];
	int units;	/* bits: 1 w, 2 b, 4 H, 8 M, 16 S */
	int bizsi;
	int fam;
	durfmt_t df;
};
static const char *const bizfam[5] = {"%db", "%db+time", "%w %db", "%w %db+time", "bizsi"};
static struct biz_s bizf[40];
static int nbiz;
static struct ex_viol_s *bslot[5][4][2];

static void
build_biz(void)
{
	for (int w = 0; w < 2; w++) {
		for (int t = 0; t < 8; t++) {
			struct biz_s *b = bizf + nbiz++;
			snprintf(b->fmt, sizeof(b->fmt), "%s%%db%s%s%s", w ? "%w " : "", (t & 4) ? " %H" : "", (t & 2) ? " %M" : "", (t & 1) ? " %S" : "");
			b->units = (w ? 1 : 0) | 2 | ((t & 4) ? 4 : 0) | ((t & 2) ? 8 : 0) | ((t & 1) ? 16 : 0);
			b->df = determine_durfmt(b->fmt);
			b->fam = (w ? 2 : 0) + (t ? 1 : 0);
		}
	}
	bizf[nbiz].fam = 4;
	snprintf(bizf[nbiz].fmt, sizeof(bizf[nbiz].fmt), "bizsi");
	bizf[nbiz].units = 2 | 4 | 8 | 16;
	bizf[nbiz].bizsi = 1;
	bizf[nbiz].df = determine_durfmt("bizsi");
	nbiz++;
}

static int
do_biz(int fi, int ia, int ib, const struct val_s *A, const struct val_s *B)
{
	static const char *const suf[5] = {"w", "b", "h", "m", "s"};
	static const long long usec[5] = {604800, 86400, 3600, 60, 1};
	static const char *const kn[4] = {"biz-output", "biz-minus", "biz-range", "biz-apply"};
	const struct biz_s *b = bizf + fi;
	char t[128], key[128], cas[64], cmd[256], det[640], why[320];
	long long v[8], c[5] = {0, 0, 0, 0, 0};
	int neg, lead = 0, minuses = 0, n, nz = 0, kind = -1, ncomp = 0, fin = 1;
	double ord = x_ord(A, B, &neg);
	const struct val_s *e = neg ? B : A, *l = neg ? A : B;
	EX_CTR(c_eval, "evaluations");
	EX_CTR(c_trans, "transitions");
	EX_CTR(c_n, "bizday_time_cases");

	for (int k = 0; k < 5; k++) {
		if (b->units & (1 << k)) {
			ncomp++;
			fin = k;
		}
	}
	n = ddiff_pipe(t, sizeof(t), b->fmt, b->df, A->v, B->v);
	++*c_eval;
	++*c_trans;
	++*c_n;
	ex_outcome(ex_hash_mix(ex_hash(t, strlen(t)), (uint64_t)(11000 + fi)));
	why[0] = '\0';
	if (n >= 0) {
		/* digits, leading minus, all minuses; 'b', 'T' and ':' are separators here */
		lead = t[0] == '-';
		n = 0;
		for (const char *q = t; *q; ) {
			if (*q >= '0' && *q <= '9') {
				long long x = 0;
				while (*q >= '0' && *q <= '9') {
					x = x * 10 + (*q++ - '0');
				}
				if (n < 8) {
					v[n] = x;
				}
				n++;
			} else {
				minuses += *q++ == '-';
			}
		}
	}
	if (n != ncomp) {
		kind = 0;
		snprintf(why, sizeof(why), "not one number per requested unit");
	} else {
		for (int k = 0, i = 0; k < 5; k++) {
			if (b->units & (1 << k)) {
				c[k] = v[i++];
				nz |= c[k] != 0;
			}
		}
		if (nz ? (lead != neg || minuses != lead) : minuses > lead) {
			kind = 1;
			snprintf(why, sizeof(why), "exactly one leading '-' iff the second operand is earlier");
		} else if (((b->units & 1) && c[1] >= 5) || ((b->units & 4) && (b->units & 8) && c[3] >= 60) || ((b->units & 8) && (b->units & 16) && c[4] >= 60) ||
			   ((b->units & 4) && !(b->units & 8) && (b->units & 16) && c[4] >= 3600)) {
			kind = 2;
			snprintf(why, sizeof(why), "a refined unit is outside its natural range (business days < 5 under weeks, minutes < 60 under hours, seconds < 60 under minutes)");
		} else if (!rc_get(e->rd)->isbd) {
			EX_CTR(c_we, "skipped:business days from a weekend day (only sign and shape judged)");
			++*c_we;
		} else {
			char units[128] = "", got[64], g1[64];
			struct dt_dt_s res, res1;
			long long ir, ir1 = -1, il = (long long)l->rd * 86400LL + l->sec;
			for (int k = 0; k < 5; k++) {
				if (b->units & (1 << k)) {
					snprintf(units + strlen(units), sizeof(units) - strlen(units), "%s%lld%s", *units ? " " : "", c[k], suf[k]);
				}
			}
			++*c_eval;
			if (dadd_apply(e->v, units, &res) == 0) {
				dadd_print(got, sizeof(got), res);
				ir = text_instant(CAL_YMD, got, 1);
				if (fin == 1) {
					if (dadd_apply(res, "1b", &res1) == 0) {
						dadd_print(g1, sizeof(g1), res1);
						ir1 = text_instant(CAL_YMD, g1, 1);
					}
				} else {
					ir1 = ir + usec[fin];
				}
				if (ir < 0 || ir > il || (ir1 >= 0 && ir1 <= il)) {
					kind = 3;
					snprintf(why, sizeof(why), "dadd %s %s gives '%s'; it must not pass the later value '%s' and be less than 1%s short of it",
						 e->text, units, got, l->text, suf[fin]);
				}
			}
		}
	}
	if (kind < 0) {
		if (replay_mode) {
			printf("  ddiff %s %s -f '%s' printed '%s' (holds)\n", A->text, B->text, b->fmt, t);
		}
		return 0;
	}
	snprintf(key, sizeof(key), "%s fmt=%s opnd=dt sign=%s", kn[kind], bizfam[b->fam], neg ? "-" : "+");
	snprintf(cas, sizeof(cas), "x biz %d 0 %d %d", fi, ia, ib);
	snprintf(cmd, sizeof(cmd), "ddiff %s %s -f '%s'", A->text, B->text, b->fmt);
	snprintf(det, sizeof(det), "ddiff %s %s -f '%s' printed '%s': %s", A->text, B->text, b->fmt, t, why);
	return x_viol(&bslot[b->fam][kind][neg], key, ord, cas, cmd, det);
}

/* (h) %rS inside formats with months, years or business days: the %rS slot must be the %S slot of the
 * same format plus the leap seconds between the operands, as it is in the fixed-unit formats; the leap
 * seconds are taken from the tool's own -f %rS and -f %S (whose agreement with the table is C14's) */
struct rs_s {
	char fmt[48], base[48];
	int n, spos, dk;
	durfmt_t df, dfb;
};
static struct rs_s rsf[64];
static int nrs;
static struct ex_viol_s *sslot[NDK][2];
static durfmt_t df_rS, df_S;

static void
add_rs(const char *base)
{
	struct rs_s *r = rsf + nrs++;
	const char *q = strstr(base, "%S");
	int n = 0;
	snprintf(r->base, sizeof(r->base), "%s", base);
	snprintf(r->fmt, sizeof(r->fmt), "%.*s%%rS%s", (int)(q - base), base, q + 2);
	for (const char *x = base; *x; x++) {
		if (*x == '%') {
			if (x == q) {
				r->spos = n;
			}
			n++;
		}
	}
	r->n = n;
	r->df = determine_durfmt(r->fmt);
	r->dfb = determine_durfmt(r->base);
	r->dk = dur_kind(r->dfb);
}

static void
build_rs(void)
{
	for (int m = 1; m < NMASK; m++) {
		if ((m & B_S) && (m & (B_Y | B_MO))) {
			add_rs(fmts[m][0][0]);
		}
	}
	add_rs("%db %S");
	add_rs("%w %db %S");
	add_rs("%db %H %M %S");
	df_rS = determine_durfmt("%rS");
	df_S = determine_durfmt("%S");
}

static int
do_rs(int fi, int ia, int ib, const struct val_s *A, const struct val_s *B, long long corr)
{
	const struct rs_s *r = rsf + fi;
	char t[128], tb[128], key[128], cas[64], cmd[256], det[512];
	long long v[8], vb[8];
	int l, lb, n, nb, bad = 0, neg;
	double ord = x_ord(A, B, &neg);
	EX_CTR(c_eval, "evaluations");
	EX_CTR(c_trans, "transitions");
	EX_CTR(c_n, "rS_in_calendar_format_cases");

	ddiff_pipe(t, sizeof(t), r->fmt, r->df, A->v, B->v);
	ddiff_pipe(tb, sizeof(tb), r->base, r->dfb, A->v, B->v);
	*c_eval += 2;
	++*c_trans;
	++*c_n;
	n = dup_numbers(t, v, 8, &l);
	nb = dup_numbers(tb, vb, 8, &lb);
	if (n != r->n || nb != r->n) {
		bad = 1;
	} else {
		for (int k = 0; k < n; k++) {
			bad |= v[k] != vb[k] + (k == r->spos ? corr : 0);
		}
	}
	if (!bad) {
		if (replay_mode) {
			printf("  ddiff %s %s -f '%s' printed '%s', -f '%s' printed '%s', leap seconds between the operands: %lld (agree)\n",
			       A->text, B->text, r->fmt, t, r->base, tb, corr);
		}
		return 0;
	}
	snprintf(key, sizeof(key), "rS dur=%s opnd=dt sign=%s", dk_name[r->dk], neg ? "-" : "+");
	snprintf(cas, sizeof(cas), "x rs %d 0 %d %d", fi, ia, ib);
	snprintf(cmd, sizeof(cmd), "ddiff %s %s -f '%s'", A->text, B->text, r->fmt);
	snprintf(det, sizeof(det), "ddiff %s %s -f '%s' printed '%s'; -f '%s' prints '%s' and -f %%rS / -f %%S differ by %lld leap second(s), which must show in the %%rS slot",
		 A->text, B->text, r->fmt, t, r->base, tb, corr);
	return x_viol(&sslot[r->dk][neg], key, ord, cas, cmd, det);
}

/* leap seconds between two operands according to the tool's own single-specifier formats */
static long long
tool_corr(const struct val_s *A, const struct val_s *B)
{
	char a[64], b[64];
	long long va[2], vb[2];
	int l;
	ddiff_pipe(a, sizeof(a), "%rS", df_rS, A->v, B->v);
	ddiff_pipe(b, sizeof(b), "%S", df_S, A->v, B->v);
	if (dup_numbers(a, va, 2, &l) != 1 || dup_numbers(b, vb, 2, &l) != 1) {
		return 0;
	}
	return va[0] - vb[0];
}

/* all of (e)..(h) for one ordered pair of the operand list */
static void
do_extra(int i, int j, int ni, const struct val_s *dv, const struct val_s *dve)
{
	if (i < ni && j < ni) {
		if (dv[i].rd < UNPRINTABLE_RD && dv[j].rd < UNPRINTABLE_RD) {
			for (int m = 1; m < NMASK; m++) {
				do_repr(m, 0, i, j, dve + i, dve + j, dv + i, dv + j);
				do_repr(m, 1, i, j, dve + i, dv + j, dv + i, dv + j);
				do_repr(m, 2, i, j, dv + i, dve + j, dv + i, dv + j);
			}
			if (i % 7 == 0) {
				/* (f) the day of instant i as a date-only operand */
				struct val_s D;
				prep(&D, CAL_YMD, dv[i].rd, -1);
				for (int m = 1; m < NMASK; m++) {
					do_repr(m, 3, i, j, &D, dve + j, &D, dv + j);
					do_repr(m, 4, j, i, dve + j, &D, dv + j, &D);
				}
			}
		} else {
			EX_CTR(c_unpr, "skipped:epoch-held operand of a day the tools cannot convert (after 4094-05-04: C01's finding)");
			++*c_unpr;
		}
		for (int fi = 0; fi < nbiz; fi++) {
			do_biz(fi, i, j, dv + i, dv + j);
		}
	}
	{
		long long corr = tool_corr(dv + i, dv + j);
		for (int fi = 0; fi < nrs; fi++) {
			do_rs(fi, i, j, dv + i, dv + j, corr);
		}
	}
}

/* (j) operands with fractions of a second */
static const int fr_base[12][4] = {
	{2012, 1, 1, 0}, {2012, 1, 1, 1}, {2012, 1, 1, 59}, {2012, 1, 1, 60}, {2012, 1, 1, 3599}, {2012, 1, 1, 86399},
	{2012, 1, 2, 0}, {2012, 1, 3, 0}, {2012, 2, 29, 43200}, {2012, 3, 1, 0}, {2011, 12, 31, 86399}, {2013, 1, 1, 1},
};
static const int fr_ns[5] = {0, 100000000, 500000000, 900000000, 999999999};
#define NFRAC	60

static void
frac_operand(struct val_s *x, int k)
{
	const int *b = fr_base[k / 5];
	prep_frac(x, rc_rd(b[0], b[1], b[2]), b[3], fr_ns[k % 5]);
}

/* what the undocumented duration specifier %N does: counted, not judged */
static void
observe_nano(const struct val_s *A, const struct val_s *B)
{
	static durfmt_t f1, f2;
	static int init;
	char t[128], e[128];
	long long dns = (((long long)B->rd - A->rd) * 86400LL + (B->sec - A->sec)) * 1000000000LL + ((long long)B->ns - A->ns);
	long long a = dns < 0 ? -dns : dns;
	EX_CTR(c_eval, "evaluations");
	EX_CTR(c_o1, "observed:'%S.%N' on date-times prints something else than the seconds and nanoseconds of the difference (%N is no documented duration specifier)");
	EX_CTR(c_o2, "observed:'%d %H:%M:%S.%N' on date-times prints something else than the exact difference (%N is no documented duration specifier)");
	EX_CTR(c_o0, "observed:pairs of fractional date-times printed with %N formats");

	if (!init) {
		f1 = determine_durfmt("%S.%N");
		f2 = determine_durfmt("%d %H:%M:%S.%N");
		init = 1;
	}
	++*c_o0;
	ddiff_pipe(t, sizeof(t), "%S.%N", f1, A->v, B->v);
	snprintf(e, sizeof(e), "%s%lld.%09lld", dns < 0 ? "-" : "", a / 1000000000LL, a % 1000000000LL);
	*c_o1 += strcmp(t, e) != 0;
	ddiff_pipe(t, sizeof(t), "%d %H:%M:%S.%N", f2, A->v, B->v);
	snprintf(e, sizeof(e), "%s%lld %lld:%lld:%lld.%09lld", dns < 0 ? "-" : "", a / 86400000000000LL, a / 3600000000000LL % 24,
		 a / 60000000000LL % 60, a / 1000000000LL % 60, a % 1000000000LL);
	*c_o2 += strcmp(t, e) != 0;
	*c_eval += 2;
}

int
main(int argc, char *argv[])
{
	EX_CTR(c_states, "states");
	EX_CTR(c_traces, "traces");
	int rd[80], nd, ni, K, slice = 0, ninex = 0, nfix = 0, ncal = 0;
	struct val_s *iv = NULL, *ivw = NULL;

	ex_init(argc, argv);
	rc_selfcheck();
	ex_wd_init(2000);
	for (int m = 1; m < NMASK; m++) {
		for (int o = 0; o < NORD; o++) {
			for (int p = 0; p < NPAD; p++) {
				build_fmt(m, o, p, fmts[m][o][p]);
				dfm[m][o][p] = determine_durfmt(fmts[m][o][p]);
			}
		}
		if (!(m & (B_Y | B_MO))) {
			mclass[m] = 0;
			nfix++;
		} else if ((m & (B_H | B_MI | B_S)) && !(m & B_D)) {
			/* format-ddiff.texi: "it is not possible to express a duration in months and hours
			 * without having a %d specifier as well" */
			mclass[m] = 3;
			ninex++;
		} else {
			mclass[m] = ((m & B_Y) && (m & B_W) && !(m & B_MO)) ? 2 : 1;
			ncal++;
		}
	}
	nd = bdays(rd);
	ni = nd * 7;
	build_dups();
	for (int m = 1; m < NMASK; m++) {
		mdk[m] = dur_kind(dfm[m][0][0]);
	}
	build_biz();
	build_rs();

	if (ex.cas) {
		int mask, dt, ra, sa, rb, sb, bad;
		struct val_s A, B, Aw, Bw;
		replay_mode = 1;
		if (!strncmp(ex.cas, "fpair ", 6)) {
			int na, nb;
			if (sscanf(ex.cas + 6, "%d %d %d %d %d %d %d", &mask, &ra, &sa, &na, &rb, &sb, &nb) != 7 || mask < 1 || mask >= NMASK ||
			    ra < 0 || rb < 0 || ra >= RC_NDAYS || rb >= RC_NDAYS) {
				return ex_replay_result(1, "bad case '%s'", ex.cas);
			}
			prep_frac(&A, ra, sa, na);
			prep_frac(&B, rb, sb, nb);
			bad = do_case(mask, 1, 0, &A, &B, &A, &B);
			return ex_replay_result(bad != 0, "fmt=%s %s %s", fmts[mask][0][0], A.text, B.text);
		}
		if (!strncmp(ex.cas, "x ", 2)) {
			char part[16];
			int fi, w, ia, ib, n;
			struct val_s *dv, *dve, D;
			if (sscanf(ex.cas + 2, "%15s %d %d %d %d", part, &fi, &w, &ia, &ib) != 5) {
				return ex_replay_result(1, "bad case '%s'", ex.cas);
			}
			dv = dup_operands(rd, ni, &n);
			dup_cal = CAL_EPOCH;
			dve = dup_operands(rd, ni, &n);
			dup_cal = CAL_YMD;
			if (ia < 0 || ib < 0 || ia >= n || ib >= n || fi < 0) {
				return ex_replay_result(1, "bad case '%s'", ex.cas);
			}
			if (!strcmp(part, "repr") && fi >= 1 && fi < NMASK && w >= 0 && w < 5) {
				switch (w) {
				case 0: bad = do_repr(fi, w, ia, ib, dve + ia, dve + ib, dv + ia, dv + ib); break;
				case 1: bad = do_repr(fi, w, ia, ib, dve + ia, dv + ib, dv + ia, dv + ib); break;
				case 2: bad = do_repr(fi, w, ia, ib, dv + ia, dve + ib, dv + ia, dv + ib); break;
				case 3: prep(&D, CAL_YMD, dv[ia].rd, -1); bad = do_repr(fi, w, ia, ib, &D, dve + ib, &D, dv + ib); break;
				default: prep(&D, CAL_YMD, dv[ib].rd, -1); bad = do_repr(fi, w, ia, ib, dve + ia, &D, dv + ia, &D); break;
				}
			} else if (!strcmp(part, "biz") && fi < nbiz) {
				bad = do_biz(fi, ia, ib, dv + ia, dv + ib);
			} else if (!strcmp(part, "rs") && fi < nrs) {
				bad = do_rs(fi, ia, ib, dv + ia, dv + ib, tool_corr(dv + ia, dv + ib));
			} else {
				return ex_replay_result(1, "bad case '%s'", ex.cas);
			}
			return ex_replay_result(bad != 0, "%s %s %s", part, dv[ia].text, dv[ib].text);
		}
		if (!strncmp(ex.cas, "dup ", 4)) {
			int fi, ia, ib, n;
			struct val_s *dv = dup_operands(rd, ni, &n);
			if (sscanf(ex.cas + 4, "%d %d %d", &fi, &ia, &ib) != 3 || fi < 0 || fi >= ndup || ia < 0 || ib < 0 || ia >= n || ib >= n) {
				return ex_replay_result(1, "bad case '%s'", ex.cas);
			}
			bad = do_dup(fi, ia, ib, dv + ia, dv + ib);
			if (ex.tree) {
				char cmd[512], line[256] = "", t[128];
				FILE *pp;
				ddiff_pipe(t, sizeof(t), dups[fi].fmt, dups[fi].df, dv[ia].v, dv[ib].v);
				snprintf(cmd, sizeof(cmd), "'%s/src/ddiff' '%s' '%s' -f '%s' 2>&1", ex.tree, dv[ia].text, dv[ib].text, dups[fi].fmt);
				if ((pp = popen(cmd, "r"))) {
					if (fgets(line, sizeof(line), pp)) {
						line[strcspn(line, "\n")] = '\0';
					}
					pclose(pp);
				}
				printf("  binary '%s', included pipeline '%s'\n", line, t);
				bad |= strcmp(line, t) != 0;
			}
			return ex_replay_result(bad != 0, "fmt='%s' %s %s", dups[fi].fmt, dv[ia].text, dv[ib].text);
		}
		if (sscanf(ex.cas, "pair %d %d %d %d %d %d", &mask, &dt, &ra, &sa, &rb, &sb) != 6 || mask < 1 || mask >= NMASK ||
		    ra < 0 || rb < 0 || ra >= RC_NDAYS || rb >= RC_NDAYS) {
			if (sscanf(ex.cas, "bind %d %d", &mask, &dt) == 2 && mask >= 1 && mask < NMASK && dt >= 0 && dt < ni) {
				char cmd[512], line[256] = "", t[128];
				FILE *pp;
				prep(&A, CAL_YMD, rd[(ni / 2) / 7], T7[(ni / 2) % 7]);
				prep(&B, CAL_YMD, rd[dt / 7], T7[dt % 7]);
				ddiff_pipe(t, sizeof(t), fmts[mask][0][0], dfm[mask][0][0], A.v, B.v);
				snprintf(cmd, sizeof(cmd), "'%s/src/ddiff' '%s' '%s' -f '%s' 2>&1", ex.tree, A.text, B.text, fmts[mask][0][0]);
				if ((pp = popen(cmd, "r"))) {
					if (fgets(line, sizeof(line), pp)) {
						line[strcspn(line, "\n")] = '\0';
					}
					pclose(pp);
				}
				printf("  binary '%s', included pipeline '%s'\n", line, t);
				return ex_replay_result(strcmp(line, t) != 0, "binding fmt=%s", fmts[mask][0][0]);
			}
			return ex_replay_result(1, "bad case '%s'", ex.cas);
		}
		prep(&A, CAL_YMD, ra, dt ? sa : -1);
		prep(&B, CAL_YMD, rb, dt ? sb : -1);
		prep(&Aw, CAL_YWD, ra, dt ? sa : -1);
		prep(&Bw, CAL_YWD, rb, dt ? sb : -1);
		bad = do_case(mask, dt, 1, &A, &B, &Aw, &Bw);
		return ex_replay_result(bad != 0, "fmt=%s %s %s", fmts[mask][0][0], A.text, B.text);
	}

	K = ex.thorough ? 800 : 120;
	ex_meta("rule", "every ordered pair of the stated operands through ddiff's own pipeline (ddiff.c included) x every non-empty subset of "
		"%%Y %%m %%w %%d %%H %%M %%S (127 formats, blank separated, descending): %d subsets of fixed-length units are judged against the greedy "
		"decomposition of trunc(|delta|/u)*u (delta = plain difference of the epoch values, 86400 s days; u = finest requested unit), which is the "
		"unique tuple with conserved sum, natural ranges and the coarsest unit carrying the rest; %d month/year chains the documentation calls "
		"expressible are judged by months < 12 under years, generous natural ranges (days < 31 under months, < 366 under years, weeks < 54 under "
		"years, ...) and by application: earlier (+) components through dadd's parser and dt_dtadd must not pass the later value and be less than one "
		"finest unit short (years+weeks chains are applied to the ISO week date operand, as ddiff counts them; only when no step of the application passes a month "
		"without the start's day-of-month, resp. a year without week 53, where dadd clamps; years+weeks chains from ISO week 53 are judged by arithmetic there: ISO years spanned from the earlier operand + weeks x 7 + days = plain difference up to the finest unit); %d subsets the documentation declares inexpressible (month/year with a time unit but no %%d) are judged for sign and parseable output only; "
		"sign: exactly one '-', in front, iff the second operand is earlier (not judged on all-zero output); for date-time pairs the ascending and a "
		"rotated order and the %%0 and '%% ' paddings must print the same numbers. non-trivial = the time-of-day difference (for dates: the day-of-month difference) "
		"runs against the day difference (borrow); repeated specifiers: every occurrence of a specifier prints the number the single occurrence prints "
		"in the duplicate-free format (same durfmt flags, hence the same duration), same sign; %%S and %%rS in one format print the same numbers in either order; "
		"epoch-held operands (@N): the output is a function of the two instants, so it must be the text printed for the same instants given as civil date-times "
		"(both operands epoch-held, either one, and a date-only operand against an epoch-held one; days after 4094-05-04, which the tools cannot convert, skipped); "
		"%%db with time units and -f bizsi on date-times: sign rule always, and from a Monday..Friday earlier operand recombination by application (earlier + Nw Nb Nh Nm Ns "
		"through dadd must not pass the later value and be less than one finest unit short), business days < 5 under weeks, minutes/seconds < 60; "
		"%%rS inside month/year/business-day formats: its slot = the %%S slot of the same format + the leap seconds between the operands (taken from the tool's own -f %%rS minus -f %%S). "
		"Reading kept for %%Y with time units but without %%m %%w %%d (audit F1: months silently dropped): info/format-ddiff.texi lists only %%m %%w %%d as refinements of %%Y "
		"and %%H %%M %%S only as refinements of %%d, and says a chain without %%d is 'not possible', so such subsets stay shape-and-sign only; "
		"operands with a fraction of a second (read with -i '%%FT%%T.%%N'): the 31 fixed-unit subsets are judged against the exact difference in nanoseconds truncated toward zero "
		"to the finest requested unit; %%N as a DURATION specifier is not in info/format-ddiff.texi, what '%%S.%%N' and '%%d %%H:%%M:%%S.%%N' print is only counted (observed:...)",
		nfix, ncal, ninex);
	ex_meta("bound", "(a) %d boundary days x 7 times of day = %d date-times, all ordered pairs x 127 subsets x (1 + up to 8 order/padding variants); "
		"(b) dates: every day of %s x partner at distance -%d..%d x 127 subsets; operands in y-m-d; "
		"(c) binding: ddiff binary, one process per subset, %d date-times on stdin; "
		"(d) repeated specifiers: %d date-times (the same plus %d instants on both sides of the leap seconds of 1972, 1998, 2008, 2012, 2016), all ordered "
		"pairs x %d formats in which one of %%Y %%m %%w %%d %%H %%M %%S %%rS %%T %%rT occurs two or three times (adjacent, with another specifier in between, "
		"with different paddings, %%S/%%rS in both orders), each against its duplicate-free format; binding: one ddiff process per such format; "
		"(e) the 420 date-times epoch-held (@N) x 127 subsets: both operands, epoch vs civil, civil vs epoch; (f) each of the 60 days as date-only operand against the 420 epoch-held date-times, "
		"both orders x 127 subsets; (g) the 420 date-times, all ordered pairs x 17 formats with %%db (with and without %%w, all subsets of %%H %%M %%S, and bizsi); "
		"(h) the 432 date-times of (d), all ordered pairs x 51 formats with %%rS next to months, years or business days; "
		"(i) dates: day-of-year 58..61 of 1896 1899 1900 1903 1904 1999 2000 2001 2096 2100 against every day of the following two years, both orders x the 64 subsets with %%Y; "
		"(k) dates: every day of ISO week 53 of 1998 2004 2009 2015 2020 against every day of the following 800, both orders x the 16 years+weeks subsets; "
		"(j) 12 date-times x fractions .0 .1 .5 .9 .999999999 = 60 operands, all ordered pairs x 127 subsets (month/year chains: sign and shape only)",
		nd, ni, ex.thorough ? "1997-2004 and 1897-1904" : "1997-2004", K, K, ni, ni + NLEAPI, NLEAPI, ndup);
	ex_meta("binding", "ddiff REF -f SUBSET < date-times, byte-compared with the included pipeline");

	/* (a) date-times */
	for (int i = 0; i < ni && !ex_expired(); i++, slice++) {
		if (!ex_mine((uint64_t)slice)) {
			continue;
		}
		if (iv == NULL) {
			iv = calloc((size_t)ni, sizeof(*iv));
			ivw = calloc((size_t)ni, sizeof(*ivw));
			for (int k = 0; k < ni; k++) {
				prep(iv + k, CAL_YMD, rd[k / 7], T7[k % 7]);
				prep(ivw + k, CAL_YWD, rd[k / 7], T7[k % 7]);
			}
		}
		++*c_states;
		for (int j = 0; j < ni; j++) {
			for (int m = 1; m < NMASK; m++) {
				do_case(m, 1, 1, iv + i, iv + j, ivw + i, ivw + j);
			}
		}
		++*c_traces;
		if (ex_want_sample()) {
			ex_sample("date-time %s against each of the %d date-times x 127 unit subsets x orders x paddings", iv[i].text, ni);
		}
	}
	/* (b) dates */
	for (int w = 0; w < (ex.thorough ? 2 : 1); w++) {
		int lo = rc_yearstart[w ? 1897 : 1997], hi = rc_yearstart[w ? 1905 : 2005] - 1;
		for (int a = lo; a <= hi && !ex_expired(); a++, slice++) {
			struct val_s A, Aw, B, Bw;
			if (!ex_mine((uint64_t)slice)) {
				continue;
			}
			prep(&A, CAL_YMD, a, -1);
			prep(&Aw, CAL_YWD, a, -1);
			++*c_states;
			for (int k = -K; k <= K; k++) {
				if (a + k < 0 || a + k >= RC_NDAYS) {
					continue;
				}
				prep(&B, CAL_YMD, a + k, -1);
				prep(&Bw, CAL_YWD, a + k, -1);
				for (int m = 1; m < NMASK; m++) {
					do_case(m, 0, 0, &A, &B, &Aw, &Bw);
				}
			}
			++*c_traces;
			if (ex_want_sample()) {
				ex_sample("date %s against the days %d before .. %d after x 127 unit subsets", A.text, K, K);
			}
		}
	}
	/* (c) binding */
	for (int m = 1; m < NMASK && !ex_expired(); m++, slice++) {
		if (!ex_mine((uint64_t)slice)) {
			continue;
		}
		if (iv == NULL) {
			iv = calloc((size_t)ni, sizeof(*iv));
			for (int k = 0; k < ni; k++) {
				prep(iv + k, CAL_YMD, rd[k / 7], T7[k % 7]);
			}
		}
		do_binding(m, iv, ni);
	}
	/* (i) starts on and around the leap day against every end of the following two years, year chains */
	{
		static const int ys[10] = {1896, 1899, 1900, 1903, 1904, 1999, 2000, 2001, 2096, 2100};
		for (int k = 0; k < 40 && !ex_expired(); k++, slice++) {
			struct val_s A, Aw, B, Bw;
			int a;
			if (!ex_mine((uint64_t)slice)) {
				continue;
			}
			a = rc_yearstart[ys[k / 4]] + 57 + k % 4;
			prep(&A, CAL_YMD, a, -1);
			prep(&Aw, CAL_YWD, a, -1);
			++*c_states;
			for (int b = a + 1; b <= a + 731 && b < RC_NDAYS; b++) {
				prep(&B, CAL_YMD, b, -1);
				prep(&Bw, CAL_YWD, b, -1);
				for (int m = 1; m < NMASK; m += 2) {
					/* odd masks: the ones with %Y */
					do_case(m, 0, 0, &A, &B, &Aw, &Bw);
					do_case(m, 0, 0, &B, &A, &Bw, &Aw);
				}
			}
			++*c_traces;
		}
	}
	/* (k) every day of ISO week 53 of five years against every day of the following 800, years+weeks chains */
	{
		static const int wy[5] = {1998, 2004, 2009, 2015, 2020};
		for (int k = 0; k < 35 && !ex_expired(); k++, slice++) {
			struct val_s A, Aw, B, Bw;
			int a;
			if (!ex_mine((uint64_t)slice)) {
				continue;
			}
			/* Dec 28 always lies in the last ISO week */
			a = rc_rd(wy[k / 7], 12, 28);
			a = a - (rc_get(a)->wd - 1) + k % 7;
			if (rc_get(a)->isow != 53) {
				continue;
			}
			prep(&A, CAL_YMD, a, -1);
			prep(&Aw, CAL_YWD, a, -1);
			++*c_states;
			for (int b = a + 1; b <= a + 800 && b < RC_NDAYS; b++) {
				prep(&B, CAL_YMD, b, -1);
				prep(&Bw, CAL_YWD, b, -1);
				for (int m = 1; m < NMASK; m++) {
					if (mclass[m] == 2) {
						do_case(m, 0, 0, &A, &B, &Aw, &Bw);
						do_case(m, 0, 0, &B, &A, &Bw, &Aw);
					}
				}
			}
			++*c_traces;
		}
	}
	/* (j) fractions of a second */
	for (int i = 0; i < NFRAC && !ex_expired(); i++, slice++) {
		struct val_s A, B;
		if (!ex_mine((uint64_t)slice)) {
			continue;
		}
		frac_operand(&A, i);
		++*c_states;
		for (int j = 0; j < NFRAC; j++) {
			frac_operand(&B, j);
			for (int m = 1; m < NMASK; m++) {
				do_case(m, 1, 0, &A, &B, &A, &B);
			}
			observe_nano(&A, &B);
		}
		++*c_traces;
	}
	/* (d) repeated specifiers */
	{
		int n = 0;
		struct val_s *dv = NULL, *dve = NULL;
		for (int i = 0; i < ni + NLEAPI && !ex_expired(); i++, slice++) {
			if (!ex_mine((uint64_t)slice)) {
				continue;
			}
			if (dv == NULL) {
				dv = dup_operands(rd, ni, &n);
				dup_cal = CAL_EPOCH;
				dve = dup_operands(rd, ni, &n);
				dup_cal = CAL_YMD;
			}
			++*c_states;
			for (int j = 0; j < n; j++) {
				for (int fi = 0; fi < ndup; fi++) {
					do_dup(fi, i, j, dv + i, dv + j);
				}
				do_extra(i, j, ni, dv, dve);
			}
			++*c_traces;
			if (ex_want_sample()) {
				ex_sample("date-time %s against each of %d date-times x %d formats with a repeated specifier", dv[i].text, n, ndup);
			}
		}
		for (int fi = 0; fi < ndup && !ex_expired(); fi++, slice++) {
			if (!ex_mine((uint64_t)slice)) {
				continue;
			}
			if (dv == NULL) {
				dv = dup_operands(rd, ni, &n);
			}
			do_dup_binding(fi, dv, n, ni);
		}
	}
	return ex_finish();
}
