/* c06_refine.c -- C06: duration output conserves the total (the refinement rule).
 *
 * Level S (+ a ddiff binary binding).  Every pair of a stated set of date-times
 * (and dates) goes through ddiff's own pipeline (ddiff.c included) with every
 * non-empty subset of the unit specifiers %Y %m %w %d %H %M %S as the format.
 *
 * Oracle.
 *  - subsets of fixed-length units {w d H M S}: with u the finest requested unit
 *    and T = trunc(|delta| / u) * u, the printed components must be the greedy
 *    decomposition of T from the coarsest requested unit down (that is the only
 *    tuple with: sum = T, every refined unit inside its natural range, the
 *    coarsest unit carrying the rest); delta is the plain difference of the
 *    epoch values (86400 s per day; %rS is C14's business).
 *  - subsets with %Y and/or %m that info/format-ddiff.texi calls expressible (no
 *    time unit without %d): months < 12 under years, refined units inside their
 *    natural range, and the components recombine by application: earlier value
 *    (+) components, largest first, through dadd's parser and dt_dtadd, must not
 *    pass the later value and must be less than one finest unit short of it.
 *    Years are counted in the calendar ddiff's format selects (years+weeks: ISO
 *    week dates, pinned by test/ddiff.053-061; else y-m-d), so the application is
 *    done on the operand in that calendar.  Only pairs whose earlier day-of-month
 *    is <= 28 (ISO week <= 52) are judged this way (otherwise the application is
 *    ambiguous: clamping).
 *  - subsets the documentation declares inexpressible (months/years with a time
 *    unit but no %d): only the sign and "prints something parseable" are judged.
 *  - exactly one '-' and only in front, iff the second operand is earlier (not
 *    judged when all printed components are zero).
 *  - ascending / rotated order and the padding modifiers %0 and '% ' must print
 *    the same numbers as the descending unpadded format. */
#include "impl.h"
#include "explore.h"
#include "refcal.h"
#define main ddiff_main
#include "ddiff.c"
#undef main
#include "c05_common.h"

#define NU	7
static const char UCH[NU] = {'Y', 'm', 'w', 'd', 'H', 'M', 'S'};
static const char *const USUF[NU] = {"y", "mo", "w", "d", "h", "m", "s"};
static const long long USEC[NU] = {0, 0, 604800, 86400, 3600, 60, 1};
enum { B_Y = 1, B_MO = 2, B_W = 4, B_D = 8, B_H = 16, B_MI = 32, B_S = 64 };
#define NMASK	128
#define NORD	3
#define NPAD	3

struct val_s {
	struct dt_dt_s v;
	int rd, sec;
	char text[40];
};

static char fmts[NMASK][NORD][NPAD][48];
static durfmt_t dfm[NMASK][NORD][NPAD];
static int mclass[NMASK];	/* 0 fixed, 1 calendar (ymd), 2 calendar (ISO weeks), 3 inexpressible */
static int replay_mode;

static void
build_fmt(int mask, int ord, int pad, char *buf)
{
	int idx[NU], n = 0;
	char *p = buf;
	for (int i = 0; i < NU; i++) {
		if (mask & (1 << i)) {
			idx[n++] = i;
		}
	}
	for (int k = 0; k < n; k++) {
		int i = ord == 0 ? idx[k] : ord == 1 ? idx[n - 1 - k] : idx[(k + 1) % n];
		if (k) {
			*p++ = ' ';
		}
		*p++ = '%';
		if (pad == 1) {
			*p++ = '0';
		} else if (pad == 2) {
			*p++ = ' ';
		}
		*p++ = UCH[i];
	}
	*p = '\0';
}

/* position of unit i in the output of (mask, ord) */
static int
pos_of(int mask, int ord, int unit)
{
	int idx[NU], n = 0;
	for (int i = 0; i < NU; i++) {
		if (mask & (1 << i)) {
			idx[n++] = i;
		}
	}
	for (int k = 0; k < n; k++) {
		int i = ord == 0 ? idx[k] : ord == 1 ? idx[n - 1 - k] : idx[(k + 1) % n];
		if (i == unit) {
			return k;
		}
	}
	return -1;
}

static int
popcnt(int m)
{
	int n = 0;
	for (; m; m &= m - 1) {
		n++;
	}
	return n;
}

/* parse printed text: optional leading '-', then integers separated by blanks.
 * returns number of integers, -1 on anything else; *lead, *minuses */
static int
parse_out(const char *s, long long v[], int maxv, int *lead, int *minuses)
{
	int n = 0;
	*lead = s[0] == '-';
	*minuses = 0;
	for (const char *q = s; *q; q++) {
		*minuses += *q == '-';
	}
	if (*lead) {
		s++;
	}
	while (*s) {
		if (*s == ' ' || *s == '-') {
			s++;
		} else if (*s >= '0' && *s <= '9') {
			long long x = 0;
			while (*s >= '0' && *s <= '9') {
				x = x * 10 + (*s++ - '0');
			}
			if (n < maxv) {
				v[n] = x;
			}
			n++;
		} else {
			return -1;
		}
	}
	return n;
}

static void
prep(struct val_s *x, int cal, int rd, int sec)
{
	x->rd = rd;
	x->sec = sec;
	day_text(cal, rc_get(rd), sec, x->text, sizeof(x->text));
	x->v = dt_io_strpdt(x->text, NULL, 0, NULL);
}

/* instant (seconds since 1601-01-01T00:00:00) of a value as dadd prints it; -1 if unreadable */
static long long
text_instant(int cal, const char *t, int has_time)
{
	int y, a, b, h = 0, mi = 0, s = 0, n, rd;
	if (cal == CAL_YMD) {
		n = sscanf(t, "%d-%d-%dT%d:%d:%d", &y, &a, &b, &h, &mi, &s);
		if (n != (has_time ? 6 : 3) || y < RC_MIN_YEAR || y > RC_MAX_YEAR || a < 1 || a > 12 || b < 1 || b > rc_mlen(y, a)) {
			return -1;
		}
		rd = rc_rd(y, a, b);
	} else {
		const struct rc_day *p;
		n = sscanf(t, "%d-W%d-%dT%d:%d:%d", &y, &a, &b, &h, &mi, &s);
		if (n != (has_time ? 6 : 3) || y < RC_MIN_YEAR || y > RC_MAX_YEAR || a < 1 || a > 53 || b < 1 || b > 7) {
			return -1;
		}
		/* Jan 4 is always in week 1 */
		p = rc_get(rc_rd(y, 1, 4));
		rd = p->rd - (p->wd - 1) + (a - 1) * 7 + (b - 1);
		if (rd < 0 || rd >= RC_NDAYS || rc_get(rd)->isoy != y || rc_get(rd)->isow != a) {
			return -1;
		}
	}
	return (long long)rd * 86400LL + h * 3600 + mi * 60 + s;
}

/* natural range of unit X (index) under the next coarser requested unit C */
static long long
range_under(int c, int x)
{
	if (c == 0) {
		/* under years */
		return x == 1 ? 12 : 366LL * 86400LL / USEC[x] + 2 * (x == 2);
	} else if (c == 1) {
		/* under months */
		return 31LL * 86400LL / USEC[x] + (x == 2);
	}
	return USEC[c] / USEC[x];
}

static void
mask_name(int mask, char *buf)
{
	strcpy(buf, fmts[mask][0][0]);
}

/* fast violation path (as in c05) */
enum { K_SUM, K_RANGE, K_MINUS, K_APPLY, K_MON12, K_VARIANT, K_OUTPUT, NK };
static const char *const kname[NK] = {"sum", "range", "minus", "apply", "mon12", "variant", "output"};
static struct ex_viol_s *vslot[NK][NMASK][2][2][NORD * NPAD];

static int
viol_fast(struct ex_viol_s **slot, double ord)
{
	struct ex_viol_s *v = *slot;
	if (v != NULL && ord >= v->ord) {
		v->n++;
		if (ord > v->hi) {
			v->hi = ord;
		}
		return 1;
	}
	return 0;
}

static void
report(int kind, int mask, int dt, int neg, int variant, double ord, const struct val_s *A, const struct val_s *B,
       const char *fmt, const char *txt, const char *why)
{
	struct ex_viol_s **slot = &vslot[kind][mask][dt][neg][variant];
	char key[200], cas[96], cmd[256], nm[48];
	if (viol_fast(slot, ord) && !replay_mode) {
		return;
	}
	mask_name(mask, nm);
	if (kind == K_VARIANT) {
		snprintf(key, sizeof(key), "variant fmt=%s as='%s' opnd=%s sign=%s", nm, fmt, dt ? "dt" : "d", neg ? "-" : "+");
	} else {
		snprintf(key, sizeof(key), "%s fmt=%s opnd=%s sign=%s", kname[kind], nm, dt ? "dt" : "d", neg ? "-" : "+");
	}
	snprintf(cas, sizeof(cas), "pair %d %d %d %d %d %d", mask, dt, A->rd, A->sec, B->rd, B->sec);
	snprintf(cmd, sizeof(cmd), "ddiff %s %s -f '%s'", A->text, B->text, fmt);
	ex_viol(key, ord, cas, cmd, "ddiff %s %s -f '%s' printed '%s': %s", A->text, B->text, fmt, txt, why);
	for (int i = 0; i < ex.nviol; i++) {
		if (!strcmp(ex.viol[i].key, key)) {
			*slot = ex.viol + i;
			break;
		}
	}
	if (replay_mode) {
		printf("  ddiff %s %s -f '%s' printed '%s': %s\n", A->text, B->text, fmt, txt, why);
	}
}

/* one ordered pair (A,B) x one subset; Aw/Bw: the same instants as ISO week date values */
static int
do_case(int mask, int dt, int variants, const struct val_s *A, const struct val_s *B, const struct val_s *Aw, const struct val_s *Bw)
{
	char txt[128], why[256];
	long long v[NU], c[NU];	/* c[unit] */
	long long ia = (long long)A->rd * 86400LL + (dt ? A->sec : 0), ib = (long long)B->rd * 86400LL + (dt ? B->sec : 0);
	long long delta = ib - ia, ad = delta < 0 ? -delta : delta;
	int expect_neg = delta < 0, lead, minuses, n, nz = 0, bad = 0, rc = 0;
	int ncomp = popcnt(mask), cls = mclass[mask], fin = 0;
	double ord = (double)ad / 86400.0;
	const char *fmt = fmts[mask][0][0];
	EX_CTR(c_eval, "evaluations");
	EX_CTR(c_trans, "transitions");
	EX_CTR(c_nontriv, "nontrivial");

	EX_GUARD_BEGIN(rc);
	n = ddiff_pipe(txt, sizeof(txt), fmt, dfm[mask][0][0], A->v, B->v);
	EX_GUARD_END;
	++*c_eval;
	++*c_trans;
	if (rc) {
		report(K_OUTPUT, mask, dt, expect_neg, 0, ord, A, B, fmt, "", rc == 1 ? "did not return" : "fatal signal");
		return 1;
	}
	ex_outcome(ex_hash_mix(ex_hash(txt, strlen(txt)), (uint64_t)mask));
	if (n < 0 || parse_out(txt, v, NU, &lead, &minuses) != ncomp) {
		report(K_OUTPUT, mask, dt, expect_neg, 0, ord, A, B, fmt, txt,
		       n < 0 ? "ddiff says the duration is not defined" : "not one number per requested unit");
		return 1;
	}
	for (int i = 0, k = 0; i < NU; i++) {
		c[i] = 0;
		if (mask & (1 << i)) {
			c[i] = v[k++];
			nz |= c[i] != 0;
			fin = i;
		}
	}
	/* the sign */
	if (!nz) {
		EX_CTR(c_zero, "skipped:sign of an all-zero output (the statement leaves -0 open)");
		++*c_zero;
		if (minuses > lead) {
			report(K_MINUS, mask, dt, expect_neg, 0, ord, A, B, fmt, txt, "a minus sign other than the leading one");
			bad++;
		}
	} else if (lead != expect_neg || minuses != lead) {
		snprintf(why, sizeof(why), "%s; exactly one leading '-' iff the second operand is earlier",
			 minuses > lead ? "a minus sign other than the leading one" : lead ? "leading '-' although the second operand is not earlier" :
			 "no leading '-' although the second operand is earlier");
		report(K_MINUS, mask, dt, expect_neg, 0, ord, A, B, fmt, txt, why);
		bad++;
	}
	if (dt ? ((A->sec > B->sec) != (A->rd > B->rd) && A->rd != B->rd)
	    : (A->rd != B->rd && (rc_get(A->rd)->d > rc_get(B->rd)->d) == (A->rd < B->rd))) {
		/* time-of-day (dates: day-of-month) difference runs against the day difference: a borrow */
		++*c_nontriv;
	}
	if (cls == 0) {
		/* fixed units: exact greedy decomposition of T */
		long long T = ad / USEC[fin] * USEC[fin], rem = T, e[NU], sum = 0;
		int differ = 0;
		for (int i = 0; i < NU; i++) {
			e[i] = 0;
			if (mask & (1 << i)) {
				e[i] = rem / USEC[i];
				rem %= USEC[i];
				sum += c[i] * USEC[i];
				differ |= e[i] != c[i];
			}
		}
		if (differ) {
			char es[96] = "";
			for (int i = 0; i < NU; i++) {
				if (mask & (1 << i)) {
					snprintf(es + strlen(es), sizeof(es) - strlen(es), "%s%lld", *es ? " " : "", e[i]);
				}
			}
			snprintf(why, sizeof(why), "the difference of the epoch values is %lld s, truncated to the finest unit %lld s = '%s' (printed components sum to %lld s)",
				 ad, T, es, sum);
			report(sum == T ? K_RANGE : K_SUM, mask, dt, expect_neg, 0, ord, A, B, fmt, txt, why);
			bad++;
		}
	} else if (cls == 1 || cls == 2) {
		/* calendar chains */
		int prev = -1;
		if ((mask & B_Y) && (mask & B_MO) && c[1] >= 12) {
			report(K_MON12, mask, dt, expect_neg, 0, ord, A, B, fmt, txt, "months must stay below 12 under years");
			bad++;
		}
		for (int i = 0; i < NU; i++) {
			if (!(mask & (1 << i))) {
				continue;
			}
			if (prev >= 0 && !(prev == 0 && i == 1) && c[i] >= range_under(prev, i)) {
				snprintf(why, sizeof(why), "the %s component is outside its natural range under %s (< %lld)", USUF[i], USUF[prev], range_under(prev, i));
				report(K_RANGE, mask, dt, expect_neg, 0, ord, A, B, fmt, txt, why);
				bad++;
				break;
			}
			prev = i;
		}
		{
			const struct val_s *e = expect_neg ? (cls == 2 ? Bw : B) : (cls == 2 ? Aw : A);
			const struct rc_day *pe = rc_get(e->rd);
			if ((cls == 1 && pe->d > 28) || (cls == 2 && pe->isow > 52)) {
				EX_CTR(c_clamp, "skipped:application of a month/year chain from a day-of-month > 28 or ISO week 53 (clamping: ambiguous)");
				++*c_clamp;
			} else if (!bad) {
				char units[160] = "", got[64], one[16];
				struct dt_dt_s res, res1;
				long long ir, il = expect_neg ? ia : ib, ir1 = -1;
				int cal = cls == 2 ? CAL_YWD : CAL_YMD;
				for (int i = 0; i < NU; i++) {
					if (mask & (1 << i)) {
						snprintf(units + strlen(units), sizeof(units) - strlen(units), "%s%lld%s", *units ? " " : "", c[i], USUF[i]);
					}
				}
				++*c_eval;
				if (dadd_apply(e->v, units, &res) < 0) {
					/* a component above 2^31-1 is rejected by dadd by design */
					EX_CTR(c_big, "skipped:printed component not accepted by dadd (above 2^31-1)");
					++*c_big;
					return bad;
				}
				dadd_print(got, sizeof(got), res);
				ir = text_instant(cal, got, dt);
				if (fin <= 1) {
					snprintf(one, sizeof(one), "1%s", USUF[fin]);
					if (dadd_apply(res, one, &res1) == 0) {
						char g1[64];
						dadd_print(g1, sizeof(g1), res1);
						ir1 = text_instant(cal, g1, dt);
					}
				} else {
					ir1 = ir + USEC[fin];
				}
				if (ir < 0 || ir > il || (ir1 >= 0 && ir1 <= il)) {
					snprintf(why, sizeof(why), "dadd %s %s gives '%s'; it must not pass the later value '%s' and be less than 1%s short of it",
						 e->text, units, got, expect_neg ? (cls == 2 ? Aw->text : A->text) : (cls == 2 ? Bw->text : B->text), USUF[fin]);
					report(K_APPLY, mask, dt, expect_neg, 0, ord, A, B, fmt, txt, why);
					bad++;
				}
			}
		}
	}
	/* order and padding variants print the same numbers */
	if (variants) {
		for (int o = 0; o < NORD; o++) {
			for (int p = 0; p < NPAD; p++) {
				char t2[128];
				long long v2[NU];
				int l2, m2, n2, same = 1;
				if ((o == 0 && p == 0) || (o == 2 && ncomp < 3) || (o == 1 && ncomp < 2)) {
					continue;
				}
				n2 = ddiff_pipe(t2, sizeof(t2), fmts[mask][o][p], dfm[mask][o][p], A->v, B->v);
				++*c_eval;
				if (n2 < 0 || parse_out(t2, v2, NU, &l2, &m2) != ncomp) {
					same = 0;
				} else {
					for (int i = 0; i < NU; i++) {
						if ((mask & (1 << i)) && v2[pos_of(mask, o, i)] != c[i]) {
							same = 0;
						}
					}
					same = same && l2 == lead && m2 == minuses;
				}
				if (!same) {
					snprintf(why, sizeof(why), "the descending unpadded format '%s' printed '%s'; order and padding must not change the numbers", fmt, txt);
					report(K_VARIANT, mask, dt, expect_neg, o * NPAD + p, ord, A, B, fmts[mask][o][p], t2, why);
					bad++;
				}
			}
		}
	}
	return bad;
}

/* boundary days */
static int
bdays(int *rd)
{
	static const int ys[4] = {1900, 2000, 2003, 2004};
	static const int ye[3] = {1999, 2003, 2004};
	static const int more[][3] = {
		{1601, 1, 1}, {1601, 1, 2}, {4095, 12, 30}, {4095, 12, 31}, {2012, 6, 30}, {2012, 7, 1}, {2000, 6, 15}, {2000, 10, 29},
		{2001, 1, 28}, {2001, 1, 29}, {2001, 1, 30}, {2001, 1, 31}, {2001, 2, 1}, {2001, 4, 29}, {2001, 4, 30}, {2001, 5, 1},
		{2009, 12, 28}, {2009, 12, 31}, {2010, 1, 3}, {2010, 1, 4}, {1998, 12, 28}, {1999, 1, 3}, {1999, 1, 4},
		{2002, 7, 31}, {2002, 8, 1}, {2002, 8, 31}, {2002, 9, 1}, {2002, 9, 30},
	};
	int n = 0;
	for (int i = 0; i < 4; i++) {
		for (int d = rc_rd(ys[i], 2, 27); d <= rc_rd(ys[i], 3, 2); d++) {
			rd[n++] = d;
		}
	}
	for (int i = 0; i < 3; i++) {
		for (int d = rc_rd(ye[i], 12, 30), k = 0; k < 4; k++) {
			rd[n++] = d + k;
		}
	}
	for (size_t i = 0; i < sizeof(more) / sizeof(*more); i++) {
		rd[n++] = rc_rd(more[i][0], more[i][1], more[i][2]);
	}
	for (int i = 1; i < n; i++) {
		int x = rd[i], j = i;
		while (j > 0 && rd[j - 1] > x) {
			rd[j] = rd[j - 1];
			j--;
		}
		rd[j] = x;
	}
	return n;
}

static const int T7[7] = {0, 1, 3599, 3600, 43199, 43200, 86399};

/* binding: the ddiff binary, one process per subset, a fixed reference instant and all instants of a day list on stdin */
static void
do_binding(int mask, const struct val_s *iv, int ni)
{
	const char *rundir = getenv("VERIF_RUNDIR");
	char fin[512], fout[512], cmd[2048], key[128], nm[48], line[256], cas[64];
	const struct val_s *A = iv + ni / 2;
	FILE *f;
	int k = 0;
	EX_CTR(c_bind, "cli_binding_replays");

	if (rundir == NULL || ex.tree == NULL) {
		return;
	}
	snprintf(fin, sizeof(fin), "%s/c06b.%d.in", rundir, mask);
	snprintf(fout, sizeof(fout), "%s/c06b.%d.out", rundir, mask);
	if ((f = fopen(fin, "w")) == NULL) {
		return;
	}
	for (int i = 0; i < ni; i++) {
		fprintf(f, "%s\n", iv[i].text);
	}
	fclose(f);
	snprintf(cmd, sizeof(cmd), "'%s/src/ddiff' '%s' -f '%s' < '%s' > '%s' 2>&1", ex.tree, A->text, fmts[mask][0][0], fin, fout);
	if (system(cmd)) {
		;
	}
	mask_name(mask, nm);
	snprintf(key, sizeof(key), "binding ddiff fmt=%s", nm);
	if ((f = fopen(fout, "r")) == NULL) {
		ex_viol(key, 0, "", cmd, "no output from the binary");
		return;
	}
	for (k = 0; k < ni && fgets(line, sizeof(line), f); k++) {
		char t[128];
		line[strcspn(line, "\n")] = '\0';
		ddiff_pipe(t, sizeof(t), fmts[mask][0][0], dfm[mask][0][0], A->v, iv[k].v);
		++*c_bind;
		if (strcmp(t, line)) {
			snprintf(cas, sizeof(cas), "bind %d %d", mask, k);
			ex_viol(key, k, cas, cmd, "ddiff %s %s -f '%s': the binary printed '%s', the included pipeline '%s'",
				A->text, iv[k].text, fmts[mask][0][0], line, t);
		}
	}
	fclose(f);
	if (k != ni) {
		ex_viol(key, k, "", cmd, "the binary printed %d lines for %d input lines", k, ni);
	}
	unlink(fin);
	unlink(fout);
}

/* ---- (d) repeated specifiers: the printed numbers are a function of the duration ----
 * A format in which a unit specifier occurs more than once (adjacent, three times, with
 * another specifier in between, with different paddings) must print, at every occurrence,
 * the number the single occurrence prints in the corresponding duplicate-free format
 * (both formats set the same durfmt flags, so ddiff computes the same duration).  The
 * leap-second aware %rS / %rT are included, with operand pairs that cross a leap second.
 * %S and %rS in one format: the two orders must print the same number per specifier. */
struct dup_s {
	char fmt[40];
	char base[40];
	int n;		/* numbers in fmt */
	int nb;		/* numbers in base */
	int map[4];	/* occurrence k of fmt must equal number map[k] of base */
	durfmt_t df, dfb;
};
static struct dup_s dups[256];
static int ndup;

static void
add_dup(const char *fmt, const char *base, int n, int nb, int m0, int m1, int m2)
{
	struct dup_s *d = dups + ndup++;
	snprintf(d->fmt, sizeof(d->fmt), "%s", fmt);
	snprintf(d->base, sizeof(d->base), "%s", base);
	d->n = n;
	d->nb = nb;
	d->map[0] = m0, d->map[1] = m1, d->map[2] = m2;
	d->df = determine_durfmt(d->fmt);
	d->dfb = determine_durfmt(d->base);
}

static void
build_dups(void)
{
	static const char *const atom[10] = {"%Y", "%m", "%w", "%d", "%H", "%M", "%S", "%rS", "%T", "%rT"};
	static const char padable[8] = "mwdHMS";
	char f[40], b[40];

	for (int x = 0; x < 10; x++) {
		snprintf(f, sizeof(f), "%s %s", atom[x], atom[x]);
		add_dup(f, atom[x], 2, 1, 0, 0, 0);
		snprintf(f, sizeof(f), "%s %s %s", atom[x], atom[x], atom[x]);
		add_dup(f, atom[x], 3, 1, 0, 0, 0);
		for (int z = 0; z < 8; z++) {
			/* seconds specifiers among each other are the "order" family below */
			if (z == x || (x >= 6 && z >= 6)) {
				continue;
			}
			snprintf(f, sizeof(f), "%s %s %s", atom[x], atom[z], atom[x]);
			snprintf(b, sizeof(b), "%s %s", atom[x], atom[z]);
			add_dup(f, b, 3, 2, 0, 1, 0);
		}
	}
	for (const char *c = padable; *c; c++) {
		snprintf(b, sizeof(b), "%%%c", *c);
		snprintf(f, sizeof(f), "%%0%c %%0%c", *c, *c);
		add_dup(f, b, 2, 1, 0, 0, 0);
		snprintf(f, sizeof(f), "%% %c %% %c", *c, *c);
		add_dup(f, b, 2, 1, 0, 0, 0);
		snprintf(f, sizeof(f), "%%0%c %% %c %%%c", *c, *c, *c);
		add_dup(f, b, 3, 1, 0, 0, 0);
	}
	add_dup("%0rS %0rS", "%rS", 2, 1, 0, 0, 0);
	add_dup("% rS %rS", "%rS", 2, 1, 0, 0, 0);
	/* %S and %rS together: order must not matter */
	add_dup("%rS %S", "%S %rS", 2, 2, 1, 0, 0);
	add_dup("%rT %T", "%T %rT", 2, 2, 1, 0, 0);
	add_dup("%rS %M %S", "%S %M %rS", 3, 3, 2, 1, 0);
	add_dup("%S %rS %S", "%S %rS", 3, 2, 0, 1, 0);
	add_dup("%rS %S %rS", "%rS %S", 3, 2, 0, 1, 0);
}

/* numbers of an output: leading '-', digit runs; every other byte ignored */
static int
dup_numbers(const char *s, long long v[], int maxv, int *lead)
{
	int n = 0;
	*lead = s[0] == '-';
	for (; *s; ) {
		if (*s >= '0' && *s <= '9') {
			long long x = 0;
			while (*s >= '0' && *s <= '9') {
				x = x * 10 + (*s++ - '0');
			}
			if (n < maxv) {
				v[n] = x;
			}
			n++;
		} else {
			s++;
		}
	}
	return n;
}

static struct ex_viol_s *dslot[256][2];

static int
do_dup(int fi, int ia, int ib, const struct val_s *A, const struct val_s *B)
{
	const struct dup_s *d = dups + fi;
	char t[128], tb[128], key[128], cas[64], cmd[256];
	long long v[8], vb[8];
	int l, lb, n, nb, bad = 0;
	long long delta = ((long long)B->rd - A->rd) * 86400LL + (B->sec - A->sec);
	double ord = (double)(delta < 0 ? -delta : delta) / 86400.0;
	int neg = delta < 0;
	EX_CTR(c_eval, "evaluations");
	EX_CTR(c_trans, "transitions");
	EX_CTR(c_dup, "repeated_specifier_cases");

	ddiff_pipe(t, sizeof(t), d->fmt, d->df, A->v, B->v);
	ddiff_pipe(tb, sizeof(tb), d->base, d->dfb, A->v, B->v);
	*c_eval += 2;
	++*c_trans;
	++*c_dup;
	ex_outcome(ex_hash_mix(ex_hash(t, strlen(t)), (uint64_t)(7000 + fi)));
	n = dup_numbers(t, v, 8, &l);
	nb = dup_numbers(tb, vb, 8, &lb);
	if (n != d->n || nb != d->nb || l != lb) {
		bad = 1;
	} else {
		for (int k = 0; k < d->n; k++) {
			bad |= v[k] != vb[d->map[k]];
		}
	}
	if (!bad) {
		if (replay_mode) {
			printf("  ddiff %s %s -f '%s' printed '%s'; -f '%s' printed '%s' (agree)\n", A->text, B->text, d->fmt, t, d->base, tb);
		}
		return 0;
	}
	if (viol_fast(&dslot[fi][neg], ord) && !replay_mode) {
		return 1;
	}
	snprintf(key, sizeof(key), "dup fmt=%s opnd=dt sign=%s", d->fmt, neg ? "-" : "+");
	snprintf(cas, sizeof(cas), "dup %d %d %d", fi, ia, ib);
	snprintf(cmd, sizeof(cmd), "ddiff %s %s -f '%s'", A->text, B->text, d->fmt);
	ex_viol(key, ord, cas, cmd, "ddiff %s %s -f '%s' printed '%s', but -f '%s' prints '%s': every occurrence of a specifier must print the number it prints alone",
		A->text, B->text, d->fmt, t, d->base, tb);
	for (int i = 0; i < ex.nviol; i++) {
		if (!strcmp(ex.viol[i].key, key)) {
			dslot[fi][neg] = ex.viol + i;
			break;
		}
	}
	if (replay_mode) {
		printf("  ddiff %s %s -f '%s' printed '%s', but -f '%s' prints '%s'\n", A->text, B->text, d->fmt, t, d->base, tb);
	}
	return 1;
}

/* operands of part (d): the boundary date-times plus instants on both sides of leap seconds */
static const int leap_inst[][4] = {
	{1972, 6, 30, 86399}, {1972, 7, 1, 0}, {1998, 12, 31, 86390}, {1999, 1, 1, 10}, {2008, 12, 31, 86399}, {2009, 1, 1, 0},
	{2012, 6, 30, 86390}, {2012, 6, 30, 86399}, {2012, 7, 1, 0}, {2012, 7, 1, 10}, {2016, 12, 31, 86390}, {2017, 1, 1, 10},
};
#define NLEAPI	((int)(sizeof(leap_inst) / sizeof(*leap_inst)))

static struct val_s*
dup_operands(const int *rd, int ni, int *n)
{
	struct val_s *dv = calloc((size_t)(ni + NLEAPI), sizeof(*dv));
	for (int k = 0; k < ni; k++) {
		prep(dv + k, CAL_YMD, rd[k / 7], T7[k % 7]);
	}
	for (int k = 0; k < NLEAPI; k++) {
		prep(dv + ni + k, CAL_YMD, rc_rd(leap_inst[k][0], leap_inst[k][1], leap_inst[k][2]), leap_inst[k][3]);
	}
	*n = ni + NLEAPI;
	return dv;
}

/* binding for part (d): the ddiff binary, one process per format, reference = 2012-06-30T23:59:50 */
static void
do_dup_binding(int fi, const struct val_s *dv, int n, int ni)
{
	const char *rundir = getenv("VERIF_RUNDIR");
	char fin[512], fout[512], cmd[2048], key[128], line[256], cas[64];
	const struct val_s *A = dv + ni + 6;
	FILE *f;
	int k;
	EX_CTR(c_bind, "cli_binding_replays");

	if (rundir == NULL || ex.tree == NULL) {
		return;
	}
	snprintf(fin, sizeof(fin), "%s/c06d.%d.in", rundir, fi);
	snprintf(fout, sizeof(fout), "%s/c06d.%d.out", rundir, fi);
	if ((f = fopen(fin, "w")) == NULL) {
		return;
	}
	for (int i = 0; i < n; i++) {
		fprintf(f, "%s\n", dv[i].text);
	}
	fclose(f);
	snprintf(cmd, sizeof(cmd), "'%s/src/ddiff' '%s' -f '%s' < '%s' > '%s' 2>&1", ex.tree, A->text, dups[fi].fmt, fin, fout);
	if (system(cmd)) {
		;
	}
	snprintf(key, sizeof(key), "binding ddiff fmt=%s", dups[fi].fmt);
	if ((f = fopen(fout, "r")) == NULL) {
		ex_viol(key, 0, "", cmd, "no output from the binary");
		return;
	}
	for (k = 0; k < n && fgets(line, sizeof(line), f); k++) {
		char t[128];
		line[strcspn(line, "\n")] = '\0';
		ddiff_pipe(t, sizeof(t), dups[fi].fmt, dups[fi].df, A->v, dv[k].v);
		++*c_bind;
		if (strcmp(t, line)) {
			snprintf(cas, sizeof(cas), "dup %d %d %d", fi, ni + 6, k);
			ex_viol(key, k, cas, cmd, "ddiff %s %s -f '%s': the binary printed '%s', the included pipeline '%s'",
				A->text, dv[k].text, dups[fi].fmt, line, t);
		}
	}
	fclose(f);
	if (k != n) {
		ex_viol(key, k, "", cmd, "the binary printed %d lines for %d input lines", k, n);
	}
	unlink(fin);
	unlink(fout);
}

int
main(int argc, char *argv[])
{
	EX_CTR(c_states, "states");
	EX_CTR(c_traces, "traces");
	int rd[80], nd, ni, K, slice = 0, ninex = 0, nfix = 0, ncal = 0;
	struct val_s *iv = NULL, *ivw = NULL;

	ex_init(argc, argv);
	rc_selfcheck();
	ex_wd_init(2000);
	for (int m = 1; m < NMASK; m++) {
		for (int o = 0; o < NORD; o++) {
			for (int p = 0; p < NPAD; p++) {
				build_fmt(m, o, p, fmts[m][o][p]);
				dfm[m][o][p] = determine_durfmt(fmts[m][o][p]);
			}
		}
		if (!(m & (B_Y | B_MO))) {
			mclass[m] = 0;
			nfix++;
		} else if ((m & (B_H | B_MI | B_S)) && !(m & B_D)) {
			/* format-ddiff.texi: "it is not possible to express a duration in months and hours
			 * without having a %d specifier as well" */
			mclass[m] = 3;
			ninex++;
		} else {
			mclass[m] = ((m & B_Y) && (m & B_W) && !(m & B_MO)) ? 2 : 1;
			ncal++;
		}
	}
	nd = bdays(rd);
	ni = nd * 7;
	build_dups();

	if (ex.cas) {
		int mask, dt, ra, sa, rb, sb, bad;
		struct val_s A, B, Aw, Bw;
		replay_mode = 1;
		if (!strncmp(ex.cas, "dup ", 4)) {
			int fi, ia, ib, n;
			struct val_s *dv = dup_operands(rd, ni, &n);
			if (sscanf(ex.cas + 4, "%d %d %d", &fi, &ia, &ib) != 3 || fi < 0 || fi >= ndup || ia < 0 || ib < 0 || ia >= n || ib >= n) {
				return ex_replay_result(1, "bad case '%s'", ex.cas);
			}
			bad = do_dup(fi, ia, ib, dv + ia, dv + ib);
			if (ex.tree) {
				char cmd[512], line[256] = "", t[128];
				FILE *pp;
				ddiff_pipe(t, sizeof(t), dups[fi].fmt, dups[fi].df, dv[ia].v, dv[ib].v);
				snprintf(cmd, sizeof(cmd), "'%s/src/ddiff' '%s' '%s' -f '%s' 2>&1", ex.tree, dv[ia].text, dv[ib].text, dups[fi].fmt);
				if ((pp = popen(cmd, "r"))) {
					if (fgets(line, sizeof(line), pp)) {
						line[strcspn(line, "\n")] = '\0';
					}
					pclose(pp);
				}
				printf("  binary '%s', included pipeline '%s'\n", line, t);
				bad |= strcmp(line, t) != 0;
			}
			return ex_replay_result(bad != 0, "fmt='%s' %s %s", dups[fi].fmt, dv[ia].text, dv[ib].text);
		}
		if (sscanf(ex.cas, "pair %d %d %d %d %d %d", &mask, &dt, &ra, &sa, &rb, &sb) != 6 || mask < 1 || mask >= NMASK ||
		    ra < 0 || rb < 0 || ra >= RC_NDAYS || rb >= RC_NDAYS) {
			if (sscanf(ex.cas, "bind %d %d", &mask, &dt) == 2 && mask >= 1 && mask < NMASK && dt >= 0 && dt < ni) {
				char cmd[512], line[256] = "", t[128];
				FILE *pp;
				prep(&A, CAL_YMD, rd[(ni / 2) / 7], T7[(ni / 2) % 7]);
				prep(&B, CAL_YMD, rd[dt / 7], T7[dt % 7]);
				ddiff_pipe(t, sizeof(t), fmts[mask][0][0], dfm[mask][0][0], A.v, B.v);
				snprintf(cmd, sizeof(cmd), "'%s/src/ddiff' '%s' '%s' -f '%s' 2>&1", ex.tree, A.text, B.text, fmts[mask][0][0]);
				if ((pp = popen(cmd, "r"))) {
					if (fgets(line, sizeof(line), pp)) {
						line[strcspn(line, "\n")] = '\0';
					}
					pclose(pp);
				}
				printf("  binary '%s', included pipeline '%s'\n", line, t);
				return ex_replay_result(strcmp(line, t) != 0, "binding fmt=%s", fmts[mask][0][0]);
			}
			return ex_replay_result(1, "bad case '%s'", ex.cas);
		}
		prep(&A, CAL_YMD, ra, dt ? sa : -1);
		prep(&B, CAL_YMD, rb, dt ? sb : -1);
		prep(&Aw, CAL_YWD, ra, dt ? sa : -1);
		prep(&Bw, CAL_YWD, rb, dt ? sb : -1);
		bad = do_case(mask, dt, 1, &A, &B, &Aw, &Bw);
		return ex_replay_result(bad != 0, "fmt=%s %s %s", fmts[mask][0][0], A.text, B.text);
	}

	K = ex.thorough ? 800 : 120;
	ex_meta("rule", "every ordered pair of the stated operands through ddiff's own pipeline (ddiff.c included) x every non-empty subset of "
		"%%Y %%m %%w %%d %%H %%M %%S (127 formats, blank separated, descending): %d subsets of fixed-length units are judged against the greedy "
		"decomposition of trunc(|delta|/u)*u (delta = plain difference of the epoch values, 86400 s days; u = finest requested unit), which is the "
		"unique tuple with conserved sum, natural ranges and the coarsest unit carrying the rest; %d month/year chains the documentation calls "
		"expressible are judged by months < 12 under years, generous natural ranges (days < 31 under months, < 366 under years, weeks < 54 under "
		"years, ...) and by application: earlier (+) components through dadd's parser and dt_dtadd must not pass the later value and be less than one "
		"finest unit short (years+weeks chains are applied to the ISO week date operand, as ddiff counts them; only from day-of-month <= 28 / ISO week "
		"<= 52); %d subsets the documentation declares inexpressible (month/year with a time unit but no %%d) are judged for sign and parseable output only; "
		"sign: exactly one '-', in front, iff the second operand is earlier (not judged on all-zero output); for date-time pairs the ascending and a "
		"rotated order and the %%0 and '%% ' paddings must print the same numbers. non-trivial = the time-of-day difference (for dates: the day-of-month difference) "
		"runs against the day difference (borrow); repeated specifiers: every occurrence of a specifier prints the number the single occurrence prints "
		"in the duplicate-free format (same durfmt flags, hence the same duration), same sign; %%S and %%rS in one format print the same numbers in either order",
		nfix, ncal, ninex);
	ex_meta("bound", "(a) %d boundary days x 7 times of day = %d date-times, all ordered pairs x 127 subsets x (1 + up to 8 order/padding variants); "
		"(b) dates: every day of %s x partner at distance -%d..%d x 127 subsets; operands in y-m-d; "
		"(c) binding: ddiff binary, one process per subset, %d date-times on stdin; "
		"(d) repeated specifiers: %d date-times (the same plus %d instants on both sides of the leap seconds of 1972, 1998, 2008, 2012, 2016), all ordered "
		"pairs x %d formats in which one of %%Y %%m %%w %%d %%H %%M %%S %%rS %%T %%rT occurs two or three times (adjacent, with another specifier in between, "
		"with different paddings, %%S/%%rS in both orders), each against its duplicate-free format; binding: one ddiff process per such format",
		nd, ni, ex.thorough ? "1997-2004 and 1897-1904" : "1997-2004", K, K, ni, ni + NLEAPI, NLEAPI, ndup);
	ex_meta("binding", "ddiff REF -f SUBSET < date-times, byte-compared with the included pipeline");

	/* (a) date-times */
	for (int i = 0; i < ni && !ex_expired(); i++, slice++) {
		if (!ex_mine((uint64_t)slice)) {
			continue;
		}
		if (iv == NULL) {
			iv = calloc((size_t)ni, sizeof(*iv));
			ivw = calloc((size_t)ni, sizeof(*ivw));
			for (int k = 0; k < ni; k++) {
				prep(iv + k, CAL_YMD, rd[k / 7], T7[k % 7]);
				prep(ivw + k, CAL_YWD, rd[k / 7], T7[k % 7]);
			}
		}
		++*c_states;
		for (int j = 0; j < ni; j++) {
			for (int m = 1; m < NMASK; m++) {
				do_case(m, 1, 1, iv + i, iv + j, ivw + i, ivw + j);
			}
		}
		++*c_traces;
		if (ex_want_sample()) {
			ex_sample("date-time %s against each of the %d date-times x 127 unit subsets x orders x paddings", iv[i].text, ni);
		}
	}
	/* (b) dates */
	for (int w = 0; w < (ex.thorough ? 2 : 1); w++) {
		int lo = rc_yearstart[w ? 1897 : 1997], hi = rc_yearstart[w ? 1905 : 2005] - 1;
		for (int a = lo; a <= hi && !ex_expired(); a++, slice++) {
			struct val_s A, Aw, B, Bw;
			if (!ex_mine((uint64_t)slice)) {
				continue;
			}
			prep(&A, CAL_YMD, a, -1);
			prep(&Aw, CAL_YWD, a, -1);
			++*c_states;
			for (int k = -K; k <= K; k++) {
				if (a + k < 0 || a + k >= RC_NDAYS) {
					continue;
				}
				prep(&B, CAL_YMD, a + k, -1);
				prep(&Bw, CAL_YWD, a + k, -1);
				for (int m = 1; m < NMASK; m++) {
					do_case(m, 0, 0, &A, &B, &Aw, &Bw);
				}
			}
			++*c_traces;
			if (ex_want_sample()) {
				ex_sample("date %s against the days %d before .. %d after x 127 unit subsets", A.text, K, K);
			}
		}
	}
	/* (c) binding */
	for (int m = 1; m < NMASK && !ex_expired(); m++, slice++) {
		if (!ex_mine((uint64_t)slice)) {
			continue;
		}
		if (iv == NULL) {
			iv = calloc((size_t)ni, sizeof(*iv));
			for (int k = 0; k < ni; k++) {
				prep(iv + k, CAL_YMD, rd[k / 7], T7[k % 7]);
			}
		}
		do_binding(m, iv, ni);
	}
	/* (d) repeated specifiers */
	{
		int n = 0;
		struct val_s *dv = NULL;
		for (int i = 0; i < ni + NLEAPI && !ex_expired(); i++, slice++) {
			if (!ex_mine((uint64_t)slice)) {
				continue;
			}
			if (dv == NULL) {
				dv = dup_operands(rd, ni, &n);
			}
			++*c_states;
			for (int j = 0; j < n; j++) {
				for (int fi = 0; fi < ndup; fi++) {
					do_dup(fi, i, j, dv + i, dv + j);
				}
			}
			++*c_traces;
			if (ex_want_sample()) {
				ex_sample("date-time %s against each of %d date-times x %d formats with a repeated specifier", dv[i].text, n, ndup);
			}
		}
		for (int fi = 0; fi < ndup && !ex_expired(); fi++, slice++) {
			if (!ex_mine((uint64_t)slice)) {
				continue;
			}
			if (dv == NULL) {
				dv = dup_operands(rd, ni, &n);
			}
			do_dup_binding(fi, dv, n, ni);
		}
	}
	return ex_finish();
}
