/* c08_dsort.c -- C08 (binary level): dsort outputs a permutation of its input
 * lines ordered by the chronological relation (reversed with -r).
 *
 * dsort spawns sort(1) and cut(1), so the real binary <tree>/src/dsort is run
 * as a process.  Enumerated: every sequence of lines up to a small length over
 * a small line alphabet (repetitions give duplicates) x {no option, -r}.
 * Oracle: (1) the output is a permutation of the input multiset of lines;
 * (2) for every two output lines whose dates are of the same kind (both dates
 * in the same calendar text, both date-times, both times) the earlier output
 * line is not later on the timeline (not earlier with -r).  Lines of
 * different kinds, lines without a date and equal instants may come in any
 * order (the statement only orders values of the same kind). */
#include "impl.h"
#include "explore.h"
#include "refcal.h"
#include <fcntl.h>
#include <sys/wait.h>
#include <sys/mman.h>

enum { K_NONE, K_DATE, K_DT, K_TIME, K_YWD };
static const char *const kind_name[] = {"no-date", "date", "date-time", "time", "ywd-date"};
struct line_s {
	const char *text;
	int kind;
	int y, m, d, sod;
	int64_t inst;	/* filled in from the reference calendar */
};
static struct line_s alpha0[] = {
	{"2012-03-01 a", K_DATE, 2012, 3, 1, 0, 0},
	{"b 2012-03-01", K_DATE, 2012, 3, 1, 0, 0},
	{"2011-12-31", K_DATE, 2011, 12, 31, 0, 0},
	{"2012-03-01T10:00:00", K_DT, 2012, 3, 1, 36000, 0},
	{"x 2012-02-29T23:59:59 y", K_DT, 2012, 2, 29, 86399, 0},
	{"10:00:01", K_TIME, 0, 0, 0, 36001, 0},
	{"t 09:59:59", K_TIME, 0, 0, 0, 35999, 0},
	{"no date here", K_NONE, 0, 0, 0, 0, 0},
	{"", K_NONE, 0, 0, 0, 0, 0},
	/* ISO week dates; 2010-W52-6 is 2011-01-01 */
	{"2010-W52-6", K_YWD, 2011, 1, 1, 0, 0},
	{"2010-W30-1", K_YWD, 2010, 7, 26, 0, 0},
};
#define NALPHA_SHORT	9
#define NALPHA		((int)(sizeof(alpha0) / sizeof(*alpha0)))
/* configuration 1: sub-second parts, read with -i '%FT%T.%N' (dtest orders by them); .inst is filled in,
 * the nanoseconds are in NS1[] */
static struct line_s alpha1[] = {
	{"x 2012-01-02T10:00:00.900000000 b", K_DT, 2012, 1, 2, 36000, 0},
	{"y 2012-01-02T10:00:00.100000000 a", K_DT, 2012, 1, 2, 36000, 0},
	{"2012-01-02T10:00:01.000000001", K_DT, 2012, 1, 2, 36001, 0},
	{"z 2012-01-02T09:59:59.999999999", K_DT, 2012, 1, 2, 35999, 0},
	{"no date here", K_NONE, 0, 0, 0, 0, 0},
};
static const int ns1[] = {900000000, 100000000, 1, 999999999, 0};
/* configuration 2: lines containing the byte 0x01 (dsort's own field separator towards sort and cut) */
static struct line_s alpha2[] = {
	{"2012-03-01 a\001zz", K_DATE, 2012, 3, 1, 0, 0},
	{"2011-12-31\001", K_DATE, 2011, 12, 31, 0, 0},
	{"\001x 2012-03-02", K_DATE, 2012, 3, 2, 0, 0},
	{"2012-03-01 b", K_DATE, 2012, 3, 1, 0, 0},
	{"no\001date", K_NONE, 0, 0, 0, 0, 0},
};
#define NALPHA_X	5
/* configurations 3 and 4: epoch stamps read with -i %s / -i @%s.  The stamps hold pairs inside one
 * 65536-second block on both sides of a UTC midnight (1330559000/1330560000/1330561000 around
 * 2012-03-01T00:00:00Z; -90000/-80000 around 1969-12-31T00:00:00Z), pairs in neighbouring blocks, equal
 * days with different times, negative stamps, a stamp inside text and a line without one;
 * .inst is the stamp itself (filled in at start-up from the text) */
static struct line_s alpha3[] = {
	{"1330559000", K_DT, 0, 0, 0, 0, 0},
	{"1330561000", K_DT, 0, 0, 0, 0, 0},
	{"1330560000", K_DT, 0, 0, 0, 0, 0},
	{"1330600000", K_DT, 0, 0, 0, 0, 0},
	{"1330646399", K_DT, 0, 0, 0, 0, 0},
	{"-90000", K_DT, 0, 0, 0, 0, 0},
	{"-80000", K_DT, 0, 0, 0, 0, 0},
	{"-1000", K_DT, 0, 0, 0, 0, 0},
	{"500", K_DT, 0, 0, 0, 0, 0},
	{"no stamp here", K_NONE, 0, 0, 0, 0, 0},
};
static struct line_s alpha4[] = {
	{"@1330559000", K_DT, 0, 0, 0, 0, 0},
	{"@1330561000", K_DT, 0, 0, 0, 0, 0},
	{"@1330560000", K_DT, 0, 0, 0, 0, 0},
	{"@1330600000", K_DT, 0, 0, 0, 0, 0},
	{"@1330646399", K_DT, 0, 0, 0, 0, 0},
	{"@-90000", K_DT, 0, 0, 0, 0, 0},
	{"@-80000", K_DT, 0, 0, 0, 0, 0},
	{"@-1000", K_DT, 0, 0, 0, 0, 0},
	{"@500", K_DT, 0, 0, 0, 0, 0},
	{"no stamp here", K_NONE, 0, 0, 0, 0, 0},
};
#define NALPHA_E	10
/* configuration 5: the text T24:00:00 (sod = 86400).  Whatever 24:00 means in comparisons, the sort key must be
 * one consistent instant: the line sorts as the end of its day or as 00:00:00 of the next day, never later */
static struct line_s alpha5[] = {
	{"2012-02-29T24:00:00", K_DT, 2012, 2, 29, 86400, 0},
	{"2012-02-29T23:59:59", K_DT, 2012, 2, 29, 86399, 0},
	{"2012-03-01T00:00:01", K_DT, 2012, 3, 1, 1, 0},
	{"x 2012-03-01T00:00:00", K_DT, 2012, 3, 1, 0, 0},
	{"2012-03-05T00:00:00", K_DT, 2012, 3, 5, 0, 0},
};
#define NCFG	6
static struct line_s *alpha = alpha0;
static int cfg;		/* 0: main alphabet; 1: sub-seconds; 2: byte 0x01; 3: epoch stamps -i %s; 4: -i @%s */
static const char *const cfg_ifmt[NCFG] = {NULL, "%FT%T.%N", NULL, "%s", "@%s", NULL};
static const char *const cfg_tag[NCFG] = {"", " [sub-second parts, -i %FT%T.%N]", " [lines containing byte 0x01]", " [epoch stamps, -i %s]", " [epoch stamps, -i @%s]",
	" [lines with T24:00:00]"};

static struct line_s*
cfg_alpha(int c)
{
	return c == 0 ? alpha0 : c == 1 ? alpha1 : c == 2 ? alpha2 : c == 3 ? alpha3 : c == 4 ? alpha4 : alpha5;
}


static int
line_ns(const struct line_s *l)
{
	return cfg == 1 ? ns1[l - alpha1] : 0;
}

/* -1/0/1 on the timeline */
static int
line_cmp(const struct line_s *a, const struct line_s *b)
{
	if (a->sod == 86400 || b->sod == 86400) {
		/* T24:00:00 may sort anywhere from just after 23:59:59 of its day to 00:00:00 of the next:
		 * intervals in half seconds; unordered (0) when they overlap */
		int64_t alo = 2 * a->inst - (a->sod == 86400), ahi = 2 * a->inst;
		int64_t blo = 2 * b->inst - (b->sod == 86400), bhi = 2 * b->inst;
		return ahi < blo ? -1 : alo > bhi ? 1 : 0;
	}
	if (a->inst != b->inst) {
		return a->inst < b->inst ? -1 : 1;
	}
	return (line_ns(a) > line_ns(b)) - (line_ns(a) < line_ns(b));
}
#define MAXLEN		5

static int
run_dsort(const char *in, size_t inlen, int rev, char *out, size_t osz, size_t *outlen, int *status)
{
	char exe[512];
	int ifd = memfd_create("dsort_in", 0);
	int ofd = memfd_create("dsort_out", 0);
	pid_t pid;
	int st;
	ssize_t n;

	snprintf(exe, sizeof(exe), "%s/src/dsort", ex.tree ? ex.tree : ".");
	if (ifd < 0 || ofd < 0 || (inlen && write(ifd, in, inlen) != (ssize_t)inlen)) {
		perror("memfd");
		exit(3);
	}
	lseek(ifd, 0, SEEK_SET);
	fflush(stdout);
	if ((pid = fork()) < 0) {
		perror("fork");
		exit(3);
	}
	if (pid == 0) {
		int n2 = open("/dev/null", O_WRONLY);
		struct itimerval z = {{0, 0}, {0, 0}};
		setitimer(ITIMER_REAL, &z, NULL);
		signal(SIGALRM, SIG_DFL);
		dup2(ifd, 0), dup2(ofd, 1), dup2(n2, 2);
		close(ifd), close(ofd), close(n2);
		setenv("LC_ALL", "C", 1);
		alarm(20);
		{
			const char *av[6];
			int ac = 0;
			av[ac++] = "dsort";
			if (rev) {
				av[ac++] = "-r";
			}
			if (cfg_ifmt[cfg]) {
				av[ac++] = "-i";
				av[ac++] = cfg_ifmt[cfg];
			}
			av[ac] = NULL;
			execv(exe, (char *const*)av);
		}
		_exit(127);
	}
	while (waitpid(pid, &st, 0) < 0 && errno == EINTR) {
		;
	}
	*status = WIFEXITED(st) ? WEXITSTATUS(st) : 1000 + WTERMSIG(st);
	n = pread(ofd, out, osz - 1, 0);
	if (n < 0) {
		n = 0;
	}
	out[n] = '\0';
	*outlen = (size_t)n;
	close(ifd);
	close(ofd);
	return 0;
}

static void
seq_str(char *buf, size_t bsz, const int *seq, int len)
{
	size_t k = 0;
	buf[0] = '\0';
	for (int i = 0; i < len && k + 4 < bsz; i++) {
		k += (size_t)snprintf(buf + k, bsz - k, "%s%d", i ? " " : "", seq[i]);
	}
}

static int
judge(const int *seq, int len, int rev, int replay)
{
	char in[1024], out[2048], cas[64], sq[48], cmd[1400], key[200];
	size_t inlen = 0, outlen = 0;
	int status = 0, bad = 0;
	int oidx[MAXLEN + 1], nout = 0;
	int used[MAXLEN] = {0};
	EX_CTR(c_eval, "evaluations");
	EX_CTR(c_trans, "transitions");
	EX_CTR(c_bind, "cli_binding_replays");
	EX_CTR(c_nontriv, "nontrivial");

	for (int i = 0; i < len; i++) {
		inlen += (size_t)snprintf(in + inlen, sizeof(in) - inlen, "%s\n", alpha[seq[i]].text);
	}
	run_dsort(in, inlen, rev, out, sizeof(out), &outlen, &status);
	++*c_eval;
	++*c_bind;
	ex_outcome(ex_hash_mix(ex_hash(out, outlen), (uint64_t)status * 2 + (uint64_t)rev));
	seq_str(sq, sizeof(sq), seq, len);
	snprintf(cas, sizeof(cas), "%d %d %d %s", cfg, rev, len, sq);
	{
		size_t k = (size_t)snprintf(cmd, sizeof(cmd), "printf '");
		for (int i = 0; i < len; i++) {
			for (const char *c = alpha[seq[i]].text; *c && k + 8 < sizeof(cmd); c++) {
				if (*c == '\001') {
					k += (size_t)snprintf(cmd + k, sizeof(cmd) - k, "\\001");
				} else {
					cmd[k++] = *c;
				}
			}
			k += (size_t)snprintf(cmd + k, sizeof(cmd) - k, "\\n");
		}
		snprintf(cmd + k, sizeof(cmd) - k, "' | dsort%s%s%s%s", rev ? " -r" : "", cfg_ifmt[cfg] ? " -i '" : "", cfg_ifmt[cfg] ? cfg_ifmt[cfg] : "",
			 cfg_ifmt[cfg] ? "'" : "");
	}
	if (replay) {
		printf("  %s\n  status %d, output:\n", cmd, status);
		for (char *p = out; *p;) {
			char *q = strchr(p, '\n');
			printf("    |%.*s|\n", q ? (int)(q - p) : (int)strlen(p), p);
			if (q == NULL) {
				break;
			}
			p = q + 1;
		}
	}
	if (status != 0) {
		snprintf(key, sizeof(key), "dsort%s ends abnormally (status %d)%s", rev ? " -r" : "", status, cfg_tag[cfg]);
		ex_viol(key, len, cas, cmd, "dsort on %d lines ends with status %d", len, status);
		return 1;
	}
	/* (1) permutation: match every output line to an unused input line of the same text */
	{
		char *p = out;
		int perm_ok = 1;
		while (p < out + outlen) {
			char *q = memchr(p, '\n', (size_t)(out + outlen - p));
			size_t l = q ? (size_t)(q - p) : (size_t)(out + outlen - p);
			int hit = -1;
			for (int i = 0; i < len; i++) {
				if (!used[i] && strlen(alpha[seq[i]].text) == l && !memcmp(alpha[seq[i]].text, p, l)) {
					hit = i;
					break;
				}
			}
			if (hit < 0 || q == NULL || nout >= len) {
				perm_ok = 0;
				break;
			}
			used[hit] = 1;
			oidx[nout++] = seq[hit];
			p = q + 1;
		}
		if (!perm_ok || nout != len) {
			snprintf(key, sizeof(key), "dsort%s output is not a permutation of the input lines%s", rev ? " -r" : "", cfg_tag[cfg]);
			ex_viol(key, len, cas, cmd, "dsort%s on %d lines: %d output lines matched; output %zu bytes for %zu input bytes",
				rev ? " -r" : "", len, nout, outlen, inlen);
			return 1;
		}
	}
	/* (2) order among lines of the same kind */
	{
		int nt = 0;
		for (int i = 0; i < len; i++) {
			for (int j = i + 1; j < len; j++) {
				const struct line_s *a = alpha + seq[i], *b = alpha + seq[j];
				if (a->kind == b->kind && a->kind != K_NONE && (rev ? line_cmp(a, b) < 0 : line_cmp(a, b) > 0)) {
					nt = 1;	/* the input holds an inversion that sorting has to repair */
				}
			}
		}
		*c_nontriv += (uint64_t)nt;
	}
	for (int i = 0; i < nout; i++) {
		for (int j = i + 1; j < nout; j++) {
			const struct line_s *a = alpha + oidx[i], *b = alpha + oidx[j];
			if (a->kind != b->kind || a->kind == K_NONE) {
				continue;
			}
			++*c_trans;
			if (rev ? line_cmp(a, b) < 0 : line_cmp(a, b) > 0) {
				snprintf(key, sizeof(key), "dsort%s order kind=%s%s", rev ? " -r" : "", kind_name[a->kind], cfg_tag[cfg]);
				ex_viol(key, len, cas, cmd, "dsort%s prints '%s' before '%s' although it is %s", rev ? " -r" : "",
					a->text, b->text, rev ? "earlier" : "later");
				if (replay) {
					printf("  '%s' comes before '%s' although it is %s\n", a->text, b->text, rev ? "earlier" : "later");
				}
				bad++;
			}
		}
	}
	return bad;
}

int
main(int argc, char *argv[])
{
	EX_CTR(c_states, "states");
	EX_CTR(c_traces, "traces");
	int nalpha, maxlen;

	ex_init(argc, argv);
	rc_selfcheck();
	for (int i = 0; i < NALPHA_E; i++) {
		if (alpha3[i].kind == K_DT) {
			alpha3[i].inst = strtoll(alpha3[i].text, NULL, 10);
			alpha4[i].inst = strtoll(alpha4[i].text + 1, NULL, 10);
		}
	}
	for (int c = 0; c < NCFG; c++) {
		struct line_s *al = cfg_alpha(c);
		if (c == 3 || c == 4) {
			continue;
		}
		for (int i = 0; i < (c == 0 ? NALPHA : NALPHA_X); i++) {
			if (al[i].kind == K_TIME) {
				al[i].inst = al[i].sod;
			} else if (al[i].kind != K_NONE) {
				al[i].inst = (int64_t)rc_rd(al[i].y, al[i].m, al[i].d) * 86400 + al[i].sod;
			}
		}
	}
	/* the ISO week texts must denote the days claimed above */
	{
		const struct rc_day *p = rc_get(rc_rd(2011, 1, 1)), *q = rc_get(rc_rd(2010, 7, 26));
		if (p->isoy != 2010 || p->isow != 52 || p->wd != 6 || q->isoy != 2010 || q->isow != 30 || q->wd != 1) {
			fprintf(stderr, "BROKEN-CHECK: ISO week lines of the dsort alphabet do not denote the claimed days\n");
			return 3;
		}
	}
	free(rc_tab);	/* makes fork() dear, not needed any more */
	rc_tab = NULL;
	if (ex.cas) {
		int rev, len, seq[MAXLEN], n = 0;
		const char *p = ex.cas;
		if (sscanf(p, "%d %d %d%n", &cfg, &rev, &len, &n) != 3 || len < 0 || len > MAXLEN || cfg < 0 || cfg >= NCFG) {
			return ex_replay_result(1, "bad case string '%s'", ex.cas);
		}
		p += n;
		for (int i = 0; i < len; i++) {
			alpha = cfg_alpha(cfg);
			if (sscanf(p, "%d%n", seq + i, &n) != 1 || seq[i] < 0 || seq[i] >= (cfg == 0 ? NALPHA : cfg <= 2 || cfg == 5 ? NALPHA_X : NALPHA_E)) {
				return ex_replay_result(1, "bad case string '%s'", ex.cas);
			}
			p += n;
		}
		alpha = cfg_alpha(cfg);
		return ex_replay_result(judge(seq, len, rev, 1), "dsort%s on %d lines", rev ? " -r" : "", len);
	}
	/* the full alphabet up to length LFULL, the alphabet without the ISO-week lines at the last length */
	maxlen = ex.thorough ? 5 : 4;
	{
		long tot = 0;
		for (int l = 0; l <= maxlen; l++) {
			long pw = 1;
			nalpha = l < maxlen ? NALPHA : NALPHA_SHORT;
			for (int i = 0; i < l; i++) {
				pw *= nalpha;
			}
			tot += pw;
		}
		ex_meta("rule", "the dsort binary (it spawns sort and cut) on every sequence of lines over the alphabet, with and without -r; "
			"oracle: exit 0, the output is a permutation of the input multiset of lines, and any two output lines of the same kind "
			"(date / date-time / time / ISO-week date) are in timeline order (reverse with -r); lines of different kinds, lines "
			"without a date and equal instants may come in any order. non-trivial = the input holds an inversion among same-kind lines");
		ex_meta("bound", "all sequences of length 0..%d over the %d-line alphabet (two texts of one date, an earlier date, two date-times, "
			"two times, a line without a date, an empty line, two ISO-week dates) and all of length %d over its first %d lines "
			"(without the ISO-week dates): %ld sequences x {no option, -r} = %ld runs of the binary; plus all sequences of length 0..%d over "
			"two 5-line alphabets: date-times with sub-second parts read with -i %%FT%%T.%%N, and lines containing the byte 0x01; plus a 10-line alphabet of "
			"epoch stamps (pairs inside one 65536-s block across a UTC midnight, neighbouring blocks, same day, negative stamps, a line without one) "
			"read with -i %%s (all sequences up to length 3 quick / 4 thorough) and with -i @%%s (2 / 3), oracle = numeric order of the stamps; plus a 5-line "
			"alphabet with the text T24:00:00 (3 / 5): it must sort as the end of its day or as 00:00:00 of the next day, never later",
			maxlen - 1, NALPHA, maxlen, NALPHA_SHORT, tot, 2 * tot, ex.thorough ? 5 : 3);
		ex_meta("binding", "every case is a run of the dsort binary of the same build (sort and cut from PATH, LC_ALL=C)");
	}
	/* canonical order: by length, then lexicographic; a slice = the sequences sharing all but the last two letters */
	{
		uint64_t slice = 0;
		for (int len = 0; len <= maxlen; len++) {
			int seq[MAXLEN] = {0};
			long n = 1, per = 1;
			nalpha = len < maxlen ? NALPHA : NALPHA_SHORT;
			for (int i = 0; i < len; i++) {
				n *= nalpha;
			}
			per = len >= 2 ? nalpha * nalpha : 1;
			for (long k = 0; k < n; k++) {
				long x = k;
				if (k % per == 0) {
					slice++;
				}
				if (!ex_mine(slice) || ex_expired()) {
					continue;
				}
				for (int i = len - 1; i >= 0; i--) {
					seq[i] = (int)(x % nalpha);
					x /= nalpha;
				}
				++*c_states;
				for (int rev = 0; rev < 2; rev++) {
					judge(seq, len, rev, 0);
					++*c_traces;
				}
				if (ex_want_sample()) {
					char sq[48];
					seq_str(sq, sizeof(sq), seq, len);
					ex_sample("dsort [-r] on the %d-line sequence (%s) of alphabet lines", len, sq);
				}
			}
		}
	}
	/* configurations 1 and 2: all sequences up to length 3 (quick) / 5 (thorough) over their 5-line alphabets */
	{
		uint64_t slice = 1000000;
		for (cfg = 1; cfg < NCFG; cfg++) {
			/* lengths: sub-seconds and 0x01: 3 / 5; -i %s: 3 / 4; -i @%s: 2 / 3 */
			const int xlen = cfg <= 2 || cfg == 5 ? (ex.thorough ? 5 : 3) : cfg == 3 ? (ex.thorough ? 4 : 3) : (ex.thorough ? 3 : 2);
			const int NX = cfg <= 2 || cfg == 5 ? NALPHA_X : NALPHA_E;
			alpha = cfg_alpha(cfg);
			for (int len = 0; len <= xlen; len++) {
				int seq[MAXLEN] = {0};
				long n = 1;
				for (int i = 0; i < len; i++) {
					n *= NX;
				}
				for (long k = 0; k < n; k++) {
					long x = k;
					if (k % NX == 0) {
						slice++;
					}
					if (!ex_mine(slice) || ex_expired()) {
						continue;
					}
					for (int i = len - 1; i >= 0; i--) {
						seq[i] = (int)(x % NX);
						x /= NX;
					}
					++*c_states;
					for (int rev = 0; rev < 2; rev++) {
						judge(seq, len, rev, 0);
						++*c_traces;
					}
				}
			}
		}
		cfg = 0;
		alpha = alpha0;
	}
	return ex_finish();
}
