/* c02_common.h -- held representations and the Hijri table model for the C02 explorers */
#ifndef VERIF_C02_COMMON_H
#define VERIF_C02_COMMON_H
#include "impl.h"
#include "refcal.h"

/* the Umm-al-Qura month-begin table IS the definition (DESIGN.md §8); read it
 * from the tree's own data file, walk it linearly */
#define _bom hj_bom
#include "../data/ummulqura.tab"
#undef _bom
#define HJ_NYEARS	((int)(sizeof(hj_bom) / sizeof(*hj_bom)))

struct hj_s {
	int y, m, d, mlen;
};

/* model: Hijri date of the day with (documented-convention) Lilian number L;
 * returns 0 when the day is outside the table (the last month has no end) */
static int
hj_of_ldn(int64_t L, struct hj_s *h)
{
	for (int y = 0; y < HJ_NYEARS; y++) {
		for (int m = 0; m < 12; m++) {
			int64_t b = hj_bom[y][m];
			int64_t e;
			if (m < 11) {
				e = hj_bom[y][m + 1];
			} else if (y + 1 < HJ_NYEARS) {
				e = hj_bom[y + 1][0];
			} else {
				/* last month of the table: at least 29 days are certain */
				e = b + 29;
			}
			if (L >= b && L < e) {
				h->y = y + UMMULQURA_BASE;
				h->m = m + 1;
				h->d = (int)(L - b) + 1;
				h->mlen = (int)(e - b);
				return 1;
			}
		}
	}
	return 0;
}

enum { H_YMD, H_YMCW, H_YWD, H_YD, H_DAISY, H_LDN, H_JDN, H_MDN, H_BIZDA, H_HIJRI, H_YMCW0, NHELD };
static const char *const held_name[NHELD] = {"ymd", "ymcw", "ywd", "yd", "daisy", "ldn", "jdn", "mdn", "bizda", "hijri", "ymcw-w0"};
static const dt_dtyp_t held_typ[NHELD] = {DT_YMD, DT_YMCW, DT_YWD, DT_YD, DT_DAISY, DT_LDN, DT_JDN, DT_MDN, DT_BIZDA, DT_UMMULQURA, DT_YMCW};

/* the day as a ymd-held date-only value, through the public parser */
static struct dt_dt_s
ymd_value(const struct rc_day *p)
{
	char text[32];
	snprintf(text, sizeof(text), "%04d-%02d-%02d", p->y, p->m, p->d);
	return dt_strpdt(text, NULL, NULL);
}

/* value of day P held in representation H, as a tool would hold it.
 * returns 0 if the day has no name in H (weekend in bizda, outside the Hijri table) */
static int
held_value(int H, const struct rc_day *p, struct dt_dt_s *out)
{
	char text[32];
	struct dt_dt_s v;

	switch (H) {
	case H_BIZDA:
		/* conversion TO bizda does not exist as an operation of the tools (it
		 * is a stub); a bizda-held value comes from parsing bizda text */
		if (!p->isbd) {
			return 0;
		}
		snprintf(text, sizeof(text), "%04d-%02d-%02db", p->y, p->m, p->bd);
		v = dt_strpdt(text, NULL, NULL);
		if (dt_unk_p(v) || v.d.typ != DT_BIZDA) {
			return -1;
		}
		*out = v;
		return 1;
	case H_YMCW0:
		/* a Sunday written the way %w spells it (00), through the public parser: info/format.texi gives %w the
		 * range 00..06 and ymcw dates are %Y-%m-%c-%w; other days have no such spelling */
		if (p->wd != 7) {
			return 0;
		}
		snprintf(text, sizeof(text), "%04d-%02d-%02d-00", p->y, p->m, (p->d - 1) / 7 + 1);
		v = dt_strpdt(text, NULL, NULL);
		if (dt_unk_p(v) || v.d.typ != DT_YMCW) {
			return -1;
		}
		*out = v;
		return 1;
	case H_HIJRI: {
		struct hj_s h;
		if (!hj_of_ldn(rc_ldn(p->rd), &h)) {
			return 0;
		}
		v = dt_dtconv((dt_dttyp_t)DT_UMMULQURA, ymd_value(p));
		*out = v;
		return 1;
	}
	default:
		v = ymd_value(p);
		if (dt_unk_p(v)) {
			return -1;
		}
		if (H != H_YMD) {
			v = dt_dtconv((dt_dttyp_t)held_typ[H], v);
		}
		*out = v;
		return 1;
	}
}

/* date specifiers of info/format.texi (order: simplest first) */
static const char *const c02_specs[] = {
	"%F", "%Y", "%m", "%d", "%y", "%_y", "%j", "%D", "%a", "%A", "%_a", "%b", "%B", "%_b", "%u", "%w",
	"%c", "%C", "%G", "%g", "%V", "%U", "%W", "%q", "%Q", "%Od", "%Om", "%Oy", "%OY", "%Oc", "%dth", "%mth", "%db", "%dB",
};
#define C02_NSPEC	((int)(sizeof(c02_specs) / sizeof(*c02_specs)))

#endif
