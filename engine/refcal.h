/* refcal.h -- the reference civil calendar as a successor machine.
 *
 * State = one day with all its names; transition = "next day".
 * Deliberately boring: month-length table, the 4/100/400 rule, weekday+1,
 * ISO week by "the week belongs to the year of its Thursday".  No closed
 * forms (no Neri-Schneider, no 28-year tables, no bisection).
 *
 * Anchors (independent constants): 1970-01-01 is a Thursday with Unix day 0,
 * Julian day number 2440587.5 (JDN at noon 2440588), Matlab datenum 719529,
 * Lilian day 141427 in the convention dateutils documents ("whole solar days
 * since ... 15 Oct 1582", lib/date-core.h and info/dateutils.texi, pinned by
 * test/dconv.093/094/111..114): 1582-10-15 is day 0.  IBM's Lilian date counts
 * that day as 1 (141428); the property leaves the epoch convention to the
 * documentation, so the documented one is the oracle (DESIGN.md, Corrections).
 *
 * rc_selfcheck() compares the successor machine with a second, differently
 * written formulation (year-length sums, Thursday walk) and aborts with exit
 * status 3 (broken check) on disagreement. */
#ifndef VERIF_REFCAL_H
#define VERIF_REFCAL_H
#include <stdio.h>
#include <stdlib.h>
#include <stdint.h>

#define RC_MIN_YEAR	1601
#define RC_MAX_YEAR	4095
#define RC_NDAYS	911280	/* 1601-01-01 .. 4095-12-31 */

struct rc_day {
	int rd;		/* 0 for 1601-01-01; dateutils' daisy is rd + 1 */
	int y, m, d;
	int wd;		/* 1 = Monday .. 7 = Sunday */
	int yday;	/* 1 .. 366 */
	int leap;	/* year is a leap year */
	int mlen;	/* length of the month */
	int isoy, isow;	/* ISO 8601 week-numbering year and week */
	int mcnt;	/* this is the mcnt-th <wd> of the month, 1 .. 5 */
	int ycnt;	/* this is the ycnt-th <wd> of the year, 1 .. 53 */
	int wU;		/* %U: weeks start on Sunday, days before the first Sunday are week 0 */
	int wW;		/* %W: weeks start on Monday, days before the first Monday are week 0 */
	int q;		/* quarter 1 .. 4 */
	int bd;		/* business day of the month (Mon-Fri count up to and including this day) */
	int isbd;	/* Monday..Friday */
	int64_t unixd;	/* days since 1970-01-01 */
};

static inline int
rc_leapp(int y)
{
	if (y % 4) {
		return 0;
	}
	if (y % 100) {
		return 1;
	}
	return (y % 400) == 0;
}

static inline int
rc_mlen(int y, int m)
{
	static const int ml[13] = {0, 31, 28, 31, 30, 31, 30, 31, 31, 30, 31, 30, 31};
	return ml[m] + (m == 2 && rc_leapp(y));
}

/* day numbers derived from the rd by anchor constants:
 * 1970-01-01 has rd RC_RD_1970, computed once by stepping */
static int RC_RD_1970 = -1;

static inline int64_t rc_unix_days(int rd) { return (int64_t)rd - RC_RD_1970; }
static inline int64_t rc_ldn(int rd) { return rc_unix_days(rd) + 141427; }
static inline int64_t rc_mdn(int rd) { return rc_unix_days(rd) + 719529; }
/* Julian day number of the civil day (the one beginning at the preceding noon .5):
 * dateutils prints the JDN of 00:00 UTC, i.e. <integer>.5 */
static inline double rc_jdn(int rd) { return (double)rc_unix_days(rd) + 2440587.5; }

static void
rc_first(struct rc_day *s)
{
	/* 1601-01-01: a Monday (follows from the Thursday anchor; verified in
	 * the self check by walking to 1970-01-01) */
	s->rd = 0;
	s->y = 1601, s->m = 1, s->d = 1;
	s->wd = 1;
	s->yday = 1;
	s->leap = 0;
	s->mlen = 31;
	s->isoy = 1601, s->isow = 1;
	s->mcnt = 1;
	s->ycnt = 1;
	s->wU = 0;
	s->wW = 1;
	s->q = 1;
	s->bd = 1;
	s->isbd = 1;
	s->unixd = 0;	/* patched after RC_RD_1970 is known */
	return;
}

/* ISO weeks of a year: 53 iff Jan 1 is a Thursday, or a Wednesday in a leap year
 * (written as: Dec 28 always lies in the last week) -- used for the successor
 * only through the Thursday rule below */
static void
rc_next(struct rc_day *s)
{
	int ny = s->y, nm = s->m, nd = s->d + 1;

	if (nd > s->mlen) {
		nd = 1;
		if (++nm > 12) {
			nm = 1;
			ny++;
		}
	}
	s->rd++;
	s->wd = s->wd % 7 + 1;
	if (ny != s->y) {
		s->yday = 1;
		s->leap = rc_leapp(ny);
		s->wU = 0;
		s->wW = 0;
	} else {
		s->yday++;
	}
	if (nm != s->m) {
		s->mlen = rc_mlen(ny, nm);
		s->bd = 0;
	}
	s->y = ny, s->m = nm, s->d = nd;
	s->mcnt = (nd - 1) / 7 + 1;
	s->ycnt = (s->yday - 1) / 7 + 1;
	s->q = (nm - 1) / 3 + 1;
	if (s->wd == 7) {
		s->wU++;
	}
	if (s->wd == 1) {
		s->wW++;
	}
	s->isbd = s->wd <= 5;
	if (s->isbd) {
		s->bd++;
	}
	/* ISO week: a new week starts on Monday; it belongs to the year in
	 * which its Thursday (3 days on) falls */
	if (s->wd == 1) {
		/* Thursday of this week */
		int ty = ny, tm = nm, td = nd + 3;
		int tl = rc_mlen(ty, tm);
		if (td > tl) {
			td -= tl;
			if (++tm > 12) {
				tm = 1;
				ty++;
			}
		}
		(void)td;
		if (ty != s->isoy) {
			s->isoy = ty;
			s->isow = 1;
		} else {
			s->isow++;
		}
	}
	s->unixd++;
	return;
}

/* random access by stepping from a table of year starts (filled in selfcheck) */
static struct rc_day *rc_tab;	/* all RC_NDAYS states */

static inline const struct rc_day*
rc_get(int rd)
{
	return (rd >= 0 && rd < RC_NDAYS) ? rc_tab + rd : NULL;
}

/* second formulation: rd of y-m-d by summing year and month lengths */
static int
rc_rd_of_ymd(int y, int m, int d)
{
	int rd = 0;
	for (int yy = RC_MIN_YEAR; yy < y; yy++) {
		rd += 365 + rc_leapp(yy);
	}
	for (int mm = 1; mm < m; mm++) {
		rd += rc_mlen(y, mm);
	}
	return rd + d - 1;
}

static int rc_yearstart[RC_MAX_YEAR + 2];	/* rd of Jan 1 */

static inline int
rc_rd(int y, int m, int d)
{
	int rd = rc_yearstart[y];
	for (int mm = 1; mm < m; mm++) {
		rd += rc_mlen(y, mm);
	}
	return rd + d - 1;
}

static void
rc_die(const char *what, int rd)
{
	fprintf(stderr, "BROKEN-CHECK: reference calendar self check failed: %s at rd=%d\n", what, rd);
	exit(3);
}

/* build the table of all states and self check against the second formulation */
static void
rc_selfcheck(void)
{
	struct rc_day s;
	int rd = 0;

	rc_tab = malloc(sizeof(*rc_tab) * RC_NDAYS);
	if (rc_tab == NULL) {
		rc_die("out of memory", 0);
	}
	rc_first(&s);
	for (rd = 0; rd < RC_NDAYS; rd++) {
		rc_tab[rd] = s;
		if (s.m == 1 && s.d == 1) {
			rc_yearstart[s.y] = rd;
		}
		if (s.y == 1970 && s.m == 1 && s.d == 1) {
			RC_RD_1970 = rd;
			/* anchor: a Thursday */
			if (s.wd != 4) {
				rc_die("1970-01-01 is not a Thursday", rd);
			}
		}
		rc_next(&s);
	}
	if (s.y != RC_MAX_YEAR + 1 || s.m != 1 || s.d != 1) {
		rc_die("walk does not end at 4096-01-01", rd);
	}
	rc_yearstart[RC_MAX_YEAR + 1] = RC_NDAYS;
	if (RC_RD_1970 != 134774) {
		/* 369 years, 89 leap years: 369*365+89 */
		rc_die("1970-01-01 is not day 134774 after 1601-01-01", RC_RD_1970);
	}
	for (rd = 0; rd < RC_NDAYS; rd++) {
		struct rc_day *p = rc_tab + rd;
		p->unixd = (int64_t)rd - RC_RD_1970;
	}
	/* second formulation */
	for (rd = 0; rd < RC_NDAYS; rd++) {
		const struct rc_day *p = rc_tab + rd;
		/* day count by sums: only on the 1st of a month to keep it fast,
		 * and on every day by recurrence from there */
		if (p->d == 1 && rc_rd_of_ymd(p->y, p->m, 1) != rd) {
			rc_die("rd by sums", rd);
		}
		if (p->d < 1 || p->d > rc_mlen(p->y, p->m)) {
			rc_die("day of month", rd);
		}
		/* weekday by residue from the Thursday anchor */
		{
			int64_t u = p->unixd;
			int w = (int)(((u % 7) + 7 + 3) % 7) + 1;	/* 0 -> Thu(4) */
			if (w != p->wd) {
				rc_die("weekday residue", rd);
			}
		}
		/* yday by month sums */
		{
			int yd = p->d;
			for (int mm = 1; mm < p->m; mm++) {
				yd += rc_mlen(p->y, mm);
			}
			if (yd != p->yday) {
				rc_die("yday", rd);
			}
		}
		/* ISO week by the Thursday walk: thursday of this week, its
		 * year is the ISO year, week = (yday(thu) - 1) / 7 + 1 */
		{
			int trd = rd + (4 - p->wd);
			if (trd >= 0 && trd < RC_NDAYS) {
				const struct rc_day *t = rc_tab + trd;
				if (t->y != p->isoy || (t->yday - 1) / 7 + 1 != p->isow) {
					rc_die("ISO week by Thursday", rd);
				}
			}
		}
		/* %U / %W by the textbook formula (yday + 7 - wday) / 7 */
		{
			int wsun = p->wd % 7;		/* Sunday = 0 */
			int wmon = p->wd - 1;		/* Monday = 0 */
			int y0 = p->yday - 1;
			if ((y0 + 7 - wsun) / 7 != p->wU) {
				rc_die("%U", rd);
			}
			if ((y0 + 7 - wmon) / 7 != p->wW) {
				rc_die("%W", rd);
			}
		}
		/* business day of month by counting */
		{
			int bd = 0;
			for (int k = rd - p->d + 1; k <= rd; k++) {
				bd += rc_tab[k].wd <= 5;
			}
			if (bd != p->bd) {
				rc_die("business day count", rd);
			}
		}
	}
	/* anchors for the day numbers */
	if (rc_ldn(RC_RD_1970) != 141427 || rc_mdn(RC_RD_1970) != 719529 ||
	    rc_jdn(RC_RD_1970) != 2440587.5) {
		rc_die("day number anchors", RC_RD_1970);
	}
	/* Lilian day 0 (documented convention) is 1582-10-15, before our range; cross-check:
	 * 78 days to 1583-01-01, the 18 years 1583..1600 have 5 leap years
	 * (1584 88 92 96 1600): 18*365+5 = 6575; 1601-01-01 is day 78+6575 */
	if (rc_ldn(0) != 6653) {
		rc_die("Lilian day of 1601-01-01", 0);
	}
	return;
}

/* number of ISO weeks in ISO year y (by looking at the table) */
static int
rc_isoweeks(int y)
{
	/* Dec 28 is always in the last ISO week of its year */
	if (y < RC_MIN_YEAR || y > RC_MAX_YEAR) {
		return 0;
	}
	return rc_tab[rc_rd(y, 12, 28)].isow;
}

static const char *const rc_abbr_wday[8] = {"Mir", "Mon", "Tue", "Wed", "Thu", "Fri", "Sat", "Sun"};
static const char *const rc_long_wday[8] = {"Miracleday", "Monday", "Tuesday", "Wednesday", "Thursday", "Friday", "Saturday", "Sunday"};
static const char *const rc_abbr_mon[13] = {"Mir", "Jan", "Feb", "Mar", "Apr", "May", "Jun", "Jul", "Aug", "Sep", "Oct", "Nov", "Dec"};
static const char *const rc_long_mon[13] = {"Miraculary", "January", "February", "March", "April", "May", "June", "July", "August", "September", "October", "November", "December"};

#endif	/* VERIF_REFCAL_H */
