/* c03_add.c -- C03: adding days or weeks is exact in every calendar.
 *
 * Form A (DESIGN.md §2): states = days of the reference successor machine,
 * transitions = "n days on" (n successor steps; n weeks = 7n steps).  In every
 * state the day is written in every calendar, parsed by the public parser as
 * dadd does, the duration text ("+5d", "-3w") is parsed by the tools' own
 * dt_io_strpdtdur(), applied by dt_dtadd() and the result observed three ways:
 *   daisy  dt_dconv(DT_DAISY, result) must be the day count of the target state,
 *   dflt   dt_strfdt(NULL) (what dadd prints) must name the target state in the
 *          calendar of the input (parsed fields; padding free, Sunday 0|7),
 *   %F     dt_strfdt("%F") (dadd -f %F) must name the target state.
 * Binding (level B): the dadd binary of the same build adds a list of
 * durations to all days from stdin, per input calendar, and must print what
 * the library-level exploration observed. */
#include "impl.h"
#include "explore.h"
#include "refcal.h"
#include "c03_common.h"

enum { U_D, U_W, NUNIT };
static const char *const unit_name[NUNIT] = {"d", "w"};
static const int unit_mul[NUNIT] = {1, 7};
enum { O_DAISY, O_DFLT, O_F, O_INV, NOBS };
static const char *const obs_name[NOBS] = {"daisy", "dflt", "%F", "inverse"};

/* counts: applied on every day (small) / on the seam days only (large: the
 * carry loops are linear in n) */
#define MAXN	2048
static int small_n[NUNIT][MAXN], nsmall[NUNIT];
static int large_n[NUNIT][MAXN], nlarge[NUNIT];
static struct durs_s small_d[NUNIT][MAXN], large_d[NUNIT][MAXN];

/* month, year, leap-cycle lengths in days; year lengths in weeks (52/53-week years) */
static const int specials_d[] = {59, 60, 365, 366, 367, 730, 731, 1461};
static const int specials_w[] = {52, 53, 104, 105, 209, 261};
static const int big_d[] = {36524, 36525, 146097};
static const int big_w[] = {5217, 5218, 20871};
static const int huge_d[] = {1000, 10000, 100000, 500000};
static const int huge_w[] = {1000, 10000, 100000};
#define RANGE_QUICK	45
#define RANGE_THOROUGH	400
#define RANGE_SEAM	800
#define countof_(x)	((int)(sizeof(x) / sizeof(*(x))))

static void
add_n(int *tab, int *cnt, int n)
{
	for (int i = 0; i < *cnt; i++) {
		if (tab[i] == n) {
			return;
		}
	}
	if (*cnt >= MAXN) {
		fprintf(stderr, "BROKEN-CHECK: c03 table of counts too small\n");
		exit(3);
	}
	tab[(*cnt)++] = n;
}

static void
add_pm(int *tab, int *cnt, const int *v, int nv)
{
	for (int i = 0; i < nv; i++) {
		add_n(tab, cnt, v[i]);
		add_n(tab, cnt, -v[i]);
	}
}

static void
mk_tables(void)
{
	int range = ex.thorough ? RANGE_THOROUGH : RANGE_QUICK;

	for (int u = 0; u < NUNIT; u++) {
		char txt[32];
		/* simplest first: 0, +1, -1, +2, -2, ... */
		add_n(small_n[u], &nsmall[u], 0);
		for (int n = 1; n <= range; n++) {
			add_n(small_n[u], &nsmall[u], n);
			add_n(small_n[u], &nsmall[u], -n);
		}
		if (u == U_D) {
			add_pm(small_n[u], &nsmall[u], specials_d, countof_(specials_d));
		} else {
			add_pm(small_n[u], &nsmall[u], specials_w, countof_(specials_w));
		}
		if (ex.thorough) {
			for (int n = range + 1; n <= RANGE_SEAM; n++) {
				add_n(large_n[u], &nlarge[u], n);
				add_n(large_n[u], &nlarge[u], -n);
			}
		}
		if (u == U_D) {
			add_pm(large_n[u], &nlarge[u], big_d, countof_(big_d));
			if (ex.thorough) {
				add_pm(large_n[u], &nlarge[u], huge_d, countof_(huge_d));
			}
		} else {
			add_pm(large_n[u], &nlarge[u], big_w, countof_(big_w));
			if (ex.thorough) {
				add_pm(large_n[u], &nlarge[u], huge_w, countof_(huge_w));
			}
		}
		for (int i = 0; i < nsmall[u]; i++) {
			snprintf(txt, sizeof(txt), "%+d%s", small_n[u][i], unit_name[u]);
			if (mk_durs(&small_d[u][i], txt) < 0 || small_d[u][i].n != 1) {
				fprintf(stderr, "BROKEN-CHECK: duration text '%s' not accepted by dt_io_strpdtdur\n", txt);
				exit(3);
			}
		}
		for (int i = 0; i < nlarge[u]; i++) {
			snprintf(txt, sizeof(txt), "%+d%s", large_n[u][i], unit_name[u]);
			if (mk_durs(&large_d[u][i], txt) < 0 || large_d[u][i].n != 1) {
				fprintf(stderr, "BROKEN-CHECK: duration text '%s' not accepted by dt_io_strpdtdur\n", txt);
				exit(3);
			}
		}
	}
}

static const struct spell_s spellings[] = {
	{"+5D", "+5d"}, {"-5D", "-5d"}, {"5D", "+5d"}, {"5d", "+5d"}, {"+5", "+5d"}, {"-5", "-5d"}, {"5", "+5d"},
	{"+5W", "+5w"}, {"-5W", "-5w"}, {"5W", "+5w"}, {"5w", "+5w"},
};
#define NSPELL	((int)(sizeof(spellings) / sizeof(*spellings)))

/* seam days: the W8 windows and the first and last day of every year */
static int
seam_day(const struct rc_day *p)
{
	return in_w8(p->y) || (p->m == 1 && p->d == 1) || (p->m == 12 && p->d == 31);
}

static uint64_t *c_eval, *c_trans, *c_nontriv, *c_skip_range, *c_skip_biz, *c_memo, *c_noncanon;

/* dt_strfdt/dt_dconv are functions of the value alone (their print record is a
 * local), so each distinct result value is observed once per year slice: the
 * value that was observed to agree for (calendar, target day) is remembered
 * and a later transition that produces the very same 16 bytes for the same
 * target needs no second observation.  Values that disagree are never
 * remembered, so failing cases are always observed and counted one by one. */
#define MEMO_PAD	3072
#define MEMO_SZ		(366 + 2 * MEMO_PAD)
static struct dt_dt_s memo_v[NCAL][MEMO_SZ];
static uint8_t memo_ok[NCAL][MEMO_SZ];
static int memo_base;

static void
memo_reset(int rd0)
{
	memo_base = rd0 - MEMO_PAD;
	memset(memo_ok, 0, sizeof(memo_ok));
}

/* one case: day P held in calendar C (value V) + n units; returns number of failing observations */
static int
do_case(const struct rc_day *p, int c, struct dt_dt_s v, int u, int n, const struct durs_s *ds, int replay)
{
	long k = (long)n * unit_mul[u];
	long trd = (long)p->rd + k;
	const struct rc_day *t;
	struct dt_dt_s r;
	char got[NOBS][64];
	int ok[NOBS];
	int bad = 0;
	long mi;
	int wkt;
	unsigned int daisy;
	char sign = n > 0 ? '+' : n < 0 ? '-' : '0';

	if (trd < 0 || trd >= RC_NDAYS) {
		++*c_skip_range;
		if (replay) {
			printf("  result outside 1601..4095: outside the property\n");
		}
		return 0;
	}
	t = rc_get((int)trd);
	/* a bizda value plus calendar days whose target is a Saturday/Sunday: the day exists on the time
	 * line and %F / the day count can give it, only the bizda calendar has no name for it - the
	 * default output is then not judged (counted), the other observations are; own class keys */
	wkt = cal_base[c] == C_BIZDA && !t->isbd;
	if (wkt) {
		++*c_skip_biz;
	}
	r = apply_durs(v, ds);
	++*c_eval;
	++*c_trans;
	if (t->y != p->y || t->m != p->m || t->isoy != p->isoy) {
		++*c_nontriv;
	}
	mi = trd - memo_base;
	if (!replay && mi >= 0 && mi < MEMO_SZ && memo_ok[c][mi] && !memcmp(&memo_v[c][mi], &r, sizeof(r))) {
		++*c_memo;
		return 0;
	}
	daisy = obs_daisy(r);
	snprintf(got[O_DAISY], sizeof(got[O_DAISY]), "%u", daisy);
	ok[O_DAISY] = !dt_unk_p(r) && daisy == (unsigned int)trd + 1U;
	memset(got[O_DFLT], 0, sizeof(got[O_DFLT]));
	dt_strfdt(got[O_DFLT], sizeof(got[O_DFLT]), NULL, r);
	ok[O_DFLT] = wkt || dflt_agrees(c, t, got[O_DFLT]);
	memset(got[O_F], 0, sizeof(got[O_F]));
	dt_strfdt(got[O_F], sizeof(got[O_F]), "%F", r);
	ok[O_F] = ymd_agrees(t, got[O_F]);
	*c_eval += 3;
	/* the consequences (n then -n is the identity, a then b is a+b) follow from the
	 * single steps when the result is the very value the parser yields for the
	 * target's text, because that value's own transitions are explored in the
	 * target state; otherwise the inverse is applied explicitly */
	{
		struct dt_dt_s cv;
		ok[O_INV] = 1;
		snprintf(got[O_INV], sizeof(got[O_INV]), "(result is bit-identical with the parsed target)");
		if (cal_value(c, t, &cv) <= 0 || memcmp(&cv, &r, sizeof(r))) {
			struct durs_s nd;
			char txt[32];
			unsigned int back = 0;
			++*c_noncanon;
			snprintf(txt, sizeof(txt), "%+d%s", -n, unit_name[u]);
			if (mk_durs(&nd, txt) == 0) {
				struct dt_dt_s r2 = apply_durs(r, &nd);
				back = obs_daisy(r2);
				*c_eval += 2;
			}
			snprintf(got[O_INV], sizeof(got[O_INV]), "%u", back);
			ok[O_INV] = back == (unsigned int)p->rd + 1U;
		}
	}
	ex_outcome(ex_hash_mix(ex_hash(got[O_DFLT], strlen(got[O_DFLT])), ex_hash(got[O_F], strlen(got[O_F])) + daisy));
	if (ok[O_DAISY] && ok[O_DFLT] && ok[O_F] && ok[O_INV] && mi >= 0 && mi < MEMO_SZ && !memo_ok[c][mi]) {
		memo_v[c][mi] = r;
		memo_ok[c][mi] = 1;
	}

	for (int o = 0; o < NOBS; o++) {
		char key[128];
		if (ok[o] && !replay) {
			continue;
		}
		if (!ok[o]) {
			bad++;
		}
		snprintf(key, sizeof(key), "add cal=%s unit=%s sign=%c%s obs=%s", cal_name[c], unit_name[u], sign, wkt ? " target=weekend" : "", obs_name[o]);
		if (!ok[o] && !ex_viol_known(key, (double)trd)) {
			char text[48], cas[64], cmd[256], dtxt[32], exp[64];
			cal_text(c, p, text, sizeof(text));
			snprintf(dtxt, sizeof(dtxt), "%+d%s", n, unit_name[u]);
			snprintf(cas, sizeof(cas), "%d %d %d %d", c, u, n, p->rd);
			const char *cmdp = dadd_cmd(cmd, sizeof(cmd), c, text, dtxt, o == O_F ? "%F" : NULL);
			if (o == O_DAISY) {
				snprintf(exp, sizeof(exp), "%ld", trd + 1);
			} else if (o == O_INV) {
				snprintf(exp, sizeof(exp), "then %+d%s must give day count %d again", -n, unit_name[u], p->rd + 1);
			} else if (o == O_DFLT) {
				exp_dflt(c, t, exp, sizeof(exp));
			} else {
				snprintf(exp, sizeof(exp), "%04d-%02d-%02d", t->y, t->m, t->d);
			}
			ex_viol(key, (double)trd, cas, (o == O_DAISY || o == O_INV) ? NULL : cmdp,
				"%04d-%02d-%02d given as '%s' (%s) %s: %s observation is '%s', the day %ld steps on is %04d-%02d-%02d = '%s'",
				p->y, p->m, p->d, text, cal_name[c], dtxt, obs_name[o], got[o], k, t->y, t->m, t->d, exp);
		}
		if (replay) {
			printf("  %04d-%02d-%02d (%s) %+d%s -> target %04d-%02d-%02d; %s observation '%s' %s\n",
			       p->y, p->m, p->d, cal_name[c], n, unit_name[u], t->y, t->m, t->d, obs_name[o], got[o],
			       ok[o] ? "(agrees)" : "DISAGREES");
		}
	}
	return bad;
}

/* ---- ROLES: which argument is the date, which the duration ----
 * dadd [DATE/TIME] [DURATION]: "If DATE/TIME is omitted but DURATION is given, read a list
 * of DATE/TIMEs from stdin".  Durations are [+-]N<unit> (units.texi), the sign is optional
 * (dadd.texi: `dadd 2w2d`, `-1h6m`).  Under an input format that starts with a number
 * (-i %s, %d, %j, %H) a duration argument looks like the beginning of a value; the tool must
 * still take it for the duration and the stdin lines for the dates.  Enumerated through the
 * dadd binary: every (format, duration text) x a list of values, values on stdin and value
 * as argument; oracle: the model (value + duration), no library call. */
struct rfmt_s {
	const char *ifmt, *base;
	int kind;	/* 0 epoch seconds, 1 day of month, 2 day of year, 3 hour */
};
static const struct rfmt_s rfmts[] = {
	{"%s", NULL, 0}, {"%d", "2012-03-01", 1}, {"%j", "2012-01-01", 2}, {"%H", NULL, 3},
};
struct rdur_s {
	const char *txt;
	long secs;	/* the duration in seconds (all units here have a fixed length) */
	const char *unit;
};
static const struct rdur_s rdurs[] = {
	{"1d", 86400, "d"}, {"+1d", 86400, "d"}, {"-1d", -86400, "d"},
	{"2w", 1209600, "w"}, {"+2w", 1209600, "w"}, {"-2w", -1209600, "w"},
	{"2w2d", 1382400, "w,d"}, {"-1w1d", -691200, "w,d"},
	{"1h", 3600, "h"}, {"+1h", 3600, "h"}, {"-1h", -3600, "h"},
	{"61m", 3660, "m"}, {"+61m", 3660, "m"}, {"-61m", -3660, "m"},
	{"90s", 90, "s"}, {"+90s", 90, "s"}, {"-90s", -90, "s"},
	{"1rs", 1, "rs"}, {"+1rs", 1, "rs"}, {"-1rs", -1, "rs"},
	{"-1h6m", -3960, "h,m"},
};
#define NRFMT	((int)(sizeof(rfmts) / sizeof(*rfmts)))
#define NRDUR	((int)(sizeof(rdurs) / sizeof(*rdurs)))

static int
role_applies(const struct rfmt_s *f, const struct rdur_s *d)
{
	int dayunit = d->unit[0] == 'd' || d->unit[0] == 'w';
	return f->kind == 0 || (f->kind == 3 ? !dayunit : dayunit);
}

/* the I-th value of format F and what the model expects after adding SECS; 0 when there is no I-th value */
static int
role_value(const struct rfmt_s *f, int i, long secs, char *val, size_t vsz, char *exp, size_t esz)
{
	switch (f->kind) {
	case 0: {
		/* 12:34:56 on the 60 days from 2012-02-15: no leap second near */
		long long n, t;
		const struct rc_day *q;
		long tod;
		if (i >= 60) {
			return 0;
		}
		n = ((long long)rc_get(rc_rd(2012, 2, 15) + i)->unixd) * 86400LL + 45296LL;
		t = n + secs;
		q = rc_get((int)(RC_RD_1970 + t / 86400));
		tod = (long)(t % 86400);
		snprintf(val, vsz, "%lld", n);
		snprintf(exp, esz, "%04d-%02d-%02dT%02ld:%02ld:%02ld", q->y, q->m, q->d, tod / 3600, tod / 60 % 60, tod % 60);
		return 1;
	}
	case 1:
	case 2: {
		const struct rc_day *q;
		int nv = f->kind == 1 ? 28 : 365;
		if (i >= nv) {
			return 0;
		}
		q = rc_get((f->kind == 1 ? rc_rd(2012, 3, 1) : rc_rd(2012, 1, 1)) + i + (int)(secs / 86400));
		snprintf(val, vsz, f->kind == 1 ? "%02d" : "%03d", i + 1);
		if (f->kind == 1) {
			snprintf(exp, esz, "%04d-%02d-%02d", q->y, q->m, q->d);
		} else {
			snprintf(exp, esz, "%04d-%03d", q->y, q->yday);
		}
		return 1;
	}
	default: {
		/* hours 02..20: no wrap over midnight with these durations */
		long t;
		if (i >= 19) {
			return 0;
		}
		t = (i + 2) * 3600L + secs;
		snprintf(val, vsz, "%02d", i + 2);
		snprintf(exp, esz, "%02ld:%02ld:%02ld", t / 3600, t / 60 % 60, t % 60);
		return 1;
	}
	}
}

static void
role_job(int job)
{
	const struct rfmt_s *f = rfmts + job / NRDUR;
	const struct rdur_s *d = rdurs + job % NRDUR;
	const char *rundir = getenv("VERIF_RUNDIR");
	char fin[512], fout[512], cmd[1600], base[64] = "", line[128], val[32], exp[64], key[128], cas[64];
	char sign = d->txt[0] == '+' ? '+' : d->txt[0] == '-' ? '-' : 'n';
	FILE *fp;
	int i;
	EX_CTR(c_bind, "cli_binding_replays");
	EX_CTR(c_bindln, "cli_binding_lines");
	EX_CTR(c_roles, "role cases (format, duration text, value, stdin|argument) compared with the model");

	if (rundir == NULL || ex.tree == NULL || !role_applies(f, d)) {
		return;
	}
	if (f->base) {
		snprintf(base, sizeof(base), " -b %s", f->base);
	}
	snprintf(fin, sizeof(fin), "%s/c03role.%d.in", rundir, job);
	snprintf(fout, sizeof(fout), "%s/c03role.%d.out", rundir, job);
	/* (a) values on stdin, the duration is the only argument */
	if ((fp = fopen(fin, "w")) == NULL) {
		return;
	}
	for (i = 0; role_value(f, i, d->secs, val, sizeof(val), exp, sizeof(exp)); i++) {
		fprintf(fp, "%s\n", val);
	}
	fclose(fp);
	snprintf(cmd, sizeof(cmd), "'%s/src/dadd'%s -i '%s' -- %s < '%s' > '%s' 2>/dev/null", ex.tree, base, f->ifmt, d->txt, fin, fout);
	if (system(cmd)) {
		;
	}
	++*c_bind;
	snprintf(key, sizeof(key), "roles mode=stdin ifmt=%s unit=%s sign=%s", f->ifmt, d->unit, sign == 'n' ? "none" : sign == '+' ? "+" : "-");
	if ((fp = fopen(fout, "r")) != NULL) {
		for (i = 0; role_value(f, i, d->secs, val, sizeof(val), exp, sizeof(exp)); i++) {
			if (!fgets(line, sizeof(line), fp)) {
				line[0] = '\0';
			}
			line[strcspn(line, "\n")] = '\0';
			++*c_bindln;
			++*c_roles;
			ex_outcome(ex_hash(line, strlen(line)));
			if (strcmp(line, exp)) {
				snprintf(cas, sizeof(cas), "role %d", job);
				snprintf(cmd, sizeof(cmd), "echo %s | dadd%s -i %s -- %s", val, base, f->ifmt, d->txt);
				ex_viol(key, i, cas, cmd, "value '%s' on stdin read with -i %s, duration argument '%s': printed '%s', value plus duration is '%s'",
					val, f->ifmt, d->txt, line, exp);
			}
		}
		fclose(fp);
	}
	unlink(fin);
	unlink(fout);
	/* (b) value and duration both as arguments: three values */
	snprintf(key, sizeof(key), "roles mode=args ifmt=%s unit=%s sign=%s", f->ifmt, d->unit, sign == 'n' ? "none" : sign == '+' ? "+" : "-");
	for (i = 0; i < 3 && role_value(f, i * 7, d->secs, val, sizeof(val), exp, sizeof(exp)); i++) {
		FILE *pp;
		snprintf(cmd, sizeof(cmd), "'%s/src/dadd'%s -i '%s' %s -- %s 2>/dev/null", ex.tree, base, f->ifmt, val, d->txt);
		line[0] = '\0';
		if ((pp = popen(cmd, "r")) != NULL) {
			if (!fgets(line, sizeof(line), pp)) {
				line[0] = '\0';
			}
			pclose(pp);
		}
		line[strcspn(line, "\n")] = '\0';
		++*c_bind;
		++*c_roles;
		if (strcmp(line, exp)) {
			snprintf(cas, sizeof(cas), "role %d", job);
			snprintf(cmd, sizeof(cmd), "dadd%s -i %s %s -- %s", base, f->ifmt, val, d->txt);
			ex_viol(key, i, cas, cmd, "value '%s' read with -i %s and duration '%s' as arguments: printed '%s', value plus duration is '%s'",
				val, f->ifmt, d->txt, line, exp);
		}
	}
}
#define NROLEJOBS	(NRFMT * NRDUR)

/* ---- binding: the dadd binary over all days ---- */
struct bind_s {
	int cal;
	const char *dur;
	const char *ofmt;
};
static const struct bind_s binds[] = {
	{C_YMD, "+1d", NULL}, {C_YMD, "-31d", NULL}, {C_YMD, "+366d", NULL}, {C_YMD, "-1w", NULL}, {C_YMD, "+53w", NULL}, {C_YMD, "-1461d", NULL},
	{C_YWD, "+1d", NULL}, {C_YWD, "-31d", NULL}, {C_YWD, "+366d", NULL}, {C_YWD, "-1w", NULL}, {C_YWD, "+53w", NULL}, {C_YWD, "-1461d", NULL},
	{C_YD, "+1d", NULL}, {C_YD, "-31d", NULL}, {C_YD, "+366d", NULL}, {C_YD, "-1w", NULL}, {C_YD, "+53w", NULL}, {C_YD, "-1461d", NULL},
	{C_YMCW, "+1d", NULL}, {C_YMCW, "-31d", NULL}, {C_YMCW, "+366d", NULL}, {C_YMCW, "-1w", NULL}, {C_YMCW, "+53w", NULL}, {C_YMCW, "-1461d", NULL},
	{C_BIZDA, "+1d", NULL}, {C_BIZDA, "-31d", NULL}, {C_BIZDA, "+366d", NULL}, {C_BIZDA, "-1w", NULL}, {C_BIZDA, "+53w", NULL}, {C_BIZDA, "-1461d", NULL},
	/* epoch input lines only with positive durations: under -i %s a first argument like -31d is itself read as the date @-31 */
	{C_EPOCH, "+1w", NULL}, {C_EPOCH, "+31d", NULL},
	/* thorough only from here */
	{C_EPOCH, "+53w", "%F"}, {C_EPOCH, "+5w", "%s"}, {C_YMCW0, "+1d", NULL}, {C_YMCW0, "-1w", "%F"}, {C_YWD0, "+1d", NULL}, {C_YWD0, "-1w", "%F"},
	{C_YMD, "-1d", NULL}, {C_YMD, "+30d", NULL}, {C_YMD, "-365d", NULL}, {C_YMD, "+1w", NULL}, {C_YMD, "-52w", NULL}, {C_YMD, "+800d", NULL},
	{C_YWD, "-1d", NULL}, {C_YWD, "+30d", NULL}, {C_YWD, "-365d", NULL}, {C_YWD, "+1w", NULL}, {C_YWD, "-52w", NULL}, {C_YWD, "+800d", NULL},
	{C_YD, "-1d", NULL}, {C_YD, "+30d", NULL}, {C_YD, "-365d", NULL}, {C_YD, "+1w", NULL}, {C_YD, "-52w", NULL}, {C_YD, "+800d", NULL},
	{C_YMCW, "-1d", NULL}, {C_YMCW, "+30d", NULL}, {C_YMCW, "-365d", NULL}, {C_YMCW, "+1w", NULL}, {C_YMCW, "-52w", NULL}, {C_YMCW, "+800d", NULL},
	{C_BIZDA, "-1d", NULL}, {C_BIZDA, "+30d", NULL}, {C_BIZDA, "-365d", NULL}, {C_BIZDA, "+1w", NULL}, {C_BIZDA, "-52w", NULL}, {C_BIZDA, "+800d", NULL},
	{C_LDN, "+1d", NULL}, {C_LDN, "-53w", NULL}, {C_JDN, "-1d", NULL}, {C_JDN, "+52w", NULL},
	{C_MDN, "+366d", NULL}, {C_MDN, "-1w", NULL},
	{C_YMD, "+59d", "%F %G-W%V-%u"}, {C_YWD, "-60d", "%F"}, {C_YD, "+1w", "%F"}, {C_YMCW, "-1w", "%F"},
	{C_BIZDA, "+7d", "%F"}, {C_LDN, "+1w", "%F"},
};
#define NBIND_QUICK	32
#define NBIND		((int)(sizeof(binds) / sizeof(*binds)))

static void
bind_lib(const struct bind_s *b, const struct durs_s *ds, const struct rc_day *p, char *text, size_t tsz, char *got, size_t gsz)
{
	struct dt_dt_s v;

	memset(got, 0, gsz);
	if (!bind_text(b->cal, p, text, tsz)) {
		return;
	}
	v = dt_strpdt(text, bind_ifmt(b->cal), NULL);
	if (dt_unk_p(v)) {
		return;
	}
	v = apply_durs(v, ds);
	if (!dt_unk_p(v)) {
		dt_strfdt(got, gsz, b->ofmt, v);
	}
}

static void
bind_cmdline(char *cmd, size_t csz, const struct bind_s *b, const char *tree)
{
	char pre[600] = "dadd";
	if (tree) {
		snprintf(pre, sizeof(pre), "'%s/src/dadd'", tree);
	}
	snprintf(cmd, csz, "%s%s%s%s%s%s%s -- %s", pre,
		 bind_ifmt(b->cal) ? " -i '" : "", bind_ifmt(b->cal) ? bind_ifmt(b->cal) : "", bind_ifmt(b->cal) ? "'" : "",
		 b->ofmt ? " -f '" : "", b->ofmt ? b->ofmt : "", b->ofmt ? "'" : "", b->dur);
}

static void
do_binding(int k)
{
	char fin[512], fout[512], cmd[2048], cmdline[1024], line[256], got[256], text[64], key[256], cas[64];
	const char *rundir = getenv("VERIF_RUNDIR");
	const struct bind_s *b = binds + k;
	struct durs_s ds;
	FILE *f;
	int rd, nlines = 0, nin = 0, rc;
	EX_CTR(c_bind, "cli_binding_replays");
	EX_CTR(c_bindln, "cli_binding_lines");

	if (rundir == NULL || ex.tree == NULL) {
		return;
	}
	if (mk_durs(&ds, b->dur) < 0) {
		fprintf(stderr, "BROKEN-CHECK: duration text '%s' not accepted\n", b->dur);
		exit(3);
	}
	snprintf(fin, sizeof(fin), "%s/c03bind.%d.in", rundir, k);
	snprintf(fout, sizeof(fout), "%s/c03bind.%d.out", rundir, k);
	if ((f = fopen(fin, "w")) == NULL) {
		return;
	}
	for (rd = 0; rd < RC_NDAYS; rd++) {
		if (bind_text(b->cal, rc_get(rd), text, sizeof(text))) {
			fprintf(f, "%s\n", text);
			nin++;
		}
	}
	fclose(f);
	bind_cmdline(cmdline, sizeof(cmdline), b, ex.tree);
	snprintf(cmd, sizeof(cmd), "%s < '%s' > '%s' 2>/dev/null", cmdline, fin, fout);
	rc = system(cmd);
	(void)rc;
	++*c_bind;
	bind_cmdline(cmdline, sizeof(cmdline), b, NULL);
	snprintf(key, sizeof(key), "binding dadd cal=%s dur=%s fmt=%s", cal_name[b->cal], b->dur, b->ofmt ? b->ofmt : "dflt");
	if ((f = fopen(fout, "r")) == NULL) {
		ex_viol(key, 0, "", cmdline, "no output from the binary");
		return;
	}
	for (rd = 0; rd < RC_NDAYS; rd++) {
		const struct rc_day *p = rc_get(rd);
		size_t l;
		if (!bind_text(b->cal, p, text, sizeof(text))) {
			continue;
		}
		if (!fgets(line, sizeof(line), f)) {
			break;
		}
		l = strlen(line);
		if (l && line[l - 1] == '\n') {
			line[l - 1] = '\0';
		}
		nlines++;
		bind_lib(b, &ds, p, text, sizeof(text), got, sizeof(got));
		++*c_bindln;
		if (strcmp(got, line)) {
			char one[1200];
			snprintf(cas, sizeof(cas), "bind %d %d", k, rd);
			snprintf(one, sizeof(one), "echo %s | %s", text, cmdline);
			ex_viol(key, rd, cas, one, "input line %d ('%s'): binary printed '%s', library-level exploration observed '%s'",
				nlines, text, line, got);
		}
	}
	fclose(f);
	if (nlines != nin) {
		ex_viol(key, nlines, "", cmdline, "binary printed %d lines for %d input lines", nlines, nin);
	}
	unlink(fin);
	unlink(fout);
}

static int
replay_binding(const char *cas)
{
	int k, rd;
	char text[64], cmdline[1024], cmd[1400], got[256] = "", line[256] = "";
	const struct bind_s *b;
	struct durs_s ds;
	FILE *pp;

	if (sscanf(cas, "%d %d", &k, &rd) != 2 || k < 0 || k >= NBIND || rd < 0 || rd >= RC_NDAYS) {
		return ex_replay_result(1, "bad case");
	}
	b = binds + k;
	mk_durs(&ds, b->dur);
	bind_lib(b, &ds, rc_get(rd), text, sizeof(text), got, sizeof(got));
	bind_cmdline(cmdline, sizeof(cmdline), b, ex.tree);
	snprintf(cmd, sizeof(cmd), "echo '%s' | %s 2>/dev/null", text, cmdline);
	if ((pp = popen(cmd, "r"))) {
		if (fgets(line, sizeof(line), pp)) {
			line[strcspn(line, "\n")] = '\0';
		}
		pclose(pp);
	}
	printf("  input '%s': binary '%s' library '%s'\n", text, line, got);
	return ex_replay_result(strcmp(line, got) != 0, "binding dadd cal=%s dur=%s line of rd %d", cal_name[b->cal], b->dur, rd);
}

int
main(int argc, char *argv[])
{
	EX_CTR(c_states, "states");
	EX_CTR(c_traces, "traces");

	ex_init(argc, argv);
	rc_selfcheck();
	c_eval = ex_ctr("evaluations");
	c_trans = ex_ctr("transitions");
	c_nontriv = ex_ctr("nontrivial");
	c_skip_range = ex_ctr("skipped:result outside 1601-01-01..4095-12-31");
	c_skip_biz = ex_ctr("bizda value plus calendar days landing on a weekend day (default output not judged: no bizda name; day count and %F are)");
	c_noncanon = ex_ctr("results not bit-identical with the parsed text of the target (inverse applied explicitly)");
	c_memo = ex_ctr("results identical to an already observed value for the same target (not observed again)");
	mk_tables();

	if (ex.cas) {
		int c, u, n, rd, rcv;
		if (!strncmp(ex.cas, "role ", 5)) {
			int job = atoi(ex.cas + 5);
			if (job >= 0 && job < NROLEJOBS) {
				role_job(job);
			}
			return ex_replay_result(ex.nviol != 0, "roles job %d", job);
		}
		if (!strncmp(ex.cas, "spell ", 6)) {
			check_spellings(spellings, NSPELL);
			return ex_replay_result(ex.nviol != 0, "documented duration spellings");
		}
		struct dt_dt_s v;
		struct durs_s ds;
		char txt[32];
		if (!strncmp(ex.cas, "bind ", 5)) {
			return replay_binding(ex.cas + 5);
		}
		if (sscanf(ex.cas, "%d %d %d %d", &c, &u, &n, &rd) != 4 || c < 0 || c >= NCAL || u < 0 || u >= NUNIT ||
		    rd < 0 || rd >= RC_NDAYS) {
			return ex_replay_result(1, "bad case string '%s'", ex.cas);
		}
		rcv = cal_value(c, rc_get(rd), &v);
		if (rcv <= 0) {
			printf("  day has no name / is not accepted in calendar %s\n", cal_name[c]);
			return ex_replay_result(rcv < 0, "parse cal=%s rd=%d", cal_name[c], rd);
		}
		snprintf(txt, sizeof(txt), "%+d%s", n, unit_name[u]);
		if (mk_durs(&ds, txt) < 0) {
			return ex_replay_result(1, "duration '%s' not accepted", txt);
		}
		return ex_replay_result(do_case(rc_get(rd), c, v, u, n, &ds, 1) != 0, "cal=%s %s rd=%d", cal_name[c], txt, rd);
	}

	ex_meta("rule", "every state (day) of the reference successor machine 1601-01-01..4095-12-31 x %d calendars (text through the "
		"public parser: ymd ywd yd ymcw ldn jdn mdn bizda; daisy = ymd text converted to the day count; epoch = the day's midnight as @SECONDS, which must "
		"parse to the same value as -i %%s SECONDS; ymcw-w0 = ymcw with Sunday written 00 (the documented %%w), Sundays only; ywd-w0 = ISO week date read with "
		"-i %%G-W%%V-%%w, Sunday written 00, Sundays only) x unit {d,w} x signed count n "
		"(duration text through dt_io_strpdtdur, applied by dt_dtadd as dadd does); oracle: the result is the state n (7n) successor "
		"steps on, observed as dt_dconv(DT_DAISY), as default output (parsed fields; padding free, Sunday 0|7) and as %%F; the consequences of the statement (n then -n is the identity, a then b is a+b) follow "
		"from the single steps whenever the result is bit-identical with the parser's value of the target's text (that value's transitions are explored "
		"in the target state), otherwise -n is applied explicitly to the result and must return to the start (obs=inverse, counted); a result whose 16 bytes "
		"equal a value already observed to agree for the same (calendar, target) in the same year slice is not observed again (counted). "
		"readings: results outside 1601..4095 are outside the property (skipped, counted); a bizda (or bizda-B: business days "
		"counted before ultimo, YYYY-MM-DDB) value plus calendar days whose target is a Saturday/Sunday is judged by day count, %%F and the explicit inverse only (the day exists, "
		"the bizda calendar just has no name for it; keys carry target=weekend). "
		"the documented spellings of the units (nD nW upper/lower case, unit d omitted, sign omitted) must parse to the same duration as the canonical text. "
		"ROLES section (dadd binary): under the numeric input formats -i %%s, %%d, %%j, %%H a duration argument ([+-]N<unit>, sign optional; d w h m s rs and composites) must be taken "
		"for the duration and the stdin lines (or the first argument) for the values; oracle = value + duration by the model. "
		"non-trivial = the target lies in another month, year or ISO week-year than the start", NCAL);
	ex_meta("bound", "%s tier: all 911,280 days x %d calendars x ( +-Nd with N in [0,%d] + {59,60,365,366,367,730,731,1461} (%d counts) ; "
		"+-Nw with N in [0,%d] + {52,53,104,105,209,261} (%d counts) ); on the seam days (the four 8-year windows 1601-08 1897-1904 "
		"1997-2004 4088-95 and the first and last day of every year) additionally %s+-{36524,36525,146097}d, +-{5217,5218,20871}w%s "
		"(%d + %d counts); binding runs: %d",
		ex.thorough ? "thorough" : "quick", NCAL, ex.thorough ? RANGE_THOROUGH : RANGE_QUICK, nsmall[U_D],
		ex.thorough ? RANGE_THOROUGH : RANGE_QUICK, nsmall[U_W],
		ex.thorough ? "+-[401,800] of both units, " : "", ex.thorough ? ", +-{1000,10000,100000,500000}d, +-{1000,10000,100000}w" : "",
		nlarge[U_D], nlarge[U_W], ex.thorough ? NBIND : NBIND_QUICK);
	ex_meta("ord", "ordered coordinate of a failure class (lo/hi in findings) = day ordinal rd of the TARGET state (0 = 1601-01-01; day count - 1); binding classes: rd of the input line");
	ex_meta("binding", "dadd binary of the same build, all 911,280 days (bizda: the Monday-Friday days) on stdin per (calendar, duration[, -f]) "
		"entry, byte-compared with the library-level observation");

	if (ex.worker == 0) {
		check_spellings(spellings, NSPELL);
	}
	/* slices: one per year */
	for (int y = RC_MIN_YEAR; y <= RC_MAX_YEAR && !ex_expired_now(); y++) {
		if (!ex_mine((uint64_t)(y - RC_MIN_YEAR))) {
			continue;
		}
		memo_reset(rc_yearstart[y]);
		for (int rd = rc_yearstart[y]; rd < rc_yearstart[y + 1] && !ex_expired_now(); rd++) {
			const struct rc_day *p = rc_get(rd);
			int seam = seam_day(p);
			++*c_states;
			for (int c = 0; c < NCAL; c++) {
				struct dt_dt_s v;
				int rcv = cal_value(c, p, &v);
				++*c_eval;
				if (rcv == 0) {
					continue;
				} else if (rcv < 0) {
					char key[64], text[48], cas[64];
					cal_text(c, p, text, sizeof(text));
					snprintf(key, sizeof(key), "parse cal=%s", cal_name[c]);
					snprintf(cas, sizeof(cas), "%d 0 0 %d", c, rd);
					ex_viol(key, rd, cas, NULL, "day %04d-%02d-%02d: text '%s' (%s) is not accepted by the parser (or yields another type)",
						p->y, p->m, p->d, text, cal_name[c]);
					continue;
				}
				for (int u = 0; u < NUNIT; u++) {
					for (int i = 0; i < nsmall[u]; i++) {
						do_case(p, c, v, u, small_n[u][i], &small_d[u][i], 0);
					}
					if (seam) {
						for (int i = 0; i < nlarge[u]; i++) {
							do_case(p, c, v, u, large_n[u][i], &large_d[u][i], 0);
						}
					}
					/* one trace = one start state in one calendar with all its transitions of one unit */
					++*c_traces;
				}
			}
			if (ex_want_sample()) {
				ex_sample("state %04d-%02d-%02d (ISO %04d-W%02d-%d, yday %d, bd %d%s) x %d calendars x %d signed counts of days and weeks%s",
					  p->y, p->m, p->d, p->isoy, p->isow, p->wd, p->yday, p->bd, p->isbd ? "" : " weekend", NCAL,
					  nsmall[U_D] + nsmall[U_W] + (seam ? nlarge[U_D] + nlarge[U_W] : 0), seam ? " (seam day)" : "");
			}
		}
	}
	for (int job = 0; job < NROLEJOBS && !ex_expired_now(); job++) {
		if (ex_mine((uint64_t)job)) {
			role_job(job);
		}
	}
	{
		int nb = ex.thorough ? NBIND : NBIND_QUICK;
		for (int k = 0; k < nb && !ex_expired_now(); k++) {
			if (ex_mine((uint64_t)k)) {
				do_binding(k);
			}
		}
	}
	return ex_finish();
}
