/* c13_tools.c -- C13 (d): a run on N arguments or lines prints exactly the
 * concatenation of N single-value runs.
 *
 * One source, compiled once per tool (-DC13_TOOL_dconv ... see C13.check.json).  The
 * tool's own main() is included into this TU and run in a forked child (forksrv.h:
 * argv in exact-size heap blocks, scripted stdin, fixed clock, cleared environment),
 * so every run starts from a pristine process image and all of the tool's hidden
 * state (zone caches, base singleton, strops table, static output buffer, needle
 * state, alists of opened zones) is the real one.
 *
 * Per invocation of a fixed list (tool + options), an input alphabet of 10 values
 * chosen for the shortcuts in the code (ultimo clamping, 24:00:00, instants in
 * different zone ranges incl. before 1970, unparsable, empty, two dates in a line, a
 * 255-byte line, time only); ALL sequences over the alphabet up to length 3 (thorough:
 * 4), as arguments and/or as stdin lines, as the invocation admits.
 * Oracle (differential): stdout(sequence) == concatenation of stdout(single value);
 * a sequence run that does not terminate or dies although the single runs do is a
 * violation as well.  stderr and the exit status are not compared. */
#if defined HAVE_CONFIG_H
# include "config.h"
#endif

#if defined C13_TOOL_dconv
# define C13_TOOL "dconv"
# define main c13_tool_main
# include "dconv.c"
# undef main
#elif defined C13_TOOL_dadd
# define C13_TOOL "dadd"
# define main c13_tool_main
# include "dadd.c"
# undef main
#elif defined C13_TOOL_dround
# define C13_TOOL "dround"
# define main c13_tool_main
# include "dround.c"
# undef main
#elif defined C13_TOOL_ddiff
# define C13_TOOL "ddiff"
# define main c13_tool_main
# include "ddiff.c"
# undef main
#elif defined C13_TOOL_dgrep
# define C13_TOOL "dgrep"
# define main c13_tool_main
# include "dgrep.c"
# undef main
#elif defined C13_TOOL_dzone
# define C13_TOOL "dzone"
# define main c13_tool_main
# include "dzone.c"
# undef main
#else
# error "compile with -DC13_TOOL_<tool>"
#endif

#include "impl.h"
#include "explore.h"
#include "forksrv.h"

#define X235	"xxxxxxxxxxxxxxxxxxxxxxxxxxxxxxxxxxxxxxxxxxxxxxxxxxxxxxxxxxxxxxxxxxxxxxxxxxxxxxxxxxxxxxxxxxxxxxxxxxxxxxxxxxxxxxxxxxxxxxxxxxxxxxxxxxxxxxxxxxxxxxxxxxxxxxxxxxxxxxxxxxxxxxxxxxxxxxxxxxxxxxxxxxxxxxxxxxxxxxxxxxxxxxxxxxxxxxxxxxxxxxxxxxxxxxxxxxx"

#define NALPHA	10
/* date-times as dconv/dzone/ddiff take them */
static const char *const A_DT[NALPHA] = {
	"2012-03-31",			/* date only, an ultimo */
	"2012-02-29T23:59:59",
	"2012-03-01T24:00:00",		/* 24:00:00 rolls into the next day */
	"1965-07-01T12:00:00",		/* before 1970: another zone range, the zeroed-cache path */
	"2015-07-01T12:00:00",		/* a third zone range */
	"foo",				/* unparsable */
	"",				/* empty */
	"2012-03-01 2012-04-01T01:02:03",	/* two dates in one value */
	X235 " 2012-12-31T00:00:00",	/* 255 bytes */
	"12:34:56",			/* time only: the base singleton */
};
/* dzone takes every argument that is not a date/time for a zone name and falls back to
 * `now' when no date/time is left, so only parsable values are independent inputs there */
static const char *const A_DZ[NALPHA] = {
	"2012-03-31",
	"2012-02-29T23:59:59",
	"2012-03-01T24:00:00",
	"1965-07-01T12:00:00",
	"2015-07-01T12:00:00",
	"12:34:56",
	"2012-10-28T00:59:59",		/* one second before a transition of Europe/Berlin */
	"2012-10-28T01:00:00",		/* at it */
	"1800-01-01T00:00:00",		/* before the first transition of every zone used */
	"2040-01-01T00:00:00",		/* after the last */
};
/* dates for arithmetic */
static const char *const A_DATE[NALPHA] = {
	"2012-01-31",			/* needs ultimo clamping with +1mo */
	"2012-02-29",
	"2012-03-31T12:00:00",
	"2012-12-31T23:59:59",
	"1965-07-01T12:00:00",
	"foo",
	"",
	"2012-03-01 2012-04-01",
	X235 " 2012-12-31T00:00:00",
	"12:34:56",
};
/* dates in another input format */
static const char *const A_DMY[NALPHA] = {
	"31/03/2012", "29/02/2012", "01/13/2012", "1/3/2012", "01/07/1965", "foo", "", "31/03/2012 01/04/2012", X235 " 31/12/2012", "31/03/12",
};
/* durations, one per line, as `dadd DATE' reads them */
static const char *const A_DUR[NALPHA] = {
	"+1d", "-1d", "=1d", "/1d", ">", "1mo2d", "+1d -2h", "xyz", "", "1dx",
};

enum { M_ARGS = 1, M_STDIN = 2 };

struct inv_s {
	const char *label;
	const char *argv[8];		/* after argv[0], NULL-terminated */
	int modes;
	const char *const *alpha;
};

static const struct inv_s invs[] = {
#if defined C13_TOOL_dconv
	{"plain", {NULL}, M_ARGS | M_STDIN, A_DT},
	{"-q", {"-q", NULL}, M_ARGS | M_STDIN, A_DT},
	{"-f-names", {"-f", "%a %b %d %Y %H:%M:%S", NULL}, M_ARGS | M_STDIN, A_DT},
	{"-f-ywd", {"-f", "%G-W%V-%u", NULL}, M_ARGS | M_STDIN, A_DT},
	{"-f-bizda", {"-f", "%Y-%m-%db", NULL}, M_ARGS | M_STDIN, A_DT},
	{"-i-dmy", {"-i", "%d/%m/%Y", NULL}, M_ARGS | M_STDIN, A_DMY},
	{"-i-dmy-E", {"-i", "%d/%m/%Y", "-E", NULL}, M_STDIN, A_DMY},
	{"--base", {"--base", "2012-06-15", "-f", "%F %T", NULL}, M_ARGS | M_STDIN, A_DT},
	{"-S", {"-S", NULL}, M_STDIN, A_DT},
	{"-S-f", {"-S", "-f", "<%A %F>", NULL}, M_STDIN, A_DT},
	{"--zone-NY", {"--zone", "America/New_York", NULL}, M_ARGS | M_STDIN, A_DT},
	{"--zone-Kolkata-S", {"-S", "--zone", "Asia/Kolkata", NULL}, M_STDIN, A_DT},
	{"--from-zone-Berlin", {"--from-zone", "Europe/Berlin", NULL}, M_ARGS | M_STDIN, A_DT},
	{"--from-zone-NY--zone-Berlin", {"--from-zone", "America/New_York", "--zone", "Europe/Berlin", "-f", "%FT%T%Z", NULL}, M_ARGS | M_STDIN, A_DT},
#elif defined C13_TOOL_dadd
	{"+1d", {"+1d", NULL}, M_STDIN, A_DATE},
	{"+1mo", {"+1mo", NULL}, M_STDIN, A_DATE},
	{"-1y", {"--", "-1y", NULL}, M_STDIN, A_DATE},
	{"+3b", {"+3b", NULL}, M_STDIN, A_DATE},
	{"+36h", {"+36h", NULL}, M_STDIN, A_DATE},
	{"-S+1d", {"-S", "+1d", NULL}, M_STDIN, A_DATE},
	{"-q+1mo", {"-q", "+1mo", NULL}, M_STDIN, A_DATE},
	{"--zone-Berlin+6h", {"--zone", "Europe/Berlin", "+6h", NULL}, M_STDIN, A_DATE},
	{"--from-zone-NY+1d", {"--from-zone", "America/New_York", "+1d", NULL}, M_STDIN, A_DATE},
	{"-i-dmy+1mo", {"-i", "%d/%m/%Y", "+1mo", NULL}, M_STDIN, A_DMY},
	{"durs:date", {"2012-01-31", NULL}, M_STDIN, A_DUR},
	{"durs:datetime", {"2012-03-31T12:00:00", NULL}, M_STDIN, A_DUR},
	{"durs:date-f", {"-f", "%a %F", "2012-02-29", NULL}, M_STDIN, A_DUR},
#elif defined C13_TOOL_dround
	{"Sat", {"Sat", NULL}, M_STDIN, A_DATE},
	{"-n-Mon", {"-n", "Mon", NULL}, M_STDIN, A_DATE},
	{"+1mo", {"+1mo", NULL}, M_STDIN, A_DATE},
	{"Feb", {"Feb", NULL}, M_STDIN, A_DATE},
	{"/15m", {"/15m", NULL}, M_STDIN, A_DATE},
	{"-31d", {"--", "-31d", NULL}, M_STDIN, A_DATE},
	{"-S-Sat", {"-S", "Sat", NULL}, M_STDIN, A_DATE},
	{"--zone-Berlin-/1h", {"--zone", "Europe/Berlin", "/1h", NULL}, M_STDIN, A_DATE},
#elif defined C13_TOOL_ddiff
	{"ref-date", {"2012-03-01", NULL}, M_ARGS | M_STDIN, A_DATE},
	{"ref-datetime", {"2012-03-01T12:00:00", NULL}, M_ARGS | M_STDIN, A_DATE},
	{"-f-mo-d", {"-f", "%m mo %d d", "2012-01-31", NULL}, M_ARGS | M_STDIN, A_DATE},
	{"-f-H", {"-f", "%H:%M:%S", "2012-03-01T00:00:00", NULL}, M_ARGS | M_STDIN, A_DATE},
	{"--from-zone-NY", {"--from-zone", "America/New_York", "2012-03-01T12:00:00", NULL}, M_ARGS | M_STDIN, A_DATE},
	{"-i-dmy", {"-i", "%d/%m/%Y", "01/03/2012", NULL}, M_ARGS | M_STDIN, A_DMY},
#elif defined C13_TOOL_dgrep
	{">=date", {">=2012-03-01", NULL}, M_STDIN, A_DATE},
	{"<date", {"<2012-03-01", NULL}, M_STDIN, A_DATE},
	{"-o>=date", {"-o", ">=2012-03-01", NULL}, M_STDIN, A_DATE},
	{"-v=date", {"-v", "=2012-02-29", NULL}, M_STDIN, A_DATE},
	{"<>datetime", {"<>2012-03-31T12:00:00", NULL}, M_STDIN, A_DATE},
	{"-i-dmy", {"-i", "%d/%m/%Y", ">=2012-03-01", NULL}, M_STDIN, A_DMY},
	{"--from-zone-NY", {"--from-zone", "America/New_York", ">=2012-03-31T16:00:00", NULL}, M_STDIN, A_DATE},
#elif defined C13_TOOL_dzone
	{"Berlin", {"Europe/Berlin", NULL}, M_ARGS, A_DZ},
	{"NY+Kolkata", {"America/New_York", "Asia/Kolkata", NULL}, M_ARGS, A_DZ},
	{"--next-Berlin", {"--next", "Europe/Berlin", NULL}, M_ARGS, A_DZ},
	{"--prev-NY", {"--prev", "America/New_York", NULL}, M_ARGS, A_DZ},
	{"--next--prev-Berlin+NY", {"--next", "--prev", "Europe/Berlin", "America/New_York", NULL}, M_ARGS, A_DZ},
	{"--from-zone-NY-Berlin", {"--from-zone", "America/New_York", "Europe/Berlin", NULL}, M_ARGS, A_DZ},
#endif
};
#define NINV	((int)(sizeof(invs) / sizeof(*invs)))

static const char *const run_env[] = {"LC_ALL=C", "PATH=/usr/bin:/bin", NULL};
#define FAKE_NOW	1330000000LL	/* 2012-02-23T12:26:40Z */

struct out_s {
	char *out;
	size_t len;
	int ended;	/* 0 exit, 1 timeout, 2 signal, 3 cap */
	int status;
};

static void
run(const struct inv_s *iv, int mode, const int *seq, int n, struct out_s *o, int timeout_s)
{
	const char *argv[32];
	int argc = 0;
	struct fs_opts fo;
	struct fs_result r;
	char inbuf[4 * 300];
	size_t inlen = 0;
	EX_CTR(c_eval, "evaluations");

	argv[argc++] = C13_TOOL;
	for (int i = 0; iv->argv[i]; i++) {
		argv[argc++] = iv->argv[i];
	}
	memset(&fo, 0, sizeof(fo));
	if (mode == M_ARGS) {
		for (int i = 0; i < n; i++) {
			argv[argc++] = iv->alpha[seq[i]];
		}
	} else {
		for (int i = 0; i < n; i++) {
			size_t l = strlen(iv->alpha[seq[i]]);
			memcpy(inbuf + inlen, iv->alpha[seq[i]], l);
			inlen += l;
			inbuf[inlen++] = '\n';
		}
		fo.stdin_data = inbuf;
		fo.stdin_len = inlen;
	}
	fo.now = FAKE_NOW;
	fo.env = run_env;
	fo.timeout_s = timeout_s;
	fo.out_cap = 1U << 16;
	fs_run(c13_tool_main, argc, argv, &fo, &r);
	++*c_eval;
	o->out = r.out;
	o->len = r.outlen;
	o->ended = r.timed_out ? 1 : r.capped ? 3 : r.signaled ? 2 : 0;
	o->status = r.signaled ? r.sig : r.status;
	free(r.err);
}

static void
cmd_text(const struct inv_s *iv, int mode, const int *seq, int n, char *buf, size_t bsz)
{
	size_t k = 0;
	if (mode == M_STDIN) {
		k += (size_t)snprintf(buf + k, bsz - k, "printf '");
		for (int i = 0; i < n && k < bsz; i++) {
			const char *v = iv->alpha[seq[i]];
			k += (size_t)snprintf(buf + k, bsz - k, "%s\\n", strlen(v) > 200 ? "<235 x> 2012-12-31T00:00:00" : v);
		}
		if (k < bsz) {
			k += (size_t)snprintf(buf + k, bsz - k, "' | ");
		}
	}
	if (k < bsz) {
		k += (size_t)snprintf(buf + k, bsz - k, "%s", C13_TOOL);
	}
	for (int i = 0; iv->argv[i] && k < bsz; i++) {
		k += (size_t)snprintf(buf + k, bsz - k, " '%s'", iv->argv[i]);
	}
	if (mode == M_ARGS) {
		for (int i = 0; i < n && k < bsz; i++) {
			const char *v = iv->alpha[seq[i]];
			k += (size_t)snprintf(buf + k, bsz - k, " '%s'", strlen(v) > 200 ? "<235 x> 2012-12-31T00:00:00" : v);
		}
	}
}

static void
printable(const char *s, size_t len, char *buf, size_t bsz)
{
	size_t k = 0;
	for (size_t i = 0; i < len && k + 6 < bsz; i++) {
		unsigned char c = (unsigned char)s[i];
		if (c == '\n') {
			buf[k++] = '\\';
			buf[k++] = 'n';
		} else if (c == '\t') {
			buf[k++] = '\\';
			buf[k++] = 't';
		} else if (c < 0x20 || c >= 0x7f) {
			k += (size_t)snprintf(buf + k, bsz - k, "\\x%02x", c);
		} else {
			buf[k++] = (char)c;
		}
		if (k > 300) {
			k += (size_t)snprintf(buf + k, bsz - k, "...");
			break;
		}
	}
	buf[k] = '\0';
}

/* single-value outputs of the invocation in flight */
static struct out_s single[NALPHA];

static int
judge(int ii, int mode, const int *seq, int n, int replay)
{
	const struct inv_s *iv = invs + ii;
	struct out_s o;
	char key[256], cas[64], cmd[1024], exp[1400], a[700], b[700];
	size_t elen = 0, pos, acc;
	int el, bad = 0, ord = 0;
	EX_CTR(c_trans, "transitions");
	EX_CTR(c_nontriv, "nontrivial");
	EX_CTR(c_skip, "skipped:sequence containing a value whose single run does not end normally (the single run is reported)");

	for (int i = 0; i < n; i++) {
		ord = ord * (NALPHA + 1) + seq[i] + 1;
		if (single[seq[i]].ended) {
			++*c_skip;
			return 0;
		}
	}
	run(iv, mode, seq, n, &o, 10);
	if (o.ended == 1) {
		/* once more, alone, with a longer limit */
		free(o.out);
		run(iv, mode, seq, n, &o, 40);
	}
	++*c_trans;
	{
		/* members touch different static paths: not all the same value */
		int diff = 0;
		for (int i = 1; i < n; i++) {
			diff |= seq[i] != seq[0];
		}
		*c_nontriv += (uint64_t)diff;
	}
	snprintf(cas, sizeof(cas), "%d %d %d %d %d %d %d", ii, mode, n, seq[0], n > 1 ? seq[1] : -1, n > 2 ? seq[2] : -1, n > 3 ? seq[3] : -1);
	cmd_text(iv, mode, seq, n, cmd, sizeof(cmd));
	ex_outcome(ex_hash_mix(ex_hash(o.out, o.len), (uint64_t)ii));
	if (o.ended) {
		snprintf(key, sizeof(key), "tools %s inv=%s mode=%s %s", C13_TOOL, iv->label, mode == M_ARGS ? "args" : "stdin",
			 o.ended == 1 ? "does-not-terminate" : o.ended == 2 ? "dies-of-a-signal" : "output-cap");
		ex_viol(key, ord, cas, cmd, "the run on the sequence %s (signal/status %d) although each single-value run ends normally",
			o.ended == 1 ? "does not terminate within 40 s" : o.ended == 2 ? "dies of a signal" : "overruns the output cap", o.status);
		if (replay) {
			printf("  FAIL [%s] %s\n", key, cmd);
		}
		free(o.out);
		return 1;
	}
	/* expected: the concatenation */
	for (int i = 0; i < n; i++) {
		const struct out_s *s = single + seq[i];
		if (elen + s->len < sizeof(exp)) {
			memcpy(exp + elen, s->out, s->len);
		}
		elen += s->len;
	}
	if (elen >= sizeof(exp)) {
		free(o.out);
		return 0;
	}
	if (o.len != elen || memcmp(o.out, exp, elen)) {
		/* which member's output is the first to differ */
		for (pos = 0; pos < o.len && pos < elen && o.out[pos] == exp[pos]; pos++) {
			;
		}
		for (el = 0, acc = 0; el < n - 1 && pos >= acc + single[seq[el]].len; el++) {
			acc += single[seq[el]].len;
		}
		snprintf(key, sizeof(key), "tools %s inv=%s mode=%s output-differs value#%d", C13_TOOL, iv->label,
			 mode == M_ARGS ? "args" : "stdin", seq[el]);
		printable(o.out, o.len, a, sizeof(a));
		printable(exp, elen, b, sizeof(b));
		ex_viol(key, ord, cas, cmd, "sequence run prints '%s'; the single-value runs concatenated print '%s'", a, b);
		if (replay) {
			printf("  FAIL [%s]\n  %s\n  sequence run: '%s'\n  single runs:  '%s'\n", key, cmd, a, b);
		}
		bad = 1;
	} else if (replay) {
		printable(o.out, o.len, a, sizeof(a));
		printf("  ok %s\n  prints '%s' = concatenation of the single-value runs\n", cmd, a);
	}
	free(o.out);
	return bad;
}

static void
do_singles(int ii, int mode)
{
	for (int v = 0; v < NALPHA; v++) {
		free(single[v].out);
		run(invs + ii, mode, &v, 1, single + v, 10);
		if (single[v].ended) {
			char key[256], cas[64], cmd[1024];
			snprintf(key, sizeof(key), "tools %s inv=%s mode=%s single-run-%s value#%d", C13_TOOL, invs[ii].label, mode == M_ARGS ? "args" : "stdin",
				 single[v].ended == 1 ? "does-not-terminate" : single[v].ended == 2 ? "dies-of-a-signal" : "output-cap", v);
			snprintf(cas, sizeof(cas), "%d %d 1 %d -1 -1 -1", ii, mode, v);
			cmd_text(invs + ii, mode, &v, 1, cmd, sizeof(cmd));
			/* not a history dependence: noted so that nothing is hidden, under its own key */
			ex_viol(key, v, cas, cmd, "the run on this single value %s (signal/status %d); sequences containing it are not judged",
				single[v].ended == 1 ? "does not terminate" : single[v].ended == 2 ? "dies of a signal" : "overruns the output cap", single[v].status);
		}
	}
}

int
main(int argc, char *argv[])
{
	EX_CTR(c_states, "states");
	EX_CTR(c_traces, "traces");
	int maxlen;

	ex_init(argc, argv);
	maxlen = ex.thorough ? 4 : 3;

	if (ex.cas) {
		int ii, mode, n, seq[4], bad;
		if (sscanf(ex.cas, "%d %d %d %d %d %d %d", &ii, &mode, &n, seq, seq + 1, seq + 2, seq + 3) != 7 || ii < 0 || ii >= NINV || n < 1 || n > 4) {
			return ex_replay_result(1, "bad case '%s'", ex.cas);
		}
		do_singles(ii, mode);
		if (n == 1) {
			return ex_replay_result(single[seq[0]].ended != 0, "single run");
		}
		bad = judge(ii, mode, seq, n, 1);
		return ex_replay_result(bad, "%s", ex.cas);
	}

	ex_meta("rule", "%s: %d invocations (tool + options) x modes {values as arguments, values as stdin lines} as the invocation admits x ALL sequences up to length %d over a "
		"10-value alphabet (ultimo, 24:00:00, instants in three zone ranges incl. before 1970, unparsable, empty, two dates in one value, a 255-byte value, time only / "
		"duration lines +1d -1d =1d /1d > 1mo2d '+1d -2h' xyz '' 1dx); the tool's main() runs in a forked child from a pristine image (fixed clock 2012-02-23, cleared "
		"environment); oracle: stdout of the sequence run == concatenation of the stdouts of the single-value runs; a sequence run that does not terminate or dies is a "
		"violation too; stderr and exit status are not compared. non-trivial = sequences whose members are not all the same value", C13_TOOL, NINV, maxlen);
	ex_meta("bound", "%s: sequences up to length %d (%d per invocation and mode)", ex.thorough ? "thorough" : "quick", maxlen, ex.thorough ? 11110 : 1110);

	/* slice = (invocation, mode, first value) */
	for (int ii = 0; ii < NINV && !ex_expired(); ii++) {
		for (int mode = M_ARGS; mode <= M_STDIN; mode++) {
			int have_singles = 0;
			if (!(invs[ii].modes & mode)) {
				continue;
			}
			for (int v0 = 0; v0 < NALPHA && !ex_expired(); v0++) {
				int seq[4];
				if (!ex_mine((uint64_t)((ii * 2 + (mode - 1)) * NALPHA + v0))) {
					continue;
				}
				if (!have_singles) {
					do_singles(ii, mode);
					have_singles = 1;
				}
				seq[0] = v0;
				++*c_states;
				for (int v1 = 0; v1 < NALPHA && !ex_expired(); v1++) {
					seq[1] = v1;
					judge(ii, mode, seq, 2, 0);
					++*c_traces;
					if (maxlen < 3) {
						continue;
					}
					for (int v2 = 0; v2 < NALPHA; v2++) {
						seq[2] = v2;
						judge(ii, mode, seq, 3, 0);
						++*c_traces;
						if (maxlen < 4) {
							continue;
						}
						for (int v3 = 0; v3 < NALPHA; v3++) {
							seq[3] = v3;
							judge(ii, mode, seq, 4, 0);
							++*c_traces;
						}
					}
				}
				if (ex_want_sample()) {
					char cmd[1024];
					int s3[3] = {v0, 3, 4};
					cmd_text(invs + ii, mode, s3, 3, cmd, sizeof(cmd));
					ex_sample("%s  (and all other sequences starting with value #%d)", cmd, v0);
				}
			}
		}
	}
	return ex_finish();
}
