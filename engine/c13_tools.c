/* c13_tools.c -- C13 (d): a run on N arguments or lines prints exactly the
 * concatenation of N single-value runs.
 *
 * One source, compiled once per tool (-DC13_TOOL_dconv ... see C13.check.json).  The
 * tool's own main() is included into this TU and run in a forked child (forksrv.h:
 * argv in exact-size heap blocks, scripted stdin, fixed clock, cleared environment),
 * so every run starts from a pristine process image and all of the tool's hidden
 * state (zone caches, base singleton, strops table, static output buffer, needle
 * state, alists of opened zones) is the real one.
 *
 * Per invocation of a fixed list (tool + options), an input alphabet of 10 values
 * chosen for the shortcuts in the code (ultimo clamping, 24:00:00, instants in
 * different zone ranges incl. before 1970, unparsable, empty, two dates in a line, a
 * 255-byte line, time only); ALL sequences over the alphabet up to length 3 (thorough:
 * 4), as arguments and/or as stdin lines, as the invocation admits.
 * Oracle (differential): stdout(sequence) == concatenation of stdout(single value);
 * a sequence run that does not terminate or dies although the single runs do is a
 * violation as well.  stderr and the exit status are not compared. */
#if defined HAVE_CONFIG_H
# include "config.h"
#endif

#if defined C13_TOOL_dconv
# define C13_TOOL "dconv"
# define main c13_tool_main
# include "dconv.c"
# undef main
#elif defined C13_TOOL_dadd
# define C13_TOOL "dadd"
# define main c13_tool_main
# include "dadd.c"
# undef main
#elif defined C13_TOOL_dround
# define C13_TOOL "dround"
# define main c13_tool_main
# include "dround.c"
# undef main
#elif defined C13_TOOL_ddiff
# define C13_TOOL "ddiff"
# define main c13_tool_main
# include "ddiff.c"
# undef main
#elif defined C13_TOOL_dgrep
# define C13_TOOL "dgrep"
# define main c13_tool_main
# include "dgrep.c"
# undef main
#elif defined C13_TOOL_dzone
# define C13_TOOL "dzone"
# define main c13_tool_main
# include "dzone.c"
# undef main
#elif defined C13_TOOL_dtest
# define C13_TOOL "dtest"
# define main c13_tool_main
# include "dtest.c"
# undef main
#else
# error "compile with -DC13_TOOL_<tool>"
#endif

#include "impl.h"
#include "explore.h"
#include "forksrv.h"

#define X235	"xxxxxxxxxxxxxxxxxxxxxxxxxxxxxxxxxxxxxxxxxxxxxxxxxxxxxxxxxxxxxxxxxxxxxxxxxxxxxxxxxxxxxxxxxxxxxxxxxxxxxxxxxxxxxxxxxxxxxxxxxxxxxxxxxxxxxxxxxxxxxxxxxxxxxxxxxxxxxxxxxxxxxxxxxxxxxxxxxxxxxxxxxxxxxxxxxxxxxxxxxxxxxxxxxxxxxxxxxxxxxxxxxxxxxxxxxxx"

#define NALPHA	10
/* date-times as dconv/dzone/ddiff take them */
static const char *const A_DT[NALPHA] = {
	"2012-03-31",			/* date only, an ultimo */
	"2012-02-29T23:59:59",
	"2012-03-01T24:00:00",		/* 24:00:00 rolls into the next day */
	"1965-07-01T12:00:00",		/* before 1970: another zone range, the zeroed-cache path */
	"2015-07-01T12:00:00",		/* a third zone range */
	"foo",				/* unparsable */
	"",				/* empty */
	"2012-03-01 2012-04-01T01:02:03",	/* two dates in one value */
	X235 " 2012-12-31T00:00:00",	/* 255 bytes */
	"12:34:56",			/* time only: the base singleton */
};
/* dzone takes every argument that is not a date/time for a zone name and falls back to
 * `now' when no date/time is left, so only parsable values are independent inputs there */
static const char *const A_DZ[NALPHA] = {
	"2012-03-31",
	"2012-02-29T23:59:59",
	"2012-03-01T24:00:00",
	"1965-07-01T12:00:00",
	"2015-07-01T12:00:00",
	"12:34:56",
	"2012-10-28T00:59:59",		/* one second before a transition of Europe/Berlin */
	"2012-10-28T01:00:00",		/* at it */
	"1800-01-01T00:00:00",		/* before the first transition of every zone used */
	"2040-01-01T00:00:00",		/* after the last */
};
/* dates for arithmetic */
static const char *const A_DATE[NALPHA] = {
	"2012-01-31",			/* needs ultimo clamping with +1mo */
	"2012-02-29",
	"2012-03-31T12:00:00",
	"2012-12-31T23:59:59",
	"1965-07-01T12:00:00",
	"foo",
	"",
	"2012-03-01 2012-04-01",
	X235 " 2012-12-31T00:00:00",
	"12:34:56",
};
/* dates in another input format */
static const char *const A_DMY[NALPHA] = {
	"31/03/2012", "29/02/2012", "01/13/2012", "1/3/2012", "01/07/1965", "foo", "", "31/03/2012 01/04/2012", X235 " 31/12/2012", "31/03/12",
};
/* durations, one per line, as `dadd DATE' reads them */
static const char *const A_DUR[NALPHA] = {
	"+1d", "-1d", "=1d", "/1d", ">", "1mo2d", "+1d -2h", "xyz", "", "1dx",
};

/* separator-less, digits-only input formats (the needle-less digit scanner of the line reader) */
static const char *const A_YMD8[NALPHA] = {
	"20120331", "20120229", "20120301", "19650701", "20150701", "foo", "", "20120301 20120401", X235 " 20121231", "2012033",
};
static const char *const A_EPOCH[NALPHA] = {
	"1333152000", "1330559999", "0", "86399", "1435752000", "foo", "", "1330560000 1333152000", X235 " 1356912000", "12",
};
static const char *const A_YJ[NALPHA] = {
	"2012091", "2012060", "2012366", "1965182", "2015182", "foo", "", "2012061 2012092", X235 " 2012366", "201209",
};
static const char *const A_HMS6[NALPHA] = {
	"123456", "000000", "235959", "240000", "120000", "foo", "", "010203 040506", X235 " 235959", "12345",
};

/* date-only, date-time and time-only operands mixed (ddiff formats that mix day and time units) */
static const char *const A_MIX[NALPHA] = {
	"2000-01-05", "2000-01-02T12:30:15", "2000-01-01", "1999-12-31T23:59:59", "2000-03-01T00:00:01", "2000-02-29", "12:30:15", "foo", "", "2001-01-01T06:00:00",
};
/* other calendars: texts that share the month / week / day-of-year / business-day number but
 * differ in the year, in non-chronological order */
static const char *const A_YMCW[NALPHA] = {
	"2022-03-01-01", "2021-03-01-01", "2020-03-05-07", "2022-03-05-02", "2019-02-04-05", "2022-02-01-01", "foo", "", "2020-12-05-04", "2021-03-04-03",
};
static const char *const A_YWD[NALPHA] = {
	"2020-W53-4", "2015-W53-1", "2012-W10-5", "2021-W52-7", "2009-W53-5", "2012-W01-1", "foo", "", "2011-W52-7", "2013-W10-5",
};
static const char *const A_YD[NALPHA] = {
	"2012-060", "2011-060", "2012-366", "2013-365", "2011-001", "2012-001", "foo", "", "2010-060", "2012-061",
};
static const char *const A_BIZDA[NALPHA] = {
	"2012-03-01b", "2011-03-01b", "2012-03-22b", "2012-02-21b", "2010-03-23b", "2012-12-21b", "foo", "", "2011-02-20b", "2012-03-02b",
};
/* two input formats that overlap: values only the first reads, only the second reads, ambiguous ones */
static const char *const A_DMY_MDY[NALPHA] = {
	"13/02/2012", "02/13/2012", "03/02/2012", "01/01/2012", "31/12/2011", "12/31/2011", "foo", "", "05/06/2012", "29/02/2012",
};
static const char *const A_YMD_YDM[NALPHA] = {
	"20120213", "20121302", "20120302", "20120101", "20121231", "20123112", "foo", "", "20120506", "20120229",
};
static const char *const A_HM_MS[NALPHA] = {
	"12:30", "45:30", "23:59", "59:59", "00:00", "24:00", "foo", "", "07:08", "30:45",
};

/* instants around leap-second table entries, later ones first (TAI and GPS look the table up) */
static const char *const A_LEAP[NALPHA] = {
	"2017-06-01T00:00:00", "2016-12-31T23:59:59", "2017-01-01T00:00:00", "2012-06-30T23:59:59", "2012-07-01T00:00:01", "1980-01-06T00:00:00",
	"foo", "", "1972-06-30T23:59:59", "2040-01-01T00:00:00",
};
#define K_MIXED	"mixed-operands"
#define K_CAL	"calendar-history"
#define K_MFMT	"multi-format"

enum { M_ARGS = 1, M_STDIN = 2 };

struct inv_s {
	const char *label;
	const char *argv[8];		/* after argv[0], NULL-terminated */
	int modes;
	const char *const *alpha;
	const char *kind;		/* part of the class key, NULL for the basic list */
};

static const struct inv_s invs[] = {
#if defined C13_TOOL_dconv
	{"plain", {NULL}, M_ARGS | M_STDIN, A_DT},
	{"-q", {"-q", NULL}, M_ARGS | M_STDIN, A_DT},
	{"-f-names", {"-f", "%a %b %d %Y %H:%M:%S", NULL}, M_ARGS | M_STDIN, A_DT},
	{"-f-ywd", {"-f", "%G-W%V-%u", NULL}, M_ARGS | M_STDIN, A_DT},
	{"-f-bizda", {"-f", "%Y-%m-%db", NULL}, M_ARGS | M_STDIN, A_DT},
	{"-i-dmy", {"-i", "%d/%m/%Y", NULL}, M_ARGS | M_STDIN, A_DMY},
	{"-i-dmy-E", {"-i", "%d/%m/%Y", "-E", NULL}, M_STDIN, A_DMY},
	{"--base", {"--base", "2012-06-15", "-f", "%F %T", NULL}, M_ARGS | M_STDIN, A_DT},
	{"-S", {"-S", NULL}, M_STDIN, A_DT},
	{"-S-f", {"-S", "-f", "<%A %F>", NULL}, M_STDIN, A_DT},
	{"--zone-NY", {"--zone", "America/New_York", NULL}, M_ARGS | M_STDIN, A_DT},
	{"--zone-Kolkata-S", {"-S", "--zone", "Asia/Kolkata", NULL}, M_STDIN, A_DT},
	{"--from-zone-Berlin", {"--from-zone", "Europe/Berlin", NULL}, M_ARGS | M_STDIN, A_DT},
	{"--from-zone-NY--zone-Berlin", {"--from-zone", "America/New_York", "--zone", "Europe/Berlin", "-f", "%FT%T%Z", NULL}, M_ARGS | M_STDIN, A_DT},
	{"-i-ymd8", {"-i", "%Y%m%d", NULL}, M_ARGS | M_STDIN, A_YMD8},
	{"-i-ymd8-S", {"-i", "%Y%m%d", "-S", NULL}, M_STDIN, A_YMD8},
	{"-i-epoch", {"-i", "%s", NULL}, M_ARGS | M_STDIN, A_EPOCH},
	{"-i-epoch-S", {"-i", "%s", "-S", NULL}, M_STDIN, A_EPOCH},
	{"-i-yj", {"-i", "%Y%j", NULL}, M_ARGS | M_STDIN, A_YJ},
	{"-i-yj-S", {"-i", "%Y%j", "-S", NULL}, M_STDIN, A_YJ},
	{"-i-hms6", {"-i", "%H%M%S", NULL}, M_ARGS | M_STDIN, A_HMS6},
	{"-i-hms6-S", {"-i", "%H%M%S", "-S", NULL}, M_STDIN, A_HMS6},
	{"ymcw", {"-f", "%F %a", NULL}, M_ARGS | M_STDIN, A_YMCW, K_CAL},
	{"ymcw-f-ymcw", {"-f", "ymcw", NULL}, M_ARGS | M_STDIN, A_YMCW, K_CAL},
	{"ywd", {"-f", "%F %a", NULL}, M_ARGS | M_STDIN, A_YWD, K_CAL},
	{"yd-f-ywd", {"-f", "ywd", NULL}, M_ARGS | M_STDIN, A_YD, K_CAL},
	{"bizda", {"-f", "%F", NULL}, M_ARGS | M_STDIN, A_BIZDA, K_CAL},
	{"-i-dmy-i-mdy", {"-i", "%d/%m/%Y", "-i", "%m/%d/%Y", NULL}, M_ARGS | M_STDIN, A_DMY_MDY, K_MFMT},
	{"-E-i-dmy-i-mdy", {"-E", "-i", "%d/%m/%Y", "-i", "%m/%d/%Y", NULL}, M_STDIN, A_DMY_MDY, K_MFMT},
	{"-E-i-ymd-i-ydm", {"-E", "-i", "%Y%m%d", "-i", "%Y%d%m", NULL}, M_STDIN, A_YMD_YDM, K_MFMT},
	{"-E-i-hm-i-ms", {"-E", "-i", "%H:%M", "-i", "%M:%S", NULL}, M_STDIN, A_HM_MS, K_MFMT},
	{"-i-mdy-i-dmy-S", {"-i", "%m/%d/%Y", "-i", "%d/%m/%Y", "-S", NULL}, M_STDIN, A_DMY_MDY, K_MFMT},
	{"-i-ymd-i-ydm", {"-i", "%Y%m%d", "-i", "%Y%d%m", NULL}, M_ARGS | M_STDIN, A_YMD_YDM, K_MFMT},
	{"-i-hm-i-ms", {"-i", "%H:%M", "-i", "%M:%S", NULL}, M_ARGS | M_STDIN, A_HM_MS, K_MFMT},
	{"--zone-TAI", {"--zone", "TAI", NULL}, M_ARGS | M_STDIN, A_LEAP, "virtual-zone"},
	{"--zone-GPS", {"--zone", "GPS", NULL}, M_ARGS | M_STDIN, A_LEAP, "virtual-zone"},
	{"--from-zone-TAI", {"--from-zone", "TAI", NULL}, M_ARGS | M_STDIN, A_LEAP, "virtual-zone"},
	{"--from-zone-GPS--zone-TAI", {"--from-zone", "GPS", "--zone", "TAI", NULL}, M_ARGS | M_STDIN, A_LEAP, "virtual-zone"},
#elif defined C13_TOOL_dadd
	{"--zone-TAI+1s", {"--zone", "TAI", "+1s", NULL}, M_STDIN, A_LEAP, "virtual-zone"},
	{"ymcw+1d", {"+1d", NULL}, M_STDIN, A_YMCW, K_CAL},
	{"ymcw+1d-53w-1d", {"--", "+1d", "-53w", "-1d", NULL}, M_STDIN, A_YMCW, K_CAL},
	{"ymcw+1mo", {"+1mo", NULL}, M_STDIN, A_YMCW, K_CAL},
	{"ymcw-1w", {"--", "-1w", NULL}, M_STDIN, A_YMCW, K_CAL},
	{"ywd+1w", {"+1w", NULL}, M_STDIN, A_YWD, K_CAL},
	{"ywd+1d", {"+1d", NULL}, M_STDIN, A_YWD, K_CAL},
	{"ywd+1mo+1mo", {"+1mo", "+1mo", NULL}, M_STDIN, A_YWD, K_CAL},
	{"yd+1d", {"+1d", NULL}, M_STDIN, A_YD, K_CAL},
	{"yd+1mo", {"+1mo", NULL}, M_STDIN, A_YD, K_CAL},
	{"bizda+1b", {"+1b", NULL}, M_STDIN, A_BIZDA, K_CAL},
	{"bizda+1b-1b", {"--", "+1b", "-1b", NULL}, M_STDIN, A_BIZDA, K_CAL},
	{"bizda+1mo", {"+1mo", NULL}, M_STDIN, A_BIZDA, K_CAL},
	{"-i-dmy-i-mdy+1d", {"-i", "%d/%m/%Y", "-i", "%m/%d/%Y", "+1d", NULL}, M_STDIN, A_DMY_MDY, K_MFMT},
	{"-E-i-dmy-i-mdy+1d", {"-E", "-i", "%d/%m/%Y", "-i", "%m/%d/%Y", "+1d", NULL}, M_STDIN, A_DMY_MDY, K_MFMT},
	{"-E-i-ymd-i-ydm+1mo", {"-E", "-i", "%Y%m%d", "-i", "%Y%d%m", "+1mo", NULL}, M_STDIN, A_YMD_YDM, K_MFMT},
	{"-i-ymd-i-ydm+1mo", {"-i", "%Y%m%d", "-i", "%Y%d%m", "+1mo", NULL}, M_STDIN, A_YMD_YDM, K_MFMT},
	{"-i-hm-i-ms+1h", {"-i", "%H:%M", "-i", "%M:%S", "+1h", NULL}, M_STDIN, A_HM_MS, K_MFMT},
	{"-i-ymd8+1d", {"-i", "%Y%m%d", "+1d", NULL}, M_STDIN, A_YMD8},
	{"-i-ymd8-S+1mo", {"-i", "%Y%m%d", "-S", "+1mo", NULL}, M_STDIN, A_YMD8},
	{"-i-epoch+1h", {"-i", "%s", "+1h", NULL}, M_STDIN, A_EPOCH},
	{"+1d", {"+1d", NULL}, M_STDIN, A_DATE},
	{"+1mo", {"+1mo", NULL}, M_STDIN, A_DATE},
	{"-1y", {"--", "-1y", NULL}, M_STDIN, A_DATE},
	{"+3b", {"+3b", NULL}, M_STDIN, A_DATE},
	{"+36h", {"+36h", NULL}, M_STDIN, A_DATE},
	{"-S+1d", {"-S", "+1d", NULL}, M_STDIN, A_DATE},
	{"-q+1mo", {"-q", "+1mo", NULL}, M_STDIN, A_DATE},
	{"--zone-Berlin+6h", {"--zone", "Europe/Berlin", "+6h", NULL}, M_STDIN, A_DATE},
	{"--from-zone-NY+1d", {"--from-zone", "America/New_York", "+1d", NULL}, M_STDIN, A_DATE},
	{"-i-dmy+1mo", {"-i", "%d/%m/%Y", "+1mo", NULL}, M_STDIN, A_DMY},
	{"durs:date", {"2012-01-31", NULL}, M_STDIN, A_DUR},
	{"durs:datetime", {"2012-03-31T12:00:00", NULL}, M_STDIN, A_DUR},
	{"durs:date-f", {"-f", "%a %F", "2012-02-29", NULL}, M_STDIN, A_DUR},
#elif defined C13_TOOL_dround
	{"ymcw-Sat", {"Sat", NULL}, M_STDIN, A_YMCW, K_CAL},
	{"ymcw+1mo", {"+1mo", NULL}, M_STDIN, A_YMCW, K_CAL},
	{"ywd-Mar", {"Mar", NULL}, M_STDIN, A_YWD, K_CAL},
	{"yd-Sat", {"Sat", NULL}, M_STDIN, A_YD, K_CAL},
	{"bizda-+1mo", {"+1mo", NULL}, M_STDIN, A_BIZDA, K_CAL},
	{"-i-dmy-i-mdy-Sat", {"-i", "%d/%m/%Y", "-i", "%m/%d/%Y", "Sat", NULL}, M_STDIN, A_DMY_MDY, K_MFMT},
	{"-E-i-dmy-i-mdy-Mon", {"-E", "-i", "%d/%m/%Y", "-i", "%m/%d/%Y", "Mon", NULL}, M_STDIN, A_DMY_MDY, K_MFMT},
	{"-E-i-ymd-i-ydm-Mon", {"-E", "-i", "%Y%m%d", "-i", "%Y%d%m", "Mon", NULL}, M_STDIN, A_YMD_YDM, K_MFMT},
	{"-i-ymd-i-ydm-+1mo", {"-i", "%Y%m%d", "-i", "%Y%d%m", "+1mo", NULL}, M_STDIN, A_YMD_YDM, K_MFMT},
	{"-i-ymd8-Sat", {"-i", "%Y%m%d", "Sat", NULL}, M_STDIN, A_YMD8},
	{"-i-ymd8-S-+1mo", {"-i", "%Y%m%d", "-S", "+1mo", NULL}, M_STDIN, A_YMD8},
	{"Sat", {"Sat", NULL}, M_STDIN, A_DATE},
	{"-n-Mon", {"-n", "Mon", NULL}, M_STDIN, A_DATE},
	{"+1mo", {"+1mo", NULL}, M_STDIN, A_DATE},
	{"Feb", {"Feb", NULL}, M_STDIN, A_DATE},
	{"/15m", {"/15m", NULL}, M_STDIN, A_DATE},
	{"-31d", {"--", "-31d", NULL}, M_STDIN, A_DATE},
	{"-S-Sat", {"-S", "Sat", NULL}, M_STDIN, A_DATE},
	{"--zone-Berlin-/1h", {"--zone", "Europe/Berlin", "/1h", NULL}, M_STDIN, A_DATE},
#elif defined C13_TOOL_ddiff
	{"mix-d-H-M-S", {"-f", "%d %H %M %S", "2000-01-01T00:00:00", NULL}, M_ARGS | M_STDIN, A_MIX, K_MIXED},
	{"mix-dd-Ss", {"-f", "%dd %Ss", "2000-01-01T00:00:00", NULL}, M_ARGS | M_STDIN, A_MIX, K_MIXED},
	{"mix-w-d-H", {"-f", "%w %d %H", "2000-01-01T00:00:00", NULL}, M_ARGS | M_STDIN, A_MIX, K_MIXED},
	{"mix-S", {"-f", "%S", "2000-01-01T00:00:00", NULL}, M_ARGS | M_STDIN, A_MIX, K_MIXED},
	{"mix-d", {"-f", "%d", "2000-01-01T00:00:00", NULL}, M_ARGS | M_STDIN, A_MIX, K_MIXED},
	{"mix-default", {"2000-01-01T12:00:00", NULL}, M_ARGS | M_STDIN, A_MIX, K_MIXED},
	{"ymcw", {"2022-03-01-01", NULL}, M_ARGS | M_STDIN, A_YMCW, K_CAL},
	{"ywd-f-w-d", {"-f", "%w %d", "2012-W10-5", NULL}, M_ARGS | M_STDIN, A_YWD, K_CAL},
	{"yd", {"2012-060", NULL}, M_ARGS | M_STDIN, A_YD, K_CAL},
	{"bizda-f-b", {"-f", "%b", "2012-03-01b", NULL}, M_ARGS | M_STDIN, A_BIZDA, K_CAL},
	{"-i-dmy-i-mdy", {"-i", "%d/%m/%Y", "-i", "%m/%d/%Y", "01/03/2012", NULL}, M_ARGS | M_STDIN, A_DMY_MDY, K_MFMT},
	{"-i-ymd-i-ydm", {"-i", "%Y%m%d", "-i", "%Y%d%m", "20120301", NULL}, M_ARGS | M_STDIN, A_YMD_YDM, K_MFMT},
	{"-i-ymd8", {"-i", "%Y%m%d", "20120301", NULL}, M_ARGS | M_STDIN, A_YMD8},
	{"ref-date", {"2012-03-01", NULL}, M_ARGS | M_STDIN, A_DATE},
	{"ref-datetime", {"2012-03-01T12:00:00", NULL}, M_ARGS | M_STDIN, A_DATE},
	{"-f-mo-d", {"-f", "%m mo %d d", "2012-01-31", NULL}, M_ARGS | M_STDIN, A_DATE},
	{"-f-H", {"-f", "%H:%M:%S", "2012-03-01T00:00:00", NULL}, M_ARGS | M_STDIN, A_DATE},
	{"--from-zone-NY", {"--from-zone", "America/New_York", "2012-03-01T12:00:00", NULL}, M_ARGS | M_STDIN, A_DATE},
	{"-i-dmy", {"-i", "%d/%m/%Y", "01/03/2012", NULL}, M_ARGS | M_STDIN, A_DMY},
#elif defined C13_TOOL_dgrep
	{"-i-dmy-i-mdy", {"-i", "%d/%m/%Y", "-i", "%m/%d/%Y", ">=2012-02-10", NULL}, M_STDIN, A_DMY_MDY, K_MFMT},
	{"-i-ymd-i-ydm", {"-i", "%Y%m%d", "-i", "%Y%d%m", "<2012-03-01", NULL}, M_STDIN, A_YMD_YDM, K_MFMT},
	{"ymcw", {">=2021-03-01", NULL}, M_STDIN, A_YMCW, K_CAL},
	{"-i-ymd8", {"-i", "%Y%m%d", ">=2012-03-01", NULL}, M_STDIN, A_YMD8},
	{">=date", {">=2012-03-01", NULL}, M_STDIN, A_DATE},
	{"<date", {"<2012-03-01", NULL}, M_STDIN, A_DATE},
	{"-o>=date", {"-o", ">=2012-03-01", NULL}, M_STDIN, A_DATE},
	{"-v=date", {"-v", "=2012-02-29", NULL}, M_STDIN, A_DATE},
	{"<>datetime", {"<>2012-03-31T12:00:00", NULL}, M_STDIN, A_DATE},
	{"-i-dmy", {"-i", "%d/%m/%Y", ">=2012-03-01", NULL}, M_STDIN, A_DMY},
	{"--from-zone-NY", {"--from-zone", "America/New_York", ">=2012-03-31T16:00:00", NULL}, M_STDIN, A_DATE},
#elif defined C13_TOOL_dzone
	{"Berlin", {"Europe/Berlin", NULL}, M_ARGS, A_DZ},
	{"NY+Kolkata", {"America/New_York", "Asia/Kolkata", NULL}, M_ARGS, A_DZ},
	{"--next-Berlin", {"--next", "Europe/Berlin", NULL}, M_ARGS, A_DZ},
	{"--prev-NY", {"--prev", "America/New_York", NULL}, M_ARGS, A_DZ},
	{"--next--prev-Berlin+NY", {"--next", "--prev", "Europe/Berlin", "America/New_York", NULL}, M_ARGS, A_DZ},
	{"--from-zone-NY-Berlin", {"--from-zone", "America/New_York", "Europe/Berlin", NULL}, M_ARGS, A_DZ},
#elif defined C13_TOOL_dtest
	/* dtest takes exactly two values: no sequences, see multi_format_pairs() */
	{"(none)", {NULL}, 0, A_DT},
#endif
};
#define NINV	((int)(sizeof(invs) / sizeof(*invs)))

static const char *const run_env[] = {"LC_ALL=C", "PATH=/usr/bin:/bin", NULL};
#define FAKE_NOW	1330000000LL	/* 2012-02-23T12:26:40Z */

struct out_s {
	char *out;
	size_t len;
	int ended;	/* 0 exit, 1 timeout, 2 signal, 3 cap */
	int status;
};

static void
run(const struct inv_s *iv, int mode, const int *seq, int n, struct out_s *o, int timeout_s)
{
	const char *argv[32];
	int argc = 0;
	struct fs_opts fo;
	struct fs_result r;
	char inbuf[4 * 300];
	size_t inlen = 0;
	EX_CTR(c_eval, "evaluations");

	argv[argc++] = C13_TOOL;
	for (int i = 0; iv->argv[i]; i++) {
		argv[argc++] = iv->argv[i];
	}
	memset(&fo, 0, sizeof(fo));
	if (mode == M_ARGS) {
		for (int i = 0; i < n; i++) {
			argv[argc++] = iv->alpha[seq[i]];
		}
	} else {
		for (int i = 0; i < n; i++) {
			size_t l = strlen(iv->alpha[seq[i]]);
			memcpy(inbuf + inlen, iv->alpha[seq[i]], l);
			inlen += l;
			inbuf[inlen++] = '\n';
		}
		fo.stdin_data = inbuf;
		fo.stdin_len = inlen;
	}
	fo.now = FAKE_NOW;
	fo.env = run_env;
	fo.timeout_s = timeout_s;
	fo.out_cap = 1U << 16;
	fs_run(c13_tool_main, argc, argv, &fo, &r);
	++*c_eval;
	o->out = r.out;
	o->len = r.outlen;
	o->ended = r.timed_out ? 1 : r.capped ? 3 : r.signaled ? 2 : 0;
	o->status = r.signaled ? r.sig : r.status;
	free(r.err);
}

static void
cmd_text(const struct inv_s *iv, int mode, const int *seq, int n, char *buf, size_t bsz)
{
	size_t k = 0;
	if (mode == M_STDIN) {
		k += (size_t)snprintf(buf + k, bsz - k, "printf '");
		for (int i = 0; i < n && k < bsz; i++) {
			const char *v = iv->alpha[seq[i]];
			k += (size_t)snprintf(buf + k, bsz - k, "%s\\n", strlen(v) > 200 ? "<235 x> 2012-12-31T00:00:00" : v);
		}
		if (k < bsz) {
			k += (size_t)snprintf(buf + k, bsz - k, "' | ");
		}
	}
	if (k < bsz) {
		k += (size_t)snprintf(buf + k, bsz - k, "%s", C13_TOOL);
	}
	for (int i = 0; iv->argv[i] && k < bsz; i++) {
		k += (size_t)snprintf(buf + k, bsz - k, " '%s'", iv->argv[i]);
	}
	if (mode == M_ARGS) {
		for (int i = 0; i < n && k < bsz; i++) {
			const char *v = iv->alpha[seq[i]];
			k += (size_t)snprintf(buf + k, bsz - k, " '%s'", strlen(v) > 200 ? "<235 x> 2012-12-31T00:00:00" : v);
		}
	}
}

static void
printable(const char *s, size_t len, char *buf, size_t bsz)
{
	size_t k = 0;
	for (size_t i = 0; i < len && k + 6 < bsz; i++) {
		unsigned char c = (unsigned char)s[i];
		if (c == '\n') {
			buf[k++] = '\\';
			buf[k++] = 'n';
		} else if (c == '\t') {
			buf[k++] = '\\';
			buf[k++] = 't';
		} else if (c < 0x20 || c >= 0x7f) {
			k += (size_t)snprintf(buf + k, bsz - k, "\\x%02x", c);
		} else {
			buf[k++] = (char)c;
		}
		if (k > 300) {
			k += (size_t)snprintf(buf + k, bsz - k, "...");
			break;
		}
	}
	buf[k] = '\0';
}

/* single-value outputs of the invocation in flight */
static struct out_s single[NALPHA];

static int
judge(int ii, int mode, const int *seq, int n, int replay)
{
	const struct inv_s *iv = invs + ii;
	struct out_s o;
	char key[256], cas[64], cmd[1024], exp[1400], a[700], b[700];
	size_t elen = 0, pos, acc;
	int el, bad = 0, ord = 0;
	EX_CTR(c_trans, "transitions");
	EX_CTR(c_nontriv, "nontrivial");
	EX_CTR(c_skip, "skipped:sequence containing a value whose single run does not end normally (the single run is reported)");

	for (int i = 0; i < n; i++) {
		ord = ord * (NALPHA + 1) + seq[i] + 1;
		if (single[seq[i]].ended) {
			++*c_skip;
			return 0;
		}
	}
	run(iv, mode, seq, n, &o, 10);
	if (o.ended == 1) {
		/* once more, alone, with a longer limit */
		free(o.out);
		run(iv, mode, seq, n, &o, 40);
	}
	++*c_trans;
	{
		/* members touch different static paths: not all the same value */
		int diff = 0;
		for (int i = 1; i < n; i++) {
			diff |= seq[i] != seq[0];
		}
		*c_nontriv += (uint64_t)diff;
	}
	snprintf(cas, sizeof(cas), "%d %d %d %d %d %d %d", ii, mode, n, seq[0], n > 1 ? seq[1] : -1, n > 2 ? seq[2] : -1, n > 3 ? seq[3] : -1);
	cmd_text(iv, mode, seq, n, cmd, sizeof(cmd));
	ex_outcome(ex_hash_mix(ex_hash(o.out, o.len), (uint64_t)ii));
	if (o.ended) {
		snprintf(key, sizeof(key), "tools %s inv=%s mode=%s%s%s %s", C13_TOOL, iv->label, mode == M_ARGS ? "args" : "stdin",
			 iv->kind ? " kind=" : "", iv->kind ? iv->kind : "",
			 o.ended == 1 ? "does-not-terminate" : o.ended == 2 ? "dies-of-a-signal" : "output-cap");
		ex_viol(key, ord, cas, cmd, "the run on the sequence %s (signal/status %d) although each single-value run ends normally",
			o.ended == 1 ? "does not terminate within 40 s" : o.ended == 2 ? "dies of a signal" : "overruns the output cap", o.status);
		if (replay) {
			printf("  FAIL [%s] %s\n", key, cmd);
		}
		free(o.out);
		return 1;
	}
	/* expected: the concatenation */
	for (int i = 0; i < n; i++) {
		const struct out_s *s = single + seq[i];
		if (elen + s->len < sizeof(exp)) {
			memcpy(exp + elen, s->out, s->len);
		}
		elen += s->len;
	}
	if (elen >= sizeof(exp)) {
		free(o.out);
		return 0;
	}
	if (o.len != elen || memcmp(o.out, exp, elen)) {
		/* which member's output is the first to differ */
		for (pos = 0; pos < o.len && pos < elen && o.out[pos] == exp[pos]; pos++) {
			;
		}
		for (el = 0, acc = 0; el < n - 1 && pos >= acc + single[seq[el]].len; el++) {
			acc += single[seq[el]].len;
		}
		snprintf(key, sizeof(key), "tools %s inv=%s mode=%s%s%s output-differs value#%d", C13_TOOL, iv->label,
			 mode == M_ARGS ? "args" : "stdin", iv->kind ? " kind=" : "", iv->kind ? iv->kind : "", seq[el]);
		printable(o.out, o.len, a, sizeof(a));
		printable(exp, elen, b, sizeof(b));
		ex_viol(key, ord, cas, cmd, "sequence run prints '%s'; the single-value runs concatenated print '%s'", a, b);
		if (replay) {
			printf("  FAIL [%s]\n  %s\n  sequence run: '%s'\n  single runs:  '%s'\n", key, cmd, a, b);
		}
		bad = 1;
	} else if (replay) {
		printable(o.out, o.len, a, sizeof(a));
		printf("  ok %s\n  prints '%s' = concatenation of the single-value runs\n", cmd, a);
	}
	free(o.out);
	return bad;
}

/* ---- generic run: argv and stdin of any size ---- */
static void
run_raw(const char *const *argv, int argc, const char *in, size_t inlen, struct out_s *o, int timeout_s, size_t cap)
{
	struct fs_opts fo;
	struct fs_result r;
	EX_CTR(c_eval, "evaluations");

	memset(&fo, 0, sizeof(fo));
	if (in != NULL) {
		fo.stdin_data = in;
		fo.stdin_len = inlen;
	}
	fo.now = FAKE_NOW;
	fo.env = run_env;
	fo.timeout_s = timeout_s;
	fo.out_cap = cap;
	fs_run(c13_tool_main, argc, argv, &fo, &r);
	++*c_eval;
	o->out = r.out;
	o->len = r.outlen;
	o->ended = r.timed_out ? 1 : r.capped ? 3 : r.signaled ? 2 : 0;
	o->status = r.signaled ? r.sig : r.status;
	free(r.err);
}

static const char*
bucket(long pos)
{
	return pos < 128 ? "<128" : pos < 256 ? "128..255" : ">=256";
}

/* ---- long histories: N values through one process ----
 * VALS[0..NCYCLE) is repeated to N values; the output must be the concatenation of the
 * single-value outputs, and (homogeneous streams) the exit status that of the single run */
static int
judge_long(int ii, int mode, const int *vals, int ncycle, int n, int replay)
{
	const struct inv_s *iv = invs + ii;
	const char **argv = malloc(sizeof(*argv) * ((size_t)n + 16));
	char *in = NULL;
	size_t inlen = 0, pos = 0;
	int argc = 0, bad = 0;
	long firstdiff = -1;
	struct out_s o;
	char key[256], cas[64], a[700], b[700];
	EX_CTR(c_trans, "transitions");
	EX_CTR(c_long, "long_history_runs");
	EX_CTR(c_nontriv, "nontrivial");

	for (int i = 0; i < ncycle; i++) {
		if (single[vals[i]].ended) {
			free(argv);
			return 0;
		}
	}
	argv[argc++] = C13_TOOL;
	for (int i = 0; iv->argv[i]; i++) {
		argv[argc++] = iv->argv[i];
	}
	if (mode == M_ARGS) {
		for (int i = 0; i < n; i++) {
			argv[argc++] = iv->alpha[vals[i % ncycle]];
		}
	} else {
		in = malloc((size_t)n * 260 + 1);
		for (int i = 0; i < n; i++) {
			const char *v = iv->alpha[vals[i % ncycle]];
			size_t l = strlen(v);
			memcpy(in + inlen, v, l);
			inlen += l;
			in[inlen++] = '\n';
		}
	}
	run_raw(argv, argc, in, inlen, &o, 60, 8U << 20);
	++*c_trans;
	++*c_long;
	++*c_nontriv;
	snprintf(cas, sizeof(cas), "L %d %d %d %d", ii, mode, ncycle == 1 ? vals[0] : -1, n);
	ex_outcome(ex_hash_mix(ex_hash(o.out, o.len), (uint64_t)(ii * 1000 + n)));
	if (o.ended) {
		snprintf(key, sizeof(key), "tools %s inv=%s mode=%s kind=long-history %s", C13_TOOL, iv->label, mode == M_ARGS ? "args" : "stdin",
			 o.ended == 1 ? "does-not-terminate" : o.ended == 2 ? "dies-of-a-signal" : "output-cap");
		ex_viol(key, n, cas, NULL, "%d values (%s) through one run: %s (signal/status %d) although each single-value run ends normally", n,
			ncycle == 1 ? "all the same" : "cycling through the alphabet", o.ended == 1 ? "does not terminate" : o.ended == 2 ? "dies of a signal" : "overruns the output cap",
			o.status);
		bad = 1;
	} else {
		for (int i = 0; i < n; i++) {
			const struct out_s *sg = single + vals[i % ncycle];
			if (pos + sg->len > o.len || memcmp(o.out + pos, sg->out, sg->len)) {
				firstdiff = i;
				break;
			}
			pos += sg->len;
		}
		if (firstdiff < 0 && pos != o.len) {
			firstdiff = n;
		}
		if (firstdiff >= 0) {
			const struct out_s *sg = single + vals[(firstdiff < n ? firstdiff : n - 1) % ncycle];
			snprintf(key, sizeof(key), "tools %s inv=%s mode=%s kind=long-history output-differs first-diff=%s", C13_TOOL, iv->label,
				 mode == M_ARGS ? "args" : "stdin", bucket(firstdiff));
			printable(o.out + (pos < o.len ? pos : o.len), o.len - (pos < o.len ? pos : o.len) > 80 ? 80 : o.len - (pos < o.len ? pos : o.len), a, sizeof(a));
			printable(sg->out, sg->len > 80 ? 80 : sg->len, b, sizeof(b));
			ex_viol(key, firstdiff, cas, NULL, "%d values (%s, value #%d = '%.40s') through one run: output departs from the single-value outputs at value number %ld: "
				"prints '%s' where the single run prints '%s'", n, ncycle == 1 ? "all the same" : "cycling through the alphabet", vals[0], iv->alpha[vals[0]],
				firstdiff + 1, a, b);
			bad = 1;
		} else if (ncycle == 1 && o.status != single[vals[0]].status) {
			snprintf(key, sizeof(key), "tools %s inv=%s mode=%s kind=long-history status-differs", C13_TOOL, iv->label, mode == M_ARGS ? "args" : "stdin");
			ex_viol(key, n, cas, NULL, "%d times value #%d: exit status %d, the single-value run exits with %d", n, vals[0], o.status, single[vals[0]].status);
			bad = 1;
		}
	}
	if (replay) {
		printf("  %s %s inv=%s mode=%s: %d values (%s): %s\n", bad ? "FAIL" : "ok", C13_TOOL, iv->label, mode == M_ARGS ? "args" : "stdin", n,
		       ncycle == 1 ? iv->alpha[vals[0]] : "cycle", bad ? ex.viol[ex.nviol - 1].detail : "output = n x single output, status as the single run");
	}
	free(o.out);
	free(in);
	free(argv);
	return bad;
}

/* ---- zone names one of which is a prefix of another (the alist of opened zones is keyed by name) ---- */
static const char *const zn_cand[] = {"Etc/GMT", "Etc/GMT+1", "Etc/GMT+10", "Etc/GMT+5", "EST", "EST5EDT", "MST", "MST7MDT"};
#define NZNC	((int)(sizeof(zn_cand) / sizeof(*zn_cand)))
static const char *zn[NZNC];
static int nzn;
static const char *const zdates[3] = {"2012-03-01T12:00:00", "2012-07-01T12:00:00", "1999-12-31T23:30:00"};

static void
zn_init(void)
{
	nzn = 0;
	for (int i = 0; i < NZNC; i++) {
		char p[256];
		snprintf(p, sizeof(p), "/usr/share/zoneinfo/%s", zn_cand[i]);
		if (access(p, R_OK) == 0) {
			zn[nzn++] = zn_cand[i];
		}
	}
}

static void
zone_viol(const char *inv, const char *cas, const char *cmd, const struct out_s *o, const char *exp, size_t elen, long ord)
{
	char key[256], a[700], b[700];
	if (o->ended) {
		snprintf(key, sizeof(key), "tools %s inv=%s mode=args kind=prefix-zone %s", C13_TOOL, inv,
			 o->ended == 1 ? "does-not-terminate" : o->ended == 2 ? "dies-of-a-signal" : "output-cap");
		ex_viol(key, ord, cas, cmd, "run ends abnormally (signal/status %d)", o->status);
		return;
	}
	snprintf(key, sizeof(key), "tools %s inv=%s mode=args kind=prefix-zone output-differs", C13_TOOL, inv);
	printable(o->out, o->len, a, sizeof(a));
	printable(exp, elen, b, sizeof(b));
	ex_viol(key, ord, cas, cmd, "prints '%s'; the single-zone runs give '%s'", a, b);
}

#if defined C13_TOOL_dzone
/* dzone [--next --prev] Z1 Z2 [Z3] D1 D2 D3: the lines of zone Zj for date Di must be those of `dzone Zj Di' */
static struct out_s zsingle[2][NZNC][3];

static int
judge_zone_tuple(int opt, const int *zi, int nz, int replay)
{
	const char *argv[16];
	int argc = 0, bad;
	struct out_s o;
	char exp[4096], cas[64], cmd[512];
	size_t elen = 0, k = 0;
	EX_CTR(c_trans, "transitions");
	EX_CTR(c_pz, "prefix_zone_runs");
	EX_CTR(c_nontriv, "nontrivial");

	argv[argc++] = C13_TOOL;
	if (opt) {
		argv[argc++] = "--next";
		argv[argc++] = "--prev";
	}
	for (int j = 0; j < nz; j++) {
		argv[argc++] = zn[zi[j]];
	}
	for (int d = 0; d < 3; d++) {
		argv[argc++] = zdates[d];
	}
	run_raw(argv, argc, NULL, 0, &o, 20, 1U << 20);
	++*c_trans;
	++*c_pz;
	++*c_nontriv;
	for (int d = 0; d < 3; d++) {
		for (int j = 0; j < nz; j++) {
			const struct out_s *sg = &zsingle[opt][zi[j]][d];
			if (elen + sg->len < sizeof(exp)) {
				memcpy(exp + elen, sg->out, sg->len);
				elen += sg->len;
			}
		}
	}
	snprintf(cas, sizeof(cas), "Z %d %d %d %d %d", opt, nz, zi[0], zi[1], nz > 2 ? zi[2] : -1);
	for (int i = 0; i < argc && k < sizeof(cmd); i++) {
		k += (size_t)snprintf(cmd + k, sizeof(cmd) - k, "%s%s", i ? " " : "", argv[i]);
	}
	ex_outcome(ex_hash_mix(ex_hash(o.out, o.len), 0x5a));
	bad = o.ended || o.len != elen || memcmp(o.out, exp, elen);
	if (bad) {
		zone_viol(opt ? "zones--next--prev" : "zones", cas, cmd, &o, exp, elen, zi[0] * 64 + zi[1] * 8 + (nz > 2 ? zi[2] : 0));
	}
	if (replay) {
		printf("  %s %s\n", bad ? "FAIL" : "ok", cmd);
	}
	free(o.out);
	return bad;
}

static void
zone_singles(void)
{
	for (int opt = 0; opt < 2; opt++) {
		for (int z = 0; z < nzn; z++) {
			for (int d = 0; d < 3; d++) {
				const char *argv[8];
				int argc = 0;
				argv[argc++] = C13_TOOL;
				if (opt) {
					argv[argc++] = "--next";
					argv[argc++] = "--prev";
				}
				argv[argc++] = zn[z];
				argv[argc++] = zdates[d];
				free(zsingle[opt][z][d].out);
				run_raw(argv, argc, NULL, 0, &zsingle[opt][z][d], 20, 1U << 20);
			}
		}
	}
}

static void
prefix_zones(void)
{
	uint64_t slice = 1000000;
	int have = 0;
	for (int opt = 0; opt < 2; opt++) {
		for (int a = 0; a < nzn; a++) {
			for (int b = 0; b < nzn; b++) {
				int zi[3] = {a, b, 0};
				if (a == b || !ex_mine(slice++)) {
					continue;
				}
				if (!have) {
					zone_singles();
					have = 1;
				}
				judge_zone_tuple(opt, zi, 2, 0);
				for (int c = 0; c < nzn; c++) {
					if (c == a || c == b) {
						continue;
					}
					zi[2] = c;
					judge_zone_tuple(opt, zi, 3, 0);
				}
			}
		}
	}
}
#elif defined C13_TOOL_dconv || defined C13_TOOL_dadd
/* TOOL --from-zone Z1 --zone Z2 must be the two-process pipeline through UTC:
 * (TOOL --from-zone Z1) | (TOOL --zone Z2), each in a process of its own */
# if defined C13_TOOL_dadd
#  define PZ_DUR1	"+1h"
#  define PZ_DUR2	"+0s"
# endif
static int
judge_zone_pair(int a, int b, int replay)
{
	const char *argv[12];
	int argc, bad;
	struct out_s o, u, e;
	char in[256], exp[512], cas[64], cmd[512];
	size_t inlen = 0, elen = 0;
	EX_CTR(c_trans, "transitions");
	EX_CTR(c_pz, "prefix_zone_runs");
	EX_CTR(c_nontriv, "nontrivial");

	for (int d = 0; d < 3; d++) {
		inlen += (size_t)snprintf(in + inlen, sizeof(in) - inlen, "%s\n", zdates[d]);
	}
	/* the run under test */
	argc = 0;
	argv[argc++] = C13_TOOL;
	argv[argc++] = "--from-zone";
	argv[argc++] = zn[a];
	argv[argc++] = "--zone";
	argv[argc++] = zn[b];
# if defined C13_TOOL_dadd
	argv[argc++] = PZ_DUR1;
# endif
	run_raw(argv, argc, in, inlen, &o, 20, 1U << 16);
	++*c_trans;
	++*c_pz;
	++*c_nontriv;
	snprintf(cmd, sizeof(cmd), "printf '%%s\\n' %s %s %s | %s --from-zone %s --zone %s%s", zdates[0], zdates[1], zdates[2], C13_TOOL, zn[a], zn[b],
# if defined C13_TOOL_dadd
		 " " PZ_DUR1
# else
		 ""
# endif
		);
	/* the pipeline */
	argc = 0;
	argv[argc++] = C13_TOOL;
	argv[argc++] = "--from-zone";
	argv[argc++] = zn[a];
# if defined C13_TOOL_dadd
	argv[argc++] = PZ_DUR1;
# endif
	run_raw(argv, argc, in, inlen, &u, 20, 1U << 16);
	argc = 0;
	argv[argc++] = C13_TOOL;
	argv[argc++] = "--zone";
	argv[argc++] = zn[b];
# if defined C13_TOOL_dadd
	argv[argc++] = PZ_DUR2;
# endif
	run_raw(argv, argc, u.out, u.len, &e, 20, 1U << 16);
	elen = e.len < sizeof(exp) ? e.len : sizeof(exp) - 1;
	memcpy(exp, e.out, elen);
	snprintf(cas, sizeof(cas), "P %d %d", a, b);
	ex_outcome(ex_hash_mix(ex_hash(o.out, o.len), 0x5b));
	bad = o.ended || u.ended || e.ended || o.len != e.len || memcmp(o.out, e.out, e.len);
	if (bad) {
		zone_viol("--from-zone-Z1--zone-Z2", cas, cmd, &o, exp, elen, a * 8 + b);
	}
	if (replay) {
		char x[300], y[300];
		printable(o.out, o.len, x, sizeof(x));
		printable(exp, elen, y, sizeof(y));
		printf("  %s %s\n    prints '%s'; pipeline through UTC '%s'\n", bad ? "FAIL" : "ok", cmd, x, y);
	}
	free(o.out);
	free(u.out);
	free(e.out);
	return bad;
}

static void
prefix_zones(void)
{
	uint64_t slice = 1000000;
	for (int a = 0; a < nzn; a++) {
		for (int b = 0; b < nzn; b++) {
			if (ex_mine(slice++)) {
				judge_zone_pair(a, b, 0);
			}
		}
	}
}
#else
static void
prefix_zones(void)
{
	return;
}
#endif

#if defined C13_TOOL_dtest
/* ---- dtest with two overlapping input formats: all ordered pairs of the alphabet ----
 * What dtest answers for (A, B) must be what two independent parses imply: each value is
 * parsed alone in a process of its own (dt_io_strpdt with the same format list), printed
 * in its canonical form, and the two canonical texts are compared by a dtest run without
 * input formats. */
struct mf_s {
	const char *label;
	const char *f1, *f2;
	const char *const *alpha;
};
static const struct mf_s mfs[] = {
	{"-i-dmy-i-mdy", "%d/%m/%Y", "%m/%d/%Y", A_DMY_MDY},
	{"-i-ymd-i-ydm", "%Y%m%d", "%Y%d%m", A_YMD_YDM},
	{"-i-hm-i-ms", "%H:%M", "%M:%S", A_HM_MS},
};
#define NMF	((int)(sizeof(mfs) / sizeof(*mfs)))
static const char *const mf_ops[] = {"--cmp", "--lt", "--eq", "--ge"};
#define NMFOP	4

static int
parse_alone_main(int argc, char *argv[])
{
	struct dt_dt_s d = dt_io_strpdt(argv[1], argv + 2, (size_t)(argc - 2), NULL);
	char buf[96];
	if (dt_unk_p(d)) {
		return 3;
	}
	dt_strfdt(buf, sizeof(buf), NULL, d);
	puts(buf);
	return 0;
}

static char mf_canon[NALPHA][96];
static int mf_ok[NALPHA];

static void
mf_singles(const struct mf_s *m)
{
	for (int v = 0; v < NALPHA; v++) {
		const char *argv[4] = {"parse", m->alpha[v], m->f1, m->f2};
		struct fs_opts fo;
		struct fs_result r;
		EX_CTR(c_eval, "evaluations");
		memset(&fo, 0, sizeof(fo));
		fo.now = FAKE_NOW;
		fo.env = run_env;
		fo.timeout_s = 20;
		fs_run(parse_alone_main, 4, argv, &fo, &r);
		++*c_eval;
		mf_ok[v] = r.exited && r.status == 0 && r.outlen > 1 && r.outlen < sizeof(mf_canon[v]);
		if (mf_ok[v]) {
			memcpy(mf_canon[v], r.out, r.outlen - 1);
			mf_canon[v][r.outlen - 1] = '\0';
		}
		fs_free(&r);
	}
}

static int
judge_mf_pair(int mi, int oi, int a, int b, int replay)
{
	const struct mf_s *m = mfs + mi;
	const char *argv[10];
	int argc = 0, bad = 0;
	struct out_s o, e;
	char key[256], cas[64], cmd[512];
	EX_CTR(c_trans, "transitions");
	EX_CTR(c_mf, "multi_format_pairs");
	EX_CTR(c_skip, "skipped:dtest pair with a value neither input format reads");
	EX_CTR(c_nontriv, "nontrivial");

	if (!mf_ok[a] || !mf_ok[b]) {
		++*c_skip;
		return 0;
	}
	argv[argc++] = C13_TOOL;
	argv[argc++] = "-i";
	argv[argc++] = m->f1;
	argv[argc++] = "-i";
	argv[argc++] = m->f2;
	argv[argc++] = mf_ops[oi];
	argv[argc++] = m->alpha[a];
	argv[argc++] = m->alpha[b];
	run_raw(argv, argc, NULL, 0, &o, 20, 1U << 16);
	argc = 0;
	argv[argc++] = C13_TOOL;
	argv[argc++] = mf_ops[oi];
	argv[argc++] = mf_canon[a];
	argv[argc++] = mf_canon[b];
	run_raw(argv, argc, NULL, 0, &e, 20, 1U << 16);
	++*c_trans;
	++*c_mf;
	*c_nontriv += a != b;
	snprintf(cas, sizeof(cas), "M %d %d %d %d", mi, oi, a, b);
	snprintf(cmd, sizeof(cmd), "dtest -i '%s' -i '%s' %s %s %s; echo $?", m->f1, m->f2, mf_ops[oi], m->alpha[a], m->alpha[b]);
	ex_outcome(ex_hash_mix((uint64_t)(o.ended * 100 + o.status), (uint64_t)(mi * 1000 + oi * 100 + a * 10 + b)));
	if (o.ended || e.ended || o.status != e.status) {
		snprintf(key, sizeof(key), "tools %s inv=%s%s mode=args kind=" K_MFMT " status-differs", C13_TOOL, m->label, mf_ops[oi]);
		ex_viol(key, a * NALPHA + b, cas, cmd, "exit status %d%s; each value parsed alone reads '%s' and '%s', for which dtest %s exits with %d", o.status,
			o.ended ? " (abnormal end)" : "", mf_canon[a], mf_canon[b], mf_ops[oi], e.status);
		bad = 1;
	}
	if (replay) {
		printf("  %s %s -> status %d; alone the values read '%s' and '%s' -> status %d\n", bad ? "FAIL" : "ok", cmd, o.status, mf_canon[a], mf_canon[b], e.status);
	}
	free(o.out);
	free(e.out);
	return bad;
}

static void
multi_format_pairs(void)
{
	uint64_t slice = 2000000;
	for (int mi = 0; mi < NMF; mi++) {
		int have = 0;
		for (int oi = 0; oi < NMFOP; oi++) {
			for (int a = 0; a < NALPHA; a++) {
				if (!ex_mine(slice++)) {
					continue;
				}
				if (!have) {
					mf_singles(mfs + mi);
					have = 1;
				}
				for (int b = 0; b < NALPHA; b++) {
					judge_mf_pair(mi, oi, a, b, 0);
				}
			}
		}
	}
}
#endif

static void
do_singles(int ii, int mode)
{
	for (int v = 0; v < NALPHA; v++) {
		free(single[v].out);
		run(invs + ii, mode, &v, 1, single + v, 10);
		if (single[v].ended) {
			char key[256], cas[64], cmd[1024];
			snprintf(key, sizeof(key), "tools %s inv=%s mode=%s single-run-%s value#%d", C13_TOOL, invs[ii].label, mode == M_ARGS ? "args" : "stdin",
				 single[v].ended == 1 ? "does-not-terminate" : single[v].ended == 2 ? "dies-of-a-signal" : "output-cap", v);
			snprintf(cas, sizeof(cas), "%d %d 1 %d -1 -1 -1", ii, mode, v);
			cmd_text(invs + ii, mode, &v, 1, cmd, sizeof(cmd));
			/* not a history dependence: noted so that nothing is hidden, under its own key */
			ex_viol(key, v, cas, cmd, "the run on this single value %s (signal/status %d); sequences containing it are not judged",
				single[v].ended == 1 ? "does not terminate" : single[v].ended == 2 ? "dies of a signal" : "overruns the output cap", single[v].status);
		}
	}
}

int
main(int argc, char *argv[])
{
	EX_CTR(c_states, "states");
	EX_CTR(c_traces, "traces");
	int maxlen;

	ex_init(argc, argv);
	maxlen = ex.thorough ? 4 : 3;

	zn_init();
	if (ex.cas && ex.cas[0] == 'L') {
		int ii, mode, v, n, bad, cyc[NALPHA];
		if (sscanf(ex.cas, "L %d %d %d %d", &ii, &mode, &v, &n) != 4 || ii < 0 || ii >= NINV || v >= NALPHA || n < 1 || n > 100000) {
			return ex_replay_result(1, "bad case '%s'", ex.cas);
		}
		do_singles(ii, mode);
		for (int i = 0; i < NALPHA; i++) {
			cyc[i] = i;
		}
		bad = v >= 0 ? judge_long(ii, mode, &v, 1, n, 1) : judge_long(ii, mode, cyc, NALPHA, n, 1);
		return ex_replay_result(bad, "%s", ex.cas);
	}
#if defined C13_TOOL_dtest
	if (ex.cas && ex.cas[0] == 'M') {
		int mi, oi, a, b, bad;
		if (sscanf(ex.cas, "M %d %d %d %d", &mi, &oi, &a, &b) != 4 || mi < 0 || mi >= NMF || oi < 0 || oi >= NMFOP || a < 0 || a >= NALPHA || b < 0 || b >= NALPHA) {
			return ex_replay_result(1, "bad case '%s'", ex.cas);
		}
		mf_singles(mfs + mi);
		bad = judge_mf_pair(mi, oi, a, b, 1);
		return ex_replay_result(bad, "%s", ex.cas);
	}
#endif
#if defined C13_TOOL_dzone
	if (ex.cas && ex.cas[0] == 'Z') {
		int opt, nz, zi[3], bad;
		if (sscanf(ex.cas, "Z %d %d %d %d %d", &opt, &nz, zi, zi + 1, zi + 2) != 5 || opt < 0 || opt > 1 || nz < 2 || nz > 3 ||
		    zi[0] < 0 || zi[0] >= nzn || zi[1] < 0 || zi[1] >= nzn || zi[2] >= nzn) {
			return ex_replay_result(1, "bad case '%s'", ex.cas);
		}
		zone_singles();
		bad = judge_zone_tuple(opt, zi, nz, 1);
		return ex_replay_result(bad, "%s", ex.cas);
	}
#elif defined C13_TOOL_dconv || defined C13_TOOL_dadd
	if (ex.cas && ex.cas[0] == 'P') {
		int a, b, bad;
		if (sscanf(ex.cas, "P %d %d", &a, &b) != 2 || a < 0 || a >= nzn || b < 0 || b >= nzn) {
			return ex_replay_result(1, "bad case '%s'", ex.cas);
		}
		bad = judge_zone_pair(a, b, 1);
		return ex_replay_result(bad, "%s", ex.cas);
	}
#endif
	if (ex.cas) {
		int ii, mode, n, seq[4], bad;
		if (sscanf(ex.cas, "%d %d %d %d %d %d %d", &ii, &mode, &n, seq, seq + 1, seq + 2, seq + 3) != 7 || ii < 0 || ii >= NINV || n < 1 || n > 4) {
			return ex_replay_result(1, "bad case '%s'", ex.cas);
		}
		do_singles(ii, mode);
		if (n == 1) {
			return ex_replay_result(single[seq[0]].ended != 0, "single run");
		}
		bad = judge(ii, mode, seq, n, 1);
		return ex_replay_result(bad, "%s", ex.cas);
	}

	ex_meta("rule", "%s: %d invocations (tool + options) x modes {values as arguments, values as stdin lines} as the invocation admits x ALL sequences up to length %d over a "
		"10-value alphabet (ultimo, 24:00:00, instants in three zone ranges incl. before 1970, unparsable, empty, two dates in one value, a 255-byte value, time only / "
		"duration lines +1d -1d =1d /1d > 1mo2d '+1d -2h' xyz '' 1dx); the tool's main() runs in a forked child from a pristine image (fixed clock 2012-02-23, cleared "
		"environment); oracle: stdout of the sequence run == concatenation of the stdouts of the single-value runs; a sequence run that does not terminate or dies is a "
		"violation too; stderr and exit status are not compared. LONG HISTORIES (counter-wrap detector): for every invocation, mode and alphabet value one run with the value "
		"repeated N times, N in {130,260,300,520} (thorough: every N in 120..300 and 520), and one stream cycling through the alphabet 300 times: output = concatenation "
		"of the single-value outputs, exit status of a homogeneous stream = that of the single run. PREFIX-RELATED ZONE NAMES (%d of Etc/GMT Etc/GMT+1 Etc/GMT+10 Etc/GMT+5 "
		"EST EST5EDT MST MST7MDT installed): dzone [--next --prev] over all ordered pairs and triples x 3 dates = the single-zone runs; dconv/dadd --from-zone Z1 --zone Z2 over all "
		"ordered pairs = the two-process pipeline through UTC. non-trivial = sequences whose members are not all the same value, long histories, zone tuples",
		C13_TOOL, NINV, maxlen, nzn);
	ex_meta("bound", "%s: sequences up to length %d (%d per invocation and mode)", ex.thorough ? "thorough" : "quick", maxlen, ex.thorough ? 11110 : 1110);

	/* slice = (invocation, mode, first value) */
	for (int ii = 0; ii < NINV && !ex_expired(); ii++) {
		for (int mode = M_ARGS; mode <= M_STDIN; mode++) {
			int have_singles = 0;
			if (!(invs[ii].modes & mode)) {
				continue;
			}
			for (int v0 = 0; v0 < NALPHA && !ex_expired(); v0++) {
				int seq[4];
				if (!ex_mine((uint64_t)((ii * 2 + (mode - 1)) * NALPHA + v0))) {
					continue;
				}
				if (!have_singles) {
					do_singles(ii, mode);
					have_singles = 1;
				}
				seq[0] = v0;
				++*c_states;
				for (int v1 = 0; v1 < NALPHA && !ex_expired(); v1++) {
					seq[1] = v1;
					judge(ii, mode, seq, 2, 0);
					++*c_traces;
					if (maxlen < 3) {
						continue;
					}
					for (int v2 = 0; v2 < NALPHA; v2++) {
						seq[2] = v2;
						judge(ii, mode, seq, 3, 0);
						++*c_traces;
						if (maxlen < 4) {
							continue;
						}
						for (int v3 = 0; v3 < NALPHA; v3++) {
							seq[3] = v3;
							judge(ii, mode, seq, 4, 0);
							++*c_traces;
						}
					}
				}
				/* long histories of value v0; the mixed stream rides on v0 == 0 */
				{
					static const int nq[] = {130, 260, 300, 520};
					int cyc[NALPHA];
					if (ex.thorough) {
						for (int n = 120; n <= 300 && !ex_expired(); n++) {
							judge_long(ii, mode, &v0, 1, n, 0);
						}
						judge_long(ii, mode, &v0, 1, 520, 0);
					} else {
						for (int k = 0; k < 4; k++) {
							judge_long(ii, mode, &v0, 1, nq[k], 0);
						}
					}
					if (v0 == 0) {
						for (int i = 0; i < NALPHA; i++) {
							cyc[i] = i;
						}
						judge_long(ii, mode, cyc, NALPHA, 300 * NALPHA, 0);
					}
				}
				if (ex_want_sample()) {
					char cmd[1024];
					int s3[3] = {v0, 3, 4};
					cmd_text(invs + ii, mode, s3, 3, cmd, sizeof(cmd));
					ex_sample("%s  (and all other sequences starting with value #%d)", cmd, v0);
				}
			}
		}
	}
	if (!ex_expired()) {
		prefix_zones();
	}
#if defined C13_TOOL_dtest
	if (!ex_expired()) {
		multi_format_pairs();
	}
#endif
	return ex_finish();
}
