/* c17_dgrep.c -- C17: dgrep selects exactly the lines whose dates satisfy the
 * Boolean expression; -v is the complement; evaluation never crashes.
 *
 * Programs = expression trees.  Every tree with up to 4 leaves (thorough: 5) is
 * enumerated: all Catalan shapes x every {&&,||} labelling of the inner nodes x
 * a negation flag on EVERY node, leaves = independent atoms, so that 2^n input
 * lines realise every truth assignment (the tree's truth table is its trace).
 * Each tree is rendered compactly (no blanks: the scanner's date rule swallows
 * blanks) fully parenthesised and minimally parenthesised (relying on
 * ! > && > ||), and driven through the tool's own pipeline
 *     dexpr_parse -> dexpr_simplify -> dexpr_matches_p (per date of the line,
 *     as proc_line does) -> free_dexpr
 * with src/dexpr.c compiled into this translation unit (as src/dgrep.c does),
 * in a FORKED CHILD PER EXPRESSION: the flex scanner keeps state, the tool
 * parses once per process, and a child that dies is an observation.
 * Oracle: direct recursive evaluation of the expression as written.
 *
 * Failure classes: kind of failure (wrong selection / died in <stage> / asan
 * <what> / parse error) + the REWRITE CLASS: the failing tree is reduced
 * (take a child subtree; clear one negation flag) as long as the reduced tree
 * still fails in the same way (each reduced tree is run in its own child,
 * results cached); the skeleton of the irreducible tree, e.g. `!(a||b)` or
 * `a&&(b||c)`, is the key.
 *
 * Stacked negations: every tree up to 3 leaves with 0..2 negations on an inner
 * node and 0..3 on a leaf, written !!x (minimal) and !(!(x)) (full).
 * Pairs: 29 atoms (year, weekday name, date, time, date-time bound x the six
 * operators and "operator omitted") in every ordered pair joined by && and ||,
 * on a grid of 5 dates x 3 times: what one atom leaves behind for the next
 * (parser state) shows here; leaf set C carries the same idea into the trees.
 * Atom semantics (operators x fields x every distance -3..+3 from the
 * constant, "left operand is the line's value") is enumerated separately under
 * its own keys (kind, operator, distance).
 * Mode `bind` (plain variant): every tree with <= 3 leaves (sets A and C), the
 * stacked negations up to 2 leaves and all pairs through the dgrep binary of
 * the same build with and without -v, compared with what the in-process
 * pipeline selected; plus line semantics of the CLI. */
#include "impl.h"
#include "dt-io.h"
#include "explore.h"
#include <stdbool.h>
#include <sys/mman.h>
#include <sys/wait.h>
#include <fcntl.h>
#if defined __SANITIZE_ADDRESS__
# include <sanitizer/asan_interface.h>
#endif

const char *prog = "c17";
#include "dexpr.c"

/* ---- leaves ---- */
#define MAXLEAF	5
struct leafset {
	const char *name;
	int nleaf;
	const char *atom[MAXLEAF];
};
/* set A: year, month, weekday name, time-of-day bound, count of the weekday in
 * the month: independent (a day exists for every combination).
 * set B (<= 4 leaves): day of month, year, time bound, month. */
static const struct leafset sets[3] = {
	{"A", 5, {"%Y=2012", "%m=3", "%a=\"Wed\"", ">=12:00:00", "%c=2"}},
	{"B", 4, {"%d=16", "%Y=2012", ">=12:00:00", "%m=3"}},
	/* set C (<= 4 leaves): a bare time (operator omitted) behind and in front of atoms with other
	 * operators: state carried from one atom to the next shows here */
	{"C", 4, {"%Y<2013", "12:00:00", "%m!=4", "%d>=16"}},
};

/* boring calendar for the handful of days needed here (the 73 MB table of
 * refcal.h would have to be copied by every fork): weekday by counting days
 * from 1970-01-01, a Thursday; 1 = Monday .. 7 = Sunday */
static int
c17_leap(int y)
{
	return (y % 4 == 0 && y % 100 != 0) || y % 400 == 0;
}
static int
c17_mlen(int y, int m)
{
	static const int ml[13] = {0, 31, 28, 31, 30, 31, 30, 31, 31, 30, 31, 30, 31};
	return m == 2 && c17_leap(y) ? 29 : ml[m];
}
static int
c17_wday(int y, int m, int d)
{
	long n = 0;
	for (int yy = 1970; yy < y; yy++) {
		n += c17_leap(yy) ? 366 : 365;
	}
	for (int mm = 1; mm < m; mm++) {
		n += c17_mlen(y, mm);
	}
	n += d - 1;
	return (int)((n + 3) % 7) + 1;
}
static void
c17_selfcheck(void)
{
	/* independent anchors */
	if (c17_wday(1970, 1, 1) != 4 || c17_wday(2012, 3, 14) != 3 || c17_wday(2012, 3, 16) != 5 ||
	    c17_wday(2013, 4, 11) != 4 || c17_wday(2000, 2, 29) != 2 || c17_wday(2012, 2, 29) != 3) {
		fprintf(stderr, "c17: weekday self-check failed\n");
		exit(3);
	}
}

/* the line that realises assignment BITS (bit i = truth of leaf i) */
static void
mk_line(char *buf, size_t bsz, int set, unsigned int bits)
{
	int y, m, d = 0, H;
	if (set == 0) {
		int wd = (bits & 4U) ? 3 : 4;
		int c = (bits & 16U) ? 2 : 3;
		y = (bits & 1U) ? 2012 : 2013;
		m = (bits & 2U) ? 3 : 4;
		H = (bits & 8U) ? 13 : 11;
		for (int dd = 1; dd <= c17_mlen(y, m); dd++) {
			/* the count of the weekday within the month */
			if (c17_wday(y, m, dd) == wd && (dd - 1) / 7 + 1 == c) {
				d = dd;
			}
		}
		if (d == 0) {
			fprintf(stderr, "c17: no day for assignment %u\n", bits);
			exit(3);
		}
	} else if (set == 1) {
		d = (bits & 1U) ? 16 : 17;
		y = (bits & 2U) ? 2012 : 2013;
		H = (bits & 4U) ? 13 : 11;
		m = (bits & 8U) ? 3 : 4;
	} else {
		y = (bits & 1U) ? 2012 : 2013;
		H = (bits & 2U) ? 12 : 11;
		m = (bits & 4U) ? 3 : 4;
		d = (bits & 8U) ? 16 : 15;
	}
	snprintf(buf, bsz, "%04d-%02d-%02dT%02d:00:00", y, m, d, H);
}

/* ---- trees as prefix strings: '&' '|' inner nodes, '0'..'4' leaves, '!' = negation flag ---- */
#define MAXT	32
struct tlist {
	char (*t)[MAXT];
	size_t n, cap;
};
static struct tlist T[MAXLEAF + 1][MAXLEAF + 1];	/* [first leaf][count] */

static void
tl_add(struct tlist *l, const char *s)
{
	if (l->n == l->cap) {
		l->cap = l->cap ? 2 * l->cap : 64;
		l->t = realloc(l->t, l->cap * MAXT);
	}
	snprintf(l->t[l->n++], MAXT, "%s", s);
}

static void
gen_trees(int first, int cnt)
{
	struct tlist *l = &T[first][cnt];
	char buf[MAXT];
	if (l->n) {
		return;
	}
	if (cnt == 1) {
		snprintf(buf, sizeof(buf), "%d", first);
		tl_add(l, buf);
		snprintf(buf, sizeof(buf), "!%d", first);
		tl_add(l, buf);
		return;
	}
	/* canonical order: split, then operator, then negation of the node, then children */
	for (int k = 1; k < cnt; k++) {
		gen_trees(first, k);
		gen_trees(first + k, cnt - k);
	}
	for (int k = 1; k < cnt; k++) {
		struct tlist *a = &T[first][k], *b = &T[first + k][cnt - k];
		for (int op = 0; op < 2; op++) {
			for (int ng = 0; ng < 2; ng++) {
				for (size_t i = 0; i < a->n; i++) {
					for (size_t j = 0; j < b->n; j++) {
						snprintf(buf, sizeof(buf), "%s%c%s%s", ng ? "!" : "", op ? '|' : '&', a->t[i], b->t[j]);
						tl_add(l, buf);
					}
				}
			}
		}
	}
}

/* trees with stacked negations: 0..2 negations on an inner node, 0..3 on a leaf */
static struct tlist TS[MAXLEAF + 1][MAXLEAF + 1];

static void
gen_stacked(int first, int cnt)
{
	static const char *const bang[4] = {"", "!", "!!", "!!!"};
	struct tlist *l = &TS[first][cnt];
	char buf[MAXT];
	if (l->n) {
		return;
	}
	if (cnt == 1) {
		for (int ng = 0; ng < 4; ng++) {
			snprintf(buf, sizeof(buf), "%s%d", bang[ng], first);
			tl_add(l, buf);
		}
		return;
	}
	for (int k = 1; k < cnt; k++) {
		gen_stacked(first, k);
		gen_stacked(first + k, cnt - k);
	}
	for (int k = 1; k < cnt; k++) {
		struct tlist *a = &TS[first][k], *b = &TS[first + k][cnt - k];
		for (int op = 0; op < 2; op++) {
			for (int ng = 0; ng < 3; ng++) {
				for (size_t i = 0; i < a->n; i++) {
					for (size_t j = 0; j < b->n; j++) {
						snprintf(buf, sizeof(buf), "%s%c%s%s", bang[ng], op ? '|' : '&', a->t[i], b->t[j]);
						tl_add(l, buf);
					}
				}
			}
		}
	}
}

/* negations beyond the first on any node (0: the tree is in the one-flag enumeration) */
static int
t_excess(const char *s)
{
	int x = 0;
	for (; *s; s++) {
		if (s[0] == '!' && s[1] == '!') {
			x++;
		}
	}
	return x;
}

/* end of the subtree that starts at S */
static const char*
t_end(const char *s)
{
	while (*s == '!') {
		s++;
	}
	if (*s == '&' || *s == '|') {
		return t_end(t_end(s + 1));
	}
	return s + 1;
}

static int
t_eval(const char **sp, unsigned int bits)
{
	const char *s = *sp;
	int neg = 0, v;
	while (*s == '!') {
		neg ^= 1;
		s++;
	}
	if (*s == '&' || *s == '|') {
		char op = *s++;
		int a = t_eval(&s, bits);
		int b = t_eval(&s, bits);
		v = op == '&' ? (a && b) : (a || b);
	} else {
		v = (int)((bits >> (*s - '0')) & 1U);
		s++;
	}
	*sp = s;
	return v ^ neg;
}

static int
t_nleaves(const char *s)
{
	int n = 0;
	for (; *s; s++) {
		n += *s >= '0' && *s <= '9';
	}
	return n;
}

enum { R_FULL, R_MIN, R_BLANK, R_TAB, NREND };
static const char *const rend_name[NREND] = {"full-parens", "min-parens", "blank-separated", "tab-separated"};

/* render: ATOM[i] is the text of leaf i (or letters for the skeleton) */
static void
t_render(char *out, size_t osz, const char **sp, const char *const atom[], int mode, int parent_op, int right_side)
{
	const char *s = *sp;
	int neg = 0;		/* number of negations on this node: written !!x (min, blank) resp. !(!(x)) (full) */
	size_t k = strlen(out);
	const char *sep = mode == R_BLANK ? " " : mode == R_TAB ? "\t" : "";

	while (*s == '!') {
		neg++;
		s++;
	}
	if (*s == '&' || *s == '|') {
		char op = *s++;
		int paren;
		if (mode == R_MIN) {
			/* needed to read back as the same tree: under !, under a tighter operator, or as
			 * the right operand of the same operator (both are left associative) */
			paren = neg || (parent_op == '&' && op == '|') || (parent_op == op && right_side);
		} else {
			paren = 1;
		}
		for (int i = 0; i < neg; i++) {
			k += (size_t)snprintf(out + k, osz - k, "!%s%s", sep, mode == R_FULL && i + 1 < neg ? "(" : "");
		}
		snprintf(out + k, osz - k, "%s%s", paren ? "(" : "", paren ? sep : "");
		t_render(out, osz, &s, atom, mode, op, 0);
		k = strlen(out);
		snprintf(out + k, osz - k, "%s%s%s", sep, op == '&' ? "&&" : "||", sep);
		t_render(out, osz, &s, atom, mode, op, 1);
		k = strlen(out);
		k += (size_t)snprintf(out + k, osz - k, "%s%s", paren ? sep : "", paren ? ")" : "");
		for (int i = 1; mode == R_FULL && i < neg; i++) {
			k += (size_t)snprintf(out + k, osz - k, ")");
		}
	} else {
		const char *a = atom[*s - '0'];
		s++;
		if (mode == R_FULL) {
			for (int i = 0; i < neg; i++) {
				k += (size_t)snprintf(out + k, osz - k, "!(");
			}
			k += (size_t)snprintf(out + k, osz - k, "%s", a);
			for (int i = 0; i < neg; i++) {
				k += (size_t)snprintf(out + k, osz - k, ")");
			}
		} else if (mode == R_BLANK || mode == R_TAB) {
			/* blanks around the operator of the atom as well: "%Y = 2012" */
			char tmp[64];
			size_t j = 0;
			for (const char *p = a; *p && j + 4 < sizeof(tmp); p++) {
				if ((*p == '=' || *p == '<' || *p == '>') && p > a && p[-1] != '=' && p[-1] != '<' && p[-1] != '>' && p[-1] != '!') {
					tmp[j++] = *sep;
				}
				tmp[j++] = *p;
				if ((*p == '=' || *p == '<' || *p == '>') && p[1] != '=' && p[1] != '>') {
					tmp[j++] = *sep;
				}
			}
			tmp[j] = '\0';
			for (int i = 0; i < neg; i++) {
				k += (size_t)snprintf(out + k, osz - k, "!%s", sep);
			}
			snprintf(out + k, osz - k, "%s", tmp);
		} else {
			for (int i = 0; i < neg; i++) {
				k += (size_t)snprintf(out + k, osz - k, "!");
			}
			snprintf(out + k, osz - k, "%s", a);
		}
	}
	*sp = s;
}

static void
render(char *out, size_t osz, const char *tree, const char *const atom[], int mode)
{
	const char *s = tree;
	out[0] = '\0';
	t_render(out, osz, &s, atom, mode, 0, 0);
}

/* skeleton: leaves relabelled a, b, c.. in order of appearance, minimal parentheses,
 * operators as words (`not(a or b)`, `a and (b or c)`): the driver derives file names
 * from class keys by mapping every other character to '_', which would merge && and || */
static void
skeleton(char *out, size_t osz, const char *tree)
{
	char rel[MAXT], tmp[160];
	static const char *const letters[MAXLEAF] = {"a", "b", "c", "d", "e"};
	int map[10], next = 0;
	size_t k = 0;
	memset(map, -1, sizeof(map));
	for (const char *s = tree; *s && k + 1 < sizeof(rel); s++) {
		if (*s >= '0' && *s <= '9') {
			if (map[*s - '0'] < 0) {
				map[*s - '0'] = next++;
			}
			rel[k++] = (char)('0' + map[*s - '0']);
		} else {
			rel[k++] = *s;
		}
	}
	rel[k] = '\0';
	render(tmp, sizeof(tmp), rel, letters, R_MIN);
	k = 0;
	for (const char *s = tmp; *s && k + 8 < osz; s++) {
		if (s[0] == '&' && s[1] == '&') {
			k += (size_t)snprintf(out + k, osz - k, " and ");
			s++;
		} else if (s[0] == '|' && s[1] == '|') {
			k += (size_t)snprintf(out + k, osz - k, " or ");
			s++;
		} else if (s[0] == '!') {
			k += (size_t)snprintf(out + k, osz - k, s[1] == '(' ? "not" : "not ");
		} else {
			out[k++] = *s;
		}
	}
	out[k] = '\0';
}

/* ---- one expression in one child ---- */
enum { ST_START, ST_PARSE, ST_SIMPLIFY, ST_MATCH, ST_FREE, ST_DONE };
static const char *const stage_name[] = {"start", "dexpr_parse", "dexpr_simplify", "dexpr_matches_p", "free_dexpr", "done"};

struct shm_s {
	volatile int stage;
	volatile int in_child;
	volatile int parse_rc;
	volatile uint32_t sel;		/* bit i: line i selected */
	volatile uint32_t nodate;	/* bit i: no date found in line i */
	volatile int asan_hits;
	volatile int asan_stage;
	char asan_desc[48];
};
static struct shm_s *shm;

#if defined __SANITIZE_ADDRESS__
const char*
__asan_default_options(void)
{
	return "suppress_equal_pcs=0:fast_unwind_on_fatal=1";
}
void
__asan_on_error(void)
{
	if (shm) {
		if (shm->asan_hits++ == 0) {
			const char *d = __asan_get_report_description();
			shm->asan_stage = shm->stage;
			snprintf(shm->asan_desc, sizeof(shm->asan_desc), "%s", d ? d : "?");
		}
		if (shm->stage == ST_FREE && shm->in_child) {
			/* the last stage: everything is observed; skip the costly report text */
			_exit(0);
		}
	}
}
#endif

struct xres {
	int parse_rc;
	uint32_t sel, nodate;
	int stage;		/* last stage entered */
	int died;		/* child ended before ST_DONE */
	int sig;		/* fatal signal, 0 if it exited */
	int hang;
	int asan_hits, asan_stage;
	char asan_desc[48];
};

/* does the line match: proc_line's loop of dgrep.c */
static int
line_matches(dexpr_t root, const struct grep_atom_soa_s *ndl, char *line, size_t llen, int *anydate)
{
	*anydate = 0;
	for (char *lp = line, *const zp = line + llen, *sp, *ep;; lp = ep) {
		struct dt_dt_s d = dt_io_find_strpdt2(lp, (size_t)(zp - lp), ndl, &sp, &ep, NULL);
		if (dt_unk_p(d)) {
			break;
		}
		*anydate = 1;
		if (dexpr_matches_p(root, d)) {
			return 1;
		}
	}
	return 0;
}

static uint64_t *c_forks;

/* -i formats in force for the next run_expr()/run_dgrep() (NULL: none), as dgrep's main() sets them */
static char *cur_fmt[2];
static size_t cur_nfmt;
static const char *cur_loc;	/* --from-locale for run_dgrep() */

static void
run_expr(const char *expr, char lines[][40], int nlines, struct xres *r)
{
	pid_t pid;
	int st = 0;

	memset((void*)shm, 0, sizeof(*shm));
	memset(r, 0, sizeof(*r));
	fflush(stdout);
	++*c_forks;
	if ((pid = fork()) < 0) {
		perror("fork");
		exit(3);
	}
	if (pid == 0) {
		dexpr_t root = NULL;
		struct grep_atom_s nstk[16];
		struct grep_atom_soa_s ndl;
		size_t l = strlen(expr);
		char *arg;
		int nfd = open("/dev/null", O_WRONLY);
		struct itimerval z = {{0, 0}, {0, 0}};

		setitimer(ITIMER_REAL, &z, NULL);
		signal(SIGALRM, SIG_DFL);
		signal(SIGSEGV, SIG_DFL);
		signal(SIGBUS, SIG_DFL);
		signal(SIGFPE, SIG_DFL);
		signal(SIGABRT, SIG_DFL);
		if (!getenv("C17_CHILD_STDERR")) {
			dup2(nfd, 2);
		}
		alarm(10);
		shm->in_child = 1;
		/* the expression in an exact-size heap block, as an argv string would be */
		arg = malloc(l + 1);
		memcpy(arg, expr, l + 1);
		/* dgrep's main(): the -i formats also read the constants of the expression */
		ckv_fmt = cur_nfmt ? cur_fmt : NULL;
		ckv_nfmt = cur_nfmt;
		shm->stage = ST_PARSE;
		shm->parse_rc = dexpr_parse(&root, arg, l);
		if (shm->parse_rc < 0 || root == NULL) {
			shm->parse_rc = -1;
			shm->stage = ST_DONE;
			_exit(0);
		}
		shm->stage = ST_SIMPLIFY;
		dexpr_simplify(root);
		shm->stage = ST_MATCH;
		ndl = build_needle(nstk, countof(nstk), cur_nfmt ? cur_fmt : NULL, cur_nfmt);
		for (int i = 0; i < nlines; i++) {
			char lb[48];
			int any;
			size_t ll = strlen(lines[i]);
			memcpy(lb, lines[i], ll + 1);
			if (line_matches(root, &ndl, lb, ll, &any)) {
				shm->sel |= 1U << i;
			}
			if (!any) {
				shm->nodate |= 1U << i;
			}
		}
		shm->stage = ST_FREE;
		free_dexpr(root);
		shm->stage = ST_DONE;
		_exit(0);
	}
	while (waitpid(pid, &st, 0) < 0 && errno == EINTR) {
		;
	}
	r->parse_rc = shm->parse_rc;
	r->sel = shm->sel;
	r->nodate = shm->nodate;
	r->stage = shm->stage;
	r->died = shm->stage != ST_DONE;
	r->sig = WIFSIGNALED(st) ? WTERMSIG(st) : 0;
	r->hang = r->sig == SIGALRM;
	r->asan_hits = shm->asan_hits;
	r->asan_stage = shm->asan_stage;
	memcpy(r->asan_desc, shm->asan_desc, sizeof(r->asan_desc));
}

/* ---- cache of results: (lineset, rendering, tree) ---- */
struct cent {
	uint64_t h;
	struct xres r;
	int used;
};
#define CBITS	17
static struct cent *cache;

static void
run_tree(const char *tree, int set, int nl, int mode, struct xres *r)
{
	char expr[512], key[96];
	char lines[32][40];
	uint64_t h;
	uint32_t i;

	snprintf(key, sizeof(key), "%d/%d/%d/%s", set, nl, mode, tree);
	h = ex_hash(key, strlen(key)) | 1U;
	for (i = (uint32_t)(h >> 11) & ((1U << CBITS) - 1U); cache[i].used; i = (i + 1U) & ((1U << CBITS) - 1U)) {
		if (cache[i].h == h) {
			*r = cache[i].r;
			return;
		}
	}
	render(expr, sizeof(expr), tree, sets[set].atom, mode);
	for (unsigned int b = 0; b < (1U << nl); b++) {
		mk_line(lines[b], sizeof(lines[b]), set, b);
	}
	run_expr(expr, lines, 1 << nl, r);
	{
		static uint32_t nused;
		if (++nused > (1U << CBITS) / 4U * 3U) {
			fprintf(stderr, "c17: result cache full\n");
			exit(3);
		}
	}
	cache[i].used = 1;
	cache[i].h = h;
	cache[i].r = *r;
}

/* ---- judging ---- */
enum { F_WRONG = 1, F_DIED = 2, F_ASAN = 4, F_PARSE = 8, F_HANG = 16 };

static uint32_t
oracle_sel(const char *tree, int nl)
{
	uint32_t sel = 0;
	for (unsigned int b = 0; b < (1U << nl); b++) {
		const char *s = tree;
		if (t_eval(&s, b)) {
			sel |= 1U << b;
		}
	}
	return sel;
}

/* the failure kinds of a result, with a text per kind */
static int
failures(const char *tree, int nl, const struct xres *r, char kind[5][96])
{
	int f = 0;
	if (r->hang) {
		f |= F_HANG;
		snprintf(kind[4], 96, "hang in %s", stage_name[r->stage]);
		return f;
	}
	if (r->parse_rc < 0) {
		f |= F_PARSE;
		snprintf(kind[3], 96, "parse error");
	}
	if (r->asan_hits) {
		f |= F_ASAN;
		snprintf(kind[2], 96, "asan %s in %s", r->asan_desc, stage_name[r->asan_stage]);
	}
	if (r->died && !(r->asan_hits && r->asan_stage == r->stage)) {
		/* a death right after an ASan report in the same stage is that report */
		f |= F_DIED;
		snprintf(kind[1], 96, "died in %s (signal %d)", stage_name[r->stage], r->sig);
	}
	if (r->parse_rc >= 0 && r->stage >= ST_FREE && r->sel != oracle_sel(tree, nl)) {
		f |= F_WRONG;
		snprintf(kind[0], 96, "wrong selection");
	}
	return f;
}

/* does TREE (run on the lines of (set, nl)) fail with kind text KIND? */
static int
fails_with(const char *tree, int set, int nl, int mode, int fbit, const char *kind)
{
	struct xres r;
	char k[5][96];
	int f;
	run_tree(tree, set, nl, mode, &r);
	f = failures(tree, nl, &r, k);
	if (!(f & fbit)) {
		return 0;
	}
	for (int i = 0; i < 5; i++) {
		if ((1 << i) == fbit) {
			return !strcmp(k[i], kind);
		}
	}
	return 0;
}

/* greedy reduction to an irreducible failing tree */
static void
reduce(char *tree, int set, int nl, int mode, int fbit, const char *kind)
{
	for (int again = 1; again;) {
		again = 0;
		/* 1. a child subtree of the root */
		{
			const char *s = tree;
			while (*s == '!') {
				s++;
			}
			if (*s == '&' || *s == '|') {
				const char *l = s + 1, *le = t_end(l), *re = t_end(le);
				char cand[4][MAXT];
				snprintf(cand[0], MAXT, "%.*s", (int)(le - l), l);
				snprintf(cand[1], MAXT, "%.*s", (int)(re - le), le);
				/* under a negated root the negation is pushed down to the children:
				 * the children as the rewriting sees them have the other polarity */
				for (int c = 0; c < 2; c++) {
					if (!(strspn(tree, "!") & 1U)) {
						cand[2 + c][0] = '\0';
					} else if (cand[c][0] == '!') {
						snprintf(cand[2 + c], MAXT, "%s", cand[c] + 1);
					} else {
						snprintf(cand[2 + c], MAXT, "!%s", cand[c]);
					}
				}
				for (int c = 0; c < 4 && !again; c++) {
					if (cand[c][0] == '\0' || (t_nleaves(cand[c]) == 1 && cand[c][0] != '!')) {
						continue;
					}
					if (fails_with(cand[c], set, nl, mode, fbit, kind)) {
						snprintf(tree, MAXT, "%s", cand[c]);
						again = 1;
					}
				}
				if (again) {
					continue;
				}
			}
		}
		/* 2. replace an inner node by one of its children (lifts a subtree anywhere) */
		for (size_t i = 0; tree[i] && !again; i++) {
			if (tree[i] == '&' || tree[i] == '|') {
				size_t b = i;
				const char *l = tree + i + 1, *le = t_end(l), *re = t_end(le);
				while (b > 0 && tree[b - 1] == '!') {
					b--;
				}
				if (b == 0) {
					continue;	/* the root: done above */
				}
				for (int c = 0; c < 2 && !again; c++) {
					char cand[MAXT];
					const char *cs = c ? le : l, *ce = c ? re : le;
					snprintf(cand, MAXT, "%.*s%.*s%s", (int)b, tree, (int)(ce - cs), cs, re);
					if (fails_with(cand, set, nl, mode, fbit, kind)) {
						snprintf(tree, MAXT, "%s", cand);
						again = 1;
					}
				}
			}
		}
		if (again) {
			continue;
		}
		/* 3. clear one negation flag */
		for (size_t i = 0; tree[i] && !again; i++) {
			if (tree[i] == '!') {
				char cand[MAXT];
				snprintf(cand, MAXT, "%.*s%s", (int)i, tree, tree + i + 1);
				if (fails_with(cand, set, nl, mode, fbit, kind)) {
					snprintf(tree, MAXT, "%s", cand);
					again = 1;
				}
			}
		}
	}
}

static void
sel_text(char *out, size_t osz, uint32_t sel, int nl)
{
	size_t k = 0;
	for (int b = 0; b < (1 << nl) && k + 2 < osz; b++) {
		out[k++] = (sel >> b) & 1U ? '1' : '0';
	}
	out[k] = '\0';
}

static uint64_t *c_states, *c_trans, *c_eval, *c_traces, *c_nontriv;

/* one tree in one rendering: run, judge, classify */
static int
do_tree(const char *tree, int set, int mode, int replay)
{
	int nl = t_nleaves(tree);
	struct xres r;
	char kind[5][96], expr[512], cas[128], cmd[640], selg[40], sele[40];
	int f;

	run_tree(tree, set, nl, mode, &r);
	++*c_eval;
	*c_states += 1U << nl;
	*c_trans += 1U << nl;
	f = failures(tree, nl, &r, kind);
	render(expr, sizeof(expr), tree, sets[set].atom, mode);
	ex_outcome(ex_hash_mix(ex_hash(expr, strlen(expr)), ((uint64_t)r.sel << 8) ^ (uint64_t)r.stage ^ ((uint64_t)r.asan_hits << 40)));
	if (!r.died && r.parse_rc >= 0) {
		++*c_traces;
	}
	sel_text(selg, sizeof(selg), r.sel, nl);
	sel_text(sele, sizeof(sele), oracle_sel(tree, nl), nl);
	if (replay) {
		printf("  expression '%s' (%s, leaves %s): parse rc %d, last stage %s, %s, asan reports %d%s%s; selected %s, truth table %s\n",
		       expr, rend_name[mode], sets[set].name, r.parse_rc, stage_name[r.stage],
		       r.died ? (r.sig ? "child killed by a signal" : "child exited early") : "child completed",
		       r.asan_hits, r.asan_hits ? " first: " : "", r.asan_hits ? r.asan_desc : "", selg, sele);
	}
	if (!f) {
		return 0;
	}
	snprintf(cas, sizeof(cas), "tree %d %d %s", set, mode, tree);
	snprintf(cmd, sizeof(cmd), "dgrep '%s' < lines   # the %d lines of leaf set %s, one per truth assignment", expr, 1 << nl, sets[set].name);
	for (int i = 0; i < 5; i++) {
		char red[MAXT], sk[128], key[320], rexpr[256];
		if (!(f & (1 << i))) {
			continue;
		}
		snprintf(red, sizeof(red), "%s", tree);
		reduce(red, set, nl, mode, 1 << i, kind[i]);
		skeleton(sk, sizeof(sk), red);
		render(rexpr, sizeof(rexpr), red, sets[set].atom, mode);
		snprintf(key, sizeof(key), "%s%s | %s", mode == R_BLANK ? "blank-separated: " : mode == R_TAB ? "tab-separated: " : "", kind[i], sk);
		ex_viol(key, (double)nl, cas, cmd, "'%s' (%s): %s; lines selected %s, truth table of the written expression %s (line i = assignment i, leaf 1 = lowest bit); "
			"smallest expression that still fails this way: '%s'", expr, rend_name[mode], kind[i], selg, sele, rexpr);
		if (replay) {
			printf("  -> %s; reduces to '%s' (class %s)\n", kind[i], rexpr, key);
		}
	}
	return 1;
}

/* ---- atom semantics ---- */
struct afield {
	const char *name;
	const char *kind;	/* key: the fields of one kind share the code path; the field is the ordered coordinate */
	const char *lhs;	/* specifier or "" for a date/time bound */
	const char *val;	/* constant written in the expression */
	const char *line[7];	/* lines whose value is constant-3 .. constant+3; NULL: no such value */
	int ordered;		/* ordering operators meaningful */
	int printed;		/* the line's value is what the library prints for the specifier (dconv -f SPEC),
				 * read at run time; the lines are then in no particular order */
};
#define YLINES	{"2012-12-31", "2014-12-31", "2015-06-14", "2016-06-14", "2018-12-31", "2024-12-30", "2025-06-14"}
static const struct afield afields[] = {
	{"%Y", "numeric specifier", "%Y", "2012", {"2009-03-14", "2010-03-14", "2011-03-14", "2012-03-14", "2013-03-14", "2014-03-14", "2015-03-14"}, 1},
	{"%m", "numeric specifier", "%m", "6", {"2012-03-14", "2012-04-14", "2012-05-14", "2012-06-14", "2012-07-14", "2012-08-14", "2012-09-14"}, 1},
	{"%d", "numeric specifier", "%d", "16", {"2012-03-13", "2012-03-14", "2012-03-15", "2012-03-16", "2012-03-17", "2012-03-18", "2012-03-19"}, 1},
	{"%j", "numeric specifier", "%j", "76", {"2012-03-13", "2012-03-14", "2012-03-15", "2012-03-16", "2012-03-17", "2012-03-18", "2012-03-19"}, 1},
	/* May 2012 has five Wednesdays: count 1..5, constant 3 */
	{"%c", "numeric specifier", "%c", "3", {NULL, "2012-05-02", "2012-05-09", "2012-05-16", "2012-05-23", "2012-05-30", NULL}, 1},
	{"%a string", "name specifier", "%a", "\"Wed\"", {"2012-03-11", "2012-03-12", "2012-03-13", "2012-03-14", "2012-03-15", "2012-03-16", "2012-03-17"}, 0},
	{"%A string", "name specifier", "%A", "\"Wednesday\"", {"2012-03-11", "2012-03-12", "2012-03-13", "2012-03-14", "2012-03-15", "2012-03-16", "2012-03-17"}, 0},
	{"%b string", "name specifier", "%b", "\"Jun\"", {"2012-03-14", "2012-04-14", "2012-05-14", "2012-06-14", "2012-07-14", "2012-08-14", "2012-09-14"}, 0},
	{"%B string", "name specifier", "%B", "\"June\"", {"2012-03-14", "2012-04-14", "2012-05-14", "2012-06-14", "2012-07-14", "2012-08-14", "2012-09-14"}, 0},
	{"date", "date bound", "", "2012-03-16", {"2012-03-13", "2012-03-14", "2012-03-15", "2012-03-16", "2012-03-17", "2012-03-18", "2012-03-19"}, 1},
	{"time", "time bound", "", "12:00:00", {"2012-03-16T11:59:57", "2012-03-16T11:59:58", "2012-03-16T11:59:59", "2012-03-16T12:00:00", "2012-03-16T12:00:01", "2012-03-16T12:00:02", "2012-03-16T12:00:03"}, 1},
	{"date-time", "date-time bound", "", "2012-03-16T12:00:00", {"2012-03-16T11:59:57", "2012-03-16T11:59:58", "2012-03-16T11:59:59", "2012-03-16T12:00:00", "2012-03-16T12:00:01", "2012-03-16T12:00:02", "2012-03-16T12:00:03"}, 1},
	/* abbreviated years: calendar year and year of the ISO week date, two digits and (%_) one digit; the lines mix days whose
	 * ISO year is the next calendar year (2012-12-31, 2014-12-31, 2018-12-31, 2024-12-30) with mid-year days */
	{"%y", "two-digit year specifier", "%y", "15", YLINES, 1, 1},
	{"%g", "two-digit year specifier", "%g", "15", YLINES, 1, 1},
	{"%_y", "one-digit year specifier", "%_y", "5", YLINES, 1, 1},
	{"%_g", "one-digit year specifier", "%_g", "5", YLINES, 1, 1},
	{"%G", "four-digit ISO year specifier", "%G", "2015", YLINES, 1, 1},
};
#define NAFIELD	((int)(sizeof(afields) / sizeof(*afields)))
/* operators: text, relation as truth for (below, at, above) in bits 0..2 */
struct aop {
	const char *txt;
	unsigned int truth;
	int ordering;
	const char *word;	/* for the class key (file-name safe) */
};
static const struct aop aops[] = {
	{"=", 2U, 0, "eq"}, {"!=", 5U, 0, "ne"}, {"<", 1U, 1, "lt"}, {"<=", 3U, 1, "le"}, {">", 4U, 1, "gt"}, {">=", 6U, 1, "ge"},
	{"==", 2U, 0, "eqeq"}, {"<>", 5U, 0, "ltgt"}, {"", 2U, 0, "omitted"},
};
#define NAOP	((int)(sizeof(aops) / sizeof(*aops)))

/* truth of (value at distance DIST from the constant) OP constant */
static int
op_truth(const struct aop *o, int dist)
{
	return (int)((o->truth >> (dist < 0 ? 0 : dist == 0 ? 1 : 2)) & 1U);
}

static int
do_atom(int fi, int oi, int neg, int replay)
{
	const struct afield *a = afields + fi;
	const struct aop *o = aops + oi;
	char expr[128], cas[64], key[160], cmd[512];
	char lines[32][40];
	int dist[7], nl = 0;
	struct xres r;
	int bad = 0;
	size_t ck;
	EX_CTR(c_skip, "skipped:ordering operators on names of weekdays and months (no order stated)");
	EX_CTR(c_skip2, "skipped:a specifier without an operator is not in the documented grammar");
	EX_CTR(c_atoms, "atom_cases");

	if (o->ordering && !a->ordered) {
		++*c_skip;
		return 0;
	}
	if (o->txt[0] == '\0' && a->lhs[0]) {
		++*c_skip2;
		return 0;
	}
	if (neg && a->lhs[0] == '\0' && o->txt[0] == '=') {
		/* "!=" would be read as one token */
		snprintf(expr, sizeof(expr), "!(%s%s)", o->txt, a->val);
	} else {
		snprintf(expr, sizeof(expr), "%s%s%s%s", neg ? "!" : "", a->lhs, o->txt, a->val);
	}
	ck = (size_t)snprintf(cmd, sizeof(cmd), "printf '%%s\\n'");
	for (int i = 0; i < 7; i++) {
		if (a->line[i]) {
			snprintf(lines[nl], sizeof(lines[nl]), "%s", a->line[i]);
			if (a->printed) {
				/* what dconv -f SPEC prints for the line, minus the constant */
				char pb[32] = "";
				struct dt_dt_s v = dt_strpdt(a->line[i], NULL, NULL);
				int dd;
				dt_strfdt(pb, sizeof(pb), a->lhs, v);
				if (pb[0] < '0' || pb[0] > '9') {
					fprintf(stderr, "c17: '%s' printed with %s gives '%s'\n", a->line[i], a->lhs, pb);
					exit(3);
				}
				dd = atoi(pb) - atoi(a->val);
				dist[nl++] = dd < -3 ? -3 : dd > 3 ? 3 : dd;
				ck += (size_t)snprintf(cmd + ck, sizeof(cmd) - ck, " %s", a->line[i]);
				continue;
			}
			dist[nl++] = i - 3;
			ck += (size_t)snprintf(cmd + ck, sizeof(cmd) - ck, " %s", a->line[i]);
		}
	}
	snprintf(cmd + ck, sizeof(cmd) - ck, " | dgrep '%s'", expr);
	run_expr(expr, lines, nl, &r);
	++*c_eval;
	++*c_atoms;
	*c_states += (uint64_t)nl;
	*c_trans += (uint64_t)nl;
	ex_outcome(ex_hash_mix(ex_hash(expr, strlen(expr)), r.sel ^ ((uint64_t)r.stage << 8)));
	snprintf(cas, sizeof(cas), "atom %d %d %d", fi, oi, neg);
	snprintf(key, sizeof(key), "atom %s op-%s%s", a->kind, o->word, neg ? " negated" : "");
	if (replay) {
		printf("  atom '%s': parse rc %d, stage %s; lines at distance -3..+3 from the constant:", expr, r.parse_rc, stage_name[r.stage]);
		for (int i = 0; i < nl; i++) {
			printf(" %+d:%s/%s", dist[i], (r.sel >> i) & 1U ? "sel" : "no", (op_truth(o, dist[i]) ^ neg) ? "true" : "false");
		}
		printf("\n");
	}
	if (r.hang || r.died || r.asan_hits) {
		ex_viol(key, (double)fi, cas, cmd, "'%s': child %s in %s%s%s", expr, r.hang ? "hung" : r.died ? "died" : "had an ASan report",
			stage_name[r.asan_hits ? r.asan_stage : r.stage], r.asan_hits ? ": " : "", r.asan_hits ? r.asan_desc : "");
		return 1;
	}
	if (r.parse_rc < 0) {
		ex_viol(key, (double)fi, cas, cmd, "'%s' is rejected by the parser (the usage text lists this operator)", expr);
		return 1;
	}
	for (int i = 0; i < nl; i++) {
		int want = op_truth(o, dist[i]) ^ neg;
		if ((int)((r.sel >> i) & 1U) != want) {
			char k2[200];
			/* the distance is a coordinate of its own: a defect at one distance only (a sentinel
			 * value of the comparison) is not a defect of the whole operator */
			snprintf(k2, sizeof(k2), "%s at distance %s%d", key, dist[i] > 0 ? "plus" : dist[i] < 0 ? "minus" : "", dist[i] < 0 ? -dist[i] : dist[i]);
			if (a->printed) {
				/* distances are clamped and unordered here: the operator is the coordinate */
				snprintf(k2, sizeof(k2), "%s", key);
			}
			ex_viol(k2, (double)fi, cas, cmd, "'%s' on line '%s' (value = constant %+d): %s, but %s(line's value %s constant) is %s",
				expr, lines[i], dist[i], (r.sel >> i) & 1U ? "selected" : "not selected", neg ? "not " : "", o->txt[0] ? o->txt : "=",
				want ? "true" : "false");
			bad = 1;
		}
	}
	return bad;
}

/* ---- ISO year and week atoms on every day around the turn of the year ----
 * %G %g %_g %V on the 8 days Dec 28 .. Jan 4 of each of the 28 turns 2000/01 .. 2027/28 (every weekday x leap
 * combination: a Sunday Jan 3rd still belongs to the old ISO year, a Monday Dec 29th already to the new one);
 * the line's value is what the library prints for the specifier (dconv -f SPEC), the constant is what it prints
 * for Jan 4 (always in week 1 of the new ISO year) */
static const struct {
	const char *spec, *kind;
} turnspec[4] = {
	{"%G", "four-digit ISO year specifier"}, {"%g", "two-digit year specifier"}, {"%_g", "one-digit year specifier"}, {"%V", "ISO week number specifier"},
};
#define TURN_Y0	2000
#define TURN_NY	28

static int
do_turn(int si, int yi, int oi, int neg, int replay)
{
	const struct aop *o = aops + oi;
	char expr[64], cas[64], key[160], cmd[400];
	char lines[32][40];
	int val[8], cst;
	struct xres r;
	int bad = 0, y = TURN_Y0 + yi;
	EX_CTR(c_turn, "turn_of_year_cases");

	if (o->txt[0] == '\0') {
		return 0;
	}
	for (int i = 0; i < 8; i++) {
		char pb[32] = "";
		struct dt_dt_s v;
		if (i < 4) {
			snprintf(lines[i], sizeof(lines[i]), "%04d-12-%02d", y, 28 + i);
		} else {
			snprintf(lines[i], sizeof(lines[i]), "%04d-01-%02d", y + 1, i - 3);
		}
		v = dt_strpdt(lines[i], NULL, NULL);
		dt_strfdt(pb, sizeof(pb), turnspec[si].spec, v);
		if (pb[0] < '0' || pb[0] > '9') {
			fprintf(stderr, "c17: '%s' printed with %s gives '%s'\n", lines[i], turnspec[si].spec, pb);
			exit(3);
		}
		val[i] = atoi(pb);
	}
	cst = val[7];
	snprintf(expr, sizeof(expr), "%s%s%s%d", neg ? "!" : "", turnspec[si].spec, o->txt, cst);
	run_expr(expr, lines, 8, &r);
	++*c_eval;
	++*c_turn;
	*c_states += 8;
	*c_trans += 8;
	ex_outcome(ex_hash_mix(ex_hash(expr, strlen(expr)), r.sel ^ ((uint64_t)yi << 12) ^ ((uint64_t)r.stage << 24)));
	snprintf(cas, sizeof(cas), "turn %d %d %d %d", si, yi, oi, neg);
	snprintf(cmd, sizeof(cmd), "printf '%%s\\n' %s %s %s %s %s %s %s %s | dgrep '%s'", lines[0], lines[1], lines[2], lines[3], lines[4], lines[5], lines[6], lines[7], expr);
	snprintf(key, sizeof(key), "atom %s op-%s%s at the turn of the year", turnspec[si].kind, o->word, neg ? " negated" : "");
	if (replay) {
		printf("  '%s' on %s .. %s: parse rc %d, stage %s, selected %02x; printed values %d %d %d %d %d %d %d %d\n", expr, lines[0], lines[7], r.parse_rc,
		       stage_name[r.stage], r.sel, val[0], val[1], val[2], val[3], val[4], val[5], val[6], val[7]);
	}
	if (r.hang || r.died || r.asan_hits || r.parse_rc < 0) {
		ex_viol(key, (double)y, cas, cmd, "'%s': %s", expr, r.parse_rc < 0 ? "rejected by the parser" : "child hung, died or had an ASan report");
		return 1;
	}
	for (int i = 0; i < 8; i++) {
		int want = op_truth(o, val[i] - cst) ^ neg;
		if ((int)((r.sel >> i) & 1U) != want) {
			ex_viol(key, (double)y, cas, cmd, "'%s' on line '%s' (dconv -f %s prints %d): %s, but %s(%d %s %d) is %s", expr, lines[i], turnspec[si].spec, val[i],
				(r.sel >> i) & 1U ? "selected" : "not selected", neg ? "not " : "", val[i], o->txt, cst, want ? "true" : "false");
			bad = 1;
		}
	}
	return bad;
}

/* ---- pairs of atoms: every atom kind x operator (also omitted) in front of and behind every other ---- */
enum { PK_Y, PK_A, PK_DATE, PK_TIME, PK_DT, NPK };
static const char *const pk_name[NPK] = {"numeric specifier", "name specifier", "date bound", "time bound", "date-time bound"};
static const char *const pk_lhs[NPK] = {"%Y", "%a", "", "", ""};
static const char *const pk_val[NPK] = {"2012", "\"Wed\"", "2012-03-14", "12:00:00", "2012-03-14T12:00:00"};
/* operators of a pair atom: indices into aops: = != < <= > >= omitted */
static const int pk_ops[7] = {0, 1, 2, 3, 4, 5, 8};
struct patom {
	int kind, op;
	char txt[40];
};
static struct patom patoms[NPK * 7];
static int npatoms;
#define NGRID	15
static char grid[32][40];
static int grid_y[NGRID], grid_date[NGRID], grid_sec[NGRID], grid_wd[NGRID];

static void
mk_pairs(void)
{
	static const int gd[5][3] = {{2011, 3, 14}, {2012, 3, 13}, {2012, 3, 14}, {2012, 3, 15}, {2013, 3, 14}};
	static const int gh[3] = {11, 12, 13};
	int n = 0;
	for (int i = 0; i < 5; i++) {
		for (int j = 0; j < 3; j++, n++) {
			snprintf(grid[n], sizeof(grid[n]), "%04d-%02d-%02dT%02d:00:00", gd[i][0], gd[i][1], gd[i][2], gh[j]);
			grid_y[n] = gd[i][0];
			grid_date[n] = gd[i][0] * 10000 + gd[i][1] * 100 + gd[i][2];
			grid_sec[n] = gh[j] * 3600;
			grid_wd[n] = c17_wday(gd[i][0], gd[i][1], gd[i][2]);
		}
	}
	for (int k = 0; k < NPK; k++) {
		for (int q = 0; q < 7; q++) {
			const struct aop *o = aops + pk_ops[q];
			if (k == PK_A && o->ordering) {
				continue;	/* no order on names */
			}
			if (o->txt[0] == '\0' && pk_lhs[k][0]) {
				continue;	/* a specifier needs an operator */
			}
			patoms[npatoms].kind = k;
			patoms[npatoms].op = pk_ops[q];
			snprintf(patoms[npatoms].txt, sizeof(patoms[npatoms].txt), "%s%s%s", pk_lhs[k], o->txt, pk_val[k]);
			npatoms++;
		}
	}
}

/* truth of pair atom A on grid line I: the line's value OP the constant */
static int
patom_truth(const struct patom *a, int i)
{
	int d;
	switch (a->kind) {
	case PK_Y:
		d = grid_y[i] - 2012;
		break;
	case PK_A:
		d = grid_wd[i] == 3 ? 0 : 1;
		break;
	case PK_DATE:
		d = grid_date[i] - 20120314;
		break;
	case PK_TIME:
		d = grid_sec[i] - 43200;
		break;
	default:
		d = grid_date[i] != 20120314 ? grid_date[i] - 20120314 : grid_sec[i] - 43200;
		break;
	}
	return op_truth(aops + a->op, d);
}

/* does the single atom behave on the grid (else the pairs with it say nothing about pairs) */
static int
patom_alone_ok(int ai)
{
	static signed char memo[NPK * 7];
	if (memo[ai] == 0) {
		struct xres r;
		uint32_t want = 0;
		char key[160], cas[48], cmd[128];
		run_expr(patoms[ai].txt, grid, NGRID, &r);
		for (int i = 0; i < NGRID; i++) {
			want |= (uint32_t)patom_truth(patoms + ai, i) << i;
		}
		memo[ai] = (r.parse_rc >= 0 && !r.died && !r.asan_hits && r.sel == want) ? 1 : -1;
		if (memo[ai] < 0) {
			snprintf(key, sizeof(key), "atom on the pair grid | %s op-%s", pk_name[patoms[ai].kind], aops[patoms[ai].op].word);
			snprintf(cas, sizeof(cas), "pair1 %d", ai);
			snprintf(cmd, sizeof(cmd), "dgrep '%s' < grid   # 5 dates x 3 times", patoms[ai].txt);
			ex_viol(key, (double)ai, cas, cmd, "'%s' alone on the 15 grid lines: parse rc %d, %s, selected %04x, comparison semantics say %04x",
				patoms[ai].txt, r.parse_rc, r.died ? "child died" : "child completed", r.sel, want);
		}
	}
	return memo[ai] > 0;
}

static int
do_pair(int ai, int bi, int disj, int replay)
{
	char expr[128], key[240], cas[64], cmd[200];
	struct xres r;
	uint32_t want = 0;
	const char *kind = NULL;
	char kb[96];
	EX_CTR(c_pairs, "pair_cases");
	EX_CTR(c_skip, "skipped:pairs with an atom that fails alone (reported under its own key)");

	if (!patom_alone_ok(ai) || !patom_alone_ok(bi)) {
		++*c_skip;
		return 0;
	}
	snprintf(expr, sizeof(expr), "%s%s%s", patoms[ai].txt, disj ? "||" : "&&", patoms[bi].txt);
	for (int i = 0; i < NGRID; i++) {
		int ta = patom_truth(patoms + ai, i), tb = patom_truth(patoms + bi, i);
		want |= (uint32_t)(disj ? (ta || tb) : (ta && tb)) << i;
	}
	run_expr(expr, grid, NGRID, &r);
	++*c_eval;
	++*c_pairs;
	*c_states += NGRID;
	*c_trans += NGRID;
	if (!r.died && r.parse_rc >= 0) {
		++*c_traces;
	}
	ex_outcome(ex_hash_mix(ex_hash(expr, strlen(expr)), r.sel ^ ((uint64_t)r.stage << 20)));
	if (replay) {
		printf("  pair '%s' on the 15 grid lines: parse rc %d, last stage %s, asan reports %d, selected %04x, comparison semantics say %04x\n",
		       expr, r.parse_rc, stage_name[r.stage], r.asan_hits, r.sel, want);
	}
	if (r.hang) {
		kind = "hang";
	} else if (r.parse_rc < 0) {
		kind = "parse error";
	} else if (r.asan_hits) {
		snprintf(kb, sizeof(kb), "asan %s in %s", r.asan_desc, stage_name[r.asan_stage]);
		kind = kb;
	} else if (r.died) {
		snprintf(kb, sizeof(kb), "died in %s", stage_name[r.stage]);
		kind = kb;
	} else if (r.sel != want) {
		kind = "wrong selection";
	}
	if (kind == NULL) {
		return 0;
	}
	snprintf(key, sizeof(key), "pair: %s | %s op-%s behind an atom with op-%s", kind, pk_name[patoms[bi].kind], aops[patoms[bi].op].word, aops[patoms[ai].op].word);
	snprintf(cas, sizeof(cas), "pair %d %d %d", ai, bi, disj);
	snprintf(cmd, sizeof(cmd), "dgrep '%s' < grid   # {2011-03-14,2012-03-13,2012-03-14,2012-03-15,2013-03-14} x T{11,12,13}:00:00", expr);
	ex_viol(key, (double)(ai * npatoms + bi), cas, cmd, "'%s' (%s %s %s): %s; selected %04x of the 15 grid lines, comparison semantics say %04x (bit = 3*date + time); each atom alone is right",
		expr, pk_name[patoms[ai].kind], disj ? "or" : "and", pk_name[patoms[bi].kind], kind, r.sel, want);
	return 1;
}

static int bind_common(const char *expr, char lines[][40], int nlines, const struct xres *rp, int inv, const char *cas, const char *what, double ord, int replay);

/* ---- lines in every representation x every atom kind ---- */
#define NRDAY	7
static const int rday[NRDAY][3] = {{2012, 2, 28}, {2012, 2, 29}, {2012, 3, 1}, {2012, 3, 2}, {2012, 3, 5}, {2012, 12, 31}, {2013, 1, 1}};
#define RREF	2	/* the constants of the atoms denote day 2 (2012-03-01, a Thursday, 10:00:00) */
static struct rdinfo {
	int y, m, d, wd, yday, isoy, isow, mcnt, bd;
	long dnum;	/* days since 1970-01-01 */
	int sec;	/* time of day used on lines that carry one */
} rdi[NRDAY];

static int
c17_ylen(int y)
{
	return c17_leap(y) ? 366 : 365;
}

static void
mk_rdays(void)
{
	for (int i = 0; i < NRDAY; i++) {
		struct rdinfo *p = rdi + i;
		int wk;
		p->y = rday[i][0], p->m = rday[i][1], p->d = rday[i][2];
		p->wd = c17_wday(p->y, p->m, p->d);
		p->yday = p->d;
		for (int mm = 1; mm < p->m; mm++) {
			p->yday += c17_mlen(p->y, mm);
		}
		/* ISO 8601: the week with the year's first Thursday is week 1 */
		wk = (p->yday - p->wd + 10) / 7;
		p->isoy = p->y;
		if (wk < 1) {
			p->isoy = p->y - 1;
			wk = (p->yday + c17_ylen(p->y - 1) - p->wd + 10) / 7;
		} else if (wk == 53 && (p->yday - p->wd + 10 - c17_ylen(p->y)) / 7 >= 1) {
			p->isoy = p->y + 1;
			wk = 1;
		}
		p->isow = wk;
		p->mcnt = (p->d - 1) / 7 + 1;
		p->bd = 0;
		for (int dd = 1; dd <= p->d; dd++) {
			p->bd += c17_wday(p->y, p->m, dd) <= 5;
		}
		p->dnum = 0;
		for (int yy = 1970; yy < p->y; yy++) {
			p->dnum += c17_ylen(yy);
		}
		p->dnum += p->yday - 1;
		p->sec = (9 + i % 3) * 3600;
	}
	/* anchors: 2012-03-01 = 2012-W09-4 = day 61 = 1330560000; 2012-12-31 = 2013-W01-1; 2012-02-29 = 21st business day */
	if (rdi[2].isow != 9 || rdi[2].wd != 4 || rdi[2].yday != 61 || rdi[2].dnum * 86400L != 1330560000L ||
	    rdi[5].isoy != 2013 || rdi[5].isow != 1 || rdi[5].wd != 1 || rdi[6].isow != 1 || rdi[1].bd != 21 || rdi[5].bd != 21 || rdi[4].bd != 3) {
		fprintf(stderr, "c17: representation grid self-check failed\n");
		exit(3);
	}
}

enum { CAL_YMD, CAL_YWD, CAL_YMCW, CAL_YD, CAL_BIZDA, CAL_EPOCH, CAL_NONE };
struct repr {
	const char *label;
	const char *fmt;	/* -i format or NULL */
	int has_date, has_time;
	int cal;		/* the calendar the value is held in */
	const char *cls;	/* class of lines for the key: held calendar, with/without time, read with -i or not */
	const char *loc;	/* --from-locale, judged through the binary only (main() orders parse and locale) */
};
enum { RP_YMD, RP_YWD, RP_YMCW, RP_YD, RP_YD_FMT, RP_BIZDA, RP_EPOCH, RP_YMD_T, RP_YWD_T, RP_TIME, RP_DMY, RP_COMPACT, RP_COMPACT_RUN, RP_DBY, RP_DBY_DE, NREPR };
static const struct repr reprs[NREPR] = {
	{"ymd", NULL, 1, 0, CAL_YMD, "ymd dates"}, {"ywd", NULL, 1, 0, CAL_YWD, "ywd dates"}, {"ymcw", NULL, 1, 0, CAL_YMCW, "ymcw dates"},
	{"yd", NULL, 1, 0, CAL_YD, "yd dates"}, {"yd read with -i %Y-%j", "%Y-%j", 1, 0, CAL_YD, "yd dates read with -i"},
	{"bizda read with -i %Y-%m-%db", "%Y-%m-%db", 1, 0, CAL_BIZDA, "bizda dates read with -i"}, {"epoch read with -i %s", "%s", 1, 1, CAL_EPOCH, "epoch stamps read with -i"},
	{"ymd date-time", NULL, 1, 1, CAL_YMD, "ymd date-times"}, {"ywd date-time", NULL, 1, 1, CAL_YWD, "ywd date-times"},
	{"time only", NULL, 0, 1, CAL_NONE, "times without a date"}, {"dmy read with -i %d/%m/%Y", "%d/%m/%Y", 1, 0, CAL_YMD, "ymd dates read with -i"},
	{"compact read with -i %Y%m%d", "%Y%m%d", 1, 0, CAL_YMD, "ymd dates read with -i"},
	{"compact behind a digit run read with -i %Y%m%d", "%Y%m%d", 1, 0, CAL_YMD, "ymd dates read with -i"}, {"dby read with -i %d%b%Y", "%d%b%Y", 1, 0, CAL_YMD, "ymd dates read with -i"},
	{"d b Y read with -i and --from-locale de_DE", "%d %b %Y", 1, 0, CAL_YMD, "ymd dates read with -i and --from-locale", "de_DE"},
};

static void
repr_line(char *buf, size_t bsz, int rp, int i)
{
	const struct rdinfo *p = rdi + i;
	static const char *const mon[13] = {"", "Jan", "Feb", "Mar", "Apr", "May", "Jun", "Jul", "Aug", "Sep", "Oct", "Nov", "Dec"};
	int H = p->sec / 3600;
	switch (rp) {
	case RP_YMD: snprintf(buf, bsz, "%04d-%02d-%02d", p->y, p->m, p->d); break;
	case RP_YWD: snprintf(buf, bsz, "%04d-W%02d-%d", p->isoy, p->isow, p->wd); break;
	case RP_YMCW: snprintf(buf, bsz, "%04d-%02d-%02d-%02d", p->y, p->m, p->mcnt, p->wd); break;
	case RP_YD:
	case RP_YD_FMT: snprintf(buf, bsz, "%04d-%03d", p->y, p->yday); break;
	case RP_BIZDA: snprintf(buf, bsz, "%04d-%02d-%02db", p->y, p->m, p->bd); break;
	case RP_EPOCH: snprintf(buf, bsz, "%ld", p->dnum * 86400L + p->sec); break;
	case RP_YMD_T: snprintf(buf, bsz, "%04d-%02d-%02dT%02d:00:00", p->y, p->m, p->d, H); break;
	case RP_YWD_T: snprintf(buf, bsz, "%04d-W%02d-%dT%02d:00:00", p->isoy, p->isow, p->wd, H); break;
	case RP_TIME: snprintf(buf, bsz, "%02d:00:00", H); break;
	case RP_DMY: snprintf(buf, bsz, "%02d/%02d/%04d", p->d, p->m, p->y); break;
	case RP_COMPACT: snprintf(buf, bsz, "%04d%02d%02d", p->y, p->m, p->d); break;
	case RP_COMPACT_RUN: snprintf(buf, bsz, "x 1 %04d%02d%02d", p->y, p->m, p->d); break;
	case RP_DBY: snprintf(buf, bsz, "%02d%s%04d", p->d, mon[p->m], p->y); break;
	case RP_DBY_DE: {
		static const char *const mde[13] = {"", "Jan", "Feb", "M\xc3\xa4r", "Apr", "Mai", "Jun", "Jul", "Aug", "Sep", "Okt", "Nov", "Dez"};
		snprintf(buf, bsz, "%02d %s %04d", p->d, mde[p->m], p->y);
		break;
	}
	}
}

/* atoms of the grid: constants denote the reference day / 10:00:00 */
enum { RA_Y, RA_M, RA_D, RA_J, RA_A, RA_C, RA_G, RA_YY, RA_DATE_YMD, RA_DATE_YWD, RA_DATE_YD, RA_EPOCH, RA_DT, RA_TIME, RA_OWN, RA_DB, RA_B, NRATOM };
struct ratom {
	const char *label, *lhs, *val;
	int needs_date, needs_time;	/* what the line must carry for the atom to have a value */
	int names;			/* only = and != */
	int cal;			/* calendar of the constant, -1: a specifier atom */
	const char *cls;		/* class of atoms for the key */
};
static const struct ratom ratoms[NRATOM] = {
	{"%Y", "%Y", "2012", 1, 0, 0, -1, "specifier of %Y %m %d %j %a %c"}, {"%m", "%m", "3", 1, 0, 0, -1, "specifier of %Y %m %d %j %a %c"},
	{"%d", "%d", "1", 1, 0, 0, -1, "specifier of %Y %m %d %j %a %c"}, {"%j", "%j", "61", 1, 0, 0, -1, "specifier of %Y %m %d %j %a %c"},
	{"%a", "%a", "\"Thu\"", 1, 0, 1, -1, "specifier of %Y %m %d %j %a %c"}, {"%c", "%c", "1", 1, 0, 0, -1, "specifier of %Y %m %d %j %a %c"},
	{"%G", "%G", "2012", 1, 0, 0, -1, "specifier %G"}, {"%y", "%y", "12", 1, 0, 0, -1, "specifier %y"},
	{"date constant ymd", "", "2012-03-01", 1, 0, 0, CAL_YMD, "date constant"}, {"date constant ywd", "", "2012-W09-4", 1, 0, 0, CAL_YWD, "date constant"},
	{"date constant yd", "", "2012-061", 1, 0, 0, CAL_YD, "date constant"},
	{"date-time constant epoch", "", "@1330596000", 1, 1, 0, CAL_EPOCH, "date-time constant"}, {"date-time constant", "", "2012-03-01T10:00:00", 1, 1, 0, CAL_YMD, "date-time constant"},
	{"time constant", "", "10:00:00", 0, 1, 0, -1, "time constant"},
	/* the reference day written exactly like the lines (with -i: in that format) */
	{"constant in the lines' own notation", "", NULL, 1, 0, 0, -2, "constant written in the lines' own notation"},
	{"%db", "%db", "3", 1, 0, 0, -1, "specifier %db"},
	{"%b name", "%b", "\"Mar\"", 1, 0, 1, -1, "specifier %b with a name"},
};

/* -1 below, 0 equal, +1 above: the line's value against the atom's constant; 2: not judged (reading) */
static int
ratom_cmp(int ai, int rp, int i)
{
	const struct rdinfo *p = rdi + i, *q = rdi + RREF;
	long a, b;
	switch (ai) {
	case RA_Y: a = p->y, b = 2012; break;
	case RA_M: a = p->m, b = 3; break;
	case RA_D: a = p->d, b = 1; break;
	case RA_J: a = p->yday, b = 61; break;
	case RA_A: a = p->wd, b = 4; break;
	case RA_C: a = p->mcnt, b = 1; break;
	case RA_G: a = p->isoy, b = 2012; break;
	case RA_YY: a = p->y % 100, b = 12; break;
	case RA_DATE_YMD:
	case RA_DATE_YWD:
	case RA_DATE_YD:
		/* a date constant against a line with a time of day: same day = equal or = midnight? not stated */
		if (reprs[rp].has_time && p->dnum == q->dnum) {
			return 2;
		}
		a = p->dnum, b = q->dnum;
		break;
	case RA_EPOCH:
	case RA_DT:
		a = p->dnum * 86400L + p->sec, b = q->dnum * 86400L + 36000L;
		break;
	case RA_OWN:
		if (reprs[rp].has_time) {
			a = p->dnum * 86400L + p->sec, b = q->dnum * 86400L + q->sec;
		} else {
			a = p->dnum, b = q->dnum;
		}
		break;
	case RA_DB: a = p->bd, b = 3; break;	/* 2012-03-05 is the 3rd business day, no day of the grid is a 3rd of the month */
	case RA_B: a = p->m, b = 3; break;
	default:
		a = p->sec, b = 36000L;
		break;
	}
	return a < b ? -1 : a > b;
}

static int run_dgrep(const char *expr, int inv, const char *infile, char *out, size_t osz, int *sig);
static int repr_cli;	/* judge the dgrep binary instead of the in-process pipeline */

static int
do_repr(int rp, int ai, int oi, int replay)
{
	const struct ratom *a = ratoms + ai;
	const struct aop *o = aops + oi;
	char expr[96], key[240], cas[64], cmd[400], kb[96];
	char lines[32][40];
	struct xres r;
	uint32_t want = 0, judged = 0;
	const char *kind = NULL;
	int lacks = (a->needs_date && !reprs[rp].has_date) || (a->needs_time && !reprs[rp].has_time);
	EX_CTR(c_rep, "representation_cases");
	EX_CTR(c_sk1, "skipped:!= on lines that lack the component the atom compares (whether that is true is not stated)");
	EX_CTR(c_sk2, "skipped:a date-time constant against lines without a time of day (not stated)");
	EX_CTR(c_sk3, "skipped:a date constant against the same day with a time of day (equal or midnight: not stated)");

	const char *val = a->val;
	char own[40];

	if (a->names && o->ordering) {
		return 0;
	}
	if ((reprs[rp].loc != NULL) != (repr_cli != 0)) {
		/* --from-locale: dgrep's main() decides when the locale is set, so only the binary is judged */
		return 0;
	}
	if (ai == RA_OWN) {
		if (rp == RP_TIME || rp == RP_COMPACT_RUN) {
			return 0;
		}
		repr_line(own, sizeof(own), rp, RREF);
		val = own;
		lacks = 0;
	} else if (ai == RA_B && reprs[rp].loc) {
		val = "\"M\xc3\xa4r\"";
	} else if (ai == RA_A && reprs[rp].loc) {
		/* names in the expression are input as well: Donnerstag */
		val = "\"Do\"";
	}
	if (lacks && a->needs_date && a->needs_time) {
		/* date-time constants against date-only or time-only lines */
		++*c_sk2;
		return 0;
	}
	if (lacks && oi == 1) {
		++*c_sk1;
		return 0;
	}
	snprintf(expr, sizeof(expr), "%s%s%s", a->lhs, o->txt, val);
	for (int i = 0; i < NRDAY; i++) {
		int c;
		repr_line(lines[i], sizeof(lines[i]), rp, i);
		if (lacks) {
			/* no value of that kind in the line: nothing for which the atom is true */
			judged |= 1U << i;
			continue;
		}
		if ((c = ratom_cmp(ai, rp, i)) == 2) {
			++*c_sk3;
			continue;
		}
		judged |= 1U << i;
		want |= (uint32_t)op_truth(o, c) << i;
	}
	cur_nfmt = 0;
	if (reprs[rp].fmt) {
		static char fb[32];
		snprintf(fb, sizeof(fb), "%s", reprs[rp].fmt);
		cur_fmt[0] = fb;
		cur_nfmt = 1;
	}
	if (!repr_cli) {
		run_expr(expr, lines, NRDAY, &r);
	} else {
		/* the binary: which of the lines come out */
		char fin[512], out[1024];
		const char *rundir = getenv("VERIF_RUNDIR");
		FILE *f;
		int sig = 0, rc;
		const char *op;
		memset(&r, 0, sizeof(r));
		snprintf(fin, sizeof(fin), "%s/c17r.%d.in", rundir ? rundir : "/tmp", (int)getpid());
		if ((f = fopen(fin, "w")) == NULL) {
			return 0;
		}
		for (int i = 0; i < NRDAY; i++) {
			fprintf(f, "%s\n", lines[i]);
		}
		fclose(f);
		cur_loc = reprs[rp].loc;
		rc = run_dgrep(expr, 0, fin, out, sizeof(out), &sig);
		cur_loc = NULL;
		unlink(fin);
		r.stage = ST_DONE;
		r.died = sig != 0;
		r.parse_rc = (rc == 1 && out[0] == '\0') ? -1 : 0;
		op = out;
		for (int i = 0; i < NRDAY && *op; i++) {
			size_t l = strlen(lines[i]);
			if (!strncmp(op, lines[i], l) && op[l] == '\n') {
				r.sel |= 1U << i;
				op += l + 1;
			}
		}
		if (*op) {
			/* output that is not a subsequence of the input */
			r.sel = ~0U;
		}
	}
	cur_nfmt = 0;
	++*c_eval;
	++*c_rep;
	*c_states += NRDAY;
	*c_trans += NRDAY;
	if (!r.died && r.parse_rc >= 0) {
		++*c_traces;
	}
	ex_outcome(ex_hash_mix(ex_hash(expr, strlen(expr)), r.sel ^ ((uint64_t)rp << 20) ^ ((uint64_t)r.stage << 28)));
	if (replay) {
		printf("  '%s'%s%s on the 7 days written as %s ('%s' .. '%s'): parse rc %d, stage %s, selected %02x, expected %02x (judged lines %02x)\n", expr,
		       reprs[rp].fmt ? " with -i " : "", reprs[rp].fmt ? reprs[rp].fmt : "", reprs[rp].label, lines[0], lines[NRDAY - 1], r.parse_rc, stage_name[r.stage],
		       r.sel & judged, want, judged);
	}
	if (r.hang) {
		kind = "hang";
	} else if (r.parse_rc < 0) {
		kind = "parse error";
	} else if (r.asan_hits) {
		snprintf(kb, sizeof(kb), "asan %s in %s", r.asan_desc, stage_name[r.asan_stage]);
		kind = kb;
	} else if (r.died) {
		snprintf(kb, sizeof(kb), "died in %s", stage_name[r.stage]);
		kind = kb;
	} else if (reprs[rp].has_date && (r.nodate & ((1U << NRDAY) - 1U)) == (1U << NRDAY) - 1U && (r.sel & judged) != want) {
		kind = "the date in the line is not found";
	} else if ((r.sel & judged) != want) {
		kind = lacks ? "selects lines that lack the component" : "wrong selection";
	}
	if (kind == NULL) {
		return 0;
	}
	if (repr_cli) {
		snprintf(key, sizeof(key), "repr (dgrep binary): %s | %s | %s", kind, reprs[rp].cls, a->cls);
	} else if (!strcmp(kind, "the date in the line is not found")) {
		/* nothing to do with the atom */
		snprintf(key, sizeof(key), "repr: %s | %s", kind, reprs[rp].label);
	} else if (ai == RA_G || ai == RA_YY || ai == RA_DB) {
		/* folded into the 4-digit calendar year whatever the line */
		snprintf(key, sizeof(key), "repr: %s | %s", kind, a->cls);
	} else if (a->cal == -2) {
		snprintf(key, sizeof(key), "repr: %s | %s | %s", kind, reprs[rp].cls, a->cls);
	} else if (a->cal >= 0) {
		snprintf(key, sizeof(key), "repr: %s | %s | %s written in %s calendar", kind, reprs[rp].cls, a->cls, a->cal == reprs[rp].cal ? "the same" : "another");
	} else {
		snprintf(key, sizeof(key), "repr: %s | %s | %s", kind, reprs[rp].cls, a->cls);
	}
	snprintf(cas, sizeof(cas), "repr %d %d %d", rp, ai, oi);
	snprintf(cmd, sizeof(cmd), "printf '%%s\\n' '%s' '%s' '%s' '%s' '%s' '%s' '%s' | dgrep %s%s%s%s%s'%s'", lines[0], lines[1], lines[2], lines[3], lines[4], lines[5], lines[6],
		 reprs[rp].loc ? "--from-locale " : "", reprs[rp].loc ? reprs[rp].loc : "", reprs[rp].loc ? " " : "",
		 reprs[rp].fmt ? "-i '" : "", reprs[rp].fmt ? reprs[rp].fmt : "", reprs[rp].fmt ? "' " : "", expr);
	ex_viol(key, (double)(ai * 6 + oi), cas, cmd, "'%s' on the days 2012-02-28, 02-29, 03-01, 03-02, 03-05, 12-31, 2013-01-01 written as %s (e.g. '%s'): %s; selected %02x, "
		"expected %02x of the judged lines %02x (bit i = day i)", expr, reprs[rp].label, lines[RREF], kind, r.sel & judged, want, judged);
	return 1;
}

static int
do_bind_repr(int rp, int ai, int oi, int inv, int replay)
{
	const struct ratom *a = ratoms + ai;
	char expr[96], cas[64], what[96];
	char lines[32][40];
	struct xres r;
	int rc;

	if (a->names && aops[oi].ordering) {
		return 0;
	}
	if (reprs[rp].loc) {
		/* judged against the oracle directly */
		int rc2;
		repr_cli = 1;
		rc2 = inv ? 0 : do_repr(rp, ai, oi, replay);
		repr_cli = 0;
		return rc2;
	}
	if (ai == RA_OWN) {
		char own[40];
		if (rp == RP_TIME || rp == RP_COMPACT_RUN) {
			return 0;
		}
		repr_line(own, sizeof(own), rp, RREF);
		snprintf(expr, sizeof(expr), "%s%s", aops[oi].txt, own);
	} else {
		snprintf(expr, sizeof(expr), "%s%s%s", a->lhs, aops[oi].txt, a->val);
	}
	for (int i = 0; i < NRDAY; i++) {
		repr_line(lines[i], sizeof(lines[i]), rp, i);
	}
	cur_nfmt = 0;
	if (reprs[rp].fmt) {
		static char fb[32];
		snprintf(fb, sizeof(fb), "%s", reprs[rp].fmt);
		cur_fmt[0] = fb;
		cur_nfmt = 1;
	}
	run_expr(expr, lines, NRDAY, &r);
	snprintf(cas, sizeof(cas), "bindrepr %d %d %d %d", rp, ai, oi, inv);
	snprintf(what, sizeof(what), "7 days written as %s", reprs[rp].label);
	rc = bind_common(expr, lines, NRDAY, &r, inv, cas, what, (double)rp, replay);
	cur_nfmt = 0;
	return rc;
}

/* ---- binding through the dgrep binary ---- */
static int
run_dgrep(const char *expr, int inv, const char *infile, char *out, size_t osz, int *sig)
{
	char fout[512], cmd[1024];
	const char *rundir = getenv("VERIF_RUNDIR");
	FILE *f;
	int st;
	size_t n = 0;

	snprintf(fout, sizeof(fout), "%s/c17b.%d.out", rundir ? rundir : "/tmp", (int)getpid());
	{
		char io[96] = "";
		for (size_t i = 0; i < cur_nfmt; i++) {
			snprintf(io + strlen(io), sizeof(io) - strlen(io), "-i '%s' ", cur_fmt[i]);
		}
		if (cur_loc) {
			snprintf(io + strlen(io), sizeof(io) - strlen(io), "--from-locale %s ", cur_loc);
		}
		snprintf(cmd, sizeof(cmd), "exec '%s/src/dgrep' %s%s'%s' < '%s' > '%s' 2>/dev/null", ex.tree, io, inv ? "-v " : "", expr, infile, fout);
	}
	st = system(cmd);
	*sig = WIFSIGNALED(st) ? WTERMSIG(st) : (WIFEXITED(st) && WEXITSTATUS(st) > 128) ? WEXITSTATUS(st) - 128 : 0;
	if ((f = fopen(fout, "r"))) {
		n = fread(out, 1, osz - 1, f);
		fclose(f);
	}
	out[n] = '\0';
	unlink(fout);
	return WIFEXITED(st) ? WEXITSTATUS(st) : -1;
}

/* EXPR through the binary on LINES, compared with the in-process result R */
static int
bind_common(const char *expr, char lines[][40], int nlines, const struct xres *rp, int inv, const char *cas, const char *what, double ord, int replay)
{
	struct xres r = *rp;
	char fin[512], out[2048], exp[2048], key[200], cmd[700];
	const char *rundir = getenv("VERIF_RUNDIR");
	FILE *f;
	int sig, rc;
	size_t k = 0;
	EX_CTR(c_bind, "cli_binding_replays");

	snprintf(fin, sizeof(fin), "%s/c17b.%d.in", rundir ? rundir : "/tmp", (int)getpid());
	if ((f = fopen(fin, "w")) == NULL) {
		return 0;
	}
	for (int b = 0; b < nlines; b++) {
		fprintf(f, "%s\n", lines[b]);
	}
	fclose(f);
	rc = run_dgrep(expr, inv, fin, out, sizeof(out), &sig);
	unlink(fin);
	++*c_bind;
	/* what the in-process pipeline says the binary prints */
	exp[0] = '\0';
	if (r.parse_rc >= 0 && r.stage >= ST_FREE) {
		for (int b = 0; b < nlines; b++) {
			if ((((r.sel >> b) & 1U) != 0) != (inv != 0)) {
				k += (size_t)snprintf(exp + k, sizeof(exp) - k, "%s\n", lines[b]);
			}
		}
	}
	snprintf(cmd, sizeof(cmd), "dgrep %s'%s' < lines   # %s", inv ? "-v " : "", expr, what);
	if (replay) {
		printf("  dgrep %s'%s': exit %d signal %d, printed %zu bytes; in-process pipeline: parse rc %d stage %s died %d, expects %zu bytes\n",
		       inv ? "-v " : "", expr, rc, sig, strlen(out), r.parse_rc, stage_name[r.stage], r.died, strlen(exp));
	}
	if ((r.parse_rc < 0) != (rc == 1 && out[0] == '\0' && !sig) && r.parse_rc < 0) {
		ex_viol("binding dgrep parse", ord, cas, cmd, "'%s': in-process dexpr_parse fails, the binary exits %d signal %d with %zu bytes of output", expr, rc, sig, strlen(out));
		return 1;
	}
	if (r.parse_rc < 0) {
		return 0;
	}
	if ((sig != 0) != (r.died != 0)) {
		snprintf(key, sizeof(key), "binding dgrep%s: death", inv ? " -v" : "");
		ex_viol(key, ord, cas, cmd, "'%s': the binary %s (signal %d), the in-process pipeline %s (last stage %s)", expr,
			sig ? "was killed" : "ended normally", sig, r.died ? "died" : "completed", stage_name[r.stage]);
		return 1;
	}
	/* what a killed process had in its stdio buffer is lost: no comparison then */
	if (!sig && !r.died && strcmp(out, exp)) {
		snprintf(key, sizeof(key), "binding dgrep%s: selection", inv ? " -v" : "");
		ex_viol(key, ord, cas, cmd, "'%s'%s: the binary printed %zu bytes, the in-process pipeline selects %zu bytes%s", expr, inv ? " with -v" : "",
			strlen(out), strlen(exp), inv ? " (complement)" : "");
		return 1;
	}
	return 0;
}

static int
do_bind(const char *tree, int set, int mode, int inv, int replay)
{
	int nl = t_nleaves(tree);
	struct xres r;
	char expr[512], cas[128], what[96];
	char lines[32][40];

	run_tree(tree, set, nl, mode, &r);
	render(expr, sizeof(expr), tree, sets[set].atom, mode);
	for (unsigned int b = 0; b < (1U << nl); b++) {
		mk_line(lines[b], sizeof(lines[b]), set, b);
	}
	snprintf(cas, sizeof(cas), "bind %d %d %d %s", set, mode, inv, tree);
	snprintf(what, sizeof(what), "the %d lines of leaf set %s", 1 << nl, sets[set].name);
	return bind_common(expr, lines, 1 << nl, &r, inv, cas, what, (double)nl, replay);
}

static int
do_bind_pair(int ai, int bi, int disj, int inv, int replay)
{
	struct xres r;
	char expr[128], cas[64];

	snprintf(expr, sizeof(expr), "%s%s%s", patoms[ai].txt, disj ? "||" : "&&", patoms[bi].txt);
	run_expr(expr, grid, NGRID, &r);
	snprintf(cas, sizeof(cas), "bindpair %d %d %d %d", ai, bi, disj, inv);
	return bind_common(expr, grid, NGRID, &r, inv, cas, "the 15 grid lines {2011-03-14,2012-03-13,2012-03-14,2012-03-15,2013-03-14} x T{11,12,13}:00:00", (double)(ai * npatoms + bi), replay);
}

/* line semantics of the CLI on single-atom expressions (oracle direct) */
static void
do_cli_lines(void)
{
	static const char in[] =
		"no date in this line\n"
		"x 2012-03-14 y\n"
		"x 2013-03-14 y\n"
		"2013-01-01 then 2012-05-05\n"
		"2012-01-01 then 2013-05-05\n"
		"2013-01-01 then 2014-05-05\n"
		"\n"
		"trailing 2012-12-31\n";
	/* which lines have a date in 2012 */
	static const int has2012[8] = {0, 1, 0, 1, 1, 0, 0, 1};
	static const char *const ln[8] = {"no date in this line\n", "x 2012-03-14 y\n", "x 2013-03-14 y\n", "2013-01-01 then 2012-05-05\n",
		"2012-01-01 then 2013-05-05\n", "2013-01-01 then 2014-05-05\n", "\n", "trailing 2012-12-31\n"};
	char fin[512], out[2048], exp[2048], cmd[512];
	const char *rundir = getenv("VERIF_RUNDIR");
	FILE *f;
	EX_CTR(c_bind, "cli_binding_replays");

	snprintf(fin, sizeof(fin), "%s/c17c.%d.in", rundir ? rundir : "/tmp", (int)getpid());
	if ((f = fopen(fin, "w")) == NULL) {
		return;
	}
	fputs(in, f);
	fclose(f);
	for (int inv = 0; inv < 2; inv++) {
		int sig, rc;
		size_t k = 0;
		rc = run_dgrep("%Y=2012", inv, fin, out, sizeof(out), &sig);
		++*c_bind;
		exp[0] = '\0';
		for (int i = 0; i < 8; i++) {
			if (has2012[i] != inv) {
				k += (size_t)snprintf(exp + k, sizeof(exp) - k, "%s", ln[i]);
			}
		}
		snprintf(cmd, sizeof(cmd), "printf 'no date in this line\\nx 2012-03-14 y\\nx 2013-03-14 y\\n2013-01-01 then 2012-05-05\\n2012-01-01 then 2013-05-05\\n2013-01-01 then 2014-05-05\\n\\ntrailing 2012-12-31\\n' | dgrep %s'%%Y=2012'", inv ? "-v " : "");
		if (sig || strcmp(out, exp)) {
			char eo[600], ee[600];
			size_t a = 0, b = 0;
			for (const char *p = out; *p && a + 3 < sizeof(eo); p++) {
				if (*p == '\n') { eo[a++] = '\\'; eo[a++] = 'n'; } else { eo[a++] = *p; }
			}
			eo[a] = '\0';
			for (const char *p = exp; *p && b + 3 < sizeof(ee); p++) {
				if (*p == '\n') { ee[b++] = '\\'; ee[b++] = 'n'; } else { ee[b++] = *p; }
			}
			ee[b] = '\0';
			ex_viol(inv ? "cli lines -v: unchanged, in order, any date of the line, complement" : "cli lines: unchanged, in order, any date of the line",
				(double)inv, inv ? "cli 1" : "cli 0", cmd, "dgrep %s'%%Y=2012' (exit %d, signal %d) printed \"%s\", expected \"%s\"", inv ? "-v " : "", rc, sig, eo, ee);
		}
	}
	unlink(fin);
}

int
main(int argc, char *argv[])
{
	int bind = 0, maxn;

	c_states = ex_ctr("states");
	c_trans = ex_ctr("transitions");
	c_eval = ex_ctr("evaluations");
	c_traces = ex_ctr("traces");
	c_nontriv = ex_ctr("nontrivial");
	c_forks = ex_ctr("children_forked");
	ex_init(argc, argv);
	for (int i = 1; i < argc; i++) {
		if (!strcmp(argv[i], "--mode") && i + 1 < argc) {
			bind = !strcmp(argv[i + 1], "bind");
		}
	}
	c17_selfcheck();
	shm = mmap(NULL, 4096, PROT_READ | PROT_WRITE, MAP_SHARED | MAP_ANONYMOUS, -1, 0);
	cache = calloc(1U << CBITS, sizeof(*cache));
	if (shm == MAP_FAILED || cache == NULL) {
		return 3;
	}
	maxn = bind ? 3 : ex.thorough ? 5 : 4;
	mk_pairs();
	mk_rdays();
	if (ex.tree) {
		/* the locale table of the tree under test, as the test suite sets it */
		char lf[1024];
		snprintf(lf, sizeof(lf), "%s/data/locale", ex.tree);
		setenv("LOCALE_FILE", lf, 1);
	}
	gen_stacked(0, 3);
	for (int n = 1; n <= 3; n++) {
		gen_stacked(0, n);
	}
	if (TS[0][1].n != 4 || TS[0][2].n != 96 || TS[0][3].n != 4608 || npatoms != 29) {
		fprintf(stderr, "c17: stacked trees %zu/%zu/%zu, pair atoms %d\n", TS[0][1].n, TS[0][2].n, TS[0][3].n, npatoms);
		return 3;
	}
	gen_trees(0, MAXLEAF);
	for (int n = 1; n <= MAXLEAF; n++) {
		gen_trees(0, n);
	}
	/* self-check of the enumeration against the closed form Catalan(n-1) * 2^(n-1) * 2^(2n-1) */
	{
		static const size_t want[6] = {0, 2, 16, 256, 5120, 114688};
		for (int n = 1; n <= MAXLEAF; n++) {
			if (T[0][n].n != want[n]) {
				fprintf(stderr, "c17: %zu trees with %d leaves, expected %zu\n", T[0][n].n, n, want[n]);
				return 3;
			}
		}
	}

	if (ex.cas) {
		int set, mode, inv, fi, oi, neg, ai, bi, dj;
		char tree[MAXT];
		if (sscanf(ex.cas, "turn %d %d %d %d", &ai, &bi, &dj, &inv) == 4 && ai >= 0 && ai < 4 && bi >= 0 && bi < TURN_NY && dj >= 0 && dj < NAOP) {
			return ex_replay_result(do_turn(ai, bi, dj, inv, 1), "turn of the year %d, %s", TURN_Y0 + bi, turnspec[ai].spec);
		} else if (sscanf(ex.cas, "repr %d %d %d", &ai, &bi, &dj) == 3 && ai >= 0 && ai < NREPR && bi >= 0 && bi < NRATOM && dj >= 0 && dj < 6) {
			return ex_replay_result(do_repr(ai, bi, dj, 1), "lines as %s, atom %s %s", reprs[ai].label, ratoms[bi].label, aops[dj].txt);
		} else if (sscanf(ex.cas, "bindrepr %d %d %d %d", &ai, &bi, &dj, &inv) == 4 && ai >= 0 && ai < NREPR && bi >= 0 && bi < NRATOM && dj >= 0 && dj < 6) {
			return ex_replay_result(do_bind_repr(ai, bi, dj, inv, 1), "binding lines as %s, atom %s %s", reprs[ai].label, ratoms[bi].label, aops[dj].txt);
		} else if (sscanf(ex.cas, "pair %d %d %d", &ai, &bi, &dj) == 3 && ai >= 0 && ai < npatoms && bi >= 0 && bi < npatoms) {
			return ex_replay_result(do_pair(ai, bi, dj, 1) || ex.nviol, "pair %s %s", patoms[ai].txt, patoms[bi].txt);
		} else if (sscanf(ex.cas, "pair1 %d", &ai) == 1 && ai >= 0 && ai < npatoms) {
			return ex_replay_result(!patom_alone_ok(ai), "atom %s on the grid", patoms[ai].txt);
		} else if (sscanf(ex.cas, "bindpair %d %d %d %d", &ai, &bi, &dj, &inv) == 4 && ai >= 0 && ai < npatoms && bi >= 0 && bi < npatoms) {
			return ex_replay_result(do_bind_pair(ai, bi, dj, inv, 1), "binding pair %s %s", patoms[ai].txt, patoms[bi].txt);
		} else if (sscanf(ex.cas, "tree %d %d %31s", &set, &mode, tree) == 3) {
			return ex_replay_result(do_tree(tree, set, mode, 1), "tree %s", tree);
		} else if (sscanf(ex.cas, "atom %d %d %d", &fi, &oi, &neg) == 3) {
			return ex_replay_result(do_atom(fi, oi, neg, 1), "atom %s %s", afields[fi].name, aops[oi].txt);
		} else if (sscanf(ex.cas, "bind %d %d %d %31s", &set, &mode, &inv, tree) == 4) {
			return ex_replay_result(do_bind(tree, set, mode, inv, 1), "binding %s", tree);
		} else if (!strncmp(ex.cas, "cli", 3)) {
			do_cli_lines();
			return ex_replay_result(ex.nviol != 0, "cli line semantics");
		}
		return ex_replay_result(1, "bad case string '%s'", ex.cas);
	}

	if (bind) {
		ex_meta("rule", "binding: every tree with <= 3 leaves (leaf set A, both renderings), every tree with stacked negations (!!x, !(!x)) up to 2 leaves, every tree with <= 3 leaves of "
			"leaf set C (bare time atom), every (representation, atom, operator) of the representation grid (with its -i format) and every ordered pair of atoms (29 atoms: 5 kinds x 6 operators + operator omitted, joined by && and ||) through the dgrep binary of the same build, without and with -v, "
			"on the 2^n lines; its output must equal the lines the in-process pipeline (dexpr.c by inclusion, forked child per expression) selects, "
			"resp. their complement, and the binary must die iff the in-process child died; plus the CLI's line semantics on a single atom "
			"(lines unchanged and in input order, a line matches if any of its dates does, -v = complement incl. lines without a date)");
		ex_meta("bound", "274 trees x 2 renderings (set A) + 96 trees with stacked negations (<= 2 leaves) x 2 renderings + 274 trees of leaf set C + 1530 representation cases + 1682 pairs of atoms, "
			"each without and with -v (both tiers)");
		ex_meta("binding", "dgrep binary of the same (plain) build vs the in-process pipeline");
		{
			uint64_t id = 0;
			for (int n = 1; n <= 3; n++) {
				for (size_t i = 0; i < T[0][n].n && !ex_expired(); i++) {
					for (int mode = 0; mode < 2; mode++) {
						for (int inv = 0; inv < 2; inv++, id++) {
							if (!ex_mine(id)) {
								continue;
							}
							do_bind(T[0][n].t[i], 0, mode, inv, 0);
							++*c_eval;
							++*c_traces;
							*c_states += 1U << n;
							*c_trans += 1U << n;
							if (ex_want_sample()) {
								char e[256];
								render(e, sizeof(e), T[0][n].t[i], sets[0].atom, mode);
								ex_sample("dgrep %s'%s' on %d lines vs the in-process pipeline", inv ? "-v " : "", e, 1 << n);
							}
						}
					}
				}
			}
			/* stacked negations up to 2 leaves, leaf set C up to 3 leaves, all pairs of atoms */
			for (int n = 1; n <= 2; n++) {
				for (size_t i = 0; i < TS[0][n].n && !ex_expired(); i++) {
					if (!t_excess(TS[0][n].t[i])) {
						continue;
					}
					for (int mode = 0; mode < 2; mode++) {
						for (int inv = 0; inv < 2; inv++, id++) {
							if (ex_mine(id)) {
								do_bind(TS[0][n].t[i], 0, mode, inv, 0);
								++*c_eval;
								++*c_traces;
								*c_states += 1U << n;
								*c_trans += 1U << n;
							}
						}
					}
				}
			}
			for (int n = 1; n <= 3; n++) {
				for (size_t i = 0; i < T[0][n].n && !ex_expired(); i++) {
					for (int inv = 0; inv < 2; inv++, id++) {
						if (ex_mine(id)) {
							do_bind(T[0][n].t[i], 2, R_MIN, inv, 0);
							++*c_eval;
							++*c_traces;
							*c_states += 1U << n;
							*c_trans += 1U << n;
						}
					}
				}
			}
			for (int rp = 0; rp < NREPR && !ex_expired(); rp++) {
				for (int ai = 0; ai < NRATOM; ai++) {
					for (int oi = 0; oi < 6; oi++) {
						for (int inv = 0; inv < 2; inv++, id++) {
							if (ex_mine(id)) {
								do_bind_repr(rp, ai, oi, inv, 0);
								++*c_eval;
								++*c_traces;
								*c_states += NRDAY;
								*c_trans += NRDAY;
							}
						}
					}
				}
			}
			for (int ai = 0; ai < npatoms && !ex_expired(); ai++) {
				for (int bi = 0; bi < npatoms; bi++) {
					for (int dj = 0; dj < 2; dj++) {
						for (int inv = 0; inv < 2; inv++, id++) {
							if (ex_mine(id)) {
								do_bind_pair(ai, bi, dj, inv, 0);
								++*c_eval;
								++*c_traces;
								*c_states += NGRID;
								*c_trans += NGRID;
							}
						}
					}
				}
			}
			if (ex.worker == 0) {
				do_cli_lines();
			}
		}
		return ex_finish();
	}

	ex_meta("rule", "every expression tree: all Catalan shapes x {&&,||} on every inner node x a negation flag on every node; leaves in order from set A "
		"(%%Y=2012, %%m=3, %%a=\"Wed\", >=12:00:00, %%c=2) and, up to 4 leaves, set B (%%d=16, %%Y=2012, >=12:00:00, %%m=3): independent atoms, a day "
		"exists for every truth assignment (weekday from a day count anchored at 1970-01-01 = Thursday, self-checked), so 2^n lines realise the whole truth table; each tree rendered compactly "
		"fully and minimally parenthesised (up to 2 leaves also blank-separated, own classes); pipeline dexpr_parse -> dexpr_simplify -> per line "
		"dt_io_find_strpdt2 + dexpr_matches_p (dgrep's proc_line) -> free_dexpr in a forked child per expression (ASan); oracle = recursive evaluation of the "
		"written tree. states = truth assignments judged, transitions = line evaluations compared, traces = expressions whose child completed with the "
		"whole truth table compared; non-trivial = trees the rewriting must change (a negated inner node, or && above ||). "
		"Class key = kind of failure + skeleton of the smallest tree (reduction: child subtree / lift a subtree / clear a negation) that fails the same way. "
		"Set C (%%Y<2013, 12:00:00, %%m!=4, %%d>=16; up to 4 leaves) puts an atom with omitted operator between atoms with other operators. "
		"Stacked negations: every tree up to 3 leaves with 0..2 negations on an inner node and 0..3 on a leaf, written !!x (minimal) and !(!(x)) (full). "
		"Pairs: 29 atoms (year, weekday name, date, time, date-time bound x = != < <= > >= and operator omitted) in every ordered pair joined by && and ||, on a "
		"grid of 5 dates x 3 times, oracle = comparison semantics of each atom on each line (pairs with an atom that fails alone are skipped, the atom is reported). "
		"Representations: 7 days (around 2012-03-01 and the year end) written as ymd, ywd, ymcw, yd, yd/-i %%Y-%%j, bizda/-i, epoch/-i %%s, ymd and ywd date-times, "
		"time only, dmy/-i, compact/-i %%Y%%m%%d (also behind another digit run), dby/-i %%d%%b%%Y x 14 atoms (%%Y %%m %%d %%j %%a %%c %%G %%y, date constants written as "
		"ymd, ywd, yd, date-time constants as @epoch and ISO, a time constant) x 6 operators; oracle: the day's calendar fields (own day count, ISO week rule, "
		"self-checked on anchors) compared with the constant; a line that lacks the component (time-only line for a date atom, date-only line for a time atom) must "
		"not be selected by = < <= > >= (!= skipped: not stated); a date constant against the same day carrying a time of day and date-time constants against lines "
		"without a time are skipped (not stated). With -i the formats also read the expression's constants, as dgrep's main() arranges. "
		"%%G %%g %%_g %%V are also judged on every day Dec 28 .. Jan 4 of the 28 turns of the year 2000/01 .. 2027/28 (all weekday x leap combinations) against "
		"the constant printed for Jan 4 (quick: six operators, plain; thorough: all spellings, plain and negated). "
		"Abbreviated years (%%y %%g %%_y %%_g, and %%G) are judged against what the library prints for the same specifier (dconv -f SPEC) on days whose ISO year differs "
		"from the calendar year and mid-year days. Weekday numbers follow the Sunday = 0 or 7 reading: dgrep's %%w/%%u atoms compare with 7 for a Sunday "
		"(%%w=7 selects Sundays, %%w=0 selects nothing; dconv -f %%w prints 07), which is not judged. "
		"Atom semantics: %d fields x %d operator spellings x plain/negated x lines at every distance -3..+3 from the constant, own keys (kind, operator, distance); "
		"ordering operators on weekday/month names skipped (no order stated).", NAFIELD, NAOP);
	ex_meta("bound", "trees with 1..%d leaves: %s (set A) + 1..4 leaves (set B) + 1..%d leaves (set C), x 2 renderings; blank-separated rendering up to 2 leaves; "
		"stacked negations: all 4+96 trees up to 2 leaves, with 3 leaves %s; 1682 pairs; 15 representations x 17 atoms x 6 operators; %d atom cases x 7 distances",
		maxn, maxn == 5 ? "2+16+256+5120+114688" : "2+16+256+5120", ex.thorough ? 4 : 3,
		ex.thorough ? "all 4608" : "the 640 with one doubled negation", NAFIELD * NAOP * 2);

	{
		uint64_t id = 0;
		/* atoms first (cheap), then trees by size */
		for (int fi = 0; fi < NAFIELD; fi++) {
			for (int oi = 0; oi < NAOP; oi++) {
				for (int neg = 0; neg < 2; neg++, id++) {
					if (ex_mine(id)) {
						do_atom(fi, oi, neg, 0);
					}
				}
			}
		}
		/* ISO year and week atoms around every turn of the year (quick: the six comparison operators, plain) */
		for (int si = 0; si < 4; si++) {
			for (int yi = 0; yi < TURN_NY; yi++) {
				for (int oi = 0; oi < (ex.thorough ? NAOP : 6); oi++) {
					for (int neg = 0; neg < (ex.thorough ? 2 : 1); neg++, id++) {
						if (ex_mine(id)) {
							do_turn(si, yi, oi, neg, 0);
						}
					}
				}
			}
		}
		/* lines in every representation x every atom kind x operator */
		for (int rp = 0; rp < NREPR && !ex_expired(); rp++) {
			for (int ai = 0; ai < NRATOM; ai++) {
				for (int oi = 0; oi < 6; oi++, id++) {
					if (ex_mine(id)) {
						do_repr(rp, ai, oi, 0);
						if (ex_want_sample()) {
							ex_sample("atom '%s%s%s' on 7 days written as %s", ratoms[ai].lhs, aops[oi].txt, ratoms[ai].val, reprs[rp].label);
						}
					}
				}
			}
		}
		/* pairs of atoms */
		for (int ai = 0; ai < npatoms && !ex_expired(); ai++) {
			for (int bi = 0; bi < npatoms; bi++) {
				for (int dj = 0; dj < 2; dj++, id++) {
					if (ex_mine(id)) {
						do_pair(ai, bi, dj, 0);
						if (ex_want_sample()) {
							ex_sample("pair '%s%s%s' on the 15 grid lines", patoms[ai].txt, dj ? "||" : "&&", patoms[bi].txt);
						}
					}
				}
			}
		}
		/* stacked negations */
		for (int n = 1; n <= 3; n++) {
			for (size_t i = 0; i < TS[0][n].n && !ex.expired; i++) {
				const char *tree = TS[0][n].t[i];
				int x = t_excess(tree);
				if (x == 0 || (n == 3 && !ex.thorough && x != 1)) {
					continue;
				}
				if (!ex_mine(id + i / 16U)) {
					continue;
				}
				if (ex.deadline > 0 && ex_now() > ex.deadline) {
					ex.expired = 1;
					break;
				}
				++*c_nontriv;
				for (int mode = 0; mode < (n <= 2 ? NREND : 2); mode++) {
					do_tree(tree, 0, mode, 0);
				}
				if (ex_want_sample()) {
					char e[512];
					render(e, sizeof(e), tree, sets[0].atom, R_MIN);
					ex_sample("tree %s = '%s' (stacked negations) on the %d lines of leaf set A", tree, e, 1 << n);
				}
			}
			id += TS[0][n].n / 16U + 1U;
		}
		for (int n = 1; n <= maxn; n++) {
			for (int set = 0; set < 3; set++) {
				if (n > sets[set].nleaf || (set == 2 && n == 4 && !ex.thorough)) {
					continue;
				}
				/* slices of 16 trees so that the reduction cache of a worker is reused */
				for (size_t i = 0; i < T[0][n].n && !ex.expired; i++) {
					const char *tree = T[0][n].t[i];
					if (!ex_mine(id + i / 16U)) {
						continue;
					}
					if (ex.deadline > 0 && ex_now() > ex.deadline) {
						ex.expired = 1;
						break;
					}
					{
						/* the rewriting has work to do */
						int nt = 0;
						for (const char *s = tree; *s; s++) {
							if (*s == '!' && (s[1] == '&' || s[1] == '|')) {
								nt = 1;
							}
							if (*s == '&') {
								const char *l = s + 1, *le = t_end(l);
								const char *a = l, *b = le;
								while (*a == '!') a++;
								while (*b == '!') b++;
								if (*a == '|' || *b == '|') {
									nt = 1;
								}
							}
						}
						*c_nontriv += (uint64_t)nt;
					}
					for (int mode = 0; mode < (n <= 2 || (n == 3 && set == 0) ? NREND : 2); mode++) {
						do_tree(tree, set, mode, 0);
					}
					if (ex_want_sample()) {
						char e[512];
						render(e, sizeof(e), tree, sets[set].atom, R_MIN);
						ex_sample("tree %s = '%s' on the %d lines of leaf set %s, both renderings", tree, e, 1 << n, sets[set].name);
					}
				}
				id += T[0][n].n / 16U + 1U;
			}
		}
	}
	return ex_finish();
}
