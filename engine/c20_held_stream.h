/* c20_held_stream.h -- further stages of c20_locale.c (included there, after its helpers).
 *
 * (v)   held values: every shipped locale as --locale x values held in every representation the
 *       parser produces, including those whose weekday or month slot is 0 (a ymcw or ywd value
 *       with weekday 0, a time of day, a date with month 0, a year alone) x %a %A %b %B.
 *       The locale may only change the name: no memory error, no signal; a slot >= 1 prints the
 *       locale's name of that slot.  What a locale prints for slot 0 (English: Mir, Miracleday,
 *       Miraculary) is left open.  Library level (dt_strfdt after setflocale) and the binaries
 *       (same exit status and number of output lines as without --locale).
 * (vi)  stream search: every shipped locale as --from-locale x every month/weekday name x formats
 *       that begin with the name, have it after a separator, or in the middle: the text, printed
 *       with the locale as output locale, must be found on a line and inside a line of text
 *       (dt_io_find_strpdt2 with the needles of build_needle) with the same value as the argument
 *       form (dt_io_strpdt) gives.  A (format, slot) that the stream search does not find with the
 *       built-in English names either is not a matter of the locale and is skipped.  Binaries:
 *       dconv (stdin, -S), dgrep, dadd on stdin against dconv's argument form. */
#ifndef C20_HELD_STREAM_H
#define C20_HELD_STREAM_H
#include "dt-io.h"
#if defined __SANITIZE_ADDRESS__
# include <sanitizer/asan_interface.h>
#endif

/* libdutio's error() wants the name of the tool */
const char *prog = "c20_locale";

/* ------------------------------------------------------------------ running a binary with stdin */
static const char *exec2_path;
static const char *exec2_stdin;
static int
exec_main2(int argc, char **argv)
{
	(void)argc;
	if (exec2_stdin) {
		int fd = memfd_create("c20_in", 0);
		size_t l = strlen(exec2_stdin);
		if (fd < 0 || write(fd, exec2_stdin, l) != (ssize_t)l) {
			_exit(125);
		}
		lseek(fd, 0, SEEK_SET);
		dup2(fd, 0);
		close(fd);
	}
	execv(exec2_path, argv);
	_exit(127);
}

static int run_bin_prefer_plain;

static void
run_bin(const char *tool, const char *const *av, int ac, const char *in, struct fs_result *r, char *cmd, size_t cmdsz)
{
	char path[1100], envl[1100];
	const char *envv[4];
	struct fs_opts o;
	size_t k = 0;
	EX_CTR(c_eval, "evaluations");
	EX_CTR(c_bind, "cli_binding_replays");

	/* stages whose oracle is a comparison of outputs (not ASan) use the plain build of the same
	 * tree when the driver has built it next to this one: an ASan binary costs ~20x more to start */
	snprintf(path, sizeof(path), "%s/../plain/src/%s", tree_dir, tool);
	if (!run_bin_prefer_plain || access(path, X_OK)) {
		snprintf(path, sizeof(path), "%s/src/%s", tree_dir, tool);
	}
	exec2_path = path;
	exec2_stdin = in;
	if (cmd) {
		if (in) {
			k += (size_t)snprintf(cmd + k, cmdsz - k, "printf '");
			for (const char *p = in; *p && k + 8 < cmdsz; p++) {
				if (*p == '\n') {
					cmd[k++] = '\\';
					cmd[k++] = 'n';
				} else {
					cmd[k++] = *p;
				}
			}
			k += (size_t)snprintf(cmd + k, cmdsz - k, "' | ");
		}
		k += (size_t)snprintf(cmd + k, cmdsz - k, "LOCALE_FILE=/repo/data/locale");
		for (int i = 0; i < ac && k + 8 < cmdsz; i++) {
			k += (size_t)snprintf(cmd + k, cmdsz - k, i && av[i][0] != '-' && av[i][0] != '+' ? " '%s'" : " %s", av[i]);
		}
	}
	memset(&o, 0, sizeof(o));
	snprintf(envl, sizeof(envl), "LOCALE_FILE=%s", lfile_name);
	envv[0] = envl;
	envv[1] = "ASAN_OPTIONS=halt_on_error=0:detect_leaks=0:symbolize=0:print_summary=0:print_legend=0:allocator_may_return_null=1:handle_segv=0";
	envv[2] = "PATH=/usr/bin:/bin";
	envv[3] = NULL;
	o.env = envv;
	o.timeout_s = 20;
	++*c_eval;
	++*c_bind;
	fs_run(exec_main2, ac, av, &o, r);
	if (r->timed_out) {
		fs_free(r);
		o.timeout_s = 200;
		fs_run(exec_main2, ac, av, &o, r);
	}
}

static int
count_lines(const char *s)
{
	int n = 0;
	for (; *s; s++) {
		n += *s == '\n';
	}
	return n;
}

/* ------------------------------------------------------------------ (v) held values */
struct held_s {
	const char *kind;
	const char *text;
	const char *fmt;	/* NULL: format-less parser */
};
static const struct held_s held[] = {
	{"ymd", "2012-03-04", NULL}, {"ymd", "2012-12-31", NULL}, {"ymd", "2012-01-01", NULL},
	{"ymcw-w0", "2012-03-02-00", NULL}, {"ymcw-w0", "2012-03-02-00", "%Y-%m-%c-%w"},
	{"ymcw", "2012-03-02-01", NULL}, {"ymcw", "2012-03-02-02", NULL}, {"ymcw", "2012-03-02-03", NULL}, {"ymcw", "2012-03-02-04", NULL},
	{"ymcw", "2012-03-02-05", NULL}, {"ymcw", "2012-03-02-06", NULL}, {"ymcw", "2012-03-02-07", NULL},
	{"ywd-d0", "2012-W09-0", NULL},
	{"ywd", "2012-W09-1", NULL}, {"ywd", "2012-W09-2", NULL}, {"ywd", "2012-W09-3", NULL}, {"ywd", "2012-W09-4", NULL},
	{"ywd", "2012-W09-5", NULL}, {"ywd", "2012-W09-6", NULL}, {"ywd", "2012-W09-7", NULL},
	{"yd", "2012-064", NULL}, {"yd", "2012-366", NULL},
	{"time", "12:00:00", NULL}, {"time", "00:00:00", NULL}, {"time", "12:34", "%H:%M"},
	{"datetime", "2012-03-04T12:00:00", NULL},
	{"bizda", "2012-03-02b", NULL},
	{"epoch", "@1330862400", NULL}, {"epoch", "1330862400", "%s"},
	{"year-month", "2012-03", NULL},
	{"month-0", "2012-00-00", NULL}, {"day-0", "2012-03-00", NULL},
	{"year-only", "2012", "%Y"},
	{"daynum", "156782", "ldn"}, {"daynum", "2455991.5", "jdn"},
};
#define NHELD	((int)(sizeof(held) / sizeof(*held)))
static char held_eng[NHELD][NTAB][64];	/* what the built-in tables print */
static int held_slot[NHELD][NTAB];	/* slot printed by the built-in tables, -1 unparsed, -2 no table entry */

static void
held_baseline(void)
{
	impl_fresh();
	for (int h = 0; h < NHELD; h++) {
		struct dt_dt_s v = dt_strpdt(held[h].text, held[h].fmt, NULL);
		for (int t = 0; t < NTAB; t++) {
			held_slot[h][t] = -1;
			if (dt_unk_p(v)) {
				continue;
			}
			memset(held_eng[h][t], 0, sizeof(held_eng[h][t]));
			dt_strfdt(held_eng[h][t], sizeof(held_eng[h][t]) - 1, tab_spec[t], v);
			held_slot[h][t] = -2;
			for (int i = 0; i <= tab_n[t]; i++) {
				const char *n = i ? mloc[0].t[t][i]
					: (t == T_LONG_WDAY ? rc_long_wday[0] : t == T_ABBR_WDAY ? rc_abbr_wday[0] : t == T_LONG_MON ? rc_long_mon[0] : rc_abbr_mon[0]);
				if (!strcmp(held_eng[h][t], n)) {
					held_slot[h][t] = i;
					break;
				}
			}
		}
	}
}

static int
do_held_lib(int L, int only_h, int replay)
{
	int bad = 0;
	char key[256], cas[64], cmd[512];
	EX_CTR(c_trans, "transitions");
	EX_CTR(c_eval, "evaluations");
	EX_CTR(c_states, "states");
	EX_CTR(c_open, "skipped:slot 0 of a name table (no such weekday/month): the text a locale prints there is open, status and memory safety are judged");
	EX_CTR(c_unp, "skipped:held value that the parser does not accept");

	if (lookup_bad[1][L]) {
		return 0;
	}
	for (int h = 0; h < NHELD; h++) {
		struct dt_dt_s v;
		if (only_h >= 0 && h != only_h) {
			continue;
		}
		for (int t = 0; t < NTAB; t++) {
			char buf[128];
			int h0, rc = 0, slot = held_slot[h][t];
			volatile int outside = 0;
			const char *oc = NULL;

			if (slot == -1) {
				++*c_unp;
				continue;
			}
			/* fresh state for every print: a crash must not leave half a history behind */
			impl_fresh();
			setflocale(mloc[L].name);
			v = dt_strpdt(held[h].text, held[h].fmt, NULL);
			memset(buf, 0, sizeof(buf));
			h0 = asan_hits;
			++*c_eval;
			++*c_trans;
			EX_GUARD_BEGIN(rc);
#if defined __SANITIZE_ADDRESS__
			/* ASan reports a bad access only once per code address and process: ask directly
			 * whether the table entry that is about to be printed lies in valid memory */
			if (slot >= 0) {
				const char *ent = impl_tab(1, t)[slot];
				outside = ent == NULL || __asan_address_is_poisoned(ent);
			}
#endif
			dt_strfdt(buf, sizeof(buf) - 1, tab_spec[t], v);
			EX_GUARD_END;
			if (rc == 2) {
				oc = "fatal-signal";
			} else if (rc == 1) {
				oc = "hang";
			} else if (outside) {
				oc = "entry-outside-the-table";
			} else if (asan_hits != h0) {
				oc = "asan-report";
			} else if (slot >= 1 && strcmp(buf, mloc[L].t[t][slot])) {
				oc = "other-name";
			} else if (slot < 1) {
				++*c_open;
			}
			ex_outcome(ex_hash_mix(ex_hash(buf, strlen(buf)), (uint64_t)(h * 4 + t)));
			if (replay) {
				printf("  %s (%s) printed with %s: built-in '%s' (slot %d), under %s: %s '%s'\n", held[h].text, held[h].kind, tab_spec[t],
				       held_eng[h][t], slot, mloc[L].name, oc ? oc : "ok", rc ? "" : buf);
			}
			if (oc) {
				bad++;
				snprintf(key, sizeof(key), "held-print held=%s spec=%s outcome=%s", held[h].kind, tab_spec[t], oc);
				snprintf(cas, sizeof(cas), "held %d %d", L, h);
				snprintf(cmd, sizeof(cmd), "dconv --locale %s%s%s%s -f '%s' '%s'", mloc[L].name, held[h].fmt ? " -i '" : "", held[h].fmt ? held[h].fmt : "",
					 held[h].fmt ? "'" : "", tab_spec[t], held[h].text);
				ex_viol(key, L, cas, cmd, "'%s' (held as %s) printed with %s: '%s' with the built-in names (slot %d), %s with the names of %s%s%s%s",
					held[h].text, held[h].kind, tab_spec[t], held_eng[h][t], slot, oc, mloc[L].name, rc ? "" : " ('", rc ? "" : buf, rc ? "" : "')");
			}
		}
	}
	++*c_states;
	impl_fresh();
	return bad;
}

/* binaries: one run per (tool, locale, kind) with all values of the kind and the four specifiers */
static const char *const held_tools[2] = {"dconv", "dadd"};
static int
do_held_main(int tool, int L, const char *only_kind, int replay)
{
	static char base_out[2][NHELD][512];
	static int base_status[2][NHELD], base_have[2][NHELD], base_asan[2][NHELD];
	int bad = 0;
	char key[256], cas[96], cmd[1536];
	EX_CTR(c_trans, "transitions");

	if (lookup_bad[1][L]) {
		return 0;
	}
	for (int h = 0; h < NHELD; h++) {
		const char *av[48];
		char in[1024];
		struct fs_result r;
		int ac, first = h, nval = 0;
		size_t ik = 0;
		const char *oc = NULL;

		/* first entry of a (kind, fmt) group */
		if (h && !strcmp(held[h].kind, held[h - 1].kind) && held[h].fmt == held[h - 1].fmt) {
			continue;
		}
		if (only_kind && strcmp(only_kind, held[h].kind)) {
			continue;
		}
		for (int pass = base_have[tool][first] ? 1 : 0; pass < 2; pass++) {
			/* pass 0: without --locale (once), pass 1: with */
			ac = 0;
			av[ac++] = held_tools[tool];
			if (pass) {
				av[ac++] = "--locale";
				av[ac++] = mloc[L].name;
			}
			if (held[h].fmt) {
				av[ac++] = "-i";
				av[ac++] = held[h].fmt;
			}
			av[ac++] = "-f";
			av[ac++] = "%a|%A|%b|%B";
			nval = 0;
			ik = 0;
			in[0] = '\0';
			for (int g = h; g < NHELD && !strcmp(held[g].kind, held[h].kind) && held[g].fmt == held[h].fmt; g++) {
				if (tool == 0) {
					av[ac++] = held[g].text;
				} else {
					ik += (size_t)snprintf(in + ik, sizeof(in) - ik, "%s\n", held[g].text);
				}
				nval++;
			}
			if (tool == 1) {
				av[ac++] = "+0d";
			}
			av[ac] = NULL;
			run_bin(held_tools[tool], av, ac, tool ? in : NULL, &r, cmd, sizeof(cmd));
			if (!pass) {
				snprintf(base_out[tool][first], sizeof(base_out[tool][first]), "%s", r.out);
				base_status[tool][first] = r.exited ? r.status : -r.sig;
				base_asan[tool][first] = count_asan(r.err);
				base_have[tool][first] = 1;
				fs_free(&r);
			}
		}
		++*c_trans;
		ex_outcome(ex_hash(r.out, r.outlen));
		{
			int st = r.exited ? r.status : -r.sig;
			if (base_status[tool][first] < 0) {
				/* the tool dies on these values without any locale option: not a matter of the locale */
				EX_CTR(c_nb, "skipped:binary fails on the held values without --locale as well");
				++*c_nb;
			} else if (st != base_status[tool][first]) {
				oc = r.exited ? "other-exit-status" : "killed";
			} else if (count_lines(r.out) != count_lines(base_out[tool][first])) {
				oc = "other-number-of-lines";
			} else if (count_asan(r.err) > base_asan[tool][first]) {
				/* reports that the tool also raises without --locale are C10's subject */
				oc = "asan-report";
			}
		}
		if (replay) {
			printf("  %s\n  -> [%s] '%s'\n  without --locale: status %d '%s'\n", cmd, fs_ending(&r), r.out, base_status[tool][first], base_out[tool][first]);
		}
		if (oc) {
			bad++;
			snprintf(key, sizeof(key), "held-main tool=%s held=%s outcome=%s", held_tools[tool], held[h].kind, oc);
			snprintf(cas, sizeof(cas), "heldmain %d %d %s", tool, L, held[h].kind);
			ex_viol(key, L, cas, cmd, "%d value(s) held as %s: with --locale %s the run ends [%s] with %d line(s) '%.80s', without it with status %d and %d line(s) '%.80s'",
				nval, held[h].kind, mloc[L].name, fs_ending(&r), count_lines(r.out), r.out, base_status[tool][first],
				count_lines(base_out[tool][first]), base_out[tool][first]);
		}
		fs_free(&r);
	}
	return bad;
}

/* ------------------------------------------------------------------ (vi) stream search under --from-locale */
struct sfmt_s {
	const char *label;
	const char *mon;	/* template for month names: %N = the name specifier */
	const char *wday;
};
/* templates: N is replaced by b/B resp. a/A */
static const struct sfmt_s sfmts[] = {
	{"name-first", "%N%d%Y", "%N%d%m%Y"},
	{"name-first-separated", "%N %d %Y", "%N %d %m %Y"},
	{"name-after-separator", "%d %N %Y", "%Y-%m-%d %N"},
	{"name-after-digits", "%d%N%Y", "%d%m%Y%N"},
	{"name-after-dash", "%Y-%N-%d", "%Y-%m-%d-%N"},
};
#define NSFMT	((int)(sizeof(sfmts) / sizeof(*sfmts)))

static void
mk_sfmt(char *buf, size_t bsz, int f, int t)
{
	const char *tpl = (t >= T_LONG_MON) ? sfmts[f].mon : sfmts[f].wday;
	size_t k = 0;
	for (; *tpl && k + 2 < bsz; tpl++) {
		if (tpl[0] == '%' && tpl[1] == 'N') {
			buf[k++] = '%';
			buf[k++] = tab_spec[t][1];
			tpl++;
		} else {
			buf[k++] = *tpl;
		}
	}
	buf[k] = '\0';
}

/* the value whose name no. I of table T is printed */
static struct dt_dt_s
sval(int t, int i)
{
	char text[32];
	if (t >= T_LONG_MON) {
		snprintf(text, sizeof(text), "2012-%02d-15", i);
	} else {
		const struct rc_day *p = rc_get(rc_rd(2012, 2, 27) + i - 1);
		snprintf(text, sizeof(text), "%04d-%02d-%02d", p->y, p->m, p->d);
	}
	return dt_strpdt(text, "%Y-%m-%d", NULL);
}

/* stream search of TEXT (exact-size heap copy) with format FMT: returns 1 and the value as %F in OUT if found */
static int
stream_find(const char *text, char *fmt, char *out, size_t osz)
{
	struct grep_atom_s nstk[16];
	struct grep_atom_soa_s soa;
	char *fmts[1] = {fmt};
	size_t l = strlen(text);
	char *line = malloc(l + 1), *sp = NULL, *ep = NULL;
	struct dt_dt_s d;
	EX_CTR(c_eval, "evaluations");

	memcpy(line, text, l + 1);
	memset(nstk, 0, sizeof(nstk));
	soa = build_needle(nstk, 16, fmts, 1);
	++*c_eval;
	d = dt_io_find_strpdt2(line, l, &soa, &sp, &ep, NULL);
	*out = '\0';
	if (!dt_unk_p(d)) {
		dt_strfdt(out, osz, "%F", d);
	}
	free(line);
	return !dt_unk_p(d);
}

static uint8_t eng_found[NSFMT][NTAB][13][2];	/* does the search work with the built-in names? [form: line, in-text] */

static void
stream_baseline(void)
{
	impl_fresh();
	for (int f = 0; f < NSFMT; f++) {
		for (int t = 0; t < NTAB; t++) {
			char fmt[64], text[160], wrapped[200], out[32];
			mk_sfmt(fmt, sizeof(fmt), f, t);
			for (int i = 1; i <= tab_n[t]; i++) {
				memset(text, 0, sizeof(text));
				dt_strfdt(text, sizeof(text) - 1, fmt, sval(t, i));
				snprintf(wrapped, sizeof(wrapped), "foo %s bar", text);
				eng_found[f][t][i][0] = (uint8_t)stream_find(text, fmt, out, sizeof(out));
				eng_found[f][t][i][1] = (uint8_t)stream_find(wrapped, fmt, out, sizeof(out));
			}
		}
	}
}

static int
do_stream_lib(int L, int only_f, int replay)
{
	int bad = 0;
	char key[256], cas[64], cmd[700];
	static const char *const form_name[2] = {"whole-line", "in-text"};
	EX_CTR(c_trans, "transitions");
	EX_CTR(c_eval, "evaluations");
	EX_CTR(c_states, "states");
	EX_CTR(c_skip, "skipped:name that has an earlier entry of its own table as a prefix, or is empty (parser ambiguity is C09's subject)");
	EX_CTR(c_eng, "skipped:(format, slot) that the stream search does not find with the built-in English names either (not a matter of the locale)");
	EX_CTR(c_arg, "skipped:text that the argument form does not read back as the value printed (read-back is C09's subject)");
	EX_CTR(c_blank, "skipped:name that begins with a blank (the stream search never starts at a blank, with or without a locale)");

	if (lookup_bad[0][L] || lookup_bad[1][L]) {
		return 0;
	}
	impl_fresh();
	setflocale(mloc[L].name);
	setilocale(mloc[L].name);
	for (int f = 0; f < NSFMT; f++) {
		if (only_f >= 0 && f != only_f) {
			continue;
		}
		for (int t = 0; t < NTAB; t++) {
			char fmt[64];
			char *fmts[1] = {fmt};
			mk_sfmt(fmt, sizeof(fmt), f, t);
			for (int i = 1; i <= tab_n[t]; i++) {
				char text[200], wrapped[240], want[32], argv_[32], got[32], follow[200];
				struct dt_dt_s v = sval(t, i), a;
				const char *name = mloc[L].t[t][i];
				const char *at;

				memset(text, 0, sizeof(text));
				dt_strfdt(text, sizeof(text) - 1, fmt, v);
				dt_strfdt(want, sizeof(want), "%F", v);
				/* the parser's first-prefix rule, judged on the text that follows the name's position */
				at = *name ? strstr(text, name) : NULL;
				snprintf(follow, sizeof(follow), "%s", at ? at : "");
				if (*name == '\0' || at == NULL || earlier_prefix(L, t, i, follow)) {
					++*c_skip;
					continue;
				}
				if (*name == ' ') {
					/* reading: the stream search never starts a match at a blank (or -S would swallow
					 * blanks); names padded with a leading blank (ja_JP, zh_*: " 1<month>") are data
					 * that this rule, not the locale switch, keeps from being found */
					++*c_blank;
					continue;
				}
				++*c_eval;
				a = dt_io_strpdt(text, fmts, 1, NULL);
				argv_[0] = '\0';
				if (!dt_unk_p(a)) {
					dt_strfdt(argv_, sizeof(argv_), "%F", a);
				}
				if (strcmp(argv_, want)) {
					++*c_arg;
					if (replay) {
						printf("  %s '%s': argument form gives '%s', printed value was %s (skipped)\n", fmt, text, argv_, want);
					}
					continue;
				}
				snprintf(wrapped, sizeof(wrapped), "foo %s bar", text);
				for (int form = 0; form < 2; form++) {
					int found;
					const char *oc = NULL;
					if (!eng_found[f][t][i][form]) {
						++*c_eng;
						continue;
					}
					++*c_trans;
					found = stream_find(form ? wrapped : text, fmt, got, sizeof(got));
					if (!found) {
						oc = "not-found";
					} else if (strcmp(got, want)) {
						oc = "other-value";
					}
					if (replay) {
						printf("  %s '%s' %s: argument form %s, stream search %s %s\n", fmt, form ? wrapped : text, form_name[form], argv_,
						       found ? "finds" : "does not find it", got);
					}
					if (oc) {
						bad++;
						snprintf(key, sizeof(key), "from-locale-stream format=%s spec=%s outcome=%s", sfmts[f].label, tab_spec[t], oc);
						snprintf(cas, sizeof(cas), "stream %d %d", L, f);
						snprintf(cmd, sizeof(cmd), "echo '%s' | dconv %s--from-locale %s -i '%s'", form ? wrapped : text, form ? "-S " : "", mloc[L].name, fmt);
						ex_viol(key, L, cas, cmd, "--from-locale %s -i '%s': '%s' given as argument reads as %s; the stream search (%s) %s%s",
							mloc[L].name, fmt, text, argv_, form_name[form], found ? "reads " : "does not find it", found ? got : "");
					}
				}
			}
		}
	}
	++*c_states;
	impl_fresh();
	return bad;
}

/* binaries: the names of one table of one locale as lines / inside lines; name-first formats */
static char sm_eng_ok[2][NTAB][4];	/* does the form work with the built-in names (L = 0 run)? */
static int sm_eng_done;

static int
do_stream_main(int L, int replay)
{
	int bad = 0;
	EX_CTR(c_trans, "transitions");
	EX_CTR(c_skipf, "skipped:(locale, format) for which dconv's argument form does not read all names back");
	EX_CTR(c_engf, "skipped:form that does not work with the built-in English names either (not a matter of the locale)");

	if (L && (lookup_bad[0][L] || lookup_bad[1][L])) {
		return 0;
	}
	if (L && !sm_eng_done) {
		do_stream_main(0, 0);
	}
	run_bin_prefer_plain = 1;
	for (int f = 0; f < 2; f++) {		/* name-first, name-first-separated */
		for (int t = 0; t < NTAB; t++) {
			/* forms: 0 dconv stdin, 1 dconv -S in text, 2 dgrep in text, 3 dadd stdin (+0d) */
			char fmt[64], lines[2048], wrapped[2560], expect[512], expect_s[1024], expect_g[2560];
			const char *av[40];
			char texts[13][160];
			struct fs_result r;
			char cmd[3000], key[256], cas[64];
			int ac, n = 0;
			size_t lk = 0, wk = 0, ek = 0, sk = 0, gk = 0;

			mk_sfmt(fmt, sizeof(fmt), f, t);
			impl_fresh();
			if (L) {
				setflocale(mloc[L].name);
			}
			for (int i = 1; i <= tab_n[t]; i++) {
				struct dt_dt_s v = sval(t, i);
				char want[32];
				if (mloc[L].t[t][i][0] == '\0' || mloc[L].t[t][i][0] == ' ') {
					continue;
				}
				memset(texts[n], 0, sizeof(texts[n]));
				dt_strfdt(texts[n], sizeof(texts[n]) - 1, fmt, v);
				if (earlier_prefix(L, t, i, strstr(texts[n], mloc[L].t[t][i]) ? strstr(texts[n], mloc[L].t[t][i]) : "")) {
					continue;
				}
				dt_strfdt(want, sizeof(want), "%F", v);
				lk += (size_t)snprintf(lines + lk, sizeof(lines) - lk, "%s\n", texts[n]);
				wk += (size_t)snprintf(wrapped + wk, sizeof(wrapped) - wk, "foo %s bar\n", texts[n]);
				ek += (size_t)snprintf(expect + ek, sizeof(expect) - ek, "%s\n", want);
				sk += (size_t)snprintf(expect_s + sk, sizeof(expect_s) - sk, "foo %s bar\n", want);
				gk += (size_t)snprintf(expect_g + gk, sizeof(expect_g) - gk, "foo %s bar\n", texts[n]);
				n++;
			}
			impl_fresh();
			if (n == 0) {
				continue;
			}
			/* argument form first: it defines what the locale's names read as */
			ac = 0;
			av[ac++] = "dconv";
			if (L) {
				av[ac++] = "--from-locale";
				av[ac++] = mloc[L].name;
			}
			av[ac++] = "-i";
			av[ac++] = fmt;
			av[ac++] = "-f";
			av[ac++] = "%F";
			for (int i = 0; i < n; i++) {
				av[ac++] = texts[i];
			}
			av[ac] = NULL;
			run_bin("dconv", av, ac, NULL, &r, cmd, sizeof(cmd));
			if (!r.exited || r.status || strcmp(r.out, expect)) {
				++*c_skipf;
				if (replay) {
					printf("  argument form does not read the names back: %s -> [%s] '%s'\n", cmd, fs_ending(&r), r.out);
				}
				fs_free(&r);
				continue;
			}
			fs_free(&r);
			for (int form = 0; form < 4; form++) {
				static const char *const form_tool[4] = {"dconv", "dconv", "dgrep", "dadd"};
				static const char *const form_label[4] = {"dconv-stdin", "dconv-sed-in-text", "dgrep-in-text", "dadd-stdin"};
				const char *in = (form == 0 || form == 3) ? lines : wrapped;
				const char *exp = (form == 0 || form == 3) ? expect : form == 1 ? expect_s : expect_g;
				int ok;

				if (L && !sm_eng_ok[f][t][form]) {
					++*c_engf;
					continue;
				}
				ac = 0;
				av[ac++] = form_tool[form];
				if (form == 1) {
					av[ac++] = "-S";
				}
				if (L) {
					av[ac++] = "--from-locale";
					av[ac++] = mloc[L].name;
				}
				av[ac++] = "-i";
				av[ac++] = fmt;
				if (form != 2) {
					av[ac++] = "-f";
					av[ac++] = "%F";
				}
				if (form == 2) {
					av[ac++] = ">=2000-01-01";
				} else if (form == 3) {
					av[ac++] = "+0d";
				}
				av[ac] = NULL;
				run_bin(form_tool[form], av, ac, in, &r, cmd, sizeof(cmd));
				ok = r.exited && !strcmp(r.out, exp);
				++*c_trans;
				ex_outcome(ex_hash(r.out, r.outlen));
				if (!L) {
					sm_eng_ok[f][t][form] = (char)ok;
				} else if (!ok) {
					bad++;
					snprintf(key, sizeof(key), "from-locale-stream-main form=%s format=%s", form_label[form], sfmts[f].label);
					snprintf(cas, sizeof(cas), "streammain %d", L);
					ex_viol(key, L, cas, cmd, "--from-locale %s -i '%s': dconv reads all %d names given as arguments; %s on the same texts gives [%s] '%.100s' instead of '%.100s'",
						mloc[L].name, fmt, n, form_label[form], fs_ending(&r), r.out, exp);
				}
				if (replay) {
					printf("  %s\n  -> [%s] '%.200s' %s\n", cmd, fs_ending(&r), r.out, ok ? "(as the argument form)" : "(DIFFERS from the argument form)");
				}
				fs_free(&r);
			}
		}
	}
	if (!L) {
		sm_eng_done = 1;
	}
	run_bin_prefer_plain = 0;
	return bad;
}

/* ------------------------------------------------------------------ (vii) the output locale must not leak into the search */
/* Every shipped locale B as --locale x {no --from-locale, six input locales A} x both call orders of
 * the tools (dadd dround dseq: setilocale, setflocale; dconv: setflocale, setilocale) x the five format
 * shapes x every name of A (English for none): what the argument form reads and what the stream search
 * finds (whole line, in text), and its value, must be what they are without the output locale. */
static const char *const leak_in_names[] = {NULL, "de_DE", "fr_FR", "ru_RU", "ja_JP", "es_ES", "tr_TR"};
#define NLEAKIN	((int)(sizeof(leak_in_names) / sizeof(*leak_in_names)))
static int leak_in[NLEAKIN];
struct leak_base_s {
	char text[NSFMT][NTAB][13][160];
	char val[NSFMT][NTAB][13][3][12];	/* forms: argument, whole line, in text; "" = not found */
};
static struct leak_base_s *leak_base;

static void
leak_eval(const char *text, char *fmt, char out[3][12])
{
	char *fmts[1] = {fmt};
	char wrapped[200];
	struct dt_dt_s a = dt_io_strpdt(text, fmts, 1, NULL);
	out[0][0] = out[1][0] = out[2][0] = '\0';
	if (!dt_unk_p(a)) {
		dt_strfdt(out[0], 12, "%F", a);
	}
	stream_find(text, fmt, out[1], 12);
	snprintf(wrapped, sizeof(wrapped), "foo %s bar", text);
	stream_find(wrapped, fmt, out[2], 12);
}

static void
leak_baseline(void)
{
	leak_base = calloc((size_t)NLEAKIN, sizeof(*leak_base));
	for (int a = 0; a < NLEAKIN; a++) {
		int A = leak_in_names[a] ? loc_index(leak_in_names[a]) : 0;
		leak_in[a] = A;
		/* the texts: printed with A as output locale */
		impl_fresh();
		if (A) {
			setflocale(mloc[A].name);
		}
		for (int f = 0; f < NSFMT; f++) {
			for (int t = 0; t < NTAB; t++) {
				char fmt[64];
				mk_sfmt(fmt, sizeof(fmt), f, t);
				for (int i = 1; i <= tab_n[t]; i++) {
					dt_strfdt(leak_base[a].text[f][t][i], sizeof(leak_base[a].text[f][t][i]) - 1, fmt, sval(t, i));
				}
			}
		}
		/* what is read without any output locale */
		impl_fresh();
		if (A) {
			setilocale(mloc[A].name);
		}
		for (int f = 0; f < NSFMT; f++) {
			for (int t = 0; t < NTAB; t++) {
				char fmt[64];
				mk_sfmt(fmt, sizeof(fmt), f, t);
				for (int i = 1; i <= tab_n[t]; i++) {
					leak_eval(leak_base[a].text[f][t][i], fmt, leak_base[a].val[f][t][i]);
				}
			}
		}
	}
	impl_fresh();
}

static int
do_leak_lib(int B, int only_a, int replay)
{
	static const char *const form_name[3] = {"argument", "whole-line", "in-text"};
	int bad = 0;
	char key[256], cas[64], cmd[700];
	EX_CTR(c_trans, "transitions");
	EX_CTR(c_states, "states");

	if (lookup_bad[1][B]) {
		return 0;
	}
	for (int a = 0; a < NLEAKIN; a++) {
		int A = leak_in[a];
		if (only_a >= 0 && a != only_a) {
			continue;
		}
		if (A && lookup_bad[0][A]) {
			continue;
		}
		for (int order = 0; order < (A ? 2 : 1); order++) {
			const char *calls = A ? (order == 0 ? "seti,setf" : "setf,seti") : "setf";
			impl_fresh();
			if (order == 0) {
				if (A) {
					setilocale(mloc[A].name);
				}
				setflocale(mloc[B].name);
			} else {
				setflocale(mloc[B].name);
				setilocale(mloc[A].name);
			}
			++*c_states;
			for (int f = 0; f < NSFMT; f++) {
				for (int t = 0; t < NTAB; t++) {
					char fmt[64];
					mk_sfmt(fmt, sizeof(fmt), f, t);
					for (int i = 1; i <= tab_n[t]; i++) {
						char got[3][12];
						const char *text = leak_base[a].text[f][t][i];
						leak_eval(text, fmt, got);
						*c_trans += 3;
						for (int form = 0; form < 3; form++) {
							const char *want = leak_base[a].val[f][t][i][form];
							const char *oc;
							if (!strcmp(got[form], want)) {
								continue;
							}
							oc = !*got[form] ? "lost" : !*want ? "appeared" : "other-value";
							bad++;
							if (replay) {
								printf("  %s: -i '%s' '%s' (%s): without --locale '%s', with --locale %s '%s'\n", calls, fmt, text, form_name[form],
								       want, mloc[B].name, got[form]);
							}
							snprintf(key, sizeof(key), "locale-leak calls=%s format=%s spec=%s outcome=%s", calls, sfmts[f].label, tab_spec[t], oc);
							snprintf(cas, sizeof(cas), "leak %d %d", B, a);
							snprintf(cmd, sizeof(cmd), "echo '%s%s%s' | %s %s%s%s --locale %s -i '%s' -f '%%F'%s", form == 2 ? "foo " : "", text, form == 2 ? " bar" : "",
								 order == 0 && A ? "dadd" : "dconv", form == 2 ? "-S " : "", A ? "--from-locale " : "", A ? mloc[A].name : "",
								 mloc[B].name, fmt, order == 0 && A ? " +0d" : "");
							ex_viol(key, (double)B, cas, cmd, "input names of %s, -i '%s', '%s' (%s form): reads as '%s' without an output locale, as '%s' once the output locale is %s (%s)",
								mloc[A].name, fmt, text, form_name[form], want, got[form], mloc[B].name, calls);
						}
					}
				}
			}
		}
	}
	impl_fresh();
	return bad;
}

/* binaries: dconv (arguments, stdin, -S), dadd and dround (stdin, -S) with --locale B against the same run without it; numeric output */
static const char *const leakm_in_names[3] = {NULL, "fr_FR", "ru_RU"};
struct leakm_run_s {
	const char *tool;
	int sed, args;
	const char *extra;
};
static const struct leakm_run_s leakm_runs[] = {
	{"dconv", 0, 1, NULL}, {"dconv", 0, 0, NULL}, {"dconv", 1, 0, NULL},
	{"dadd", 0, 0, "+0d"}, {"dadd", 1, 0, "+0d"},
	{"dround", 0, 0, "28"}, {"dround", 1, 0, "28"},
};
#define NLEAKMRUN	((int)(sizeof(leakm_runs) / sizeof(*leakm_runs)))
static const int leakm_tabs[3] = {T_ABBR_MON, T_LONG_MON, T_ABBR_WDAY};

static void
leakm_run(int run, int a, int B, int f, int t, struct fs_result *r, char *cmd, size_t cmdsz)
{
	const struct leakm_run_s *rn = leakm_runs + run;
	const char *av[40];
	char fmt[64], in[2600];
	int ac = 0, aidx = 0, A = leakm_in_names[a] ? loc_index(leakm_in_names[a]) : 0;
	size_t ik = 0;

	for (int k = 0; k < NLEAKIN; k++) {
		if (leak_in[k] == A) {
			aidx = k;
		}
	}
	mk_sfmt(fmt, sizeof(fmt), f, t);
	av[ac++] = rn->tool;
	if (rn->sed) {
		av[ac++] = "-S";
	}
	if (A) {
		av[ac++] = "--from-locale";
		av[ac++] = mloc[A].name;
	}
	if (B) {
		av[ac++] = "--locale";
		av[ac++] = mloc[B].name;
	}
	av[ac++] = "-i";
	av[ac++] = fmt;
	av[ac++] = "-f";
	av[ac++] = "%F";
	in[0] = '\0';
	for (int i = 1; i <= tab_n[t]; i++) {
		const char *text = leak_base[aidx].text[f][t][i];
		if (rn->args) {
			av[ac++] = text;
		} else {
			ik += (size_t)snprintf(in + ik, sizeof(in) - ik, rn->sed ? "foo %s bar\n" : "%s\n", text);
		}
	}
	if (rn->extra) {
		av[ac++] = rn->extra;
	}
	av[ac] = NULL;
	run_bin(rn->tool, av, ac, rn->args ? NULL : in, r, cmd, cmdsz);
}

static int
do_leak_main(int B, int replay)
{
	static char *base_out[3][2][3][NLEAKMRUN];
	static int base_st[3][2][3][NLEAKMRUN];
	int bad = 0;
	char key[256], cas[64], cmd[3400];
	EX_CTR(c_trans, "transitions");

	if (lookup_bad[1][B]) {
		return 0;
	}
	run_bin_prefer_plain = 1;
	for (int a = 0; a < 3; a++) {
		for (int fi = 0; fi < 2; fi++) {
			int f = fi + 1;		/* name-first-separated, name-after-separator */
			for (int ti = 0; ti < 3; ti++) {
				int t = leakm_tabs[ti];
				for (int run = 0; run < NLEAKMRUN; run++) {
					struct fs_result r;
					int st;
					if (base_out[a][fi][ti][run] == NULL) {
						leakm_run(run, a, 0, f, t, &r, NULL, 0);
						base_out[a][fi][ti][run] = strdup(r.out);
						base_st[a][fi][ti][run] = r.exited ? r.status : -r.sig;
						fs_free(&r);
					}
					leakm_run(run, a, B, f, t, &r, cmd, sizeof(cmd));
					st = r.exited ? r.status : -r.sig;
					++*c_trans;
					ex_outcome(ex_hash(r.out, r.outlen));
					if (st != base_st[a][fi][ti][run] || strcmp(r.out, base_out[a][fi][ti][run])) {
						bad++;
						snprintf(key, sizeof(key), "locale-leak-main tool=%s form=%s from-locale=%s format=%s spec=%s", leakm_runs[run].tool,
							 leakm_runs[run].args ? "arguments" : leakm_runs[run].sed ? "sed-in-text" : "stdin", a ? "given" : "none",
							 sfmts[f].label, tab_spec[t]);
						snprintf(cas, sizeof(cas), "leakmain %d", B);
						ex_viol(key, (double)B, cas, cmd, "with --locale %s the run gives [%s] '%.120s', without it status %d '%.120s' (output format %%F: only numbers)",
							mloc[B].name, fs_ending(&r), r.out, base_st[a][fi][ti][run], base_out[a][fi][ti][run]);
					}
					if (replay) {
						printf("  %s\n  -> [%s] '%.160s' %s\n", cmd, fs_ending(&r), r.out,
						       (st != base_st[a][fi][ti][run] || strcmp(r.out, base_out[a][fi][ti][run])) ? "(DIFFERS from the run without --locale)" : "(same as without --locale)");
					}
					fs_free(&r);
				}
			}
		}
	}
	run_bin_prefer_plain = 0;
	return bad;
}

#endif
