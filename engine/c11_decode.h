/* c11_decode.h -- held representations of date-times, their standard text, and a
 * boring decoder of printed date-times back to the model's (day ordinal, second).
 * Shared by the C11 and C14 explorers.  Needs impl.h and refcal.h. */
#ifndef VERIF_C11_DECODE_H
#define VERIF_C11_DECODE_H

enum { H_YMD, H_YWD, H_YD, H_YMCW, H_DAISY, H_SEXY, H_SEXYFMT, H_BIZDA, H_LDN, H_MDN, NHELD };
static const char *const held_name[NHELD] = {"ymd", "ywd", "yd", "ymcw", "daisy", "epoch@", "epoch%s", "bizda", "ldn", "mdn"};
/* input format handed to the parser (NULL: the standard parser, as the tools use without -i) */
static const char *const held_ifmt[NHELD] = {NULL, NULL, "%Y-%jT%T", NULL, NULL, NULL, "%s", NULL, "ldn", "mdn"};
/* output format (NULL: the tool's default for the held value); year-day values print
 * without their time by default, day counts print as a number, so both get an explicit one */
static const char *const held_ofmt[NHELD] = {NULL, NULL, "%Y-%jT%T", NULL, "%FT%T", NULL, NULL, "%FT%T", "%FT%T", "%FT%T"};
/* how the printed text is laid out */
static const int held_olayout[NHELD] = {H_YMD, H_YWD, H_YD, H_YMCW, H_YMD, H_YMD, H_YMD, H_YMD, H_YMD, H_YMD};

/* text of (rd, sod) in representation H; sod may be 86400 (T24:00:00) for civil texts */
static int
held_text(int h, int rd, int sod, char *buf, size_t bsz)
{
	const struct rc_day *p = rc_get(rd);
	int H = sod / 3600, M = sod / 60 % 60, S = sod % 60;
	if (p == NULL) {
		return 0;
	}
	switch (h) {
	case H_YMD:
	case H_DAISY:
		snprintf(buf, bsz, "%04d-%02d-%02dT%02d:%02d:%02d", p->y, p->m, p->d, H, M, S);
		return 1;
	case H_YWD:
		snprintf(buf, bsz, "%04d-W%02d-%dT%02d:%02d:%02d", p->isoy, p->isow, p->wd, H, M, S);
		return 1;
	case H_YD:
		snprintf(buf, bsz, "%04d-%03dT%02d:%02d:%02d", p->y, p->yday, H, M, S);
		return 1;
	case H_YMCW:
		snprintf(buf, bsz, "%04d-%02d-%02d-%02dT%02d:%02d:%02d", p->y, p->m, p->mcnt, p->wd, H, M, S);
		return 1;
	case H_BIZDA:
		/* business days only: a weekend has no name in this calendar; printed with %FT%T */
		if (!p->isbd) {
			return 0;
		}
		snprintf(buf, bsz, "%04d-%02d-%02dbT%02d:%02d:%02d", p->y, p->m, p->bd, H, M, S);
		return 1;
	case H_LDN:
	case H_MDN:
		/* day numbers with a time part are decimal fractions of a day: only midnight and noon are
		 * written exactly (N and N.5) */
		if (sod != 0 && sod != 43200) {
			return 0;
		}
		snprintf(buf, bsz, "%lld%s", (long long)(h == H_LDN ? rc_ldn(p->rd) : rc_mdn(p->rd)), sod ? ".5" : ".0");
		return 1;
	case H_SEXY:
		snprintf(buf, bsz, "@%lld", (long long)p->unixd * 86400LL + sod);
		return 1;
	case H_SEXYFMT:
		snprintf(buf, bsz, "%lld", (long long)p->unixd * 86400LL + sod);
		return 1;
	}
	return 0;
}

/* the value as the tools hold it */
static int
held_value(int h, int rd, int sod, struct dt_dt_s *out, char *text, size_t tsz)
{
	struct dt_dt_s v;
	if (!held_text(h, rd, sod, text, tsz)) {
		return 0;
	}
	v = dt_strpdt(text, held_ifmt[h], NULL);
	if (dt_unk_p(v)) {
		return 0;
	}
	if (h == H_DAISY) {
		v = dt_dtconv((dt_dttyp_t)DT_DAISY, v);
		if (dt_unk_p(v) || v.d.typ != DT_DAISY) {
			return 0;
		}
	}
	*out = v;
	return 1;
}

/* unsigned integer fields of TEXT, the rest goes to the skeleton SK */
static int
dec_scan(const char *s, long long v[], int maxv, char *sk, size_t sksz)
{
	int n = 0;
	size_t k = 0;
	while (*s) {
		if (*s >= '0' && *s <= '9') {
			long long x = 0;
			int dig = 0;
			while (*s >= '0' && *s <= '9' && dig < 18) {
				x = x * 10 + (*s++ - '0');
				dig++;
			}
			if (n < maxv) {
				v[n] = x;
			}
			n++;
		} else {
			if (k + 1 < sksz) {
				sk[k++] = *s;
			}
			s++;
		}
	}
	sk[k] = '\0';
	return n;
}

/* decode a printed date-time of the given layout to Unix seconds; 0 if the text is not
 * a date-time of that layout or names no day of the model's range.
 * H:M:S may be 24:00:00 (00:00:00 of the following day) or carry second 60 (SEC60 set). */
static int
dec_datetime(int layout, const char *text, int64_t *inst, int *sec60)
{
	long long v[8];
	char sk[16];
	int n = dec_scan(text, v, 8, sk, sizeof(sk));
	int rd = -1, t0;
	long long H, M, S;

	switch (layout) {
	case H_YMD:
		if (n != 6 || strcmp(sk, "--T::")) {
			return 0;
		}
		if (v[0] < RC_MIN_YEAR || v[0] > RC_MAX_YEAR || v[1] < 1 || v[1] > 12 || v[2] < 1 || v[2] > rc_mlen((int)v[0], (int)v[1])) {
			return 0;
		}
		rd = rc_rd((int)v[0], (int)v[1], (int)v[2]);
		t0 = 3;
		break;
	case H_YD:
		if (n != 5 || strcmp(sk, "-T::")) {
			return 0;
		}
		if (v[0] < RC_MIN_YEAR || v[0] > RC_MAX_YEAR || v[1] < 1 || v[1] > 365 + rc_leapp((int)v[0])) {
			return 0;
		}
		rd = rc_yearstart[v[0]] + (int)v[1] - 1;
		t0 = 2;
		break;
	case H_YWD: {
		const struct rc_day *p;
		int jan4;
		if (n != 6 || strcmp(sk, "-W-T::")) {
			return 0;
		}
		if (v[0] < RC_MIN_YEAR || v[0] > RC_MAX_YEAR || v[1] < 1 || v[1] > 53 || v[2] > 7) {
			return 0;
		}
		if (v[2] == 0) {
			v[2] = 7;	/* Sunday as 0 */
		}
		/* Jan 4 always lies in week 1 */
		jan4 = rc_rd((int)v[0], 1, 4);
		rd = jan4 - (rc_get(jan4)->wd - 1) + ((int)v[1] - 1) * 7 + ((int)v[2] - 1);
		p = rc_get(rd);
		if (p == NULL || p->isoy != v[0] || p->isow != v[1] || p->wd != v[2]) {
			return 0;
		}
		t0 = 3;
		break;
	}
	case H_YMCW: {
		const struct rc_day *p;
		int first;
		if (n != 7 || strcmp(sk, "---T::")) {
			return 0;
		}
		if (v[0] < RC_MIN_YEAR || v[0] > RC_MAX_YEAR || v[1] < 1 || v[1] > 12 || v[2] < 1 || v[2] > 5 || v[3] > 7) {
			return 0;
		}
		if (v[3] == 0) {
			v[3] = 7;
		}
		first = rc_rd((int)v[0], (int)v[1], 1);
		rd = first + (((int)v[3] - rc_get(first)->wd) + 7) % 7 + ((int)v[2] - 1) * 7;
		p = rc_get(rd);
		if (p == NULL || p->m != v[1] || p->y != v[0]) {
			return 0;
		}
		t0 = 4;
		break;
	}
	default:
		return 0;
	}
	H = v[t0], M = v[t0 + 1], S = v[t0 + 2];
	*sec60 = 0;
	if (H == 24 && M == 0 && S == 0) {
		;
	} else if (H > 23 || M > 59 || S > 60) {
		return 0;
	} else if (S == 60) {
		*sec60 = 1;
	}
	*inst = (int64_t)rc_get(rd)->unixd * 86400 + H * 3600 + M * 60 + S;
	return 1;
}

#endif
