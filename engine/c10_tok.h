/* c10_tok.h -- the specifier tokenizer, interposed: the explorer's definition of __tok_spec wins over
 * the archive member (lib/token.c is compiled into this translation unit under another name) and
 * remembers the specifier in flight, so that a memory report can be attributed to it. */
#ifndef VERIF_C10_TOK_H
#define VERIF_C10_TOK_H
#include "token.h"
#define __tok_spec c10_real_tok_spec
#include "token.c"
#undef __tok_spec
#include "c10_common.h"

struct dt_spec_s
__tok_spec(const char *fp, const char **ep)
{
	const char *e = NULL;
	struct dt_spec_s r;
	xt_fp = fp;
	xt_ep = NULL;
	xt_calls++;
	r = c10_real_tok_spec(fp, &e);
	xt_ep = e;
	if (!xa_inside(fp) || (xt_fmt_lo != NULL && fp >= xt_fmt_lo && fp < xt_fmt_hi)) {
		xt_in_fp = fp;
		xt_in_ep = e;
	}
	if (ep != NULL) {
		*ep = e;
	}
	return r;
}
#endif
