/* c04_monyr.c -- C04: month / quarter / year arithmetic keeps the day and clamps
 * to the end of the month (week-based calendars: to the last existing week).
 *
 * Form A: states = days of the reference successor machine.  In every state
 * the day is written in each calendar that has months or years (ymd, ymcw,
 * bizda: months, quarters, years; ywd, yd: years), parsed by the public parser
 * as dadd does; the duration text ("+5mo", "-2q", "+1y") goes through the
 * tools' dt_io_strpdtdur() and dt_dtadd().  Oracle from the statement:
 *   ymd    year*12+month moves by exactly n, day = min(day, length of target month)
 *   ymcw   same month arithmetic, weekday kept, count = min(count, number of that weekday in the target month)
 *   bizda  same month arithmetic, index = min(index, Monday-Friday days of the target month)
 *   ywd +y ISO year + n, weekday kept, week = min(week, 52|53 of the target year)
 *   yd  +y year + n, day of year = min(yday, 365|366)
 * observed as default output (the printed text parsed back must be that valid
 * date), as %F and as dt_dconv(DT_DAISY) of the model's target state.
 * Composition: two durations of one invocation (dadd DATE +a +b, applied one
 * after the other by dt_dtadd, printed once) must equal the single duration
 * a+b: months+months, years+years, months+years.
 * Binding: dadd binary over all days per calendar; dseq A 1mo B. */
#include "impl.h"
#include "explore.h"
#include "refcal.h"
#include "c03_common.h"
#include "c07_common.h"

enum { U_MO, U_Q, U_Y, NUNIT };
static const char *const unit_name[NUNIT] = {"mo", "q", "y"};
static const int unit_months[NUNIT] = {1, 3, 12};
enum { O_DAISY, O_DFLT, O_F, NOBS };
static const char *const obs_name[NOBS] = {"daisy", "dflt", "%F"};

static const int mcal[] = {C_YMD, C_YMCW, C_BIZDA, C_YWD, C_YD, C_YMCW0, C_YWD0, C_EPOCH};
#define NMCAL	((int)(sizeof(mcal) / sizeof(*mcal)))

static int
cal_has_unit(int c, int u)
{
	/* ywd and yd have no notion of months */
	return u == U_Y || c == C_YMD || c == C_YMCW || c == C_BIZDA || c == C_YMCW0 || c == C_EPOCH;
}

/* counts per unit, simplest first */
#define MAXN	256
static int ns[NUNIT][MAXN], nn[NUNIT];
static struct durs_s nd[NUNIT][MAXN];

static void
add_n(int u, int n)
{
	for (int i = 0; i < nn[u]; i++) {
		if (ns[u][i] == n) {
			return;
		}
	}
	if (nn[u] >= MAXN) {
		fprintf(stderr, "BROKEN-CHECK: c04 table of counts too small\n");
		exit(3);
	}
	ns[u][nn[u]++] = n;
}

static void
mk_tables(void)
{
	static const int xmo[] = {48, 60, 100, 120, 400, 1200, 4800};
	static const int xq[] = {40, 100, 400};
	static const int xy[] = {28, 100, 400};

	add_n(U_MO, 0);
	add_n(U_Q, 0);
	add_n(U_Y, 0);
	for (int n = 1; n <= 40; n++) {
		add_n(U_MO, n);
		add_n(U_MO, -n);
	}
	for (int n = 1; n <= 8; n++) {
		add_n(U_Q, n);
		add_n(U_Q, -n);
	}
	for (int n = 1; n <= 12; n++) {
		add_n(U_Y, n);
		add_n(U_Y, -n);
	}
	for (size_t i = 0; i < sizeof(xmo) / sizeof(*xmo); i++) {
		add_n(U_MO, xmo[i]);
		add_n(U_MO, -xmo[i]);
	}
	for (size_t i = 0; i < sizeof(xq) / sizeof(*xq); i++) {
		add_n(U_Q, xq[i]);
		add_n(U_Q, -xq[i]);
	}
	for (size_t i = 0; i < sizeof(xy) / sizeof(*xy); i++) {
		add_n(U_Y, xy[i]);
		add_n(U_Y, -xy[i]);
	}
	for (int u = 0; u < NUNIT; u++) {
		for (int i = 0; i < nn[u]; i++) {
			char txt[32];
			snprintf(txt, sizeof(txt), "%+d%s", ns[u][i], unit_name[u]);
			if (mk_durs(&nd[u][i], txt) < 0 || nd[u][i].n != 1) {
				fprintf(stderr, "BROKEN-CHECK: duration text '%s' not accepted by dt_io_strpdtdur\n", txt);
				exit(3);
			}
		}
	}
}

static const struct spell_s spellings[] = {
	{"+1Y", "+1y"}, {"-1Y", "-1y"}, {"1Y", "+1y"}, {"1y", "+1y"},
	{"+1MO", "+1mo"}, {"-1MO", "-1mo"}, {"1MO", "+1mo"}, {"1mo", "+1mo"},
};
#define NSPELL	((int)(sizeof(spellings) / sizeof(*spellings)))

/* ---- the model ---- */
struct tgt_s {
	int ok;		/* 0: outside the range */
	int rd;
	int clamp;	/* the day / count / week had to be cropped */
};

/* rd of the Monday of week 1 of ISO year Y, by looking at the table */
static int
iso_w1_monday(int y)
{
	int rd = rc_rd(y, 1, 1) - 3;
	if (rd < 0) {
		rd = 0;
	}
	for (; rd < RC_NDAYS && rd <= rc_rd(y, 1, 1) + 7; rd++) {
		if (rc_tab[rd].isoy == y && rc_tab[rd].isow == 1 && rc_tab[rd].wd == 1) {
			return rd;
		}
	}
	return -1;
}

static struct tgt_s
model_target(int c, const struct rc_day *p, int months)
{
	struct tgt_s t = {0, 0, 0};

	/* an epoch prints as a ymd date-time: the ymd rule is the one reading besides "no months here" */
	c = c == C_EPOCH ? C_YMD : cal_base[c];
	if (c == C_YMD || c == C_YMCW || c == C_BIZDA) {
		long ym = (long)p->y * 12 + (p->m - 1) + months;
		int y = (int)(ym / 12), m = (int)(ym % 12) + 1;
		int first, len;

		if (ym < 0 || y < RC_MIN_YEAR || y > RC_MAX_YEAR) {
			return t;
		}
		first = rc_rd(y, m, 1);
		len = rc_mlen(y, m);
		if (c == C_YMD) {
			int d = p->d <= len ? p->d : len;
			t.clamp = d != p->d;
			t.rd = first + d - 1;
		} else if (c == C_YMCW) {
			/* occurrences of weekday wd in the target month, by walking it */
			int cnt = 0, last = -1, hit = -1;
			for (int k = first; k < first + len; k++) {
				if (rc_tab[k].wd == p->wd) {
					cnt++;
					last = k;
					if (cnt == p->mcnt) {
						hit = k;
					}
				}
			}
			t.clamp = hit < 0;
			t.rd = hit >= 0 ? hit : last;
		} else {
			int last = -1, hit = -1;
			for (int k = first; k < first + len; k++) {
				if (rc_tab[k].isbd) {
					last = k;
					if (rc_tab[k].bd == p->bd) {
						hit = k;
					}
				}
			}
			t.clamp = hit < 0;
			t.rd = hit >= 0 ? hit : last;
		}
		t.ok = 1;
	} else if (c == C_YWD) {
		int y = p->isoy + months / 12;
		int w1, weeks, w;
		if (y < RC_MIN_YEAR || y > RC_MAX_YEAR || (w1 = iso_w1_monday(y)) < 0) {
			return t;
		}
		weeks = rc_isoweeks(y);
		w = p->isow <= weeks ? p->isow : weeks;
		t.clamp = w != p->isow;
		t.rd = w1 + 7 * (w - 1) + (p->wd - 1);
		t.ok = t.rd >= 0 && t.rd < RC_NDAYS && rc_tab[t.rd].isoy == y && rc_tab[t.rd].isow == w;
	} else if (c == C_YD) {
		int y = p->y + months / 12;
		int len, yd;
		if (y < RC_MIN_YEAR || y > RC_MAX_YEAR) {
			return t;
		}
		len = 365 + rc_leapp(y);
		yd = p->yday <= len ? p->yday : len;
		t.clamp = yd != p->yday;
		t.rd = rc_yearstart[y] + yd - 1;
		t.ok = 1;
	}
	return t;
}

static uint64_t *c_eval, *c_trans, *c_nontriv, *c_skip_range, *c_clamped, *c_comp, *c_comp_bits, *c_skip_mid, *c_epoch_noop,
	*c_mixed, *c_mixed_memo, *c_skip_mixwe;

/* observe value R against target state T; fills ok[]/got[] */
static void
observe(int c, struct dt_dt_s r, const struct rc_day *t, int ok[NOBS], char got[NOBS][64])
{
	unsigned int daisy = obs_daisy(r);

	snprintf(got[O_DAISY], 64, "%u", daisy);
	ok[O_DAISY] = !dt_unk_p(r) && daisy == (unsigned int)t->rd + 1U;
	memset(got[O_DFLT], 0, 64);
	dt_strfdt(got[O_DFLT], 64, NULL, r);
	ok[O_DFLT] = dflt_agrees(c, t, got[O_DFLT]);
	memset(got[O_F], 0, 64);
	dt_strfdt(got[O_F], 64, "%F", r);
	ok[O_F] = ymd_agrees(t, got[O_F]);
	*c_eval += 3;
	ex_outcome(ex_hash_mix(ex_hash(got[O_DFLT], strlen(got[O_DFLT])), ex_hash(got[O_F], strlen(got[O_F])) + daisy));
}

static int
do_case(const struct rc_day *p, int c, struct dt_dt_s v, int u, int n, const struct durs_s *ds, int replay)
{
	struct tgt_s tg = model_target(c, p, n * unit_months[u]);
	const struct rc_day *t;
	struct dt_dt_s r;
	char got[NOBS][64];
	int ok[NOBS];
	int bad = 0;
	char sign = n > 0 ? '+' : n < 0 ? '-' : '0';

	if (!tg.ok) {
		++*c_skip_range;
		if (replay) {
			printf("  result outside 1601..4095: outside the property\n");
		}
		return 0;
	}
	t = rc_get(tg.rd);
	r = apply_durs(v, ds);
	++*c_eval;
	++*c_trans;
	if (tg.clamp) {
		++*c_clamped;
	}
	if (tg.clamp || t->y != p->y) {
		++*c_nontriv;
	}
	observe(c, r, t, ok, got);
	if (c == C_EPOCH && !(ok[O_DAISY] && ok[O_DFLT] && ok[O_F])) {
		/* reading: the property lists the calendars that have months and years, an epoch
		 * (like the other day numbers) is not among them: leaving the value alone is the
		 * other acceptable answer; anything else is wrong under both readings */
		int ok2[NOBS];
		char got2[NOBS][64];
		observe(c, r, p, ok2, got2);
		if (ok2[O_DAISY] && ok2[O_DFLT] && ok2[O_F]) {
			++*c_epoch_noop;
			if (replay) {
				printf("  epoch value left unchanged: accepted (no notion of months)\n");
			}
			return 0;
		}
	}
	for (int o = 0; o < NOBS; o++) {
		char key[128];
		if (ok[o] && !replay) {
			continue;
		}
		if (!ok[o]) {
			bad++;
		}
		snprintf(key, sizeof(key), "add cal=%s unit=%s sign=%c clamp=%d obs=%s", cal_name[c], unit_name[u], sign, tg.clamp, obs_name[o]);
		if (!ok[o] && !ex_viol_known(key, (double)tg.rd)) {
			char text[48], cas[64], cmd[256], dtxt[32], exp[64];
			cal_text(c, p, text, sizeof(text));
			snprintf(dtxt, sizeof(dtxt), "%+d%s", n, unit_name[u]);
			snprintf(cas, sizeof(cas), "%d %d %d %d", c, u, n, p->rd);
			const char *cmdp = dadd_cmd(cmd, sizeof(cmd), c, text, dtxt, o == O_F ? "%F" : NULL);
			if (o == O_DAISY) {
				snprintf(exp, sizeof(exp), "%d", tg.rd + 1);
			} else if (o == O_DFLT) {
				exp_dflt(c, t, exp, sizeof(exp));
			} else {
				snprintf(exp, sizeof(exp), "%04d-%02d-%02d", t->y, t->m, t->d);
			}
			ex_viol(key, (double)tg.rd, cas, o == O_DAISY ? NULL : cmdp,
				"%04d-%02d-%02d given as '%s' (%s) %s: %s observation is '%s'; keeping the %s and cropping to the end%s gives %04d-%02d-%02d = '%s'",
				p->y, p->m, p->d, text, cal_name[c], dtxt, obs_name[o], got[o],
				(c == C_YMD || c == C_EPOCH) ? "day of the month" : cal_base[c] == C_YMCW ? "weekday and count" : c == C_BIZDA ? "business-day index" :
				cal_base[c] == C_YWD ? "week and weekday" : "day of the year", tg.clamp ? " (cropped here)" : "",
				t->y, t->m, t->d, exp);
		}
		if (replay) {
			printf("  %04d-%02d-%02d (%s) %+d%s -> model %04d-%02d-%02d%s; %s observation '%s' %s\n",
			       p->y, p->m, p->d, cal_name[c], n, unit_name[u], t->y, t->m, t->d, tg.clamp ? " (cropped)" : "",
			       obs_name[o], got[o], ok[o] ? "(agrees)" : "DISAGREES");
		}
	}
	return bad;
}

/* ---- composition ---- */
enum { K_MOMO, K_YY, K_MOY, K_YMO, NKIND };
static const char *const kind_name[NKIND] = {"mo+mo", "y+y", "mo+y", "y+mo"};
#define CR	14
struct pair_s {
	struct durs_s chain;	/* both durations, parsed with ONE parser state as dadd does for its arguments */
	struct durs_s single;	/* the single duration that equals their sum */
	int months_a, months_b;
	char ta[16], tb[16], ts[16];
};
static struct pair_s pairs[NKIND][2 * CR + 1][2 * CR + 1];

static void
mk_pairs(void)
{
	for (int k = 0; k < NKIND; k++) {
		const char *ua = (k == K_MOMO || k == K_MOY) ? "mo" : "y";
		const char *ub = (k == K_MOMO || k == K_YMO) ? "mo" : "y";
		for (int a = -CR; a <= CR; a++) {
			for (int b = -CR; b <= CR; b++) {
				struct pair_s *q = &pairs[k][a + CR][b + CR];
				struct __strpdtdur_st_s st = {0};
				const char *args[2];
				int sum;

				snprintf(q->ta, sizeof(q->ta), "%+d%s", a, ua);
				snprintf(q->tb, sizeof(q->tb), "%+d%s", b, ub);
				q->months_a = a * (ua[0] == 'y' ? 12 : 1);
				q->months_b = b * (ub[0] == 'y' ? 12 : 1);
				sum = q->months_a + q->months_b;
				if (k == K_YY) {
					snprintf(q->ts, sizeof(q->ts), "%+dy", a + b);
				} else {
					snprintf(q->ts, sizeof(q->ts), "%+dmo", sum);
				}
				args[0] = q->ta;
				args[1] = q->tb;
				/* dadd.c main(): one state for all duration arguments */
				for (int i = 0; i < 2; i++) {
					do {
						if (dt_io_strpdtdur(&st, args[i]) < 0) {
							fprintf(stderr, "BROKEN-CHECK: duration text '%s' not accepted\n", args[i]);
							exit(3);
						}
					} while (__strpdtdur_more_p(&st));
				}
				if (st.ndurs != 2) {
					fprintf(stderr, "BROKEN-CHECK: '%s %s' parsed into %zu durations\n", q->ta, q->tb, st.ndurs);
					exit(3);
				}
				q->chain.n = 2;
				q->chain.d[0] = st.durs[0];
				q->chain.d[1] = st.durs[1];
				__strpdtdur_free(&st);
				if (mk_durs(&q->single, q->ts) < 0 || q->single.n != 1) {
					fprintf(stderr, "BROKEN-CHECK: duration text '%s' not accepted\n", q->ts);
					exit(3);
				}
			}
		}
	}
}

static int
kind_ok(int c, int k)
{
	if (c == C_EPOCH) {
		return 0;	/* see do_case: two readings, compositions not judged */
	}
	return k == K_YY || c == C_YMD || c == C_YMCW || c == C_BIZDA || c == C_YMCW0;
}

/* ---- mixed sequences: a month/year step and a day/week/business-day step in one invocation ----
 * dadd --help: "duration addition is not commutative! 2000-03-30 +1mo +1d -> 2000-05-01,
 * 2000-03-30 +1d +1mo -> 2000-04-30": the durations are applied one after the other, each to
 * the DATE the previous one denotes (C04: that date is the cropped, valid one; C03: n days on
 * from it on the time line).  Model: crop, then step. */
enum { S_D, S_W, S_B, S_H, NSUNIT };
static const char *const sunit_name[NSUNIT] = {"d", "w", "b", "h"};
static const int first_mo[] = {1, -1, 2, -2, 3, -3, 6, -6, 11, -11, 12, -12, 13, -13};
static const int first_y[] = {1, -1, 2, -2, 3, -3, 4, -4};
static const int second_d[] = {1, -1, 2, -2, 7, -7, 28, -28, 31, -31};
static const int second_w[] = {1, -1, 4, -4, 52, -52};
static const int second_b[] = {1, -1, 2, -2, 5, -5, 21, -21};
static const int second_h[] = {9};	/* on a T23:00:00 value: carries into the next day, as an output zone does */
#define NFIRST	(14 + 8)
#define NSECOND	(10 + 6 + 8 + 1)
struct mix_s {
	struct durs_s fs;	/* first the month/year step */
	struct durs_s sf;	/* first the day step */
	int months, sunit, k;
	char tf[16], ts[16];
};
static struct mix_s mixes[NFIRST][NSECOND];

static void
two_durs(struct durs_s *out, const char *a, const char *b)
{
	/* dadd.c main(): one parser state for all duration arguments */
	struct __strpdtdur_st_s st = {0};
	const char *args[2] = {a, b};

	for (int i = 0; i < 2; i++) {
		do {
			if (dt_io_strpdtdur(&st, args[i]) < 0) {
				fprintf(stderr, "BROKEN-CHECK: duration text '%s' not accepted\n", args[i]);
				exit(3);
			}
		} while (__strpdtdur_more_p(&st));
	}
	if (st.ndurs != 2) {
		fprintf(stderr, "BROKEN-CHECK: '%s %s' parsed into %zu durations\n", a, b, st.ndurs);
		exit(3);
	}
	out->n = 2;
	out->d[0] = st.durs[0];
	out->d[1] = st.durs[1];
	__strpdtdur_free(&st);
}

static void
mk_mixes(void)
{
	for (int fi = 0; fi < NFIRST; fi++) {
		int fy = fi >= 14;
		int fn = fy ? first_y[fi - 14] : first_mo[fi];
		for (int si = 0; si < NSECOND; si++) {
			struct mix_s *m = &mixes[fi][si];
			int su = si < 10 ? S_D : si < 16 ? S_W : si < 24 ? S_B : S_H;
			int k = su == S_D ? second_d[si] : su == S_W ? second_w[si - 10] : su == S_B ? second_b[si - 16] : second_h[si - 24];
			m->months = fn * (fy ? 12 : 1);
			m->sunit = su;
			m->k = k;
			snprintf(m->tf, sizeof(m->tf), "%+d%s", fn, fy ? "y" : "mo");
			snprintf(m->ts, sizeof(m->ts), "%+d%s", k, sunit_name[su]);
			two_durs(&m->fs, m->tf, m->ts);
			two_durs(&m->sf, m->ts, m->tf);
		}
	}
}

/* the model's day/week/business-day step; -1 outside the range */
static int
model_step(int rd, int su, int k)
{
	long t;
	switch (su) {
	case S_D: t = (long)rd + k; break;
	case S_W: t = (long)rd + 7L * k; break;
	case S_B: return bz_target(rd, k);
	default: t = (long)rd + 1; break;	/* 23:00 + 9 h */
	}
	return (t < 0 || t >= RC_NDAYS) ? -1 : (int)t;
}

#define MEMO_PAD	2048
#define MEMO_SZ		(366 + 2 * MEMO_PAD)
static struct dt_dt_s memo_v[NCAL][2][MEMO_SZ];
static uint8_t memo_ok[NCAL][2][MEMO_SZ];
static int memo_base;

static void
memo_reset(int rd0)
{
	memo_base = rd0 - MEMO_PAD;
	memset(memo_ok, 0, sizeof(memo_ok));
}

/* V: the day held in calendar C; VT: the same with T23:00:00 (or unknown) */
static int
do_mixed(const struct rc_day *p, int c, struct dt_dt_s v, struct dt_dt_s vt, int fi, int si, int order, int replay)
{
	const struct mix_s *m = &mixes[fi][si];
	int fy = fi >= 14;
	int bc = cal_base[c];
	struct tgt_s tg;
	const struct rc_day *t;
	struct dt_dt_s r;
	int trd, clamp, hourp = m->sunit == S_H;
	int ok[NOBS], allok;
	char got[NOBS][64];
	long mi;

	if (order == 0) {
		/* month/year step, crop, then the day step */
		tg = model_target(c, p, m->months);
		if (!tg.ok) {
			++*c_skip_range;
			return 0;
		}
		clamp = tg.clamp;
		trd = model_step(tg.rd, m->sunit, m->k);
	} else {
		int q = model_step(p->rd, m->sunit, m->k);
		if (q < 0) {
			++*c_skip_range;
			return 0;
		}
		if (bc == C_BIZDA && !rc_tab[q].isbd) {
			++*c_skip_mixwe;
			return 0;
		}
		tg = model_target(c, rc_get(q), m->months);
		if (!tg.ok) {
			++*c_skip_range;
			return 0;
		}
		clamp = tg.clamp;
		trd = tg.rd;
	}
	if (trd < 0) {
		++*c_skip_range;
		return 0;
	}
	t = rc_get(trd);
	if (bc == C_BIZDA && !t->isbd) {
		/* no bizda name for the result */
		++*c_skip_mixwe;
		return 0;
	}
	r = apply_durs(hourp ? vt : v, order == 0 ? &m->fs : &m->sf);
	++*c_eval;
	++*c_trans;
	++*c_mixed;
	if (clamp) {
		++*c_nontriv;
	}
	mi = (long)trd - memo_base;
	if (!replay && mi >= 0 && mi < MEMO_SZ && memo_ok[c][hourp][mi] && !memcmp(&memo_v[c][hourp][mi], &r, sizeof(r))) {
		++*c_mixed_memo;
		return 0;
	}
	if (hourp) {
		char exp[64];
		memset(got, 0, sizeof(got));
		dt_strfdt(got[O_F], 64, "%FT%T", r);
		++*c_eval;
		snprintf(exp, sizeof(exp), "%04d-%02d-%02dT08:00:00", t->y, t->m, t->d);
		ok[O_DAISY] = ok[O_DFLT] = 1;
		ok[O_F] = !strcmp(got[O_F], exp);
		ex_outcome(ex_hash(got[O_F], strlen(got[O_F])));
	} else {
		observe(c, r, t, ok, got);
	}
	allok = ok[O_DAISY] && ok[O_DFLT] && ok[O_F];
	if (allok && mi >= 0 && mi < MEMO_SZ && !memo_ok[c][hourp][mi]) {
		memo_v[c][hourp][mi] = r;
		memo_ok[c][hourp][mi] = 1;
	}
	if (!allok) {
		char key[160];
		snprintf(key, sizeof(key), "mixed cal=%s order=%s first=%s second=%s sign=%c clamp=%d", cal_name[c],
			 order == 0 ? "month-step-first" : "day-step-first", fy ? "y" : "mo", sunit_name[m->sunit], m->k > 0 ? '+' : '-', clamp);
		if (!ex_viol_known(key, (double)trd)) {
			char text[64], cas[64], cmd[256], exp[64], ifm[48] = "";
			cal_text(c, p, text, sizeof(text));
			if (hourp) {
				strcat(text, "T23:00:00");
			}
			snprintf(cas, sizeof(cas), "mix %d %d %d %d %d", c, fi, si, order, p->rd);
			if (cal_ifmt[c]) {
				snprintf(ifm, sizeof(ifm), " -i '%s%s'", cal_ifmt[c], hourp ? "T%T" : "");
			}
			exp_dflt(c, t, exp, sizeof(exp));
			snprintf(cmd, sizeof(cmd), "dadd%s%s %s -- %s %s", ifm, hourp ? " -f %FT%T" : "", text,
				 order == 0 ? m->tf : m->ts, order == 0 ? m->ts : m->tf);
			ex_viol(key, (double)trd, cas, cmd, "%04d-%02d-%02d given as '%s' (%s) %s then %s: default output '%s', %%F%s '%s', day count %s; "
				"applying the steps one after the other to the date each denotes gives %04d-%02d-%02d%s = '%s'%s",
				p->y, p->m, p->d, text, cal_name[c], order == 0 ? m->tf : m->ts, order == 0 ? m->ts : m->tf,
				got[O_DFLT], hourp ? "T%T" : "", got[O_F], got[O_DAISY], t->y, t->m, t->d, hourp ? "T08:00:00" : "", exp,
				clamp ? " (the month/year step crops)" : "");
		}
	}
	if (replay) {
		printf("  %04d-%02d-%02d (%s) %s %s -> model %04d-%02d-%02d%s; observed dflt '%s' %%F '%s' daisy '%s' %s\n",
		       p->y, p->m, p->d, cal_name[c], order == 0 ? m->tf : m->ts, order == 0 ? m->ts : m->tf, t->y, t->m, t->d,
		       clamp ? " (cropped)" : "", got[O_DFLT], got[O_F], got[O_DAISY], allok ? "(agrees)" : "DISAGREES");
	}
	return !allok;
}

/* does calendar C take the first step FI / the second step SI of the mixed sequences? */
static int
mixed_ok(int c, int fi, int si)
{
	int su = si < 10 ? S_D : si < 16 ? S_W : si < 24 ? S_B : S_H;
	if (c == C_EPOCH || c == C_YMCW0 || c == C_YWD0) {
		/* epoch: two readings for the month step; the Sunday-00 spellings are judged on the single steps (here and in C03/C07) */
		return 0;
	}
	if (fi < 14 && !cal_has_unit(c, U_MO)) {
		return 0;
	}
	if (su == S_H) {
		/* date-times through the format-less parser: ymd ymcw ywd bizda */
		return c == C_YMD || c == C_YMCW || c == C_YWD || c == C_BIZDA;
	}
	return 1;
}

static int
do_comp(const struct rc_day *p, int c, struct dt_dt_s v, int k, int a, int b, int replay)
{
	const struct pair_s *q = &pairs[k][a + CR][b + CR];
	struct tgt_s mid = model_target(c, p, q->months_a);
	struct tgt_s end = model_target(c, p, q->months_a + q->months_b);
	struct dt_dt_s r2, r1;
	char g2[2][64], g1[2][64];
	int bad = 0;

	if (!end.ok) {
		++*c_skip_range;
		return 0;
	}
	if (!mid.ok) {
		/* the intermediate date leaves 1601..4095: outside the property */
		++*c_skip_mid;
		return 0;
	}
	r2 = apply_durs(v, &q->chain);
	r1 = apply_durs(v, &q->single);
	*c_eval += 2;
	++*c_trans;
	++*c_comp;
	if (mid.clamp || end.clamp) {
		++*c_nontriv;
	}
	if (!replay && !memcmp(&r1, &r2, sizeof(r1))) {
		/* same value: same text whatever the format */
		++*c_comp_bits;
		return 0;
	}
	memset(g1, 0, sizeof(g1));
	memset(g2, 0, sizeof(g2));
	dt_strfdt(g2[0], 64, NULL, r2);
	dt_strfdt(g1[0], 64, NULL, r1);
	dt_strfdt(g2[1], 64, "%F", r2);
	dt_strfdt(g1[1], 64, "%F", r1);
	*c_eval += 4;
	ex_outcome(ex_hash(g2, sizeof(g2)));
	for (int o = 0; o < 2; o++) {
		int ok = !strcmp(g1[o], g2[o]);
		if (!ok) {
			char key[128];
			bad++;
			snprintf(key, sizeof(key), "compose cal=%s kind=%s signs=%c%c obs=%s", cal_name[c], kind_name[k],
				 a > 0 ? '+' : a < 0 ? '-' : '0', b > 0 ? '+' : b < 0 ? '-' : '0', o ? "%F" : "dflt");
			if (!ex_viol_known(key, p->rd)) {
				char text[48], cas[64], cmd[256];
				cal_text(c, p, text, sizeof(text));
				snprintf(cas, sizeof(cas), "comp %d %d %d %d %d", c, k, a, b, p->rd);
				snprintf(cmd, sizeof(cmd), "dadd%s %s %s %s    # vs: dadd%s %s %s", o ? " -f %F" : "", text, q->ta, q->tb,
					 o ? " -f %F" : "", text, q->ts);
				ex_viol(key, p->rd, cas, cmd, "%04d-%02d-%02d given as '%s' (%s): '%s' then '%s' prints '%s' but '%s' prints '%s'",
					p->y, p->m, p->d, text, cal_name[c], q->ta, q->tb, g2[o], q->ts, g1[o]);
			}
		}
		if (replay) {
			printf("  %04d-%02d-%02d (%s): %s %s -> '%s'; %s -> '%s' %s\n", p->y, p->m, p->d, cal_name[c], q->ta, q->tb,
			       g2[o], q->ts, g1[o], ok ? "(agrees)" : "DISAGREES");
		}
	}
	return bad;
}

/* ---- ZONE: --from-zone with dates or durations on stdin ----
 * dadd --from-zone Z -z Z: date units step the CIVIL date (the time of day stays), time units
 * add elapsed seconds; the argument form does that.  The same must hold when the dates come
 * from stdin (plain, -S, -E) and when the durations come from stdin.  dadd binary; oracle: the
 * model (civil date stepped by the month/day/business-day model, time of day kept; for time
 * units the zone's offset rule written out here: Europe/Berlin = UTC+1, +2 from the last
 * Sunday of March 01:00 UTC to the last Sunday of October 01:00 UTC; Asia/Kolkata = UTC+5:30).
 * Civil times 00:30, 12:00, 23:30 exist exactly once on every day in both zones. */
static const char *const zn_name[] = {"Europe/Berlin", "Asia/Kolkata"};
#define NZN	2
static const int zn_tod[] = {1800, 43200, 84600};
struct zdur_s {
	const char *txt;
	int kind;	/* 0 months, 1 days, 2 business days, 3 seconds */
	long n;
	const char *unit;
};
static const struct zdur_s zdurs[] = {
	{"+1mo", 0, 1, "mo"}, {"-1mo", 0, -1, "mo"}, {"+1y", 0, 12, "y"}, {"+1d", 1, 1, "d"}, {"-1d", 1, -1, "d"}, {"+1w", 1, 7, "w"}, {"+1b", 2, 1, "b"},
	{"+24h", 3, 86400, "h"}, {"-1h", 3, -3600, "h"}, {"+90m", 3, 5400, "m"}, {"+86400s", 3, 86400, "s"},
};
#define NZDUR	((int)(sizeof(zdurs) / sizeof(*zdurs)))
enum { ZM_STDIN, ZM_SED, ZM_EMPTY, ZM_ARGS, ZM_DURS_STDIN, NZMODE };
static const char *const zm_name[NZMODE] = {"dates-on-stdin", "dates-on-stdin-S", "dates-on-stdin-E", "arguments", "durations-on-stdin"};
#define ZYEAR	2012

static int
last_sunday(int y, int m)
{
	int rd = rc_rd(y, m, rc_mlen(y, m));
	while (rc_tab[rd].wd != 7) {
		rd--;
	}
	return rd;
}

/* offset of zone ZI at the UTC instant U (seconds since 1970) */
static long
zn_offset(int zi, long long u)
{
	if (zi == 1) {
		return 19800;
	}
	{
		int y = rc_get((int)(RC_RD_1970 + u / 86400))->y;
		long long a = (long long)rc_get(last_sunday(y, 3))->unixd * 86400LL + 3600;
		long long b = (long long)rc_get(last_sunday(y, 10))->unixd * 86400LL + 3600;
		return 3600 + ((u >= a && u < b) ? 3600 : 0);
	}
}

/* expected civil text for civil day RD at TOD in zone ZI plus duration D; 0 if not judged */
static int
zn_expect(int zi, int rd, int tod, const struct zdur_s *d, char *exp, size_t esz)
{
	const struct rc_day *p = rc_get(rd), *t;
	if (d->kind == 3) {
		long long l = (long long)p->unixd * 86400LL + tod, u = -1, r;
		/* the one UTC instant whose civil time is l */
		for (long off = 3600; off <= 19800; off += 1800) {
			if (zn_offset(zi, l - off) == off) {
				u = l - off;
			}
		}
		if (u < 0) {
			return 0;
		}
		u += d->n;
		r = u + zn_offset(zi, u);
		t = rc_get((int)(RC_RD_1970 + r / 86400));
		snprintf(exp, esz, "%04d-%02d-%02dT%02lld:%02lld:%02lld", t->y, t->m, t->d, r % 86400 / 3600, r % 3600 / 60, r % 60);
		return 1;
	}
	if (d->kind == 0) {
		struct tgt_s tg = model_target(C_YMD, p, (int)d->n);
		if (!tg.ok) {
			return 0;
		}
		t = rc_get(tg.rd);
	} else if (d->kind == 1) {
		t = rc_get(rd + (int)d->n);
	} else {
		t = rc_get(bz_target(rd, (int)d->n));
	}
	snprintf(exp, esz, "%04d-%02d-%02dT%02d:%02d:%02d", t->y, t->m, t->d, tod / 3600, tod / 60 % 60, tod % 60);
	return 1;
}

static void
zone_job(int job)
{
	int zi = job % NZN, di = job / NZN % NZDUR, mode = job / NZN / NZDUR;
	const struct zdur_s *d = zdurs + di;
	const char *rundir = getenv("VERIF_RUNDIR");
	char fin[512], fout[512], cmd[1600], line[160], exp[64], key[160], cas[64], zf[256];
	int y0 = rc_yearstart[ZYEAR], y1 = rc_yearstart[ZYEAR + 1];
	FILE *fp;
	EX_CTR(c_bind, "cli_binding_replays");
	EX_CTR(c_bindln, "cli_binding_lines");
	EX_CTR(c_zone, "zone cases (zone, duration, civil date-time, input mode) compared with the model");
	EX_CTR(c_nozone, "skipped:zone section, zone file not installed");

	if (rundir == NULL || ex.tree == NULL) {
		return;
	}
	snprintf(zf, sizeof(zf), "/usr/share/zoneinfo/%s", zn_name[zi]);
	if (access(zf, R_OK)) {
		++*c_nozone;
		return;
	}
	snprintf(key, sizeof(key), "zone mode=%s zone=%s unit=%s sign=%c", zm_name[mode], zn_name[zi], d->unit, d->txt[0]);
	snprintf(cas, sizeof(cas), "zone %d", job);
	snprintf(fin, sizeof(fin), "%s/c04zone.%d.in", rundir, job);
	snprintf(fout, sizeof(fout), "%s/c04zone.%d.out", rundir, job);
	if (mode <= ZM_EMPTY) {
		/* every day of the year x three times of day on stdin */
		if ((fp = fopen(fin, "w")) == NULL) {
			return;
		}
		for (int rd = y0; rd < y1; rd++) {
			for (int k = 0; k < 3; k++) {
				const struct rc_day *p = rc_get(rd);
				fprintf(fp, "%04d-%02d-%02dT%02d:%02d:%02d\n", p->y, p->m, p->d, zn_tod[k] / 3600, zn_tod[k] / 60 % 60, 0);
			}
		}
		fclose(fp);
		snprintf(cmd, sizeof(cmd), "'%s/src/dadd'%s --from-zone %s -z %s -- %s < '%s' > '%s' 2>/dev/null", ex.tree,
			 mode == ZM_SED ? " -S" : mode == ZM_EMPTY ? " -E" : "", zn_name[zi], zn_name[zi], d->txt, fin, fout);
		if (system(cmd)) {
			;
		}
		++*c_bind;
		if ((fp = fopen(fout, "r")) == NULL) {
			return;
		}
		for (int rd = y0; rd < y1; rd++) {
			for (int k = 0; k < 3; k++) {
				const struct rc_day *p = rc_get(rd);
				if (!fgets(line, sizeof(line), fp)) {
					line[0] = '\0';
				}
				line[strcspn(line, "\n")] = '\0';
				++*c_bindln;
				if (!zn_expect(zi, rd, zn_tod[k], d, exp, sizeof(exp))) {
					continue;
				}
				++*c_zone;
				ex_outcome(ex_hash(line, strlen(line)));
				if (strcmp(line, exp)) {
					snprintf(cmd, sizeof(cmd), "echo %04d-%02d-%02dT%02d:%02d:00 | dadd%s --from-zone %s -z %s -- %s", p->y, p->m, p->d,
						 zn_tod[k] / 3600, zn_tod[k] / 60 % 60, mode == ZM_SED ? " -S" : mode == ZM_EMPTY ? " -E" : "", zn_name[zi], zn_name[zi], d->txt);
					ex_viol(key, rd, cas, cmd, "civil %04d-%02d-%02dT%02d:%02d:00 %s %s: printed '%s', the model gives '%s'", p->y, p->m, p->d,
						zn_tod[k] / 3600, zn_tod[k] / 60 % 60, zn_name[zi], d->txt, line, exp);
				}
			}
		}
		fclose(fp);
		unlink(fin);
		unlink(fout);
	} else {
		/* one process per date: every 7th day at 12:00 (and 00:30) */
		for (int rd = y0; rd < y1; rd += 7) {
			for (int k = 0; k < 2; k++) {
				const struct rc_day *p = rc_get(rd);
				FILE *pp;
				if (mode == ZM_ARGS) {
					snprintf(cmd, sizeof(cmd), "'%s/src/dadd' --from-zone %s -z %s %04d-%02d-%02dT%02d:%02d:00 -- %s 2>/dev/null", ex.tree,
						 zn_name[zi], zn_name[zi], p->y, p->m, p->d, zn_tod[k] / 3600, zn_tod[k] / 60 % 60, d->txt);
				} else {
					snprintf(cmd, sizeof(cmd), "echo '%s' | '%s/src/dadd' --from-zone %s -z %s %04d-%02d-%02dT%02d:%02d:00 2>/dev/null", d->txt, ex.tree,
						 zn_name[zi], zn_name[zi], p->y, p->m, p->d, zn_tod[k] / 3600, zn_tod[k] / 60 % 60);
				}
				line[0] = '\0';
				if ((pp = popen(cmd, "r")) != NULL) {
					if (!fgets(line, sizeof(line), pp)) {
						line[0] = '\0';
					}
					pclose(pp);
				}
				line[strcspn(line, "\n")] = '\0';
				++*c_bind;
				if (!zn_expect(zi, rd, zn_tod[k], d, exp, sizeof(exp))) {
					continue;
				}
				++*c_zone;
				if (strcmp(line, exp)) {
					if (mode == ZM_ARGS) {
						snprintf(cmd, sizeof(cmd), "dadd --from-zone %s -z %s %04d-%02d-%02dT%02d:%02d:00 -- %s", zn_name[zi], zn_name[zi], p->y, p->m, p->d,
							 zn_tod[k] / 3600, zn_tod[k] / 60 % 60, d->txt);
					} else {
						snprintf(cmd, sizeof(cmd), "echo '%s' | dadd --from-zone %s -z %s %04d-%02d-%02dT%02d:%02d:00", d->txt, zn_name[zi], zn_name[zi], p->y, p->m, p->d,
							 zn_tod[k] / 3600, zn_tod[k] / 60 % 60);
					}
					ex_viol(key, rd, cas, cmd, "civil %04d-%02d-%02dT%02d:%02d:00 %s %s: printed '%s', the model gives '%s'", p->y, p->m, p->d,
						zn_tod[k] / 3600, zn_tod[k] / 60 % 60, zn_name[zi], d->txt, line, exp);
				}
			}
		}
	}
}
#define NZONEJOBS	(NZN * NZDUR * NZMODE)

/* ---- ZLINES: several duration lines on stdin with --from-zone ----
 * dadd --from-zone Z DATE < lines: every line is added to the SAME reference date, so the
 * output of a line must not depend on the lines before it.  All ordered pairs (quick) /
 * triples (thorough) of lines over {1h 30m 1d 1w 1mo -1d 24h}, reference dates next to a DST
 * change in two zones, with and without -z Z; oracle: the line's output in a run of its own. */
static const char *const zl_let[] = {"1h", "30m", "1d", "1w", "1mo", "-1d", "24h"};
static const char *const zl_unit[] = {"h", "m", "d", "w", "mo", "d", "h"};
#define NZL	7
static const char *const zl_ref[][2] = {
	{"Europe/Berlin", "2024-03-30T12:00:00"}, {"Europe/Berlin", "2024-10-26T12:00:00"},
	{"America/New_York", "2024-03-09T12:00:00"}, {"America/New_York", "2024-11-02T12:00:00"},
};
#define NZLREF	4

static int
zl_run(const char *zone, const char *ref, int withz, const int *ix, int n, char out[][48])
{
	char cmd[1024], lines[64] = "", zopt[96] = "";
	FILE *pp;
	int got = 0;

	for (int i = 0; i < n; i++) {
		strcat(lines, zl_let[ix[i]]);
		strcat(lines, "\\n");
	}
	if (withz) {
		snprintf(zopt, sizeof(zopt), " -z %s", zone);
	}
	snprintf(cmd, sizeof(cmd), "printf '%%b' '%s' | '%s/src/dadd' --from-zone %s%s %s 2>/dev/null", lines, ex.tree, zone, zopt, ref);
	for (int i = 0; i < n; i++) {
		out[i][0] = '\0';
	}
	if ((pp = popen(cmd, "r")) != NULL) {
		while (got < n && fgets(out[got], 48, pp)) {
			out[got][strcspn(out[got], "\n")] = '\0';
			got++;
		}
		pclose(pp);
	}
	return got;
}

static void
zlines_job(int job)
{
	int ri = job % NZLREF, withz = job / NZLREF % 2, first = job / NZLREF / 2;
	const char *zone = zl_ref[ri][0], *ref = zl_ref[ri][1];
	char single[NZL][48], out[3][48], one[1][48], zf[256], key[160], cas[64], cmd[512];
	int len = ex.thorough ? 3 : 2;
	EX_CTR(c_bind, "cli_binding_replays");
	EX_CTR(c_zl, "duration lines on stdin with --from-zone compared with the line's own run");
	EX_CTR(c_nozone, "skipped:zone section, zone file not installed");

	if (ex.tree == NULL) {
		return;
	}
	snprintf(zf, sizeof(zf), "/usr/share/zoneinfo/%s", zone);
	if (access(zf, R_OK)) {
		++*c_nozone;
		return;
	}
	for (int i = 0; i < NZL; i++) {
		int ix[1] = {i};
		zl_run(zone, ref, withz, ix, 1, one);
		snprintf(single[i], 48, "%s", one[0]);
		++*c_bind;
	}
	for (int b = 0; b < NZL; b++) {
		for (int c = 0; c < (len == 3 ? NZL : 1); c++) {
			int ix[3] = {first, b, c};
			zl_run(zone, ref, withz, ix, len, out);
			++*c_bind;
			for (int i = 0; i < len; i++) {
				++*c_zl;
				ex_outcome(ex_hash(out[i], strlen(out[i])));
				if (strcmp(out[i], single[ix[i]])) {
					char units[32] = "", lines[48] = "";
					for (int k = 0; k < len; k++) {
						strcat(units, k ? "," : "");
						strcat(units, zl_unit[ix[k]]);
						strcat(lines, zl_let[ix[k]]);
						strcat(lines, "\\n");
					}
					snprintf(key, sizeof(key), "zlines zone=%s%s units=%s line=%d", zone, withz ? " -z" : "", units, i + 1);
					snprintf(cas, sizeof(cas), "zlines %d", job);
					snprintf(cmd, sizeof(cmd), "printf '%%b' '%s' | dadd --from-zone %s%s%s %s", lines, zone, withz ? " -z " : "", withz ? zone : "", ref);
					ex_viol(key, ri, cas, cmd, "line %d ('%s') prints '%s' after the lines before it, '%s' in a run of its own", i + 1, zl_let[ix[i]],
						out[i], single[ix[i]]);
				}
			}
		}
	}
}
#define NZLJOBS	(NZLREF * 2 * NZL)

/* ---- binding ---- */
struct bind_s {
	int cal;
	const char *dur;	/* one or two duration arguments */
	const char *ofmt;
};
static const struct bind_s binds[] = {
	{C_YMD, "+1mo", NULL}, {C_YMD, "-1mo", NULL}, {C_YMD, "+1y", NULL}, {C_YMD, "-13mo", NULL},
	{C_YMCW, "+1mo", NULL}, {C_YMCW, "-1y", NULL}, {C_BIZDA, "+1mo", NULL}, {C_BIZDA, "-1mo", NULL},
	{C_YWD, "+1y", NULL}, {C_YWD, "-1y", NULL}, {C_YD, "+1y", NULL}, {C_YD, "-4y", NULL},
	{C_YMD, "+1mo +1mo", NULL}, {C_YMD, "+1q", NULL},
	/* thorough only from here */
	{C_YMD, "+11mo", NULL}, {C_YMD, "-25mo", NULL}, {C_YMD, "-1y", NULL}, {C_YMD, "+4y", NULL}, {C_YMD, "-100y", NULL},
	{C_YMD, "-3q", NULL}, {C_YMD, "+1mo", "%F %a %j"}, {C_YMD, "+13mo -1y", NULL}, {C_YMD, "-1mo -1mo -1mo", NULL},
	{C_YMCW, "-1mo", NULL}, {C_YMCW, "+11mo", NULL}, {C_YMCW, "+1y", NULL}, {C_YMCW, "+1q", "%F"}, {C_YMCW, "+1mo +1mo", NULL},
	{C_BIZDA, "+1y", NULL}, {C_BIZDA, "-11mo", NULL}, {C_BIZDA, "+1q", "%F"}, {C_BIZDA, "+1mo +1mo", NULL},
	{C_YWD, "+5y", NULL}, {C_YWD, "-6y", "%F"}, {C_YWD, "+1y +1y", NULL}, {C_YD, "-1y", NULL}, {C_YD, "+3y", "%F"}, {C_YD, "+1y +1y", NULL},
};
#define NBIND_QUICK	14
#define NBIND		((int)(sizeof(binds) / sizeof(*binds)))

static void
bind_durs(struct durs_s *out, const char *durargs)
{
	/* split at blanks, one parser state for all arguments (dadd.c main) */
	struct __strpdtdur_st_s st = {0};
	char tmp[128];
	char *sv = NULL;

	snprintf(tmp, sizeof(tmp), "%s", durargs);
	for (char *a = strtok_r(tmp, " ", &sv); a; a = strtok_r(NULL, " ", &sv)) {
		do {
			if (dt_io_strpdtdur(&st, a) < 0) {
				fprintf(stderr, "BROKEN-CHECK: duration text '%s' not accepted\n", a);
				exit(3);
			}
		} while (__strpdtdur_more_p(&st));
	}
	out->n = (int)st.ndurs;
	for (int i = 0; i < out->n && i < MAXDURS; i++) {
		out->d[i] = st.durs[i];
	}
	__strpdtdur_free(&st);
}

static void
bind_lib(const struct bind_s *b, const struct durs_s *ds, const struct rc_day *p, char *text, size_t tsz, char *got, size_t gsz)
{
	struct dt_dt_s v;

	memset(got, 0, gsz);
	if (!cal_text(b->cal, p, text, tsz)) {
		return;
	}
	v = dt_strpdt(text, cal_ifmt[b->cal], NULL);
	if (dt_unk_p(v)) {
		return;
	}
	v = apply_durs(v, ds);
	if (!dt_unk_p(v)) {
		dt_strfdt(got, gsz, b->ofmt, v);
	}
}

static void
bind_cmdline(char *cmd, size_t csz, const struct bind_s *b, const char *tree)
{
	char pre[600] = "dadd";
	if (tree) {
		snprintf(pre, sizeof(pre), "'%s/src/dadd'", tree);
	}
	snprintf(cmd, csz, "%s%s%s%s %s", pre, b->ofmt ? " -f '" : "", b->ofmt ? b->ofmt : "", b->ofmt ? "'" : "", b->dur);
}

static void
do_binding(int k)
{
	char fin[512], fout[512], cmd[2048], cmdline[1024], line[256], got[256], text[64], key[256], cas[64];
	const char *rundir = getenv("VERIF_RUNDIR");
	const struct bind_s *b = binds + k;
	struct durs_s ds;
	FILE *f;
	int rd, nlines = 0, nin = 0, rc;
	EX_CTR(c_bind, "cli_binding_replays");
	EX_CTR(c_bindln, "cli_binding_lines");

	if (rundir == NULL || ex.tree == NULL) {
		return;
	}
	bind_durs(&ds, b->dur);
	snprintf(fin, sizeof(fin), "%s/c04bind.%d.in", rundir, k);
	snprintf(fout, sizeof(fout), "%s/c04bind.%d.out", rundir, k);
	if ((f = fopen(fin, "w")) == NULL) {
		return;
	}
	for (rd = 0; rd < RC_NDAYS; rd++) {
		if (cal_text(b->cal, rc_get(rd), text, sizeof(text))) {
			fprintf(f, "%s\n", text);
			nin++;
		}
	}
	fclose(f);
	bind_cmdline(cmdline, sizeof(cmdline), b, ex.tree);
	snprintf(cmd, sizeof(cmd), "%s < '%s' > '%s' 2>/dev/null", cmdline, fin, fout);
	rc = system(cmd);
	(void)rc;
	++*c_bind;
	bind_cmdline(cmdline, sizeof(cmdline), b, NULL);
	snprintf(key, sizeof(key), "binding dadd cal=%s dur=%s fmt=%s", cal_name[b->cal], b->dur, b->ofmt ? b->ofmt : "dflt");
	if ((f = fopen(fout, "r")) == NULL) {
		ex_viol(key, 0, "", cmdline, "no output from the binary");
		return;
	}
	for (rd = 0; rd < RC_NDAYS; rd++) {
		const struct rc_day *p = rc_get(rd);
		size_t l;
		if (!cal_text(b->cal, p, text, sizeof(text))) {
			continue;
		}
		if (!fgets(line, sizeof(line), f)) {
			break;
		}
		l = strlen(line);
		if (l && line[l - 1] == '\n') {
			line[l - 1] = '\0';
		}
		nlines++;
		bind_lib(b, &ds, p, text, sizeof(text), got, sizeof(got));
		++*c_bindln;
		if (strcmp(got, line)) {
			char one[1200];
			snprintf(cas, sizeof(cas), "bind %d %d", k, rd);
			snprintf(one, sizeof(one), "echo %s | %s", text, cmdline);
			ex_viol(key, rd, cas, one, "input line %d ('%s'): binary printed '%s', library-level exploration observed '%s'",
				nlines, text, line, got);
		}
	}
	fclose(f);
	if (nlines != nin) {
		ex_viol(key, nlines, "", cmdline, "binary printed %d lines for %d input lines", nlines, nin);
	}
	unlink(fin);
	unlink(fout);
}

static int
replay_binding(const char *cas)
{
	int k, rd;
	char text[64], cmdline[1024], cmd[1400], got[256] = "", line[256] = "";
	const struct bind_s *b;
	struct durs_s ds;
	FILE *pp;

	if (sscanf(cas, "%d %d", &k, &rd) != 2 || k < 0 || k >= NBIND || rd < 0 || rd >= RC_NDAYS) {
		return ex_replay_result(1, "bad case");
	}
	b = binds + k;
	bind_durs(&ds, b->dur);
	bind_lib(b, &ds, rc_get(rd), text, sizeof(text), got, sizeof(got));
	bind_cmdline(cmdline, sizeof(cmdline), b, ex.tree);
	snprintf(cmd, sizeof(cmd), "echo '%s' | %s 2>/dev/null", text, cmdline);
	if ((pp = popen(cmd, "r"))) {
		if (fgets(line, sizeof(line), pp)) {
			line[strcspn(line, "\n")] = '\0';
		}
		pclose(pp);
	}
	printf("  input '%s': binary '%s' library '%s'\n", text, line, got);
	return ex_replay_result(strcmp(line, got) != 0, "binding dadd cal=%s dur=%s line of rd %d", cal_name[b->cal], b->dur, rd);
}

/* dseq A 1mo B from the days 28..31 of a month over 40 years: the k-th line must be A + k months by the model */
static const int dseq_start[][3] = {
	{2000, 1, 28}, {2000, 1, 29}, {2000, 1, 30}, {2000, 1, 31}, {1896, 2, 29}, {1999, 12, 31}, {2000, 3, 31}, {2000, 8, 30},
};
#define NDSEQ	((int)(sizeof(dseq_start) / sizeof(*dseq_start)))

static int
do_dseq(int k, int replay)
{
	char cmd[1024], show[256], line[128], key[128], cas[64];
	const int *s = dseq_start[k];
	const struct rc_day *p = rc_get(rc_rd(s[0], s[1], s[2]));
	FILE *pp;
	int i = 0, bad = 0;
	EX_CTR(c_bind, "cli_binding_replays");
	EX_CTR(c_bindln, "cli_binding_lines");

	if (ex.tree == NULL) {
		return 0;
	}
	snprintf(show, sizeof(show), "dseq %04d-%02d-%02d 1mo %04d-%02d-%02d", s[0], s[1], s[2], s[0] + 40, s[1], s[2] > 28 ? 28 : s[2]);
	snprintf(cmd, sizeof(cmd), "'%s/src/dseq' %04d-%02d-%02d 1mo %04d-%02d-%02d 2>/dev/null", ex.tree, s[0], s[1], s[2], s[0] + 40, s[1], s[2] > 28 ? 28 : s[2]);
	snprintf(key, sizeof(key), "binding dseq 1mo start-day=%d", s[2]);
	snprintf(cas, sizeof(cas), "dseq %d", k);
	++*c_bind;
	if ((pp = popen(cmd, "r")) == NULL) {
		return 0;
	}
	while (fgets(line, sizeof(line), pp)) {
		struct tgt_s tg = model_target(C_YMD, p, i);
		line[strcspn(line, "\n")] = '\0';
		++*c_bindln;
		if (!tg.ok || !ymd_agrees(rc_get(tg.rd), line)) {
			const struct rc_day *t = tg.ok ? rc_get(tg.rd) : p;
			bad++;
			ex_viol(key, i, cas, show, "line %d is '%s'; %04d-%02d-%02d plus %d months is %04d-%02d-%02d", i + 1, line, s[0], s[1], s[2], i, t->y, t->m, t->d);
			if (replay) {
				printf("  line %d '%s' expected %04d-%02d-%02d\n", i + 1, line, t->y, t->m, t->d);
			}
		}
		i++;
	}
	pclose(pp);
	/* 40 years: months 0 .. 479 fit for sure, the 480th iff its (cropped) day is <= the end day */
	if (i < 480 || i > 481) {
		bad++;
		ex_viol(key, i, cas, show, "%d lines printed, the progression has 480 or 481 elements", i);
	}
	if (replay) {
		printf("  %s: %d lines, %d disagree\n", show, i, bad);
	}
	return bad;
}

int
main(int argc, char *argv[])
{
	EX_CTR(c_states, "states");
	EX_CTR(c_traces, "traces");

	ex_init(argc, argv);
	rc_selfcheck();
	c_eval = ex_ctr("evaluations");
	c_trans = ex_ctr("transitions");
	c_nontriv = ex_ctr("nontrivial");
	c_skip_range = ex_ctr("skipped:result outside 1601-01-01..4095-12-31");
	c_skip_mid = ex_ctr("skipped:composition whose intermediate date leaves 1601..4095");
	c_clamped = ex_ctr("single steps whose day/count/week is cropped by the model");
	c_comp = ex_ctr("compositions compared");
	c_comp_bits = ex_ctr("compositions whose two results are the same 16 bytes (text not compared)");
	c_epoch_noop = ex_ctr("month/quarter/year steps on an epoch value that leave it unchanged (accepted: no notion of months)");
	c_mixed = ex_ctr("mixed two-step sequences compared");
	c_mixed_memo = ex_ctr("mixed sequences whose result is a value already observed to agree for the same (calendar, target)");
	c_skip_mixwe = ex_ctr("skipped:mixed sequence in bizda whose intermediate or final day is a weekend day (no bizda name)");
	mk_tables();
	mk_pairs();
	mk_mixes();
	bz_init();

	if (ex.cas) {
		int c, u, n, rd, k, a, b;
		struct dt_dt_s v;
		if (!strncmp(ex.cas, "bind ", 5)) {
			return replay_binding(ex.cas + 5);
		}
		if (!strncmp(ex.cas, "zlines ", 7)) {
			int job = atoi(ex.cas + 7);
			if (job >= 0 && job < NZLJOBS) {
				zlines_job(job);
			}
			return ex_replay_result(ex.nviol != 0, "zlines job %d", job);
		}
		if (!strncmp(ex.cas, "zone ", 5)) {
			int job = atoi(ex.cas + 5);
			if (job >= 0 && job < NZONEJOBS) {
				zone_job(job);
			}
			return ex_replay_result(ex.nviol != 0, "zone job %d", job);
		}
		if (!strncmp(ex.cas, "spell ", 6)) {
			check_spellings(spellings, NSPELL);
			return ex_replay_result(ex.nviol != 0, "documented duration spellings");
		}
		{
			int fi, si, order;
			if (sscanf(ex.cas, "mix %d %d %d %d %d", &c, &fi, &si, &order, &rd) == 5 && c >= 0 && c < NCAL && fi >= 0 && fi < NFIRST &&
			    si >= 0 && si < NSECOND && (order == 0 || order == 1) && rd >= 0 && rd < RC_NDAYS) {
				struct dt_dt_s vt = {DT_UNK};
				char text[64];
				if (cal_value(c, rc_get(rd), &v) <= 0) {
					return ex_replay_result(1, "day not accepted in calendar %s", cal_name[c]);
				}
				cal_text(c, rc_get(rd), text, sizeof(text));
				strcat(text, "T23:00:00");
				vt = dt_strpdt(text, NULL, NULL);
				memo_reset(rd);
				return ex_replay_result(do_mixed(rc_get(rd), c, v, vt, fi, si, order, 1) != 0, "mixed cal=%s %s %s order=%d rd=%d",
							cal_name[c], mixes[fi][si].tf, mixes[fi][si].ts, order, rd);
			}
		}
		if (sscanf(ex.cas, "dseq %d", &k) == 1 && k >= 0 && k < NDSEQ) {
			return ex_replay_result(do_dseq(k, 1) != 0, "dseq binding %d", k);
		}
		if (sscanf(ex.cas, "comp %d %d %d %d %d", &c, &k, &a, &b, &rd) == 5 && c >= 0 && c < NCAL && k >= 0 && k < NKIND &&
		    a >= -CR && a <= CR && b >= -CR && b <= CR && rd >= 0 && rd < RC_NDAYS) {
			if (cal_value(c, rc_get(rd), &v) <= 0) {
				return ex_replay_result(1, "day not accepted in calendar %s", cal_name[c]);
			}
			return ex_replay_result(do_comp(rc_get(rd), c, v, k, a, b, 1) != 0, "compose cal=%s kind=%s %d %d rd=%d", cal_name[c], kind_name[k], a, b, rd);
		}
		if (sscanf(ex.cas, "%d %d %d %d", &c, &u, &n, &rd) == 4 && c >= 0 && c < NCAL && u >= 0 && u < NUNIT && rd >= 0 && rd < RC_NDAYS) {
			struct durs_s ds;
			char txt[32];
			if (cal_value(c, rc_get(rd), &v) <= 0) {
				return ex_replay_result(1, "day not accepted in calendar %s", cal_name[c]);
			}
			snprintf(txt, sizeof(txt), "%+d%s", n, unit_name[u]);
			if (mk_durs(&ds, txt) < 0) {
				return ex_replay_result(1, "duration '%s' not accepted", txt);
			}
			return ex_replay_result(do_case(rc_get(rd), c, v, u, n, &ds, 1) != 0, "cal=%s %s rd=%d", cal_name[c], txt, rd);
		}
		return ex_replay_result(1, "bad case string '%s'", ex.cas);
	}

	ex_meta("rule", "every state (day) of the reference successor machine x calendars {ymd, ymcw, bizda(Monday-Friday days)} x {months, quarters, years} and "
		"{ywd, yd} x years (these two have no months: not claimed), day text through the public parser, duration text through dt_io_strpdtdur, applied by "
		"dt_dtadd as dadd does; oracle from the statement: year*12+month moves by exactly n, the day of month / (weekday, count) / business-day index is kept "
		"and cropped to the last one of the target month; ywd: ISO year + n, weekday kept, week cropped to the target year's last week; yd: day of year cropped to 365|366; "
		"observed as default output (parsed back: a valid date equal to the model's), as %%F and as dt_dconv(DT_DAISY). composition: DATE +a +b (one parser state, "
		"applied one after the other, printed once) must print the same as DATE +(a+b), for months+months, years+years, months+years, years+months; equal 16-byte "
		"results are not printed (counted); results or intermediates outside 1601..4095 are outside the property (skipped, counted). "
		"further input spellings: ymcw-w0 = ymcw with Sunday written 00 (documented %%w), ywd-w0 = ISO week date read with -i %%G-W%%V-%%w (Sundays only); epoch = the day's "
		"midnight as @SECONDS (= -i %%s SECONDS): the property lists the calendars that have months/years and an epoch is not among them, so a month/quarter/year step on it "
		"may either follow the ymd rule (it prints as a ymd date-time) or leave it unchanged (counted), anything else is a violation. mixed sequences (dadd --help: durations "
		"are applied one after the other, not commutative): a month/year step and a day/week/business-day step in one invocation, both orders, are judged by 'crop, then step': "
		"each step starts from the valid date the previous one denotes; also a +9h step on a T23:00:00 value after a month/year step (what an output zone does); one class per "
		"(calendar, order, units, sign of the day step, cropped) with all three observations in the detail; in bizda sequences through a weekend day are skipped. the documented "
		"spellings nY nMO (upper/lower case, sign omitted) must parse like the canonical text. ZONE section (dadd binary, --from-zone Z -z Z, Z in Europe/Berlin Asia/Kolkata, every day of "
		"2012 at 00:30 12:00 23:30): date units step the civil date and keep the time of day, time units add elapsed seconds (offset rule written out in the explorer), whether the dates "
		"come as argument or on stdin (plain, -S, -E) and whether the durations come as arguments or on stdin. ZLINES: with --from-zone and the durations on stdin every line is added to the same "
		"reference date: all ordered pairs (quick) / triples (thorough) of lines over {1h 30m 1d 1w 1mo -1d 24h} at four reference dates next to a DST change (Europe/Berlin, America/New_York, with and "
		"without -z), each line's output must equal its output in a run of its own. ywd/yd + months: not claimed (C04 names the week-based calendars for years only). "
		"non-trivial = the model crops, or the year changes");
	ex_meta("bound", "%s tier: single steps: %s x ( +-[0,40] + {48,60,100,120,400,1200,4800} months; +-[0,8] + {40,100,400} quarters; +-[0,12] + {28,100,400} years ); "
		"composition: %s x all (a,b) in [-%d,%d]^2 x 4 kinds; mixed sequences: %s x first step +-{1,2,3,6,11,12,13}mo, +-{1,2,3,4}y x second step +-{1,2,7,28,31}d, "
		"+-{1,4,52}w, +-{1,2,5,21}b in both orders, and +9h after the month/year step on T23:00:00 values (ymd ymcw ywd bizda); binding runs: %d dadd + %d dseq",
		ex.thorough ? "thorough" : "quick", ex.thorough ? "all 911,280 days" : "the 146,097 days 1601..2000 and the last 16 years 4080..4095",
		ex.thorough ? "the 146,097 days 1601..2000" : "the days of the windows 1601-08 1897-1904 1997-2004 4088-95", CR, CR,
		ex.thorough ? "all 911,280 days" : "the days of the four windows and of 4080..4095",
		ex.thorough ? NBIND : NBIND_QUICK, NDSEQ);
	ex_meta("ord", "ordered coordinate of a failure class (lo/hi in findings) = day ordinal rd of the TARGET state (0 = 1601-01-01; day count - 1); binding classes: rd of the input line");
	ex_meta("binding", "dadd binary of the same build with all days on stdin per (calendar, duration arguments[, -f]) entry, byte-compared with the library-level observation; "
		"dseq START 1mo END over 40 years from days 28..31, every line compared with the model's START + k months");

	if (ex.worker == 0) {
		check_spellings(spellings, NSPELL);
	}
	for (int y = RC_MIN_YEAR; y <= RC_MAX_YEAR && !ex_expired_now(); y++) {
		int single = ex.thorough || y <= 2000 || y >= 4080;
		int comp = ex.thorough ? y <= 2000 : in_w8(y);
		int mixed = ex.thorough || in_w8(y) || y >= 4080;

		if (!ex_mine((uint64_t)(y - RC_MIN_YEAR)) || !(single || comp || mixed)) {
			continue;
		}
		memo_reset(rc_yearstart[y]);
		for (int rd = rc_yearstart[y]; rd < rc_yearstart[y + 1] && !ex_expired_now(); rd++) {
			const struct rc_day *p = rc_get(rd);
			++*c_states;
			for (int ci = 0; ci < NMCAL; ci++) {
				int c = mcal[ci];
				struct dt_dt_s v;
				int rcv = cal_value(c, p, &v);
				++*c_eval;
				if (rcv == 0) {
					continue;
				} else if (rcv < 0) {
					char key[64], text[48], cas[64];
					cal_text(c, p, text, sizeof(text));
					snprintf(key, sizeof(key), "parse cal=%s", cal_name[c]);
					snprintf(cas, sizeof(cas), "%d 0 0 %d", c, rd);
					ex_viol(key, rd, cas, NULL, "day %04d-%02d-%02d: text '%s' (%s) is not accepted by the parser (or yields another type)",
						p->y, p->m, p->d, text, cal_name[c]);
					continue;
				}
				if (single) {
					for (int u = 0; u < NUNIT; u++) {
						if (!cal_has_unit(c, u)) {
							continue;
						}
						for (int i = 0; i < nn[u]; i++) {
							do_case(p, c, v, u, ns[u][i], &nd[u][i], 0);
						}
						++*c_traces;
					}
				}
				if (mixed && c != C_EPOCH && c != C_YMCW0 && c != C_YWD0) {
					struct dt_dt_s vt = {DT_UNK};
					int have_t = 0;
					if (c == C_YMD || c == C_YMCW || c == C_YWD || c == C_BIZDA) {
						char text[64];
						cal_text(c, p, text, sizeof(text));
						strcat(text, "T23:00:00");
						vt = dt_strpdt(text, NULL, NULL);
						++*c_eval;
						have_t = !dt_unk_p(vt) && vt.d.typ == cal_typ[c];
						if (!have_t) {
							char key[64], cas[64];
							snprintf(key, sizeof(key), "parse cal=%s with T23:00:00", cal_name[c]);
							snprintf(cas, sizeof(cas), "%d 0 0 %d", c, rd);
							ex_viol(key, rd, cas, NULL, "'%s' is not accepted by the parser (or yields another type)", text);
						}
					}
					for (int fi = 0; fi < NFIRST; fi++) {
						for (int si = 0; si < NSECOND; si++) {
							if (!mixed_ok(c, fi, si)) {
								continue;
							}
							if (mixes[fi][si].sunit == S_H) {
								if (have_t) {
									do_mixed(p, c, v, vt, fi, si, 0, 0);
								}
								continue;
							}
							do_mixed(p, c, v, vt, fi, si, 0, 0);
							do_mixed(p, c, v, vt, fi, si, 1, 0);
						}
					}
					++*c_traces;
				}
				if (comp) {
					for (int k = 0; k < NKIND; k++) {
						if (!kind_ok(c, k)) {
							continue;
						}
						/* simplest first */
						for (int ja = 0; ja <= 2 * CR; ja++) {
							int a = (ja + 1) / 2 * ((ja & 1) ? 1 : -1);
							for (int jb = 0; jb <= 2 * CR; jb++) {
								int b = (jb + 1) / 2 * ((jb & 1) ? 1 : -1);
								do_comp(p, c, v, k, a, b, 0);
							}
						}
						++*c_traces;
					}
				}
			}
			if (ex_want_sample()) {
				ex_sample("state %04d-%02d-%02d (ISO %04d-W%02d-%d, yday %d, %d%s %s of the month, bd %d%s): %s%s",
					  p->y, p->m, p->d, p->isoy, p->isow, p->wd, p->yday, p->mcnt, vf_ordsuf(p->mcnt), rc_abbr_wday[p->wd], p->bd,
					  p->isbd ? "" : " weekend", single ? "all single month/quarter/year steps in 5 calendars + spellings" : "",
					  comp ? "; all compositions (a,b) in [-14,14]^2 x 4 kinds" : "");
			}
		}
	}
	for (int job = 0; job < NZONEJOBS && !ex_expired_now(); job++) {
		if (ex_mine((uint64_t)job)) {
			zone_job(job);
		}
	}
	for (int job = 0; job < NZLJOBS && !ex_expired_now(); job++) {
		if (ex_mine((uint64_t)job)) {
			zlines_job(job);
		}
	}
	{
		int nb = ex.thorough ? NBIND : NBIND_QUICK;
		for (int k = 0; k < nb + NDSEQ && !ex_expired_now(); k++) {
			if (ex_mine((uint64_t)k)) {
				if (k < nb) {
					do_binding(k);
				} else {
					do_dseq(k - nb, 0);
				}
			}
		}
	}
	return ex_finish();
}
