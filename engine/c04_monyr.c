/* c04_monyr.c -- C04: month / quarter / year arithmetic keeps the day and clamps
 * to the end of the month (week-based calendars: to the last existing week).
 *
 * Form A: states = days of the reference successor machine.  In every state
 * the day is written in each calendar that has months or years (ymd, ymcw,
 * bizda: months, quarters, years; ywd, yd: years), parsed by the public parser
 * as dadd does; the duration text ("+5mo", "-2q", "+1y") goes through the
 * tools' dt_io_strpdtdur() and dt_dtadd().  Oracle from the statement:
 *   ymd    year*12+month moves by exactly n, day = min(day, length of target month)
 *   ymcw   same month arithmetic, weekday kept, count = min(count, number of that weekday in the target month)
 *   bizda  same month arithmetic, index = min(index, Monday-Friday days of the target month)
 *   ywd +y ISO year + n, weekday kept, week = min(week, 52|53 of the target year)
 *   yd  +y year + n, day of year = min(yday, 365|366)
 * observed as default output (the printed text parsed back must be that valid
 * date), as %F and as dt_dconv(DT_DAISY) of the model's target state.
 * Composition: two durations of one invocation (dadd DATE +a +b, applied one
 * after the other by dt_dtadd, printed once) must equal the single duration
 * a+b: months+months, years+years, months+years.
 * Binding: dadd binary over all days per calendar; dseq A 1mo B. */
#include "impl.h"
#include "explore.h"
#include "refcal.h"
#include "c03_common.h"

enum { U_MO, U_Q, U_Y, NUNIT };
static const char *const unit_name[NUNIT] = {"mo", "q", "y"};
static const int unit_months[NUNIT] = {1, 3, 12};
enum { O_DAISY, O_DFLT, O_F, NOBS };
static const char *const obs_name[NOBS] = {"daisy", "dflt", "%F"};

static const int mcal[] = {C_YMD, C_YMCW, C_BIZDA, C_YWD, C_YD};
#define NMCAL	((int)(sizeof(mcal) / sizeof(*mcal)))

static int
cal_has_unit(int c, int u)
{
	/* ywd and yd have no notion of months */
	return u == U_Y || c == C_YMD || c == C_YMCW || c == C_BIZDA;
}

/* counts per unit, simplest first */
#define MAXN	256
static int ns[NUNIT][MAXN], nn[NUNIT];
static struct durs_s nd[NUNIT][MAXN];

static void
add_n(int u, int n)
{
	for (int i = 0; i < nn[u]; i++) {
		if (ns[u][i] == n) {
			return;
		}
	}
	if (nn[u] >= MAXN) {
		fprintf(stderr, "BROKEN-CHECK: c04 table of counts too small\n");
		exit(3);
	}
	ns[u][nn[u]++] = n;
}

static void
mk_tables(void)
{
	static const int xmo[] = {48, 60, 100, 120, 400, 1200, 4800};
	static const int xq[] = {40, 100, 400};
	static const int xy[] = {28, 100, 400};

	add_n(U_MO, 0);
	add_n(U_Q, 0);
	add_n(U_Y, 0);
	for (int n = 1; n <= 40; n++) {
		add_n(U_MO, n);
		add_n(U_MO, -n);
	}
	for (int n = 1; n <= 8; n++) {
		add_n(U_Q, n);
		add_n(U_Q, -n);
	}
	for (int n = 1; n <= 12; n++) {
		add_n(U_Y, n);
		add_n(U_Y, -n);
	}
	for (size_t i = 0; i < sizeof(xmo) / sizeof(*xmo); i++) {
		add_n(U_MO, xmo[i]);
		add_n(U_MO, -xmo[i]);
	}
	for (size_t i = 0; i < sizeof(xq) / sizeof(*xq); i++) {
		add_n(U_Q, xq[i]);
		add_n(U_Q, -xq[i]);
	}
	for (size_t i = 0; i < sizeof(xy) / sizeof(*xy); i++) {
		add_n(U_Y, xy[i]);
		add_n(U_Y, -xy[i]);
	}
	for (int u = 0; u < NUNIT; u++) {
		for (int i = 0; i < nn[u]; i++) {
			char txt[32];
			snprintf(txt, sizeof(txt), "%+d%s", ns[u][i], unit_name[u]);
			if (mk_durs(&nd[u][i], txt) < 0 || nd[u][i].n != 1) {
				fprintf(stderr, "BROKEN-CHECK: duration text '%s' not accepted by dt_io_strpdtdur\n", txt);
				exit(3);
			}
		}
	}
}

/* ---- the model ---- */
struct tgt_s {
	int ok;		/* 0: outside the range */
	int rd;
	int clamp;	/* the day / count / week had to be cropped */
};

/* rd of the Monday of week 1 of ISO year Y, by looking at the table */
static int
iso_w1_monday(int y)
{
	int rd = rc_rd(y, 1, 1) - 3;
	if (rd < 0) {
		rd = 0;
	}
	for (; rd < RC_NDAYS && rd <= rc_rd(y, 1, 1) + 7; rd++) {
		if (rc_tab[rd].isoy == y && rc_tab[rd].isow == 1 && rc_tab[rd].wd == 1) {
			return rd;
		}
	}
	return -1;
}

static struct tgt_s
model_target(int c, const struct rc_day *p, int months)
{
	struct tgt_s t = {0, 0, 0};

	if (c == C_YMD || c == C_YMCW || c == C_BIZDA) {
		long ym = (long)p->y * 12 + (p->m - 1) + months;
		int y = (int)(ym / 12), m = (int)(ym % 12) + 1;
		int first, len;

		if (ym < 0 || y < RC_MIN_YEAR || y > RC_MAX_YEAR) {
			return t;
		}
		first = rc_rd(y, m, 1);
		len = rc_mlen(y, m);
		if (c == C_YMD) {
			int d = p->d <= len ? p->d : len;
			t.clamp = d != p->d;
			t.rd = first + d - 1;
		} else if (c == C_YMCW) {
			/* occurrences of weekday wd in the target month, by walking it */
			int cnt = 0, last = -1, hit = -1;
			for (int k = first; k < first + len; k++) {
				if (rc_tab[k].wd == p->wd) {
					cnt++;
					last = k;
					if (cnt == p->mcnt) {
						hit = k;
					}
				}
			}
			t.clamp = hit < 0;
			t.rd = hit >= 0 ? hit : last;
		} else {
			int last = -1, hit = -1;
			for (int k = first; k < first + len; k++) {
				if (rc_tab[k].isbd) {
					last = k;
					if (rc_tab[k].bd == p->bd) {
						hit = k;
					}
				}
			}
			t.clamp = hit < 0;
			t.rd = hit >= 0 ? hit : last;
		}
		t.ok = 1;
	} else if (c == C_YWD) {
		int y = p->isoy + months / 12;
		int w1, weeks, w;
		if (y < RC_MIN_YEAR || y > RC_MAX_YEAR || (w1 = iso_w1_monday(y)) < 0) {
			return t;
		}
		weeks = rc_isoweeks(y);
		w = p->isow <= weeks ? p->isow : weeks;
		t.clamp = w != p->isow;
		t.rd = w1 + 7 * (w - 1) + (p->wd - 1);
		t.ok = t.rd >= 0 && t.rd < RC_NDAYS && rc_tab[t.rd].isoy == y && rc_tab[t.rd].isow == w;
	} else if (c == C_YD) {
		int y = p->y + months / 12;
		int len, yd;
		if (y < RC_MIN_YEAR || y > RC_MAX_YEAR) {
			return t;
		}
		len = 365 + rc_leapp(y);
		yd = p->yday <= len ? p->yday : len;
		t.clamp = yd != p->yday;
		t.rd = rc_yearstart[y] + yd - 1;
		t.ok = 1;
	}
	return t;
}

static uint64_t *c_eval, *c_trans, *c_nontriv, *c_skip_range, *c_clamped, *c_comp, *c_comp_bits, *c_skip_mid;

/* observe value R against target state T; fills ok[]/got[] */
static void
observe(int c, struct dt_dt_s r, const struct rc_day *t, int ok[NOBS], char got[NOBS][64])
{
	unsigned int daisy = dt_dconv(DT_DAISY, r.d).daisy;

	snprintf(got[O_DAISY], 64, "%u", daisy);
	ok[O_DAISY] = !dt_unk_p(r) && daisy == (unsigned int)t->rd + 1U;
	memset(got[O_DFLT], 0, 64);
	dt_strfdt(got[O_DFLT], 64, NULL, r);
	ok[O_DFLT] = dflt_agrees(c, t, got[O_DFLT]);
	memset(got[O_F], 0, 64);
	dt_strfdt(got[O_F], 64, "%F", r);
	ok[O_F] = ymd_agrees(t, got[O_F]);
	*c_eval += 3;
	ex_outcome(ex_hash_mix(ex_hash(got[O_DFLT], strlen(got[O_DFLT])), ex_hash(got[O_F], strlen(got[O_F])) + daisy));
}

static int
do_case(const struct rc_day *p, int c, struct dt_dt_s v, int u, int n, const struct durs_s *ds, int replay)
{
	struct tgt_s tg = model_target(c, p, n * unit_months[u]);
	const struct rc_day *t;
	struct dt_dt_s r;
	char got[NOBS][64];
	int ok[NOBS];
	int bad = 0;
	char sign = n > 0 ? '+' : n < 0 ? '-' : '0';

	if (!tg.ok) {
		++*c_skip_range;
		if (replay) {
			printf("  result outside 1601..4095: outside the property\n");
		}
		return 0;
	}
	t = rc_get(tg.rd);
	r = apply_durs(v, ds);
	++*c_eval;
	++*c_trans;
	if (tg.clamp) {
		++*c_clamped;
	}
	if (tg.clamp || t->y != p->y) {
		++*c_nontriv;
	}
	observe(c, r, t, ok, got);
	for (int o = 0; o < NOBS; o++) {
		char key[128];
		if (ok[o] && !replay) {
			continue;
		}
		if (!ok[o]) {
			bad++;
		}
		snprintf(key, sizeof(key), "add cal=%s unit=%s sign=%c clamp=%d obs=%s", cal_name[c], unit_name[u], sign, tg.clamp, obs_name[o]);
		if (!ok[o] && !ex_viol_known(key, (double)tg.rd)) {
			char text[48], cas[64], cmd[256], dtxt[32], exp[64];
			cal_text(c, p, text, sizeof(text));
			snprintf(dtxt, sizeof(dtxt), "%+d%s", n, unit_name[u]);
			snprintf(cas, sizeof(cas), "%d %d %d %d", c, u, n, p->rd);
			const char *cmdp = dadd_cmd(cmd, sizeof(cmd), c, text, dtxt, o == O_F ? "%F" : NULL);
			if (o == O_DAISY) {
				snprintf(exp, sizeof(exp), "%d", tg.rd + 1);
			} else if (o == O_DFLT) {
				exp_dflt(c, t, exp, sizeof(exp));
			} else {
				snprintf(exp, sizeof(exp), "%04d-%02d-%02d", t->y, t->m, t->d);
			}
			ex_viol(key, (double)tg.rd, cas, o == O_DAISY ? NULL : cmdp,
				"%04d-%02d-%02d given as '%s' (%s) %s: %s observation is '%s'; keeping the %s and cropping to the end%s gives %04d-%02d-%02d = '%s'",
				p->y, p->m, p->d, text, cal_name[c], dtxt, obs_name[o], got[o],
				c == C_YMD ? "day of the month" : c == C_YMCW ? "weekday and count" : c == C_BIZDA ? "business-day index" :
				c == C_YWD ? "week and weekday" : "day of the year", tg.clamp ? " (cropped here)" : "",
				t->y, t->m, t->d, exp);
		}
		if (replay) {
			printf("  %04d-%02d-%02d (%s) %+d%s -> model %04d-%02d-%02d%s; %s observation '%s' %s\n",
			       p->y, p->m, p->d, cal_name[c], n, unit_name[u], t->y, t->m, t->d, tg.clamp ? " (cropped)" : "",
			       obs_name[o], got[o], ok[o] ? "(agrees)" : "DISAGREES");
		}
	}
	return bad;
}

/* ---- composition ---- */
enum { K_MOMO, K_YY, K_MOY, K_YMO, NKIND };
static const char *const kind_name[NKIND] = {"mo+mo", "y+y", "mo+y", "y+mo"};
#define CR	14
struct pair_s {
	struct durs_s chain;	/* both durations, parsed with ONE parser state as dadd does for its arguments */
	struct durs_s single;	/* the single duration that equals their sum */
	int months_a, months_b;
	char ta[16], tb[16], ts[16];
};
static struct pair_s pairs[NKIND][2 * CR + 1][2 * CR + 1];

static void
mk_pairs(void)
{
	for (int k = 0; k < NKIND; k++) {
		const char *ua = (k == K_MOMO || k == K_MOY) ? "mo" : "y";
		const char *ub = (k == K_MOMO || k == K_YMO) ? "mo" : "y";
		for (int a = -CR; a <= CR; a++) {
			for (int b = -CR; b <= CR; b++) {
				struct pair_s *q = &pairs[k][a + CR][b + CR];
				struct __strpdtdur_st_s st = {0};
				const char *args[2];
				int sum;

				snprintf(q->ta, sizeof(q->ta), "%+d%s", a, ua);
				snprintf(q->tb, sizeof(q->tb), "%+d%s", b, ub);
				q->months_a = a * (ua[0] == 'y' ? 12 : 1);
				q->months_b = b * (ub[0] == 'y' ? 12 : 1);
				sum = q->months_a + q->months_b;
				if (k == K_YY) {
					snprintf(q->ts, sizeof(q->ts), "%+dy", a + b);
				} else {
					snprintf(q->ts, sizeof(q->ts), "%+dmo", sum);
				}
				args[0] = q->ta;
				args[1] = q->tb;
				/* dadd.c main(): one state for all duration arguments */
				for (int i = 0; i < 2; i++) {
					do {
						if (dt_io_strpdtdur(&st, args[i]) < 0) {
							fprintf(stderr, "BROKEN-CHECK: duration text '%s' not accepted\n", args[i]);
							exit(3);
						}
					} while (__strpdtdur_more_p(&st));
				}
				if (st.ndurs != 2) {
					fprintf(stderr, "BROKEN-CHECK: '%s %s' parsed into %zu durations\n", q->ta, q->tb, st.ndurs);
					exit(3);
				}
				q->chain.n = 2;
				q->chain.d[0] = st.durs[0];
				q->chain.d[1] = st.durs[1];
				__strpdtdur_free(&st);
				if (mk_durs(&q->single, q->ts) < 0 || q->single.n != 1) {
					fprintf(stderr, "BROKEN-CHECK: duration text '%s' not accepted\n", q->ts);
					exit(3);
				}
			}
		}
	}
}

static int
kind_ok(int c, int k)
{
	return k == K_YY || c == C_YMD || c == C_YMCW || c == C_BIZDA;
}

static int
do_comp(const struct rc_day *p, int c, struct dt_dt_s v, int k, int a, int b, int replay)
{
	const struct pair_s *q = &pairs[k][a + CR][b + CR];
	struct tgt_s mid = model_target(c, p, q->months_a);
	struct tgt_s end = model_target(c, p, q->months_a + q->months_b);
	struct dt_dt_s r2, r1;
	char g2[2][64], g1[2][64];
	int bad = 0;

	if (!end.ok) {
		++*c_skip_range;
		return 0;
	}
	if (!mid.ok) {
		/* the intermediate date leaves 1601..4095: outside the property */
		++*c_skip_mid;
		return 0;
	}
	r2 = apply_durs(v, &q->chain);
	r1 = apply_durs(v, &q->single);
	*c_eval += 2;
	++*c_trans;
	++*c_comp;
	if (mid.clamp || end.clamp) {
		++*c_nontriv;
	}
	if (!replay && !memcmp(&r1, &r2, sizeof(r1))) {
		/* same value: same text whatever the format */
		++*c_comp_bits;
		return 0;
	}
	memset(g1, 0, sizeof(g1));
	memset(g2, 0, sizeof(g2));
	dt_strfdt(g2[0], 64, NULL, r2);
	dt_strfdt(g1[0], 64, NULL, r1);
	dt_strfdt(g2[1], 64, "%F", r2);
	dt_strfdt(g1[1], 64, "%F", r1);
	*c_eval += 4;
	ex_outcome(ex_hash(g2, sizeof(g2)));
	for (int o = 0; o < 2; o++) {
		int ok = !strcmp(g1[o], g2[o]);
		if (!ok) {
			char key[128];
			bad++;
			snprintf(key, sizeof(key), "compose cal=%s kind=%s signs=%c%c obs=%s", cal_name[c], kind_name[k],
				 a > 0 ? '+' : a < 0 ? '-' : '0', b > 0 ? '+' : b < 0 ? '-' : '0', o ? "%F" : "dflt");
			if (!ex_viol_known(key, p->rd)) {
				char text[48], cas[64], cmd[256];
				cal_text(c, p, text, sizeof(text));
				snprintf(cas, sizeof(cas), "comp %d %d %d %d %d", c, k, a, b, p->rd);
				snprintf(cmd, sizeof(cmd), "dadd%s %s %s %s    # vs: dadd%s %s %s", o ? " -f %F" : "", text, q->ta, q->tb,
					 o ? " -f %F" : "", text, q->ts);
				ex_viol(key, p->rd, cas, cmd, "%04d-%02d-%02d given as '%s' (%s): '%s' then '%s' prints '%s' but '%s' prints '%s'",
					p->y, p->m, p->d, text, cal_name[c], q->ta, q->tb, g2[o], q->ts, g1[o]);
			}
		}
		if (replay) {
			printf("  %04d-%02d-%02d (%s): %s %s -> '%s'; %s -> '%s' %s\n", p->y, p->m, p->d, cal_name[c], q->ta, q->tb,
			       g2[o], q->ts, g1[o], ok ? "(agrees)" : "DISAGREES");
		}
	}
	return bad;
}

/* ---- binding ---- */
struct bind_s {
	int cal;
	const char *dur;	/* one or two duration arguments */
	const char *ofmt;
};
static const struct bind_s binds[] = {
	{C_YMD, "+1mo", NULL}, {C_YMD, "-1mo", NULL}, {C_YMD, "+1y", NULL}, {C_YMD, "-13mo", NULL},
	{C_YMCW, "+1mo", NULL}, {C_YMCW, "-1y", NULL}, {C_BIZDA, "+1mo", NULL}, {C_BIZDA, "-1mo", NULL},
	{C_YWD, "+1y", NULL}, {C_YWD, "-1y", NULL}, {C_YD, "+1y", NULL}, {C_YD, "-4y", NULL},
	{C_YMD, "+1mo +1mo", NULL}, {C_YMD, "+1q", NULL},
	/* thorough only from here */
	{C_YMD, "+11mo", NULL}, {C_YMD, "-25mo", NULL}, {C_YMD, "-1y", NULL}, {C_YMD, "+4y", NULL}, {C_YMD, "-100y", NULL},
	{C_YMD, "-3q", NULL}, {C_YMD, "+1mo", "%F %a %j"}, {C_YMD, "+13mo -1y", NULL}, {C_YMD, "-1mo -1mo -1mo", NULL},
	{C_YMCW, "-1mo", NULL}, {C_YMCW, "+11mo", NULL}, {C_YMCW, "+1y", NULL}, {C_YMCW, "+1q", "%F"}, {C_YMCW, "+1mo +1mo", NULL},
	{C_BIZDA, "+1y", NULL}, {C_BIZDA, "-11mo", NULL}, {C_BIZDA, "+1q", "%F"}, {C_BIZDA, "+1mo +1mo", NULL},
	{C_YWD, "+5y", NULL}, {C_YWD, "-6y", "%F"}, {C_YWD, "+1y +1y", NULL}, {C_YD, "-1y", NULL}, {C_YD, "+3y", "%F"}, {C_YD, "+1y +1y", NULL},
};
#define NBIND_QUICK	14
#define NBIND		((int)(sizeof(binds) / sizeof(*binds)))

static void
bind_durs(struct durs_s *out, const char *durargs)
{
	/* split at blanks, one parser state for all arguments (dadd.c main) */
	struct __strpdtdur_st_s st = {0};
	char tmp[128];
	char *sv = NULL;

	snprintf(tmp, sizeof(tmp), "%s", durargs);
	for (char *a = strtok_r(tmp, " ", &sv); a; a = strtok_r(NULL, " ", &sv)) {
		do {
			if (dt_io_strpdtdur(&st, a) < 0) {
				fprintf(stderr, "BROKEN-CHECK: duration text '%s' not accepted\n", a);
				exit(3);
			}
		} while (__strpdtdur_more_p(&st));
	}
	out->n = (int)st.ndurs;
	for (int i = 0; i < out->n && i < MAXDURS; i++) {
		out->d[i] = st.durs[i];
	}
	__strpdtdur_free(&st);
}

static void
bind_lib(const struct bind_s *b, const struct durs_s *ds, const struct rc_day *p, char *text, size_t tsz, char *got, size_t gsz)
{
	struct dt_dt_s v;

	memset(got, 0, gsz);
	if (!cal_text(b->cal, p, text, tsz)) {
		return;
	}
	v = dt_strpdt(text, cal_ifmt[b->cal], NULL);
	if (dt_unk_p(v)) {
		return;
	}
	v = apply_durs(v, ds);
	if (!dt_unk_p(v)) {
		dt_strfdt(got, gsz, b->ofmt, v);
	}
}

static void
bind_cmdline(char *cmd, size_t csz, const struct bind_s *b, const char *tree)
{
	char pre[600] = "dadd";
	if (tree) {
		snprintf(pre, sizeof(pre), "'%s/src/dadd'", tree);
	}
	snprintf(cmd, csz, "%s%s%s%s %s", pre, b->ofmt ? " -f '" : "", b->ofmt ? b->ofmt : "", b->ofmt ? "'" : "", b->dur);
}

static void
do_binding(int k)
{
	char fin[512], fout[512], cmd[2048], cmdline[1024], line[256], got[256], text[64], key[256], cas[64];
	const char *rundir = getenv("VERIF_RUNDIR");
	const struct bind_s *b = binds + k;
	struct durs_s ds;
	FILE *f;
	int rd, nlines = 0, nin = 0, rc;
	EX_CTR(c_bind, "cli_binding_replays");
	EX_CTR(c_bindln, "cli_binding_lines");

	if (rundir == NULL || ex.tree == NULL) {
		return;
	}
	bind_durs(&ds, b->dur);
	snprintf(fin, sizeof(fin), "%s/c04bind.%d.in", rundir, k);
	snprintf(fout, sizeof(fout), "%s/c04bind.%d.out", rundir, k);
	if ((f = fopen(fin, "w")) == NULL) {
		return;
	}
	for (rd = 0; rd < RC_NDAYS; rd++) {
		if (cal_text(b->cal, rc_get(rd), text, sizeof(text))) {
			fprintf(f, "%s\n", text);
			nin++;
		}
	}
	fclose(f);
	bind_cmdline(cmdline, sizeof(cmdline), b, ex.tree);
	snprintf(cmd, sizeof(cmd), "%s < '%s' > '%s' 2>/dev/null", cmdline, fin, fout);
	rc = system(cmd);
	(void)rc;
	++*c_bind;
	bind_cmdline(cmdline, sizeof(cmdline), b, NULL);
	snprintf(key, sizeof(key), "binding dadd cal=%s dur=%s fmt=%s", cal_name[b->cal], b->dur, b->ofmt ? b->ofmt : "dflt");
	if ((f = fopen(fout, "r")) == NULL) {
		ex_viol(key, 0, "", cmdline, "no output from the binary");
		return;
	}
	for (rd = 0; rd < RC_NDAYS; rd++) {
		const struct rc_day *p = rc_get(rd);
		size_t l;
		if (!cal_text(b->cal, p, text, sizeof(text))) {
			continue;
		}
		if (!fgets(line, sizeof(line), f)) {
			break;
		}
		l = strlen(line);
		if (l && line[l - 1] == '\n') {
			line[l - 1] = '\0';
		}
		nlines++;
		bind_lib(b, &ds, p, text, sizeof(text), got, sizeof(got));
		++*c_bindln;
		if (strcmp(got, line)) {
			char one[1200];
			snprintf(cas, sizeof(cas), "bind %d %d", k, rd);
			snprintf(one, sizeof(one), "echo %s | %s", text, cmdline);
			ex_viol(key, rd, cas, one, "input line %d ('%s'): binary printed '%s', library-level exploration observed '%s'",
				nlines, text, line, got);
		}
	}
	fclose(f);
	if (nlines != nin) {
		ex_viol(key, nlines, "", cmdline, "binary printed %d lines for %d input lines", nlines, nin);
	}
	unlink(fin);
	unlink(fout);
}

static int
replay_binding(const char *cas)
{
	int k, rd;
	char text[64], cmdline[1024], cmd[1400], got[256] = "", line[256] = "";
	const struct bind_s *b;
	struct durs_s ds;
	FILE *pp;

	if (sscanf(cas, "%d %d", &k, &rd) != 2 || k < 0 || k >= NBIND || rd < 0 || rd >= RC_NDAYS) {
		return ex_replay_result(1, "bad case");
	}
	b = binds + k;
	bind_durs(&ds, b->dur);
	bind_lib(b, &ds, rc_get(rd), text, sizeof(text), got, sizeof(got));
	bind_cmdline(cmdline, sizeof(cmdline), b, ex.tree);
	snprintf(cmd, sizeof(cmd), "echo '%s' | %s 2>/dev/null", text, cmdline);
	if ((pp = popen(cmd, "r"))) {
		if (fgets(line, sizeof(line), pp)) {
			line[strcspn(line, "\n")] = '\0';
		}
		pclose(pp);
	}
	printf("  input '%s': binary '%s' library '%s'\n", text, line, got);
	return ex_replay_result(strcmp(line, got) != 0, "binding dadd cal=%s dur=%s line of rd %d", cal_name[b->cal], b->dur, rd);
}

/* dseq A 1mo B from the days 28..31 of a month over 40 years: the k-th line must be A + k months by the model */
static const int dseq_start[][3] = {
	{2000, 1, 28}, {2000, 1, 29}, {2000, 1, 30}, {2000, 1, 31}, {1896, 2, 29}, {1999, 12, 31}, {2000, 3, 31}, {2000, 8, 30},
};
#define NDSEQ	((int)(sizeof(dseq_start) / sizeof(*dseq_start)))

static int
do_dseq(int k, int replay)
{
	char cmd[1024], show[256], line[128], key[128], cas[64];
	const int *s = dseq_start[k];
	const struct rc_day *p = rc_get(rc_rd(s[0], s[1], s[2]));
	FILE *pp;
	int i = 0, bad = 0;
	EX_CTR(c_bind, "cli_binding_replays");
	EX_CTR(c_bindln, "cli_binding_lines");

	if (ex.tree == NULL) {
		return 0;
	}
	snprintf(show, sizeof(show), "dseq %04d-%02d-%02d 1mo %04d-%02d-%02d", s[0], s[1], s[2], s[0] + 40, s[1], s[2] > 28 ? 28 : s[2]);
	snprintf(cmd, sizeof(cmd), "'%s/src/dseq' %04d-%02d-%02d 1mo %04d-%02d-%02d 2>/dev/null", ex.tree, s[0], s[1], s[2], s[0] + 40, s[1], s[2] > 28 ? 28 : s[2]);
	snprintf(key, sizeof(key), "binding dseq 1mo start-day=%d", s[2]);
	snprintf(cas, sizeof(cas), "dseq %d", k);
	++*c_bind;
	if ((pp = popen(cmd, "r")) == NULL) {
		return 0;
	}
	while (fgets(line, sizeof(line), pp)) {
		struct tgt_s tg = model_target(C_YMD, p, i);
		line[strcspn(line, "\n")] = '\0';
		++*c_bindln;
		if (!tg.ok || !ymd_agrees(rc_get(tg.rd), line)) {
			const struct rc_day *t = tg.ok ? rc_get(tg.rd) : p;
			bad++;
			ex_viol(key, i, cas, show, "line %d is '%s'; %04d-%02d-%02d plus %d months is %04d-%02d-%02d", i + 1, line, s[0], s[1], s[2], i, t->y, t->m, t->d);
			if (replay) {
				printf("  line %d '%s' expected %04d-%02d-%02d\n", i + 1, line, t->y, t->m, t->d);
			}
		}
		i++;
	}
	pclose(pp);
	/* 40 years: months 0 .. 479 fit for sure, the 480th iff its (cropped) day is <= the end day */
	if (i < 480 || i > 481) {
		bad++;
		ex_viol(key, i, cas, show, "%d lines printed, the progression has 480 or 481 elements", i);
	}
	if (replay) {
		printf("  %s: %d lines, %d disagree\n", show, i, bad);
	}
	return bad;
}

int
main(int argc, char *argv[])
{
	EX_CTR(c_states, "states");
	EX_CTR(c_traces, "traces");

	ex_init(argc, argv);
	rc_selfcheck();
	c_eval = ex_ctr("evaluations");
	c_trans = ex_ctr("transitions");
	c_nontriv = ex_ctr("nontrivial");
	c_skip_range = ex_ctr("skipped:result outside 1601-01-01..4095-12-31");
	c_skip_mid = ex_ctr("skipped:composition whose intermediate date leaves 1601..4095");
	c_clamped = ex_ctr("single steps whose day/count/week is cropped by the model");
	c_comp = ex_ctr("compositions compared");
	c_comp_bits = ex_ctr("compositions whose two results are the same 16 bytes (text not compared)");
	mk_tables();
	mk_pairs();

	if (ex.cas) {
		int c, u, n, rd, k, a, b;
		struct dt_dt_s v;
		if (!strncmp(ex.cas, "bind ", 5)) {
			return replay_binding(ex.cas + 5);
		}
		if (sscanf(ex.cas, "dseq %d", &k) == 1 && k >= 0 && k < NDSEQ) {
			return ex_replay_result(do_dseq(k, 1) != 0, "dseq binding %d", k);
		}
		if (sscanf(ex.cas, "comp %d %d %d %d %d", &c, &k, &a, &b, &rd) == 5 && c >= 0 && c < NCAL && k >= 0 && k < NKIND &&
		    a >= -CR && a <= CR && b >= -CR && b <= CR && rd >= 0 && rd < RC_NDAYS) {
			if (cal_value(c, rc_get(rd), &v) <= 0) {
				return ex_replay_result(1, "day not accepted in calendar %s", cal_name[c]);
			}
			return ex_replay_result(do_comp(rc_get(rd), c, v, k, a, b, 1) != 0, "compose cal=%s kind=%s %d %d rd=%d", cal_name[c], kind_name[k], a, b, rd);
		}
		if (sscanf(ex.cas, "%d %d %d %d", &c, &u, &n, &rd) == 4 && c >= 0 && c < NCAL && u >= 0 && u < NUNIT && rd >= 0 && rd < RC_NDAYS) {
			struct durs_s ds;
			char txt[32];
			if (cal_value(c, rc_get(rd), &v) <= 0) {
				return ex_replay_result(1, "day not accepted in calendar %s", cal_name[c]);
			}
			snprintf(txt, sizeof(txt), "%+d%s", n, unit_name[u]);
			if (mk_durs(&ds, txt) < 0) {
				return ex_replay_result(1, "duration '%s' not accepted", txt);
			}
			return ex_replay_result(do_case(rc_get(rd), c, v, u, n, &ds, 1) != 0, "cal=%s %s rd=%d", cal_name[c], txt, rd);
		}
		return ex_replay_result(1, "bad case string '%s'", ex.cas);
	}

	ex_meta("rule", "every state (day) of the reference successor machine x calendars {ymd, ymcw, bizda(Monday-Friday days)} x {months, quarters, years} and "
		"{ywd, yd} x years (these two have no months: not claimed), day text through the public parser, duration text through dt_io_strpdtdur, applied by "
		"dt_dtadd as dadd does; oracle from the statement: year*12+month moves by exactly n, the day of month / (weekday, count) / business-day index is kept "
		"and cropped to the last one of the target month; ywd: ISO year + n, weekday kept, week cropped to the target year's last week; yd: day of year cropped to 365|366; "
		"observed as default output (parsed back: a valid date equal to the model's), as %%F and as dt_dconv(DT_DAISY). composition: DATE +a +b (one parser state, "
		"applied one after the other, printed once) must print the same as DATE +(a+b), for months+months, years+years, months+years, years+months; equal 16-byte "
		"results are not printed (counted); results or intermediates outside 1601..4095 are outside the property (skipped, counted). "
		"non-trivial = the model crops, or the year changes");
	ex_meta("bound", "%s tier: single steps: %s x ( +-[0,40] + {48,60,100,120,400,1200,4800} months; +-[0,8] + {40,100,400} quarters; +-[0,12] + {28,100,400} years ); "
		"composition: %s x all (a,b) in [-%d,%d]^2 x 4 kinds; binding runs: %d dadd + %d dseq",
		ex.thorough ? "thorough" : "quick", ex.thorough ? "all 911,280 days" : "the 146,097 days 1601..2000 and the last 16 years 4080..4095",
		ex.thorough ? "the 146,097 days 1601..2000" : "the days of the windows 1601-08 1897-1904 1997-2004 4088-95", CR, CR,
		ex.thorough ? NBIND : NBIND_QUICK, NDSEQ);
	ex_meta("ord", "ordered coordinate of a failure class (lo/hi in findings) = day ordinal rd of the TARGET state (0 = 1601-01-01; day count - 1); binding classes: rd of the input line");
	ex_meta("binding", "dadd binary of the same build with all days on stdin per (calendar, duration arguments[, -f]) entry, byte-compared with the library-level observation; "
		"dseq START 1mo END over 40 years from days 28..31, every line compared with the model's START + k months");

	for (int y = RC_MIN_YEAR; y <= RC_MAX_YEAR && !ex_expired_now(); y++) {
		int single = ex.thorough || y <= 2000 || y >= 4080;
		int comp = ex.thorough ? y <= 2000 : in_w8(y);

		if (!ex_mine((uint64_t)(y - RC_MIN_YEAR)) || !(single || comp)) {
			continue;
		}
		for (int rd = rc_yearstart[y]; rd < rc_yearstart[y + 1] && !ex_expired_now(); rd++) {
			const struct rc_day *p = rc_get(rd);
			++*c_states;
			for (int ci = 0; ci < NMCAL; ci++) {
				int c = mcal[ci];
				struct dt_dt_s v;
				int rcv = cal_value(c, p, &v);
				++*c_eval;
				if (rcv == 0) {
					continue;
				} else if (rcv < 0) {
					char key[64], text[48], cas[64];
					cal_text(c, p, text, sizeof(text));
					snprintf(key, sizeof(key), "parse cal=%s", cal_name[c]);
					snprintf(cas, sizeof(cas), "%d 0 0 %d", c, rd);
					ex_viol(key, rd, cas, NULL, "day %04d-%02d-%02d: text '%s' (%s) is not accepted by the parser (or yields another type)",
						p->y, p->m, p->d, text, cal_name[c]);
					continue;
				}
				if (single) {
					for (int u = 0; u < NUNIT; u++) {
						if (!cal_has_unit(c, u)) {
							continue;
						}
						for (int i = 0; i < nn[u]; i++) {
							do_case(p, c, v, u, ns[u][i], &nd[u][i], 0);
						}
						++*c_traces;
					}
				}
				if (comp) {
					for (int k = 0; k < NKIND; k++) {
						if (!kind_ok(c, k)) {
							continue;
						}
						/* simplest first */
						for (int ja = 0; ja <= 2 * CR; ja++) {
							int a = (ja + 1) / 2 * ((ja & 1) ? 1 : -1);
							for (int jb = 0; jb <= 2 * CR; jb++) {
								int b = (jb + 1) / 2 * ((jb & 1) ? 1 : -1);
								do_comp(p, c, v, k, a, b, 0);
							}
						}
						++*c_traces;
					}
				}
			}
			if (ex_want_sample()) {
				ex_sample("state %04d-%02d-%02d (ISO %04d-W%02d-%d, yday %d, %d%s %s of the month, bd %d%s): %s%s",
					  p->y, p->m, p->d, p->isoy, p->isow, p->wd, p->yday, p->mcnt, vf_ordsuf(p->mcnt), rc_abbr_wday[p->wd], p->bd,
					  p->isbd ? "" : " weekend", single ? "all single month/quarter/year steps in 5 calendars" : "",
					  comp ? "; all compositions (a,b) in [-14,14]^2 x 4 kinds" : "");
			}
		}
	}
	{
		int nb = ex.thorough ? NBIND : NBIND_QUICK;
		for (int k = 0; k < nb + NDSEQ && !ex_expired_now(); k++) {
			if (ex_mine((uint64_t)k)) {
				if (k < nb) {
					do_binding(k);
				} else {
					do_dseq(k - nb, 0);
				}
			}
		}
	}
	return ex_finish();
}
