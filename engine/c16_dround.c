/* c16_dround.c -- C16: dround lands on the nearest requested target on the requested
 * side, keeps the finer fields, rounds to co-classes /N, is idempotent, -n is strict.
 *
 * Level S (DESIGN.md §3.2): src/dround.c is included into this translation unit; every
 * RNDSPEC is parsed by the tool's own dt_io_strpdtrnd() and applied by its own dround()
 * (-> dt_round -> tround_tdur / tround_tdur_cocl / dround_ddur / dround_ddur_cocl)
 * exactly as main() does, at library speed, to every day of the reference calendar and
 * to every second of a day.  The result is observed as the tool prints it (dt_strfdt).
 * Oracle: brute force on the model -- walk the instants on the requested side (day by day
 * on the successor machine, hour/minute/second steps on the clock) until the named field
 * equals the target with all finer fields equal to the input's (day-of-month clamped to
 * the month's last day); co-classes: nearest grid point (finer fields zero) by a sweep
 * over the day/second line.
 * Level M: main() in a forked child for argument validation (a target that no instant
 * can have, or a co-class that does not tile its super-unit, must be refused; what is
 * accepted must agree with the oracle); level B: the dround binary over all days of a
 * 400-year cycle on stdin, byte-compared with the level-S observation. */
#include "impl.h"
#include "explore.h"
#include "refcal.h"
#include "forksrv.h"

#define main dround_main
#include "dround.c"
#undef main

/* ------------------------------------------------------------------ targets */
enum {
	K_WD,		/* weekday name */
	K_MON,		/* month name */
	K_MONUM,	/* month numeral Nmo */
	K_DOM,		/* day of month Nd */
	K_H, K_M, K_S,	/* hour / minute / second value */
	K_COH, K_COM, K_COS,	/* co-class /Nh /Nm /Ns */
	K_COD,		/* /1d */
	K_COMO,		/* /Nmo, N | 12 */
	K_COY,		/* /Ny */
	K_BD,		/* business day of the month Nb (on bizda values) */
	K_COBD,		/* /1b */
	K_WK,		/* ISO week number Nw */
	K_Q,		/* quarter Nq */
	NKIND
};
static const char *const kind_name[NKIND] = {"weekday", "month-name", "month-number", "day-of-month", "hour", "minute", "second",
					     "/Nh", "/Nm", "/Ns", "/1d", "/Nmo", "/Ny", "business-day", "/1b", "week-number", "quarter"};

struct spec_s {
	int kind, n, down;
	char text[16];
	struct dt_dtdur_s dur;
	int ok;
};

static const char *const wd_txt[8] = {"", "Mon", "Tue", "Wed", "Thu", "Fri", "Sat", "Sun"};
static const char *const mon_txt[13] = {"", "Jan", "Feb", "Mar", "Apr", "May", "Jun", "Jul", "Aug", "Sep", "Oct", "Nov", "Dec"};

static void
spec_make(struct spec_s *s, int kind, int n, int down)
{
	struct __strpdtdur_st_s st = {0};
	const char *sg = down ? "-" : "";

	memset(s, 0, sizeof(*s));
	s->kind = kind, s->n = n, s->down = down;
	switch (kind) {
	case K_WD: snprintf(s->text, sizeof(s->text), "%s%s", sg, wd_txt[n]); break;
	case K_MON: snprintf(s->text, sizeof(s->text), "%s%s", sg, mon_txt[n]); break;
	case K_MONUM: snprintf(s->text, sizeof(s->text), "%s%dmo", sg, n); break;
	case K_DOM: snprintf(s->text, sizeof(s->text), "%s%dd", sg, n); break;
	case K_H: snprintf(s->text, sizeof(s->text), "%s%dh", sg, n); break;
	case K_M: snprintf(s->text, sizeof(s->text), "%s%dm", sg, n); break;
	case K_S: snprintf(s->text, sizeof(s->text), "%s%ds", sg, n); break;
	case K_COH: snprintf(s->text, sizeof(s->text), "/%s%dh", sg, n); break;
	case K_COM: snprintf(s->text, sizeof(s->text), "/%s%dm", sg, n); break;
	case K_COS: snprintf(s->text, sizeof(s->text), "/%s%ds", sg, n); break;
	case K_COD: snprintf(s->text, sizeof(s->text), "/%s%dd", sg, n); break;
	case K_COMO: snprintf(s->text, sizeof(s->text), "/%s%dmo", sg, n); break;
	case K_COY: snprintf(s->text, sizeof(s->text), "/%s%dy", sg, n); break;
	case K_BD: snprintf(s->text, sizeof(s->text), "%s%db", sg, n); break;
	case K_COBD: snprintf(s->text, sizeof(s->text), "/%s%db", sg, n); break;
	case K_WK: snprintf(s->text, sizeof(s->text), "%s%dw", sg, n); break;
	case K_Q: snprintf(s->text, sizeof(s->text), "%s%dq", sg, n); break;
	}
	/* exactly what main() does with one RNDSPEC */
	if (dt_io_strpdtrnd(&st, s->text) >= 0 && st.ndurs == 1U && !__strpdtdur_more_p(&st)) {
		s->dur = st.durs[0];
		s->ok = 1;
	}
	__strpdtdur_free(&st);
}

/* -------------------------------------------------------------- the oracle */
#define NONE	INT64_MIN

/* instants: date-only: rd; time-only: second of day; date-time: rd*86400+sec */
/* FAM_SX: a date-time given and printed as Unix epoch seconds (-i %s -f %s), held as DT_SEXY */
/* FAM_B: a date given and printed as business day of the month (2012-03-05b), held as DT_BIZDA;
 * encoded as the rd of that day like FAM_D */
/* FAM_W: a date given and printed as ISO week date (2012-W02-5), held as DT_YWD; encoded as rd */
/* FAM_YD, FAM_YMCW, FAM_LDN: a date given, held and printed as year-day (2012-070), as n-th weekday of
 * the month (2012-03-02-03) and as Lilian day number (-i ldn); encoded as rd.
 * FAM_NS: a date-time with a sub-second part (-i/-f %FT%T.%N); encoded as instant * 4 + k, the
 * fraction being NSFRAC[k] */
/* FAM_M24: a date-time spelt D T24:00:00 (military midnight); encoded as the instant it denotes,
 * 00:00:00 of the following day */
enum { FAM_D, FAM_T, FAM_DT, FAM_SX, FAM_B, FAM_W, FAM_YD, FAM_YMCW, FAM_LDN, FAM_NS, FAM_M24, NFAM };
static const char *const fam_name[] = {"date", "time", "datetime", "epoch", "bizda", "ywd", "yd", "ymcw", "ldn", "subsecond", "T24"};
static const int NSFRAC[4] = {500000000, 1, 999999999, 0};

static int
fam_day_p(int fam)
{
	return fam == FAM_D || fam == FAM_B || fam == FAM_W || fam == FAM_YD || fam == FAM_YMCW || fam == FAM_LDN;
}

static int
rd_ok(int64_t rd)
{
	return rd >= 0 && rd < RC_NDAYS;
}

/* date targets: walk day by day from the input day on the requested side.
 * clamp: 1 = a target day-of-month beyond the month's end means the month's last day */
static int64_t
walk_days(int rd, int kind, int n, int down, int next, int clamp)
{
	const struct rc_day *p0 = rc_get(rd);
	int step = down ? -1 : 1;
	for (int64_t r = next ? rd + step : rd, cnt = 0; rd_ok(r) && cnt < 4000; r += step, cnt++) {
		const struct rc_day *p = rc_get((int)r);
		switch (kind) {
		case K_WD:
			if (p->wd == n) {
				return r;
			}
			break;
		case K_MON:
		case K_MONUM:
			/* finer field: the input's day of month, clamped */
			if (p->m == n && p->d == (p0->d < p->mlen ? p0->d : p->mlen)) {
				return r;
			}
			break;
		case K_DOM:
			if (p->d == ((clamp && n > p->mlen) ? p->mlen : n)) {
				return r;
			}
			break;
		case K_BD: {
			/* business days of that month: the count on its last day */
			int nbd = rc_get(rc_rd(p->y, p->m, p->mlen))->bd;
			if (p->isbd && p->bd == ((clamp && n > nbd) ? nbd : n)) {
				return r;
			}
			break;
		}
		}
	}
	return NONE;
}

/* week-number targets on week dates: walk week by week (the weekday stays) on the requested side
 * until the ISO week number is N.  *clamped gets the first hit of the reading "week 53 of a
 * 52-week year is that year's last week", the return value the first hit of the exact reading */
static int64_t
walk_weeks(int rd, int n, int down, int next, int64_t *clamped)
{
	int step = down ? -7 : 7;
	*clamped = NONE;
	for (int64_t r = next ? rd + step : rd, cnt = 0; rd_ok(r) && cnt < 800; r += step, cnt++) {
		const struct rc_day *p = rc_get((int)r);
		if (*clamped == NONE && n == 53 && p->isow == 52 && rc_isoweeks(p->isoy) == 52) {
			*clamped = r;
		}
		if (p->isow == n) {
			if (*clamped == NONE) {
				*clamped = r;
			}
			return r;
		}
	}
	return NONE;
}

/* time value targets: walk in steps of the named unit (finer fields stay), on the
 * integer line of seconds; t is seconds (any day) */
static int64_t
walk_time(int64_t t, int kind, int n, int down, int next)
{
	int64_t unit = kind == K_H ? 3600 : kind == K_M ? 60 : 1;
	int64_t step = down ? -unit : unit;
	int lim = kind == K_H ? 24 : 60;
	for (int k = next ? 1 : 0; k <= lim + 1; k++) {
		int64_t c = t + k * step;
		int64_t s = ((c % 86400) + 86400) % 86400;
		int f = kind == K_H ? (int)(s / 3600) : kind == K_M ? (int)(s / 60 % 60) : (int)(s % 60);
		if (f == n) {
			return c;
		}
	}
	return NONE;
}

/* co-class grids on the second line: smallest multiple of P >= t / largest <= t by a
 * sweep over three days of seconds (P divides 86400) */
#define TLO	(-86400)
#define THI	(2 * 86400)
struct tgrid_s {
	int P;
	int32_t *ge, *le;	/* index t - TLO */
};
static struct tgrid_s tgrids[40];
static int ntgrid;

static const struct tgrid_s*
tgrid(int P)
{
	struct tgrid_s *g;
	for (int i = 0; i < ntgrid; i++) {
		if (tgrids[i].P == P) {
			return tgrids + i;
		}
	}
	g = tgrids + ntgrid++;
	g->P = P;
	g->ge = malloc(sizeof(int32_t) * (THI - TLO + 1));
	g->le = malloc(sizeof(int32_t) * (THI - TLO + 1));
	/* THI and TLO are grid points of every P | 86400 */
	for (int t = THI; t >= TLO; t--) {
		g->ge[t - TLO] = (((t % P) + P) % P == 0) ? t : g->ge[t + 1 - TLO];
	}
	for (int t = TLO; t <= THI; t++) {
		g->le[t - TLO] = (((t % P) + P) % P == 0) ? t : g->le[t - 1 - TLO];
	}
	return g;
}

/* t in [0, 86400): offset of the rounded instant */
static int64_t
co_time(int t, int P, int down, int next)
{
	const struct tgrid_s *g = tgrid(P);
	if (!down) {
		return g->ge[(next ? t + 1 : t) - TLO];
	}
	return g->le[(next ? t - 1 : t) - TLO];
}

/* co-class grids on the day line */
struct dgrid_s {
	int kind, n;
	int32_t *ge, *le;	/* -1: beyond the range */
};
static struct dgrid_s dgrids[16];
static int ndgrid;

static int
day_on_grid(const struct rc_day *p, int kind, int n)
{
	switch (kind) {
	case K_COD:
		return 1;
	case K_COBD:
		return p->isbd;
	case K_COMO:
		/* n | 12: the grid is aligned to the year */
		return p->d == 1 && (p->m - 1) % n == 0;
	case K_COY:
		/* "there's 1000 years, 500 biennia, 100 decades, etc. in a millennium" */
		return p->d == 1 && p->m == 1 && p->y % n == 0;
	}
	return 0;
}

static const struct dgrid_s*
dgrid(int kind, int n)
{
	struct dgrid_s *g;
	for (int i = 0; i < ndgrid; i++) {
		if (dgrids[i].kind == kind && dgrids[i].n == n) {
			return dgrids + i;
		}
	}
	g = dgrids + ndgrid++;
	g->kind = kind, g->n = n;
	g->ge = malloc(sizeof(int32_t) * (RC_NDAYS + 2));
	g->le = malloc(sizeof(int32_t) * (RC_NDAYS + 2));
	g->ge[RC_NDAYS] = -1;
	for (int rd = RC_NDAYS - 1; rd >= 0; rd--) {
		g->ge[rd] = day_on_grid(rc_get(rd), kind, n) ? rd : g->ge[rd + 1];
	}
	for (int rd = 0, last = -1; rd < RC_NDAYS; rd++) {
		if (day_on_grid(rc_get(rd), kind, n)) {
			last = rd;
		}
		g->le[rd] = last;
	}
	return g;
}

/* the model's answer.  returns 0 and *out (same encoding as the input), or
 * 1 = outside the property by the stated reading (why in *skip), 2 = result outside the range */
static int
oracle0(int fam, int64_t in, const struct spec_s *s, int next, int64_t *out, const char **skip)
{
	int64_t rd, r;
	int sec;


	if (fam == FAM_NS) {
		/* T = inst + frac, 0 < frac < 1 s.  co-classes: the grid points are whole seconds, so the
		 * smallest one >= (>) T is the smallest >= inst + 1 and the largest <= (<) T is the largest
		 * <= inst; the result has no fraction.  value targets keep the finer fields, fraction included */
		int64_t inst = in >> 2, o;
		int k = (int)(in & 3), rc;
		int co = s->kind >= K_COH && s->kind != K_BD && s->kind != K_WK;
		if (co) {
			rc = oracle0(FAM_DT, s->down ? inst : inst + 1, s, 0, &o, skip);
			k = 3;
		} else {
			rc = oracle0(FAM_DT, inst, s, next, &o, skip);
		}
		if (rc == 0) {
			*out = (o << 2) | k;
		}
		return rc;
	}
	if (fam == FAM_SX) {
		/* an epoch value is a date-time; a target the tool cannot apply to it may be refused */
		fam = FAM_DT;
	}
	if (fam == FAM_M24) {
		/* D T24:00:00 denotes 00:00:00 of the following day: the answer is the one for that
		 * instant, however the result is spelt */
		fam = FAM_DT;
	}
	if (s->kind == K_WK) {
		int64_t cl;
		/* the ISO week number is a field of every date, however it is written (quantifier: all
		 * dates); a time of day has none */
		if (fam == FAM_T) {
			*skip = "date target on a time";
			return 1;
		}
		r = walk_weeks((int)(fam == FAM_DT ? in / 86400 : in), s->n, s->down, next, &cl);
		if (cl != r) {
			*skip = "week 53 in a year of 52 weeks: exact vs. clamped reading differ";
			return 1;
		}
		if (r == NONE) {
			return 2;
		}
		*out = fam == FAM_DT ? r * 86400 + in % 86400 : r;
		return 0;
	}
	if (s->kind == K_BD) {
		if (fam != FAM_B) {
			/* the tool says so itself: "rounding to n-th business day not supported for input value" */
			*skip = "Nb on a value not held as business day of the month";
			return 1;
		}
		r = walk_days((int)in, K_BD, s->n, s->down, next, 1);
		if (walk_days((int)in, K_BD, s->n, s->down, next, 0) != r) {
			*skip = "business-day target beyond a month's last business day: exact vs. clamped reading differ";
			return 1;
		}
		if (r == NONE) {
			return 2;
		}
		*out = r;
		return 0;
	}
	if (fam_day_p(fam)) {
		/* whatever calendar the date is written in */
		fam = FAM_D;
	}
	rd = fam == FAM_D ? in : fam == FAM_DT ? in / 86400 : 0;
	sec = fam == FAM_T ? (int)in : fam == FAM_DT ? (int)(in % 86400) : 0;

	switch (s->kind) {
	case K_WD:
	case K_MON:
	case K_MONUM:
	case K_DOM:
		if (fam == FAM_T) {
			*skip = "date target on a time";
			return 1;
		}
		r = walk_days((int)rd, s->kind, s->n, s->down, next, 1);
		if (s->kind == K_DOM && walk_days((int)rd, s->kind, s->n, s->down, next, 0) != r) {
			*skip = "day-of-month target beyond a month's end: exact vs. clamped reading differ";
			return 1;
		}
		if (r == NONE) {
			return 2;
		}
		*out = fam == FAM_D ? r : r * 86400 + sec;
		return 0;
	case K_H:
	case K_M:
	case K_S:
		if (fam == FAM_D) {
			*skip = "time target on a date";
			return 1;
		}
		if (fam == FAM_T) {
			r = walk_time(sec, s->kind, s->n, s->down, next);
			if (r == NONE) {
				return 2;
			}
			*out = ((r % 86400) + 86400) % 86400;
			return 0;
		}
		r = walk_time(in, s->kind, s->n, s->down, next);
		if (r == NONE || r < 0 || !rd_ok(r / 86400)) {
			return 2;
		}
		*out = r;
		return 0;
	case K_COH:
	case K_COM:
	case K_COS: {
		int P = s->n * (s->kind == K_COH ? 3600 : s->kind == K_COM ? 60 : 1);
		if (fam == FAM_D) {
			*skip = "time target on a date";
			return 1;
		}
		r = co_time(sec, P, s->down, next);
		if (fam == FAM_T) {
			*out = ((r % 86400) + 86400) % 86400;
			return 0;
		}
		r += rd * 86400;
		if (r < 0 || !rd_ok(r / 86400)) {
			return 2;
		}
		*out = r;
		return 0;
	}
	case K_COD:
	case K_COBD:
	case K_COMO:
	case K_COY: {
		const struct dgrid_s *g = dgrid(s->kind, s->n);
		int64_t q;
		if (fam == FAM_T) {
			*skip = "date target on a time";
			return 1;
		}
		if (fam == FAM_D) {
			q = s->down ? rd - (next ? 1 : 0) : rd + (next ? 1 : 0);
		} else if (!s->down) {
			/* smallest grid midnight >= (>) the instant */
			q = (sec > 0 || next) ? rd + 1 : rd;
		} else {
			/* largest grid midnight <= (<) the instant */
			q = (sec == 0 && next) ? rd - 1 : rd;
		}
		if (!rd_ok(q)) {
			return 2;
		}
		r = s->down ? g->le[q] : g->ge[q];
		if (r < 0) {
			return 2;
		}
		*out = fam == FAM_D ? r : r * 86400;
		return 0;
	}
	}
	return 2;
}

static int
oracle(int fam, int64_t in, const struct spec_s *s, int next, int64_t *out, const char **skip)
{
	int rc = oracle0(fam, in, s, next, out, skip);
	if (rc == 0 && fam == FAM_B && !rc_get((int)*out)->isbd) {
		*skip = "the model's result is a Saturday or Sunday: no name as business day of the month";
		return 1;
	}
	return rc;
}

/* -------------------------------------------------------------- text in/out */
static void
fmt_inst(char *buf, size_t bsz, int fam, int64_t v)
{
	if (fam == FAM_T) {
		snprintf(buf, bsz, "%02d:%02d:%02d", (int)(v / 3600), (int)(v / 60 % 60), (int)(v % 60));
	} else if (fam == FAM_SX) {
		snprintf(buf, bsz, "%lld", (long long)(v - (int64_t)RC_RD_1970 * 86400));
	} else if (fam == FAM_M24) {
		if (v % 86400 == 0 && rc_get((int)(v / 86400) - 1) != NULL) {
			const struct rc_day *p = rc_get((int)(v / 86400) - 1);
			snprintf(buf, bsz, "%04d-%02d-%02dT24:00:00", p->y, p->m, p->d);
		} else {
			fmt_inst(buf, bsz, FAM_DT, v);
		}
	} else if (fam == FAM_NS) {
		char t[40];
		fmt_inst(t, sizeof(t), FAM_DT, v >> 2);
		snprintf(buf, bsz, "%s.%09d", t, NSFRAC[v & 3]);
	} else if (fam == FAM_YD || fam == FAM_YMCW || fam == FAM_LDN) {
		const struct rc_day *p = rc_get((int)v);
		if (p == NULL) {
			snprintf(buf, bsz, "(out of range)");
		} else if (fam == FAM_YD) {
			snprintf(buf, bsz, "%04d-%03d", p->y, p->yday);
		} else if (fam == FAM_YMCW) {
			snprintf(buf, bsz, "%04d-%02d-%02d-%02d", p->y, p->m, p->mcnt, p->wd);
		} else {
			snprintf(buf, bsz, "%lld", (long long)rc_ldn(p->rd));
		}
	} else if (fam == FAM_W) {
		const struct rc_day *p = rc_get((int)v);
		if (p == NULL) {
			snprintf(buf, bsz, "(out of range)");
		} else {
			snprintf(buf, bsz, "%04d-W%02d-%d", p->isoy, p->isow, p->wd);
		}
	} else if (fam == FAM_B) {
		const struct rc_day *p = rc_get((int)v);
		if (p == NULL) {
			snprintf(buf, bsz, "(out of range)");
		} else {
			snprintf(buf, bsz, "%04d-%02d-%02db", p->y, p->m, p->bd);
		}
	} else {
		const struct rc_day *p = rc_get((int)(fam == FAM_D ? v : v / 86400));
		int s = fam == FAM_D ? 0 : (int)(v % 86400);
		if (p == NULL) {
			snprintf(buf, bsz, "(out of range)");
		} else if (fam == FAM_D) {
			snprintf(buf, bsz, "%04d-%02d-%02d", p->y, p->m, p->d);
		} else {
			snprintf(buf, bsz, "%04d-%02d-%02dT%02d:%02d:%02d", p->y, p->m, p->d, s / 3600, s / 60 % 60, s % 60);
		}
	}
}

/* parse what the tool printed; 0 ok, 1 not of the form, 2 not an existing date/time */
static int
parse_out(const char *s, int fam, int64_t *out)
{
	int y, m, d, H, M, S, n = 0;
	int64_t rd = 0, sec = 0;
	switch (fam) {
	case FAM_SX: {
		long long e;
		if (sscanf(s, "%lld%n", &e, &n) != 1 || s[n]) {
			return 1;
		}
		*out = (int64_t)e + (int64_t)RC_RD_1970 * 86400;
		return (*out >= 0 && rd_ok(*out / 86400)) ? 0 : 2;
	}
	case FAM_M24:
		if (sscanf(s, "%d-%d-%dT%d:%d:%d%n", &y, &m, &d, &H, &M, &S, &n) != 6 || s[n]) {
			return 1;
		}
		if (H == 24 && M == 0 && S == 0) {
			/* the same instant spelt the military way */
			if (y < RC_MIN_YEAR || y > RC_MAX_YEAR || m < 1 || m > 12 || d < 1 || d > rc_mlen(y, m)) {
				return 2;
			}
			*out = ((int64_t)rc_rd(y, m, d) + 1) * 86400;
			return rd_ok(*out / 86400) ? 0 : 2;
		}
		return parse_out(s, FAM_DT, out);
	case FAM_NS: {
		int ns, k = -1;
		int64_t o;
		char t[40];
		if (sscanf(s, "%d-%d-%dT%d:%d:%d.%9d%n", &y, &m, &d, &H, &M, &S, &ns, &n) != 7 || s[n] || n != 29) {
			return 1;
		}
		snprintf(t, sizeof(t), "%.19s", s);
		if ((n = parse_out(t, FAM_DT, &o))) {
			return n;
		}
		for (int q = 0; q < 4; q++) {
			if (NSFRAC[q] == ns) {
				k = q;
			}
		}
		if (k < 0) {
			/* a fraction the inputs never have */
			return 2;
		}
		*out = (o << 2) | k;
		return 0;
	}
	case FAM_YD:
		if (sscanf(s, "%d-%d%n", &y, &d, &n) != 2 || s[n]) {
			return 1;
		}
		if (y < RC_MIN_YEAR || y > RC_MAX_YEAR || d < 1 || d > 365 + rc_leapp(y)) {
			return 2;
		}
		*out = rc_rd(y, 1, 1) + d - 1;
		return 0;
	case FAM_LDN: {
		long long e;
		if (sscanf(s, "%lld%n", &e, &n) != 1 || s[n]) {
			return 1;
		}
		*out = e - rc_ldn(0);
		return rd_ok(*out) ? 0 : 2;
	}
	case FAM_YMCW: {
		int c, w, r0;
		if (sscanf(s, "%d-%d-%d-%d%n", &y, &m, &c, &w, &n) != 4 || s[n]) {
			return 1;
		}
		if (w == 0) {
			w = 7;
		}
		if (y < RC_MIN_YEAR || y > RC_MAX_YEAR || m < 1 || m > 12 || c < 1 || c > 5 || w < 1 || w > 7) {
			return 2;
		}
		r0 = rc_rd(y, m, 1);
		for (int q = 0; q < rc_mlen(y, m); q++) {
			const struct rc_day *p = rc_get(r0 + q);
			if (p->mcnt == c && p->wd == w) {
				*out = r0 + q;
				return 0;
			}
		}
		return 2;
	}
	case FAM_W: {
		int jan4, mon1;
		int64_t r;
		if (sscanf(s, "%d-W%d-%d%n", &y, &m, &d, &n) != 3 || s[n]) {
			return 1;
		}
		if (d == 0) {
			d = 7;
		}
		if (y < RC_MIN_YEAR || y > RC_MAX_YEAR || m < 1 || m > 53 || d < 1 || d > 7) {
			return 2;
		}
		jan4 = rc_rd(y, 1, 4);
		mon1 = jan4 - (rc_get(jan4)->wd - 1);
		r = (int64_t)mon1 + (m - 1) * 7 + (d - 1);
		if (!rd_ok(r) || rc_get((int)r)->isoy != y || rc_get((int)r)->isow != m) {
			return 2;
		}
		*out = r;
		return 0;
	}
	case FAM_B: {
		int r0;
		if (sscanf(s, "%d-%d-%db%n", &y, &m, &d, &n) != 3 || s[n]) {
			return 1;
		}
		if (y < RC_MIN_YEAR || y > RC_MAX_YEAR || m < 1 || m > 12 || d < 1) {
			return 2;
		}
		r0 = rc_rd(y, m, 1);
		for (int k = 0; k < rc_mlen(y, m); k++) {
			const struct rc_day *p = rc_get(r0 + k);
			if (p->isbd && p->bd == d) {
				*out = r0 + k;
				return 0;
			}
		}
		return 2;
	}
	case FAM_D:
		if (sscanf(s, "%d-%d-%d%n", &y, &m, &d, &n) != 3 || s[n]) {
			return 1;
		}
		break;
	case FAM_T:
		if (sscanf(s, "%d:%d:%d%n", &H, &M, &S, &n) != 3 || s[n]) {
			return 1;
		}
		break;
	default:
		if (sscanf(s, "%d-%d-%dT%d:%d:%d%n", &y, &m, &d, &H, &M, &S, &n) != 6 || s[n]) {
			return 1;
		}
		break;
	}
	if (fam != FAM_T) {
		if (y < RC_MIN_YEAR || y > RC_MAX_YEAR || m < 1 || m > 12 || d < 1 || d > rc_mlen(y, m)) {
			return 2;
		}
		rd = rc_rd(y, m, d);
	}
	if (fam != FAM_D) {
		if (H < 0 || H > 23 || M < 0 || M > 59 || S < 0 || S > 59) {
			return 2;
		}
		sec = H * 3600 + M * 60 + S;
	}
	*out = fam == FAM_D ? rd : fam == FAM_T ? sec : rd * 86400 + sec;
	return 0;
}

static const char *const fam_fmt[] = {"%Y-%m-%d", "%H:%M:%S", "%Y-%m-%dT%H:%M:%S", "%s", "%Y-%m-%db", NULL, "yd", "ymcw", "ldn", "%Y-%m-%dT%H:%M:%S.%N", "%Y-%m-%dT%H:%M:%S"};
/* how the input text is read: NULL = the format-less parser as on the command line */
static const char *const fam_ifmt[NFAM] = {NULL, NULL, NULL, "%s", NULL, NULL, NULL, NULL, "ldn", "%Y-%m-%dT%H:%M:%S.%N", NULL};
static const char *const fam_opt[NFAM] = {"", "", "", "-i %s -f %s ", "", "", "", "", "-i ldn -f ldn ", "-i %FT%T.%N -f %FT%T.%N ", ""};

/* ------------------------------------------------------------- one rounding */
static uint64_t *c_eval, *c_trans, *c_nontriv, *c_idem, *c_strict;

static void
class_key(char *key, size_t ksz, int fam, const struct spec_s *s, int next, const char *what)
{
	/* the kind of target is the discrete coordinate; its value (which weekday, which N) is
	 * a parameter of the same code path and is found in the example of the class */
	const char *tgt = kind_name[s->kind];
	snprintf(key, ksz, "%s target=%s dir=%s next=%d: %s", fam_name[fam], tgt, s->down ? "down" : "up", next, what);
}

/* quarter targets: Nq is a suffix --help names, but neither --help nor the statement say which
 * month of the quarter is meant (the tool takes the first, "less significant elements are left
 * unchanged" suggests the same month of the quarter).  Judged is what every reading shares: a value in
 * quarter N already is returned unchanged (without -n); otherwise the result lies in the nearest
 * quarter N on the requested side (strictly beyond the current one with -n), with the input's
 * day of month (clamped) and time of day */
static int
do_quarter(int fam, int64_t in, struct dt_dt_s v, const struct spec_s *s, int si, int next, int verbose)
{
	char itxt[40], got[64], key[200], cas[64], cmd[128], etxt[96];
	struct dt_dtdur_s dur = s->dur;
	struct dt_dt_s r;
	const char *what = NULL;
	int64_t obs = NONE;
	int rd0 = (int)((fam == FAM_DT || fam == FAM_M24) ? in / 86400 : in), sec0 = (fam == FAM_DT || fam == FAM_M24) ? (int)(in % 86400) : 0;
	const struct rc_day *p0 = rc_get(rd0);
	int step = s->down ? -1 : 1, prc;
	int64_t rr = rd0, plo = NONE, phi = NONE;
	EX_CTR(c_q, "quarter_roundings");

	/* leave the current period if the input is in quarter N and -n is given */
	if (p0->q == s->n && next) {
		while (rd_ok(rr) && rc_get((int)rr)->q == s->n) {
			rr += step;
		}
	}
	while (rd_ok(rr) && rc_get((int)rr)->q != s->n) {
		rr += step;
	}
	if (!rd_ok(rr)) {
		return 0;
	}
	/* the whole period around rr */
	for (plo = rr; rd_ok(plo - 1) && rc_get((int)plo - 1)->q == s->n && rc_get((int)plo - 1)->y == rc_get((int)rr)->y; plo--) {
		;
	}
	for (phi = rr; rd_ok(phi + 1) && rc_get((int)phi + 1)->q == s->n && rc_get((int)phi + 1)->y == rc_get((int)rr)->y; phi++) {
		;
	}
	if (p0->q == s->n && next) {
		/* -n from inside the quarter: strictly beyond the input; whether that may be another
		 * month of the same quarter or must be the next occurrence depends on the open reading */
		if (s->down) {
			phi = rd0 - 1;
		} else {
			plo = rd0 + 1;
		}
	}
	r = dround(v, &dur, 1U, next);
	++*c_eval;
	++*c_trans;
	++*c_q;
	memset(got, 0, sizeof(got));
	dt_strfdt(got, sizeof(got), fam_fmt[fam], r);
	prc = parse_out(got, fam, &obs);
	ex_outcome(ex_hash_mix(ex_hash(got, strlen(got)), (uint64_t)s->kind));
	fmt_inst(itxt, sizeof(itxt), fam, in);
	snprintf(cmd, sizeof(cmd), "dround %s%s-- %s %s", next ? "-n " : "", fam_opt[fam], itxt, s->text);
	if (p0->q == s->n && !next) {
		snprintf(etxt, sizeof(etxt), "%s (in Q%d already)", itxt, s->n);
	} else {
		char a[40], b[40];
		fmt_inst(a, sizeof(a), FAM_D, plo);
		fmt_inst(b, sizeof(b), FAM_D, phi);
		snprintf(etxt, sizeof(etxt), "a day of Q%d in %s..%s with the day of month kept", s->n, a, b);
	}
	if (prc == 1) {
		what = "prints something that is not a date/time of the input's form";
	} else if (prc == 2) {
		what = "prints a date/time that does not exist";
	} else if (p0->q == s->n && !next) {
		if (obs != in) {
			what = "input already on target is moved";
		}
	} else {
		int64_t ord = (fam == FAM_DT || fam == FAM_M24) ? obs / 86400 : obs;
		if (next && obs == in) {
			what = "--next returns the input unchanged";
		} else if (obs == in) {
			what = "target ignored: the input is returned unchanged";
		} else if (ord < plo || ord > phi || rc_get((int)ord)->q != s->n) {
			what = "not in the nearest quarter N on the requested side";
		} else if (rc_get((int)ord)->d != (p0->d < rc_get((int)ord)->mlen ? p0->d : rc_get((int)ord)->mlen) ||
			   ((fam == FAM_DT || fam == FAM_M24) && obs % 86400 != sec0)) {
			what = "finer fields (day of month, time) not kept";
		}
	}
	if (verbose) {
		printf("  %s: model %s, tool %s%s%s\n", cmd, etxt, got, what ? " -- " : " (agrees)", what ? what : "");
	}
	if (what) {
		class_key(key, sizeof(key), fam, s, next, what);
		snprintf(cas, sizeof(cas), "%d %lld %d %d", fam, (long long)in, si, next);
		ex_viol(key, (double)rd0, cas, cmd, "%s: expected %s, got %s", cmd, etxt, got);
		return 1;
	}
	return 0;
}

/* returns 1 on failure */
static int
do_round(int fam, int64_t in, struct dt_dt_s v, const struct spec_s *s, int si, int next, int verbose)
{
	char itxt[40], etxt[40], got[64], got2[64], key[200], cas[64], cmd[128];
	struct dt_dt_s r, r2;
	struct dt_dtdur_s dur = s->dur;
	const char *skip = NULL, *what = NULL;
	int64_t exp = NONE, obs = NONE;
	int orc, prc;

	if (s->kind == K_Q) {
		if (fam != FAM_D && fam != FAM_DT && fam != FAM_M24) {
			return 0;
		}
		return do_quarter(fam, in, v, s, si, next, verbose);
	}
	orc = oracle(fam, in, s, next, &exp, &skip);
	if (orc == 1) {
		char sk[200];
		snprintf(sk, sizeof(sk), "skipped:%s", skip);
		++*ex_ctr(sk);
		if (verbose) {
			printf("  outside the property: %s\n", skip);
		}
		if (!next && strstr(skip, "reading differ")) {
			/* which date is the target is open, that rounding twice equals rounding once is not */
			EX_CTR(c_idem2, "idempotence_checks_under_open_reading");
			r = dround(v, &dur, 1U, 0);
			memset(got, 0, sizeof(got));
			memset(got2, 0, sizeof(got2));
			dt_strfdt(got, sizeof(got), fam_fmt[fam], r);
			if (dt_unk_p(r) || parse_out(got, fam, &obs)) {
				/* nothing that could be rounded again */
				return 0;
			}
			dur = s->dur;
			r2 = dround(r, &dur, 1U, 0);
			*c_eval += 2;
			dt_strfdt(got2, sizeof(got2), fam_fmt[fam], r2);
			++*c_idem2;
			ex_outcome(ex_hash_mix(ex_hash(got2, strlen(got2)), (uint64_t)s->kind));
			if (strcmp(got, got2)) {
				fmt_inst(itxt, sizeof(itxt), fam, in);
				snprintf(cmd, sizeof(cmd), "dround %s-- %s %s", fam_opt[fam], itxt, s->text);
				snprintf(cas, sizeof(cas), "%d %lld %d %d", fam, (long long)in, si, next);
				class_key(key, sizeof(key), fam, s, next, "rounding twice differs from rounding once");
				ex_viol(key, (double)(fam_day_p(fam) || fam == FAM_T ? in : in / 86400), cas, cmd,
					"%s: %s, rounded again %s", cmd, got, got2);
				if (verbose) {
					printf("  %s: %s, rounded again %s -- rounding twice differs from rounding once\n", cmd, got, got2);
				}
				return 1;
			}
		}
		return 0;
	} else if (orc == 2) {
		EX_CTR(c_oor, "skipped:result beyond 1601..4095");
		++*c_oor;
		if (verbose) {
			printf("  model result beyond the range\n");
		}
		return 0;
	}
	r = dround(v, &dur, 1U, next);
	++*c_eval;
	++*c_trans;
	if (dt_unk_p(r) && (fam == FAM_SX || (fam_day_p(fam) && fam != FAM_D))) {
		/* a target the tool cannot apply to a value held that way may be refused (main() then
		 * prints nothing and exits 1); what it may not do is to ignore it */
		EX_CTR(c_ref, "refusals_accepted");
		++*c_ref;
		if (verbose) {
			printf("  refused\n");
		}
		return 0;
	}
	memset(got, 0, sizeof(got));
	dt_strfdt(got, sizeof(got), fam_fmt[fam], r);
	prc = parse_out(got, fam, &obs);
	ex_outcome(ex_hash_mix(ex_hash(got, strlen(got)), (uint64_t)s->kind));
	if (exp != in) {
		/* non-trivial: the input is not on the target already */
		if (fam == FAM_T ? (s->down ? exp > in : exp < in)
		    : fam == FAM_SX ? (exp / 86400 != in / 86400 || in < (int64_t)RC_RD_1970 * 86400)
		    : fam == FAM_W ? rc_get((int)exp)->isoy != rc_get((int)in)->isoy
		    : fam_day_p(fam) ? rc_get((int)exp)->m != rc_get((int)in)->m
		    : fam == FAM_NS ? (exp >> 2) / 86400 != (in >> 2) / 86400
		    : exp / 86400 != in / 86400) {
			/* ... and the result wraps past midnight / lies in another month / on another day */
			++*c_nontriv;
		}
	}

	fmt_inst(itxt, sizeof(itxt), fam, in);
	fmt_inst(etxt, sizeof(etxt), fam, exp);
	snprintf(cmd, sizeof(cmd), "dround %s%s-- %s %s", next ? "-n " : "", fam_opt[fam], itxt, s->text);
	snprintf(cas, sizeof(cas), "%d %lld %d %d", fam, (long long)in, si, next);

	if (prc == 1) {
		what = "prints something that is not a date/time of the input's form";
	} else if (prc == 2) {
		what = "prints a date/time that does not exist";
	} else if (obs != exp) {
		if (next && obs == in) {
			what = "--next returns the input unchanged";
		} else if (obs == in) {
			what = "target ignored: the input is returned unchanged";
		} else if (!next && exp == in) {
			what = "input already on target is moved";
		} else if ((!s->down && fam != FAM_T && obs < in) || (s->down && fam != FAM_T && obs > in)) {
			what = "result on the wrong side of the input";
		} else {
			what = "not the nearest target on the requested side";
		}
	}
	if (what == NULL && fam == FAM_W) {
		/* the same value printed as a Gregorian date: a week date that carries a stale
		 * offset prints right as week date and wrong here */
		char gf[64];
		int64_t of = NONE;
		memset(gf, 0, sizeof(gf));
		dt_strfdt(gf, sizeof(gf), "%Y-%m-%d", r);
		++*c_eval;
		if (parse_out(gf, FAM_D, &of) || of != exp) {
			what = "%F of the result is not the day its week date names";
			snprintf(got + strlen(got), sizeof(got) - strlen(got), " = %s", gf);
		}
	}
	if (what == NULL && next) {
		++*c_strict;
	}
	if (what == NULL && !next) {
		/* idempotence on the implementation itself */
		dur = s->dur;
		r2 = dround(r, &dur, 1U, 0);
		++*c_eval;
		memset(got2, 0, sizeof(got2));
		dt_strfdt(got2, sizeof(got2), fam_fmt[fam], r2);
		++*c_idem;
		if (strcmp(got, got2)) {
			what = "rounding twice differs from rounding once";
			snprintf(etxt, sizeof(etxt), "%s again", got);
			snprintf(got, sizeof(got), "%s", got2);
		}
	}
	if (verbose) {
		printf("  %s: model %s, tool %s%s%s\n", cmd, etxt, got, what ? " -- " : " (agrees)", what ? what : "");
	}
	if (what) {
		class_key(key, sizeof(key), fam, s, next, what);
		ex_viol(key, (double)(fam_day_p(fam) || fam == FAM_T ? in : fam == FAM_NS ? (in >> 2) / 86400 : in / 86400), cas, cmd,
			"%s: expected %s, got %s", cmd, etxt, got);
		if (getenv("C16_TRACE")) {
			fprintf(stderr, "FAIL %s | %s | exp %s got %s\n", cmd, what, etxt, got);
		}
		return 1;
	}
	return 0;
}

/* ------------------------------------------------------------------ tables */
#define MAXSPEC	1200
static struct spec_s specs[MAXSPEC];
static int nspec;
static int date_lo, date_hi;	/* spec index ranges: date targets */
static int time_lo, time_hi;	/* time targets */
static int bd_lo, bd_hi;	/* Nb targets (bizda values) */
static int cobd_lo, cobd_hi;	/* /1b */
static int wk_lo, wk_hi;	/* Nw targets (week dates) */
static int bdx_lo, bdx_hi;	/* 21b..23b */
static int q_lo, q_hi;	/* 1q..4q */

static void
add_spec(int kind, int n)
{
	for (int down = 0; down < 2; down++) {
		spec_make(specs + nspec, kind, n, down);
		nspec++;
	}
}

static void
build_specs(void)
{
	static const int hdiv[] = {1, 2, 3, 4, 6, 8, 12, 24};
	static const int mdiv[] = {1, 2, 3, 4, 5, 6, 10, 12, 15, 20, 30, 60};
	static const int modiv[] = {1, 2, 3, 4, 6, 12};
	static const int ydiv[] = {1, 2, 4, 5, 10, 100};

	date_lo = nspec;
	for (int w = 1; w <= 7; w++) {
		add_spec(K_WD, w);
	}
	for (int m = 1; m <= 12; m++) {
		add_spec(K_MON, m);
	}
	for (int m = 1; m <= 12; m++) {
		add_spec(K_MONUM, m);
	}
	for (int d = 1; d <= 31; d++) {
		add_spec(K_DOM, d);
	}
	add_spec(K_COD, 1);
	for (size_t i = 0; i < sizeof(modiv) / sizeof(*modiv); i++) {
		add_spec(K_COMO, modiv[i]);
	}
	for (size_t i = 0; i < sizeof(ydiv) / sizeof(*ydiv); i++) {
		add_spec(K_COY, ydiv[i]);
	}
	date_hi = nspec;
	time_lo = nspec;
	for (int h = 0; h < 24; h++) {
		add_spec(K_H, h);
	}
	for (int m = 0; m < 60; m++) {
		add_spec(K_M, m);
	}
	for (int s = 0; s < 60; s++) {
		add_spec(K_S, s);
	}
	for (size_t i = 0; i < sizeof(hdiv) / sizeof(*hdiv); i++) {
		add_spec(K_COH, hdiv[i]);
	}
	for (size_t i = 0; i < sizeof(mdiv) / sizeof(*mdiv); i++) {
		add_spec(K_COM, mdiv[i]);
	}
	for (size_t i = 0; i < sizeof(mdiv) / sizeof(*mdiv); i++) {
		add_spec(K_COS, mdiv[i]);
	}
	time_hi = nspec;
	/* appended later: indices are part of case strings */
	bd_lo = nspec;
	for (int b = 1; b <= 20; b++) {
		add_spec(K_BD, b);
	}
	bd_hi = nspec;
	cobd_lo = nspec;
	add_spec(K_COBD, 1);
	cobd_hi = nspec;
	wk_lo = nspec;
	for (int w = 1; w <= 53; w++) {
		add_spec(K_WK, w);
	}
	wk_hi = nspec;
	/* 21b..23b: months have 20 to 23 business days */
	bdx_lo = nspec;
	for (int b = 21; b <= 23; b++) {
		add_spec(K_BD, b);
	}
	bdx_hi = nspec;
	q_lo = nspec;
	for (int q = 1; q <= 4; q++) {
		add_spec(K_Q, q);
	}
	q_hi = nspec;
}

/* is the sign of a zero target expressible? "-0m" is a different command line from "0m"
 * and the parser keeps the sign in a flag; both are enumerated */

static struct dt_dt_s
parse_in(int fam, int64_t in, char *txt, size_t tsz)
{
	fmt_inst(txt, tsz, fam, in);
	return dt_strpdt(txt, fam_ifmt[fam], NULL);
}

/* all specs of [lo, hi) on one input */
static void
do_input(int fam, int64_t in, int lo, int hi)
{
	char txt[40];
	struct dt_dt_s v = parse_in(fam, in, txt, sizeof(txt));
	EX_CTR(c_states, "states");
	if (lo != cobd_lo && lo != bdx_lo && lo != q_lo && !(lo == wk_lo && fam != FAM_W)) {
		++*c_states;
	}
	if (dt_unk_p(v)) {
		{
			char key[64];
			snprintf(key, sizeof(key), "%s: input not accepted by the parser", fam_name[fam]);
			ex_viol(key, (double)(fam_day_p(fam) || fam == FAM_T ? in : fam == FAM_NS ? (in >> 2) / 86400 : in / 86400), "", fam == FAM_SX ? "dround -i %s 0 /1m" : NULL, "'%s' is not parsed", txt);
		}
		return;
	}
	for (int si = lo; si < hi; si++) {
		if (!specs[si].ok) {
			continue;
		}
		for (int next = 0; next < 2; next++) {
			do_round(fam, in, v, specs + si, si, next, 0);
		}
	}
	if (ex_want_sample()) {
		ex_sample("%s x %d targets (%s .. %s) x {up,down} x {-, -n}", txt, (hi - lo) / 2, specs[lo].text, specs[hi - 1].text);
	}
}


/* ------------------------------------------- several RNDSPECs in one call */
/* --help: "Multiple RNDSPECs are evaluated left to right" (dateround 2012-03-01 Sat Sep -> 2012-09-03,
 * Sep Sat -> 2012-09-01).  main() collects the specs of all arguments into one list and hands it to
 * dround(); the same is done here.  Oracle: the single-spec model applied left to right. */
struct mdef_s {
	int kind, n, down;
	int dateok;	/* applies to a date without time */
};
/* indices are part of case strings: append only */
static const struct mdef_s mdefs[] = {
	{K_WD, 6, 0, 1}, {K_WD, 1, 1, 1}, {K_MON, 9, 0, 1}, {K_MON, 2, 1, 1}, {K_DOM, 31, 0, 1}, {K_DOM, 1, 1, 1},
	{K_DOM, 15, 0, 1}, {K_MONUM, 3, 1, 1}, {K_MONUM, 6, 0, 1}, {K_COMO, 1, 0, 1}, {K_COMO, 1, 1, 1}, {K_COY, 1, 0, 1},
	{K_COY, 1, 1, 1}, {K_COMO, 3, 1, 1}, {K_COD, 1, 0, 1}, {K_COBD, 1, 0, 1},
	{K_H, 5, 0, 0}, {K_H, 23, 1, 0}, {K_H, 0, 0, 0}, {K_M, 30, 0, 0}, {K_M, 0, 1, 0}, {K_COM, 15, 0, 0},
	{K_COM, 15, 1, 0}, {K_COH, 1, 0, 0}, {K_COH, 1, 1, 0}, {K_S, 59, 0, 0},
};
#define NMDEF	((int)(sizeof(mdefs) / sizeof(*mdefs)))
static struct spec_s mspecs[NMDEF];

static void
build_mspecs(void)
{
	for (int i = 0; i < NMDEF; i++) {
		spec_make(mspecs + i, mdefs[i].kind, mdefs[i].n, mdefs[i].down);
	}
}

/* model: left to right; 0 ok, 1 skipped (why), 2 beyond the range */
static int
oracle_list(int fam, int64_t in, const int idx[], int n, int next, int64_t *out, const char **skip)
{
	int64_t cur = in;
	for (int k = 0; k < n; k++) {
		int64_t nx = NONE;
		int rc = oracle(fam, cur, mspecs + idx[k], next, &nx, skip);
		if (rc) {
			return rc;
		}
		cur = nx;
	}
	*out = cur;
	return 0;
}

static int
do_multi(int fam, int64_t in, struct dt_dt_s v, const int idx[], int n, int next, int verbose)
{
	char itxt[40], etxt[40], got[64], key[256], cas[96], cmd[160], shape[96], stxt[64];
	struct dt_dtdur_s durs[3];
	struct dt_dt_s r;
	const char *skip = NULL, *what = NULL;
	int64_t exp = NONE, obs = NONE, exp2 = NONE;
	size_t o = 0, p = 0;
	int rc, prc;
	EX_CTR(c_multi, "multi_spec_lists");
	EX_CTR(c_multi2, "multi_spec_second_passes");

	rc = oracle_list(fam, in, idx, n, next, &exp, &skip);
	if (rc == 1) {
		char sk[200];
		snprintf(sk, sizeof(sk), "skipped:multi-spec: %s", skip);
		++*ex_ctr(sk);
		if (verbose) {
			printf("  outside the property: %s\n", skip);
		}
		return 0;
	} else if (rc == 2) {
		EX_CTR(c_oor, "skipped:result beyond 1601..4095");
		++*c_oor;
		return 0;
	}
	for (int k = 0; k < n; k++) {
		durs[k] = mspecs[idx[k]].dur;
		o += (size_t)snprintf(shape + o, sizeof(shape) - o, "%s%s", k ? "," : "", kind_name[mspecs[idx[k]].kind]);
		p += (size_t)snprintf(stxt + p, sizeof(stxt) - p, "%s%s", k ? " " : "", mspecs[idx[k]].text);
	}
	r = dround(v, durs, (size_t)n, next);
	++*c_eval;
	++*c_trans;
	++*c_multi;
	memset(got, 0, sizeof(got));
	dt_strfdt(got, sizeof(got), fam_fmt[fam], r);
	prc = parse_out(got, fam, &obs);
	ex_outcome(ex_hash_mix(ex_hash(got, strlen(got)), (uint64_t)(idx[0] * 31 + idx[n - 1])));
	fmt_inst(itxt, sizeof(itxt), fam, in);
	fmt_inst(etxt, sizeof(etxt), fam, exp);
	if (exp / (fam == FAM_D ? 1 : 86400) != in / (fam == FAM_D ? 1 : 86400)) {
		++*c_nontriv;
	}
	if (prc == 1) {
		what = "prints something that is not a date/time of the input's form";
	} else if (prc == 2) {
		what = "prints a date/time that does not exist";
	} else if (obs != exp) {
		what = "result differs from applying the RNDSPECs left to right";
	} else if (!next && oracle_list(fam, exp, idx, n, 0, &exp2, &skip) == 0) {
		/* the whole list once more, on the tool's own result */
		char got2[64];
		for (int k = 0; k < n; k++) {
			durs[k] = mspecs[idx[k]].dur;
		}
		memset(got2, 0, sizeof(got2));
		dt_strfdt(got2, sizeof(got2), fam_fmt[fam], dround(r, durs, (size_t)n, 0));
		++*c_eval;
		++*c_multi2;
		if (parse_out(got2, fam, &obs) || obs != exp2) {
			what = "second application of the list differs from the model's";
			fmt_inst(etxt, sizeof(etxt), fam, exp2);
			snprintf(got, sizeof(got), "%s", got2);
		}
	}
	snprintf(cmd, sizeof(cmd), "dround %s%s -- %s", next ? "-n " : "", itxt, stxt);
	if (verbose) {
		printf("  %s: model %s, tool %s%s%s\n", cmd, etxt, got, what ? " -- " : " (agrees)", what ? what : "");
	}
	if (what) {
		snprintf(key, sizeof(key), "multi-spec %s shape=%s next=%d: %s", fam_name[fam], shape, next, what);
		snprintf(cas, sizeof(cas), "L %d %lld %d %d %d %d %d", fam, (long long)in, next, n, idx[0], n > 1 ? idx[1] : 0, n > 2 ? idx[2] : 0);
		ex_viol(key, (double)(fam == FAM_D ? in : in / 86400), cas, cmd, "%s: expected %s, got %s", cmd, etxt, got);
		if (getenv("C16_TRACE")) {
			fprintf(stderr, "FAIL %s | %s | exp %s got %s\n", cmd, what, etxt, got);
		}
		return 1;
	}
	return 0;
}

/* all lists of exactly LEN specs on one input */
static void
do_multi_input(int fam, int64_t in, int len)
{
	char txt[40];
	struct dt_dt_s v;
	int idx[3] = {0, 0, 0};
	int total = 1;

	fmt_inst(txt, sizeof(txt), fam, in);
	v = dt_strpdt(txt, NULL, NULL);
	if (dt_unk_p(v)) {
		return;
	}
	for (int k = 0; k < len; k++) {
		total *= NMDEF;
	}
	for (int code = 0; code < total; code++) {
		int x = code, ok = 1;
		for (int k = len - 1; k >= 0; k--) {
			idx[k] = x % NMDEF;
			x /= NMDEF;
			if (!mspecs[idx[k]].ok || (fam == FAM_D && !mdefs[idx[k]].dateok)) {
				ok = 0;
			}
		}
		if (!ok) {
			continue;
		}
		for (int next = 0; next < 2; next++) {
			do_multi(fam, in, v, idx, len, next, 0);
		}
	}
	if (ex_want_sample()) {
		ex_sample("%s x all lists of %d of %d RNDSPECs x {-, -n}", txt, len, NMDEF);
	}
}


/* ------------------------------------ --from-zone: argument, stdin, -E and -S */
/* one value and one spec give one answer, however the value reaches the tool.  With
 * --from-zone Z -z Z the answer is the model's rounding of the wall-clock value (the
 * argument form is pinned by test/dround.034); without -z the four forms must agree.
 * Inputs and results stay clear of the zones' transition days */
static const char *const zn[] = {"Asia/Kolkata", "Europe/Berlin", "Asia/Kathmandu", "America/New_York",
				 "Australia/Adelaide", "Pacific/Chatham", "Asia/Tokyo", "UTC"};
#define NZN	((int)(sizeof(zn) / sizeof(*zn)))
static const struct {
	int y, m, d, s;
} zin[] = {{2012, 1, 14, 85200}, {2012, 7, 7, 44384}, {2012, 2, 29, 1800}, {2012, 6, 30, 86370}, {2012, 3, 1, 2700}};
#define NZIN	((int)(sizeof(zin) / sizeof(*zin)))
static const struct mdef_s zdefs[] = {
	{K_COH, 1, 0, 0}, {K_COH, 1, 1, 0}, {K_COM, 15, 0, 0}, {K_COM, 15, 1, 0}, {K_COD, 1, 0, 0}, {K_COD, 1, 1, 0},
	{K_H, 2, 0, 0}, {K_H, 23, 1, 0}, {K_DOM, 28, 0, 0}, {K_DOM, 1, 1, 0}, {K_WD, 1, 0, 0}, {K_WD, 6, 1, 0},
	{K_MON, 2, 0, 0}, {K_MON, 11, 1, 0}, {K_COMO, 1, 0, 0}, {K_M, 30, 0, 0},
};
#define NZDEF	((int)(sizeof(zdefs) / sizeof(*zdefs)))
static const char *const zmode[] = {"argument", "stdin", "-E", "-S"};

static int
run_zone(const char *zone, int withz, const char *in, const char *spec, int next, int mode, char *out, size_t osz)
{
	const char *av[16];
	int ac = 0;
	struct fs_opts o;
	struct fs_result r;
	char buf[96];
	static const char *const env[] = {"LC_ALL=C", "TZ=UTC", NULL};
	int rc;

	memset(&o, 0, sizeof(o));
	o.env = env;
	o.now = 1330516800;
	o.timeout_s = 20;
	o.out_cap = 65536;
	av[ac++] = "dround";
	av[ac++] = "--from-zone";
	av[ac++] = zone;
	if (withz) {
		av[ac++] = "-z";
		av[ac++] = zone;
	}
	if (next) {
		av[ac++] = "-n";
	}
	if (mode == 2) {
		av[ac++] = "-E";
	} else if (mode == 3) {
		av[ac++] = "-S";
	}
	if (mode == 0) {
		av[ac++] = in;
	} else {
		snprintf(buf, sizeof(buf), mode == 3 ? "x %s y\n" : "%s\n", in);
		o.stdin_data = buf;
		o.stdin_len = strlen(buf);
	}
	av[ac++] = "--";
	av[ac++] = spec;
	fs_run(dround_main, ac, av, &o, &r);
	++*c_eval;
	rc = r.signaled ? -1 : r.status;
	snprintf(out, osz, "%.*s", (int)(r.outlen && r.out[r.outlen - 1] == '\n' ? r.outlen - 1 : r.outlen), r.out);
	if (mode == 3 && strlen(out) > 4 && !strncmp(out, "x ", 2) && !strcmp(out + strlen(out) - 2, " y")) {
		/* strip the context again */
		memmove(out, out + 2, strlen(out) - 1);
		out[strlen(out) - 2] = '\0';
	}
	fs_free(&r);
	return rc;
}

static void
do_zones(int zi, int only_in, int only_spec, int verbose)
{
	EX_CTR(c_z, "zone_mode_runs");
	for (int ii = 0; ii < NZIN; ii++) {
		int64_t in = (int64_t)rc_rd(zin[ii].y, zin[ii].m, zin[ii].d) * 86400 + zin[ii].s;
		char itxt[40];
		if (only_in >= 0 && ii != only_in) {
			continue;
		}
		fmt_inst(itxt, sizeof(itxt), FAM_DT, in);
		for (int si = 0; si < NZDEF; si++) {
			struct spec_s sp;
			if (only_spec >= 0 && si != only_spec) {
				continue;
			}
			spec_make(&sp, zdefs[si].kind, zdefs[si].n, zdefs[si].down);
			for (int next = 0; next < 2; next++) {
				for (int withz = 1; withz >= 0; withz--) {
					char ref[96] = "", got[96], etxt[40] = "", key[200], cas[64], cmd[200];
					const char *skip = NULL;
					int64_t exp = NONE;
					int have_model = withz && oracle(FAM_DT, in, &sp, next, &exp, &skip) == 0;
					if (have_model) {
						fmt_inst(etxt, sizeof(etxt), FAM_DT, exp);
					}
					for (int mode = 0; mode < 4; mode++) {
						const char *what = NULL;
						run_zone(zn[zi], withz, itxt, sp.text, next, mode, got, sizeof(got));
						++*c_z;
						++*c_trans;
						ex_outcome(ex_hash_mix(ex_hash(got, strlen(got)), (uint64_t)(mode * 7 + si)));
						if (mode == 0) {
							snprintf(ref, sizeof(ref), "%s", got);
							if (have_model && strcmp(got, etxt)) {
								what = "not the rounding of the wall-clock value";
							}
						} else if (strcmp(got, ref)) {
							what = "differs from the answer for the same value as argument";
						}
						snprintf(cmd, sizeof(cmd), "echo '%s%s%s' | dround --from-zone %s%s%s%s%s -- %s", mode == 3 ? "x " : "", itxt,
							 mode == 3 ? " y" : "", zn[zi], withz ? " -z " : "", withz ? zn[zi] : "", next ? " -n" : "",
							 mode == 2 ? " -E" : mode == 3 ? " -S" : "", sp.text);
						if (mode == 0) {
							snprintf(cmd, sizeof(cmd), "dround --from-zone %s%s%s%s %s -- %s", zn[zi], withz ? " -z " : "", withz ? zn[zi] : "",
								 next ? " -n" : "", itxt, sp.text);
						}
						if (verbose) {
							printf("  %s: '%s'%s%s (argument form '%s'%s%s)\n", cmd, got, what ? " -- " : "", what ? what : "", ref,
							       have_model ? ", model " : "", have_model ? etxt : "");
						}
						if (what) {
							snprintf(key, sizeof(key), "from-zone mode=%s target=%s -z=%s next=%d: %s", zmode[mode], kind_name[sp.kind],
								 withz ? "yes" : "no", next, what);
							snprintf(cas, sizeof(cas), "Z %d %d %d", zi, ii, si);
							ex_viol(key, (double)(in / 86400), cas, cmd, "%s: got '%s', %s '%s'", cmd, got,
								mode ? "as argument" : "model", mode ? ref : etxt);
						}
					}
				}
			}
		}
	}
}

/* ---------------------------------------------------- level M: main() refusals */
static int
run_main(const char *in, const char *spec, int next, struct fs_result *r)
{
	const char *av[8];
	int ac = 0;
	struct fs_opts o;
	static const char *const env[] = {"LC_ALL=C", "TZ=UTC", NULL};
	memset(&o, 0, sizeof(o));
	o.env = env;
	o.now = 1330516800;
	o.timeout_s = 20;
	o.out_cap = 65536;
	av[ac++] = "dround";
	if (next) {
		av[ac++] = "-n";
	}
	av[ac++] = in;
	av[ac++] = "--";
	av[ac++] = spec;
	return fs_run(dround_main, ac, av, &o, r);
}

static void
do_validation(int unit_idx, int verbose_n)
{
	/* unit_idx: 0 h, 1 m, 2 s, 3 mo(number), 4 d; plain value and co-class, N = 0..70, both signs.
	 * a plain target no instant can have (24h, 60m, 60s, 13mo) and a co-class that does not
	 * tile its super-unit must be refused (nothing printed); what is accepted must agree
	 * with the oracle on three inputs */
	static const char *const unit[] = {"h", "m", "s", "mo", "d"};
	static const int kplain[] = {K_H, K_M, K_S, K_MONUM, K_DOM};
	static const int kco[] = {K_COH, K_COM, K_COS, K_COMO, K_COD};
	static const int sup[] = {24, 60, 60, 12, 1};
	static const char *const inputs[] = {"2012-02-29T23:59:30", "2011-12-31T12:30:00", "2012-03-01T00:00:00"};
	static const int64_t in_rd_s[][4] = {{2012, 2, 29, 86370}, {2011, 12, 31, 45000}, {2012, 3, 1, 0}};
	EX_CTR(c_m, "main_runs");
	EX_CTR(c_ref, "main_refusals_as_expected");

	for (int n = 0; n <= 70; n++) {
		if (verbose_n >= 0 && n != verbose_n) {
			continue;
		}
		for (int co = 0; co < 2; co++) {
			for (int down = 0; down < 2; down++) {
				struct spec_s s;
				int kind = co ? kco[unit_idx] : kplain[unit_idx];
				int possible;
				char spec[24], key[160], cas[64];

				snprintf(spec, sizeof(spec), "%s%s%d%s", co ? "/" : "", down ? "-" : "", n, unit[unit_idx]);
				if (!co) {
					possible = kind == K_H ? n < 24 : kind == K_MONUM ? (n >= 1 && n <= 12)
						: kind == K_DOM ? (n >= 1 && n <= 31) : n < 60;
				} else {
					possible = n >= 1 && sup[unit_idx] % n == 0;
					if (kind == K_COMO && n >= 1 && 12 % n != 0) {
						/* the tool tiles a millennium (12000 months) */
						possible = -1;
					}
				}
				if (!co && kind == K_DOM && (n == 0 || n > 31)) {
					/* "0d": help is silent; 32d and up: under the clamped reading
					 * of the statement this is the month's last day, not an impossible target */
					possible = -1;
				}
				spec_make(&s, kind, n, down);
				for (int ii = 0; ii < 3; ii++) {
					for (int next = 0; next < 2; next++) {
						struct fs_result r;
						int64_t in = (int64_t)rc_rd((int)in_rd_s[ii][0], (int)in_rd_s[ii][1], (int)in_rd_s[ii][2]) * 86400 + in_rd_s[ii][3];
						int64_t exp = NONE, obs = NONE;
						const char *skip = NULL, *what = NULL;
						char got[64] = "", etxt[40] = "-";

						run_main(inputs[ii], spec, next, &r);
						++*c_m;
						++*c_eval;
						snprintf(got, sizeof(got), "%.*s", (int)(r.outlen && r.out[r.outlen - 1] == '\n' ? r.outlen - 1 : r.outlen), r.out);
						ex_outcome(ex_hash_mix(ex_hash(got, strlen(got)), (uint64_t)r.status));
						if (r.signaled) {
							what = "main() killed by a signal";
						} else if (possible == 0) {
							if (r.outlen) {
								what = "impossible target accepted";
							} else {
								++*c_ref;
							}
						} else if (possible == 1 && s.ok && oracle(FAM_DT, in, &s, next, &exp, &skip) == 0) {
							fmt_inst(etxt, sizeof(etxt), FAM_DT, exp);
							if (parse_out(got, FAM_DT, &obs) || obs != exp) {
								what = "main() result differs from the model";
							}
						} else {
							EX_CTR(c_sk, "skipped:validation case with open reading (0d, Nd with N > 31, /Nmo with N not dividing 12, day-of-month readings differ)");
							++*c_sk;
						}
						if (verbose_n >= 0) {
							printf("  dround %s%s -- %s: model %s, tool '%s' [%s]%s%s\n", next ? "-n " : "", inputs[ii], spec,
							       possible == 0 ? "refusal" : etxt, got, fs_ending(&r), what ? " -- " : "", what ? what : "");
						}
						if (what) {
							char cmd[128];
							snprintf(cmd, sizeof(cmd), "dround %s%s -- %s", next ? "-n " : "", inputs[ii], spec);
							snprintf(key, sizeof(key), "main %s%s%s dir=%s next=%d: %s", co ? "/N" : "N", unit[unit_idx], "",
								 down ? "down" : "up", next, what);
							snprintf(cas, sizeof(cas), "M %d %d", unit_idx, n);
							ex_viol(key, (double)n, cas, cmd, "%s: expected %s, got '%s' [%s]", cmd,
								possible == 0 ? "a refusal (no output)" : etxt, got, fs_ending(&r));
						}
						fs_free(&r);
					}
				}
			}
		}
	}
}

/* ------------------------------------------------- level B: the binary on stdin */
static const char *const bind_specs[][2] = {
	/* {option, spec} */
	{"", "Mon"}, {"-n", "Thu"}, {"", "-Sun"}, {"", "Feb"}, {"-n", "-Oct"}, {"", "31d"}, {"-n", "1d"}, {"", "-15d"},
	{"", "/1mo"}, {"-n", "/-3mo"}, {"", "/1y"}, {"-n", "/-1y"},
};
#define NBIND	((int)(sizeof(bind_specs) / sizeof(*bind_specs)))

static void
do_binding(int k, int rd_lo, int rd_hi)
{
	char fin[512], fout[512], cmd[2048], line[128], got[64], key[160], cas[64];
	const char *rundir = getenv("VERIF_RUNDIR");
	FILE *f;
	int rd, nlines = 0;
	struct __strpdtdur_st_s st = {0};
	int next = bind_specs[k][0][0] != '\0';
	EX_CTR(c_bind, "cli_binding_replays");
	EX_CTR(c_bindln, "cli_binding_lines");

	if (rundir == NULL || ex.tree == NULL) {
		return;
	}
	if (dt_io_strpdtrnd(&st, bind_specs[k][1]) < 0 || st.ndurs != 1U) {
		return;
	}
	snprintf(fin, sizeof(fin), "%s/c16bind.%d.in", rundir, k);
	snprintf(fout, sizeof(fout), "%s/c16bind.%d.out", rundir, k);
	if ((f = fopen(fin, "w")) == NULL) {
		return;
	}
	for (rd = rd_lo; rd < rd_hi; rd++) {
		const struct rc_day *p = rc_get(rd);
		fprintf(f, "%04d-%02d-%02d\n", p->y, p->m, p->d);
	}
	fclose(f);
	snprintf(cmd, sizeof(cmd), "'%s/src/dround' %s -- '%s' < '%s' > '%s' 2>/dev/null", ex.tree, bind_specs[k][0], bind_specs[k][1], fin, fout);
	if (system(cmd)) {
		;
	}
	++*c_bind;
	snprintf(key, sizeof(key), "binding dround %s %s", bind_specs[k][0], bind_specs[k][1]);
	if ((f = fopen(fout, "r")) == NULL) {
		ex_viol(key, 0, "", cmd, "no output from the binary");
		return;
	}
	for (rd = rd_lo; rd < rd_hi && fgets(line, sizeof(line), f); rd++) {
		char txt[40];
		struct dt_dt_s v = parse_in(FAM_D, rd, txt, sizeof(txt));
		struct dt_dtdur_s dur = st.durs[0];
		line[strcspn(line, "\n")] = '\0';
		nlines++;
		memset(got, 0, sizeof(got));
		dt_strfdt(got, sizeof(got), fam_fmt[FAM_D], dround(v, &dur, 1U, next));
		++*c_bindln;
		if (strcmp(got, line)) {
			snprintf(cas, sizeof(cas), "B %d %d", k, rd);
			ex_viol(key, rd, cas, cmd, "line %d ('%s'): binary printed '%s', level-S exploration observed '%s'", rd - rd_lo + 1, txt, line, got);
		}
	}
	fclose(f);
	if (nlines != rd_hi - rd_lo) {
		ex_viol(key, nlines, "", cmd, "binary printed %d lines for %d input lines", nlines, rd_hi - rd_lo);
	}
	unlink(fin);
	unlink(fout);
	__strpdtdur_free(&st);
}

/* boundary days for the date-time family */
static const int bdays[][3] = {
	{1601, 1, 1}, {1601, 1, 2}, {1899, 12, 31}, {1900, 2, 28}, {1900, 3, 1}, {1969, 12, 31}, {1970, 1, 1}, {1999, 12, 31},
	{2000, 1, 1}, {2000, 2, 28}, {2000, 2, 29}, {2000, 3, 1}, {2011, 12, 31}, {2012, 1, 1}, {2012, 1, 31}, {2012, 2, 28},
	{2012, 2, 29}, {2012, 3, 1}, {2012, 3, 31}, {2012, 4, 30}, {2012, 12, 30}, {2012, 12, 31}, {2013, 1, 1}, {2013, 2, 28},
	{2038, 1, 19}, {2099, 12, 31}, {2100, 2, 28}, {4095, 12, 1}, {4095, 12, 30}, {4095, 12, 31},
};
#define NBDAYS	((int)(sizeof(bdays) / sizeof(*bdays)))
static const int T7[] = {0, 1, 3599, 3600, 43199, 43200, 86399};
/* times for the multi-spec lists */
static const int TM7[] = {0, 1, 3599, 43200, 86340, 86370, 86399};

int
main(int argc, char *argv[])
{
	uint64_t slice = 0;
	int ylo, yhi;
	EX_CTR(c_traces, "traces");

	c_eval = ex_ctr("evaluations");
	c_trans = ex_ctr("transitions");
	c_nontriv = ex_ctr("nontrivial");
	c_idem = ex_ctr("idempotence_checks");
	c_strict = ex_ctr("strict_next_checks");
	ex_init(argc, argv);
	rc_selfcheck();
	{
		uintptr_t a = (uintptr_t)rc_tab & ~(uintptr_t)4095;
		uintptr_t e = ((uintptr_t)rc_tab + sizeof(*rc_tab) * RC_NDAYS) & ~(uintptr_t)4095;
		madvise((void*)(a + 4096), e - (a + 4096), MADV_DONTFORK);
	}
	build_specs();
	build_mspecs();

	if (ex.cas) {
		int fam, si, next;
		long long in;
		if (ex.cas[0] == 'M') {
			int u, n;
			uint64_t before;
			if (sscanf(ex.cas + 1, "%d %d", &u, &n) != 2 || u < 0 || u > 4) {
				return ex_replay_result(1, "bad case");
			}
			before = ex.nviol;
			do_validation(u, n);
			return ex_replay_result(ex.nviol != before, "main() validation unit %d N=%d", u, n);
		}
		if (ex.cas[0] == 'Z') {
			int zi, ii, si;
			uint64_t before = ex.nviol;
			if (sscanf(ex.cas + 1, "%d %d %d", &zi, &ii, &si) != 3 || zi < 0 || zi >= NZN || ii < 0 || ii >= NZIN || si < 0 || si >= NZDEF) {
				return ex_replay_result(1, "bad case");
			}
			do_zones(zi, ii, si, 1);
			return ex_replay_result(ex.nviol != before, "%s", ex.cas);
		}
		if (ex.cas[0] == 'L') {
			int fam, next, n, idx[3];
			long long in;
			char txt[40];
			if (sscanf(ex.cas + 1, "%d %lld %d %d %d %d %d", &fam, &in, &next, &n, idx, idx + 1, idx + 2) != 7 ||
			    (fam != FAM_D && fam != FAM_DT) || n < 1 || n > 3 || idx[0] < 0 || idx[0] >= NMDEF ||
			    idx[1] < 0 || idx[1] >= NMDEF || idx[2] < 0 || idx[2] >= NMDEF) {
				return ex_replay_result(1, "bad case");
			}
			fmt_inst(txt, sizeof(txt), fam, in);
			return ex_replay_result(do_multi(fam, in, dt_strpdt(txt, NULL, NULL), idx, n, next, 1), "%s", ex.cas);
		}
		if (ex.cas[0] == 'B') {
			int k, rd;
			char txt[40], cmd[1024], line[128] = "", got[64] = "";
			struct __strpdtdur_st_s st = {0};
			FILE *pp;
			if (sscanf(ex.cas + 1, "%d %d", &k, &rd) != 2 || k < 0 || k >= NBIND || !rd_ok(rd)) {
				return ex_replay_result(1, "bad case");
			}
			fmt_inst(txt, sizeof(txt), FAM_D, rd);
			dt_io_strpdtrnd(&st, bind_specs[k][1]);
			{
				struct dt_dtdur_s dur = st.durs[0];
				dt_strfdt(got, sizeof(got), fam_fmt[FAM_D], dround(dt_strpdt(txt, NULL, NULL), &dur, 1U, bind_specs[k][0][0] != '\0'));
			}
			snprintf(cmd, sizeof(cmd), "echo '%s' | '%s/src/dround' %s -- '%s' 2>/dev/null", txt, ex.tree, bind_specs[k][0], bind_specs[k][1]);
			if ((pp = popen(cmd, "r"))) {
				if (fgets(line, sizeof(line), pp)) {
					line[strcspn(line, "\n")] = '\0';
				}
				pclose(pp);
			}
			printf("  binary '%s' level S '%s'\n", line, got);
			return ex_replay_result(strcmp(line, got) != 0, "binding %s %s on %s", bind_specs[k][0], bind_specs[k][1], txt);
		}
		if (sscanf(ex.cas, "%d %lld %d %d", &fam, &in, &si, &next) != 4 || fam < 0 || fam >= NFAM || si < 0 || si >= nspec) {
			return ex_replay_result(1, "bad case string '%s'", ex.cas);
		}
		{
			char txt[40];
			struct dt_dt_s v = parse_in(fam, in, txt, sizeof(txt));
			int fails = do_round(fam, in, v, specs + si, si, next, 1);
			return ex_replay_result(fails, "%s", ex.cas);
		}
	}

	if (ex.thorough) {
		ylo = RC_MIN_YEAR, yhi = RC_MAX_YEAR;
	} else {
		ylo = 1801, yhi = 2200;
	}
	ex_meta("rule", "level S: every RNDSPEC is parsed by dround's own dt_io_strpdtrnd() and applied by its own dround() as main() does; the result is "
		"observed as printed by dt_strfdt. Oracle (brute force on the reference model): date targets walk the successor machine day by day on the "
		"requested side until the weekday / month / day-of-month equals the target (month targets: with the input's day of month, clamped to the "
		"month's end); hour/minute/second values walk in steps of that unit (finer fields stay) on the integer line of seconds; time-only "
		"values wrap at midnight; co-classes /N: nearest grid point with finer fields zero (sweep tables over the second line / the day line, "
		"month grids aligned to the year, year grids to year 0); without -n an input on the target is unchanged, with -n the result is strictly "
		"on the requested side; rounding the result again (no -n) must not move it. Readings: a day-of-month target beyond a month's end is judged "
		"only when the exact and the clamped reading agree; several RNDSPECs in one call: the single-spec model applied left to right (--help), and the whole "
		"list once more on the tool's own result; Nb (business day of the month, 1..20) on values held as business day of the month and /1b (grid = Mon-Fri) "
		"are judged; Nw (ISO week number 1..53, accepted by the tool and pinned by test/dround.030) on week dates: nearest date on the requested side in week N with the weekday kept, week 53 of a 52-week year judged only where the exact and the clamped reading agree; dates held as week date, year-day, n-th weekday of the month, Lilian day number or business day of the month and epoch values: the same model as for ymd dates (quantifier: all dates), printed in the input's calendar; a refusal (no value) is accepted there, an ignored target is not; sub-second inputs: grid points are whole seconds, value targets keep the fraction; D T24:00:00 denotes 00:00:00 of the following day (C11; dadd, dseq, dsort read it so): the answer is the one for that instant, the result may be spelt either way; where the day-of-month / week-53 / business-day readings differ the target is open but rounding twice must still equal rounding once; Nq: judged is what every reading shares (in the quarter already: unchanged; else a day of the nearest quarter N on the requested side with day of month and time kept), which month of the quarter is open; /1w (a week grid is nowhere documented) not enumerated; --from-zone: the value is rounded in the zone's wall-clock time whichever way it is given (argument form pinned by test/dround.034); not enumerated: Ny (refused by the tool: years do not recur), "
		"Nw (not in the help's list of suffixes), the documented spelling `bd' (rejected by the parser, see notes); /Nmo only for N | 12; results beyond 1601..4095 skipped. non-trivial = the rounded value is in another month (dates), on "
		"another day (date-times), or beyond midnight (times)");
	ex_meta("bound", "%s: dates: all days %d-01-01..%d-12-31 x {7 weekday names, 12 month names, 12 month numbers, day-of-month 1..31, /1d, /{1,2,3,4,6,12}mo, "
		"/{1,2,4,5,10,100}y} x {up,down} x {-,-n}; times: all 86,400 seconds x {0..23h, 0..59m, 0..59s, /{1,2,3,4,6,8,12,24}h, /{12 divisors of 60}m, "
		"/{12 divisors}s} x {up,down} x {-,-n}; date-times: %d boundary days x 7 times x all of the above; the same instants given as Unix epoch seconds (-i %%s) x the /N time targets; main(): N = 0..70 x {h,m,s,mo,d} x {N, /N} x "
		"{up,down} x {-,-n} x 3 inputs; lists: all ordered pairs%s over %d RNDSPECs of mixed kinds x {-,-n} on %d days (the boundary days before 4094) x 7 times (date-times) and on the days alone "
		"(date specs only); bizda: every Mon-Fri day of the tier x 1..20b x {up,down} x {-,-n}; week dates: every day of the tier x 1..53w x {up,down} x {-,-n}, observed as week date and as %%F; dates held as ywd / yd / ymcw / ldn / bizda: every day of %d years x all date targets; epoch values also x {Mon Feb 3mo 15d 5h 30m 59s /1d /Nmo /Ny /1b}; date-times with .5 / .000000001 / .999999999 s on the boundary days x all targets; 21b..23b on all Mon-Fri days; 1w..53w also on the dates of those years written as ymd / yd / ymcw / ldn / bizda and on the boundary date-times; 1q..4q on those ymd dates and date-times; the boundary days spelt D T24:00:00 x all targets; --from-zone Z [-z Z] for %d zones (whole-hour, half-hour, 45-minute offsets, DST) x 5 date-times x 16 specs x {-,-n} x {argument, stdin, -E, -S}; binding: %d RNDSPECs x all days of the tier on stdin of the dround binary",
		ex.thorough ? "thorough" : "quick", ylo, yhi, NBDAYS, ex.thorough ? " and triples" : "", NMDEF, NBDAYS - 3, ex.thorough ? 24 : 2, ex.thorough ? NZN : 4, NBIND);
	ex_meta("binding", "dround binary of the same build reading all days of the tier from stdin for %d (option, RNDSPEC) pairs, byte-compared with the level-S observation", NBIND);

	/* dates: one slice per year */
	for (int y = ylo; y <= yhi && !ex_expired(); y++, slice++) {
		if (!ex_mine(slice)) {
			continue;
		}
		for (int rd = rc_yearstart[y]; rd < rc_yearstart[y + 1]; rd++) {
			do_input(FAM_D, rd, date_lo, date_hi);
			do_input(FAM_D, rd, cobd_lo, cobd_hi);
			if (rc_get(rd)->isbd) {
				do_input(FAM_B, rd, bd_lo, bd_hi);
				do_input(FAM_B, rd, bdx_lo, bdx_hi);
			}
			do_input(FAM_W, rd, wk_lo, wk_hi);
		}
		++*c_traces;
	}
	/* times: one slice per 10 minutes */
	for (int t0 = 0; t0 < 86400 && !ex_expired(); t0 += 600, slice++) {
		if (!ex_mine(slice)) {
			continue;
		}
		for (int t = t0; t < t0 + 600; t++) {
			do_input(FAM_T, t, time_lo, time_hi);
		}
		++*c_traces;
	}
	/* date-times */
	for (int b = 0; b < NBDAYS && !ex_expired(); b++, slice++) {
		if (!ex_mine(slice)) {
			continue;
		}
		for (int k = 0; k < 7; k++) {
			int64_t in = (int64_t)rc_rd(bdays[b][0], bdays[b][1], bdays[b][2]) * 86400 + T7[k];
			do_input(FAM_DT, in, 0, bd_lo);
			do_input(FAM_DT, in, cobd_lo, cobd_hi);
			do_input(FAM_DT, in, wk_lo, wk_hi);
			do_input(FAM_DT, in, q_lo, q_hi);
		}
		++*c_traces;
	}
	/* epoch values */
	for (int b = 0; b < NBDAYS && !ex_expired(); b++, slice++) {
		if (!ex_mine(slice)) {
			continue;
		}
		for (int k = 0; k < 7; k++) {
			int64_t in = (int64_t)rc_rd(bdays[b][0], bdays[b][1], bdays[b][2]) * 86400 + T7[k];
			do_input(FAM_SX, in, time_lo, time_hi);
			/* targets the tool has no epoch arithmetic for: the model's result or a refusal */
			for (int si = 0; si < nspec; si++) {
				const struct spec_s *sp = specs + si;
				if ((sp->kind == K_WD && sp->n == 1) || (sp->kind == K_MON && sp->n == 2) || (sp->kind == K_MONUM && sp->n == 3) ||
				    (sp->kind == K_DOM && sp->n == 15) || (sp->kind == K_H && sp->n == 5) || (sp->kind == K_M && sp->n == 30) ||
				    (sp->kind == K_S && sp->n == 59) || sp->kind == K_COD || sp->kind == K_COMO || sp->kind == K_COY || sp->kind == K_COBD) {
					if (si >= time_lo && si < time_hi) {
						continue;
					}
					do_input(FAM_SX, in, si, si + 1);
				}
			}
		}
		++*c_traces;
	}
	/* dates held in another calendar: all date targets */
	{
		static const int hy_t[] = {1897, 1898, 1899, 1900, 1901, 1902, 1903, 1904, 1997, 1998, 1999, 2000, 2001, 2002, 2003, 2004,
					   2093, 2094, 2095, 2096, 2097, 2098, 2099, 2100};
		static const int hy_q[] = {2011, 2012};
		static const int hfam[] = {FAM_W, FAM_YD, FAM_YMCW, FAM_LDN, FAM_B};
		const int *hy = ex.thorough ? hy_t : hy_q;
		int nhy = ex.thorough ? 24 : 2;
		for (int yi = 0; yi < nhy && !ex_expired(); yi++) {
			for (int hi = 0; hi < 5 && !ex_expired(); hi++, slice++) {
				if (!ex_mine(slice)) {
					continue;
				}
				for (int rd = rc_yearstart[hy[yi]]; rd < rc_yearstart[hy[yi] + 1]; rd++) {
					if (hfam[hi] == FAM_B && !rc_get(rd)->isbd) {
						continue;
					}
					do_input(hfam[hi], rd, date_lo, date_hi);
					do_input(hfam[hi], rd, cobd_lo, cobd_hi);
					if (hfam[hi] != FAM_W) {
						/* week numbers on dates not written as week dates */
						do_input(hfam[hi], rd, wk_lo, wk_hi);
					} else {
						/* the same years written as ymd: week numbers and quarters */
						do_input(FAM_D, rd, wk_lo, wk_hi);
						do_input(FAM_D, rd, q_lo, q_hi);
					}
				}
				++*c_traces;
			}
		}
	}
	/* date-times with a sub-second part */
	for (int b = 0; b < NBDAYS && !ex_expired(); b++, slice++) {
		if (!ex_mine(slice)) {
			continue;
		}
		if (bdays[b][0] >= 4094) {
			/* would only repeat the known range finding (day counts above 910674) */
			continue;
		}
		for (int k = 0; k < 7; k++) {
			for (int f = 0; f < 3; f++) {
				int64_t in = (((int64_t)rc_rd(bdays[b][0], bdays[b][1], bdays[b][2]) * 86400 + T7[k]) << 2) | f;
				do_input(FAM_NS, in, 0, bd_lo);
				do_input(FAM_NS, in, cobd_lo, cobd_hi);
			}
		}
		++*c_traces;
	}
	/* date-times spelt D T24:00:00 */
	for (int b = 0; b < NBDAYS && !ex_expired(); b++, slice++) {
		int64_t in;
		if (!ex_mine(slice) || bdays[b][0] >= 4094) {
			continue;
		}
		in = ((int64_t)rc_rd(bdays[b][0], bdays[b][1], bdays[b][2]) + 1) * 86400;
		do_input(FAM_M24, in, 0, bd_lo);
		do_input(FAM_M24, in, cobd_lo, cobd_hi);
		do_input(FAM_M24, in, wk_lo, wk_hi);
		do_input(FAM_M24, in, q_lo, q_hi);
		++*c_traces;
	}
	/* several RNDSPECs in one call: pairs (quick) / pairs and triples (thorough) */
	for (int b = 0; b < NBDAYS && !ex_expired(); b++) {
		for (int k = 0; k < 8 && !ex_expired(); k++, slice++) {
			int rd = rc_rd(bdays[b][0], bdays[b][1], bdays[b][2]);
			if (!ex_mine(slice)) {
				continue;
			}
			if (bdays[b][0] >= 4094) {
				/* every list with a weekday or /1b element would only repeat the known range
				 * finding there (day counts above 910674, judged by the single-spec part) */
				continue;
			}
			for (int len = 2; len <= (ex.thorough ? 3 : 2); len++) {
				if (k < 7) {
					do_multi_input(FAM_DT, (int64_t)rd * 86400 + TM7[k], len);
				} else {
					do_multi_input(FAM_D, rd, len);
				}
			}
			++*c_traces;
		}
	}
	/* --from-zone through argument, stdin, -E, -S */
	for (int zi = 0; zi < (ex.thorough ? NZN : 4) && !ex_expired(); zi++, slice++) {
		if (ex_mine(slice)) {
			do_zones(zi, -1, -1, 0);
			++*c_traces;
		}
	}
	/* main() */
	for (int u = 0; u < 5 && !ex_expired(); u++, slice++) {
		if (ex_mine(slice)) {
			do_validation(u, -1);
		}
	}
	/* binary */
	for (int k = 0; k < NBIND && !ex_expired(); k++, slice++) {
		if (ex_mine(slice)) {
			do_binding(k, rc_yearstart[ylo], rc_yearstart[yhi + 1]);
		}
	}
	return ex_finish();
}
