/* c19_iozone.c -- C19, MAP:KEY resolution and path building (src/dt-io-zone.c:
 * dt_io_zone, find_tzmap) with long map names and long TZMAP_DIR values.
 *
 * Level M: dconv's own main() in a forked child (forksrv.h), asan variant, argv and
 * environment strings in exact-size heap blocks.  A two-key map is compiled at start-up
 * by the tree's own `lib/tzmap cc' into the run directory under a 1-byte and a 249-byte
 * name (the longest a file name allows).  Enumerated:
 *   map name  in {the two real maps, absent names of 1, 250..262 and 4085..4100 bytes}
 *   TZMAP_DIR in {unset, the run directory, the run directory padded with "/." to every
 *                 length 250..262 and 4000..4100, a non-existent name of those lengths}
 *   key       in {FRA (present), ZZZ (absent)}
 * Oracle: the run ends by exit (no signal, no time-out), stderr carries no
 * AddressSanitizer report, and stdout is either the correct conversion (the map resolves
 * FRA to Europe/Berlin) or empty (clean failure) -- never a conversion with another zone. */
#if defined HAVE_CONFIG_H
# include "config.h"
#endif
#define main c19_dconv_main
#include "dconv.c"
#undef main

#include "impl.h"
#include "explore.h"
#include "forksrv.h"
#include <sys/stat.h>

static const int name_lens[] = {1, 250, 251, 252, 253, 254, 255, 256, 257, 258, 259, 260, 261, 262,
	4085, 4086, 4087, 4088, 4089, 4090, 4091, 4092, 4093, 4094, 4095, 4096, 4097, 4098, 4099, 4100};
#define NNAMELEN	((int)(sizeof(name_lens) / sizeof(*name_lens)))
/* map index: 0 = real 1-byte name "m", 1 = real 249-byte name, 2.. = absent names ('q' x len) */
#define NMAPS	(2 + NNAMELEN)

static int dir_lens[2 + 13 + 101];
static int ndirlens;
/* dir index: 0 = unset, 1 = run directory as is, then padded real (one per length), then non-existent (one per length) */
#define NDIRS	(2 + 2 * ndirlens)

static char rundir[4200];
static size_t rundir_len;

static void
mk_map_name(int mi, char *buf, size_t bsz)
{
	size_t n = mi == 0 ? 1 : mi == 1 ? 249 : (size_t)name_lens[mi - 2];
	if (n >= bsz) {
		n = bsz - 1;
	}
	memset(buf, mi < 2 ? 'm' : 'q', n);
	buf[n] = '\0';
}

/* returns 0 if that directory value cannot be built (shorter than the run directory) */
static int
mk_dir(int di, char *buf, size_t bsz)
{
	int L;
	if (di == 0) {
		*buf = '\0';
		return 1;
	}
	if (di == 1) {
		snprintf(buf, bsz, "%s", rundir);
		return 1;
	}
	if (di < 2 + ndirlens) {
		size_t n;
		L = dir_lens[di - 2];
		if ((size_t)L < rundir_len || (size_t)L >= bsz) {
			return 0;
		}
		memcpy(buf, rundir, rundir_len);
		n = rundir_len;
		while (n + 2 <= (size_t)L) {
			buf[n++] = '/';
			buf[n++] = '.';
		}
		if (n < (size_t)L) {
			buf[n++] = '/';
		}
		buf[n] = '\0';
		return 1;
	}
	L = dir_lens[di - 2 - ndirlens];
	if ((size_t)L >= bsz) {
		return 0;
	}
	memset(buf, 'd', (size_t)L);
	buf[0] = '/';
	buf[L] = '\0';
	return 1;
}

static int g_replay;

static int
one(int mi, int di, int ki)
{
	static char name[4200], dir[4400], spec[4300], envdir[4500];
	const char *argv[6];
	const char *env[4];
	struct fs_opts fo;
	struct fs_result r;
	char key[200], cas[64];
	const char *mclass = mi == 0 ? "real-1-byte" : mi == 1 ? "real-249-bytes" : name_lens[mi - 2] < 4000 ? "absent-250..262" : name_lens[mi - 2] == 1 ? "absent-1-byte" : "absent-4085..4100";
	const char *dclass = di == 0 ? "unset" : di == 1 ? "rundir" : di < 2 + ndirlens ? "padded-real" : "nonexistent";
	int bad = 0, n = 0, dl;
	EX_CTR(c_eval, "evaluations");
	EX_CTR(c_trans, "transitions");
	EX_CTR(c_skip, "skipped:directory value shorter than the run directory itself");
	EX_CTR(c_resolved, "runs_that_resolve_the_key");
	EX_CTR(c_nontriv, "nontrivial");

	if (mi >= 2 && name_lens[mi - 2] == 1) {
		mclass = "absent-1-byte";
	}
	mk_map_name(mi, name, sizeof(name));
	if (!mk_dir(di, dir, sizeof(dir))) {
		++*c_skip;
		return 0;
	}
	dl = (int)strlen(dir);
	snprintf(spec, sizeof(spec), "%s:%s", name, ki ? "ZZZ" : "FRA");
	argv[n++] = "dconv";
	argv[n++] = "--zone";
	argv[n++] = spec;
	argv[n++] = "2012-01-01T12:00:00";
	env[0] = "LC_ALL=C";
	env[1] = NULL;
	if (di) {
		snprintf(envdir, sizeof(envdir), "TZMAP_DIR=%s", dir);
		env[1] = envdir;
		env[2] = NULL;
	}
	memset(&fo, 0, sizeof(fo));
	fo.env = env;
	fo.now = 1330000000LL;
	fo.timeout_s = 20;
	fs_run(c19_dconv_main, n, argv, &fo, &r);
	++*c_eval;
	++*c_trans;
	if (dl + 1 + (int)strlen(name) + 6 >= 250) {
		/* the path being built comes near or beyond a buffer size */
		++*c_nontriv;
	}
	snprintf(cas, sizeof(cas), "%d %d %d", mi, di, ki);
	ex_outcome(ex_hash_mix(ex_hash(r.out, r.outlen), (uint64_t)(r.exited ? r.status : 1000 + r.sig)));
	if (r.signaled) {
		snprintf(key, sizeof(key), "iozone %s map=%s dir=%s", r.timed_out ? "does-not-terminate" : "fatal-signal", mclass, dclass);
		ex_viol(key, di >= 2 ? dl : (int)strlen(name), cas, NULL, "dconv --zone <%zu-byte map name>:%s with TZMAP_DIR of %d bytes: %s",
			strlen(name), ki ? "ZZZ" : "FRA", dl, fs_ending(&r));
		bad = 1;
	} else if (r.err && strstr(r.err, "AddressSanitizer")) {
		char sum[120] = "", *p = strstr(r.err, "AddressSanitizer: ");
		if (p) {
			snprintf(sum, sizeof(sum), "%.60s", p + 18);
			if (strpbrk(sum, " \n")) {
				*strpbrk(sum, " \n") = '\0';
			}
		}
		snprintf(key, sizeof(key), "iozone asan:%s%s map=%s dir=%s", sum, strstr(r.err, "WRITE of size") ? " WRITE" : strstr(r.err, "READ of size") ? " READ" : "",
			 mclass, dclass);
		ex_viol(key, di >= 2 ? dl : (int)strlen(name), cas, NULL, "dconv --zone <%zu-byte map name>:%s with TZMAP_DIR of %d bytes: AddressSanitizer reports %s (exit %d)",
			strlen(name), ki ? "ZZZ" : "FRA", dl, sum, r.status);
		bad = 1;
	} else if (r.outlen) {
		/* something was converted: only the right zone will do */
		if (ki == 0 && mi < 2 && !strcmp(r.out, "2012-01-01T13:00:00\n")) {
			++*c_resolved;
		} else {
			snprintf(key, sizeof(key), "iozone wrong-output map=%s dir=%s key=%s", mclass, dclass, ki ? "absent" : "present");
			ex_viol(key, di >= 2 ? dl : (int)strlen(name), cas, NULL, "dconv --zone <%zu-byte map name>:%s with TZMAP_DIR of %d bytes prints '%.40s'",
				strlen(name), ki ? "ZZZ" : "FRA", dl, r.out);
			bad = 1;
		}
	}
	if (g_replay) {
		printf("  map name %zu bytes, TZMAP_DIR %d bytes (%s), key %s: %s, stdout '%.30s', stderr %zu bytes%s\n", strlen(name), dl, dclass, ki ? "ZZZ" : "FRA",
		       fs_ending(&r), r.out, r.errlen, bad ? "  <-- FAIL" : "");
	}
	fs_free(&r);
	return bad;
}

int
main(int argc, char *argv[])
{
	EX_CTR(c_states, "states");
	EX_CTR(c_traces, "traces");
	const char *rd = getenv("VERIF_RUNDIR");
	char cmd[10000], name[300];

	ex_init(argc, argv);
	for (int l = 250; l <= 262; l++) {
		dir_lens[ndirlens++] = l;
	}
	for (int l = 4000; l <= 4100; l++) {
		dir_lens[ndirlens++] = l;
	}
	/* the maps live in a directory of this process */
	snprintf(rundir, sizeof(rundir), "%s/c19io.%07d", rd ? rd : "/tmp", (int)getpid() % 10000000);
	rundir_len = strlen(rundir);
	if (ex.tree == NULL) {
		fprintf(stderr, "c19_iozone: no --tree\n");
		return 3;
	}
	mkdir(rundir, 0700);
	snprintf(cmd, sizeof(cmd), "printf 'FRA\\tEurope/Berlin\\nJFK\\tAmerica/New_York\\n' > '%s/src' && '%s/lib/tzmap' cc -o '%s/m.tzmcc' '%s/src' 2>/dev/null",
		 rundir, ex.tree, rundir, rundir);
	if (system(cmd) != 0) {
		fprintf(stderr, "c19_iozone: cannot compile the test map with %s/lib/tzmap\n", ex.tree);
		return 3;
	}
	mk_map_name(1, name, sizeof(name));
	snprintf(cmd, sizeof(cmd), "cp '%s/m.tzmcc' '%s/%s.tzmcc'", rundir, rundir, name);
	if (system(cmd) != 0) {
		return 3;
	}

	if (ex.cas) {
		int mi, di, ki, bad;
		if (sscanf(ex.cas, "%d %d %d", &mi, &di, &ki) != 3 || mi < 0 || mi >= NMAPS || di < 0 || di >= NDIRS || ki < 0 || ki > 1) {
			return ex_replay_result(1, "bad case");
		}
		g_replay = 1;
		bad = one(mi, di, ki);
		snprintf(cmd, sizeof(cmd), "rm -rf '%s'", rundir);
		if (system(cmd)) {
			;
		}
		return ex_replay_result(bad, "%s", ex.cas);
	}

	ex_meta("rule", "MAP:KEY through dconv's main() in a forked child (asan build): map names {a real 1-byte and a real 249-byte map compiled by the tree's tzmap cc; absent names of "
		"1, 250..262, 4085..4100 bytes} x TZMAP_DIR {unset, run directory, run directory padded with '/.' to every length 250..262 and 4000..4100, non-existent names of "
		"those lengths} x key {present, absent}; oracle: ends by exit, no AddressSanitizer report on stderr, stdout empty or the correct conversion. "
		"non-trivial = runs whose directory + name + suffix is >= 250 bytes");
	ex_meta("bound", "complete product (both tiers): %d map names x %d directory values x 2 keys", NMAPS, NDIRS);

	for (int mi = 0; mi < NMAPS && !ex_expired(); mi++) {
		for (int di = 0; di < NDIRS; di++) {
			if (!ex_mine((uint64_t)(mi * NDIRS + di))) {
				continue;
			}
			one(mi, di, 0);
			one(mi, di, 1);
			++*c_states;
			++*c_traces;
			if (ex_want_sample()) {
				char d[4400], nm[4200];
				mk_map_name(mi, nm, sizeof(nm));
				if (mk_dir(di, d, sizeof(d))) {
					ex_sample("dconv --zone <%zu-byte map name>:FRA|ZZZ with TZMAP_DIR of %zu bytes", strlen(nm), strlen(d));
				}
			}
		}
	}
	snprintf(cmd, sizeof(cmd), "rm -rf '%s'", rundir);
	if (system(cmd)) {
		;
	}
	return ex_finish();
}
