/* c13_zifcache.c -- C13 (a): a zone conversion gives the same answer regardless of
 * which instants were converted earlier with the same handle.
 *
 * Form B (DESIGN.md §2, §6 C13): explicit-state closure over the REAL hidden state,
 * struct zif_s.cache = (prev, next, trno, offs), read out of the handle (lib/tzraw.c is
 * included into this TU).  Per zone file:
 *   alphabet  = for every range of the table: its first instant, one instant strictly
 *               inside, its last instant; one instant before the first transition; one far
 *               after the last; each as zif_local_time(t), and its local image as zif_utc_time(l)
 *   BFS       = from the state of a fresh handle, apply every operation in every reached
 *               state, queue every cache state not seen before, until no new state appears;
 *               a state is entered by replaying the history that discovered it on a fresh
 *               handle (checked to reproduce the recorded state), then restored per query
 *   oracle    = differential: the answer in any reached state == the answer of a fresh handle
 *               (zif_local_time, zif_utc_time, and zif_find_zrng, which must not depend on the
 *               cache at all).
 * When the search closes every query order of ANY length is covered. */
#include "impl.h"
#include "c12_common.h"

struct op_s {
	char op;		/* 'L' zif_local_time, 'U' zif_utc_time */
	int64_t t;
	int fresh_rc;		/* outcome on a fresh handle: 0 returned, 1 did not return */
	int64_t fresh;		/* answer on a fresh handle */
	struct zrng_s fresh_rng;	/* zif_find_zrng on a fresh handle ('L' entries only) */
	int fresh_rng_rc;
};

struct st_s {
	struct zrng_s c;	/* the cache */
	int parent;		/* state it was discovered from, -1 for the initial one */
	int via;		/* operation that led here */
};

static struct op_s *ops;
static size_t nops;
static struct st_s *sts;
static size_t nsts, csts;

static zif_t g_z;
static int64_t g_out;
static struct zrng_s g_rng;
static int g_replay;

#define MAXSTATES	20000

/* the virtual zones UTC/TAI/GPS are static objects inside lib/tzraw.c: a "fresh handle" on them is the
 * object with its cache as a new process has it (all zero) */
static int
virtual_p(const struct zc_src *s)
{
	return !strncmp(s->name, "virt:", 5);
}

static zif_t
vfresh(const struct zc_src *s)
{
	zif_t z = zc_fresh(s);
	if (z != NULL && virtual_p(s)) {
		z->cache = (struct zrng_s){0};
	}
	return z;
}

static int
rng_eq(struct zrng_s a, struct zrng_s b)
{
	return a.prev == b.prev && a.next == b.next && a.trno == b.trno && a.offs == b.offs;
}

/* hash set of the visited cache states (open addressing, index + 1) */
#define HBITS	16
static int htab[1 << HBITS];

static unsigned int
hash_state(struct zrng_s c)
{
	uint64_t h = ex_hash_mix((uint64_t)c.prev, (uint64_t)c.next);
	h = ex_hash_mix(h, ((uint64_t)(uint32_t)c.offs << 8) | c.trno);
	return (unsigned int)(h >> 20) & ((1U << HBITS) - 1U);
}

static int
find_state(struct zrng_s c)
{
	for (unsigned int h = hash_state(c); htab[h]; h = (h + 1U) & ((1U << HBITS) - 1U)) {
		if (rng_eq(sts[htab[h] - 1].c, c)) {
			return htab[h] - 1;
		}
	}
	return -1;
}

static int
add_state(struct zrng_s c, int parent, int via)
{
	unsigned int h;
	if (nsts >= csts) {
		csts = csts ? 2 * csts : 256;
		sts = realloc(sts, csts * sizeof(*sts));
	}
	sts[nsts].c = c;
	sts[nsts].parent = parent;
	sts[nsts].via = via;
	for (h = hash_state(c); htab[h]; h = (h + 1U) & ((1U << HBITS) - 1U)) {
		;
	}
	htab[h] = (int)nsts + 1;
	return (int)nsts++;
}

/* one guarded call on handle Z as it is */
static int
call(zif_t z, char op, int64_t t)
{
	int rc;
	EX_CTR(c_eval, "evaluations");
	++*c_eval;
	g_z = z;
	EX_GUARD_BEGIN(rc);
	switch (op) {
	case 'L': g_out = zif_local_time(g_z, t); break;
	case 'U': g_out = zif_utc_time(g_z, t); break;
	case 'R': g_rng = zif_find_zrng(g_z, t); break;
	}
	EX_GUARD_END;
	return rc;
}

/* bring a fresh handle into state SI by replaying its history */
static int
replay_history(zif_t z, int si)
{
	if (sts[si].parent < 0) {
		return 0;
	}
	if (replay_history(z, sts[si].parent)) {
		return 1;
	}
	return call(z, ops[sts[si].via].op, ops[sts[si].via].t);
}

static size_t
history_text(int si, char *buf, size_t bsz)
{
	size_t n = 0;
	if (sts[si].parent < 0) {
		return (size_t)snprintf(buf, bsz, "fresh");
	}
	n = history_text(sts[si].parent, buf, bsz);
	if (n < bsz) {
		n += (size_t)snprintf(buf + n, bsz - n, " %c(%lld)", ops[sts[si].via].op, (long long)ops[sts[si].via].t);
	}
	return n < bsz ? n : bsz - 1;
}

static const char*
state_kind(const struct zc_src *s, struct zrng_s c)
{
	if (c.prev == 0 && c.next == 0 && c.trno == 0 && c.offs == 0) {
		return "fresh(zeroed)";
	}
	if (c.prev <= STAMP_MIN && c.next >= STAMP_MAX) {
		return s->m.ntr ? "whole-time-line" : "no-transitions";
	}
	if (c.prev <= STAMP_MIN) {
		return "before-first-transition";
	}
	if (c.next >= STAMP_MAX) {
		return "after-last-transition";
	}
	return "table-range";
}

static const char*
rel_kind(struct zrng_s c, int64_t t)
{
	if (c.prev == 0 && c.next == 0) {
		return t < 0 ? "t<0" : "t>=0";
	}
	if (t < c.prev) {
		return "before-cached-range";
	}
	if (t >= c.next) {
		return "after-cached-range";
	}
	return "inside-cached-range";
}

static void
iso(int64_t t, char *buf, size_t bsz)
{
	time_t tt = (time_t)t;
	struct tm tm;
	if (gmtime_r(&tt, &tm) == NULL || tm.tm_year + 1900 < 1601 || tm.tm_year + 1900 > 4095) {
		snprintf(buf, bsz, "@%lld", (long long)t);
		return;
	}
	snprintf(buf, bsz, "%04d-%02d-%02dT%02d:%02d:%02d", tm.tm_year + 1900, tm.tm_mon + 1, tm.tm_mday, tm.tm_hour, tm.tm_min, tm.tm_sec);
}

/* the command line that shows the dependence: the history's instants, then the query */
static void
mk_cmd(const struct zc_src *s, int si, const struct op_s *q, char *cmd, size_t csz)
{
	size_t n;
	char ts[48];
	int chain[64], nc = 0;

	*cmd = '\0';
	if (!s->sys) {
		return;
	}
	for (int k = si; sts[k].parent >= 0 && nc < 64; k = sts[k].parent) {
		chain[nc++] = sts[k].via;
	}
	/* only histories of one kind of call can be shown with one dconv run */
	for (int i = 0; i < nc; i++) {
		if (ops[chain[i]].op != q->op) {
			return;
		}
	}
	n = (size_t)snprintf(cmd, csz, "dconv %s %s", q->op == 'U' ? "--from-zone" : "--zone", s->name + 4);
	for (int i = nc - 1; i >= 0 && n < csz; i--) {
		iso(ops[chain[i]].t, ts, sizeof(ts));
		n += (size_t)snprintf(cmd + n, csz - n, " %s", ts);
	}
	iso(q->t, ts, sizeof(ts));
	if (n < csz) {
		snprintf(cmd + n, csz - n, " %s    # last line vs. the same with only %s", ts, ts);
	}
}

static void
report(const struct zc_src *s, int si, size_t qi, const char *what, const char *fmt, ...)
{
	char key[256], cas[512], hist[1024], detail[1200], cmd[1024];
	const struct op_s *q = ops + qi;
	va_list ap;

	va_start(ap, fmt);
	vsnprintf(detail, sizeof(detail), fmt, ap);
	va_end(ap);
	snprintf(key, sizeof(key), "zifcache %s %s state=%s query=%s", what, s->sys ? "installed" : virtual_p(s) ? "virtual" : "synthetic",
		 state_kind(s, sts[si].c), rel_kind(sts[si].c, q->t));
	/* millions of cases per class: format the example only when it will be kept */
	if (!g_replay) {
		for (int i = 0; i < ex.nviol; i++) {
			if (!strcmp(ex.viol[i].key, key)) {
				if ((double)q->t >= ex.viol[i].ord) {
					ex_viol(key, (double)q->t, "", NULL, "");
					return;
				}
				break;
			}
		}
	}
	/* the case: source, then the operations of the history, then the query */
	{
		size_t n = (size_t)snprintf(cas, sizeof(cas), "%s", s->name);
		int chain[64], nc = 0;
		for (int k = si; sts[k].parent >= 0 && nc < 64; k = sts[k].parent) {
			chain[nc++] = sts[k].via;
		}
		for (int i = nc - 1; i >= 0 && n < sizeof(cas); i--) {
			n += (size_t)snprintf(cas + n, sizeof(cas) - n, " %c %lld", ops[chain[i]].op, (long long)ops[chain[i]].t);
		}
		if (n < sizeof(cas)) {
			snprintf(cas + n, sizeof(cas) - n, " ? %c %lld", what[4] == 'f' ? 'R' : q->op, (long long)q->t);
		}
	}
	history_text(si, hist, sizeof(hist));
	mk_cmd(s, si, q, cmd, sizeof(cmd));
	ex_viol(key, (double)q->t, cas, *cmd ? cmd : NULL, "%s after [%s] (cache [%lld,%lld) index %u offs %d): %s", s->name, hist,
		(long long)sts[si].c.prev, (long long)sts[si].c.next, (unsigned)sts[si].c.trno, (int)sts[si].c.offs, detail);
	if (g_replay) {
		printf("  FAIL [%s] after [%s]: %s\n", key, hist, detail);
	}
}

static int
cmp64(const void *a, const void *b)
{
	int64_t x = *(const int64_t*)a, y = *(const int64_t*)b;
	return x < y ? -1 : x > y;
}

/* build the alphabet of the zone and the fresh-handle answers */
static void
build_ops(const struct zc_src *s)
{
	const struct rz_file *m = &s->m;
	int64_t *ts = malloc(sizeof(*ts) * (3 * (size_t)m->ntr + 8));
	size_t n = 0, k = 0;
	EX_CTR(c_skiph, "skipped:operation that does not return even on a fresh handle (C12's finding), left out of the alphabet");

	if (virtual_p(s)) {
		/* the leap-second table behind TAI and GPS: every entry -1/0/+1/+2 s and the middle of every interval */
		free(ts);
		ts = malloc(sizeof(*ts) * (5 * nleaps_s + 16));
		for (size_t i = 0; i < nleaps_s; i++) {
			int64_t l = leaps_s[i];
			if (l <= INT32_MIN + 4 || l >= INT32_MAX - 4) {
				continue;
			}
			ts[n++] = l - 1;
			ts[n++] = l;
			ts[n++] = l + 1;
			ts[n++] = l + 2;
			if (i + 1 < nleaps_s && leaps_s[i + 1] < INT32_MAX - 4) {
				ts[n++] = l + (leaps_s[i + 1] - l) / 2;
			}
		}
		ts[n++] = -1;
		ts[n++] = 0;
		ts[n++] = 315964799LL;	/* the GPS epoch */
		ts[n++] = 315964800LL;
		ts[n++] = 2147483647LL;
		ts[n++] = 2147483648LL;
		ts[n++] = 2200000000LL;
	} else if (m->ntr == 0) {
		ts[n++] = -1000000000LL;
		ts[n++] = 0;
		ts[n++] = 1000000000LL;
	} else {
		ts[n++] = m->tr[0] - 86400;
		for (long i = 0; i < m->ntr; i++) {
			int64_t lo = m->tr[i], hi = i + 1 < m->ntr ? m->tr[i + 1] - 1 : m->tr[i] + 2000000000LL;
			ts[n++] = lo;
			ts[n++] = lo + (hi - lo) / 2;
			ts[n++] = hi;
		}
	}
	qsort(ts, n, sizeof(*ts), cmp64);
	for (size_t i = 0; i < n; i++) {
		if (k == 0 || ts[k - 1] != ts[i]) {
			ts[k++] = ts[i];
		}
	}
	n = k;
	ops = malloc(sizeof(*ops) * 2 * n);
	nops = 0;
	for (size_t i = 0; i < n; i++) {
		zif_t z;
		struct op_s o;
		int64_t local = ts[i];

		memset(&o, 0, sizeof(o));
		o.op = 'L';
		o.t = ts[i];
		z = vfresh(s);
		o.fresh_rc = call(z, 'L', ts[i]);
		o.fresh = g_out;
		zif_close(z);
		z = vfresh(s);
		o.fresh_rng_rc = call(z, 'R', ts[i]);
		o.fresh_rng = g_rng;
		zif_close(z);
		if (o.fresh_rc) {
			++*c_skiph;
		} else {
			local = o.fresh;
			ops[nops++] = o;
		}
		/* the local image (by the fresh handle's own answer) back to UTC */
		memset(&o, 0, sizeof(o));
		o.op = 'U';
		o.t = local;
		z = vfresh(s);
		o.fresh_rc = call(z, 'U', local);
		o.fresh = g_out;
		zif_close(z);
		if (o.fresh_rc) {
			++*c_skiph;
		} else {
			ops[nops++] = o;
		}
	}
	free(ts);
}

/* apply operation QI in state SI on handle Z (already in that state); judge; returns the new cache */
static int
apply(const struct zc_src *s, zif_t z, int si, size_t qi, struct zrng_s *after)
{
	const struct op_s *q = ops + qi;
	int rc, bad = 0;
	EX_CTR(c_trans, "transitions");
	EX_CTR(c_nontriv, "nontrivial");

	z->cache = sts[si].c;
	if (!(q->t >= sts[si].c.prev && q->t < sts[si].c.next)) {
		/* the query leaves the cached range: the search path */
		++*c_nontriv;
	}
	rc = call(z, q->op, q->t);
	++*c_trans;
	if (rc) {
		report(s, si, qi, q->op == 'L' ? "zif_local_time does-not-return" : "zif_utc_time does-not-return",
		       "%s(%lld) does not return although it does on a fresh handle (%lld)", q->op == 'L' ? "zif_local_time" : "zif_utc_time",
		       (long long)q->t, (long long)q->fresh);
		*after = sts[si].c;
		return -1;
	}
	ex_outcome(ex_hash_mix((uint64_t)(g_out - q->t), (uint64_t)q->op));
	*after = z->cache;
	if (g_out != q->fresh) {
		report(s, si, qi, q->op == 'L' ? "zif_local_time differs" : "zif_utc_time differs",
		       "%s(%lld) = %lld (offset %lld); on a fresh handle %lld (offset %lld)", q->op == 'L' ? "zif_local_time" : "zif_utc_time",
		       (long long)q->t, (long long)g_out, (long long)(g_out - q->t), (long long)q->fresh, (long long)(q->fresh - q->t));
		bad++;
	} else if (g_replay) {
		printf("  ok %s(%lld) = %lld as on a fresh handle\n", q->op == 'L' ? "zif_local_time" : "zif_utc_time", (long long)q->t, (long long)g_out);
	}
	return bad;
}

/* zif_find_zrng in state SI must be what it is on a fresh handle, and must leave the cache alone */
static int
apply_R(const struct zc_src *s, zif_t z, int si, size_t qi)
{
	const struct op_s *q = ops + qi;
	int rc;
	EX_CTR(c_trans, "transitions");

	if (q->op != 'L' || q->fresh_rng_rc) {
		return 0;
	}
	z->cache = sts[si].c;
	rc = call(z, 'R', q->t);
	++*c_trans;
	if (rc) {
		report(s, si, qi, "zif_find_zrng does-not-return", "zif_find_zrng(%lld) does not return although it does on a fresh handle", (long long)q->t);
		return 1;
	}
	if (!rng_eq(g_rng, q->fresh_rng)) {
		report(s, si, qi, "zif_find_zrng differs", "zif_find_zrng(%lld) = [%lld,%lld) index %u offs %d; on a fresh handle [%lld,%lld) index %u offs %d",
		       (long long)q->t, (long long)g_rng.prev, (long long)g_rng.next, (unsigned)g_rng.trno, (int)g_rng.offs,
		       (long long)q->fresh_rng.prev, (long long)q->fresh_rng.next, (unsigned)q->fresh_rng.trno, (int)q->fresh_rng.offs);
		return 1;
	}
	if (!rng_eq(z->cache, sts[si].c)) {
		report(s, si, qi, "zif_find_zrng touches-cache", "zif_find_zrng(%lld) changed the cache", (long long)q->t);
		return 1;
	}
	return 0;
}

static void
run_src(struct zc_src *s)
{
	zif_t z;
	size_t head;
	EX_CTR(c_states, "states");
	EX_CTR(c_traces, "traces");
	EX_CTR(c_open, "closures_not_reached");
	EX_CTR(c_maxst, "max_states_of_one_zone");

	zc_src_activate(s);
	build_ops(s);
	nsts = 0;
	memset(htab, 0, sizeof(htab));
	if ((z = vfresh(s)) == NULL) {
		ex_viol("zifcache zif_open fails", 0, s->name, NULL, "%s: zif_open returns NULL", s->name);
		free(ops);
		return;
	}
	add_state(z->cache, -1, -1);
	for (head = 0; head < nsts && !ex_expired(); head++) {
		/* enter the state through its history, on a fresh handle */
		zif_t h = vfresh(s);
		if (replay_history(h, (int)head) || !rng_eq(h->cache, sts[head].c)) {
			fprintf(stderr, "c13_zifcache: replaying the history of state %zu of %s does not reproduce it\n", head, s->name);
			exit(3);
		}
		for (size_t qi = 0; qi < nops; qi++) {
			struct zrng_s after;
			if (apply(s, h, (int)head, qi, &after) >= 0 && find_state(after) < 0) {
				if (nsts >= MAXSTATES) {
					++*c_open;
					break;
				}
				add_state(after, (int)head, (int)qi);
			}
			apply_R(s, h, (int)head, qi);
		}
		zif_close(h);
		++*c_traces;
	}
	*c_states += nsts;
	if (nsts > *c_maxst) {
		*c_maxst = nsts;
	}
	if (ex_want_sample()) {
		ex_sample("%s: %ld transitions; alphabet of %zu operations; closure after %zu cache states (every operation applied in every state, %zu applications)",
			  s->name, s->m.ntr, nops, nsts, nsts * nops);
	}
	zif_close(z);
	free(ops);
	ops = NULL;
}

int
main(int argc, char *argv[])
{
	EX_CTR(c_states, "states");
	EX_CTR(c_trans, "transitions");
	EX_CTR(c_eval, "evaluations");
	EX_CTR(c_traces, "traces");
	EX_CTR(c_nontriv, "nontrivial");
	EX_CTR(c_zones, "zones_closed");

	ex_init(argc, argv);
	zc_wd_init();
	(void)c_states, (void)c_trans, (void)c_eval, (void)c_traces, (void)c_nontriv;

	if (ex.cas) {
		/* "<source> [<op> <t>]... ? <op> <t>": history, then the query */
		struct zc_src s;
		char name[300];
		const char *p = ex.cas;
		int n = 0, bad = 0, rc;
		zif_t z, f;
		char op;
		long long t;
		int64_t hist_out = 0, fresh_out = 0;
		struct zrng_s hist_rng, fresh_rng, before;

		if (sscanf(p, "%299s%n", name, &n) != 1) {
			return ex_replay_result(1, "bad case '%s'", ex.cas);
		}
		if (!strncmp(name, "virt:", 5)) {
			memset(&s, 0, sizeof(s));
			snprintf(s.name, sizeof(s.name), "%s", name);
			snprintf(s.path, sizeof(s.path), "%s", name + 5);
		} else if ((rc = zc_src_load(name, &s)) < 0) {
			return ex_replay_result(1, "bad case '%s'", ex.cas);
		}
		p += n;
		g_replay = 1;
		zc_wd_limit = 250;
		zc_src_activate(&s);
		z = vfresh(&s);
		while (sscanf(p, " %c %lld%n", &op, &t, &n) == 2 && op != '?') {
			p += n;
			if (call(z, op, t)) {
				return ex_replay_result(1, "history operation %c(%lld) does not return", op, t);
			}
			printf("  history: %c(%lld) = %lld, cache now [%lld,%lld) index %u offs %d\n", op, t, (long long)g_out,
			       (long long)z->cache.prev, (long long)z->cache.next, (unsigned)z->cache.trno, (int)z->cache.offs);
		}
		if (sscanf(p, " ? %c %lld", &op, &t) != 2) {
			return ex_replay_result(1, "bad case '%s'", ex.cas);
		}
		before = z->cache;
		rc = call(z, op, t);
		hist_out = g_out;
		hist_rng = g_rng;
		f = vfresh(&s);
		if (call(f, op, t)) {
			return ex_replay_result(1, "%c(%lld) does not return on a fresh handle", op, t);
		}
		fresh_out = g_out;
		fresh_rng = g_rng;
		if (rc) {
			printf("  %c(%lld) after the history does not return; fresh handle: %lld\n", op, t, (long long)fresh_out);
			bad = 1;
		} else if (op == 'R') {
			bad = !rng_eq(hist_rng, fresh_rng) || !rng_eq(before, z->cache);
			printf("  R(%lld) after the history [%lld,%lld) index %u offs %d; fresh handle [%lld,%lld) index %u offs %d\n", t,
			       (long long)hist_rng.prev, (long long)hist_rng.next, (unsigned)hist_rng.trno, (int)hist_rng.offs,
			       (long long)fresh_rng.prev, (long long)fresh_rng.next, (unsigned)fresh_rng.trno, (int)fresh_rng.offs);
		} else {
			bad = hist_out != fresh_out;
			printf("  %c(%lld) after the history = %lld; on a fresh handle = %lld\n", op, t, (long long)hist_out, (long long)fresh_out);
		}
		return ex_replay_result(bad, "%s", ex.cas);
	}

	zc_catalogue(1, 1, ex.thorough ? 5 : 4, ex.thorough);
	ex_meta("rule", "zif cache closure: for each of %zu installed and %zu synthetic zone files and the virtual zones UTC, TAI, GPS, +05:30, -01:00 (alphabet: every leap-second table entry "
		"-1/0/+1/+2 s, interval middles, GPS epoch, 2^31 seam; fresh = the static object with a zeroed cache), breadth-first search over the real cache states (prev,next,index,offs) "
		"read from struct zif_s; alphabet = first/inner/last instant of every range + one instant before the first transition + one after the last, as "
		"zif_local_time(t) and zif_utc_time(local image of t); every operation is applied in every reached state (state entered by replaying its discovering "
		"history on a fresh handle; replay checked), new states are queued until none appears; oracle: the answer equals the fresh-handle answer, "
		"zif_find_zrng is the same in every state and leaves the cache alone. Operations that do not return even on a fresh handle (C12) are left out of the "
		"alphabet and counted. non-trivial = applications whose instant lies outside the cached range (the search-window path)",
		zc_nsys, zc_nnames - zc_nsys);
	ex_meta("bound", "%s: all %zu installed files and %zu synthetic files, each to closure (limit %d states per zone, never reached unless counted in closures_not_reached)",
		ex.thorough ? "thorough" : "quick", zc_nsys, zc_nnames - zc_nsys, MAXSTATES);

	for (size_t i = 0; i < zc_nnames && !ex_expired(); i++) {
		struct zc_src s;
		int rc;
		if (!ex_mine(i)) {
			continue;
		}
		rc = zc_src_load(zc_names[i], &s);
		if (rc == -2) {
			fprintf(stderr, "cannot load %s\n", zc_names[i]);
			return 3;
		}
		if (rc == 0) {
			run_src(&s);
			if (!ex_expired()) {
				++*c_zones;
			}
		}
		zc_src_free(&s);
	}
	{
		static const char *const virt[] = {"UTC", "TAI", "GPS", "+05:30", "-01:00"};
		EX_CTR(c_virt, "virtual_zones_closed");
		for (size_t i = 0; i < sizeof(virt) / sizeof(*virt) && !ex_expired(); i++) {
			struct zc_src vs;
			if (!ex_mine(zc_nnames + i)) {
				continue;
			}
			memset(&vs, 0, sizeof(vs));
			snprintf(vs.name, sizeof(vs.name), "virt:%s", virt[i]);
			snprintf(vs.path, sizeof(vs.path), "%s", virt[i]);
			run_src(&vs);
			++*c_virt;
		}
	}
	return ex_finish();
}
