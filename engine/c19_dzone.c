/* c19_dzone.c -- C19, path building on the output side: dzone prints the zone spec behind
 * every line through a bounded copy into a static line buffer (src/dzone.c: xstrlcpy, gbuf).
 * Level M: dzone's own main() in a forked child (forksrv.h), asan variant.
 * Enumerated: an existing zone file named by a path of EVERY length 180..270 bytes
 * (/usr/share/zoneinfo padded with "/." before Europe/Berlin) x {date-time, date-only, time-only
 * operand, --next, --prev} -- the line prefixes differ in length, so each mode has its own
 * critical path length.
 * Oracle: the run ends by exit 0, stderr carries no AddressSanitizer report, and the line starts
 * with the right conversion (the name behind it may be cut, that is cosmetic). */
#if defined HAVE_CONFIG_H
# include "config.h"
#endif
#define main c19_dzone_main
#include "dzone.c"
#undef main

#include "impl.h"
#include "explore.h"
#include "forksrv.h"

#define LMIN	180
#define LMAX	270
static const char zdir[] = "/usr/share/zoneinfo";
static const char zname[] = "/Europe/Berlin";

struct mode_s {
	const char *label;
	const char *opt;
	const char *operand;
	const char *prefix;	/* what the line must start with */
};
static const struct mode_s modes[] = {
	{"datetime", NULL, "2012-03-01T12:00:00", "2012-03-01T13:00:00+01:00\t"},
	{"date", NULL, "2012-07-01", "2012-07-01+02:00\t"},
	{"time", NULL, "12:00:00", "13:00:00+01:00\t"},
	{"--next", "--next", "2012-03-01T12:00:00", "2012-03-25T02:00:00+01:00 -> 2012-03-25T03:00:00+02:00\t"},
	{"--prev", "--prev", "2012-03-01T12:00:00", "2011-10-30T03:00:00+02:00 <- 2011-10-30T02:00:00+01:00\t"},
};
#define NMODES	((int)(sizeof(modes) / sizeof(*modes)))

static int g_replay;

static int
one(int mi, int L)
{
	char path[512], key[200], cas[32];
	const char *argv[6];
	const char *env[] = {"LC_ALL=C", NULL};
	struct fs_opts fo;
	struct fs_result r;
	size_t n = 0;
	int argc = 0, bad = 0;
	EX_CTR(c_eval, "evaluations");
	EX_CTR(c_trans, "transitions");
	EX_CTR(c_nontriv, "nontrivial");

	n = (size_t)snprintf(path, sizeof(path), "%s", zdir);
	while (n + 2 + sizeof(zname) - 1 <= (size_t)L) {
		path[n++] = '/';
		path[n++] = '.';
	}
	if (n + sizeof(zname) - 1 < (size_t)L) {
		path[n++] = '/';
	}
	snprintf(path + n, sizeof(path) - n, "%s", zname);
	argv[argc++] = "dzone";
	if (modes[mi].opt) {
		argv[argc++] = modes[mi].opt;
	}
	argv[argc++] = path;
	argv[argc++] = modes[mi].operand;
	memset(&fo, 0, sizeof(fo));
	fo.env = env;
	fo.now = 1330000000LL;
	fo.timeout_s = 20;
	fs_run(c19_dzone_main, argc, argv, &fo, &r);
	++*c_eval;
	++*c_trans;
	if (strlen(modes[mi].prefix) + strlen(path) + 1 >= 250) {
		++*c_nontriv;
	}
	snprintf(cas, sizeof(cas), "%d %d", mi, L);
	ex_outcome(ex_hash_mix(ex_hash(r.out, r.outlen), (uint64_t)mi));
	if (r.signaled) {
		snprintf(key, sizeof(key), "dzone-line %s mode=%s", r.timed_out ? "does-not-terminate" : "fatal-signal", modes[mi].label);
		ex_viol(key, L, cas, NULL, "dzone %s <zone path of %zu bytes> %s: %s", modes[mi].opt ? modes[mi].opt : "", strlen(path), modes[mi].operand, fs_ending(&r));
		bad = 1;
	} else if (r.err && strstr(r.err, "AddressSanitizer")) {
		char sum[96] = "", *p = strstr(r.err, "AddressSanitizer: ");
		if (p) {
			snprintf(sum, sizeof(sum), "%.60s", p + 18);
			if (strpbrk(sum, " \n")) {
				*strpbrk(sum, " \n") = '\0';
			}
		}
		snprintf(key, sizeof(key), "dzone-line asan:%s%s mode=%s", sum, strstr(r.err, "WRITE of size") ? " WRITE" : strstr(r.err, "READ of size") ? " READ" : "", modes[mi].label);
		ex_viol(key, L, cas, NULL, "dzone %s <zone path of %zu bytes> %s: AddressSanitizer reports %s", modes[mi].opt ? modes[mi].opt : "", strlen(path), modes[mi].operand, sum);
		bad = 1;
	} else if (!r.exited || r.status != 0 || strncmp(r.out, modes[mi].prefix, strlen(modes[mi].prefix))) {
		snprintf(key, sizeof(key), "dzone-line wrong-output mode=%s", modes[mi].label);
		ex_viol(key, L, cas, NULL, "dzone %s <zone path of %zu bytes> %s: exit %d, prints '%.60s', expected a line starting '%s'", modes[mi].opt ? modes[mi].opt : "",
			strlen(path), modes[mi].operand, r.status, r.out, modes[mi].prefix);
		bad = 1;
	}
	if (g_replay) {
		printf("  mode %s, zone path of %zu bytes: %s, %zu bytes of stdout, %zu of stderr%s\n", modes[mi].label, strlen(path), fs_ending(&r), r.outlen, r.errlen, bad ? "  <-- FAIL" : "");
	}
	fs_free(&r);
	return bad;
}

int
main(int argc, char *argv[])
{
	EX_CTR(c_states, "states");
	EX_CTR(c_traces, "traces");

	ex_init(argc, argv);
	if (ex.cas) {
		int mi, L;
		if (sscanf(ex.cas, "%d %d", &mi, &L) != 2 || mi < 0 || mi >= NMODES || L < 40 || L > 400) {
			return ex_replay_result(1, "bad case");
		}
		g_replay = 1;
		return ex_replay_result(one(mi, L), "%s", ex.cas);
	}
	ex_meta("rule", "dzone's main() in a forked child (asan build): Europe/Berlin named by a path of every length %d..%d bytes x {date-time, date-only, time-only operand, --next, --prev}; "
		"oracle: exit 0, no AddressSanitizer report on stderr, the line starts with the right conversion. non-trivial = prefix + path + newline >= 250 bytes (line buffer 256)", LMIN, LMAX);
	ex_meta("bound", "complete product (both tiers): %d lengths x %d modes", LMAX - LMIN + 1, NMODES);
	for (int mi = 0; mi < NMODES; mi++) {
		for (int L = LMIN; L <= LMAX && !ex_expired(); L++) {
			if (!ex_mine((uint64_t)(mi * 128 + L))) {
				continue;
			}
			one(mi, L);
			++*c_states;
		}
		++*c_traces;
	}
	return ex_finish();
}
