/* c02b_repr.c -- C02(b): every date specifier prints the same text whatever calendar holds the value.
 *
 * All states of the reference calendar x every held representation a tool can hand
 * to the formatter (conversion result of dt_dtconv, as dseq/dadd/dround/dconv do;
 * bizda by parsing bizda text) x every date specifier: the text must be byte-identical
 * to what the same specifier prints for the ymd-held value of the same day
 * (differential oracle; whether the ymd-held text is right is C01's business).
 * Binding: dseq (which switches to day counts internally), dadd and dround print whole
 * ranges with a multi-specifier format and must agree with dconv on the same days. */
#include "explore.h"
#include "c02_common.h"

static int weekday_spec_p(int s)
{
	const char *f = c02_specs[s];
	return !strcmp(f, "%a") || !strcmp(f, "%A") || !strcmp(f, "%_a") || !strcmp(f, "%u") || !strcmp(f, "%w");
}

static int
do_case(const struct rc_day *p, int H, int s, int replay)
{
	struct dt_dt_s v, y;
	char a[96], b[96], key[96], cas[48], cmd[200];
	int ok;
	EX_CTR(c_eval, "evaluations");
	EX_CTR(c_trans, "transitions");

	if ((ok = held_value(H, p, &v)) <= 0) {
		EX_CTR(c_skip, "skipped:day has no name in the holding calendar (weekend in bizda / outside the Hijri table)");
		++*c_skip;
		return 0;
	}
	if (H == H_HIJRI && !weekday_spec_p(s)) {
		/* reading: a Hijri-held value prints Hijri year/month/day; only weekday
		 * specifiers denote the same thing in both calendars */
		EX_CTR(c_skiph, "skipped:non-weekday specifier on a Hijri-held value (own year/month/day)");
		++*c_skiph;
		return 0;
	}
	if (!p->isbd && (!strcmp(c02_specs[s], "%db") || !strcmp(c02_specs[s], "%dB"))) {
		EX_CTR(c_skipb, "skipped:business-day specifier on a weekend day");
		++*c_skipb;
		return 0;
	}
	y = ymd_value(p);
	memset(a, 0, sizeof(a));
	memset(b, 0, sizeof(b));
	dt_strfdt(a, sizeof(a), c02_specs[s], y);
	dt_strfdt(b, sizeof(b), c02_specs[s], v);
	*c_eval += 2;
	++*c_trans;
	ex_outcome(ex_hash_mix(ex_hash(b, strlen(b)), (uint64_t)s));
	if (H == H_YMCW0 && (!strcmp(c02_specs[s], "%w") || !strcmp(c02_specs[s], "%u")) && atoi(a) == 7 && atoi(b) == 0 && b[0] == '0') {
		/* reading (C01): Sunday prints as 0 or 7, padding is free */
		EX_CTR(c_sun, "accepted:Sunday printed as 0/00 where the ymd-held value prints 7/07");
		++*c_sun;
		return 0;
	}
	if (strcmp(a, b)) {
		snprintf(key, sizeof(key), "repr held=%s spec=%s", held_name[H], c02_specs[s]);
		snprintf(cas, sizeof(cas), "%d %d %d", H, s, p->rd);
		if (H == H_DAISY) {
			snprintf(cmd, sizeof(cmd), "dseq %04d-%02d-%02d 1d %04d-%02d-%02d -f '%s'   (vs. dconv ... -f '%s')",
				 p->y, p->m, p->d, p->y, p->m, p->d, c02_specs[s], c02_specs[s]);
		} else {
			snprintf(cmd, sizeof(cmd), "dconv %04d-%02d-%02d -f %s | dconv -i %s -f '%s'   (vs. dconv %04d-%02d-%02d -f '%s')",
				 p->y, p->m, p->d, held_name[H], held_name[H], c02_specs[s], p->y, p->m, p->d, c02_specs[s]);
		}
		ex_viol(key, p->rd, cas, cmd, "day %04d-%02d-%02d: '%s' prints '%s' when held as %s but '%s' when held as ymd",
			p->y, p->m, p->d, c02_specs[s], b, held_name[H], a);
		if (replay) {
			printf("  day %04d-%02d-%02d spec '%s': held as %s '%s', held as ymd '%s'\n", p->y, p->m, p->d, c02_specs[s], held_name[H], b, a);
		}
		return 1;
	}
	if (replay) {
		printf("  day %04d-%02d-%02d spec '%s': held as %s '%s' == held as ymd (agrees)\n", p->y, p->m, p->d, c02_specs[s], held_name[H], b);
	}
	return 0;
}

/* binding: a tool prints all days of [y0, y1] with a multi-specifier format; its output must be
 * byte-identical to what the library-level exploration observes for the representation the
 * tool is taken to hold the value in (dseq: day count; dadd/dround: the input's calendar).
 * Formatting defects therefore show up once, at library level, and the binding only fails
 * if the tool hands something else to the formatter than assumed. */
static const char BINDFMT[] = "%F %Y %m %d %j %a %b %u %c %C %G %V %U %W %q %Q %Od %Om %OY %dth";
static const struct {
	const char *what;
	int held;
	const char *calfmt;	/* dconv -f <calfmt> produces the tool's input */
	const char *tool;
} c02binds[] = {
	{"dseq A 1d B (day steps: held as day count)", H_DAISY, NULL, NULL},
	{"dadd +0d on ywd input", H_YWD, "ywd", "dadd +0d"},
	{"dadd +0d on yd input", H_YD, "yd", "dadd +0d"},
	{"dadd +0d on ymcw input", H_YMCW, "ymcw", "dadd +0d"},
	{"dround /1d on ymcw input", H_YMCW, "ymcw", "dround /1d"},
	{"dround /1d on ywd input", H_YWD, "ywd", "dround /1d"},
};
#define C02_NBIND	((int)(sizeof(c02binds) / sizeof(*c02binds)))

static void
do_binding(int k)
{
	char out[512], in[512], cmd[2048], key[160], l2[512], exp[512], cas[48], text[64];
	const char *rundir = getenv("VERIF_RUNDIR");
	int y0 = ex.thorough ? 1601 : 1990, y1 = ex.thorough ? 4093 : 2030;
	FILE *f, *g;
	int n = 0, rd;
	EX_CTR(c_bind, "cli_binding_replays");
	EX_CTR(c_bindln, "cli_binding_lines");

	if (rundir == NULL || ex.tree == NULL) {
		return;
	}
	snprintf(out, sizeof(out), "%s/c02bind.%d.out", rundir, k);
	snprintf(in, sizeof(in), "%s/c02bind.%d.in", rundir, k);
	if ((f = fopen(in, "w")) == NULL) {
		return;
	}
	for (rd = rc_yearstart[y0]; rd < rc_yearstart[y1 + 1]; rd++) {
		const struct rc_day *p = rc_get(rd);
		fprintf(f, "%04d-%02d-%02d\n", p->y, p->m, p->d);
	}
	fclose(f);
	if (c02binds[k].tool == NULL) {
		snprintf(cmd, sizeof(cmd), "'%s/src/dseq' %04d-01-01 1d %04d-12-31 -f '%s' > '%s' 2>/dev/null", ex.tree, y0, y1, BINDFMT, out);
	} else {
		snprintf(cmd, sizeof(cmd), "'%s/src/dconv' -f %s < '%s' | '%s/src/'%s -f '%s' > '%s' 2>/dev/null",
			 ex.tree, c02binds[k].calfmt, in, ex.tree, c02binds[k].tool, BINDFMT, out);
	}
	if (system(cmd) < 0) {
		return;
	}
	++*c_bind;
	snprintf(key, sizeof(key), "binding %s vs library-level observation", c02binds[k].what);
	if ((g = fopen(out, "r")) != NULL) {
		for (rd = rc_yearstart[y0]; rd < rc_yearstart[y1 + 1]; rd++) {
			const struct rc_day *p = rc_get(rd);
			struct dt_dt_s v;
			if (!fgets(l2, sizeof(l2), g)) {
				ex_viol(key, rd, "", cmd, "tool output ends after %d lines", n);
				break;
			}
			n++;
			++*c_bindln;
			l2[strcspn(l2, "\n")] = '\0';
			/* the value as the tool holds it */
			if (c02binds[k].tool == NULL) {
				held_value(H_DAISY, p, &v);
			} else {
				struct dt_dt_s y = ymd_value(p);
				memset(text, 0, sizeof(text));
				dt_strfdt(text, sizeof(text), c02binds[k].calfmt, y);
				v = dt_strpdt(text, NULL, NULL);
			}
			memset(exp, 0, sizeof(exp));
			dt_strfdt(exp, sizeof(exp), BINDFMT, v);
			if (strcmp(exp, l2)) {
				snprintf(cas, sizeof(cas), "bind %d %d", k, rd);
				ex_viol(key, rd, cas, cmd, "line %d (day %04d-%02d-%02d): tool prints '%s', library level observed '%s' for the %s-held value",
					n, p->y, p->m, p->d, l2, exp, held_name[c02binds[k].held]);
			}
		}
		fclose(g);
	}
	unlink(out);
	unlink(in);
}

int
main(int argc, char *argv[])
{
	EX_CTR(c_states, "states");
	EX_CTR(c_traces, "traces");
	EX_CTR(c_nontriv, "nontrivial");

	ex_init(argc, argv);
	rc_selfcheck();

	if (ex.cas) {
		int H, s, rd;
		if (sscanf(ex.cas, "%d %d %d", &H, &s, &rd) == 3 && H >= 0 && H < NHELD && s >= 0 && s < C02_NSPEC && rc_get(rd)) {
			return ex_replay_result(do_case(rc_get(rd), H, s, 1), "held=%s spec=%s rd=%d", held_name[H], c02_specs[s], rd);
		}
		if (!strncmp(ex.cas, "bind ", 5)) {
			/* binding lines are re-run as a whole */
			return ex_replay_result(1, "binding mismatches are replayed by re-running the tier (%s)", ex.cas);
		}
		return ex_replay_result(1, "bad case '%s'", ex.cas);
	}
	ex_meta("rule", "every day x held representation {ymcw ywd yd daisy ldn jdn mdn bizda hijri} x %d date specifiers: text byte-identical to the "
		"ymd-held value's. Skipped: weekend days under bizda and %%db/%%dB, days outside the Hijri table, non-weekday specifiers on "
		"Hijri-held values. non-trivial = days whose ISO year differs from the Gregorian year, first/last day of a month", C02_NSPEC);
	ex_meta("bound", "%s", ex.thorough ? "all 911,280 days" : "days of 1601-2000 (one full Gregorian cycle) and 4090-4095 and the Hijri table range");
	ex_meta("binding", "dseq/dadd/dround binaries print whole day ranges (%s) with a 20-specifier format; byte-compared with the library-level text for the representation the tool holds (dseq: day count; dadd/dround: the input calendar)",
		ex.thorough ? "1601..4093" : "1990..2030");

	for (int y = RC_MIN_YEAR; y <= RC_MAX_YEAR && !ex_expired(); y++) {
		struct hj_s h;
		if (!ex_mine((uint64_t)(y - RC_MIN_YEAR))) {
			continue;
		}
		if (!ex.thorough && !(y <= 2000 || y >= 4090 || hj_of_ldn(rc_ldn(rc_yearstart[y]), &h) || hj_of_ldn(rc_ldn(rc_yearstart[y + 1] - 1), &h))) {
			continue;
		}
		for (int rd = rc_yearstart[y]; rd < rc_yearstart[y + 1]; rd++) {
			const struct rc_day *p = rc_get(rd);
			++*c_states;
			if (p->d == 1 || p->d == p->mlen || p->isoy != p->y) {
				++*c_nontriv;
			}
			for (int H = 1; H < NHELD; H++) {
				for (int s = 0; s < C02_NSPEC; s++) {
					do_case(p, H, s, 0);
				}
			}
			if (ex_want_sample()) {
				ex_sample("state %04d-%02d-%02d x 9 held representations x %d specifiers vs. the ymd-held text", p->y, p->m, p->d, C02_NSPEC);
			}
		}
		++*c_traces;
	}
	for (int k = 0; k < C02_NBIND && !ex_expired(); k++) {
		if (ex_mine((uint64_t)k + 7)) {
			do_binding(k);
		}
	}
	return ex_finish();
}
