/* c18_families.h -- C18 tool level, structured input families (included by c18_tool.c).
 *
 * The token streams of c18_tool.c judge the text outside the values by a
 * skeleton that drops [0-9:T-]; bytes of exactly that class that get lost next
 * to a value (a malformed time tail, a short zone offset, a blank in front of a
 * short field, the leading digit of a long epoch) are invisible to it.  The
 * families below have an EXACT oracle instead.  A stream is
 *
 *     prefix  value  tail  suffix  [\n]
 *
 * with every part from a small list per family, all combinations enumerated,
 * each run in one read and under every composition with <= 1 (thorough 2) cuts.
 * Expected output: prefix, the tool's own ARGUMENT-MODE result for the value
 * (same -i/-f options), the tail copied (for a tail that is a second value:
 * its argument-mode result), suffix, newline.  For a zone-like tail a second
 * outcome is accepted: the zone belongs to the value, i.e. value+tail is
 * replaced by the argument-mode result of value+tail.  A value the argument
 * mode rejects is outside the family for that tool (skipped and counted). */
#ifndef VERIF_C18_FAMILIES_H
#define VERIF_C18_FAMILIES_H

enum { TL_COPY, TL_ZONE, TL_VALUE };
struct ftail {
	const char *txt;	/* for TL_VALUE: separator */
	const char *label;
	int kind;
	const char *val2;	/* TL_VALUE: the second value */
	unsigned int vmask;	/* values (bit = index) the tail is used with; 0 = all */
};
struct fpart {
	const char *txt;
	const char *label;
};
struct family {
	const char *name;
	int tools;		/* bit mask: 1 dconv, 2 dadd, 4 dround */
	const char *opts[8];	/* -i/-f options, NULL terminated */
	struct fpart val[8];
	struct ftail tail[12];
	struct fpart pre[6];
	struct fpart suf[4];
	int keyparts;		/* which coordinates make the class key: 1 value, 2 tail, 4 prefix */
	const char *dadd_extra;	/* dadd's duration if not +1d */
};

static const struct family fams[] = {
	{"tails", 7, {NULL},
	 {{"2012-03-04", "date"}, {"2012-03-04T12:30", "date-HM"}, {"2012-03-04T12:30:00", "date-HMS"}, {"12:30:00", "HMS"}, {"12:30", "HM"}, {NULL, NULL}},
	 {{"", "none", TL_COPY, NULL, 0}, {"T12:xx", "T-hour-colon-letters", TL_COPY, NULL, 0}, {"T12:75", "T-hour-colon-75", TL_COPY, NULL, 0},
	  {":xx", "colon-letters", TL_COPY, NULL, 0}, {":99", "colon-99", TL_COPY, NULL, 0}, {".x", "dot-letter", TL_COPY, NULL, 0}, {".", "dot", TL_COPY, NULL, 0},
	  /* zone-like tails: hour only (no colon, so no second time-like text); the full form only behind date+time
	   * (behind a bare date or time `05:00` is a time of its own for the tools, as `+05:7` would be everywhere) */
	  {"+05", "zone-plus-hour-only", TL_ZONE, NULL, 0}, {"-03", "zone-minus-hour-only", TL_ZONE, NULL, 0},
	  {"+05:00", "zone-full", TL_ZONE, NULL, 6}, {NULL, NULL, 0, NULL, 0}},
	 {{"", "line-start"}, {"see ", "blank"}, {"xx", "letters"}, {NULL, NULL}},
	 {{"", "end"}, {" rest", "blank"}, {NULL, NULL}}, 2},
	{"padded-dmy", 7, {"-i", "%d/%m/%Y", "-f", "%F", NULL},
	 {{"4/03/2012", "1-digit-day"}, {"14/03/2012", "2-digit-day"}, {"04/03/2012", "zero-padded-day"}, {"4/3/2012", "1-digit-day-and-month"}, {NULL, NULL}},
	 {{"", "none", TL_COPY, NULL, 0}, {NULL, NULL, 0, NULL, 0}},
	 {{"", "line-start"}, {"on ", "blank"}, {"on", "letters"}, {"item 9 ", "digit-blank"}, {NULL, NULL}},
	 {{"", "end"}, {" x", "blank"}, {NULL, NULL}}, 4},
	{"padded-dth", 7, {"-i", "%dth %B %Y", "-f", "%F", NULL},
	 {{"4th May 1987", "1-digit-day"}, {"14th May 1987", "2-digit-day"}, {NULL, NULL}},
	 {{"", "none", TL_COPY, NULL, 0}, {NULL, NULL, 0, NULL, 0}},
	 {{"", "line-start"}, {"on ", "blank"}, {"on", "letters"}, {"item 9 ", "digit-blank"}, {NULL, NULL}},
	 {{"", "end"}, {" x", "blank"}, {NULL, NULL}}, 4},
	{"padded-hm", 1, {"-i", "%H:%M", "-f", "%T", NULL},
	 {{"7:05", "1-digit-hour"}, {"07:05", "zero-padded-hour"}, {"17:05", "2-digit-hour"}, {NULL, NULL}},
	 {{"", "none", TL_COPY, NULL, 0}, {NULL, NULL, 0, NULL, 0}},
	 {{"", "line-start"}, {"at ", "blank"}, {"at", "letters"}, {NULL, NULL}},
	 {{"", "end"}, {" sharp", "blank"}, {NULL, NULL}}, 4},
	{"epoch", 7, {"-i", "%s", "-f", "%FT%T", NULL},
	 {{"5", "1-digit"}, {"86400", "5-digits"}, {"999999999", "9-digits"}, {"1330560000", "10-digits"}, {"10413792000", "11-digits"}, {NULL, NULL}},
	 {{"", "none", TL_COPY, NULL, 0}, {NULL, NULL, 0, NULL, 0}},
	 {{"", "line-start"}, {"t=", "equals-sign"}, {"t ", "blank"}, {NULL, NULL}},
	 {{"", "end"}, {",", "comma"}, {" x", "blank"}, {NULL, NULL}}, 1},
	{"epoch-comma", 7, {"-i", "%s,", "-f", "%FT%T,", NULL},
	 {{"86400,", "5-digits"}, {"999999999,", "9-digits"}, {"1330560000,", "10-digits"}, {"10413792000,", "11-digits"}, {NULL, NULL}},
	 {{"", "none", TL_COPY, NULL, 0}, {NULL, NULL, 0, NULL, 0}},
	 {{"", "line-start"}, {"t=", "equals-sign"}, {"t ", "blank"}, {NULL, NULL}},
	 {{"", "end"}, {" x", "blank"}, {NULL, NULL}}, 1},
	{"compact", 7, {"-i", "%Y%m%d", "-f", "%F", NULL},
	 {{"20120304", "8-digits"}, {NULL, NULL}},
	 {{"", "none", TL_COPY, NULL, 0}, {NULL, NULL, 0, NULL, 0}},
	 {{"", "line-start"}, {"x ", "letters-blank"}, {"x 1 ", "digit-run-before"}, {"1 ", "digit-run-at-line-start"}, {"a1b ", "digit-inside-word-before"}, {NULL, NULL}},
	 {{"", "end"}, {" 5", "digit-run-after"}, {" x", "blank"}, {NULL, NULL}}, 4},
	{"two-formats", 7, {"-i", "%Y%m%d", "-i", "%d/%m/%Y", "-f", "%F", NULL},
	 {{"20120304", "compact-first"}, {"05/03/2012", "slashed-first"}, {NULL, NULL}},
	 {{" and ", "then-compact", TL_VALUE, "20120306", 0}, {" and ", "then-slashed", TL_VALUE, "07/03/2012", 0}, {NULL, NULL, 0, NULL, 0}},
	 {{"", "line-start"}, {"x ", "letters-blank"}, {NULL, NULL}},
	 {{"", "end"}, {" x", "blank"}, {NULL, NULL}}, 3},
	/* ---- audit round 2 ---- */
	/* reading: a minus directly in front of the digits at line start, behind `=` or a blank is the sign:
	 * that is how the tools themselves read stamps of up to 10 digits */
	{"epoch-literal-negative", 3, {"-i", "%s;", "-f", "%FT%T;", NULL},
	 {{"-86400;", "5-digits"}, {"-9999999999;", "10-digits"}, {"-11644473600;", "11-digits"}, {"11644473600;", "11-digits-positive"}, {NULL, NULL}},
	 {{"", "none", TL_COPY, NULL, 0}, {NULL, NULL, 0, NULL, 0}},
	 {{"", "line-start"}, {"t=", "equals-sign"}, {"t ", "blank"}, {NULL, NULL}},
	 {{"", "end"}, {" x", "blank"}, {NULL, NULL}}, 1, NULL},
	{"roman-month-first", 7, {"-i", "%Om %d %Y", "-f", "%F", NULL},
	 {{"I 4 2012", "1-letter"}, {"III 4 2012", "3-letters"}, {"VIII 4 2012", "4-letters"}, {"XII 4 2012", "XII"}, {NULL, NULL}},
	 {{"", "none", TL_COPY, NULL, 0}, {NULL, NULL, 0, NULL, 0}},
	 {{"", "line-start"}, {"a ", "blank"}, {NULL, NULL}},
	 {{"", "end"}, {" x", "blank"}, {NULL, NULL}}, 0, NULL},
	{"roman-all", 7, {"-i", "%Od %Om %OY", "-f", "%F", NULL},
	 {{"IV III MMXII", "2-letter-day"}, {"XIV III MMXII", "3-letter-day"}, {"XXVIII II MMXII", "6-letter-day"}, {NULL, NULL}},
	 {{"", "none", TL_COPY, NULL, 0}, {NULL, NULL, 0, NULL, 0}},
	 {{"", "line-start"}, {"a ", "blank"}, {NULL, NULL}},
	 {{"", "end"}, {" x", "blank"}, {NULL, NULL}}, 0, NULL},
	{"ordinal-only", 1, {"-i", "%dth", "-f", "<%d>", "-b", "2012-01-01", NULL},
	 {{"3rd", "1-digit"}, {"21st", "2-digits"}, {NULL, NULL}},
	 {{"", "none", TL_COPY, NULL, 0}, {" and ", "then-ordinal", TL_VALUE, "4th", 0}, {NULL, NULL, 0, NULL, 0}},
	 {{"", "line-start"}, {"on ", "blank"}, {"room 45 on ", "other-number-before"}, {"45 ", "other-number-at-line-start"}, {NULL, NULL}},
	 {{"", "end"}, {" x", "blank"}, {NULL, NULL}}, 4, NULL},
	{"non-ascii-sibling", 7, {"-i", "%d\xc2\xa7%m\xc2\xa7%Y", "-i", "%Y%m%d", "-f", "<%F>", NULL},
	 {{"20120101", "compact"}, {"01\xc2\xa702\xc2\xa72012", "with-the-non-ascii-literal"}, {NULL, NULL}},
	 {{"", "none", TL_COPY, NULL, 0}, {NULL, NULL, 0, NULL, 0}},
	 {{"", "line-start"}, {"a ", "blank"}, {NULL, NULL}},
	 {{"", "end"}, {" b", "blank"}, {NULL, NULL}}, 1, NULL},
	{"bizda-first", 7, {"-i", "%db/%m/%Y", "-f", "%F", NULL},
	 {{"13b/03/2012", "2-digits"}, {"03b/03/2012", "zero-padded"}, {NULL, NULL}},
	 {{"", "none", TL_COPY, NULL, 0}, {NULL, NULL, 0, NULL, 0}},
	 {{"", "line-start"}, {"x ", "blank"}, {NULL, NULL}},
	 {{"", "end"}, {" y", "blank"}, {NULL, NULL}}, 0, NULL},
	{"T-behind-digits", 7, {"-i", "%Y%m%d%T", "-f", "%FT%T", NULL},
	 {{"2012030112:34:56", "compact-date-then-time"}, {NULL, NULL}},
	 {{"", "none", TL_COPY, NULL, 0}, {NULL, NULL, 0, NULL, 0}},
	 {{"", "line-start"}, {"x ", "blank"}, {NULL, NULL}},
	 {{"", "end"}, {" y", "blank"}, {NULL, NULL}}, 1, NULL},
	{"F-behind-name", 7, {"-i", "%a%F", "-f", "%F", NULL},
	 {{"Thu2012-03-01", "weekday-then-date"}, {NULL, NULL}},
	 {{"", "none", TL_COPY, NULL, 0}, {NULL, NULL, 0, NULL, 0}},
	 {{"", "line-start"}, {"x ", "blank"}, {NULL, NULL}},
	 {{"", "end"}, {" y", "blank"}, {NULL, NULL}}, 1, NULL},
	{"F-behind-hour", 7, {"-i", "%H%F", "-f", "%FT%T", NULL},
	 {{"122012-03-01", "hour-then-date"}, {NULL, NULL}},
	 {{"", "none", TL_COPY, NULL, 0}, {NULL, NULL, 0, NULL, 0}},
	 {{"", "line-start"}, {"x ", "blank"}, {NULL, NULL}},
	 {{"", "end"}, {" y", "blank"}, {NULL, NULL}}, 1, NULL},
	{"blank-padded-date", 7, {"-i", "%Y% m% d", "-f", "%F", NULL},
	 {{"2012 3 1", "both-padded"}, {"20121231", "none-padded"}, {"2012 312", "month-padded"}, {"201212 1", "day-padded"}, {NULL, NULL}},
	 {{"", "none", TL_COPY, NULL, 0}, {NULL, NULL, 0, NULL, 0}},
	 {{"", "line-start"}, {"x ", "blank"}, {NULL, NULL}},
	 {{"", "end"}, {" y", "blank"}, {NULL, NULL}}, 0, NULL},
	{"blank-padded-time", 1, {"-i", "%H% M% S", "-f", "%T", NULL},
	 {{"12 4 5", "both-padded"}, {"121314", "none-padded"}, {NULL, NULL}},
	 {{"", "none", TL_COPY, NULL, 0}, {NULL, NULL, 0, NULL, 0}},
	 {{"", "line-start"}, {"x ", "blank"}, {NULL, NULL}},
	 {{"", "end"}, {" y", "blank"}, {NULL, NULL}}, 0, NULL},
	/* calendar names as -i: the time of day behind the date belongs to the value (dadd +1s shows it) */
	{"calendar-name-ymd", 2, {"-i", "ymd", NULL},
	 {{"2012-02-29T23:59:59", "date-time"}, {"2012-02-29", "date"}, {NULL, NULL}},
	 {{"", "none", TL_COPY, NULL, 0}, {NULL, NULL, 0, NULL, 0}},
	 {{"", "line-start"}, {"x ", "blank"}, {NULL, NULL}},
	 {{"", "end"}, {" y", "blank"}, {NULL, NULL}}, 1, "+1s"},
	{"calendar-name-yd", 2, {"-i", "yd", NULL},
	 {{"2012-060T23:59:59", "date-time"}, {"2012-060", "date"}, {NULL, NULL}},
	 {{"", "none", TL_COPY, NULL, 0}, {NULL, NULL, 0, NULL, 0}},
	 {{"", "line-start"}, {"x ", "blank"}, {NULL, NULL}},
	 {{"", "end"}, {" y", "blank"}, {NULL, NULL}}, 1, "+1s"},
	{"calendar-name-ywd", 2, {"-i", "ywd", NULL},
	 {{"2012-W09-3T23:59:59", "date-time"}, {"2012-W09-3", "date"}, {NULL, NULL}},
	 {{"", "none", TL_COPY, NULL, 0}, {NULL, NULL, 0, NULL, 0}},
	 {{"", "line-start"}, {"x ", "blank"}, {NULL, NULL}},
	 {{"", "end"}, {" y", "blank"}, {NULL, NULL}}, 1, "+1s"},
};
#define NFAM	((int)(sizeof(fams) / sizeof(*fams)))

#if C18_TOOL == 1
# define FAM_TOOLBIT	1
static const char *const fam_extra = NULL;
#elif C18_TOOL == 2
# define FAM_TOOLBIT	2
static const char *const fam_extra = "+1d";
#else
# define FAM_TOOLBIT	4
static const char *const fam_extra = "Mon";
#endif

/* argument mode: TOOL opts VALUE [extra]; result without the newline, or NULL */
static char *fam_argmode1(const struct family *f, const char *value);

/* memo: the argument-mode result depends on (family, value) only */
static char*
fam_argmode(const struct family *f, const char *value)
{
	static struct {
		const struct family *f;
		char v[96];
		char *res;
	} memo[256];
	static int nmemo;
	char *r;
	for (int i = 0; i < nmemo; i++) {
		if (memo[i].f == f && !strcmp(memo[i].v, value)) {
			return memo[i].res ? strdup(memo[i].res) : NULL;
		}
	}
	r = fam_argmode1(f, value);
	if (nmemo < 256) {
		memo[nmemo].f = f;
		snprintf(memo[nmemo].v, sizeof(memo[nmemo].v), "%s", value);
		memo[nmemo].res = r ? strdup(r) : NULL;
		nmemo++;
	}
	return r;
}

static char*
fam_argmode1(const struct family *f, const char *value)
{
	const char *av[16];
	int n = 0;
	struct fs_result r;
	struct fs_opts o;
	static const char *const env[] = {"LC_ALL=C", "TZ=UTC", NULL};
	char *res = NULL;

	av[n++] = TOOLNAME;
	for (int i = 0; f->opts[i]; i++) {
		av[n++] = f->opts[i];
	}
	if (value[0] == '-') {
		av[n++] = "--";
	}
	av[n++] = value;
	if (fam_extra) {
		av[n++] = (FAM_TOOLBIT == 2 && f->dadd_extra) ? f->dadd_extra : fam_extra;
	}
	memset(&o, 0, sizeof(o));
	o.env = env;
	fs_run(tool_main, n, av, &o, &r);
	++*c_eval;
	if (r.exited && r.status == 0 && r.outlen > 1 && r.out[r.outlen - 1] == '\n' && memchr(r.out, '\n', r.outlen - 1) == NULL) {
		res = malloc(r.outlen);
		memcpy(res, r.out, r.outlen - 1);
		res[r.outlen - 1] = '\0';
	}
	fs_free(&r);
	return res;
}

static void
fam_run(const struct family *f, const char *in, size_t len, const int *chunks, int nchunks, struct fs_result *r)
{
	const char *av[16];
	int n = 0;
	struct fs_opts o;
	static const char *const env[] = {"LC_ALL=C", "TZ=UTC", NULL};

	av[n++] = TOOLNAME;
	av[n++] = "-S";
	for (int i = 0; f->opts[i]; i++) {
		av[n++] = f->opts[i];
	}
	if (fam_extra) {
		av[n++] = (FAM_TOOLBIT == 2 && f->dadd_extra) ? f->dadd_extra : fam_extra;
	}
	memset(&o, 0, sizeof(o));
	o.stdin_data = in;
	o.stdin_len = len;
	o.chunks = chunks;
	o.nchunks = nchunks;
	o.env = env;
	o.timeout_s = 10;
	o.out_cap = 1U << 16;
	fs_run(tool_main, n, av, &o, r);
	++*c_eval;
}

static void
fam_cmd(char *cmd, size_t csz, const struct family *f, const char *ein)
{
	size_t k = (size_t)snprintf(cmd, csz, "printf '%s' | %s -S", ein, TOOLNAME);
	for (int i = 0; f->opts[i]; i++) {
		k += (size_t)snprintf(cmd + k, csz - k, " %s%s%s", f->opts[i][0] == '-' ? "" : "'", f->opts[i], f->opts[i][0] == '-' ? "" : "'");
	}
	if (fam_extra) {
		snprintf(cmd + k, csz - k, " %s", (FAM_TOOLBIT == 2 && f->dadd_extra) ? f->dadd_extra : fam_extra);
	}
}

static void
fam_key(char *key, size_t ksz, const struct family *f, const char *kind, int vi, int ti, int pi)
{
	size_t k = (size_t)snprintf(key, ksz, "tool=%s family=%s: %s%s", TOOLNAME, f->name, kind, f->keyparts ? " |" : "");
	if (f->keyparts & 1) {
		k += (size_t)snprintf(key + k, ksz - k, " value=%s", f->val[vi].label);
	}
	if (f->keyparts & 2) {
		k += (size_t)snprintf(key + k, ksz - k, " tail=%s", f->tail[ti].label);
	}
	if (f->keyparts & 4) {
		snprintf(key + k, ksz - k, " prefix=%s", f->pre[pi].label);
	}
}

/* one stream of a family; returns 1 if it was judged */
static int
fam_stream(int fi, int vi, int ti, int pi, int si, int nl, int maxcuts, int replay, const int *rchunks, int nrch)
{
	const struct family *f = fams + fi;
	const struct ftail *t = f->tail + ti;
	char in[160], expa[200], expb[200], ein[400], eo[800], ea[400], key[256], cas[96], cmd[600];
	char *rv, *rv2 = NULL, *rvz = NULL;
	size_t len, la, lb = 0;
	struct fs_result ref;
	int okA, okB = 0;
	EX_CTR(c_fam, "family_streams");
	EX_CTR(c_skipv, "skipped:family value that the tool's argument mode does not accept");

	if ((rv = fam_argmode(f, f->val[vi].txt)) == NULL) {
		++*c_skipv;
		return 0;
	}
	if (t->kind == TL_VALUE && (rv2 = fam_argmode(f, t->val2)) == NULL) {
		++*c_skipv;
		free(rv);
		return 0;
	}
	len = (size_t)snprintf(in, sizeof(in), "%s%s%s%s%s%s", f->pre[pi].txt, f->val[vi].txt, t->txt, t->kind == TL_VALUE ? t->val2 : "", f->suf[si].txt, nl ? "\n" : "");
	la = (size_t)snprintf(expa, sizeof(expa), "%s%s%s%s%s\n", f->pre[pi].txt, rv, t->txt, t->kind == TL_VALUE ? rv2 : "", f->suf[si].txt);
	if (t->kind == TL_ZONE) {
		char vz[96];
		snprintf(vz, sizeof(vz), "%s%s", f->val[vi].txt, t->txt);
		if ((rvz = fam_argmode(f, vz)) != NULL) {
			lb = (size_t)snprintf(expb, sizeof(expb), "%s%s%s\n", f->pre[pi].txt, rvz, f->suf[si].txt);
		}
	}
	esc(ein, sizeof(ein), in, len);
	fam_cmd(cmd, sizeof(cmd), f, ein);
	snprintf(cas, sizeof(cas), "fam %d %d %d %d %d %d", fi, vi, ti, pi, si, nl);
	++*c_fam;
	++*c_streams;

	fam_run(f, in, len, NULL, 0, &ref);
	++*c_traces;
	ex_outcome(ex_hash_mix(ex_hash(ref.out, ref.outlen), ex_hash(in, len)));
	okA = ref.exited && ref.status == 0 && ref.outlen == la && !memcmp(ref.out, expa, la);
	okB = lb && ref.exited && ref.status == 0 && ref.outlen == lb && !memcmp(ref.out, expb, lb);
	esc(eo, sizeof(eo), ref.out, ref.outlen < 190 ? ref.outlen : 190);
	esc(ea, sizeof(ea), expa, la);
	if (replay) {
		printf("  %s family %s: \"%s\" -> \"%s\" (%s); expected \"%s\"%s\n", TOOLNAME, f->name, ein, eo, fs_ending(&ref), ea, lb ? " or the zone taken into the value" : "");
	}
	if (!okA && !okB) {
		char eb[400] = "";
		if (lb) {
			esc(eb, sizeof(eb), expb, lb);
		}
		fam_key(key, sizeof(key), f, ref.signaled ? "killed" : !ref.exited || ref.status ? "exit status" : "output differs", vi, ti, pi);
		ex_viol(key, (double)(vi * 100 + ti), cas, cmd, "\"%s\" came out as \"%s\" (%s); expected \"%s\"%s%s%s (argument mode turns %s into %s)", ein, eo, fs_ending(&ref), ea,
			lb ? " or, with the zone as part of the value, \"" : "", eb, lb ? "\"" : "", f->val[vi].txt, rv);
	}
	/* independence of the composition */
	if (replay && nrch) {
		struct fs_result r;
		fam_run(f, in, len, rchunks, nrch, &r);
		esc(eo, sizeof(eo), r.out, r.outlen < 190 ? r.outlen : 190);
		printf("  scripted reads: -> \"%s\" (%s)\n", eo, fs_ending(&r));
		if (r.outlen != ref.outlen || memcmp(r.out, ref.out, ref.outlen)) {
			ex_viol("composition-dependent", 0, cas, cmd, "differs from the single read");
		}
		fs_free(&r);
	} else if (!replay) {
		int L = (int)len;
		for (int c1 = 1; c1 < L && maxcuts >= 1 && !ex.expired; c1++) {
			for (int c2 = c1; c2 < (maxcuts >= 2 ? L : c1 + 1); c2++) {
				int chunks[3], nch = 0;
				struct fs_result r;
				chunks[nch++] = c1;
				if (c2 > c1) {
					chunks[nch++] = c2 - c1;
				}
				chunks[nch++] = L - c2;
				fam_run(f, in, len, chunks, nch, &r);
				++*c_states;
				++*c_trans;
				++*c_traces;
				++*c_nontriv;
				if (r.outlen != ref.outlen || memcmp(r.out, ref.out, ref.outlen) || r.exited != ref.exited || r.status != ref.status) {
					char er[800], cs2[160];
					esc(er, sizeof(er), r.out, r.outlen < 190 ? r.outlen : 190);
					snprintf(cs2, sizeof(cs2), "%s %d %d %d", cas, chunks[0], chunks[1], nch > 2 ? chunks[2] : 0);
					fam_key(key, sizeof(key), f, "composition-dependent output", vi, ti, pi);
					ex_viol(key, (double)(vi * 100 + ti), cs2, cmd, "\"%s\" delivered with cuts at %d%s: \"%s\" (%s), in one read \"%s\"", ein, c1, c2 > c1 ? " and further" : "", er, fs_ending(&r), eo);
				}
				fs_free(&r);
			}
			if (ex.deadline > 0 && ex_now() > ex.deadline) {
				ex.expired = 1;
			}
		}
	}
	fs_free(&ref);
	free(rv);
	free(rv2);
	free(rvz);
	return 1;
}

static void
fam_all(void)
{
	uint64_t id = 2000003;
	int maxcuts = ex.thorough ? 2 : 1;
	for (int fi = 0; fi < NFAM && !ex_expired(); fi++) {
		const struct family *f = fams + fi;
		if (!(f->tools & FAM_TOOLBIT)) {
			continue;
		}
		for (int vi = 0; f->val[vi].txt; vi++) {
			for (int ti = 0; f->tail[ti].txt; ti++) {
				if (f->tail[ti].vmask && !(f->tail[ti].vmask & (1U << vi))) {
					continue;
				}
				for (int pi = 0; f->pre[pi].txt; pi++) {
					for (int si = 0; f->suf[si].txt; si++) {
						for (int nl = 1; nl >= 0; nl--) {
							if (!ex_mine(id++) || ex.expired) {
								continue;
							}
							/* quick: the compositions only for the newline-terminated variant */
							fam_stream(fi, vi, ti, pi, si, nl, (nl || ex.thorough) ? maxcuts : 0, 0, NULL, 0);
							if (ex_want_sample()) {
								ex_sample("%s family %s: prefix '%s' value '%s' tail '%s' suffix '%s'%s", TOOLNAME, f->name, f->pre[pi].txt, f->val[vi].txt,
									  f->tail[ti].txt, f->suf[si].txt, nl ? "" : " (no final newline)");
							}
						}
					}
				}
			}
		}
	}
}

#endif
