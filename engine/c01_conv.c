/* c01_conv.c -- C01: conversions agree with the proleptic Gregorian / ISO 8601 calendar.
 *
 * Form A (DESIGN.md §2): the reference calendar is a successor machine; all
 * of its 911,280 states are enumerated; in every state the implementation is
 * handed the day in every source representation (through the public parser,
 * exactly as dconv does) and asked for every target calendar / day number /
 * specifier; every answer must agree with the state.
 * Binding (level B): the dconv binary of the same scratch build converts all
 * 911,280 days from stdin for a list of (source, target) pairs; its output
 * must be byte-identical to what the library-level exploration observed. */
#include "impl.h"
#include "explore.h"
#include "refcal.h"

enum { S_YMD, S_YWD, S_YD, S_YMCW, S_LDN, S_JDN, S_MDN, S_AT, S_EPS, NSRC };
static const char *const src_name[NSRC] = {"ymd", "ywd", "yd", "ymcw", "ldn", "jdn", "mdn", "@epoch", "%s"};
/* input format handed to the parser (NULL: the format-less standard parser) */
static const char *const src_fmt[NSRC] = {NULL, NULL, NULL, NULL, "ldn", "jdn", "mdn", NULL, "%s"};

static void
src_text(int s, const struct rc_day *p, char *buf, size_t bsz)
{
	switch (s) {
	case S_YMD: snprintf(buf, bsz, "%04d-%02d-%02d", p->y, p->m, p->d); break;
	case S_YWD: snprintf(buf, bsz, "%04d-W%02d-%d", p->isoy, p->isow, p->wd); break;
	case S_YD: snprintf(buf, bsz, "%04d-%03d", p->y, p->yday); break;
	case S_YMCW: snprintf(buf, bsz, "%04d-%02d-%02d-%02d", p->y, p->m, p->mcnt, p->wd); break;
	case S_LDN: snprintf(buf, bsz, "%lld", (long long)rc_ldn(p->rd)); break;
	case S_JDN: snprintf(buf, bsz, "%.1f", rc_jdn(p->rd)); break;
	case S_MDN: snprintf(buf, bsz, "%lld", (long long)rc_mdn(p->rd)); break;
	case S_AT: snprintf(buf, bsz, "@%lld", (long long)p->unixd * 86400LL); break;
	case S_EPS: snprintf(buf, bsz, "%lld", (long long)p->unixd * 86400LL); break;
	}
}

/* outputs */
enum okind { K_YMD, K_YWD, K_YD, K_YMCW, K_INT, K_JDN, K_STR, K_WDAY };
struct out_s {
	const char *fmt;
	enum okind kind;
	int field;
};
enum {
	F_LDN, F_MDN, F_EPOCH, F_MCNT, F_YCNT, F_D, F_YDAY, F_G2, F_G, F_M, F_Q, F_WU, F_WV, F_WW, F_Y2, F_Y, F_Y1,
	F_ABBRW, F_LONGW, F_1W, F_ABBRM, F_LONGM, F_1M, F_QQ, F_ROMD, F_ROMM, F_ROMY2, F_ROMY, F_ROMC, F_DTH, F_MTH, F_F,
	F_BD,
};
static const struct out_s outs[] = {
	{"ymd", K_YMD, 0},
	{"ywd", K_YWD, 0},
	{"yd", K_YD, 0},
	{"ymcw", K_YMCW, 0},
	{"ldn", K_INT, F_LDN},
	{"lilian", K_INT, F_LDN},
	{"jdn", K_JDN, 0},
	{"julian", K_JDN, 0},
	{"mdn", K_INT, F_MDN},
	{"matlab", K_INT, F_MDN},
	{"%s", K_INT, F_EPOCH},
	{"%a", K_STR, F_ABBRW},
	{"%A", K_STR, F_LONGW},
	{"%_a", K_STR, F_1W},
	{"%b", K_STR, F_ABBRM},
	{"%B", K_STR, F_LONGM},
	{"%_b", K_STR, F_1M},
	{"%c", K_INT, F_MCNT},
	{"%C", K_INT, F_YCNT},
	{"%d", K_INT, F_D},
	{"%D", K_INT, F_YDAY},
	{"%j", K_INT, F_YDAY},
	{"%F", K_STR, F_F},
	{"%g", K_INT, F_G2},
	{"%G", K_INT, F_G},
	{"%m", K_INT, F_M},
	{"%Q", K_STR, F_QQ},
	{"%q", K_INT, F_Q},
	{"%u", K_WDAY, 0},
	{"%U", K_INT, F_WU},
	{"%V", K_INT, F_WV},
	{"%w", K_WDAY, 0},
	{"%W", K_INT, F_WW},
	{"%y", K_INT, F_Y2},
	{"%Y", K_INT, F_Y},
	{"%_y", K_INT, F_Y1},
	{"%Od", K_STR, F_ROMD},
	{"%Om", K_STR, F_ROMM},
	{"%Oy", K_STR, F_ROMY2},
	{"%OY", K_STR, F_ROMY},
	{"%Oc", K_STR, F_ROMC},
	{"%dth", K_STR, F_DTH},
	{"%mth", K_STR, F_MTH},
	{"%db", K_STR, F_BD},
};
#define NOUT	((int)(sizeof(outs) / sizeof(*outs)))

static long long
exp_int(int f, const struct rc_day *p)
{
	switch (f) {
	case F_LDN: return rc_ldn(p->rd);
	case F_MDN: return rc_mdn(p->rd);
	case F_EPOCH: return (long long)p->unixd * 86400LL;
	case F_MCNT: return p->mcnt;
	case F_YCNT: return p->ycnt;
	case F_D: return p->d;
	case F_YDAY: return p->yday;
	case F_G2: return p->isoy % 100;
	case F_G: return p->isoy;
	case F_M: return p->m;
	case F_Q: return p->q;
	case F_WU: return p->wU;
	case F_WV: return p->isow;
	case F_WW: return p->wW;
	case F_Y2: return p->y % 100;
	case F_Y: return p->y;
	case F_Y1: return p->y % 10;
	}
	return -1;
}

static void
exp_str(int f, const struct rc_day *p, char *buf, size_t bsz)
{
	switch (f) {
	case F_ABBRW: snprintf(buf, bsz, "%s", rc_abbr_wday[p->wd]); break;
	case F_LONGW: snprintf(buf, bsz, "%s", rc_long_wday[p->wd]); break;
	case F_1W: snprintf(buf, bsz, "%c", "?MTWRFAS"[p->wd]); break;
	case F_ABBRM: snprintf(buf, bsz, "%s", rc_abbr_mon[p->m]); break;
	case F_LONGM: snprintf(buf, bsz, "%s", rc_long_mon[p->m]); break;
	case F_1M: snprintf(buf, bsz, "%c", "?FGHJKMNQUVXZ"[p->m]); break;
	case F_QQ: snprintf(buf, bsz, "Q%d", p->q); break;
	case F_ROMD: vf_roman(buf, p->d); break;
	case F_ROMM: vf_roman(buf, p->m); break;
	case F_ROMY2: vf_roman(buf, p->y % 100); break;
	case F_ROMY: vf_roman(buf, p->y); break;
	case F_ROMC: vf_roman(buf, p->mcnt); break;
	case F_DTH: snprintf(buf, bsz, "%d%s", p->d, vf_ordsuf(p->d)); break;
	case F_MTH: snprintf(buf, bsz, "%d%s", p->m, vf_ordsuf(p->m)); break;
	case F_F: snprintf(buf, bsz, "%04d-%02d-%02d", p->y, p->m, p->d); break;
	case F_BD: snprintf(buf, bsz, "%02db", p->bd); break;
	}
}

/* split TEXT into unsigned integer fields; skeleton of the rest goes to SK */
static int
scan_ints(const char *s, long long v[], int maxv, char *sk, size_t sksz)
{
	int n = 0;
	size_t k = 0;
	while (*s) {
		if (*s >= '0' && *s <= '9') {
			long long x = 0;
			while (*s >= '0' && *s <= '9') {
				x = x * 10 + (*s++ - '0');
			}
			if (n < maxv) {
				v[n] = x;
			}
			n++;
		} else {
			if (k + 1 < sksz) {
				sk[k++] = *s;
			}
			s++;
		}
	}
	sk[k] = '\0';
	return n;
}

/* judge one output; returns 0 if it agrees, else fills EXP.
 * Epoch sources denote date-times (midnight UTC): the calendar outputs then
 * carry a T00:00:00 and the day numbers a .000000, which is stripped first. */
static int
judge(const struct out_s *o, const struct rc_day *p, const char *got0, char *exp, size_t esz, int epoch_src)
{
	long long v[8];
	char sk[16];
	char gotb[128];
	const char *got = got0;
	int n;

	if (epoch_src) {
		size_t l = strlen(got0);
		const char *suf = (o->kind == K_INT || o->kind == K_JDN) ? ".000000" : "T00:00:00";
		size_t sl = strlen(suf);
		if (o->kind <= K_YMCW || ((o->kind == K_INT) && (o->field == F_LDN || o->field == F_MDN))) {
			if (l >= sl && l < sizeof(gotb) && !strcmp(got0 + l - sl, suf)) {
				memcpy(gotb, got0, l - sl);
				gotb[l - sl] = '\0';
				got = gotb;
			}
		}
	}

	switch (o->kind) {
	case K_YMD:
		snprintf(exp, esz, "%04d-%02d-%02d", p->y, p->m, p->d);
		n = scan_ints(got, v, 8, sk, sizeof(sk));
		return !(n == 3 && !strcmp(sk, "--") && v[0] == p->y && v[1] == p->m && v[2] == p->d);
	case K_YWD:
		snprintf(exp, esz, "%04d-W%02d-%d", p->isoy, p->isow, p->wd);
		n = scan_ints(got, v, 8, sk, sizeof(sk));
		return !(n == 3 && !strcmp(sk, "-W-") && v[0] == p->isoy && v[1] == p->isow && v[2] == p->wd);
	case K_YD:
		snprintf(exp, esz, "%04d-%03d", p->y, p->yday);
		n = scan_ints(got, v, 8, sk, sizeof(sk));
		return !(n == 2 && !strcmp(sk, "-") && v[0] == p->y && v[1] == p->yday);
	case K_YMCW:
		snprintf(exp, esz, "%04d-%02d-%02d-%02d", p->y, p->m, p->mcnt, p->wd);
		n = scan_ints(got, v, 8, sk, sizeof(sk));
		return !(n == 4 && !strcmp(sk, "---") && v[0] == p->y && v[1] == p->m && v[2] == p->mcnt &&
			 (v[3] == p->wd || (p->wd == 7 && v[3] == 0)));
	case K_INT: {
		long long e = exp_int(o->field, p);
		char *ep;
		long long g;
		snprintf(exp, esz, "%lld", e);
		if (*got == '\0') {
			return 1;
		}
		g = strtoll(got, &ep, 10);
		return !(*ep == '\0' && g == e && (got[0] != '-' || e < 0));
	}
	case K_JDN: {
		char *ep;
		double g;
		snprintf(exp, esz, "%.1f", rc_jdn(p->rd));
		if (*got == '\0') {
			return 1;
		}
		g = strtod(got, &ep);
		return !(*ep == '\0' && g == rc_jdn(p->rd));
	}
	case K_WDAY: {
		/* reading: Sunday may print as 0 or 7, padding is free */
		snprintf(exp, esz, "%d", p->wd);
		if (!vf_all_digits(got)) {
			return 1;
		}
		n = atoi(got);
		return !(n == p->wd || (p->wd == 7 && n == 0));
	}
	case K_STR:
		exp_str(o->field, p, exp, esz);
		return strcmp(got, exp) != 0;
	}
	return 1;
}

static int
nontrivial_day(const struct rc_day *p)
{
	return p->isoy != p->y || (p->m == 2 && p->d == 29) || (p->m == 12 && p->d == 31) ||
		(p->m == 1 && p->d == 1) || p->rd >= 910674 - 1 || (p->y % 100 == 0 && p->m <= 3);
}

static void
mk_cmd(char *cmd, size_t csz, int s, const char *text, const char *ofmt)
{
	if (src_fmt[s]) {
		snprintf(cmd, csz, "dconv -i '%s' -f '%s' '%s'", src_fmt[s], ofmt, text);
	} else {
		snprintf(cmd, csz, "dconv -f '%s' '%s'", ofmt, text);
	}
}

/* one (state, source): parse, then every output */
static int
do_day_src(const struct rc_day *p, int s, int only_out, int replay)
{
	char text[64], got[128], exp[128], key[128], cas[64], cmd[256];
	struct dt_dt_s v;
	char *ep = NULL;
	int bad = 0;
	EX_CTR(c_eval, "evaluations");
	EX_CTR(c_trans, "transitions");

	src_text(s, p, text, sizeof(text));
	v = dt_strpdt(text, src_fmt[s], &ep);
	++*c_eval;
	/* whether the whole text is consumed is C09's business, not C01's */
	if (dt_unk_p(v)) {
		snprintf(key, sizeof(key), "parse src=%s", src_name[s]);
		snprintf(cas, sizeof(cas), "%d -1 %d", s, p->rd);
		mk_cmd(cmd, sizeof(cmd), s, text, "%F");
		ex_viol(key, p->rd, cas, cmd, "day %04d-%02d-%02d: source text '%s' (%s) is not accepted by the parser",
			p->y, p->m, p->d, text, src_name[s]);
		if (replay) {
			printf("  source text '%s' rejected\n", text);
		}
		return 1;
	}
	for (int o = 0; o < NOUT; o++) {
		size_t n;
		if (only_out >= 0 && o != only_out) {
			continue;
		}
		if (outs[o].field == F_BD && outs[o].kind == K_STR && !p->isbd) {
			/* reading: a weekend day has no business-day name */
			EX_CTR(c_skip, "skipped:%db on a weekend day (no business-day name)");
			++*c_skip;
			continue;
		}
		memset(got, 0, sizeof(got));
		n = dt_strfdt(got, sizeof(got), outs[o].fmt, v);
		++*c_eval;
		++*c_trans;
		(void)n;
		ex_outcome(ex_hash_mix(ex_hash(got, strlen(got)), (uint64_t)o));
		if (judge(outs + o, p, got, exp, sizeof(exp), s == S_AT || s == S_EPS)) {
			bad++;
			snprintf(key, sizeof(key), "conv src=%s out=%s", src_name[s], outs[o].fmt);
			snprintf(cas, sizeof(cas), "%d %d %d", s, o, p->rd);
			mk_cmd(cmd, sizeof(cmd), s, text, outs[o].fmt);
			ex_viol(key, p->rd, cas, cmd, "day %04d-%02d-%02d given as '%s' (%s) printed with '%s': got '%s', calendar says '%s'",
				p->y, p->m, p->d, text, src_name[s], outs[o].fmt, got, exp);
			if (replay) {
				printf("  day %04d-%02d-%02d given as '%s' (%s) printed with '%s': got '%s', calendar says '%s'\n",
				       p->y, p->m, p->d, text, src_name[s], outs[o].fmt, got, exp);
			}
		} else if (replay) {
			printf("  day %04d-%02d-%02d given as '%s' (%s) printed with '%s': got '%s' (agrees)\n",
			       p->y, p->m, p->d, text, src_name[s], outs[o].fmt, got);
		}
	}
	return bad;
}

/* ---- binding: the dconv binary over all days ---- */
struct bind_s {
	int src;
	const char *ofmt;
};
static const struct bind_s binds[] = {
	{S_YMD, "ywd"}, {S_YMD, "yd"}, {S_YMD, "ymcw"}, {S_YMD, "ldn"}, {S_YMD, "jdn"}, {S_YMD, "mdn"},
	{S_YMD, "%s"}, {S_YWD, "%F"}, {S_YD, "%F"}, {S_YMCW, "%F"}, {S_LDN, "%F"}, {S_JDN, "%F"},
	{S_MDN, "%F"}, {S_EPS, "%F"}, {S_YMD, "%a %b %c %C %j %g %G %Q %q %u %U %V %w %W"},
	{S_YWD, "%a %b %c %C %j %F %Q %q %u %U %V %w %W %y"},
	/* thorough only from here */
	{S_YD, "ywd"}, {S_YD, "ymcw"}, {S_YMCW, "ywd"}, {S_YMCW, "yd"}, {S_YWD, "yd"}, {S_YWD, "ymcw"},
	{S_LDN, "ywd"}, {S_JDN, "ymcw"}, {S_MDN, "yd"}, {S_YWD, "ldn"}, {S_YD, "jdn"}, {S_YMCW, "mdn"},
	{S_YD, "%a %b %c %C %j %F %Q %q %u %U %V %w %W %y"},
	{S_YMCW, "%a %b %c %C %j %F %Q %q %u %U %V %w %W %y"},
	{S_LDN, "%a %b %c %C %j %F %Q %q %u %U %V %w %W %y"},
	{S_YWD, "%s"}, {S_YD, "%s"}, {S_YMCW, "%s"},
};
#define NBIND_QUICK	16
#define NBIND		((int)(sizeof(binds) / sizeof(*binds)))

static void
do_binding(int k)
{
	char fin[512], fout[512], cmd[2048], line[256], got[256], text[64], key[256], cas[64];
	const char *rundir = getenv("VERIF_RUNDIR");
	const struct bind_s *b = binds + k;
	FILE *f;
	int rd, rd0, nlines = 0, rc;
	EX_CTR(c_bind, "cli_binding_replays");
	EX_CTR(c_bindln, "cli_binding_lines");

	if (rundir == NULL || ex.tree == NULL) {
		return;
	}
	snprintf(fin, sizeof(fin), "%s/c01bind.%d.in", rundir, k);
	snprintf(fout, sizeof(fout), "%s/c01bind.%d.out", rundir, k);
	if ((f = fopen(fin, "w")) == NULL) {
		return;
	}
	/* the stdin needle for %s is a run of digits (no sign): negative epochs are
	 * outside what the stream mode claims, so that pair starts at 1970-01-02 */
	rd0 = b->src == S_EPS ? RC_RD_1970 + 1 : 0;
	for (rd = rd0; rd < RC_NDAYS; rd++) {
		src_text(b->src, rc_get(rd), text, sizeof(text));
		fprintf(f, "%s\n", text);
	}
	fclose(f);
	if (src_fmt[b->src]) {
		snprintf(cmd, sizeof(cmd), "'%s/src/dconv' -i '%s' -f '%s' < '%s' > '%s' 2>/dev/null",
			 ex.tree, src_fmt[b->src], b->ofmt, fin, fout);
	} else {
		snprintf(cmd, sizeof(cmd), "'%s/src/dconv' -f '%s' < '%s' > '%s' 2>/dev/null",
			 ex.tree, b->ofmt, fin, fout);
	}
	rc = system(cmd);
	(void)rc;
	++*c_bind;
	snprintf(key, sizeof(key), "binding dconv src=%s out=%s", src_name[b->src], b->ofmt);
	if ((f = fopen(fout, "r")) == NULL) {
		ex_viol(key, 0, "", cmd, "no output from the binary");
		return;
	}
	for (rd = rd0; rd < RC_NDAYS && fgets(line, sizeof(line), f); rd++) {
		const struct rc_day *p = rc_get(rd);
		struct dt_dt_s v;
		size_t l = strlen(line);
		if (l && line[l - 1] == '\n') {
			line[l - 1] = '\0';
		}
		nlines++;
		src_text(b->src, p, text, sizeof(text));
		v = dt_strpdt(text, src_fmt[b->src], NULL);
		memset(got, 0, sizeof(got));
		if (!dt_unk_p(v)) {
			dt_strfdt(got, sizeof(got), b->ofmt, v);
		}
		++*c_bindln;
		if (strcmp(got, line)) {
			snprintf(cas, sizeof(cas), "bind %d %d", k, rd);
			ex_viol(key, rd, cas, cmd, "line %d ('%s'): binary printed '%s', library-level exploration observed '%s'",
				rd + 1, text, line, got);
		}
	}
	fclose(f);
	if (nlines != RC_NDAYS - rd0) {
		ex_viol(key, nlines, "", cmd, "binary printed %d lines for %d input lines", nlines, RC_NDAYS - rd0);
	}
	unlink(fin);
	unlink(fout);
}

int
main(int argc, char *argv[])
{
	EX_CTR(c_states, "states");
	EX_CTR(c_traces, "traces");
	EX_CTR(c_nontriv, "nontrivial");

	ex_init(argc, argv);
	rc_selfcheck();

	if (ex.cas) {
		int s, o, rd;
		if (!strncmp(ex.cas, "bind ", 5)) {
			int k;
			if (sscanf(ex.cas + 5, "%d %d", &k, &rd) != 2 || k < 0 || k >= NBIND) {
				return ex_replay_result(1, "bad case");
			}
			/* replay at library level of that line plus the binary on that single line */
			char text[64], cmd[1024], got[256] = "", line[256] = "";
			const struct bind_s *b = binds + k;
			FILE *pp;
			struct dt_dt_s v;
			src_text(b->src, rc_get(rd), text, sizeof(text));
			v = dt_strpdt(text, src_fmt[b->src], NULL);
			if (!dt_unk_p(v)) {
				dt_strfdt(got, sizeof(got), b->ofmt, v);
			}
			snprintf(cmd, sizeof(cmd), "echo '%s' | '%s/src/dconv' %s%s%s -f '%s' 2>/dev/null", text, ex.tree,
				 src_fmt[b->src] ? "-i '" : "", src_fmt[b->src] ? src_fmt[b->src] : "", src_fmt[b->src] ? "'" : "", b->ofmt);
			if ((pp = popen(cmd, "r"))) {
				if (fgets(line, sizeof(line), pp)) {
					line[strcspn(line, "\n")] = '\0';
				}
				pclose(pp);
			}
			printf("  binary '%s' library '%s'\n", line, got);
			return ex_replay_result(strcmp(line, got) != 0, "binding %s -> %s line %d", src_name[b->src], b->ofmt, rd + 1);
		}
		if (sscanf(ex.cas, "%d %d %d", &s, &o, &rd) != 3 || s < 0 || s >= NSRC || o >= NOUT || rd < 0 || rd >= RC_NDAYS) {
			return ex_replay_result(1, "bad case string '%s'", ex.cas);
		}
		return ex_replay_result(do_day_src(rc_get(rd), s, o, 1) != 0, "src=%s out=%s rd=%d", src_name[s], o >= 0 ? outs[o].fmt : "-", rd);
	}

	ex_meta("rule", "every state (day) of the reference successor machine 1601-01-01..4095-12-31 x %d source representations "
		"(text through the public parser: ymd ywd yd ymcw ldn jdn mdn @epoch %%s) x %d outputs (calendar names, day numbers, %%s, "
		"every date specifier); oracle: parsed fields equal the model state (Sunday 0|7 and padding free, names English). "
		"non-trivial = day whose ISO year differs from its Gregorian year, Feb 29, Dec 31, Jan 1, Jan-Mar of a century year, "
		"or beyond the Neri-Schneider guard (day count >= 910674)", NSRC, NOUT);
	ex_meta("bound", "all 911,280 days (both tiers); binding pairs: %d (quick) / %d (thorough)", NBIND_QUICK, NBIND);
	ex_meta("binding", "dconv binary of the same build, all 911,280 days on stdin per (source,target) pair, byte-compared with the library-level observation");

	/* slices: one per year */
	for (int y = RC_MIN_YEAR; y <= RC_MAX_YEAR && !ex_expired(); y++) {
		if (!ex_mine((uint64_t)(y - RC_MIN_YEAR))) {
			continue;
		}
		for (int rd = rc_yearstart[y]; rd < rc_yearstart[y + 1]; rd++) {
			const struct rc_day *p = rc_get(rd);
			++*c_states;
			if (nontrivial_day(p)) {
				++*c_nontriv;
			}
			for (int s = 0; s < NSRC; s++) {
				do_day_src(p, s, -1, 0);
			}
			if (ex_want_sample()) {
				ex_sample("state %04d-%02d-%02d (wd %d, yday %d, ISO %04d-W%02d, %%U %d %%W %d) x %d sources x %d outputs",
					  p->y, p->m, p->d, p->wd, p->yday, p->isoy, p->isow, p->wU, p->wW, NSRC, NOUT);
			}
		}
		/* one trace = the day chain of one year, every step compared */
		++*c_traces;
	}
	{
		int nb = ex.thorough ? NBIND : NBIND_QUICK;
		for (int k = 0; k < nb && !ex_expired(); k++) {
			if (ex_mine((uint64_t)k)) {
				do_binding(k);
			}
		}
	}
	return ex_finish();
}
