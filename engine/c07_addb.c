/* c07_addb.c -- C07 (part 1): adding n business days.
 *
 * Model: the reference successor machine restricted to Monday-Friday days
 * (c07_common.h).  From every state (day, weekend starts included) written in
 * every calendar that can name it, "+Nb" / "-Nb" (duration text through
 * dt_io_strpdtdur, applied by dt_dtadd as dadd does) must land on the N-th
 * Monday-Friday day strictly after / strictly before the start, observed as
 * day count (dt_dconv DT_DAISY), as default output in the input's calendar
 * and as %F.
 * Binding: the dadd binary adds a list of business-day counts to all days on
 * stdin per input calendar and must print what the library level observed. */
#include "impl.h"
#include "explore.h"
#include "refcal.h"
#include "c03_common.h"
#include "c07_common.h"

enum { O_DAISY, O_DFLT, O_F, NOBS };
static const char *const obs_name[NOBS] = {"daisy", "dflt", "%F"};

/* the closed form lib/bizda.c:__get_d_equiv is periodic in n mod 5 but has
 * magic offsets (384): the counts go well beyond them */
#define RANGE_QUICK	30	/* quick: on all days */
#define RANGE_WIDE	800	/* quick: on the days of the four 8-year windows; thorough: on all days */
#define MAXN		2048
static int ns[MAXN], nn;		/* on all days */
static struct durs_s nd[MAXN];
static int ws[MAXN], nw;		/* quick: additionally on the window days */
static struct durs_s wd[MAXN];
static const int bigs[] = {383, 384, 385, 386, 389, 390, 391, 500, 640, 1000, 1279, 1280, 1281, 2600, 5000, 10000};
#define NBIGS	((int)(sizeof(bigs) / sizeof(*bigs)))

static void
mk_one(struct durs_s *d, int n)
{
	char txt[32];
	snprintf(txt, sizeof(txt), "%+db", n);
	if (mk_durs(d, txt) < 0 || d->n != 1) {
		fprintf(stderr, "BROKEN-CHECK: duration text '%s' not accepted by dt_io_strpdtdur\n", txt);
		exit(3);
	}
}

static void
mk_tables(void)
{
	int range = ex.thorough ? RANGE_WIDE : RANGE_QUICK;

	/* simplest first: +1, -1, +2, -2, ... (n != 0 by the statement) */
	for (int n = 1; n <= range; n++) {
		ns[nn++] = n;
		ns[nn++] = -n;
	}
	for (int i = 0; i < NBIGS; i++) {
		if (bigs[i] > range) {
			ns[nn++] = bigs[i];
			ns[nn++] = -bigs[i];
		}
	}
	if (!ex.thorough) {
		for (int n = range + 1; n <= RANGE_WIDE; n++) {
			int dup = 0;
			for (int i = 0; i < NBIGS; i++) {
				dup |= bigs[i] == n;
			}
			if (!dup) {
				ws[nw++] = n;
				ws[nw++] = -n;
			}
		}
	}
	for (int i = 0; i < nn; i++) {
		mk_one(&nd[i], ns[i]);
	}
	for (int i = 0; i < nw; i++) {
		mk_one(&wd[i], ws[i]);
	}
}

static uint64_t *c_eval, *c_trans, *c_nontriv, *c_skip_range, *c_memo, *c_wkstart;

/* see c03_add.c: a result value already observed to agree for the same
 * (calendar, target) in this year slice is not observed again */
#define MEMO_PAD	2048
#define MEMO_SZ		(366 + 2 * MEMO_PAD)
static struct dt_dt_s memo_v[NCAL][MEMO_SZ];
static uint8_t memo_ok[NCAL][MEMO_SZ];
static int memo_base;

static void
memo_reset(int rd0)
{
	memo_base = rd0 - MEMO_PAD;
	memset(memo_ok, 0, sizeof(memo_ok));
}

static int
do_case(const struct rc_day *p, int c, struct dt_dt_s v, int n, const struct durs_s *ds, int replay)
{
	int trd = bz_target(p->rd, n);
	const struct rc_day *t;
	struct dt_dt_s r;
	char got[NOBS][64];
	int ok[NOBS];
	int bad = 0;
	long mi;
	unsigned int daisy;
	char sign = n > 0 ? '+' : '-';

	if (trd < 0) {
		++*c_skip_range;
		if (replay) {
			printf("  result outside 1601..4095: outside the property\n");
		}
		return 0;
	}
	t = rc_get(trd);
	r = apply_durs(v, ds);
	++*c_eval;
	++*c_trans;
	if (!p->isbd) {
		/* weekend start: the first step is shorter than a business day */
		++*c_wkstart;
	}
	if (!p->isbd || t->m != p->m || (n > 0 ? t->wd < p->wd : t->wd > p->wd) || n >= 5 || n <= -5) {
		/* a weekend lies between start and target, or the month changes */
		++*c_nontriv;
	}
	mi = (long)trd - memo_base;
	if (!replay && mi >= 0 && mi < MEMO_SZ && memo_ok[c][mi] && !memcmp(&memo_v[c][mi], &r, sizeof(r))) {
		++*c_memo;
		return 0;
	}
	daisy = obs_daisy(r);
	snprintf(got[O_DAISY], sizeof(got[O_DAISY]), "%u", daisy);
	ok[O_DAISY] = !dt_unk_p(r) && daisy == (unsigned int)trd + 1U;
	memset(got[O_DFLT], 0, sizeof(got[O_DFLT]));
	dt_strfdt(got[O_DFLT], sizeof(got[O_DFLT]), NULL, r);
	ok[O_DFLT] = dflt_agrees(c, t, got[O_DFLT]);
	memset(got[O_F], 0, sizeof(got[O_F]));
	dt_strfdt(got[O_F], sizeof(got[O_F]), "%F", r);
	ok[O_F] = ymd_agrees(t, got[O_F]);
	*c_eval += 3;
	ex_outcome(ex_hash_mix(ex_hash(got[O_DFLT], strlen(got[O_DFLT])), ex_hash(got[O_F], strlen(got[O_F])) + daisy));
	if (ok[O_DAISY] && ok[O_DFLT] && ok[O_F] && mi >= 0 && mi < MEMO_SZ && !memo_ok[c][mi]) {
		memo_v[c][mi] = r;
		memo_ok[c][mi] = 1;
	}

	for (int o = 0; o < NOBS; o++) {
		char key[128];
		if (ok[o] && !replay) {
			continue;
		}
		if (!ok[o]) {
			bad++;
		}
		snprintf(key, sizeof(key), "addb cal=%s sign=%c start=%s obs=%s", cal_name[c], sign, p->isbd ? "weekday" : "weekend", obs_name[o]);
		if (!ok[o] && !ex_viol_known(key, (double)trd)) {
			char text[48], cas[64], cmd[256], dtxt[32], exp[64];
			cal_text(c, p, text, sizeof(text));
			snprintf(dtxt, sizeof(dtxt), "%+db", n);
			snprintf(cas, sizeof(cas), "%d %d %d", c, n, p->rd);
			const char *cmdp = dadd_cmd(cmd, sizeof(cmd), c, text, dtxt, o == O_F ? "%F" : NULL);
			if (o == O_DAISY) {
				snprintf(exp, sizeof(exp), "%d", trd + 1);
			} else if (o == O_DFLT) {
				exp_dflt(c, t, exp, sizeof(exp));
			} else {
				snprintf(exp, sizeof(exp), "%04d-%02d-%02d", t->y, t->m, t->d);
			}
			ex_viol(key, (double)trd, cas, o == O_DAISY ? NULL : cmdp,
				"%04d-%02d-%02d (%s) given as '%s' (%s) %s: %s observation is '%s'; the %d%s Monday-Friday day strictly %s it is %04d-%02d-%02d (%s) = '%s'",
				p->y, p->m, p->d, rc_abbr_wday[p->wd], text, cal_name[c], dtxt, obs_name[o], got[o],
				n > 0 ? n : -n, vf_ordsuf(n > 0 ? n : -n), n > 0 ? "after" : "before",
				t->y, t->m, t->d, rc_abbr_wday[t->wd], exp);
		}
		if (replay) {
			printf("  %04d-%02d-%02d %s (%s) %+db -> target %04d-%02d-%02d %s; %s observation '%s' %s\n",
			       p->y, p->m, p->d, rc_abbr_wday[p->wd], cal_name[c], n, t->y, t->m, t->d, rc_abbr_wday[t->wd],
			       obs_name[o], got[o], ok[o] ? "(agrees)" : "DISAGREES");
		}
	}
	return bad;
}

/* ---- CHAIN: several durations in ONE invocation ----
 * dadd collects its duration arguments (and, with a date argument only, the durations of
 * each stdin line) into one list through dt_io_strpdtdur()/__add_dur() with one parser
 * state and applies them one after the other (dadd.c:dadd_add).  The list builder is tool
 * code (src/dt-io.c), so the chains go through exactly that builder: form=args (one
 * argument per duration) and form=line (one string "+1b -2b", as a stdin line).
 * Model: the single-step oracles composed - b: the n-th Monday-Friday state strictly
 * after/before, d/w: successor steps, mo (ymd ymcw bizda only): consecutive month steps
 * add up (C04: +a +b = +(a+b)) and the day/count/index is cropped when another unit
 * follows or at the end. */
enum { L_B, L_D, L_W, L_MO };
static const char *const lunit_name[] = {"b", "d", "w", "mo"};
struct letter_s {
	char txt[8];
	int unit, n;
};
#define NLET	20
static struct letter_s letters[NLET];
/* 28-day windows of start days: a year end, a leap day / month end, a century-leap year end */
static const int chain_win[][3] = {{2023, 12, 18}, {2024, 2, 15}, {1999, 12, 20}};
#define NCWIN		((int)(sizeof(chain_win) / sizeof(*chain_win)))
#define CWIN_DAYS	28
#define MAXCHAIN	3

static void
mk_letters(void)
{
	int k = 0;
	for (int n = 1; n <= 7; n++) {
		snprintf(letters[k].txt, 8, "%+db", n), letters[k].unit = L_B, letters[k++].n = n;
		snprintf(letters[k].txt, 8, "%+db", -n), letters[k].unit = L_B, letters[k++].n = -n;
	}
	for (int u = L_D; u <= L_MO; u++) {
		snprintf(letters[k].txt, 8, "+1%s", lunit_name[u]), letters[k].unit = u, letters[k++].n = 1;
		snprintf(letters[k].txt, 8, "-1%s", lunit_name[u]), letters[k].unit = u, letters[k++].n = -1;
	}
}

/* the tool's list builder: FORM 0 = one argument per duration, 1 = one string */
static int
chain_durs(struct durs_s *out, const int *ix, int len, int form)
{
	struct __strpdtdur_st_s st = {0};
	char line[64] = "";
	int rc = 0;

	out->n = 0;
	if (form == 0) {
		for (int i = 0; i < len && rc == 0; i++) {
			do {
				if (dt_io_strpdtdur(&st, letters[ix[i]].txt) < 0) {
					rc = -1;
					break;
				}
			} while (__strpdtdur_more_p(&st));
		}
	} else {
		for (int i = 0; i < len; i++) {
			strcat(line, i ? " " : "");
			strcat(line, letters[ix[i]].txt);
		}
		do {
			if (dt_io_strpdtdur(&st, line) < 0) {
				rc = -1;
				break;
			}
		} while (__strpdtdur_more_p(&st));
	}
	if (rc == 0 && st.ndurs <= MAXDURS) {
		for (size_t i = 0; i < st.ndurs; i++) {
			out->d[i] = st.durs[i];
		}
		out->n = (int)st.ndurs;
	} else {
		rc = -1;
	}
	__strpdtdur_free(&st);
	return rc;
}

/* month step of the model for ymd / ymcw / bizda names of day RD; -1 outside the range */
static int
chain_month(int c, int rd, int months)
{
	const struct rc_day *p = rc_get(rd);
	long ym = (long)p->y * 12 + (p->m - 1) + months;
	int y = (int)(ym / 12), m = (int)(ym % 12) + 1;
	int first, len, last = -1, hit = -1, cnt = 0;

	if (y < RC_MIN_YEAR || y > RC_MAX_YEAR) {
		return -1;
	}
	first = rc_rd(y, m, 1);
	len = rc_mlen(y, m);
	if (cal_base[c] == C_YMD) {
		return first + (p->d <= len ? p->d : len) - 1;
	}
	for (int k = first; k < first + len; k++) {
		if (cal_base[c] == C_YMCW && rc_tab[k].wd == p->wd) {
			last = k;
			if (++cnt == p->mcnt) {
				hit = k;
			}
		} else if (cal_base[c] == C_BIZDA && rc_tab[k].isbd) {
			last = k;
			if (rc_tab[k].bd == p->bd) {
				hit = k;
			}
		}
	}
	return hit >= 0 ? hit : last;
}

/* model of a chain from day RD held in calendar C: the target rd, -1 outside the range,
 * -2 if the chain is not judged (month step in a calendar without months, or a bizda value
 * passing through a weekend day) */
static int
chain_model(int c, int rd, const int *ix, int len)
{
	int anchor = rd, pend = 0, havep = 0;

	for (int i = 0; i <= len; i++) {
		const struct letter_s *l = i < len ? letters + ix[i] : NULL;
		if (l && l->unit == L_MO) {
			if (!(c == C_YMD || c == C_YMCW || c == C_BIZDA)) {
				return -2;
			}
			pend += l->n;
			havep = 1;
			continue;
		}
		if (havep) {
			/* another unit follows (or the end): the months are added and cropped */
			if ((anchor = chain_month(c, anchor, pend)) < 0) {
				return -1;
			}
			pend = havep = 0;
		}
		if (l == NULL) {
			break;
		}
		switch (l->unit) {
		case L_B: anchor = bz_target(anchor, l->n); break;
		case L_D: anchor += l->n; break;
		default: anchor += 7 * l->n; break;
		}
		if (anchor < 0 || anchor >= RC_NDAYS) {
			return -1;
		}
		if (cal_base[c] == C_BIZDA && !rc_tab[anchor].isbd) {
			return -2;
		}
	}
	return anchor;
}

static uint64_t *c_chain, *c_chain_skip, *c_chain_forms;

static void
chain_key(char *key, size_t ksz, int c, const struct rc_day *p, const int *ix, int len, int form)
{
	char units[32] = "", signs[8] = "";
	for (int i = 0; i < len; i++) {
		strcat(units, i ? "," : "");
		strcat(units, lunit_name[letters[ix[i]].unit]);
		signs[i] = letters[ix[i]].n > 0 ? '+' : '-';
	}
	signs[len] = '\0';
	snprintf(key, ksz, "chain cal=%s units=%s start=%s signs=%s%s", cal_name[c], units, p->isbd ? "weekday" : "weekend", signs,
		 form ? " form=line" : "");
}

static int
do_chain(const struct rc_day *p, int c, struct dt_dt_s v, const int *ix, int len, int replay)
{
	struct durs_s ds[2];
	int trd = chain_model(c, p->rd, ix, len);
	const struct rc_day *t;
	int bad = 0, nforms;

	if (trd < 0) {
		++*(trd == -1 ? c_skip_range : c_chain_skip);
		if (replay) {
			printf("  chain not judged (%s)\n", trd == -1 ? "outside 1601..4095" : "month step without months / bizda through a weekend");
		}
		return 0;
	}
	t = rc_get(trd);
	if (chain_durs(&ds[0], ix, len, 0) < 0 || chain_durs(&ds[1], ix, len, 1) < 0) {
		fprintf(stderr, "BROKEN-CHECK: a chain of accepted duration texts is not accepted\n");
		exit(3);
	}
	/* the two forms give the same list unless the builder depends on the form */
	nforms = (ds[0].n == ds[1].n && !memcmp(ds[0].d, ds[1].d, sizeof(ds[0].d[0]) * (size_t)ds[0].n)) ? 1 : 2;
	if (nforms == 2) {
		++*c_chain_forms;
	}
	for (int f = 0; f < nforms; f++) {
		struct dt_dt_s r = apply_durs(v, &ds[f]);
		char got[NOBS][64];
		unsigned int daisy = obs_daisy(r);
		int ok;

		++*c_eval;
		++*c_trans;
		++*c_chain;
		memset(got, 0, sizeof(got));
		snprintf(got[O_DAISY], 64, "%u", daisy);
		dt_strfdt(got[O_DFLT], 64, NULL, r);
		dt_strfdt(got[O_F], 64, "%F", r);
		*c_eval += 3;
		ex_outcome(ex_hash_mix(ex_hash(got[O_DFLT], strlen(got[O_DFLT])), daisy));
		ok = !dt_unk_p(r) && daisy == (unsigned int)trd + 1U && dflt_agrees(c, t, got[O_DFLT]) && ymd_agrees(t, got[O_F]);
		if (!ok) {
			char key[160];
			bad++;
			chain_key(key, sizeof(key), c, p, ix, len, f);
			if (!ex_viol_known(key, (double)p->rd)) {
				char text[48], cas[96], cmd[256], chain[64] = "", exp[64];
				cal_text(c, p, text, sizeof(text));
				for (int i = 0; i < len; i++) {
					strcat(chain, i ? " " : "");
					strcat(chain, letters[ix[i]].txt);
				}
				snprintf(cas, sizeof(cas), "chain %d %d %d %d %d %d", c, p->rd, len, ix[0], len > 1 ? ix[1] : 0, len > 2 ? ix[2] : 0);
				if (f == 0) {
					const char *cp = dadd_cmd(cmd, sizeof(cmd), c, text, chain, NULL);
					(void)cp;
				} else {
					snprintf(cmd, sizeof(cmd), "echo '%s' | dadd%s%s%s %s", chain, cal_ifmt[c] ? " -i '" : "",
						 cal_ifmt[c] ? cal_ifmt[c] : "", cal_ifmt[c] ? "'" : "", text);
				}
				exp_dflt(c, t, exp, sizeof(exp));
				ex_viol(key, (double)p->rd, cas, c == C_DAISY ? NULL : cmd,
					"%04d-%02d-%02d (%s) given as '%s' (%s) with the durations '%s' in one invocation (%s, the tool's list has %d entries): "
					"default output '%s', %%F '%s', day count %s; applying them one after the other gives %04d-%02d-%02d (%s) = '%s'",
					p->y, p->m, p->d, rc_abbr_wday[p->wd], text, cal_name[c], chain, f ? "one string, as a stdin line" : "one argument each",
					ds[f].n, got[O_DFLT], got[O_F], got[O_DAISY], t->y, t->m, t->d, rc_abbr_wday[t->wd], exp);
			}
		}
		if (replay) {
			printf("  %04d-%02d-%02d %s (%s) form %s, list of %d: model %04d-%02d-%02d %s; dflt '%s' %%F '%s' daisy '%s' %s\n",
			       p->y, p->m, p->d, rc_abbr_wday[p->wd], cal_name[c], f ? "line" : "args", ds[f].n, t->y, t->m, t->d,
			       rc_abbr_wday[t->wd], got[O_DFLT], got[O_F], got[O_DAISY], ok ? "(agrees)" : "DISAGREES");
		}
	}
	return bad;
}

/* all chains from one start day */
static void
chains_of_day(const struct rc_day *p)
{
	int maxlen = ex.thorough ? 3 : 2;
	EX_CTR(c_tr, "traces");

	for (int c = 0; c < NCAL; c++) {
		struct dt_dt_s v;
		int ix[MAXCHAIN];
		if (c == C_BIZDAB || cal_value(c, p, &v) <= 0) {
			/* parse failures are reported by the single steps; the before-ultimo spelling is judged on the single steps */
			continue;
		}
		for (ix[0] = 0; ix[0] < NLET; ix[0]++) {
			for (ix[1] = 0; ix[1] < NLET; ix[1]++) {
				do_chain(p, c, v, ix, 2, 0);
				if (maxlen >= 3) {
					for (ix[2] = 0; ix[2] < NLET; ix[2]++) {
						do_chain(p, c, v, ix, 3, 0);
					}
				}
			}
		}
		++*c_tr;
	}
}

/* binding of the chains: the dadd binary with (a) two business-day arguments and the
 * window days (ymd) on stdin, (b) a date argument and all pairs as stdin lines */
static void
chain_binding(int job)
{
	char fin[512], fout[512], cmd[1600], line[128], key[160], cas[64];
	const char *rundir = getenv("VERIF_RUNDIR");
	FILE *f;
	EX_CTR(c_bind, "cli_binding_replays");
	EX_CTR(c_bindln, "cli_binding_lines");

	if (rundir == NULL || ex.tree == NULL) {
		return;
	}
	snprintf(fin, sizeof(fin), "%s/c07chain.%d.in", rundir, job);
	snprintf(fout, sizeof(fout), "%s/c07chain.%d.out", rundir, job);
	if (job < 14 * 14) {
		/* (a) pair of business-day letters as two arguments */
		int ix[2] = {job / 14, job % 14};
		struct durs_s ds;
		int n = 0;
		if ((f = fopen(fin, "w")) == NULL) {
			return;
		}
		for (int w = 0; w < NCWIN; w++) {
			int rd0 = rc_rd(chain_win[w][0], chain_win[w][1], chain_win[w][2]);
			for (int k = 0; k < CWIN_DAYS; k++) {
				const struct rc_day *p = rc_get(rd0 + k);
				fprintf(f, "%04d-%02d-%02d\n", p->y, p->m, p->d);
			}
		}
		fclose(f);
		snprintf(cmd, sizeof(cmd), "'%s/src/dadd' -- %s %s < '%s' > '%s' 2>/dev/null", ex.tree, letters[ix[0]].txt, letters[ix[1]].txt, fin, fout);
		if (system(cmd)) {
			;
		}
		++*c_bind;
		chain_durs(&ds, ix, 2, 0);
		snprintf(key, sizeof(key), "binding chain dadd -- %s %s < days", letters[ix[0]].txt[0] == '+' ? "+Ab" : "-Ab", letters[ix[1]].txt[0] == '+' ? "+Cb" : "-Cb");
		if ((f = fopen(fout, "r")) == NULL) {
			return;
		}
		for (int w = 0; w < NCWIN; w++) {
			int rd0 = rc_rd(chain_win[w][0], chain_win[w][1], chain_win[w][2]);
			for (int k = 0; k < CWIN_DAYS; k++) {
				const struct rc_day *p = rc_get(rd0 + k);
				struct dt_dt_s v;
				char got[64] = "";
				if (!fgets(line, sizeof(line), f)) {
					line[0] = '\0';
				}
				line[strcspn(line, "\n")] = '\0';
				n++;
				++*c_bindln;
				if (cal_value(C_YMD, p, &v) > 0) {
					dt_strfdt(got, sizeof(got), NULL, apply_durs(v, &ds));
				}
				if (strcmp(got, line)) {
					snprintf(cas, sizeof(cas), "cbind %d %d", job, p->rd);
					snprintf(cmd, sizeof(cmd), "echo %04d-%02d-%02d | dadd -- %s %s", p->y, p->m, p->d, letters[ix[0]].txt, letters[ix[1]].txt);
					ex_viol(key, p->rd, cas, cmd, "binary printed '%s', library level (same list builder) observed '%s'", line, got);
				}
			}
		}
		fclose(f);
	} else {
		/* (b) one start day as argument, every pair as a stdin line */
		int di = job - 14 * 14;
		const struct rc_day *p = rc_get(rc_rd(chain_win[di / CWIN_DAYS][0], chain_win[di / CWIN_DAYS][1], chain_win[di / CWIN_DAYS][2]) + di % CWIN_DAYS);
		struct dt_dt_s v;
		int ix[2];
		if ((f = fopen(fin, "w")) == NULL || cal_value(C_YMD, p, &v) <= 0) {
			return;
		}
		for (ix[0] = 0; ix[0] < NLET; ix[0]++) {
			for (ix[1] = 0; ix[1] < NLET; ix[1]++) {
				fprintf(f, "%s %s\n", letters[ix[0]].txt, letters[ix[1]].txt);
			}
		}
		fclose(f);
		snprintf(cmd, sizeof(cmd), "'%s/src/dadd' %04d-%02d-%02d < '%s' > '%s' 2>/dev/null", ex.tree, p->y, p->m, p->d, fin, fout);
		if (system(cmd)) {
			;
		}
		++*c_bind;
		snprintf(key, sizeof(key), "binding chain durations on stdin: dadd DATE < lines");
		if ((f = fopen(fout, "r")) == NULL) {
			return;
		}
		for (ix[0] = 0; ix[0] < NLET; ix[0]++) {
			for (ix[1] = 0; ix[1] < NLET; ix[1]++) {
				struct durs_s ds;
				char got[64] = "";
				if (!fgets(line, sizeof(line), f)) {
					line[0] = '\0';
				}
				line[strcspn(line, "\n")] = '\0';
				++*c_bindln;
				chain_durs(&ds, ix, 2, 1);
				dt_strfdt(got, sizeof(got), NULL, apply_durs(v, &ds));
				if (strcmp(got, line)) {
					snprintf(cas, sizeof(cas), "cbind %d %d", job, ix[0] * NLET + ix[1]);
					snprintf(cmd, sizeof(cmd), "echo '%s %s' | dadd %04d-%02d-%02d", letters[ix[0]].txt, letters[ix[1]].txt, p->y, p->m, p->d);
					ex_viol(key, p->rd, cas, cmd, "binary printed '%s', library level (same list builder) observed '%s'", line, got);
				}
			}
		}
		fclose(f);
	}
	unlink(fin);
	unlink(fout);
}
#define NCHAINJOBS	(14 * 14 + NCWIN * CWIN_DAYS)

/* ---- binding: the dadd binary over all days ---- */
struct bind_s {
	int cal;
	const char *dur;
	const char *ofmt;
};
static const struct bind_s binds[] = {
	{C_YMD, "+1b", NULL}, {C_YMD, "-1b", NULL}, {C_YMD, "+23b", NULL}, {C_YMD, "-260b", NULL}, {C_YMD, "-400b", NULL},
	{C_YD, "+1b", NULL}, {C_YD, "-5b", NULL},
	{C_YMCW, "+1b", NULL}, {C_YMCW, "-5b", NULL},
	{C_BIZDA, "+1b", NULL}, {C_BIZDA, "-23b", NULL},
	{C_YWD, "+1b", NULL}, {C_YWD, "-1b", NULL},
	{C_EPOCH, "+1b", "%F %a"},
	/* thorough only from here */
	{C_EPOCH, "+5b", NULL}, {C_YMCW0, "-1b", "%F"}, {C_YWD0, "+1b", "%F"},
	{C_YMD, "+5b", NULL}, {C_YMD, "-5b", NULL}, {C_YMD, "+4b", "%F %a"}, {C_YMD, "-6b", "%F %a"},
	{C_YD, "-1b", NULL}, {C_YD, "+5b", NULL}, {C_YD, "+23b", NULL}, {C_YD, "-260b", NULL},
	{C_YMCW, "-1b", NULL}, {C_YMCW, "+5b", NULL}, {C_YMCW, "+23b", NULL}, {C_YMCW, "-260b", NULL},
	{C_BIZDA, "-1b", NULL}, {C_BIZDA, "+5b", NULL}, {C_BIZDA, "-5b", NULL}, {C_BIZDA, "+260b", NULL},
	{C_BIZDA, "+7b", "%F"}, {C_YWD, "+5b", "%F"},
	{C_YD, "-400b", NULL}, {C_LDN, "-1280b", NULL}, {C_YMD, "+10000b", NULL}, {C_LDN, "+1b", NULL}, {C_JDN, "-1b", NULL}, {C_MDN, "+5b", NULL}, {C_LDN, "-23b", "%F"},
};
#define NBIND_QUICK	14
#define NBIND		((int)(sizeof(binds) / sizeof(*binds)))

static void
bind_lib(const struct bind_s *b, const struct durs_s *ds, const struct rc_day *p, char *text, size_t tsz, char *got, size_t gsz)
{
	struct dt_dt_s v;

	memset(got, 0, gsz);
	if (!bind_text(b->cal, p, text, tsz)) {
		return;
	}
	v = dt_strpdt(text, bind_ifmt(b->cal), NULL);
	if (dt_unk_p(v)) {
		return;
	}
	v = apply_durs(v, ds);
	if (!dt_unk_p(v)) {
		dt_strfdt(got, gsz, b->ofmt, v);
	}
}

static void
bind_cmdline(char *cmd, size_t csz, const struct bind_s *b, const char *tree)
{
	char pre[600] = "dadd";
	if (tree) {
		snprintf(pre, sizeof(pre), "'%s/src/dadd'", tree);
	}
	snprintf(cmd, csz, "%s%s%s%s%s%s%s -- %s", pre,
		 bind_ifmt(b->cal) ? " -i '" : "", bind_ifmt(b->cal) ? bind_ifmt(b->cal) : "", bind_ifmt(b->cal) ? "'" : "",
		 b->ofmt ? " -f '" : "", b->ofmt ? b->ofmt : "", b->ofmt ? "'" : "", b->dur);
}

static void
do_binding(int k)
{
	char fin[512], fout[512], cmd[2048], cmdline[1024], line[256], got[256], text[64], key[256], cas[64];
	const char *rundir = getenv("VERIF_RUNDIR");
	const struct bind_s *b = binds + k;
	struct durs_s ds;
	FILE *f;
	int rd, nlines = 0, nin = 0, rc;
	EX_CTR(c_bind, "cli_binding_replays");
	EX_CTR(c_bindln, "cli_binding_lines");

	if (rundir == NULL || ex.tree == NULL) {
		return;
	}
	if (mk_durs(&ds, b->dur) < 0) {
		fprintf(stderr, "BROKEN-CHECK: duration text '%s' not accepted\n", b->dur);
		exit(3);
	}
	snprintf(fin, sizeof(fin), "%s/c07bind.%d.in", rundir, k);
	snprintf(fout, sizeof(fout), "%s/c07bind.%d.out", rundir, k);
	if ((f = fopen(fin, "w")) == NULL) {
		return;
	}
	for (rd = 0; rd < RC_NDAYS; rd++) {
		if (bind_text(b->cal, rc_get(rd), text, sizeof(text))) {
			fprintf(f, "%s\n", text);
			nin++;
		}
	}
	fclose(f);
	bind_cmdline(cmdline, sizeof(cmdline), b, ex.tree);
	snprintf(cmd, sizeof(cmd), "%s < '%s' > '%s' 2>/dev/null", cmdline, fin, fout);
	rc = system(cmd);
	(void)rc;
	++*c_bind;
	bind_cmdline(cmdline, sizeof(cmdline), b, NULL);
	snprintf(key, sizeof(key), "binding dadd cal=%s dur=%s fmt=%s", cal_name[b->cal], b->dur, b->ofmt ? b->ofmt : "dflt");
	if ((f = fopen(fout, "r")) == NULL) {
		ex_viol(key, 0, "", cmdline, "no output from the binary");
		return;
	}
	for (rd = 0; rd < RC_NDAYS; rd++) {
		const struct rc_day *p = rc_get(rd);
		size_t l;
		if (!bind_text(b->cal, p, text, sizeof(text))) {
			continue;
		}
		if (!fgets(line, sizeof(line), f)) {
			break;
		}
		l = strlen(line);
		if (l && line[l - 1] == '\n') {
			line[l - 1] = '\0';
		}
		nlines++;
		bind_lib(b, &ds, p, text, sizeof(text), got, sizeof(got));
		++*c_bindln;
		if (strcmp(got, line)) {
			char one[1200];
			snprintf(cas, sizeof(cas), "bind %d %d", k, rd);
			snprintf(one, sizeof(one), "echo %s | %s", text, cmdline);
			ex_viol(key, rd, cas, one, "input line %d ('%s'): binary printed '%s', library-level exploration observed '%s'",
				nlines, text, line, got);
		}
	}
	fclose(f);
	if (nlines != nin) {
		ex_viol(key, nlines, "", cmdline, "binary printed %d lines for %d input lines", nlines, nin);
	}
	unlink(fin);
	unlink(fout);
}

static int
replay_binding(const char *cas)
{
	int k, rd;
	char text[64], cmdline[1024], cmd[1400], got[256] = "", line[256] = "";
	const struct bind_s *b;
	struct durs_s ds;
	FILE *pp;

	if (sscanf(cas, "%d %d", &k, &rd) != 2 || k < 0 || k >= NBIND || rd < 0 || rd >= RC_NDAYS) {
		return ex_replay_result(1, "bad case");
	}
	b = binds + k;
	mk_durs(&ds, b->dur);
	bind_lib(b, &ds, rc_get(rd), text, sizeof(text), got, sizeof(got));
	bind_cmdline(cmdline, sizeof(cmdline), b, ex.tree);
	snprintf(cmd, sizeof(cmd), "echo '%s' | %s 2>/dev/null", text, cmdline);
	if ((pp = popen(cmd, "r"))) {
		if (fgets(line, sizeof(line), pp)) {
			line[strcspn(line, "\n")] = '\0';
		}
		pclose(pp);
	}
	printf("  input '%s': binary '%s' library '%s'\n", text, line, got);
	return ex_replay_result(strcmp(line, got) != 0, "binding dadd cal=%s dur=%s line of rd %d", cal_name[b->cal], b->dur, rd);
}

int
main(int argc, char *argv[])
{
	EX_CTR(c_states, "states");
	EX_CTR(c_traces, "traces");

	ex_init(argc, argv);
	rc_selfcheck();
	bz_init();
	c_eval = ex_ctr("evaluations");
	c_trans = ex_ctr("transitions");
	c_nontriv = ex_ctr("nontrivial");
	c_skip_range = ex_ctr("skipped:result outside 1601-01-01..4095-12-31");
	c_memo = ex_ctr("results identical to an already observed value for the same target (not observed again)");
	c_wkstart = ex_ctr("additions starting on a Saturday or Sunday");
	c_chain = ex_ctr("chains of durations in one invocation compared");
	c_chain_skip = ex_ctr("skipped:chain with a month step in a calendar without months, or a bizda value passing through a weekend day");
	c_chain_forms = ex_ctr("chains whose duration list differs between the argument form and the one-string form (both judged)");
	mk_tables();
	mk_letters();

	if (ex.cas) {
		{
			int cc, crd, clen, cix[MAXCHAIN];
			if (sscanf(ex.cas, "chain %d %d %d %d %d %d", &cc, &crd, &clen, cix, cix + 1, cix + 2) == 6 && cc >= 0 && cc < NCAL &&
			    crd >= 0 && crd < RC_NDAYS && clen >= 2 && clen <= MAXCHAIN && cix[0] >= 0 && cix[0] < NLET && cix[1] >= 0 && cix[1] < NLET &&
			    cix[2] >= 0 && cix[2] < NLET) {
				struct dt_dt_s cv;
				if (cal_value(cc, rc_get(crd), &cv) <= 0) {
					return ex_replay_result(1, "day not accepted in calendar %s", cal_name[cc]);
				}
				return ex_replay_result(do_chain(rc_get(crd), cc, cv, cix, clen, 1) != 0, "chain cal=%s rd=%d", cal_name[cc], crd);
			}
			if (!strncmp(ex.cas, "cbind ", 6)) {
				int job = atoi(ex.cas + 6);
				if (job >= 0 && job < NCHAINJOBS) {
					chain_binding(job);
				}
				return ex_replay_result(ex.nviol != 0, "chain binding job %d", job);
			}
		}
		int c, n, rd, rcv;
		struct dt_dt_s v;
		struct durs_s ds;
		char txt[32];
		if (!strncmp(ex.cas, "bind ", 5)) {
			return replay_binding(ex.cas + 5);
		}
		if (sscanf(ex.cas, "%d %d %d", &c, &n, &rd) != 3 || c < 0 || c >= NCAL || n == 0 || rd < 0 || rd >= RC_NDAYS) {
			return ex_replay_result(1, "bad case string '%s'", ex.cas);
		}
		rcv = cal_value(c, rc_get(rd), &v);
		if (rcv <= 0) {
			printf("  day has no name / is not accepted in calendar %s\n", cal_name[c]);
			return ex_replay_result(rcv < 0, "parse cal=%s rd=%d", cal_name[c], rd);
		}
		snprintf(txt, sizeof(txt), "%+db", n);
		if (mk_durs(&ds, txt) < 0) {
			return ex_replay_result(1, "duration '%s' not accepted", txt);
		}
		return ex_replay_result(do_case(rc_get(rd), c, v, n, &ds, 1) != 0, "cal=%s %s rd=%d", cal_name[c], txt, rd);
	}

	ex_meta("rule", "every state (day, Saturdays and Sundays included) of the reference successor machine 1601-01-01..4095-12-31 x %d calendars "
		"(text through the public parser: ymd ywd yd ymcw ldn jdn mdn bizda(Monday-Friday days only); daisy = ymd text converted to the day count; epoch = the day's "
		"midnight as @SECONDS, same value as -i %%s SECONDS; ymcw-w0 / ywd-w0 = Sunday written 00 (the documented %%w; ywd-w0 read with -i %%G-W%%V-%%w), Sundays only) "
		"x signed business-day count n != 0 (text '+Nb'/'-Nb' through dt_io_strpdtdur, applied by dt_dtadd as dadd does); oracle: the result is the "
		"|n|-th Monday-Friday state strictly after (before) the start in the reference machine, observed as dt_dconv(DT_DAISY), as default output in "
		"the input's calendar (parsed fields) and as %%F; a result whose 16 bytes equal a value already observed to agree for the same (calendar, target) "
		"in the same year slice is not observed again (counted). reading: results outside 1601..4095 are outside the property. "
		"CHAIN section: several durations in ONE invocation, built by the tool's own list builder (dt_io_strpdtdur/__add_dur with one parser state, as dadd's main() "
		"and its stdin-duration mode do; both forms) and applied one after the other (dadd_add); oracle = the single-step oracles composed (consecutive month steps add up and "
		"are cropped when another unit follows or at the end; month steps only for ymd ymcw bizda; bizda chains through a weekend day skipped). "
		"non-trivial = the start is a weekend day, or a weekend lies between start and target, or the month changes", NCAL);
	ex_meta("bound", "%s tier: all 911,280 days x %d calendars x n in +-[1,%d] and +-{383,384,385,386,389,390,391,500,640,1000,1279,1280,1281,2600,5000,10000}%s; CHAIN: the 3 x 28 start days from 2023-12-18, 2024-02-15, 1999-12-20 x every "
		"held representation x all ordered %s over the alphabet {+-1..7b, +-1d, +-1w, +-1mo}, plus the dadd binary on all 196 ordered pairs of b letters (window days on stdin) and, "
		"for every start day, all 400 pairs as stdin lines; binding runs: %d",
		ex.thorough ? "thorough" : "quick", NCAL, ex.thorough ? RANGE_WIDE : RANGE_QUICK,
		ex.thorough ? "" : "; the days of the four 8-year windows 1601-08 1897-1904 1997-2004 4088-95 (their years start on every weekday, leap and non-leap) x all n in +-[1,800]",
		ex.thorough ? "pairs and triples" : "pairs", ex.thorough ? NBIND : NBIND_QUICK);
	ex_meta("ord", "ordered coordinate of a failure class (lo/hi in findings) = day ordinal rd of the TARGET state (0 = 1601-01-01; day count - 1); binding classes: rd of the input line");
	ex_meta("binding", "dadd binary of the same build, all 911,280 days (bizda: the Monday-Friday days) on stdin per (calendar, +-Nb[, -f]) entry, "
		"byte-compared with the library-level observation");

	for (int y = RC_MIN_YEAR; y <= RC_MAX_YEAR && !ex_expired_now(); y++) {
		if (!ex_mine((uint64_t)(y - RC_MIN_YEAR))) {
			continue;
		}
		memo_reset(rc_yearstart[y]);
		for (int rd = rc_yearstart[y]; rd < rc_yearstart[y + 1] && !ex_expired_now(); rd++) {
			const struct rc_day *p = rc_get(rd);
			++*c_states;
			for (int c = 0; c < NCAL; c++) {
				struct dt_dt_s v;
				int rcv = cal_value(c, p, &v);
				++*c_eval;
				if (rcv == 0) {
					continue;
				} else if (rcv < 0) {
					char key[64], text[48], cas[64];
					cal_text(c, p, text, sizeof(text));
					snprintf(key, sizeof(key), "parse cal=%s", cal_name[c]);
					snprintf(cas, sizeof(cas), "%d 1 %d", c, rd);
					ex_viol(key, rd, cas, NULL, "day %04d-%02d-%02d: text '%s' (%s) is not accepted by the parser (or yields another type)",
						p->y, p->m, p->d, text, cal_name[c]);
					continue;
				}
				for (int i = 0; i < nn; i++) {
					do_case(p, c, v, ns[i], &nd[i], 0);
				}
				if (in_w8(p->y)) {
					for (int i = 0; i < nw; i++) {
						do_case(p, c, v, ws[i], &wd[i], 0);
					}
				}
				++*c_traces;
			}
			if (ex_want_sample()) {
				ex_sample("state %04d-%02d-%02d %s (ISO %04d-W%02d-%d, bd %d%s) x %d calendars x %d signed business-day counts",
					  p->y, p->m, p->d, rc_abbr_wday[p->wd], p->isoy, p->isow, p->wd, p->bd, p->isbd ? "" : ", weekend", NCAL, nn + (in_w8(p->y) ? nw : 0));
			}
		}
	}
	/* CHAIN section: one slice per start day of the windows, then the binary runs */
	for (int di = 0; di < NCWIN * CWIN_DAYS && !ex_expired_now(); di++) {
		if (ex_mine((uint64_t)di)) {
			chains_of_day(rc_get(rc_rd(chain_win[di / CWIN_DAYS][0], chain_win[di / CWIN_DAYS][1], chain_win[di / CWIN_DAYS][2]) + di % CWIN_DAYS));
		}
	}
	for (int job = 0; job < NCHAINJOBS && !ex_expired_now(); job++) {
		if (ex_mine((uint64_t)job)) {
			chain_binding(job);
		}
	}
	{
		int nb = ex.thorough ? NBIND : NBIND_QUICK;
		for (int k = 0; k < nb && !ex_expired_now(); k++) {
			if (ex_mine((uint64_t)k)) {
				do_binding(k);
			}
		}
	}
	return ex_finish();
}
