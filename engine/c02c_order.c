/* c02c_order.c -- C02(c): a specifier's text does not depend on the specifiers before it.
 *
 * Explicit-state search over the formatter's lazily filled print record (hook H1:
 * dt_verif_strf_obs observes the record after every format element).  For every
 * (day, held representation): breadth-first search from the freshly prepared record;
 * the operation alphabet is the set of date specifiers; a state is the byte image of
 * the record; in every reached state every specifier is applied (by running the real
 * dt_strfdt on "<prefix reaching the state>|<spec>") and the text it prints must equal
 * the text it prints when it stands first.  New record images are queued until the
 * set closes -- after which specifier sequences of ANY length and order are covered. */
#include "explore.h"
#include "c02_common.h"
#include "date-core-strpf.h"

extern void (*dt_verif_strf_obs)(const void *rec, size_t recsz);

#define RECMAX	160
static unsigned char obs_rec[RECMAX];
static size_t obs_sz;
static int obs_calls;

static void
observer(const void *rec, size_t sz)
{
	obs_sz = sz < RECMAX ? sz : RECMAX;
	memcpy(obs_rec, rec, obs_sz);
	obs_calls++;
}

#define MAXSTATES	64
struct st_s {
	unsigned char rec[RECMAX];
	char prefix[256];	/* format reaching this state (elements separated by '|') */
	int depth;
};

/* label: which fields of the date record differ from the fresh one */
static void
label(char *buf, size_t bsz, const unsigned char *fresh, const unsigned char *now)
{
	const struct strpd_s *a = (const void*)fresh, *b = (const void*)now;
	buf[0] = '\0';
	if (a->y != b->y) strncat(buf, "y", bsz - strlen(buf) - 1);
	if (a->m != b->m) strncat(buf, "m", bsz - strlen(buf) - 1);
	if (a->d != b->d) strncat(buf, "d", bsz - strlen(buf) - 1);
	if (a->c != b->c) strncat(buf, "c", bsz - strlen(buf) - 1);
	if (a->w != b->w) strncat(buf, "w", bsz - strlen(buf) - 1);
	if (a->flags.u != b->flags.u) strncat(buf, "f", bsz - strlen(buf) - 1);
	if (a->b != b->b) strncat(buf, "b", bsz - strlen(buf) - 1);
	if (a->q != b->q) strncat(buf, "q", bsz - strlen(buf) - 1);
	if (buf[0] == '\0') {
		strncat(buf, memcmp(fresh, now, obs_sz) ? "other" : "fresh", bsz - 1);
	}
}

static uint64_t max_states_seen, max_depth_seen;

/* closure for one (day, H); returns number of mismatches */
static int
closure(const struct rc_day *p, int H, int replay)
{
	static struct st_s st[MAXSTATES];
	char first[C02_NSPEC][64];
	struct dt_dt_s v;
	char fmt[320], out[512];
	int nst = 0, bad = 0, ok;
	EX_CTR(c_eval, "evaluations");
	EX_CTR(c_trans, "transitions");
	EX_CTR(c_states, "states");
	EX_CTR(c_unclosed, "closures_cut_at_state_limit");

	if ((ok = held_value(H, p, &v)) <= 0) {
		EX_CTR(c_skip, "skipped:day has no name in the holding calendar");
		++*c_skip;
		return 0;
	}
	/* text of every specifier standing first */
	for (int s = 0; s < C02_NSPEC; s++) {
		memset(first[s], 0, sizeof(first[s]));
		dt_strfdt(first[s], sizeof(first[s]), c02_specs[s], v);
		++*c_eval;
	}
	/* fresh record: a format consisting of one literal */
	obs_calls = 0;
	dt_strfdt(out, sizeof(out), "|", v);
	++*c_eval;
	if (obs_calls != 1) {
		fprintf(stderr, "BROKEN-CHECK: hook H1 did not fire (built without -DDATEUTILS_VERIF?)\n");
		exit(3);
	}
	memcpy(st[0].rec, obs_rec, RECMAX);
	st[0].prefix[0] = '\0';
	st[0].depth = 0;
	nst = 1;
	for (int i = 0; i < nst; i++) {
		for (int s = 0; s < C02_NSPEC; s++) {
			const char *txt;
			int k;
			if (!p->isbd && (!strcmp(c02_specs[s], "%db") || !strcmp(c02_specs[s], "%dB"))) {
				continue;
			}
			snprintf(fmt, sizeof(fmt), "%s|%s", st[i].prefix, c02_specs[s]);
			memset(out, 0, sizeof(out));
			dt_strfdt(out, sizeof(out), fmt, v);
			++*c_eval;
			++*c_trans;
			txt = strrchr(out, '|');
			txt = txt ? txt + 1 : out;
			if (strcmp(txt, first[s])) {
				char lab[32], key[128], cas[320], cmd[512];
				label(lab, sizeof(lab), st[0].rec, st[i].rec);
				snprintf(key, sizeof(key), "order held=%s spec=%s filled=%s", held_name[H], c02_specs[s], lab);
				snprintf(cas, sizeof(cas), "%d %d %s", H, p->rd, fmt);
				snprintf(cmd, sizeof(cmd), "dconv %04d-%02d-%02d -f %s | dconv -i %s -f '%s'   (last field vs. -f '%s')",
					 p->y, p->m, p->d, held_name[H], held_name[H], fmt, c02_specs[s]);
				ex_viol(key, p->rd, cas, cmd, "day %04d-%02d-%02d held as %s: '%s' prints '%s' standing first but '%s' at the end of '%s'",
					p->y, p->m, p->d, held_name[H], c02_specs[s], first[s], txt, fmt);
				bad++;
				if (replay) {
					printf("  '%s' first: '%s'; at the end of '%s': '%s'\n", c02_specs[s], first[s], fmt, txt);
				}
			}
			/* successor state */
			for (k = 0; k < nst; k++) {
				if (!memcmp(st[k].rec, obs_rec, RECMAX)) {
					break;
				}
			}
			if (k == nst) {
				if (nst < MAXSTATES && strlen(fmt) < sizeof(st[0].prefix) - 8) {
					memcpy(st[nst].rec, obs_rec, RECMAX);
					snprintf(st[nst].prefix, sizeof(st[nst].prefix), "%s", fmt);
					st[nst].depth = st[i].depth + 1;
					if ((uint64_t)st[nst].depth > max_depth_seen) {
						max_depth_seen = (uint64_t)st[nst].depth;
					}
					nst++;
				} else {
					++*c_unclosed;
				}
			}
		}
	}
	*c_states += (uint64_t)nst;
	if ((uint64_t)nst > max_states_seen) {
		max_states_seen = (uint64_t)nst;
	}
	ex_outcome(ex_hash_mix((uint64_t)nst, (uint64_t)H));
	return bad;
}

int
main(int argc, char *argv[])
{
	EX_CTR(c_traces, "traces");
	EX_CTR(c_nontriv, "nontrivial");
	EX_CTR(c_maxst, "max_record_states_per_closure");
	EX_CTR(c_maxdp, "max_bfs_depth");

	ex_init(argc, argv);
	rc_selfcheck();
	dt_verif_strf_obs = observer;

	if (ex.cas) {
		int H, rd, n = 0;
		if (sscanf(ex.cas, "%d %d %n", &H, &rd, &n) >= 2 && H >= 0 && H < NHELD && rc_get(rd)) {
			return ex_replay_result(closure(rc_get(rd), H, 1) != 0, "closure held=%s rd=%d (first failing format was '%s')", held_name[H], rd, ex.cas + n);
		}
		return ex_replay_result(1, "bad case '%s'", ex.cas);
	}
	ex_meta("rule", "for every (day, held representation in {ymd ymcw ywd yd daisy ldn jdn mdn bizda hijri}): BFS over the images of the "
		"formatter's print record (hook H1) under the alphabet of %d date specifiers until no new image appears; in every reached state every "
		"specifier must print what it prints standing first. states = record images reached, transitions = (state, specifier) applications. "
		"non-trivial = closures that reach more than one record image (lazy fill-in happened)", C02_NSPEC);
	ex_meta("bound", "%s; closure limit %d record images (closures cut at the limit are counted, none expected)",
		ex.thorough ? "all 911,280 days" : "every day of 1897-1904, 1997-2004, 1601-1608, 4088-4095 and every 1st/15th/last day of a month of all other years", MAXSTATES);

	for (int y = RC_MIN_YEAR; y <= RC_MAX_YEAR && !ex_expired(); y++) {
		int full;
		if (!ex_mine((uint64_t)(y - RC_MIN_YEAR))) {
			continue;
		}
		full = ex.thorough || (y >= 1897 && y <= 1904) || (y >= 1997 && y <= 2004) || y <= 1608 || y >= 4088;
		for (int rd = rc_yearstart[y]; rd < rc_yearstart[y + 1]; rd++) {
			const struct rc_day *p = rc_get(rd);
			if (!full && !(p->d == 1 || p->d == 15 || p->d == p->mlen)) {
				continue;
			}
			for (int H = 0; H < NHELD; H++) {
				uint64_t before = max_states_seen;
				uint64_t s0 = *ex_ctr("states");
				closure(p, H, 0);
				(void)before;
				if (*ex_ctr("states") - s0 > 1) {
					++*c_nontriv;
				}
				++*c_traces;
			}
			if (ex_want_sample()) {
				ex_sample("closure of the print record for day %04d-%02d-%02d in 10 held representations under %d specifiers",
					  p->y, p->m, p->d, C02_NSPEC);
			}
		}
	}
	/* maxima are reported through counters: the driver sums, so only worker-local maxima of worker 0..W-1 add up;
	 * report them as meta from this worker instead */
	*c_maxst = 0;
	*c_maxdp = 0;
	ex_meta("closure_size", "worker 0 saw at most %llu record images per closure, BFS depth at most %llu",
		(unsigned long long)max_states_seen, (unsigned long long)max_depth_seen);
	return ex_finish();
}
